"""C04: encode -> decode preserves the exact sample count and starts at zero."""
import os
from . import common
from .common import SplitMix

LEVEL = "proof"
TRUSTED = ["Coq 8.16.1 kernel + vm_compute", "extraction (ExtrOcamlBasic) + ml/driver.ml",
           "harness/c04.c (linker --wrap of _ve_envelope_search to log the oracle), clang ASan/UBSan",
           "libogg 1.3.5 framing (used only to build the file vorbisfile totals are read from)",
           "psychoacoustics / envelope search: enter the model as arbitrary oracle values (theorems hold for all of them)"]

RATES = [8000, 11025, 16000, 22050, 32000, 44100, 48000, 96000]


def gen_case(rng, k, tier):
    ch = rng.choice([1, 1, 2, 2, 2, 3, 6, 8]) if not rng.chance(1, 40) else rng.choice([16, 255])
    rate = rng.choice(RATES)
    managed = 1 if rng.chance(1, 4) else 0
    q = rng.choice([-0.1, 0.0, 0.1, 0.3, 0.4, 0.5, 0.8, 1.0])
    a = b = c = 0
    if managed:
        nom = rng.choice([48000, 64000, 96000, 128000]) * max(1, ch // 2)
        b = nom
        a = rng.choice([-1, nom * 2, nom])
        c = rng.choice([-1, nom // 2, nom]) if a != -1 or rng.chance(1, 2) else -1
    kind = rng.below(7)
    maxn = 30000 if tier == "quick" else 120000
    shape = rng.below(8)
    if shape == 0:
        N = rng.choice([0, 1, 2, 31, 32, 63, 64, 65, 127, 128, 129, 255, 256, 257, 1023, 1024, 1025, 2047, 2048, 2049])
    elif shape == 1:
        N = rng.below(5000)
    else:
        N = rng.below(maxn)
    if ch > 8:
        N = min(N, 3000)
    chunks = []
    left = N
    style = rng.below(5)
    while left > 0:
        if style == 0:
            n = min(left, 1024)
        elif style == 1:
            n = min(left, rng.range(1, 17))
            if len(chunks) > 300:
                n = left
        elif style == 2:
            n = left
        elif style == 3:
            n = min(left, rng.choice([1, 63, 64, 255, 256, 1000, 2048, 4096, 8192, 20000]))
        else:
            n = min(left, rng.range(1, 5000))
        chunks.append(n)
        left -= n
    head = "case %d %d %d %d %g %d %d %d %d %d %d" % (k, ch, rate, managed, q, a, b, c, kind, rng.below(1 << 30), 0)
    meta = {"case": k, "channels": ch, "rate": rate, "managed": managed, "quality": q, "bitrates": [a, b, c],
            "signal": kind, "N": N, "chunks": len(chunks), "chunk_style": style}
    return head + "\nchunks " + " ".join(map(str, chunks)) + "\n", meta


def gen_sweep(rng, k0, tier):
    """Automaton-only sweep: EVERY N in a dense range for a few block-size pairs
    (no analysis is run, so a case costs well under a millisecond)."""
    out, metas = [], []
    k = k0
    plans = [(1, 44100, 0.4, 0, 4400 if tier == "quick" else 20000), (1, 8000, 0.1, 0, 1200 if tier == "quick" else 6000),
             (2, 22050, 0.3, 0, 2400 if tier == "quick" else 9000)]
    if tier != "quick":
        plans.append((1, 96000, 0.5, 0, 12000))
    for (ch, rate, q, lo, hi) in plans:
        for N in range(lo, hi):
            style = rng.below(4)
            chunks, left = [], N
            while left > 0:
                n = min(left, [1024, rng.range(1, 700), left, rng.choice([1, 64, 255, 256, 2048, 4096])][style])
                chunks.append(n)
                left -= n
            kind = rng.choice([0, 1, 3, 4])
            out.append("case %d %d %d 0 %g 0 0 0 %d %d 1\nchunks %s\n" % (k, ch, rate, q, kind, rng.below(1 << 30), " ".join(map(str, chunks))))
            metas.append({"case": k, "channels": ch, "rate": rate, "managed": 0, "quality": q, "signal": kind, "N": N,
                          "chunks": len(chunks), "chunk_style": style, "sweep": True})
            k += 1
    return out, metas


def check(rep, tier, seed):
    rep.assumptions = ["the application follows the documented loop: buffer(n); wrote(n) with the same n > 0; blockout until it returns 0; one wrote(0) at the end (every fifth case: wrote(-1), which lib/block.c documents as equivalent)",
                       "granule positions and counts are modelled as unbounded integers (no 2^63 wrap)"]
    rep.coverage["trusted_base"] = TRUSTED
    pr = common.prove("C04", clean=(tier == "thorough"))
    rep.proof(pr)
    exe = common.build_harness("c04", extra=["-Wl,--wrap=_ve_envelope_search"])
    rng = SplitMix(seed * 1000003 + 4)
    ncases = 96 if tier == "quick" else 1600
    texts, metas = [], []
    for k in range(ncases):
        t, m = gen_case(rng, k, tier)
        texts.append(t)
        metas.append(m)
    st, sm = gen_sweep(rng, ncases, tier)
    texts += st
    metas += sm
    # run in shards on all cores
    shards = 16
    wd = common.workdir("C04")
    import concurrent.futures as cf

    def one(i):
        return common.run_replay_pair(exe, "c04", "".join(texts[i::shards]), os.path.join(wd, "s%d" % i), timeout=3000)
    with cf.ThreadPoolExecutor(shards) as ex:
        results = list(ex.map(one, range(shards)))
    bad_prop, bad_tie = [], []
    nblocks = 0
    dist = {"setup_failed": 0, "N0": 0, "N_lt_block": 0, "managed": 0, "packets": 0, "long_blocks": 0, "short_blocks": 0}
    for i, (irc, il, ierr, mrc, ml, merr) in enumerate(results):
        if irc != 0:
            bad_prop.append({"kind": "implementation crashed / sanitizer / timeout", "rc": irc, "shard": i, "stderr": ierr[-3000:],
                             "cases_file": os.path.join(wd, "s%d" % i, "c04.cases")})
        if mrc != 0:
            bad_tie.append({"kind": "model driver failed", "rc": mrc, "stderr": merr[-2000:]})
        ic, diffs, props = common.diff_cases(il, ml)
        for d in diffs:
            d["cases_file"] = os.path.join(wd, "s%d" % i, "c04.cases")
            bad_tie.append(d)
        for k, ps in props.items():
            for p in ps:
                if "FAIL" in p:
                    bad_prop.append({"kind": p, "case": k, "meta": metas[int(k)],
                                     "cases_file": os.path.join(wd, "s%d" % i, "c04.cases")})
        for k, li in ic.items():
            m = metas[int(k)]
            pk = [l for l in li if l.startswith("P ")]
            ok = not any(l.startswith("setup") for l in li)
            if not ok:
                dist["setup_failed"] += 1
            dist["packets"] += len(pk)
            dist["long_blocks"] += sum(1 for l in pk if l.split()[1] == "1")
            dist["short_blocks"] += sum(1 for l in pk if l.split()[1] == "0")
            dist["managed"] += m["managed"]
            dist["N0"] += (m["N"] == 0)
            dist["N_lt_block"] += (0 < m["N"] < 2048)
            rep.add_case((m["channels"], m["rate"], m["managed"], m["N"], m["chunks"], tuple(pk[:50])),
                         nontrivial=ok and len(pk) > 0, sample=(m if (int(k) % 997 == 0 or not m.get("sweep")) else None))
            dist["sweep_cases"] = dist.get("sweep_cases", 0) + (1 if m.get("sweep") else 0)
    rep.coverage["rule"] = ("random (channels, rate, quality | managed triple, N, chunking, signal) through the real encoder; every "
                            "buffer/wrote/blockout step, packet and decoder step is replayed by the extracted automata with the logged "
                            "envelope-search results as oracle; plus an automaton-only sweep over EVERY N in dense ranges for several block-size pairs; non-trivial = set-up succeeded and >= 1 packet; distinct by configuration, N, chunking and window sequence")
    rep.coverage["distribution"] = dist
    if bad_prop:
        rep.violation("property fails on the implementation", {"failures": bad_prop[:10], "seed": seed,
                      "replay": "build/.../c04 <cases_file>"})
    elif bad_tie:
        rep.violation("correspondence Blocking.v <-> lib/block.c no longer holds", {"differences": bad_tie[:10], "seed": seed},
                      found_input=False)
    if not pr["ok"]:
        rep.violation("proof obligations of Properties_C04.v not discharged: " + "; ".join(pr["failed"]),
                      {"theorem_file": "coq/Properties_C04.v", "failed": pr["failed"], "log": pr["log"][-3000:]},
                      found_input=bool(bad_prop))


def replay(rep, path):
    check(rep, "quick", rep.seed)
