"""C18: independent codec instances do not interfere; results are reproducible."""
import os
import re
import concurrent.futures as cf
from . import common

LEVEL = "proof"


def run_variant(exe, args, env_extra=None, timeout=3000):
    env = common.san_env(env_extra)
    return common.run([exe] + [str(a) for a in args], timeout=timeout, env=env)


def check(rep, tier, seed):
    rep.assumptions = ["instances share no codec object; encoded input streams are shared read-only",
                       "libogg (outside the repository) is itself thread-safe for disjoint objects"]
    rep.coverage["trusted_base"] = ["Coq 8.16.1 kernel (Interleave.v theorem is generic in the step function; instantiated with the encoder/decoder/vorbisfile/bitrate models)",
                                    "harness/c18.c, pthreads, ThreadSanitizer, ASan malloc fill, clang -ftrivial-auto-var-init, stack painting between library calls (VERIF_STACKPAINT)",
                                    "data races, static storage, uninitialised reads and FPU state are runtime facts no model exhibits: they are explored, not proved"]
    pr = common.prove("C18", clean=(tier == "thorough"))
    rep.proof(pr)
    quick = tier == "quick"
    njobs, rounds, maxthr, scale = (18, 8, 12, 9000) if quick else (60, 60, 16, 40000)
    args = [seed * 7919 + 18, njobs, rounds, maxthr, scale]
    bad, info = [], {}

    def asan_fill(b):
        exe = common.build_harness("c18")
        return ("asan fill 0x%02x" % b,) + tuple(run_variant(exe, args, {"ASAN_OPTIONS": common.san_env()["ASAN_OPTIONS"] + ":max_malloc_fill_size=268435456:malloc_fill_byte=%d" % b}))

    def paint(b):
        # the plain (uninstrumented, nothing auto-initialised) build with the stack painted between library calls
        exe = common.build_harness("c18", variant="plain")
        return ("stack paint 0x%02x" % b,) + tuple(run_variant(exe, args, {"VERIF_STACKPAINT": str(b)}))

    def plainvar(v):
        exe = common.build_harness("c18", variant=v)
        return (v,) + tuple(run_variant(exe, args))

    def tsan():
        exe = common.build_harness("c18", variant="tsan")
        targs = [args[0], min(njobs, 12 if quick else 36), 4 if quick else 24, 8 if quick else 16, 5000 if quick else 15000]
        return ("tsan",) + tuple(run_variant(exe, targs, {"TSAN_OPTIONS": "halt_on_error=0:exitcode=96:second_deadlock_stack=1"}, timeout=6000))
    # builds first (serial: they share the build cache), then the runs in parallel
    for v in ("asan", "patinit", "zeroinit", "plain", "tsan"):
        common.build_harness("c18", variant=v)
    tasks = [lambda b=b: asan_fill(b) for b in (0x00, 0xAA, 0xFF, 0x7F)] + [lambda v=v: plainvar(v) for v in ("patinit", "zeroinit")] + \
            [lambda b=b: paint(b) for b in (0x00, 0xFF, 0x7F, 0x41)] + [tsan]
    with cf.ThreadPoolExecutor(len(tasks)) as ex:
        results = list(ex.map(lambda f: f(), tasks))
    groups = {"asan": [], "init": [], "paint": []}
    total_cmp = 0
    for name, rc, out, err in results:
        lines = out.split("\n")
        props = [l for l in lines if l.startswith("prop ")]
        jobs = [l for l in lines if l.startswith(("job ", "stream "))]
        m = re.search(r"rounds (\d+) comparisons (\d+)", out)
        total_cmp += int(m.group(2)) if m else 0
        info[name] = {"rc": rc, "jobs": len(jobs), "comparisons": int(m.group(2)) if m else 0}
        if name == "tsan":
            races = [l for l in err.split("\n") if "WARNING: ThreadSanitizer" in l]
            info[name]["reports"] = len(races)
            if races or rc == 96:
                bad.append({"kind": "ThreadSanitizer report while independent instances ran concurrently", "variant": name, "stderr": err[:6000], "args": targs_str(args)})
            elif rc != 0:
                bad.append({"kind": "harness failed under TSan", "rc": rc, "stderr": err[-3000:]})
        elif rc != 0:
            bad.append({"kind": "implementation crashed / sanitizer", "variant": name, "rc": rc, "stderr": err[-3000:], "args": targs_str(args)})
        for l in props:
            if "FAIL" in l:
                bad.append({"kind": l, "variant": name, "args": targs_str(args)})
        if not any(l.startswith("prop concurrent PASS") for l in props) and rc == 0 and name != "tsan":
            if not any("FAIL" in l for l in props):
                bad.append({"kind": "no verdict line from the harness", "variant": name})
        if name.startswith("asan"):
            groups["asan"].append((name, jobs))
        elif name in ("patinit", "zeroinit"):
            groups["init"].append((name, jobs))
        elif name.startswith("stack paint"):
            groups["paint"].append((name, jobs))
    for g, runs in groups.items():
        if not runs:
            continue
        ref_name, ref = runs[0]
        for name, jobs in runs[1:]:
            if jobs != ref:
                d = next((i for i in range(min(len(jobs), len(ref))) if jobs[i] != ref[i]), min(len(jobs), len(ref)))
                bad.append({"kind": "output depends on the prior contents of %s memory" % ("heap" if g == "asan" else "stack/alloca"),
                            "between": [ref_name, name], "first_difference": [ref[d] if d < len(ref) else None, jobs[d] if d < len(jobs) else None],
                            "args": targs_str(args)})
    # informational: writable file-scope objects in the library (never a violation by itself)
    try:
        d = common.build_repo("plain")
        rc, out, err = common.run(["objdump", "-t", os.path.join(d, "libvorbisall.a")], timeout=300)
        wr = sorted({l.split()[-1] for l in out.split("\n") if re.search(r"\sO\s+\.(data|bss|tbss|tdata)(\s|$)", l) and ".rel.ro" not in l})
        info["writable_file_scope_objects"] = wr
    except Exception as e:       # noqa
        info["writable_file_scope_objects"] = "scan failed: %s" % e
    for k in range(njobs):
        rep.add_case(("job", k, seed), nontrivial=True)
    rep.coverage["evaluations"] = total_cmp + njobs * 6
    rep.coverage["rule"] = ("%d jobs (encoder 11 configurations incl. managed, 5.1 and 64-192 kHz, signals incl. near-silent (-140 dBFS) stretches, packet decoder, vorbisfile handle with 16-bit/float reads and every seek kind on chained "
                            "streams) run solo twice, then in %d rounds of 2..%d threads with random yields (every 4th round: the same jobs in all threads; one extra thread "
                            "runs with FE_UPWARD); every byte/sample/return code hashed and compared with the solo run; the whole program repeated with malloc fill 0x00/0xAA/"
                            "0xFF/0x7F (ASan), with clang auto-var-init pattern vs zero (stack + alloca), and on an uninstrumented build with the stack painted 0x00/0xFF/0x7F/0x41 "
                            "between library calls, hashes compared across; ThreadSanitizer build for data races"
                            % (njobs, rounds, maxthr))
    rep.coverage["distribution"] = info
    if bad:
        rep.violation("property fails on the implementation", {"failures": bad[:10], "seed": seed,
                                                               "replay_cmd": "harness c18 " + targs_str(args)})
    if not pr["ok"]:
        rep.violation("proof obligations of Properties_C18.v not discharged: " + "; ".join(pr["failed"]),
                      {"theorem_file": "coq/Properties_C18.v", "failed": pr["failed"], "log": pr["log"][-3000:]},
                      found_input=bool(bad))


def targs_str(args):
    return " ".join(str(a) for a in args)


def replay(rep, path):
    check(rep, "quick", rep.seed)
