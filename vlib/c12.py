"""C12: I/O failures surface as error codes and leave the handle usable."""
import os
import concurrent.futures as cf
from . import common, vfx, vfgen, streams
from .common import SplitMix

LEVEL = "proof"


def check(rep, tier, seed):
    rep.assumptions = ["a zero-byte read without errno is end of data by the callback contract: during OPEN the library legitimately opens what it was shown "
                       "(the recovery clause applies to failures after a successful open, as the property says)",
                       "a failing seek at the seekability probe means 'not seekable'"]
    rep.coverage["trusted_base"] = vfx.TRUSTED + ["harness/c12.c (fault-injecting callbacks, clean twin handle)"]
    pr = common.prove("C12", clean=(tier == "thorough"))
    rep.proof(pr)
    exe = common.build_harness("c12")
    rng = SplitMix(seed * 1000003 + 12)
    wd = common.workdir("C12")
    nfiles = 16 if tier == "quick" else 120
    files = vfx.make_files(rng, nfiles, tier, wd, small=True)
    texts, metas = [], []
    for k, fi in enumerate(files):
        total = sum(fi["Ns"])
        nb = len(fi["data"])
        r = SplitMix(seed * 7919 + k)
        lines = ["case %d %s" % (k, fi["data"].hex())]
        kmax_open = 90 if tier == "quick" else 400
        nsc = 0
        for kind in (1, 2, 3, 4, 5):
            for persist in (0, 1):
                ks = list(range(1, 26)) + sorted(set(r.range(26, kmax_open) for _ in range(14)))
                for kk in ks:
                    lines.append("sc open %d %d %d" % (kind, persist, kk))
                    nsc += 1
                for kk in list(range(1, 9)) + [r.range(9, 40) for _ in range(3)]:
                    p1, p2 = r.below(total + 1), r.below(total + 1)
                    lines.append("sc reads %d %d %d rf:4096 rf:4096 rf:100000 rf:7 rf:4096" % (kind, persist, kk))
                    lines.append("sc pseek %d %d %d ps:%d rf:100 ps:%d rf:10" % (kind, persist, kk, p1, p2))
                    lines.append("sc page %d %d %d pp:%d rf:100 rs:%d rf:1 ts:%.6f" % (kind, persist, kk, p1, r.below(nb + 1), r.below(1000) / 1000.0 * total / 48000.0))
                    lines.append("sc lap %d %d %d rf:50 pl:%d rf:10 hr:%d ps:%d rf:5" % (kind, persist, kk, p2, r.below(2), p1))
                    tsec = r.below(1000) / 1000.0 * total / 48000.0
                    lines.append("sc tlap %d %d %d rf:50 %s:%.6f rf:10 %s:%d rf:5" % (kind, persist, kk, r.choice(["tl", "tq", "tp"]), tsec, r.choice(["ql", "rl"]), r.below(min(total, nb) + 1)))
                    nsc += 5
        texts.append("\n".join(lines) + "\n")
        metas.append({"case": k, "Ns": fi["Ns"], "kinds": fi["kinds"], "bytes": nb, "scenarios": nsc})
    shards = 16

    def one(i):
        cfile = os.path.join(wd, "s%d.cases" % i)
        with open(cfile, "w") as f:
            f.write("".join(texts[i::shards]))
        return common.run([exe, cfile], env=common.san_env(), timeout=3000) + (cfile,)
    with cf.ThreadPoolExecutor(shards) as ex:
        results = list(ex.map(one, range(shards)))
    bad_prop = []
    dist = {"scenarios": 0, "faulted_calls": 0, "recovered_compared": 0, "open_failed": 0}
    for (rc, out, err, cfile) in results:
        if rc != 0:
            bad_prop.append({"kind": "implementation crashed / sanitizer / watchdog (hang)", "rc": rc, "stderr": err[-3000:], "cases_file": cfile,
                             "last_output": out[-400:]})
        ic = common.split_cases(out.split("\n"))
        for k, li in ic.items():
            m = metas[int(k)]
            for l in li:
                if l.startswith("prop ") and "FAIL" in l:
                    bad_prop.append({"kind": l, "case": k, "meta": m, "cases_file": cfile})
                if l.startswith("S "):
                    kv = dict(x.split("=") for x in l.split()[1:])
                    dist["scenarios"] += int(kv["scenarios"])
                    dist["faulted_calls"] += int(kv["faulted_calls"])
                    dist["recovered_compared"] += int(kv["recovered"])
                    dist["open_failed"] += int(kv["openfails"])
            rep.add_case((tuple(m["Ns"]), m["bytes"]), nontrivial=True, sample=m if int(k) % 5 == 0 else None)
    # count scenarios as evaluations (each is a distinct (file, scenario, kind, persist, k))
    rep.coverage["evaluations"] = dist["scenarios"]
    rep.coverage["rule"] = ("per file: for each fault kind (read error with errno, premature zero read, one-byte reads, seek -1, tell -1), one-shot and persisting, "
                            "the fault strikes at callback invocation k (k = 1..25 and sampled up to 90/400 during open; 1..8 and sampled during read / pcm-seek / "
                            "page+raw+time seek / lapped-seek+half-rate scenarios); every call must return a documented code, terminate, not close the source; a failed "
                            "open leaves the handle zeroed; afterwards seeks to 0, L/3, L-1, L and reads are compared bit for bit with a never-faulted twin; "
                            "distinct = files; every file non-trivial")
    rep.coverage["distribution"] = dist
    if bad_prop:
        rep.violation("property fails on the implementation", {"failures": bad_prop[:10], "seed": seed})
    if not pr["ok"]:
        rep.violation("proof obligations of Properties_C12.v not discharged: " + "; ".join(pr["failed"]),
                      {"theorem_file": "coq/Properties_C12.v", "failed": pr["failed"], "log": pr["log"][-3000:]},
                      found_input=bool(bad_prop))


def replay(rep, path):
    check(rep, "quick", rep.seed)
