"""C20: half-rate decoding halves the sample count and keeps positions truthful."""
import os
from . import common, vfx, vfgen, streams
from .common import SplitMix

LEVEL = "proof"


def check(rep, tier, seed):
    rep.assumptions = ["intact seekable streams; in streaming mode the flag is toggled before the first read only (as the property says)"]
    rep.coverage["trusted_base"] = vfx.TRUSTED
    pr = common.prove("C20", clean=(tier == "thorough"))
    rep.proof(pr)
    rng = SplitMix(seed * 1000003 + 20)
    wd = common.workdir("C20")
    nfiles = 48 if tier == "quick" else 900
    nops = 36 if tier == "quick" else 120
    # streams whose beginning is trimmed by an odd count put every position on the odd grid: out of this check's scope (DESIGN.md)
    files = vfx.make_files(rng, nfiles, tier, wd, small=True, allow_trim_begin="even")
    cases = []
    for k, fi in enumerate(files):
        r = SplitMix(seed * 7919 + k)
        ops = vfx.ops_for(r, fi, nops)
        # toggle half-rate at random points of the history (both directions, repeated)
        out = []
        for o in ops:
            if r.chance(1, 7):
                out.append("hr:%d" % r.below(2))
            out.append(o)
        hs0 = r.below(2)
        total = sum(fi["Ns"])
        # finish with a full linear read under a known setting to count ceil(N/2) per link
        out += ["hr:1", "ps:0"] + ["rf:100000"] * min(1500, total // 16 + 30)
        text = "case %d 1 %d %d %d %s\nops %s\n" % (k, r.choice([0, 0, 7, 255]), k, hs0, fi["data"].hex(), " ".join(out))
        cases.append((text, {"case": k, "Ns": fi["Ns"], "kinds": fi["kinds"], "bytes": len(fi["data"]), "hs_at_open": hs0,
                             "ops": " ".join(out)[:300]}))
    results = vfx.run_cases("C20", cases, wd)
    dist = {}
    bad_prop, bad_tie = vfx.classify(results, [c[1] for c in cases], wd, rep, dist)
    # ceil(N/2) per link in the final linear read (when half-rate could be switched on), N otherwise
    for i, (irc, il, ierr, mrc, ml, merr) in enumerate(results):
        cur, refn, got, counting, hs_on, refused = None, [], {}, False, 0, 0
        def close_case():
            if cur is None or not counting:
                return
            exp = {j: ((n + 1) // 2 if hs_on else n) for j, n in enumerate(refn) if n > 0}
            if got != exp:
                bad_prop.append({"kind": "final linear read: per-link counts are not ceil(N/2) (N when refused)", "case": cur, "half": hs_on,
                                 "expected": exp, "got": got, "cases_file": os.path.join(wd, "s%d" % i, "vf.cases")})
        for l in il:
            if l.startswith("case "):
                close_case()
                cur, refn, got, counting, hs_on = l[5:].strip(), [], {}, False, 0
            elif l.startswith("ref "):
                refn = [int(x.split(":")[0]) for x in l.split()[2:]]
            elif l.startswith("op hr:"):
                t = l.split()
                try:
                    flag, rc = int(t[1][3:]), int(t[3])
                except (ValueError, IndexError):
                    continue
                if rc == 0:
                    hs_on = 1 if flag else 0
                else:
                    dist["refused"] = dist.get("refused", 0) + 1
                dist["toggles"] = dist.get("toggles", 0) + 1
                counting = False
                got = {}
            elif l.startswith("op ps:0 "):
                counting = True
                got = {}
            elif l.startswith("op rf:") and counting:
                t = l.split()
                try:
                    rc, lk = int(t[3]), int(t[-1])
                except (ValueError, IndexError):
                    continue          # line cut short by a crash/watchdog: reported through the exit status
                if rc > 0:
                    got[lk] = got.get(lk, 0) + rc
            elif l.startswith("op ") and counting and not l.startswith("op rf:"):
                counting = False
        close_case()
    rep.coverage["rule"] = ("chained files x random seek/read histories with ov_halfrate toggled at random points (on/off/on, refused when a link has 64-sample "
                            "blocks); after every toggle positions, state and counts compared with VFile.v; every read compared bit for bit with a packet-level "
                            "decode that had the current setting from the start; a final linear read must deliver ceil(N/2) per link; non-trivial = a seek succeeded")
    rep.coverage["distribution"] = dist
    if bad_prop:
        rep.violation("property fails on the implementation", {"failures": bad_prop[:10], "seed": seed})
    elif bad_tie:
        rep.violation("correspondence VFile.v <-> lib/vorbisfile.c no longer holds", {"differences": bad_tie[:10], "seed": seed},
                      found_input=False)
    if not pr["ok"]:
        rep.violation("proof obligations of Properties_C20.v not discharged: " + "; ".join(pr["failed"]),
                      {"theorem_file": "coq/Properties_C20.v", "failed": pr["failed"], "log": pr["log"][-3000:]},
                      found_input=bool(bad_prop))


def replay(rep, path):
    check(rep, "quick", rep.seed)
