"""Shared runner for the vorbisfile checks (C07 C08 C09 C10 C19 C20): builds
physical streams, runs harness/vf.c and the VFile.v model, classifies."""
import os
import concurrent.futures as cf
from . import common, streams, vfgen
from .common import SplitMix

TRUSTED = ["Coq 8.16.1 kernel + vm_compute", "extraction (ExtrOcamlBasic) + ml/driver.ml",
           "harness/vf.c: page table obtained with libogg's own sync/stream layer; packet-level reference decode",
           "libogg 1.3.5 (page sync, CRC, packet assembly): abstracted in VFile.v to the page table",
           "byte-level page search and bisection of vorbisfile are abstracted to their result on the page table",
           "vlib/streams.py + harness/mkogg.c (stream generators)"]


def make_files(rng, nfiles, tier, wd, max_links=4, enc_pool=12, small=False, allow_trim_begin=True):
    """Returns list of dict(data, Ns, pages) : chained files mixing real-encoder and hand-made links."""
    specs = []
    for i in range(enc_pool):
        # serial numbers of every class: small, just below / at / above 2^31, near 2^32
        specs.append((rng.choice([1000, 1000, 0x7ffffff0, 0x80000000, 0xc0000000, 0xffffff00]) + i, rng.choice([1, 2]), rng.choice([8000, 22050, 44100]), rng.choice([0.0, 0.3, 0.6]),
                      rng.choice([0, 1, 500, 3000, 12000, 30000] if not small else [0, 1, 300, 2000, 5000]),
                      rng.below(5), rng.below(1 << 30), rng.choice([0, 0, 1, 3])))
    enc = vfgen.encode_links(specs, wd)
    files = []
    for k in range(nfiles):
        nl = rng.choice([1, 1, 2, 2, 3, max_links])
        data, Ns, used, kinds, goffs = b"", [], set(), [], []
        serials = set()          # serial numbers must be unique within a physical stream (Ogg framing rule)
        for li in range(nl):
            d = None
            if rng.chance(1, 3):
                j = rng.below(len(enc))
                if j not in used and enc[j] and (specs[j][0] & 0xffffffff) not in serials:
                    used.add(j)
                    d, N = enc[j], specs[j][4]
                    serials.add(specs[j][0] & 0xffffffff)
                    kinds.append("enc")
                    goffs.append(0)
            if d is None:
                ser = rng.choice([5000, 5000, 0x7fff0000, 0x80000000, 0xfff00000]) + (k * 10 + li) % 60000
                if rng.chance(1, 10) and 0xffffffff not in serials:
                    ser = 0xffffffff          # the all-ones serial number (-1 as a signed 32-bit value)
                while (ser & 0xffffffff) in serials:
                    ser += 100003
                serials.add(ser & 0xffffffff)
                d, m = vfgen.handmade_link(rng, ser, small=small, allow_trim_begin=allow_trim_begin)
                N = m["N"]
                kinds.append("hand")
                goffs.append(m.get("gran_offset", 0))
            data += d
            Ns.append(N)
        pages = streams.parse_pages(data)
        files.append({"data": data, "Ns": Ns, "pages": pages, "kinds": kinds, "goffs": goffs})
    return files


def ops_for(rng, fi, nops):
    Ns = fi["Ns"]
    total = sum(Ns)
    bounds = [sum(Ns[:j]) for j in range(len(Ns) + 1)]
    grans, base, li = [], 0, 0
    for p in fi["pages"]:
        if p["flags"] & 2 and p["offset"] > 0:
            li += 1
            base = bounds[min(li, len(Ns))]
        if p["granule"] > 0:
            grans.append(base + p["granule"])
    return vfgen.gen_ops(rng, total, len(fi["data"]), nops, bounds, [p["offset"] for p in fi["pages"]], grans)


def run_cases(pid, cases, wd, shards=16, timeout=3000):
    """cases: list of (text, meta).  Returns (results per shard, metas)."""
    exe = common.build_harness("vf")
    common.build_model()
    texts = [c[0] for c in cases]

    def one(i):
        return common.run_replay_pair(exe, "vf", "".join(texts[i::shards]), os.path.join(wd, "s%d" % i), timeout=timeout)
    with cf.ThreadPoolExecutor(shards) as ex:
        return list(ex.map(one, range(shards)))


def classify(results, metas, wd, rep, dist, known_keys=()):
    """Fills rep; returns (bad_prop, bad_tie)."""
    bad_prop, bad_tie = [], []
    for i, (irc, il, ierr, mrc, ml, merr) in enumerate(results):
        cfile = os.path.join(wd, "s%d" % i, "vf.cases")
        if irc != 0:
            bad_prop.append({"kind": "implementation crashed / sanitizer / watchdog", "rc": irc, "stderr": ierr[-3000:], "cases_file": cfile})
        if mrc != 0:
            bad_tie.append({"kind": "model driver failed", "rc": mrc, "stderr": merr[-2000:]})
        ic, diffs, props = common.diff_cases(il, ml)
        for d in diffs:
            d["cases_file"] = cfile
            for key in ("impl", "model"):
                if d.get(key):
                    d[key] = d[key][:300]
            d["context"] = [c[:200] for c in d.get("context", [])]
            bad_tie.append(d)
        for k, ps in props.items():
            for p in ps:
                if "FAIL" in p:
                    bad_prop.append({"kind": p, "case": k, "meta": metas[int(k)], "cases_file": cfile})
        mcases = common.split_cases(ml)
        for k, li in ic.items():
            m = metas[int(k)]
            ops = [l for l in li if l.startswith("op ")]
            # theorem C07_pcm_seek_checked: where its executable hypotheses hold (model-only `thm` lines, one per
            # sample seek in order) the implementation must report success and exactly the target
            for l in mcases.get(k, []):
                if l.startswith("tho "):
                    dist["opens"] = dist.get("opens", 0) + 1
                    dist["opens_start_theorem_applies"] = dist.get("opens_start_theorem_applies", 0) + (l.split()[1] == "1")
            thm = [l.split() for l in mcases.get(k, []) if l.startswith(("thm ", "thmh "))]
            psi = [i for i, l in enumerate(ops) if l.split()[1].startswith(("ps:", "ts:"))]
            pss = [ops[i].split() for i in psi]
            if len(thm) == len(pss):
                for t, o, oi in zip(thm, pss, psi):
                    dist["sample_seeks"] = dist.get("sample_seeks", 0) + 1
                    if t[2] in ("1", "2", "3"):
                        half = t[0] == "thmh"
                        if t[2] in ("2", "3"):      # only C07_pcm_seek_checked_to_link_end applies (run closed by the end-of-stream packet)
                            dist["sample_seeks_link_end_theorem_applies"] = dist.get("sample_seeks_link_end_theorem_applies", 0) + 1
                        if t[2] == "3":
                            # C08_seek_to_end_then_end_of_file: target = end of the last link, nothing after the run: a read that follows
                            # directly must report end of file
                            dist["seeks_to_end_theorem_applies"] = dist.get("seeks_to_end_theorem_applies", 0) + 1
                            nxt = ops[oi + 1].split() if oi + 1 < len(ops) else None
                            if nxt and nxt[1].startswith("rf:"):
                                dist["seeks_to_end_followed_by_read"] = dist.get("seeks_to_end_followed_by_read", 0) + 1
                                if nxt[3] != "0":
                                    bad_prop.append({"kind": "the hypotheses of theorem C08_seek_to_end_then_end_of_file hold for %s but the read that follows answers: %s"
                                                             % (t[1], " ".join(nxt[:8])), "case": k, "meta": m, "cases_file": cfile})      # C20_half_rate_seek_checked: position in (target - 2, target]
                        dist["sample_seeks_theorem_applies" + ("_half_rate" if half else "")] = dist.get("sample_seeks_theorem_applies" + ("_half_rate" if half else ""), 0) + 1
                        # a time seek carries the converted sample target as a fourth field
                        tgt = int(t[3]) if t[1].startswith("ts:") else int(t[1][3:])
                        landed_ok = (tgt - 2 < int(o[5]) <= tgt) if half else (int(o[5]) == tgt)
                        if t[1] != o[1] or o[3] != "0" or not landed_ok:
                            bad_prop.append({"kind": "the hypotheses of theorem C07_pcm_seek_checked / C07_pcm_seek_checked_to_link_end / C20_half_rate_seek_checked hold for %s (intact run reaching the target) "
                                                     "but the implementation answers: %s" % (t[1], " ".join(o[:8])), "case": k, "meta": m, "cases_file": cfile})
            # theorem C19_lapped_seek_lands_on_target (model-only `thml` lines, one per pl: op in order)
            thl = [l.split() for l in mcases.get(k, []) if l.startswith("thml ")]
            pls = [l.split() for l in ops if l.split()[1].startswith("pl:")]
            if len(thl) == len(pls):
                for t, o in zip(thl, pls):
                    dist["lapped_sample_seeks"] = dist.get("lapped_sample_seeks", 0) + 1
                    if t[2] == "1":
                        dist["lapped_sample_seeks_theorem_applies"] = dist.get("lapped_sample_seeks_theorem_applies", 0) + 1
                        if t[1] != o[1] or o[3] != "0" or int(o[5]) != int(t[1][3:]):
                            bad_prop.append({"kind": "the hypotheses of theorem C19_lapped_seek_lands_on_target hold for %s but the implementation answers: %s"
                                                     % (t[1], " ".join(o[:8])), "case": k, "meta": m, "cases_file": cfile})
            for l in ops:
                t = l.split()[1][:2]
                dist["ops_" + t] = dist.get("ops_" + t, 0) + 1
                if " | 0 " in l and t in ("ps", "pp", "rs"):
                    dist["seeks_ok"] = dist.get("seeks_ok", 0) + 1
            dist["pages"] = dist.get("pages", 0) + sum(1 for l in li if l.startswith("pg "))
            dist["links"] = dist.get("links", 0) + len(m.get("Ns", []))
            rep.add_case((m.get("Ns"), m.get("kinds"), tuple(ops[:40])), nontrivial=any(" | 0 " in l for l in ops) or bool(m.get("nontrivial")),
                         sample=m if int(k) % 23 == 0 else None)
    return bad_prop, bad_tie
