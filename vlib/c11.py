"""C11: a damaged or skipped packet disturbs only its own neighbourhood."""
import os
import concurrent.futures as cf
from . import common, streams
from .common import SplitMix

LEVEL = "proof"
TRUSTED = ["Coq 8.16.1 kernel + vm_compute", "extraction (ExtrOcamlBasic) + ml/driver.ml (float32 emulation by rounding doubles)",
           "harness/c11.c, clang ASan/UBSan", "vlib/streams.py (hand-made headers used to reach every block-size pair)",
           "per-packet spectral decode (floor/residue/IMDCT) is not in this model: its statelessness is checked by the disturbance oracle on real streams"]

SIZES = [64, 128, 256, 512, 1024, 2048, 4096, 8192]


def gen_ovl(rng, k, tier):
    bs0 = rng.choice(SIZES)
    bs1 = rng.choice([b for b in SIZES if b >= bs0])
    if tier == "quick" and bs1 > 2048 and rng.chance(2, 3):
        bs1 = max(bs0, 1024)
    hs = 1 if (bs0 >= 128 and rng.chance(1, 3)) else 0
    ch = rng.choice([1, 1, 2])
    su = streams.minimal_setup()
    hdr = [streams.id_header(ch, 44100, bs0, bs1).hex(), streams.comment_header().hex(), streams.setup_header(su, ch).hex()]
    nops = rng.range(4, 14 if bs1 > 2048 else 28)
    toks = []
    g = 0
    lastW = None
    bs = [bs0, bs1]
    for i in range(nops):
        r = rng.below(20)
        if r == 0:
            toks.append("r")
            lastW = None
            continue
        if r == 1:
            toks.append("L")
            continue
        W = rng.below(2) if bs0 != bs1 else rng.below(2)
        if lastW is not None:
            g += bs[lastW] // 4 + bs[W] // 4
        else:
            g = g if rng.chance(1, 2) else 0
        gran = g
        m = rng.below(12)
        if m == 0:
            gran = -1
        elif m == 1:
            gran = g - rng.below(3000)           # backdated
        elif m == 2:
            gran = g + rng.below(3000)
        elif m == 3:
            gran = rng.choice([-2, -100000, 1 << 40, -(1 << 40)])
        sd = 1 if rng.chance(9, 10) else rng.choice([0, 2, 5])
        eos = 1 if rng.chance(1, 12) else 0
        kind = "b"
        if rng.chance(1, 12):
            kind = "t"
        if rng.chance(1, 15):
            kind = kind.upper()                  # leave the output unread: the next blockin must refuse
        toks.append("%s:%d:%d:%d:%d" % (kind, W, gran, sd, eos))
        if kind in "bB":
            lastW = W
    text = "ovl %d %d %d %d %d %d %s %s %s\nops %s\n" % (k, bs0, bs1, hs, ch, rng.below(1 << 30), hdr[0], hdr[1], hdr[2], " ".join(toks))
    return text, {"case": k, "kind": "overlap", "bs0": bs0, "bs1": bs1, "hs": hs, "ch": ch, "ops": " ".join(toks)[:200]}


def gen_dist(rng, k, tier):
    ch = rng.choice([1, 2, 2, 3, 6])
    rate = rng.choice([8000, 22050, 44100, 48000])
    q = rng.choice([0.0, 0.3, 0.5, 0.9])
    N = rng.range(9000, 40000 if tier == "quick" else 120000)
    nd = 16 if tier == "quick" else 60
    text = "dist %d %d %d %g %d %d %d %d\n" % (k, ch, rate, q, N, rng.below(4), rng.below(1 << 30), nd)
    return text, {"case": k, "kind": "disturbance", "channels": ch, "rate": rate, "quality": q, "N": N, "disturbances": nd}


def check(rep, tier, seed):
    rep.assumptions = ["block sizes are powers of two 64..8192 (enforced by the header parser; SizesOK is proved from it)",
                       "the application calls blockin only after vorbis_synthesis returned 0 (as every example does)"]
    rep.coverage["trusted_base"] = TRUSTED
    pr = common.prove("C11", clean=(tier == "thorough"))
    rep.proof(pr)
    exe = common.build_harness("c11")
    rng = SplitMix(seed * 1000003 + 11)
    n_ovl = 160 if tier == "quick" else 3000
    n_dist = 32 if tier == "quick" else 400
    texts, metas = [], []
    for k in range(n_ovl):
        t, m = gen_ovl(rng, k, tier)
        texts.append(t)
        metas.append(m)
    for k in range(n_ovl, n_ovl + n_dist):
        t, m = gen_dist(rng, k, tier)
        texts.append(t)
        metas.append(m)
    shards = 16
    wd = common.workdir("C11")

    def one(i):
        return common.run_replay_pair(exe, "c11", "".join(texts[i::shards]), os.path.join(wd, "s%d" % i), timeout=3000)
    with cf.ThreadPoolExecutor(shards) as ex:
        results = list(ex.map(one, range(shards)))
    bad_prop, bad_tie = [], []
    dist = {"overlap_cases": 0, "disturbance_cases": 0, "blockins": 0, "lapouts": 0, "restarts": 0, "einval": 0,
            "packets_disturbed_streams": 0, "disturbances": 0}
    for i, (irc, il, ierr, mrc, ml, merr) in enumerate(results):
        cfile = os.path.join(wd, "s%d" % i, "c11.cases")
        if irc != 0:
            bad_prop.append({"kind": "implementation crashed / sanitizer / timeout", "rc": irc, "stderr": ierr[-3000:], "cases_file": cfile})
        if mrc != 0:
            bad_tie.append({"kind": "model driver failed", "rc": mrc, "stderr": merr[-2000:]})
        ic, diffs, props = common.diff_cases(il, ml)
        for d in diffs:
            d["cases_file"] = cfile
            for key in ("impl", "model"):
                if d.get(key):
                    d[key] = d[key][:400]
            d["context"] = [c[:200] for c in d.get("context", [])]
            # a different SAMPLE or state on well-formed input = the two-packet
            # overlap-add specification (C11_two_packets_determine_output) is not met
            bad_tie.append(d)
        for k, ps in props.items():
            for p in ps:
                if "FAIL" in p:
                    bad_prop.append({"kind": p, "case": k, "meta": metas[int(k)], "cases_file": cfile})
        for k, li in ic.items():
            m = metas[int(k)]
            if m["kind"] == "overlap":
                dist["overlap_cases"] += 1
                nb = sum(1 for l in li if l.startswith("B "))
                dist["blockins"] += nb
                dist["lapouts"] += sum(1 for l in li if l.startswith("L "))
                dist["restarts"] += sum(1 for l in li if l.startswith("R "))
                dist["einval"] += sum(1 for l in li if l.startswith("B ") and "| 0 -131" in l)
                rep.add_case((m["bs0"], m["bs1"], m["hs"], m["ch"], m["ops"]), nontrivial=nb >= 2, sample=m if int(k) % 37 == 0 else None)
            else:
                dist["disturbance_cases"] += 1
                s = [l for l in li if l.startswith("S ")]
                if s:
                    kv = dict(x.split("=") for x in s[0].split()[1:])
                    dist["packets_disturbed_streams"] += int(kv["packets"])
                    dist["disturbances"] += int(kv["disturbances"])
                rep.add_case(tuple(sorted(m.items())), nontrivial=bool(s), sample=m if int(k) % 11 == 0 else None)
    rep.coverage["rule"] = ("(a) random op sequences (blockin with injected PCM, trackonly, restart, lapout, unread output, sequence gaps, "
                            "adversarial granule positions) over all block-size pairs 64..8192, half-rate on/off, replayed through Blocking.v+Overlap.v "
                            "and compared state by state and sample by sample (bit exact); (b) drop/duplicate/truncate/bit-flip/randomise/restart "
                            "disturbances of real encoder streams compared bit for bit from the second packet after the disturbance; "
                            "non-trivial = >= 2 blockins resp. a stream that encoded")
    rep.coverage["distribution"] = dist
    if bad_prop:
        rep.violation("property fails on the implementation", {"failures": bad_prop[:10], "seed": seed})
    elif bad_tie:
        rep.violation("correspondence Blocking.v/Overlap.v <-> lib/block.c no longer holds", {"differences": bad_tie[:10], "seed": seed},
                      found_input=False)
    if not pr["ok"]:
        rep.violation("proof obligations of Properties_C11.v not discharged: " + "; ".join(pr["failed"]),
                      {"theorem_file": "coq/Properties_C11.v", "failed": pr["failed"], "log": pr["log"][-3000:]},
                      found_input=bool(bad_prop))


def replay(rep, path):
    check(rep, "quick", rep.seed)
