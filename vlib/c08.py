"""C08: seeks reach every valid target and land where the API says."""
import os
from . import common, vfx, vfgen, streams
from .common import SplitMix

LEVEL = "proof"


def check(rep, tier, seed):
    rep.assumptions = ["intact physical streams", "a time seek to exactly t = total duration may be rejected (DESIGN.md section 9, interpretation)"]
    rep.coverage["trusted_base"] = vfx.TRUSTED
    pr = common.prove("C08", clean=(tier == "thorough"))
    rep.proof(pr)
    rng = SplitMix(seed * 1000003 + 8)
    wd = common.workdir("C08")
    nfiles = 24 if tier == "quick" else 300
    files = vfx.make_files(rng, nfiles, tier, wd, small=True)
    cases = []
    k = 0
    for fi in files:
        total = sum(fi["Ns"])
        r = SplitMix(seed * 7919 + k)
        # (a) EVERY sample-accurate target 0..L on small files, each after a random prior op
        targets = list(range(0, total + 1)) if total <= 4000 else sorted(set(r.below(total + 1) for _ in range(1500)) | {0, total})
        chunk = 400
        for c0 in range(0, len(targets), chunk):
            ops = []
            for p in targets[c0:c0 + chunk]:
                pre = r.below(6)
                if pre == 0:
                    ops.append("rs:%d" % r.below(len(fi["data"]) + 1))
                elif pre == 1:
                    ops.append("pp:%d" % r.below(total + 1))
                elif pre == 2:
                    ops.append("rf:%d" % r.choice([1, 100, 5000]))
                ops.append(r.choice(["ps:%d", "ps:%d", "pp:%d"]) % p)
                ops.append("rf:%d" % r.choice([1, 3, 64]))
            if total > 0 and len(fi["Ns"]) >= 1:
                ops.append("ps:%d" % total)
                ops.append("rf:10")
                ops += ["ps:-1", "ps:%d" % (total + 1), "pp:%d" % (total + 1), "rs:-1", "rs:%d" % (len(fi["data"]) + 1), "rf:2"]
                # the lapped variants must reject the same arguments, equally without disturbing the position: the reads that
                # follow are compared with the audio at the reported position
                # times just below zero (they would truncate to sample 0) and at/after the end are out of range too
                ops += ["ps:%d" % (total // 2), "rf:5", "ts:-1e-06", "rf:3", "tp:-1e-09", "rf:3", "ts:-1e-300", "rf:3", "ts:-0.5", "tp:1e9", "ts:1e9", "rf:3",
                        "tl:-1e-07", "rf:3"]
                ops += ["ps:%d" % (total // 3), "rf:37", "pl:-1", "rf:10", "ql:%d" % (1 << 40), "rf:10", "rl:-1", "rf:10",
                        "rl:%d" % (len(fi["data"]) + 1), "rf:10", "pl:%d" % (1 << 40), "rf:300", "rf:10"]
                # time seeks: inside links (exact duration arithmetic is the harness's oracle)
                for _ in range(6):
                    ops.append("ts:%.9g" % (r.below(1000000) / 1000000.0 * total / 48000.0))
                    ops.append("rf:2")
                    # and at page granularity (lands on the last page boundary before the converted target)
                    ops.append("tp:%.9g" % (r.below(1000000) / 1000000.0 * total / 48000.0))
                    ops.append("rf:2")
            text = "case %d 1 %d %d 0 %s\nops %s\n" % (k, r.choice([0, 0, 7, 255]), k, fi["data"].hex(), " ".join(ops))
            cases.append((text, {"case": k, "Ns": fi["Ns"], "kinds": fi["kinds"], "bytes": len(fi["data"]),
                                 "targets": [targets[c0], targets[min(c0 + chunk, len(targets)) - 1]], "ops": " ".join(ops)[:200]}))
            k += 1
    results = vfx.run_cases("C08", cases, wd)
    dist = {}
    bad_prop, bad_tie = vfx.classify(results, [c[1] for c in cases], wd, rep, dist)
    # the sample-accurate landing itself: every successful ps:p must report tell = p
    for i, (irc, il, ierr, mrc, ml, merr) in enumerate(results):
        cur = None
        for l in il:
            if l.startswith("case "):
                cur = l[5:].strip()
            elif l.startswith("op ps:"):
                t = l.split()
                try:
                    p, rc, tell = int(t[1][3:]), int(t[3]), int(t[5])
                except (ValueError, IndexError):
                    continue
                if rc == 0 and tell != p:
                    bad_prop.append({"kind": "pcm seek did not land on its target", "case": cur, "line": l,
                                     "cases_file": os.path.join(wd, "s%d" % i, "vf.cases")})
                dist["ps_checked"] = dist.get("ps_checked", 0) + 1
    rep.coverage["rule"] = ("small chained files: EVERY target 0..L (sample-accurate and page-granularity seeks) each after a random prior raw/page seek "
                            "or read, plus out-of-range arguments and time seeks; landing compared with VFile.v and with the property (tell = target; "
                            "|tell - t*rate| <= 1); reads after each seek compared bit for bit with the packet-level decode; non-trivial = a seek succeeded")
    rep.coverage["distribution"] = dist
    if bad_prop:
        rep.violation("property fails on the implementation", {"failures": bad_prop[:10], "seed": seed})
    elif bad_tie:
        rep.violation("correspondence VFile.v <-> lib/vorbisfile.c no longer holds", {"differences": bad_tie[:10], "seed": seed},
                      found_input=False)
    if not pr["ok"]:
        rep.violation("proof obligations of Properties_C08.v not discharged: " + "; ".join(pr["failed"]),
                      {"theorem_file": "coq/Properties_C08.v", "failed": pr["failed"], "log": pr["log"][-3000:]},
                      found_input=bool(bad_prop))


def replay(rep, path):
    check(rep, "quick", rep.seed)
