"""C10: decoded audio does not depend on how the bytes are delivered."""
import os
from . import common, vfx, vfgen, streams
from .common import SplitMix

LEVEL = "proof"


def check(rep, tier, seed):
    rep.assumptions = ["intact physical streams", "libogg's incremental page sync returns the same pages as a one-shot parse (outside the repository; exercised, not proved)"]
    rep.coverage["trusted_base"] = vfx.TRUSTED
    pr = common.prove("C10", clean=(tier == "thorough"))
    rep.proof(pr)
    rng = SplitMix(seed * 1000003 + 10)
    wd = common.workdir("C10")
    nfiles = 20 if tier == "quick" else 300
    files = vfx.make_files(rng, nfiles, tier, wd, small=True)
    cases = []
    k = 0
    scheds = [0, 1, 2, 3, 7, 13, 255, 2047, 2048, 2049, 65535]
    for fi in files:
        total = sum(fi["Ns"])
        for mode in (1, 0):                       # seekable, streaming
            for mr in ([0] + [rng.choice(scheds[1:]) for _ in range(2 if tier == "quick" else 5)] + [1]):
                if mr == 1 and len(fi["data"]) > 30000:
                    continue
                ops, n = [], 0
                lens = rng.choice([[1], [7], [4096], [1, 2, 3, 5, 8, 13, 100000], [64, 1000]])
                # every fourth case reads through the integer call (ov_read, 16-bit): the frames it returns are counted per link
                # like the float reads (the model has no integer read: these cases are compared on counts, holes and errors only)
                intread = (k % 4 == 3)
                rd = "ri:%d" if intread else "rf:%d"
                while n < total + 3000 and len(ops) < 300:
                    ln = lens[len(ops) % len(lens)]
                    ops.append(rd % (ln * 16 if intread else ln))
                    n += min(ln, 64)
                ops += [rd % (65536 if intread else 100000)] * min(2500, total // 32 + 40)      # drain the rest
                text = "case %d %d %d %d 0 %s\nops %s\n" % (k, mode, mr, k, fi["data"].hex(), " ".join(ops))
                cases.append((text, {"case": k, "Ns": fi["Ns"], "kinds": fi["kinds"], "seekable": mode, "maxread": mr,
                                     "request_lengths": lens, "int_reads": intread, "nontrivial": True}))
                k += 1
    results = vfx.run_cases("C10", cases, wd)
    metas = [c[1] for c in cases]
    dist = {"seekable_cases": sum(1 for m in metas if m["seekable"]), "streaming_cases": sum(1 for m in metas if not m["seekable"]),
            "one_byte_reads": sum(1 for m in metas if m["maxread"] == 1)}
    # streaming cases have no model counterpart for positions: compare only seekable cases with the model
    bad_prop, bad_tie = [], []
    import concurrent.futures
    for i, (irc, il, ierr, mrc, ml, merr) in enumerate(results):
        cfile = os.path.join(wd, "s%d" % i, "vf.cases")
        if irc != 0:
            bad_prop.append({"kind": "implementation crashed / sanitizer / watchdog", "rc": irc, "stderr": ierr[-3000:], "cases_file": cfile})
        ic = common.split_cases(il)
        mc = common.split_cases(ml)
        for kk, li in ic.items():
            m = metas[int(kk)]
            refn = []
            got = {}
            for l in li:
                if l.startswith("ref "):
                    refn = [int(x.split(":")[0]) for x in l.split()[2:]]
                if l.startswith("prop ") and "FAIL" in l:
                    bad_prop.append({"kind": l, "case": kk, "meta": m, "cases_file": cfile})
                if l.startswith("holes ") and l.split()[1:2] not in ([], ["0"]):
                    bad_prop.append({"kind": "hole/error indication on an intact stream: " + l, "case": kk, "meta": m, "cases_file": cfile})
                if l.startswith(("op rf:", "op ri:")):
                    t = l.split()
                    try:
                        rc, lk = int(t[3]), int(t[-1])
                    except (ValueError, IndexError):
                        continue          # line cut short by a crash/watchdog: reported through the exit status
                    if rc > 0:
                        got[lk] = got.get(lk, 0) + rc
                    elif rc < 0:
                        bad_prop.append({"kind": "error return on an intact stream", "line": l, "case": kk, "meta": m, "cases_file": cfile})
            exp = {j: n for j, n in enumerate(refn) if n > 0}
            if got != exp:
                bad_prop.append({"kind": "path did not deliver the same sample counts as the packet-level decode", "case": kk, "meta": m,
                                 "expected": exp, "got": got, "cases_file": cfile})
            if m["seekable"] and not m.get("int_reads"):
                a = [l for l in li if not l.startswith("prop ")]
                b = mc.get(kk)
                if b is not None:
                    b = [l for l in b if not l.startswith(common.MODEL_ONLY)]
                if b is not None and a != b:
                    d = next((j for j in range(min(len(a), len(b))) if a[j] != b[j]), min(len(a), len(b)))
                    bad_tie.append({"case": kk, "line": d, "impl": (a[d] if d < len(a) else None), "model": (b[d] if d < len(b) else None),
                                    "cases_file": cfile})
            rep.add_case((tuple(m["Ns"]), m["seekable"], m["maxread"], tuple(m["request_lengths"])), nontrivial=True,
                         sample=m if int(kk) % 17 == 0 else None)
    rep.coverage["rule"] = ("each file decoded through (1) vorbisfile seekable, (2) vorbisfile streaming, (3) the packet-level API; read callback capped "
                            "at 1, 2, 3, 7, 13, 255, 2047..2049, 65535 bytes; request lengths 1, 7, 4096, mixed; every fourth case through ov_read (16-bit frames counted per link); PCM compared bit for bit, no hole/error "
                            "return allowed, per-link counts equal; seekable cases also against VFile.v; every case non-trivial")
    rep.coverage["distribution"] = dist
    if bad_prop:
        rep.violation("property fails on the implementation", {"failures": bad_prop[:10], "seed": seed})
    elif bad_tie:
        rep.violation("correspondence VFile.v <-> lib/vorbisfile.c no longer holds", {"differences": bad_tie[:10], "seed": seed},
                      found_input=False)
    if not pr["ok"]:
        rep.violation("proof obligations of Properties_C10.v not discharged: " + "; ".join(pr["failed"]),
                      {"theorem_file": "coq/Properties_C10.v", "failed": pr["failed"], "log": pr["log"][-3000:]},
                      found_input=bool(bad_prop))


def replay(rep, path):
    check(rep, "quick", rep.seed)
