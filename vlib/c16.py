"""C16: comments survive the header round trip; queries are consistent."""
import os
from . import common
from .common import SplitMix

LEVEL = "proof"
TRUSTED = ["Coq 8.16.1 kernel + vm_compute", "extraction (ExtrOcamlBasic) + ml/driver.ml",
           "harness/c16.c, clang ASan/UBSan", "libogg 1.3.5 bit packer (modelled at byte level, not verified)",
           "tools/srcfacts (vendor strings regenerated from lib/info.c)"]


def hx(b):
    return b.hex() if b else "-"


TAGS = [b"TITLE", b"title", b"Artist", b"a", b"A", b"z", b"Z", b"x-y_1", b"\xe9t\xe9", b"\xc9T\xc9",
        b"@`", b"[{", b"T", b"TI", b"TITLE2", b"=", b""]


def flipcase(rng, t):
    out = bytearray(t)
    for i, c in enumerate(out):
        if rng.chance(1, 2):
            if 65 <= c <= 90 or 97 <= c <= 122:
                out[i] = c ^ 32
            elif rng.chance(1, 6):
                out[i] = c ^ 32  # non-letters must NOT fold: '@'/'`', '['/'{', 0xe9/0xc9
    return bytes(out)


def gen_comment(rng, big):
    k = rng.below(10)
    if k == 0:
        return b""
    if k <= 5:
        t = flipcase(rng, rng.choice(TAGS))
        n = rng.choice([0, 1, 5, 40]) if not big else rng.choice([0, 1, 300, 70000])
        return t + b"=" + rng.bytes(n)
    if k == 6:   # no '=' at all / tag only
        return flipcase(rng, rng.choice(TAGS))
    if k == 7:   # shorter than the tag being queried, or embedded zero inside the tag
        t = rng.choice(TAGS)
        return t[:rng.below(len(t) + 1)] + (b"\0" if rng.chance(1, 2) else b"") + rng.bytes(rng.below(4))
    n = rng.below(64) if not big else rng.choice([1000, 200000])
    return rng.bytes(n)


def le32(v):
    return bytes([(v >> (8 * i)) & 255 for i in range(4)])


def py_pack(vendor, cs):
    b = b"\x03vorbis" + le32(len(vendor)) + vendor + le32(len(cs))
    for c in cs:
        b += le32(len(c)) + c
    return b + b"\x01"


def mutations(rng, vendor, cs):
    """Malformed / boundary comment packets (only used as inputs to both sides)."""
    good = py_pack(vendor, cs)
    out = [good, good[:-1], good[:-1] + b"\x00", good[:-1] + b"\xfe", good + b"\x00\x00"]
    for cut in {0, 1, 6, 7, 8, 10, 11, 11 + len(vendor), 14 + len(vendor), 15 + len(vendor), len(good) // 2}:
        if cut <= len(good):
            out.append(good[:cut])
    pos_v = 7
    pos_n = 11 + len(vendor)
    for pos in (pos_v, pos_n, pos_n + 4):
        if pos + 4 > len(good):
            continue
        for val in (0, 1, 0x7fffffff, 0x80000000, 0xffffffff, len(good), len(good) - 8, len(good) - 7,
                    len(good) - pos - 4, len(good) - pos - 3, (len(good) - pos_n - 4) >> 2, ((len(good) - pos_n - 4) >> 2) + 1):
            out.append(good[:pos] + le32(val & 0xffffffff) + good[pos + 4:])
    out.append(b"\x03vorbiS" + good[7:])
    out.append(b"\x05" + good[1:])
    out.append(b"\x00" + good[1:])
    for _ in range(4):
        i = rng.below(len(good))
        out.append(good[:i] + bytes([good[i] ^ (1 << rng.below(8))]) + good[i + 1:])
    return out


def gen_cases(rng, ncases, big_every):
    lines, meta = [], []
    for k in range(ncases):
        big = big_every and (k % big_every == big_every - 1)
        n = rng.choice([0, 1, 2, 5, 12, 40]) if not big else rng.choice([3, 3000])
        lines.append("case %d" % k)
        cs = []
        # every seventh case: a list made (almost) only of empty comments - each costs just its 4-byte length in the header
        sparse = (k % 7 == 5)
        if sparse:
            n = rng.choice([2, 3, 40, 1000, 2000])
        for i in range(n):
            c = gen_comment(rng, big and n < 100 and i == 0)
            if sparse:
                c = b"" if (i % 3 or rng.chance(1, 2)) else rng.choice([b"A=", b"\0", b"x"])
            kind = rng.below(4)
            if kind == 0 and b"\0" not in c:
                lines.append("a " + hx(c))
            elif kind == 1 and b"\0" not in c and b"=" in c and b"\0" not in c:
                t, v = c.split(b"=", 1)
                lines.append("t %s %s" % (hx(t), hx(v)))
            else:
                lines.append("c " + hx(c))
            cs.append(c)
        lines.append("pack")
        nq = 0
        for t in TAGS[:-1]:
            if not t or (len(cs) > 100 and rng.chance(3, 4)):
                continue
            q = flipcase(rng, t)
            if b"\0" in q:
                continue
            lines.append("cnt " + hx(q))
            for idx in (0, 1, 2, rng.below(8)):
                lines.append("q %s %d" % (hx(q), idx))
                nq += 1
        nm = 0
        if not big:
            ven = rng.choice([b"", b"v", b"Xiph.Org libVorbis I 20200704 (Reducing Environment)"])
            for m in mutations(rng, ven, cs[:6]):
                lines.append("in " + hx(m))
                nm += 1
        meta.append({"case": k, "comments": n, "queries": nq, "malformed_packets": nm,
                     "bytes": sum(len(c) for c in cs), "first": hx(cs[0])[:80] if cs else None})
    return "\n".join(lines) + "\n", meta


def check(rep, tier, seed):
    rep.assumptions = ["vorbis_comment entries with explicit lengths are filled in by the application as the API documents",
                       "comment lengths and count are below 2^31 (the C fields are int)"]
    rep.coverage["trusted_base"] = TRUSTED
    pr = common.prove("C16", clean=(tier == "thorough"))
    rep.proof(pr)
    exe = common.build_harness("c16")
    rng = SplitMix(seed * 1000003 + 16)
    ncases = 60 if tier == "quick" else 1500
    text, meta = gen_cases(rng, ncases, 10 if tier == "quick" else 25)
    irc, il, ierr, mrc, ml, merr = common.run_pair(exe, "c16", text, common.workdir("C16"), timeout=1500)
    rep.coverage["rule"] = ("random comment lists (tag-like, binary, empty, embedded zero, case variants incl. non-letters "
                            "adjacent to A-Z/a-z and bytes >= 0x80) through commentheader_out -> headerin, queries by tag/index, "
                            "and boundary-mutated comment packets; non-trivial = case with >= 1 comment; distinct by content")
    ic, mc = common.split_cases(il), common.split_cases(ml)
    bad_tie, bad_prop = [], []
    if irc != 0:
        bad_prop.append({"kind": "implementation crashed / sanitizer", "rc": irc, "stderr": ierr[-3000:]})
    if mrc != 0:
        bad_tie.append({"kind": "model driver failed", "rc": mrc, "stderr": merr[-2000:]})
    for m in meta:
        k = str(m["case"])
        li = ic.get(k)
        lm = mc.get(k)
        if li is None:
            continue
        props = [l for l in li if l.startswith("prop ")]
        li2 = [l for l in li if not l.startswith("prop ")]
        rep.add_case((m["comments"], m["bytes"], m["first"], tuple(li2[:3])), nontrivial=m["comments"] > 0,
                     sample=m)
        for p in props:
            if p.endswith("FAIL"):
                bad_prop.append({"kind": p, "case": k})
        if lm is not None and li2 != lm:
            d = next((i for i in range(min(len(li2), len(lm))) if li2[i] != lm[i]), min(len(li2), len(lm)))
            rec = {"kind": "model/implementation differ", "case": k, "line": d,
                   "impl": (li2[d] if d < len(li2) else None), "model": (lm[d] if d < len(lm) else None)}
            # q/cnt/pkt answers of the model are pinned to the property's wording by
            # C16_match_is_casefolded_prefix, C16_query_nth_match, C16_comment_roundtrip:
            # a different answer of the implementation on these well-formed inputs
            # is the property failing on this case.
            if (rec["model"] or "").split(" ")[0] in ("q", "cnt", "pkt"):
                rec["kind"] = "implementation answers differently from the proved specification"
                bad_prop.append(rec)
            else:
                bad_tie.append(rec)
    rep.coverage["distribution"] = {"cases": len(meta), "comments": sum(m["comments"] for m in meta),
                                    "queries": sum(m["queries"] for m in meta),
                                    "malformed_packets": sum(m["malformed_packets"] for m in meta),
                                    "max_case_bytes": max(m["bytes"] for m in meta)}
    cf = os.path.join(common.workdir("C16"), "c16.cases")
    if bad_prop:
        rep.violation("property fails on the implementation", {"cases_file": cf, "failures": bad_prop[:10], "seed": seed,
                      "replay": "harness c16 <cases_file>"})
    elif bad_tie:
        # the tie is broken but the implementation's own oracle is clean: a
        # differing `in` verdict on a malformed packet is still a behaviour
        # change the theorems no longer cover
        rep.violation("correspondence Comment.v <-> lib/info.c no longer holds", {"cases_file": cf, "differences": bad_tie[:10],
                      "seed": seed}, found_input=False)
    if not pr["ok"]:
        rep.violation("proof obligations of Properties_C16.v not discharged: " + "; ".join(pr["failed"]),
                      {"theorem_file": "coq/Properties_C16.v", "failed": pr["failed"], "log": pr["log"][-3000:]},
                      found_input=bool(bad_prop))


def replay(rep, path):
    check(rep, "quick", rep.seed)
