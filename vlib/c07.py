"""C07: after any seek the reported position matches the audio delivered."""
import os
from . import common, vfx
from .common import SplitMix

LEVEL = "proof"


def check(rep, tier, seed):
    rep.assumptions = ["intact physical streams (pages in sequence, valid CRC, one Vorbis stream per link)",
                       "the page search / bisection of vorbisfile finds what the page table says (validated by the tie, not proved)"]
    rep.coverage["trusted_base"] = vfx.TRUSTED
    pr = common.prove("C07", clean=(tier == "thorough"))
    rep.proof(pr)
    rng = SplitMix(seed * 1000003 + 7)
    wd = common.workdir("C07")
    nfiles = 64 if tier == "quick" else 1200
    nops = 40 if tier == "quick" else 150
    files = vfx.make_files(rng, nfiles, tier, wd)
    cases = []
    for k, fi in enumerate(files):
        r = SplitMix(seed * 7919 + k)
        ops = vfx.ops_for(r, fi, nops)
        text = "case %d 1 %d %d 0 %s\nops %s\n" % (k, r.choice([0, 0, 1, 7, 255]), k, fi["data"].hex(), " ".join(ops))
        cases.append((text, {"case": k, "Ns": fi["Ns"], "kinds": fi["kinds"], "bytes": len(fi["data"]), "ops": " ".join(ops)[:300]}))
    results = vfx.run_cases("C07", cases, wd)
    dist = {}
    bad_prop, bad_tie = vfx.classify(results, [c[1] for c in cases], wd, rep, dist)
    rep.coverage["rule"] = ("chained files (1-4 links; real-encoder links and hand-made links with 64..4096 blocks, single-page and zero-sample "
                            "links, odd page layouts) x random histories of raw/pcm/page seeks and reads aimed at page, packet and link boundaries +-1; "
                            "every op's return code, pcm/raw position, ready state and link compared with VFile.v; every read compared bit for bit with "
                            "an independent packet-level decode at the position reported before it; non-trivial = at least one seek succeeded")
    rep.coverage["distribution"] = dist
    if bad_prop:
        rep.violation("property fails on the implementation", {"failures": bad_prop[:10], "seed": seed})
    elif bad_tie:
        rep.violation("correspondence VFile.v <-> lib/vorbisfile.c no longer holds", {"differences": bad_tie[:10], "seed": seed},
                      found_input=False)
    if not pr["ok"]:
        rep.violation("proof obligations of Properties_C07.v not discharged: " + "; ".join(pr["failed"]),
                      {"theorem_file": "coq/Properties_C07.v", "failed": pr["failed"], "log": pr["log"][-3000:]},
                      found_input=bool(bad_prop))


def replay(rep, path):
    check(rep, "quick", rep.seed)
