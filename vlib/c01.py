"""C01: decoder output conforms to the Vorbis I specification."""
import os
from . import common, pdgen, pdx
from .common import SplitMix

LEVEL = "proof"


def check(rep, tier, seed):
    rep.assumptions = ["well-formed streams: three valid headers, complete audio packets whose window flags agree with their neighbours",
                       "granule positions absent (-1) in the value comparison so that no trimming applies; trimming and counts are C04/C11's models, tied here through the `cnt` lines"]
    rep.coverage["trusted_base"] = pdx.TRUSTED
    pr = common.prove("C01", clean=(tier == "thorough"))
    rep.proof(pr)
    rng = SplitMix(seed * 1000003 + 1)
    wd = common.workdir("C01")
    quick = tier == "quick"
    nstreams = 160 if quick else 4000
    texts, meta, infos = [], {}, []
    for k in range(nstreams):
        big = (k % 8 == 0)
        st = pdgen.gen_stream(rng, big=big, max_ch=(255 if (not quick and k % 97 == 0) else rng.choice([4, 5, 6, 8])))
        lines = ["case %d" % k]
        for i, h in enumerate(st["headers"]):
            lines.append("hdr %d %s" % (1 if i == 0 else 0, h.hex()))
        lines.append("init")
        npk = rng.range(2, 5 if big else 9)
        for pkt in pdgen.gen_sequence(rng, st, npk):
            lines.append("pkt %s -1 0 1" % (pkt.hex() or "-"))
        lines.append("end")
        texts.append("\n".join(lines) + "\n")
        m = pdgen.meta_of(st)
        m["numeric"] = True
        meta[str(k)] = m
        s = st["setup"]
        infos.append({"case": k, "channels": st["channels"], "bs": [st["bs0"], st["bs1"]], "books": len(s["books"]),
                      "floor_types": [f.get("type", 1) for f in s["floors"]], "residue_types": [r["type"] for r in s["residues"]],
                      "submaps": [m_.get("submaps", 1) for m_ in s["mappings"]], "coupling_steps": [len(m_.get("coupling", [])) for m_ in s["mappings"]],
                      "modes": len(s["modes"]), "packets": npk,
                      "book_kinds": sorted({("ordered" if b.get("ordered") else "sparse" if (0 in b["lengths"] or b.get("force_sparse")) else "plain") +
                                            ("/single" if sum(1 for l in b["lengths"] if l) == 1 else "") +
                                            ("/lattice" if b.get("maptype") == 1 else "/explicit" if b.get("maptype") == 2 else "/scalar") +
                                            ("/seq" if b.get("seq") else "") for b in s["books"]})})
    res = pdx.run(texts, wd, numeric_meta=meta)
    dist = {"streams": nstreams, "packets_ok": 0, "packets_rejected": 0, "channels_nonzero": 0, "channels_zero": 0, "floor0_channels": 0,
            "packets_running_out_of_bits": 0, "book_kinds": {}, "floor_types": {}, "residue_types": {}, "block_sizes": {}, "transitions": {}}
    bad_prop = list(res["crashes"])
    for k, li in res["impl"].items():
        info = infos[int(k)]
        nontriv = False
        prevW = None
        for l in li:
            if l.startswith("prop ") and "FAIL" in l:
                bad_prop.append({"kind": l, "case": k, "info": info, "cases_file": res["files"][k]})
            if l.startswith("hdr ") and l != "hdr OK":
                bad_prop.append({"kind": "a valid header was rejected: " + l, "case": k, "info": info, "cases_file": res["files"][k]})
            if l == "init 1":
                bad_prop.append({"kind": "synthesis_init failed on a valid set-up", "case": k, "info": info, "cases_file": res["files"][k]})
            if l.startswith("pkt "):
                t = l.split()
                if t[1] == "OK":
                    dist["packets_ok"] += 1
                    W = int(t[3])
                    if prevW is not None:
                        key = "%s->%s" % ("long" if prevW else "short", "long" if W else "short")
                        dist["transitions"][key] = dist["transitions"].get(key, 0) + 1
                    prevW = W
                    if t[-1] in ("0", "-2"):
                        dist["packets_running_out_of_bits"] += 1
                else:
                    dist["packets_rejected"] += 1
                    bad_prop.append({"kind": "a valid audio packet was rejected: " + l, "case": k, "info": info, "cases_file": res["files"][k]})
            if l.startswith("ch "):
                h = l.split()[2]
                if h.strip("0") in ("", "-"):
                    dist["channels_zero"] += 1
                else:
                    dist["channels_nonzero"] += 1
                    nontriv = True
        for l in res["model"].get(k, []):
            if l.startswith("f0 "):
                dist["floor0_channels"] += 1
        for x in info["book_kinds"]:
            dist["book_kinds"][x] = dist["book_kinds"].get(x, 0) + 1
        for x in info["floor_types"]:
            dist["floor_types"][str(x)] = dist["floor_types"].get(str(x), 0) + 1
        for x in info["residue_types"]:
            dist["residue_types"][str(x)] = dist["residue_types"].get(str(x), 0) + 1
        dist["block_sizes"]["%d/%d" % tuple(info["bs"])] = dist["block_sizes"].get("%d/%d" % tuple(info["bs"]), 0) + 1
        rep.add_case((int(k), seed, tuple(info["bs"]), info["channels"]), nontrivial=nontriv, sample=info if int(k) % 29 == 0 else None)
    num = res["numeric"] or {}
    dist["numeric"] = {k: (v if not isinstance(v, list) else len(v)) for k, v in num.items()}
    bad_num = [dict(x, kind="numeric: " + x.get("kind", "floor-0 curve"), cases_file=res["files"].get(x["case"])) for x in (num.get("pcm_bad", []) + num.get("floor0_bad", []))]
    if num.get("errors"):
        bad_num.append({"kind": "numeric step failed", "detail": num["errors"][:2]})
    rep.coverage["rule"] = ("random VALID set-ups over the format's feature space (floor 0 and 1, residue 0/1/2, ordered/sparse/single-entry/lattice/explicit/sequence "
                            "books, 1-16 submaps, coupling, 1-64 modes, all block-size pairs 64..8192 in every 8th stream, up to 8 (thorough: 255) channels); audio packets "
                            "are random bit strings (complete Huffman trees: every bit string decodes) with window flags consistent with their neighbours. Compared "
                            "EXACTLY with the extracted model: header verdicts and fields, init verdict, per-packet verdict/mode/window flags/bits left, the spectrum "
                            "of every channel before the inverse MDCT bit for bit (floor-1 and unused channels), sample counts and granule position per packet; "
                            "NUMERICALLY (tolerance): floor-0 curve, inverse MDCT + window + overlap-add against the returned PCM. non-trivial = a channel with a "
                            "non-zero spectrum")
    rep.coverage["distribution"] = dist
    if bad_prop:
        rep.violation("property fails on the implementation", {"failures": bad_prop[:10], "seed": seed})
    elif res["ties"]:
        # the model IS the specification-level decoder: a disagreement on a valid stream is the failing input
        rep.violation("decoder output differs from the specification-level model (PacketDec.v) on a valid stream",
                      {"differences": res["ties"][:10], "seed": seed}, found_input=True)
    elif bad_num:
        rep.violation("decoded samples differ from the numeric reference beyond the tolerance", {"failures": bad_num[:10], "seed": seed})
    if not pr["ok"]:
        rep.violation("proof obligations of Properties_C01.v not discharged: " + "; ".join(pr["failed"]),
                      {"theorem_file": "coq/Properties_C01.v", "failed": pr["failed"], "log": pr["log"][-3000:]},
                      found_input=bool(bad_prop or res["ties"]))


def replay(rep, path):
    check(rep, "quick", rep.seed)
