"""C19: lapped seeks differ from plain seeks only inside the first half short block."""
import os
import concurrent.futures as cf
from . import common, vfx, vfgen, streams
from .common import SplitMix

LEVEL = "proof"


def check(rep, tier, seed):
    rep.assumptions = ["intact seekable streams", "cross-fade arithmetic is float: compared with the same expression evaluated on two plain decodes (1e-6 relative slack)"]
    rep.coverage["trusted_base"] = vfx.TRUSTED + ["harness/c19.c (twin handles: lapped / plain / old-position source)"]
    pr = common.prove("C19", clean=(tier == "thorough"))
    rep.proof(pr)
    exe = common.build_harness("c19")
    rng = SplitMix(seed * 1000003 + 19)
    wd = common.workdir("C19")
    nfiles = 48 if tier == "quick" else 800
    ntests = 24 if tier == "quick" else 80
    files = vfx.make_files(rng, nfiles, tier, wd, small=True)
    texts, metas = [], []
    for k, fi in enumerate(files):
        total = sum(fi["Ns"])
        bounds = [sum(fi["Ns"][:j]) for j in range(len(fi["Ns"]) + 1)]
        r = SplitMix(seed * 7919 + k)
        toks = []
        for _ in range(ntests):
            kind = r.choice(["pl", "pl", "pl", "ppl", "rl", "tl", "tpl", "cl", "cl"])
            pre = r.choice([-1] + bounds + [total]) + r.choice([0, 0, -1, 1, -40]) if r.chance(1, 2) else r.below(total + 1)
            pre = max(-1, min(total, pre))
            preread = r.choice([0, 0, 1, 50, 3000, 100000])
            if kind == "rl":
                tgt = r.below(len(fi["data"]) + 1)
            elif kind in ("tl", "tpl"):
                tgt = r.below(1000000) / 1000000.0 * (total / 8000.0 + 0.01)
            else:
                tgt = r.choice(bounds + [total]) + r.choice([0, 0, -1, 1]) if r.chance(1, 2) else r.below(total + 1)
                tgt = max(0, min(total, tgt)) if r.chance(9, 10) else r.choice([-1, total + 1])
            toks.append("T:%s:%d:%d:%.9g" % (kind, pre, preread, tgt))
        hs = 1 if r.chance(1, 4) else 0
        texts.append("case %d %d %d %s\nops %s\n" % (k, k, hs, fi["data"].hex(), " ".join(toks)))
        metas.append({"case": k, "Ns": fi["Ns"], "kinds": fi["kinds"], "halfrate": hs, "goffs": fi.get("goffs", []), "tests": " ".join(toks)[:300]})
    # corpus of earlier failures (case line + ops line per file), appended with fresh case numbers
    cdir = os.path.join(common.VERIF, "corpus", "C19")
    for fn in sorted(os.listdir(cdir)) if os.path.isdir(cdir) else []:
        ls = open(os.path.join(cdir, fn)).read().split("\n")
        t = ls[0].split()
        if len(t) == 5 and t[0] == "case" and ls[1].startswith("ops "):
            k = len(texts)
            texts.append("case %d %d %s %s\n%s\n" % (k, k, t[3], t[4], ls[1]))
            metas.append({"case": k, "Ns": [], "kinds": ["corpus:" + fn], "halfrate": int(t[3]), "tests": ls[1][4:304],
                          "goffs": [-7] if "odd_trim" in fn else []})
    shards = 16

    def one(i):
        cfile = os.path.join(wd, "s%d.cases" % i)
        with open(cfile, "w") as f:
            f.write("".join(texts[i::shards]))
        return common.run([exe, cfile], env=common.san_env(), timeout=3000) + (cfile,)
    with cf.ThreadPoolExecutor(shards) as ex:
        results = list(ex.map(one, range(shards)))
    bad_prop = []
    known = {}
    dist = {"tests": 0, "lapped": 0, "formula_checked": 0, "eof_without_lapping": 0}
    for (rc, out, err, cfile) in results:
        if rc != 0:
            bad_prop.append({"kind": "implementation crashed / sanitizer / watchdog", "rc": rc, "stderr": err[-3000:], "cases_file": cfile})
        ic = common.split_cases(out.split("\n"))
        for k, li in ic.items():
            m = metas[int(k)]
            for l in li:
                if l.startswith("prop lapland FAIL") and m.get("halfrate") == 1 and any(g % 2 for g in m.get("goffs", [])) \
                        and abs(int(l.split()[3]) - int(l.split()[4])) == 1:
                    # KNOWN_FINDINGS.txt halfrate-odd-trim-lapland: half rate on a file with a link whose beginning is trimmed by
                    # an odd count; the two reported positions differ by exactly one
                    dist["known_halfrate-odd-trim-lapland"] = dist.get("known_halfrate-odd-trim-lapland", 0) + 1
                    known.setdefault("halfrate-odd-trim-lapland", {"line": l, "case": k, "meta": m, "cases_file": cfile})
                elif l.startswith("prop ") and "FAIL" in l:
                    bad_prop.append({"kind": l, "case": k, "meta": m, "cases_file": cfile})
                if l.startswith("known "):
                    dist["known_" + l.split()[1]] = dist.get("known_" + l.split()[1], 0) + 1
                    known.setdefault(l.split()[1], {"line": l, "case": k, "meta": m, "cases_file": cfile})
                if l.startswith("S "):
                    kv = dict(x.split("=") for x in l.split()[1:])
                    dist["tests"] += int(kv["tests"])
                    dist["lapped"] += int(kv["lapped"])
                    dist["formula_checked"] += int(kv["formula"])
                    dist["eof_without_lapping"] += int(kv["eofs"])
            ts = tuple(l for l in li if l.startswith("T "))
            rep.add_case((tuple(m["Ns"]), m["halfrate"], ts[:30]), nontrivial=any(" rcA 0 rcB 0 " in l for l in ts),
                         sample=m if int(k) % 13 == 0 else None)
    # ---- part 2: the lapped seek of the model (VFile.seek_lap: set-up, lapping data, plain seek, priming without spanning
    # links, lapout) replayed step by step against ov_pcm_seek_lap / ov_pcm_seek_page_lap / ov_raw_seek_lap inside histories
    # of reads, plain seeks and half-rate toggles: return code, reported position, byte cursor, ready state, link and the
    # count of every read must agree; where the hypotheses of C19_lapped_seek_lands_on_target hold (model-only `thml`
    # lines) the implementation must return 0 and report exactly the target
    files2 = vfx.make_files(SplitMix(seed * 1000003 + 1919), 48 if tier == "quick" else 600, tier, os.path.join(wd, "hist"), small=True,
                            allow_trim_begin="even")
    cases2 = []
    for k, fi in enumerate(files2):
        r = SplitMix(seed * 7919 + 500000 + k)
        total = sum(fi["Ns"])
        nb = len(fi["data"])
        bounds = [sum(fi["Ns"][:j]) for j in range(len(fi["Ns"]) + 1)]
        ops = []
        for _ in range(30 if tier == "quick" else 60):
            x = r.below(10)
            if r.chance(1, 9):
                ops.append("hr:%d" % r.below(2))
            if x < 3:
                ops.append("rf:%d" % r.choice([1, 7, 64, 500, 4096]))
            elif x < 4:
                ops.append("ps:%d" % r.below(total + 1))
            elif x < 5:
                ops.append("rs:%d" % r.below(nb + 1))
            elif x < 8:
                t = r.choice(bounds + [total]) + r.choice([0, 0, -1, 1]) if r.chance(1, 2) else r.below(total + 1)
                t = max(0, min(total, t)) if r.chance(14, 15) else r.choice([-1, 1 << 40])
                ops.append(r.choice(["pl:%d", "pl:%d", "ql:%d"]) % t)
                ops.append("rf:%d" % r.choice([1, 64, 500]))
            else:
                ops.append("rl:%d" % (r.below(nb + 1) if r.chance(14, 15) else r.choice([-1, nb + 1])))
                ops.append("rf:%d" % r.choice([1, 64, 500]))
        text = "case %d 1 %d %d %d %s\nops %s\n" % (k, r.choice([0, 0, 7, 255]), k, r.below(2) if r.chance(1, 3) else 0, fi["data"].hex(), " ".join(ops))
        cases2.append((text, {"case": k, "Ns": fi["Ns"], "kinds": fi["kinds"], "bytes": nb, "ops": " ".join(ops)[:300]}))
    results2 = vfx.run_cases("C19", cases2, os.path.join(wd, "hist"))
    dist2 = {}
    bad_prop2, bad_tie = vfx.classify(results2, [c[1] for c in cases2], os.path.join(wd, "hist"), rep, dist2)
    bad_prop += bad_prop2
    dist["histories"] = dist2
    rep.coverage["rule"] = ("chained files (differing channels, rates, short-block sizes incl. 64) x lapped pcm/page/raw/time seeks and ov_crosslap (old "
                            "handle -> a fresh handle sought to the target, compared with that handle's plain twin) from random old "
                            "positions (link ends, end of stream, after long reads) on twin handles: same return/landing as the plain seek, "
                            "bit-identical from min(n1,n2) samples on, inside = new*w^2 + old*(1-w^2) (extra new channels faded from silence); "
                            "EOF-without-lapping only when nothing follows the target or there is no decode state; non-trivial = a lapped seek succeeded. "
                            "Part 2: histories of reads, plain seeks, half-rate toggles and lapped sample/page/byte seeks (rejected arguments included) "
                            "replayed on the extracted model of the lapped seek (VFile.seek_lap): every return code, position, byte cursor, ready state, "
                            "link and read count compared; theorem C19_lapped_seek_lands_on_target demanded from the real code where its hypotheses hold")
    rep.coverage["distribution"] = dist
    for key, ex in known.items():
        rep.violation("deviation listed in KNOWN_FINDINGS.txt under key " + key, ex, key=key)
    if bad_prop:
        rep.violation("property fails on the implementation", {"failures": bad_prop[:10], "seed": seed})
    elif bad_tie:
        rep.violation("correspondence VFile.v (seek_lap) <-> lib/vorbisfile.c no longer holds", {"differences": bad_tie[:10], "seed": seed},
                      found_input=False)
    if not pr["ok"]:
        rep.violation("proof obligations of Properties_C19.v not discharged: " + "; ".join(pr["failed"]),
                      {"theorem_file": "coq/Properties_C19.v", "failed": pr["failed"], "log": pr["log"][-3000:]},
                      found_input=bool(bad_prop))


def replay(rep, path):
    check(rep, "quick", rep.seed)
