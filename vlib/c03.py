"""C03: vorbisfile is memory-safe and terminates on arbitrary physical streams."""
import os
import concurrent.futures as cf
from . import common, vfx, vfgen, streams, mutate
from .common import SplitMix

LEVEL = "proof"


def check(rep, tier, seed):
    rep.assumptions = ["memory safety of the C code is observed under ASan + UBSan(bounds, integer-divide-by-zero, null, return, unreachable, vla-bound) "
                       "with a 20 s watchdog per call: a sanitizer report, signal or timeout is a violation",
                       "libogg 1.3.5 is part of what is exercised, not of what is modelled"]
    rep.coverage["trusted_base"] = vfx.TRUSTED + ["harness/c03.c; vlib/mutate.py (byte-level mutations, CRC fixed or not)"]
    pr = common.prove("C03", clean=(tier == "thorough"))
    rep.proof(pr)
    exe = common.build_harness("c03")
    rng = SplitMix(seed * 1000003 + 3)
    wd = common.workdir("C03")
    nfiles = 24 if tier == "quick" else 200
    per = 48 if tier == "quick" else 120
    nops = 60 if tier == "quick" else 150
    files = vfx.make_files(rng, nfiles, tier, wd, small=True)
    cases, metas = [], []
    k = 0
    for fi in files:
        for j in range(per):
            if j == 0:
                d, kind = fi["data"], "intact"
            elif j == 1:
                d, kind = rng.bytes(rng.below(5000)), "random bytes"
            elif j == 2:
                d, kind = fi["data"][:rng.below(len(fi["data"]) + 1)], "truncated"
            else:
                d, kind = mutate.mutate(rng, fi["data"]), "mutated"
            seekable = 1 if rng.chance(3, 4) else 0
            cases.append("case %d %d %d %d %d %s\n" % (k, seekable, rng.choice([0, 0, 1, 7, 255]), rng.below(1 << 30), nops, d.hex() or "-"))
            metas.append({"case": k, "kind": kind, "bytes": len(d), "seekable": seekable, "links_before_damage": len(fi["Ns"])})
            k += 1
    # large page-free gaps (> 2 x the library's 64 KiB read-back chunk): the bisection and back-up loops of the seek
    # functions meet "no page from here on" inside a long stretch of zeroes, in the middle of a link and before its last page
    big = vfgen.encode_links([(777001 + seed, 2, 44100, 0.3, 1100000, 1, 4242 + seed, 0)], wd)[0]
    if big and len(big) > 330000:
        pgs = streams.parse_pages(big)
        lastoff = pgs[-1]["offset"]
        a0 = len(big) * 3 // 10
        for (lo, hi, name) in ((a0, a0 + 140000 + rng.below(30000), "gap in the middle"), (len(big) * 4 // 10, lastoff, "gap before the last page")):
            if hi - lo > 135000:
                d = big[:lo] + bytes(hi - lo) + big[hi:]
                for sd in range(2):
                    cases.append("case %d 1 %d %d %d %s\n" % (k, rng.choice([0, 0, 255]), rng.below(1 << 30), nops, d.hex()))
                    metas.append({"case": k, "kind": "large " + name, "bytes": len(d), "seekable": 1, "links_before_damage": 1})
                    k += 1
    # corpus of earlier failures (one case per file, kept verbatim): appended with fresh case numbers
    cdir = os.path.join(common.VERIF, "corpus", "C03")
    ncorpus = 0
    for fn in sorted(os.listdir(cdir)) if os.path.isdir(cdir) else []:
        for line in open(os.path.join(cdir, fn)):
            t = line.split()
            if len(t) == 7 and t[0] == "case":
                cases.append("case %d %s\n" % (k, " ".join(t[2:])))
                metas.append({"case": k, "kind": "mutated", "bytes": len(t[6]) // 2, "seekable": int(t[2]), "corpus": fn})
                k += 1
                ncorpus += 1
    shards = 16

    def one(i):
        outs = []
        # a crash ends the process: run cases in small groups and fall back to one per process on failure
        group = cases[i::shards]
        for g0 in range(0, len(group), 8):
            cfile = os.path.join(wd, "s%d_%d.cases" % (i, g0))
            with open(cfile, "w") as f:
                f.write("".join(group[g0:g0 + 8]))
            r = common.run([exe, cfile], env=common.san_env(), timeout=900)
            if r[0] != 0:
                for j, c in enumerate(group[g0:g0 + 8]):
                    cf1 = os.path.join(wd, "s%d_%d_%d.cases" % (i, g0, j))
                    with open(cf1, "w") as f:
                        f.write(c)
                    outs.append(common.run([exe, cf1], env=common.san_env(), timeout=300) + (cf1,))
            else:
                outs.append(r + (cfile,))
        return outs
    with cf.ThreadPoolExecutor(shards) as ex:
        results = [x for r in ex.map(one, range(shards)) for x in r]
    bad_prop = []
    dist = {"opened": 0, "open_refused": 0, "intact": 0, "mutated": 0, "random bytes": 0, "truncated": 0}
    for (rc, out, err, cfile) in results:
        if rc != 0:
            site = [x.strip()[:160] for x in err.split("\n") if ("ERROR" in x or "runtime error" in x or " #0 " in x or " #1 " in x)][:4]
            bad_prop.append({"kind": "crash / sanitizer report / watchdog", "rc": rc, "site": site, "cases_file": cfile, "last_output": out[-300:]})
        ic = common.split_cases(out.split("\n"))
        for kk, li in ic.items():
            m = metas[int(kk)]
            dist[m["kind"]] = dist.get(m["kind"], 0) + 1
            for l in li:
                if l.startswith("open "):
                    dist["opened" if l.strip() == "open 0" else "open_refused"] += 1
                if l.startswith("prop ") and "FAIL" in l:
                    bad_prop.append({"kind": l, "case": kk, "meta": m, "cases_file": cfile})
            rep.add_case((m["kind"], m["bytes"], m["seekable"], tuple(li[:3])), nontrivial=True, sample=m if int(kk) % 41 == 0 else None)
    rep.coverage["rule"] = ("per base file (chained, real-encoder + hand-made links): the intact file, random bytes, a truncation and byte-level mutations "
                            "(page header fields with and without CRC repair, dropped/duplicated/reordered/foreign pages, garbage, lying granule positions, "
                            "missing EOS, damaged header and audio packets inside valid pages), seekable and streaming, short reads; then a random sequence "
                            "over the WHOLE public API (reads, all seek and lapped-seek variants, tells, totals, info/comment, bitrate, half-rate, cross-lap "
                            "between two handles); every case non-trivial, distinct by content")
    dist["corpus_cases"] = ncorpus
    rep.coverage["distribution"] = dist
    if bad_prop:
        rep.violation("property fails on the implementation", {"failures": bad_prop[:10], "seed": seed})
    if not pr["ok"]:
        rep.violation("proof obligations of Properties_C03.v not discharged: " + "; ".join(pr["failed"]),
                      {"theorem_file": "coq/Properties_C03.v", "failed": pr["failed"], "log": pr["log"][-3000:]},
                      found_input=bool(bad_prop))


def replay(rep, path):
    check(rep, "quick", rep.seed)
