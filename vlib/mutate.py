"""Byte-level mutations of Ogg files (inputs only)."""
import struct
from . import streams


def fix_crc(page):
    p = page[:22] + b"\0\0\0\0" + page[26:]
    return p[:22] + struct.pack("<I", streams.ogg_crc(p)) + p[26:]


def mutate(rng, data, nmut=None):
    """Returns a damaged copy: page-header fields (CRC fixed or not), dropped / duplicated /
    reordered pages, foreign multiplexed pages, truncations, garbage, bit flips."""
    pages = streams.parse_pages(data)
    blobs = [data[p["offset"]:p["offset"] + p["len"]] for p in pages]
    tail = data[sum(len(b) for b in blobs):]
    nmut = nmut or rng.range(1, 4)
    for _ in range(nmut):
        if not blobs:
            break
        k = rng.below(14)
        i = rng.below(len(blobs))
        b = bytearray(blobs[i])
        is_page = len(b) >= 27 and b[:4] == b"OggS" and len(b) >= 27 + b[26]
        if not is_page and k in (0, 1, 2, 3, 9, 11, 12, 13):
            k = 10 if len(b) else 4
        if k == 0:                                   # granule position lies
            g = rng.choice([0, -1, 1, -2, 1 << 40, -(1 << 40), (1 << 63) - 1, -(1 << 63), rng.below(100000)])
            b[6:14] = struct.pack("<q", g)
            blobs[i] = fix_crc(bytes(b))
        elif k == 1:                                 # serial number
            b[14:18] = struct.pack("<I", rng.choice([0, 1, 0xffffffff, rng.below(1 << 32)]))
            blobs[i] = fix_crc(bytes(b))
        elif k == 2:                                 # flags (continued / bos / eos)
            b[5] = rng.below(8)
            blobs[i] = fix_crc(bytes(b))
        elif k == 3:                                 # page sequence number
            b[18:22] = struct.pack("<I", rng.below(1 << 32) if rng.chance(1, 2) else rng.below(10))
            blobs[i] = fix_crc(bytes(b))
        elif k == 4:
            del blobs[i]                             # dropped page
        elif k == 5:
            blobs.insert(i, blobs[i])                # duplicated page
        elif k == 6 and len(blobs) > 1:
            j = rng.below(len(blobs))
            blobs[i], blobs[j] = blobs[j], blobs[i]  # reordered
        elif k == 7:                                 # foreign stream page multiplexed in
            fp = streams.make_page(rng.below(1 << 31) + 77, rng.below(5), rng.below(1000), rng.bytes(rng.below(300)),
                                   [rng.below(255)], bos=rng.chance(1, 2), eos=rng.chance(1, 4))
            blobs.insert(i, fp)
        elif k == 8:                                 # garbage between pages
            blobs.insert(i, rng.bytes(rng.below(200)) + (b"OggS" if rng.chance(1, 3) else b""))
        elif k == 9:                                 # body bytes changed, CRC fixed: damaged packets in valid pages
            if len(b) > 28:
                for _ in range(rng.range(1, 6)):
                    j = rng.range(27, len(b) - 1)
                    b[j] = rng.below(256)
                blobs[i] = fix_crc(bytes(b))
        elif k == 10:                                # bit flips without fixing the CRC
            j = rng.below(len(b))
            b[j] ^= 1 << rng.below(8)
            blobs[i] = bytes(b)
        elif k == 11:                                # lacing table changed
            if b[26] > 0:
                b[27 + rng.below(b[26])] = rng.below(256)
                blobs[i] = fix_crc(bytes(b)[:27 + b[26] + sum(b[27:27 + b[26]])]) if rng.chance(1, 2) else bytes(b)
        elif k == 12:                                # missing EOS: clear the flag on the last page of a link
            b[5] &= ~4
            blobs[i] = fix_crc(bytes(b))
        else:                                        # header packet damage with valid framing
            if i < 3 and len(b) > 40:
                j = rng.range(28, len(b) - 1)
                b[j] = rng.choice([0, 1, 255, b[j] ^ 0x80, rng.below(256)])
                blobs[i] = fix_crc(bytes(b))
    out = b"".join(blobs) + tail
    if rng.chance(1, 5) and len(out) > 10:
        out = out[:rng.below(len(out))]              # truncation
    return out
