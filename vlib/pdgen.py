"""Generator of VALID Vorbis I set-ups over the whole feature space of the format
(not only what the bundled encoder emits) and of audio packets under them.
With complete Huffman trees every bit string is a decodable packet."""
from . import streams
from .streams import BitWriter, ilog


def quantvals1(entries, dim):
    if entries < 1 or dim < 1:
        return 0
    v = int(round(entries ** (1.0 / dim)))
    while v ** dim > entries:
        v -= 1
    while (v + 1) ** dim <= entries:
        v += 1
    return v


def tree_lengths(rng, used, maxdepth=24):
    """depths of the leaves of a random full binary tree with `used` leaves"""
    if used == 1:
        return [1]
    leaves = [1, 1]
    while len(leaves) < used:
        cand = [i for i, d in enumerate(leaves) if d < maxdepth]
        # bias towards balanced trees now and then so that big books stay shallow
        i = rng.choice(cand) if rng.below(3) else min(cand, key=lambda k: leaves[k])
        d = leaves.pop(i)
        leaves += [d + 1, d + 1]
    return leaves


def gen_book(rng, used, dim, vq, style=None):
    """style: None=random among unordered / sparse / ordered / single"""
    style = style if style is not None else rng.choice(["plain", "plain", "sparse", "ordered"])
    if style == "huge":
        # more than 32767 used entries (the decoder's packed search hints hold 15-bit bounds): a complete tree of 15/16-bit codewords
        lens = [16] * 32768 + [15] * 16384
        style = rng.choice(["plain", "ordered"])
    else:
        lens = tree_lengths(rng, used)
    if style == "ordered":
        lens = sorted(lens)
    else:
        rng.shuffle(lens)
    if style == "sparse":
        extra = rng.range(1, max(1, used // 2) + 1)
        for _ in range(extra):
            lens.insert(rng.below(len(lens) + 1), 0)
    entries = len(lens)
    cb = {"dim": dim, "lengths": lens, "ordered": style == "ordered"}
    if style == "sparse" or (style == "plain" and rng.below(6) == 0):
        cb["force_sparse"] = True
    if vq:
        mt = rng.choice([1, 2])
        quant = rng.choice([1, 2, 3, 4, 5, 8, 12, 16])
        nq = quantvals1(entries, dim) if mt == 1 else entries * dim
        if mt == 2 and nq > 6000:
            mt, nq = 1, quantvals1(entries, dim)
        cb.update({"maptype": mt, "quant": quant, "seq": rng.below(4) == 0,
                   "min": rng.choice([-8.0, -1.0, -0.5, 0.0, -3.5, -100.0, 0.25]) * rng.choice([1, 1, 0.001, 37]),
                   "delta": rng.choice([1.0, 0.5, 0.25, 2.0, 0.0625, 3.0, 1e-3, 11.0]),
                   "quantlist": [rng.below(1 << quant) for _ in range(nq)]})
        cb["seq"] = 1 if cb["seq"] else 0
    else:
        cb["maptype"] = 0
    return cb


class SetupGen:
    def __init__(self, rng, channels, bs0, bs1, rich=True):
        self.rng, self.ch, self.bs0, self.bs1 = rng, channels, bs0, bs1
        self.books = []
        self.rich = rich

    def add_book(self, used, dim, vq, style=None):
        assert len(self.books) < 250, "generator invariant: at most ~170 books per set-up"
        self.books.append(gen_book(self.rng, used, dim, vq, style))
        return len(self.books) - 1

    def scalar_book(self, used=None):
        rng = self.rng
        used = used or rng.choice([1, 2, 3, 4, 8, 16, 31, 64, 100, 256])
        style = "single" if used == 1 else None
        if used == 1:
            return self.add_book(1, rng.choice([1, 2, 4]), False, "plain")
        return self.add_book(used, rng.choice([0, 1, 1, 2, 4, 8]), bool(rng.below(3) == 0) and False, style)

    def vq_book(self, dim=None, used=None):
        rng = self.rng
        if not self.rich:
            dim = dim or rng.choice([1, 2, 4])
            used = used or rng.choice([4, 8, 16, 81])
        if self.rich and not getattr(self, "has_huge", False) and rng.below(60) == 0:
            self.has_huge = True
            return self.add_book(49152, rng.choice([1, 2]), True, "huge")
        dim = dim or rng.choice([1, 1, 2, 2, 3, 4, 4, 5, 8, 16])
        used = used or rng.choice([1, 2, 3, 5, 8, 9, 16, 27, 32, 81, 128, 243])
        return self.add_book(used, dim, True)

    def floor1(self):
        rng = self.rng
        nparts = rng.choice([0, 1, 2, 3, 4, 6, 10, 31]) if self.rich else rng.choice([1, 2, 3])
        nclasses = rng.range(1, 4) if nparts else 0
        classes = []
        for _ in range(nclasses):
            subs = rng.below(4)
            c = {"dim": rng.range(1, 8), "subs": subs, "book": self.scalar_book(rng.choice([2, 4, 8, 16, 64, 256])) if subs else 0,
                 "subbook": [(-1 if rng.below(4) == 0 else self.scalar_book(rng.choice([1, 2, 4, 16, 64, 128, 256]))) for _ in range(1 << subs)]}
            classes.append(c)
        pc, total = [], 0
        for _ in range(nparts):
            c = rng.below(nclasses)
            if total + classes[c]["dim"] > 63:
                break
            pc.append(c)
            total += classes[c]["dim"]
        used_classes = (max(pc) + 1) if pc else 0
        classes = classes[:used_classes]
        need = total
        rb = rng.choice([r for r in range(0, 16) if (1 << r) - 1 >= need][:10] or [15])
        pool = list(range(1, 1 << rb))
        if len(pool) > 4000:
            posts = set()
            while len(posts) < need:
                posts.add(rng.range(1, (1 << rb) - 1))
            posts = list(posts)
        else:
            rng.shuffle(pool)
            posts = pool[:need]
        rng.shuffle(posts)
        return {"type": 1, "partitionclass": pc, "classes": classes, "mult": rng.range(1, 4), "rangebits": rb, "posts": posts}

    def floor0(self):
        rng = self.rng
        nb = rng.choice([1, 1, 2, 3, 16])
        if not self.rich:
            return {"type": 0, "order": rng.choice([2, 8, 16]), "rate": 44100, "barkmap": rng.choice([64, 256]), "ampbits": rng.choice([4, 6]),
                    "ampdB": 140, "books": [self.vq_book(rng.choice([1, 2, 4]), rng.choice([4, 16, 64]))]}
        return {"type": 0, "order": rng.choice([1, 2, 3, 8, 9, 16, 30, 31, 64, 255]), "rate": rng.choice([1, 8000, 22050, 44100, 48000, 65535]),
                "barkmap": rng.choice([1, 2, 16, 64, 128, 256, 1024, 65535]), "ampbits": rng.choice([0, 1, 4, 6, 8, 16, 24]),
                "ampdB": rng.choice([0, 1, 90, 140, 255]), "books": [self.vq_book() for _ in range(nb)]}

    def residue(self):
        rng = self.rng
        typ = rng.below(3)
        parts = rng.choice([1, 2, 3, 4, 5, 8, 10, 64]) if self.rich else rng.choice([2, 4])
        pdim = rng.choice([1, 1, 2, 2, 3, 4])
        while parts ** pdim > 4096:
            pdim -= 1
        pdim = max(pdim, 1)
        need = parts ** pdim
        gb = self.add_book(max(need, rng.choice([need, need, need + 1, need + 7]), 1) if need > 1 else rng.choice([1, 2, 5]), pdim, False,
                           None if need > 1 else "plain")
        casc, books = [], []
        pool = []            # at most 6 fresh value books per residue, then reuse
        def stage_book():
            if len(pool) < 6:
                pool.append(self.vq_book())
                return pool[-1]
            return rng.choice(pool)
        for _ in range(parts):
            c = rng.choice([0, 1, 1, 2, 3, 3, 4, 5, 7, 0x80, 0x81, 0x0f, 0xff, rng.below(256)]) if self.rich else rng.choice([0, 1, 3])
            casc.append(c)
            for k in range(8):
                if c >> k & 1:
                    books.append(stage_book())
        half = self.bs1 // 2
        mult = self.ch if typ == 2 else 1
        if not self.rich:
            return {"type": typ, "begin": 0, "end": half * mult, "grouping": rng.choice([2, 4, 8, 16]), "partitions": parts,
                    "groupbook": gb, "cascade": casc, "books": books}
        begin = rng.choice([0, 0, 0, 0, 0, 1, 7, half // 4, half * mult, half * mult + 5])
        end = rng.choice([half * mult, half * mult, half * mult, half * mult // 2, self.bs0 // 2 * mult, half * mult + 100, 0, begin, (1 << 24) - 1])
        return {"type": typ, "begin": begin, "end": end, "grouping": rng.choice([1, 2, 3, 4, 8, 8, 16, 16, 32, 33, 64, 1 << 20]), "partitions": parts,
                "groupbook": gb, "cascade": casc, "books": books}

    def build(self):
        rng = self.rng
        nfl, nres = rng.range(1, 3), rng.range(1, 3)
        # books referenced by floors/residues are created on the fly
        floors = [(self.floor0() if rng.below(4) == 0 else self.floor1()) for _ in range(nfl)]
        residues = [self.residue() for _ in range(nres)]
        nmaps = rng.range(1, 3)
        maps = []
        for _ in range(nmaps):
            subs = rng.choice([1, 1, 2, 3, 16]) if self.rich else 1
            coup = []
            if self.ch >= 2 and rng.below(2):
                for _ in range(rng.choice([1, 1, 2, 3, self.ch])):
                    m = rng.below(self.ch)
                    a = rng.below(self.ch - 1)
                    if a >= m:
                        a += 1
                    coup.append((m, a))
            maps.append({"submaps": subs, "coupling": coup, "mux": [rng.below(subs) for _ in range(self.ch)],
                         "floor": [rng.below(nfl) for _ in range(subs)], "residue": [rng.below(nres) for _ in range(subs)]})
        nmodes = rng.choice([1, 2, 2, 3, 4, 7, 64]) if self.rich else 2
        modes = [{"blockflag": rng.below(2), "mapping": rng.below(nmaps)} for _ in range(nmodes)]
        if not self.books:
            self.books.append(gen_book(rng, 2, 1, False))
        return {"books": self.books, "floors": floors, "residues": residues, "mappings": maps, "modes": modes}


def gen_stream(rng, big=False, max_ch=4):
    """-> dict(channels, rate, bs0, bs1, setup, headers=[id, comment, setup bytes])"""
    ch = rng.choice([1, 1, 2, 2, 3, max_ch])
    sizes = [64, 128, 256, 512] + ([1024, 2048, 4096, 8192] if big else [1024])
    bs0 = rng.choice(sizes)
    bs1 = rng.choice([s for s in sizes if s >= bs0])
    rate = rng.choice([8000, 22050, 44100, 48000, 1, 4294967295])
    rich = rng.below(2) == 0
    setup = SetupGen(rng, ch, bs0, bs1, rich=rich).build()
    hid = streams.id_header(ch, rate, bs0, bs1)
    hc = streams.comment_header()
    hs = streams.setup_header(setup, ch)
    return {"channels": ch, "rate": rate, "bs0": bs0, "bs1": bs1, "setup": setup, "headers": [hid, hc, hs]}


def gen_packet(rng, st, mode=None, nbytes=None, lW=None, nW=None):
    modes = st["setup"]["modes"]
    mode = rng.below(len(modes)) if mode is None else mode
    w = BitWriter()
    w.write(0, 1)
    w.write(mode, ilog(len(modes) - 1))
    if modes[mode]["blockflag"]:
        w.write(rng.below(2) if lW is None else lW, 1)
        w.write(rng.below(2) if nW is None else nW, 1)
    n = (st["bs1"] if modes[mode]["blockflag"] else st["bs0"])
    nbytes = nbytes if nbytes is not None else rng.choice([0, 1, 5, 20, n // 16, n // 8, n // 8, n // 4, n // 4, n // 2, n])
    style = rng.choice([0, 0, 0, 1, 2, 3])
    if rng.below(4):
        w.write(1, 1)             # a used floor-1 channel / a non-zero floor-0 amplitude bit
    for _ in range(nbytes):
        if style == 0:
            w.write(rng.below(256), 8)
        elif style == 1:
            w.write(rng.choice([0, 0, 0, 1, 2, 4, 128, 255]), 8)       # mostly zero bits: short codewords
        elif style == 2:
            w.write(255 if rng.below(3) else rng.below(256), 8)
        else:
            w.write(rng.below(256) & rng.below(256), 8)
    return w.bytes(), mode


def gen_sequence(rng, st, npk):
    """packets whose window flags agree with their neighbours (a well-formed stream)"""
    modes = st["setup"]["modes"]
    ms = [rng.below(len(modes)) for _ in range(npk)]
    Ws = [modes[m]["blockflag"] for m in ms]
    out = []
    for k, m in enumerate(ms):
        lW = Ws[k - 1] if k > 0 else rng.below(2)
        nW = Ws[k + 1] if k + 1 < npk else rng.below(2)
        pkt, _ = gen_packet(rng, st, m, None, lW, nW)
        out.append(pkt)
    return out


def meta_of(st):
    s = st["setup"]
    return {"bs0": st["bs0"], "bs1": st["bs1"], "channels": st["channels"],
            "modes": [{"blockflag": m["blockflag"], "mapping": m.get("mapping", 0)} for m in s["modes"]],
            "mappings": [{"mux": m.get("mux", [0] * st["channels"]), "floor": m.get("floor", [0])} for m in s["mappings"]],
            "floors": [({"type": 0, "order": f["order"], "rate": f["rate"], "barkmap": f["barkmap"], "ampbits": f["ampbits"], "ampdB": f["ampdB"]}
                        if f.get("type", 1) == 0 else {"type": 1}) for f in s["floors"]]}
