"""C17: integer PCM output is the rounded, clipped, interleaved float output."""
import os
import concurrent.futures as cf
from . import common, streams
from .common import SplitMix

LEVEL = "proof"
TRUSTED = ["Coq 8.16.1 kernel + vm_compute", "extraction (ExtrOcamlBasic) + ml/driver.ml",
           "harness/c17.c (ov_read_filter's filter callback injects and logs the floats), clang ASan/UBSan",
           "x86-64 semantics of mulss/cvtss2sd/cvtsd2si under the default MXCSR rounding mode as written into Pcm.ftoi",
           "vlib/streams.py (hand-made streams with 1..255 channels)"]


def gen_case(rng, k, tier):
    ch = rng.choice([1, 2, 2, 3, 5, 6, 8, 17, 64, 255])
    bs0 = rng.choice([64, 128, 256, 512])
    bs1 = rng.choice([b for b in (256, 512, 1024, 2048) if b >= bs0])
    nlinks = 1 if rng.chance(3, 4) else 2
    data = b""
    lens = []
    for li in range(nlinks):
        nw = rng.range(3, 9)
        wseq = tuple([0] + [rng.below(2) for _ in range(nw)])
        # a second link mostly has ANOTHER channel count: ov_read must pack with the current link's
        ch2 = ch if li == 0 else rng.choice([c for c in (1, 2, 3, ch) if c != ch] + [ch])
        d, meta = streams.build_link(100 + li, channels=ch2, bs0=bs0, bs1=bs1, wseq=wseq,
                                     layout=(rng.range(1, 4),))
        data += d
        lens.append(meta.get("N", 0))
    hs = 1 if (bs0 >= 128 and rng.chance(1, 4)) else 0
    ops = []
    for _ in range(rng.range(4, 14)):
        r = rng.below(12)
        if r == 0:
            ops.append("f:%d" % rng.choice([1, 7, 100]))
            continue
        word = rng.choice([1, 2, 2, 2]) if r != 1 else rng.choice([0, -1, -5])
        sg = rng.below(2)
        be = rng.below(2)
        frame = max(word, 1) * ch
        ln = rng.choice([0, 1, frame - 1, frame, frame + 1, 2 * frame - 1, 2 * frame, 7 * frame + 3, 4096, 100000,
                         rng.below(frame * 40 + 1)])
        if rng.chance(1, 25):
            ln = -rng.below(50)
        pat = rng.choice([0, 1, 1, 1, 2, 3, 3, 4, 5])
        if word == 1 and pat == 3:
            pat = 4
        ops.append("r:%d:%d:%d:%d:%d" % (word, sg, be, ln, pat))
    if rng.chance(1, 3):
        # at the end of the stream too: drain, then bad word sizes and a valid read
        ops += ["f:100000"] * 70 + ["r:0:1:0:64:0", "r:-1:0:1:64:0", "r:2:1:0:64:0"]
    if nlinks == 2 and lens[1] > 0 and rng.chance(2, 3):
        # start inside the second link, so that the reads below are packed there
        ops.insert(0, "s:%d" % (lens[0] + rng.below(max(1, lens[1] // 2))))
    text = "case %d %d %d %s\nops %s\n" % (k, hs, rng.below(1 << 30), data.hex(), " ".join(ops))
    return text, {"case": k, "channels": ch, "bs": [bs0, bs1], "links": nlinks, "halfrate": hs, "ops": " ".join(ops)}


def check(rep, tier, seed):
    rep.assumptions = ["x86-64 build (the SSE2 variant of vorbis_ftoi in lib/os.h is the one compiled); default MXCSR rounding",
                       "the float product x*128 / x*32768 is exact or overflows to an infinity (scaling by a power of two)"]
    rep.coverage["trusted_base"] = TRUSTED
    pr = common.prove("C17", clean=(tier == "thorough"))
    rep.proof(pr)
    exe = common.build_harness("c17")
    common.build_model()
    rng = SplitMix(seed * 1000003 + 17)
    ncases = 128 if tier == "quick" else 3000
    texts, metas = [], []
    for k in range(ncases):
        t, m = gen_case(rng, k, tier)
        texts.append(t)
        metas.append(m)
    shards = 16
    wd = common.workdir("C17")

    def one(i):
        return common.run_replay_pair(exe, "c17", "".join(texts[i::shards]), os.path.join(wd, "s%d" % i), timeout=3000)
    with cf.ThreadPoolExecutor(shards) as ex:
        results = list(ex.map(one, range(shards)))
    bad_prop, bad_tie = [], []
    dist = {"reads": 0, "reads_ok": 0, "einval": 0, "samples_packed": 0, "formats": {}}
    for i, (irc, il, ierr, mrc, ml, merr) in enumerate(results):
        cfile = os.path.join(wd, "s%d" % i, "c17.cases")
        if irc != 0:
            bad_prop.append({"kind": "implementation crashed / sanitizer / timeout", "rc": irc, "stderr": ierr[-3000:], "cases_file": cfile})
        if mrc != 0:
            bad_tie.append({"kind": "model driver failed", "rc": mrc, "stderr": merr[-2000:]})
        ic, diffs, props = common.diff_cases(il, ml)
        for d in diffs:
            d["cases_file"] = cfile
            for key in ("impl", "model"):
                if d.get(key):
                    d[key] = d[key][:300]
            d["context"] = [c[:160] for c in d.get("context", [])]
            # the model's bytes are pinned to the property's wording by C17_round_clip_saturates,
            # C17_bytes_encode_value, C17_interleave_order, C17_read_returns_whole_frames:
            # a different byte string / return value on these inputs is the property failing
            d["kind"] = "implementation's bytes/return differ from the proved specification"
            bad_prop.append(d)
        for k, ps in props.items():
            for p in ps:
                if "FAIL" in p:
                    bad_prop.append({"kind": p, "case": k, "meta": metas[int(k)], "cases_file": cfile})
        for k, li in ic.items():
            m = metas[int(k)]
            nr = 0
            for l in li:
                if l.startswith("R "):
                    nr += 1
                    dist["reads"] += 1
                    f = " ".join(l.split()[1:4])
                    dist["formats"][f] = dist["formats"].get(f, 0) + 1
                if l.startswith("ret "):
                    r = int(l.split()[1])
                    if r > 0:
                        dist["reads_ok"] += 1
                    elif r == -131:
                        dist["einval"] += 1
                if l.startswith("filter "):
                    dist["samples_packed"] += int(l.split()[1]) * int(l.split()[2])
            rep.add_case((m["channels"], m["halfrate"], m["ops"], tuple(x[:60] for x in li if x.startswith("out "))),
                         nontrivial=nr > 0, sample=m if int(k) % 29 == 0 else None)
    rep.coverage["rule"] = ("hand-made streams (1..255 channels, 1-2 links, half-rate on/off); ov_read_filter in all 8 formats plus bad word sizes, "
                            "buffer lengths around one frame; injected floats: ties at k+0.5 for both scales, +-32767.5, +-65536, 2^31/scale, 1e10, FLT_MAX, "
                            "denormals, infinities, NaN, random bit patterns; non-trivial = at least one read op; distinct by ops and output bytes")
    rep.coverage["distribution"] = dist
    if bad_prop:
        rep.violation("property fails on the implementation", {"failures": bad_prop[:10], "seed": seed})
    elif bad_tie:
        rep.violation("correspondence Pcm.v <-> ov_read_filter no longer holds", {"differences": bad_tie[:10], "seed": seed},
                      found_input=False)
    if not pr["ok"]:
        rep.violation("proof obligations of Properties_C17.v not discharged: " + "; ".join(pr["failed"]),
                      {"theorem_file": "coq/Properties_C17.v", "failed": pr["failed"], "log": pr["log"][-3000:]},
                      found_input=bool(bad_prop))


def replay(rep, path):
    check(rep, "quick", rep.seed)
