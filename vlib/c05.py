"""C05: encoder output is a valid stream that the decoder consumes bit-for-bit."""
import os
import struct
import concurrent.futures as cf
from . import common, pdx
from .common import SplitMix

LEVEL = "proof"

CONFIGS = [(1, 8000), (1, 11025), (2, 16000), (2, 22050), (1, 32000), (2, 44100), (2, 48000), (3, 44100), (4, 48000), (5, 44100), (6, 44100), (6, 48000),
           (8, 44100), (2, 96000), (1, 192000), (2, 8000), (255, 44100), (7, 32000)]


def f32bits(x):
    return struct.unpack("<I", struct.pack("<f", x))[0]


def check(rep, tier, seed):
    rep.assumptions = ["configurations and control settings that set up successfully (refused ones are counted, not judged)",
                       "with a hard maximum configured a packet may be truncated: then only 'never rejected' is required"]
    rep.coverage["trusted_base"] = pdx.TRUSTED + ["harness/c05enc.c (drives the real encoder and writes the packets into the case file)"]
    pr = common.prove("C05", clean=(tier == "thorough"))
    rep.proof(pr)
    rng = SplitMix(seed * 1000003 + 5)
    wd = common.workdir("C05")
    quick = tier == "quick"
    nenc = 64 if quick else 1500
    specs, metas = [], []
    # fixed managed encodes (average only / average + generous maximum, noise and tones, no control settings): every run
    # exercises the packet selection of the bitrate manager on enough packets, whatever the seed
    FIXED = [(1, 22050, -1, 32000, -1, 1), (2, 44100, -1, 128000, -1, 1), (6, 48000, -1, 256000, -1, 2), (2, 44100, 256000, 96000, -1, 1),
             # a hard MINIMUM only, on seconds of full-scale noise (the reservoir has to fill): no maximum is configured, so no packet may be cut short
             (2, 44100, -1, 128000, 32000, 1)]
    # fixed lowest-quality encodes of loud input (square wave, noise 8x beyond full scale, full-scale noise): the sparsest residue
    # books, where the quantised vector most often lands on an unused entry and the encoder has to pick a neighbour
    FIXEDQ = [(2, 8000, -0.1, 7, 60000), (2, 8000, -0.1, 6, 60000), (6, 22050, -0.1, 6, 40000), (1, 44100, -0.1, 7, 60000), (6, 44100, 0.3, 6, 40000),
              (6, 22050, -0.1, 1, 40000)]
    for k in range(nenc):
        if k < len(FIXED):
            ch, rate, mx, nom, mn, sig = FIXED[k]
            n = 20000 if mn < 0 else 170000
            specs.append("%d %d %d 1 %d %d %d %d %d %d %d" % (k, ch, rate, mx, nom, mn, n, sig, 12345 + k, 0))
            metas.append({"case": k, "ch": ch, "rate": rate, "managed": [mx, nom, mn], "samples": n, "signal": sig, "ctl": 0, "fixed": True})
            continue
        if k < len(FIXED) + len(FIXEDQ):
            ch, rate, q, sig, n = FIXEDQ[k - len(FIXED)]
            specs.append("%d %d %d 0 %d %d %d %d %d" % (k, ch, rate, f32bits(q), n, sig, 12345 + k, 0))
            metas.append({"case": k, "ch": ch, "rate": rate, "quality": q, "samples": n, "signal": sig, "ctl": 0, "fixed": True})
            continue
        ch, rate = rng.choice(CONFIGS)
        if ch == 255 and rng.below(4):
            ch, rate = 2, 44100
        sig = rng.below(9)
        n = rng.choice([0, 1, 300, 3000, 9000, 20000]) if (quick or ch > 8) else rng.choice([0, 1, 300, 5000, 30000, 90000])
        if ch > 8:
            n = min(n, 3000)
        ctl = rng.choice([0, 0, 0, 1, 2, 4, 8, 3, 15])
        managed = rng.below(3) == 0
        if managed:
            per = rng.choice([24000, 32000, 48000, 64000, 96000, 160000])
            mode = rng.below(5)
            nom = per * ch
            mx = -1 if mode == 0 else rng.choice([nom, nom * 2])
            mn = -1 if mode in (0, 1) else nom // 2
            if mode == 3:
                mx = mn = nom
            if mode == 4:
                mx = -1              # a hard minimum only
            specs.append("%d %d %d 1 %d %d %d %d %d %d %d" % (k, ch, rate, mx, nom, mn, n, sig, rng.below(1 << 40), ctl))
            metas.append({"case": k, "ch": ch, "rate": rate, "managed": [mx, nom, mn], "samples": n, "signal": sig, "ctl": ctl})
        else:
            q = rng.choice([-0.1, 0.0, 0.1, 0.3, 0.4, 0.5, 0.7, 0.9, 1.0])
            specs.append("%d %d %d 0 %d %d %d %d %d" % (k, ch, rate, f32bits(q), n, sig, rng.below(1 << 40), ctl))
            metas.append({"case": k, "ch": ch, "rate": rate, "quality": q, "samples": n, "signal": sig, "ctl": ctl})
    enc = common.build_harness("c05enc")
    shards = 16
    os.makedirs(wd, exist_ok=True)

    def run_enc(i):
        sf = os.path.join(wd, "spec%d" % i)
        with open(sf, "w") as f:
            f.write("\n".join(specs[i::shards]) + "\n")
        return common.run([enc, sf], env=common.san_env(), timeout=3000)
    with cf.ThreadPoolExecutor(shards) as ex:
        encs = list(ex.map(run_enc, range(shards)))
    bad_prop, texts, einfo = [], [], {}
    for i, (rc, out, err) in enumerate(encs):
        if rc != 0:
            bad_prop.append({"kind": "encoder crashed / sanitizer", "rc": rc, "stderr": err[-3000:], "spec_file": os.path.join(wd, "spec%d" % i)})
        cur, body = None, []
        for l in out.split("\n"):
            if l.startswith("case "):
                cur = l[5:].strip()
                body = [l]
                einfo[cur] = []
            elif cur is not None:
                if l.startswith("einfo "):
                    einfo[cur].append(l)
                elif l:
                    body.append(l + " e" if l.startswith("pkt ") else l)      # "e": ask the model whether the packet is cut short
                    if l == "end":
                        texts.append("\n".join(body) + "\n")
                        cur = None
    res = pdx.run(texts, os.path.join(wd, "pd"))
    bad_prop += res["crashes"]
    dist = {"encodes": nenc, "refused": 0, "packets": 0, "managed_encodes": 0, "packets_with_padding": 0, "packets_truncated_by_hard_max": 0,
            "spectra_compared": 0, "long_blocks": 0, "short_blocks": 0, "max_bits_left_unmanaged": 0}
    for k, li in res["impl"].items():
        m = metas[int(k)]
        ei = einfo.get(k, [])
        if any(l.startswith("einfo refused") for l in ei):
            dist["refused"] += 1
            rep.add_case((int(k), "refused"), nontrivial=False)
            continue
        info = next((l.split() for l in ei if l.startswith("einfo info")), None)
        esetup = next((l.split()[2:] for l in ei if l.startswith("einfo setup")), None)
        managed = info is not None and info[10] == "1"
        # a hard maximum is what the APPLICATION configured (the set-up call's max argument), not what the bitrate manager ended up
        # holding: the two must agree, and a manager that enforces a maximum nobody asked for is cutting packets it may not cut
        hardmax = bool(m.get("managed")) and int(m["managed"][0]) > 0
        if info is not None and (int(info[12]) > 0) != hardmax and managed:
            bad_prop.append({"kind": "the bitrate manager holds a hard maximum of %s although the application configured %s" % (info[12], m["managed"][0]),
                             "case": k, "meta": m, "cases_file": res["files"][k]})
        dist["managed_encodes"] += managed
        cf_ = res["files"][k]
        hdrs = [l for l in li if l.startswith("hdr ")]
        if hdrs != ["hdr OK"] * 3:
            bad_prop.append({"kind": "the decoder rejected a header the encoder produced: %s" % hdrs, "case": k, "meta": m, "cases_file": cf_})
        ident = next((l.split()[1:] for l in li if l.startswith("ident ")), None)
        if info is not None and ident is not None:
            # channels rate upper nominal lower bs0 bs1 (bitrates are 32-bit fields in the header)
            want = [info[2], info[3]] + [str(((int(x) + 2 ** 31) % 2 ** 32) - 2 ** 31) for x in info[4:7]] + [info[7], info[8]]
            if ident != want:
                bad_prop.append({"kind": "headers convey other fields than the encoder's info structure", "decoder_sees": ident, "encoder_has": want,
                                 "case": k, "meta": m, "cases_file": cf_})
        dsetup = next((l.split()[1:] for l in li if l.startswith("setup ")), None)
        if esetup is not None and dsetup is not None and esetup != dsetup:
            bad_prop.append({"kind": "set-up header conveys other table sizes than the encoder's set-up", "decoder_sees": dsetup, "encoder_has": esetup,
                             "case": k, "meta": m, "cases_file": cf_})
        rp = [l for l in res["model"].get(k, []) if l.startswith("repack ")]
        dist["headers_repacked_identically"] = dist.get("headers_repacked_identically", 0) + sum(1 for l in rp if l == "repack same")
        if rp != ["repack same"]:
            bad_prop.append({"kind": "the set-up header is not what the packer model writes for the set-up the strict parser reads from it (%s): packers and "
                                     "unpackers are no longer inverse on this header" % (rp or "no repack line"), "case": k, "meta": m, "cases_file": cf_})
        if "init 0" not in li:
            bad_prop.append({"kind": "vorbis_synthesis_init failed on the encoder's headers", "case": k, "meta": m, "cases_file": cf_})
        pk = [l.split() for l in li if l.startswith("pkt ")]
        # packets that end before their data does (model decode with zero padding reads further): only a configured hard
        # maximum may cut a packet short
        eops = [l.split()[1] for l in res["model"].get(k, []) if l.startswith("eop ")]
        okpk = [j for j, t in enumerate(pk) if t[1] == "OK"]
        if len(eops) == len(okpk):
            for j, e in zip(okpk, eops):
                if e == "1":
                    if hardmax:
                        dist["packets_cut_short_under_hard_max"] = dist.get("packets_cut_short_under_hard_max", 0) + 1
                    else:
                        bad_prop.append({"kind": "audio packet %d ends before its data does although no hard maximum is configured (decoding it with zero "
                                                 "padding appended reads beyond its length)" % j, "case": k, "meta": m, "cases_file": cf_})
        elif eops or okpk:
            bad_prop.append({"kind": "internal: %d end-of-packet verdicts for %d decoded packets" % (len(eops), len(okpk)), "case": k, "meta": m, "cases_file": cf_})
        blocks = [l.split() for l in ei if l.startswith("einfo block")]
        for j, t in enumerate(pk):
            dist["packets"] += 1
            if t[1] != "OK":
                bad_prop.append({"kind": "the decoder rejected audio packet %d: %s" % (j, " ".join(t)), "case": k, "meta": m, "cases_file": cf_})
                continue
            W, lW, nW, left = int(t[3]), int(t[4]), int(t[5]), int(t[6])
            dist["long_blocks" if W else "short_blocks"] += 1
            if W:
                if j > 0 and pk[j - 1][1] == "OK" and lW != int(pk[j - 1][3]):
                    bad_prop.append({"kind": "packet %d: previous-window flag %d but the previous block was %s" % (j, lW, "long" if int(pk[j - 1][3]) else "short"),
                                     "case": k, "meta": m, "cases_file": cf_})
                if j + 1 < len(pk) and pk[j + 1][1] == "OK" and nW != int(pk[j + 1][3]):
                    bad_prop.append({"kind": "packet %d: next-window flag %d but the next block is %s" % (j, nW, "long" if int(pk[j + 1][3]) else "short"),
                                     "case": k, "meta": m, "cases_file": cf_})
            if j < len(blocks) and int(blocks[j][3]) != W:
                bad_prop.append({"kind": "packet %d decodes as %s but the encoder's block was %s" % (j, W, blocks[j][3]), "case": k, "meta": m, "cases_file": cf_})
            if not managed:
                dist["max_bits_left_unmanaged"] = max(dist["max_bits_left_unmanaged"], left)
                if left < 0 or left > 7:
                    bad_prop.append({"kind": "unmanaged packet %d not consumed to within its last byte: %d bits left (-2 = ran out of bits)" % (j, left),
                                     "case": k, "meta": m, "cases_file": cf_})
            else:
                if left > 7:
                    dist["packets_with_padding"] += 1
                if left < 0:
                    if hardmax:
                        dist["packets_truncated_by_hard_max"] += 1
                    else:
                        bad_prop.append({"kind": "managed packet %d ran out of bits although no hard maximum is configured" % j, "case": k, "meta": m, "cases_file": cf_})
        dist["spectra_compared"] += sum(1 for l in li if l.startswith("ch "))
        rep.add_case((int(k), m["ch"], m["rate"], str(m.get("quality", m.get("managed"))), m["signal"], m["samples"]), nontrivial=len(pk) > 0,
                     sample=m if int(k) % 13 == 0 else None)
    rep.coverage["rule"] = ("real encodes: 18 channel/rate configurations (1-8 and 255 channels, 8-192 kHz), qualities -0.1..1.0, managed (average only / "
                            "max / min+max / CBR), control settings (coupling off, lowpass, impulse tune, small reservoir), signals: silence, full-scale noise, "
                            "tones, impulses, DC, denormals, 8x beyond +-1, full-scale square, bursts; 0..90000 samples; every run also has 4 fixed managed encodes and 6 fixed lowest-quality encodes of loud input (sparse residue books). Every header and audio packet goes "
                            "through the real decoder and through the strict model parser/decoder: verdicts, all header fields, per-packet mode/window flags/"
                            "bits left and (every third packet) the full spectrum must agree exactly; the property oracle checks field equality with the "
                            "encoder's info, window-flag agreement with the neighbours, consumption to within the last byte (unmanaged), no rejection and no "
                            "running out of bits without a hard maximum (managed)")
    rep.coverage["distribution"] = dist
    if bad_prop:
        rep.violation("property fails on the implementation", {"failures": bad_prop[:10], "seed": seed})
    elif res["ties"]:
        rep.violation("the strict model decoder and the implementation disagree on encoder output", {"differences": res["ties"][:10], "seed": seed},
                      found_input=True)
    if not pr["ok"]:
        rep.violation("proof obligations of Properties_C05.v not discharged: " + "; ".join(pr["failed"]),
                      {"theorem_file": "coq/Properties_C05.v", "failed": pr["failed"], "log": pr["log"][-3000:]},
                      found_input=bool(bad_prop or res["ties"]))


def replay(rep, path):
    check(rep, "quick", rep.seed)
