"""Generators of physical streams and op sequences for the vorbisfile checks."""
import os
from . import common, streams


def encode_links(specs, workdir):
    """specs: list of (serial, ch, rate, q, N, kind, seed, flushevery) -> list of bytes (real encoder)."""
    exe = common.build_harness("mkogg")
    os.makedirs(workdir, exist_ok=True)
    cf = os.path.join(workdir, "mkogg.cases")
    with open(cf, "w") as f:
        for s in specs:
            f.write("enc %d %d %d %g %d %d %d %d\n" % s)
    rc, out, err = common.run([exe, cf], env=common.san_env(), timeout=1200)
    if rc != 0:
        raise common.BuildError("mkogg failed rc=%d\n%s" % (rc, err[-3000:]))
    files = []
    for l in out.split("\n"):
        if l.startswith("file "):
            h = l[5:].strip()
            files.append(bytes.fromhex(h) if h != "-" else b"")
    return files


def handmade_link(rng, serial, small=False, allow_trim_begin=True):
    bs0 = rng.choice([64, 64, 128, 256, 512, 1024])
    bs1 = rng.choice([b for b in (64, 128, 256, 512, 1024, 2048, 4096) if b >= bs0])
    ch = rng.choice([1, 1, 2, 3])
    rate = rng.choice([8000, 22050, 44100, 48000])
    shape = rng.below(10)
    if shape == 0:
        nw = 1                       # a single audio packet: zero samples
    elif shape == 1:
        nw = 2
    elif shape == 2:
        nw = rng.range(2, 4)
    else:
        nw = rng.range(4, 40 if not small else 14)
    wseq = [0] + [(rng.below(2) if bs0 != bs1 else 0) for _ in range(nw - 1)]
    full = streams.full_length(bs0, bs1, wseq)
    total = None
    if nw >= 2 and rng.chance(2, 3):
        last = [bs0, bs1][wseq[-2]] // 4 + [bs0, bs1][wseq[-1]] // 4
        total = full - rng.below(last)      # trimmed end inside the last block
    lay = rng.below(5)
    if lay == 0:
        layout = (1,)
    elif lay == 1:
        layout = (nw,)                      # all audio in ONE page
    elif lay == 2:
        layout = tuple(rng.range(1, 4) for _ in range(8))
    elif lay == 3:
        layout = (rng.range(2, 6),)
    else:
        layout = (1, nw)
    hl = rng.choice([(1, 2), (1, 1, 1), (1, 2)])
    goff = rng.choice([0, 0, 0, 1000, 123457, -7]) if nw >= 3 else 0
    if allow_trim_begin == "even" and nw >= 3 and 2 <= layout[0] < nw and rng.chance(1, 3):
        # half-rate checks: the beginning trimmed by an EVEN count (positions stay on the even grid)
        # (no more than the LAST packet of that page produces: what came before has been handed out by then)
        first = [bs0, bs1][wseq[layout[0] - 2]] // 4 + [bs0, bs1][wseq[layout[0] - 1]] // 4
        goff = -2 * rng.range(1, max(1, first // 2)) if first >= 2 else 0
    elif allow_trim_begin == "even" and goff < 0:
        goff = 0
    if goff < 0 and (layout[0] < 2 or layout[0] >= nw or not allow_trim_begin):
        goff = 0          # a negative granule position on the first page is not an intact stream
    data, meta = streams.build_link(serial, channels=ch, rate=rate, bs0=bs0, bs1=bs1, wseq=tuple(wseq), total=total,
                                    layout=layout, header_layout=hl, gran_offset=goff)
    if goff < 0:
        meta["N"] = max(0, meta["N"] + goff)
    meta["gran_offset"] = goff
    return data, meta


def gen_ops(rng, total, nbytes, nops, link_bounds, page_offsets, granules, kinds="all"):
    """Op sequences aimed at page / packet / link boundaries +-1 and at histories."""
    ops = []
    interesting = sorted(set([0, total] + link_bounds + granules))
    for _ in range(nops):
        r = rng.below(100)
        if r < 30:
            ops.append("rf:%d" % rng.choice([1, 7, 64, 500, 4096, 100000]))
        elif r < 55:
            t = rng.choice(interesting) + rng.choice([-2, -1, 0, 0, 1, 2]) if rng.chance(3, 4) else rng.below(total + 1)
            t = max(0, min(total, t))
            ops.append("ps:%d" % t)
        elif r < 70:
            t = rng.choice(interesting) + rng.choice([-1, 0, 1]) if rng.chance(2, 3) else rng.below(total + 1)
            t = max(0, min(total, t))
            ops.append("pp:%d" % t)
        elif r < 85:
            if page_offsets and rng.chance(3, 4):
                b = rng.choice(page_offsets) + rng.choice([-1, 0, 0, 1, 5])
            else:
                b = rng.below(nbytes + 1)
            b = max(0, min(nbytes, b))
            ops.append("rs:%d" % b)
        elif r < 92:
            t = rng.choice([-1, total + 1, total + 1000])
            ops.append(rng.choice(["ps:%d", "pp:%d"]) % t)
        elif r < 96:
            ops.append("rs:%d" % rng.choice([-1, nbytes + 1]))
        else:
            ops.append("ri:%d" % rng.choice([2, 64, 4096]) if kinds == "all+ri" else "rf:%d" % rng.choice([1, 2, 3]))
    return ops
