"""C15: encoder set-up succeeds completely or fails cleanly for all arguments."""
import os
import struct
import concurrent.futures as cf
from . import common
from .common import SplitMix

LEVEL = "proof"

BOUNDS = [8000, 9000, 15000, 19000, 26000, 40000, 50000, 70000, 200000]
RATES = [-1, 0, 1, 2, 100, 4000, 7999, 11025, 12000, 16000, 22050, 24000, 32000, 44100, 48000, 64000, 88200, 96000, 176400,
         192000, 200001, 1000000, 2 ** 31 - 1]
CHANS = [-1, 0, 1, 2, 3, 4, 5, 6, 7, 8, 9, 16, 32, 64, 128, 254, 255, 256, 300]
QUALS = [-0.2, -0.1, -0.1000001, -0.10000005, -0.05, 0.0, -0.0, 0.05, 0.1, 0.2, 0.3, 0.4, 0.5, 0.6, 0.7, 0.8, 0.9, 0.99, 0.9999, 0.99999994, 1.0, 1.5, 100.0, -1.0,
         float("nan"), float("inf"), float("-inf"), 1e-45, 3e38]
PER_CH = [-1, 0, 1, 4000, 6000, 7999, 8000, 12000, 15000, 16000, 22500, 32000, 45000, 48000, 64000, 80000, 86000, 96000, 128000, 160000, 190000, 240000, 240001,
          250000, 250001, 250002, 400000, 2000000]


def f32bits(x):
    return struct.unpack("<I", struct.pack("<f", x))[0]


def f64bits(x):
    return struct.unpack("<Q", struct.pack("<d", x))[0]


def gen_rate(rng):
    r = rng.below(10)
    if r < 4:
        return rng.choice(BOUNDS) + rng.choice([-2, -1, 0, 0, 1, 2])
    if r < 7:
        return rng.choice(RATES)
    if r < 9:
        return rng.choice([8000, 11025, 16000, 22050, 32000, 44100, 48000])
    return rng.range(1, 250000)


def gen_ch(rng):
    r = rng.below(10)
    if r < 5:
        return rng.choice([1, 2, 2, 3, 4, 5, 6, 6, 7, 8])
    if r < 8:
        return rng.choice(CHANS)
    return rng.range(-1, 300)


def gen_q(rng):
    if rng.below(3) == 0:
        return rng.range(-300, 1200) / 1000.0
    return rng.choice(QUALS)


def gen_triple(rng, ch):
    c = max(1, ch)
    def one():
        v = rng.choice(PER_CH)
        if v > 1:
            v = v * c + rng.choice([0, 0, -1, 1, c - 1, -c + 1])
        return v
    m = rng.below(6)
    if m == 0:
        return (-1, one(), -1)
    if m == 1:
        return (one(), -1, -1)
    if m == 2:
        return (-1, -1, one())
    if m == 3:
        return (one(), -1, one())
    if m == 4:
        return (0, 0, 0) if rng.below(2) else (-1, -1, -1)
    return (one(), one(), one())


def gen_ctl(rng, allow_dep):
    r = rng.below(12 if allow_dep else 10)
    if r == 0:
        return "C2S null"
    if r in (1, 2):
        ks = [-5, 0, 0, 32, 64, 128, 500, 2000000]
        damp = rng.choice([0.0, -1.0, 1e-9, 0.5, 1.5, 1e9, float("nan"), float("inf")])
        bias = rng.choice([-0.1, 0.0, 0.1, 0.5, 1.0, 1.0000001, float("nan")])
        res = rng.choice([-1, 0, 1, 8, 1000, 144000, 1000000, 2 ** 31])
        if rng.below(2):       # mostly valid
            mn, av, mx = sorted([rng.choice([32, 64, 96, 128]), rng.choice([64, 96, 128, 160]), rng.choice([128, 160, 256, 500])])
            mn = rng.choice([mn, 0]); mx = rng.choice([mx, 0]); av = rng.choice([av, 0])
            damp = rng.choice([0.5, 1.5, 3.0]); bias = rng.choice([0.0, 0.1, 0.5, 1.0]); res = rng.choice([8, 1000, 144000, 1000000])
        else:
            mn, av, mx = rng.choice(ks), rng.choice(ks), rng.choice(ks)
        return "C2S x %d %d %d %d %d %d %d" % (rng.choice([0, 1, 1, 2, -1]), mn, av, mx, f64bits(damp), res, f64bits(bias))
    if r == 3:
        return "C2G " + rng.choice(["null", "x", "x"])
    if r in (4, 5):
        return "CPL %d" % rng.choice([0, 1, 1, 5, -1])
    if r == 6:
        return "CO 33 %d" % f64bits(rng.choice([float("nan"), -1.0, 0.0, 1.0, 2.0, 3.5, 10.0, 20.5, 48.0, 99.0, 1000.0, float("inf")]))
    if r == 7:
        return "CO 49 %d" % f64bits(rng.choice([float("nan"), -20.0, -15.0, -5.0, 0.0, 5.0, float("-inf")]))
    if r == 8:
        return "CO %d 0" % rng.choice([32, 48, 64, 0, 1, 34, 80, 81, 4096, -1, 2 ** 31 - 1, 22, 23])
    if r == 9:
        return "CN %d" % rng.choice([16, 21, 33, 65, 0])
    num = rng.choice([16, 17, 18, 19])
    if rng.below(4) == 0 and num != 16:
        return "CD %d null" % num
    hmin, hmax = rng.choice([0, 32000, 64000, -1]), rng.choice([0, 64000, 128000, 256000])
    lo, hi = rng.choice([0, 64000, 96000]), rng.choice([0, 64000, 128000])
    return "CD %d x %d %d %d %d %d %d" % (num, rng.choice([0, 1]), hmin, hmax, f64bits(rng.choice([0.0, 0.5, 2.0, 100.0])), lo, hi)


def gen_case(rng, k, tier):
    lines, meta = [], {"case": k}
    kind = rng.below(10)
    untied = kind == 9
    ch, rate = gen_ch(rng), gen_rate(rng)
    meta.update({"ch": ch, "rate": rate})
    def setup_line(one):
        if rng.below(2):
            q = gen_q(rng)
            meta.setdefault("req", []).append("q=%r" % q)
            return "%s %d %d %d" % ("IV" if one else "V", ch, rate, f32bits(q))
        mx, nom, mn = gen_triple(rng, ch)
        meta.setdefault("req", []).append("managed=%d/%d/%d" % (mx, nom, mn))
        return "%s %d %d %d %d %d" % ("IM" if one else "M", ch, rate, mx, nom, mn)
    if kind < 4:
        meta["shape"] = "one-step"
        lines.append(setup_line(True))
        for _ in range(rng.below(4)):
            lines.append(gen_ctl(rng, False))
    else:
        meta["shape"] = "three-step" + ("+deprecated ctl" if untied else "")
        for _ in range(rng.below(3)):
            lines.append(gen_ctl(rng, untied))
        lines.append(setup_line(False))
        if rng.below(4) == 0:          # a second set-up call with other arguments before init
            ch2, rate2 = (gen_ch(rng), gen_rate(rng)) if rng.below(2) else (ch, rate)
            q = gen_q(rng)
            lines.append("V %d %d %d" % (ch2, rate2, f32bits(q)))
            meta["second_setup"] = [ch2, rate2, q]
        for _ in range(rng.below(4)):
            lines.append(gen_ctl(rng, untied))
        lines.append("I")
        for _ in range(rng.below(4)):
            lines.append(gen_ctl(rng, untied))
    big = abs(ch) > 16
    n = rng.choice([0, 1, 63, 64, 1000, 5000]) if big else rng.choice([0, 1, 255, 256, 1024, 4097, 12000, 30000 if tier != "quick" else 9000])
    lines.append("E %d %d" % (n, rng.below(6)))
    meta["samples"] = n
    meta["ops"] = [l.split()[0] + (":" + l.split()[1] if l.startswith("CO") else "") for l in lines]
    return "case %d %s\n%s\nend\n" % (k, "untied" if untied else "tied", "\n".join(lines)), meta, untied


def check(rep, tier, seed):
    rep.assumptions = ["vorbis_info initialised with vorbis_info_init; set-up calls are not repeated after vorbis_encode_setup_init; control requests are not issued on a cleared info",
                       "audio samples are finite floats (silence, noise, tones, impulses, 8x clipping)"]
    rep.coverage["trusted_base"] = ["Coq 8.16.1 kernel + vm_compute (templates_ok is a computation over the generated table)",
                                    "tools/srcfacts_dump.c (prints the template table of the current source as SrcFacts.setup_templates)",
                                    "extraction + ml/driver.ml: the float adjustment of the quality, the long->float store of hi->req and the division by the channel "
                                    "count are done by the driver in IEEE arithmetic, every comparison/decision by the extracted model",
                                    "harness/c15.c (#includes lib/vorbisenc.c to read the staged state)",
                                    "memory safety of psy/floor/residue set-up and of the encode itself is observed under ASan+UBSan on the sampled grid, not proved"]
    pr = common.prove("C15", clean=(tier == "thorough"))
    rep.proof(pr)
    exe = common.build_harness("c15")
    common.build_model()
    rng = SplitMix(seed * 1000003 + 15)
    wd = common.workdir("C15")
    ncases = 480 if tier == "quick" else 12000
    texts, metas, untied = [], [], set()
    for k in range(ncases):
        t, m, u = gen_case(rng, k, tier)
        texts.append(t); metas.append(m)
        if u:
            untied.add(str(k))
    # minimised earlier failures run in every tier (KNOWN_FINDINGS.txt: fixed entries of C15)
    nan64 = f64bits(float("nan"))
    corpus = [
        ("M 300 48000 -1 -1 72000299\nI\nE 100 1", {"ch": 300, "rate": 48000, "corpus": "base-setting-float-sum"}),
        ("IM 100 48000 -1 -1 24000099\nE 2000 1", {"ch": 100, "rate": 48000, "corpus": "base-setting-float-sum, valid channel count"}),
        ("V 4 200000 %d\nC2S x 1 0 -5 128 %d 144000 %d\nI\nE 9000 2" % (f32bits(-0.05), f64bits(1e-9), nan64), {"ch": 4, "rate": 200000, "corpus": "nan-reservoir-bias"}),
        ("M 2 44100 128000 96000 64000\nC2S x 1 64 96 128 %d 20000 %d\nI\nE 9000 1" % (f64bits(1.5), nan64), {"ch": 2, "rate": 44100, "corpus": "nan-reservoir-bias"}),
        ("V 6 44100 %d\nCO 33 %d\nI\nE 12000 4" % (f32bits(0.9999), nan64), {"ch": 6, "rate": 44100, "corpus": "nan-lowpass"}),
        ("V 2 44100 %d\nCO 33 %d\nCO 49 %d\nI\nE 12000 1" % (f32bits(0.3), nan64, nan64), {"ch": 2, "rate": 44100, "corpus": "nan-lowpass, nan impulse tune"}),
    ]
    for body, m in corpus:
        k = len(texts)
        texts.append("case %d tied\n%s\nend\n" % (k, body))
        m.update({"case": k, "shape": "corpus", "ops": [l.split()[0] for l in body.split("\n")], "samples": 0})
        metas.append(m)
    shards = 16

    def one(i):
        return common.run_pair(exe, "c15", "".join(texts[i::shards]), os.path.join(wd, "s%d" % i), timeout=3000)
    with cf.ThreadPoolExecutor(shards) as ex:
        results = list(ex.map(one, range(shards)))
    bad_prop, bad_tie = [], []
    dist = {"setup_ok": 0, "OV_EINVAL": 0, "OV_EIMPL": 0, "init_ok": 0, "encoded": 0, "onestep_cleared": 0, "frozen_set_refused": 0, "untied_cases": len(untied),
            "templates_hit": {}}
    for i, (irc, il, ierr, mrc, ml, merr) in enumerate(results):
        cfile = os.path.join(wd, "s%d" % i, "c15.cases")
        if irc != 0:
            bad_prop.append({"kind": "implementation crashed / sanitizer / watchdog", "rc": irc, "stderr": ierr[-3000:], "cases_file": cfile,
                             "last_case": next((l for l in reversed(il) if l.startswith("case ")), None)})
        if mrc != 0:
            bad_tie.append({"kind": "model driver failed", "rc": mrc, "stderr": merr[-2000:]})
        ic = common.split_cases(il)
        mc = common.split_cases(ml)
        for kk, li in ic.items():
            m = metas[int(kk)]
            init_ok = enc = False
            for l in li:
                if l.startswith("prop ") and "FAIL" in l:
                    bad_prop.append({"kind": l, "case": kk, "meta": m, "cases_file": cfile})
                if l.startswith("prop onestep-cleared PASS"):
                    dist["onestep_cleared"] += 1
                if l.startswith("st "):
                    t = dict(x.split("=") for x in l.split()[2:])
                    op = l.split()[1]
                    rc = int(t["rc"])
                    if op in ("V", "M", "IV", "IM"):
                        dist["setup_ok" if rc == 0 else ("OV_EINVAL" if rc == -131 else "OV_EIMPL")] += 1
                        if rc == 0:
                            dist["templates_hit"][t["tmpl"]] = dist["templates_hit"].get(t["tmpl"], 0) + 1
                    if op in ("I", "IV", "IM") and rc == 0:
                        init_ok = True
                    if op in ("C2S", "CPL", "CO") and rc == -131 and t.get("stone") == "1":
                        dist["frozen_set_refused"] += 1
                if l.startswith("enc n="):
                    enc = True
            dist["init_ok"] += init_ok
            dist["encoded"] += enc
            if kk not in untied:
                a = [l for l in li if not l.startswith(("prop ", "enc "))]
                b = mc.get(kk)
                if b is None:
                    bad_tie.append({"case": kk, "kind": "model produced no output", "cases_file": cfile})
                elif a != b:
                    d = next((j for j in range(min(len(a), len(b))) if a[j] != b[j]), min(len(a), len(b)))
                    bad_tie.append({"case": kk, "line": d, "impl": a[d] if d < len(a) else None, "model": b[d] if d < len(b) else None,
                                    "meta": m, "cases_file": cfile})
            rep.add_case((m["shape"], m["ch"], m["rate"], tuple(m.get("req", [])), tuple(m["ops"])), nontrivial=True,
                         sample=m if int(kk) % 23 == 0 else None)
    rep.coverage["rule"] = ("channels -1..300, rates dense around 8k/9k/15k/19k/26k/40k/50k/70k/200k and -1..2^31-1, qualities incl. out-of-range/NaN/Inf, "
                            "max/nominal/min triples around every rate_mapping boundary times the channel count; one-step and three-step entry points; control "
                            "requests (RATEMANAGE2 get/set valid+invalid, COUPLING, LOWPASS, IBLOCK, unknown numbers, NULL info, deprecated RATEMANAGE*) before the "
                            "set-up call, between set-up and setup_init, and after it; after success: analysis_init, headerout, encode 0..30000 samples, decode the "
                            "result; after every step the staged state (template index, setting, channels, rate, management fields, block sizes, frozen flag) is "
                            "compared with EncSetup.v (cases with deprecated requests: property oracle only)")
    rep.coverage["distribution"] = dist
    if bad_prop:
        rep.violation("property fails on the implementation", {"failures": bad_prop[:10], "seed": seed})
    elif bad_tie:
        rep.violation("correspondence EncSetup.v <-> lib/vorbisenc.c no longer holds", {"differences": bad_tie[:10], "seed": seed},
                      found_input=False)
    if not pr["ok"]:
        rep.violation("proof obligations of Properties_C15.v not discharged: " + "; ".join(pr["failed"]),
                      {"theorem_file": "coq/Properties_C15.v", "failed": pr["failed"], "log": pr["log"][-3000:]},
                      found_input=bool(bad_prop))


def replay(rep, path):
    check(rep, "quick", rep.seed)
