"""Numeric part of the C01 check, run with the tooling interpreter (numpy).
usage: numeric.py <impl_output> <model_output> <meta.json> <result.json>
(1) floor 0: the curve of lib/lsp.c re-evaluated in binary32 with the same
    operation order from the model's exact LSP coefficients and amplitude,
    times the model's exact residue, against the implementation's spectrum;
(2) time domain: inverse MDCT (direct cosine sum in double), Vorbis window with
    the shapes the packet's flags select (spec 4.3.1), overlap-add from centre
    to centre, computed from the implementation's own (already exactly tied)
    spectra, against the samples vorbis_synthesis_pcmout returned."""
import sys
import json
import numpy as np


def unhex(h):
    if h == "-" or h == "":
        return np.zeros(0, dtype=np.float32)
    return np.frombuffer(bytes.fromhex(h), dtype=">u4").astype(np.uint32).view(np.float32)


def split_cases(path):
    out, cur = {}, None
    for l in open(path):
        l = l.rstrip("\n")
        if l.startswith("case "):
            cur = l[5:].strip()
            out[cur] = []
        elif cur is not None and l:
            out[cur].append(l)
    return out


def bark(x):
    """toBARK of lib/scales.h on a float argument: float products inside, double sum"""
    f32, f64 = np.float32, np.float64
    x = f32(x)
    return (f64(f32(13.1)) * np.arctan(f64(f32(f32(.00074) * x)))
            + f64(f32(2.24)) * np.arctan(f64(f32(f32(x * x) * f32(1.85e-8))))
            + f64(f32(f32(1e-4) * x)))


def floor0_map(fl, n):
    f32, f64 = np.float32, np.float64
    rate, ln = fl["rate"], fl["barkmap"]
    scale = f32(f64(ln) / bark(f32(f32(rate) / f32(2.0))))
    m = np.zeros(n + 1, dtype=np.int64)
    half = f32(f32(rate) / f32(2.0))
    for j in range(n):
        v = int(np.floor(bark(f32(f32(half / f32(n)) * f32(j))) * f64(scale)))
        m[j] = min(v, ln - 1)
    m[n] = -1
    return m


def floor0_curve(fl, n, ampraw, lsp):
    """vorbis_lsp_to_curve (float version), binary32 with the same operation order"""
    f32 = np.float32
    mord, ln = fl["order"], fl["barkmap"]
    maxval = (1 << fl["ampbits"]) - 1
    amp = f32(f32(f32(ampraw) / f32(maxval)) * f32(fl["ampdB"]))
    ampoffset = f32(fl["ampdB"])
    wdel = f32(np.pi / ln)
    l2 = (np.float64(2.0) * np.cos(lsp.astype(np.float64))).astype(f32)
    mp = floor0_map(fl, n)
    curve = np.ones(n, dtype=np.float64)
    cache = {}
    for i in range(n):
        k = int(mp[i])
        if k not in cache:
            w = f32(np.float64(2.0) * np.cos(np.float64(f32(wdel * f32(k)))))
            p = f32(.5)
            q = f32(.5)
            j = 1
            while j < mord:
                q = f32(q * f32(w - l2[j - 1]))
                p = f32(p * f32(w - l2[j]))
                j += 2
            if j == mord:
                q = f32(q * f32(w - l2[j - 1]))
                p = f32(p * f32(p * f32(f32(4.) - f32(w * w))))
                q = f32(q * q)
            else:
                p = f32(p * f32(p * f32(f32(2.) - w)))
                q = f32(q * f32(q * f32(f32(2.) + w)))
            with np.errstate(all="ignore"):
                x = np.float64(amp) / np.sqrt(np.float64(f32(p + q))) - np.float64(ampoffset)
                cache[k] = f32(np.exp(x * np.float64(f32(.11512925))))
        curve[i] = cache[k]
    return curve.astype(np.float32)


def window(n, bs0, W, lW, nW):
    w = np.zeros(n)
    if W:
        ln_ = n // 2 if lW else bs0 // 2
        ls = 0 if lW else n // 4 - bs0 // 4
        rn = n // 2 if nW else bs0 // 2
        rs = n // 2 if nW else n * 3 // 4 - bs0 // 4
    else:
        ln_, ls, rn, rs = n // 2, 0, n // 2, n // 2
    i = np.arange(ln_)
    slope = np.sin(np.pi / 2 * np.sin((i + .5) / ln_ * np.pi / 2) ** 2)
    w[ls:ls + ln_] = slope
    w[ls + ln_:rs] = 1.0
    i = np.arange(rn)
    w[rs:rs + rn] = np.sin(np.pi / 2 * np.sin((rn - i - .5) / rn * np.pi / 2) ** 2)
    return w


_costab = {}


def imdct(X):
    n2 = len(X)
    n = 2 * n2
    out = np.zeros(n)
    k = np.arange(n2) + .5
    step = max(1, (1 << 22) // max(n2, 1))
    Xd = X.astype(np.float64)
    for a in range(0, n, step):
        i = np.arange(a, min(n, a + step))
        out[a:a + len(i)] = np.cos(np.pi / n2 * np.outer(i + .5 + n2 / 2.0, k)) @ Xd
    return out


def main():
    impl, model, meta = split_cases(sys.argv[1]), split_cases(sys.argv[2]), json.load(open(sys.argv[3]))
    res = {"floor0_channels": 0, "floor0_bins": 0, "floor0_bad": [], "floor0_nonfinite": 0, "pcm_samples": 0, "pcm_blocks": 0, "pcm_bad": [],
           "pcm_nonfinite_blocks": 0, "max_pcm_err_ratio": 0.0, "max_floor0_rel": 0.0}
    for case, lines in impl.items():
        m = meta.get(case)
        if m is None or not m.get("numeric"):
            continue
        ml = model.get(case, [])
        bs0, bs1, ch = m["bs0"], m["bs1"], m["channels"]
        # pair up the packets of both outputs
        def packets(ls):
            pk, cur = [], None
            for l in ls:
                if l.startswith("pkt "):
                    cur = {"head": l.split(), "ch": {}, "f0": {}, "pcm": {}}
                    pk.append(cur)
                elif cur is not None and l.startswith("ch "):
                    t = l.split()
                    cur["ch"][int(t[1])] = t[2]
                elif cur is not None and l.startswith("f0 "):
                    t = l.split()
                    cur["f0"][int(t[1])] = (int(t[2]), t[3], t[4])
                elif cur is not None and l.startswith("pcm "):
                    t = l.split()
                    cur["pcm"].setdefault(int(t[1]), []).append(t[2])
            return pk
        ip, mp_ = packets(lines), packets(ml)
        prev = None
        for k, pk in enumerate(ip):
            if pk["head"][1] != "OK":
                continue
            mode, W, lW, nW = int(pk["head"][2]), int(pk["head"][3]), int(pk["head"][4]), int(pk["head"][5])
            n = bs1 if W else bs0
            spec = {c: unhex(h) for c, h in pk["ch"].items()}
            if len(spec) != ch:
                prev = None
                continue
            # (1) floor 0 channels
            if k < len(mp_):
                mapping = m["mappings"][m["modes"][mode]["mapping"]]
                for c, (ampraw, lsph, resh) in mp_[k]["f0"].items():
                    fl = m["floors"][mapping["floor"][mapping["mux"][c]]]
                    if fl["ampbits"] > 24 or fl["ampbits"] < 1:
                        continue
                    curve = floor0_curve(fl, n // 2, ampraw, unhex(lsph))
                    ref = (unhex(resh).astype(np.float32) * curve).astype(np.float32)
                    got = spec[c]
                    res["floor0_channels"] += 1
                    fin = np.isfinite(ref.astype(np.float64)) & np.isfinite(got.astype(np.float64)) & np.isfinite(curve.astype(np.float64))
                    res["floor0_nonfinite"] += int((~fin).sum())
                    a, b = ref[fin].astype(np.float64), got[fin].astype(np.float64)
                    res["floor0_bins"] += int(fin.sum())
                    err = np.abs(a - b)
                    tol = 2e-3 * np.maximum(np.abs(a), np.abs(b)) + 1e-37
                    if len(err) and (err > tol).any():
                        j = int(np.argmax(err - tol))
                        res["floor0_bad"].append({"case": case, "packet": k, "channel": c, "bin": j, "expected": float(a[j]), "got": float(b[j])})
                    nzm = np.maximum(np.abs(a), np.abs(b)) > 1e-30
                    if nzm.any():
                        res["max_floor0_rel"] = max(res["max_floor0_rel"], float((err[nzm] / np.maximum(np.abs(a[nzm]), np.abs(b[nzm]))).max()))
            # (2) time domain
            cur = {"n": n, "blocks": {}}
            ok = all(np.isfinite(spec[c].astype(np.float64)).all() for c in range(ch))
            if ok:
                w = window(n, bs0, W, lW, nW)
                for c in range(ch):
                    cur["blocks"][c] = imdct(spec[c]) * w
                cur["peak"] = max(float(np.abs(spec[c]).max()) if len(spec[c]) else 0.0 for c in range(ch))
            else:
                res["pcm_nonfinite_blocks"] += 1
                cur = None
            if prev is not None and cur is not None and pk["pcm"]:
                Np, Nc = prev["n"], n
                cnt = Np // 4 + Nc // 4
                for c in range(ch):
                    got = np.concatenate([unhex(h) for h in pk["pcm"].get(c, [])]) if pk["pcm"].get(c) else np.zeros(0, dtype=np.float32)
                    if len(got) != cnt:
                        res["pcm_bad"].append({"case": case, "packet": k, "channel": c, "kind": "count", "expected": cnt, "got": int(len(got))})
                        continue
                    t = np.arange(cnt)
                    ref = np.zeros(cnt)
                    pi_ = Np // 2 + t
                    mk = pi_ < Np
                    ref[mk] += prev["blocks"][c][pi_[mk]]
                    ci_ = Nc // 4 - Np // 4 + t
                    mk = (ci_ >= 0) & (ci_ < Nc)
                    ref[mk] += cur["blocks"][c][ci_[mk]]
                    scale = max(prev["peak"], cur["peak"]) * np.sqrt(max(Np, Nc)) + 1e-30
                    err = np.abs(ref - got.astype(np.float64))
                    ratio = float(err.max() / scale) if cnt else 0.0
                    res["max_pcm_err_ratio"] = max(res["max_pcm_err_ratio"], ratio)
                    res["pcm_samples"] += cnt
                    if ratio > 2e-5 or not np.isfinite(got.astype(np.float64)).all():
                        j = int(np.argmax(err))
                        res["pcm_bad"].append({"case": case, "packet": k, "channel": c, "kind": "value", "index": j,
                                               "expected": float(ref[j]), "got": float(got[j]), "error_over_scale": ratio})
                res["pcm_blocks"] += 1
            prev = cur
    json.dump(res, open(sys.argv[4], "w"))


if __name__ == "__main__":
    main()
