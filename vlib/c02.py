"""C02: the packet-level decoder is memory-safe and terminates on arbitrary input."""
import os
import copy
from . import common, pdgen, pdx, streams
from .common import SplitMix

LEVEL = "proof"


def hexs(b):
    return b.hex() or "-"


def field_edit(rng, st, pick=None):
    """one illegal (or boundary) value in the set-up, by name -> (setup', label)"""
    s = copy.deepcopy(st["setup"])
    nb, nf, nr, nm = len(s["books"]), len(s["floors"]), len(s["residues"]), len(s["mappings"])
    f1 = [f for f in s["floors"] if f.get("type", 1) == 1]
    f0 = [f for f in s["floors"] if f.get("type", 1) == 0]
    vq = [i for i, b in enumerate(s["books"]) if b.get("maptype", 0) != 0]
    sc = [i for i, b in enumerate(s["books"]) if b.get("maptype", 0) == 0]
    edits = []
    def e(label, fn, cond=True):
        if cond:
            edits.append((label, fn))
    b0 = s["books"][rng.below(nb)]
    e("book dim 0", lambda: b0.update(dim=0))
    e("book dim 65535", lambda: b0.update(dim=65535))
    e("book overpopulated tree", lambda: b0.update(lengths=[1, 1, 1] + b0["lengths"][3:], ordered=False))
    e("book underpopulated tree", lambda: b0.update(lengths=[2, 2, 2], ordered=False))
    e("book one entry of length 2", lambda: b0.update(lengths=[2], ordered=False))
    e("book no used entry", lambda: b0.update(lengths=[0, 0, 0], ordered=False, force_sparse=True))
    e("book length 32 entries", lambda: b0.update(lengths=[1] + [32] * 2 + [31, 30, 29, 28, 27, 26, 25, 24, 23, 22, 21, 20, 19, 18, 17, 16, 15, 14, 13, 12, 11, 10, 9, 8, 7, 6, 5, 4, 3, 2], ordered=False))
    e("book maptype 3", lambda: b0.update(maptype=3))
    ne = len(b0["lengths"])
    e("ordered book: second run larger than what is left", lambda: b0.update(runs=[max(1, ne // 2), ne], first_len=rng.choice([1, 2, 8, 20])), ne >= 2)
    e("ordered book: second run = entries - 1", lambda: b0.update(runs=[2, ne - 1], first_len=rng.choice([2, 8, 20])), ne >= 4)
    e("ordered book: run exceeds the code space of its length", lambda: b0.update(runs=[3, max(0, ne - 3)], first_len=1), ne >= 3)
    e("ordered book: empty runs until length 33", lambda: b0.update(runs=[0] * 34, first_len=1))
    e("ordered book: first length 32", lambda: b0.update(runs=[1, ne - 1], first_len=32), ne >= 2)
    e("ordered book: exact runs", lambda: b0.update(runs=[1, 1] + ([2] if ne >= 4 else []) + [max(0, ne - (4 if ne >= 4 else 2))], first_len=1), ne >= 2)
    if vq:
        bv = s["books"][rng.choice(vq)]
        e("value book: quantlist too short", lambda: bv.update(quantlist=bv["quantlist"][:max(0, len(bv["quantlist"]) // 2)]))
        e("value book: dim 0", lambda: bv.update(dim=0, quantlist=[] if bv["maptype"] == 2 else bv["quantlist"]))
        e("value book: 16-bit quant values", lambda: bv.update(quant=16, quantlist=[65535] * len(bv["quantlist"])))
        e("value book: extreme min/delta", lambda: bv.update(min=1e18, delta=-1e18))
    if f1:
        g1 = rng.choice(f1)
        if g1["classes"]:
            c = rng.choice(g1["classes"])
            e("floor1 class book out of range", lambda: c.update(book=nb, subs=max(1, c["subs"]), subbook=(c["subbook"] * 2)[:1 << max(1, c["subs"])]))
            e("floor1 subbook out of range", lambda: c.update(subbook=[nb] + c["subbook"][1:]))
            e("floor1 subbook = last book", lambda: c.update(subbook=[nb - 1] + c["subbook"][1:]))
        if len(g1["posts"]) >= 2:
            e("floor1 duplicate post", lambda: g1.update(posts=[g1["posts"][1]] + g1["posts"][1:]))
        if g1["posts"]:
            e("floor1 post equals implicit 0", lambda: g1.update(posts=[0] + g1["posts"][1:]))
        e("floor1 partition class beyond classes", lambda: g1.update(partitionclass=g1["partitionclass"] + [15]))
        e("floor1 64 posts", lambda: g1.update(partitionclass=[0] * 8, classes=[{"dim": 8, "subs": 0, "book": 0, "subbook": [-1]}], rangebits=10, posts=list(range(1, 65))))
        e("floor1 63 posts", lambda: g1.update(partitionclass=[0] * 7 + [1], classes=[{"dim": 8, "subs": 0, "book": 0, "subbook": [-1]}, {"dim": 7, "subs": 0, "book": 0, "subbook": [-1]}],
                                              rangebits=10, posts=list(range(1, 64))))
        e("floor1 rangebits 0", lambda: g1.update(rangebits=0))
    if f0:
        g0 = rng.choice(f0)
        e("floor0 order 0", lambda: g0.update(order=0))
        e("floor0 rate 0", lambda: g0.update(rate=0))
        e("floor0 barkmap 0", lambda: g0.update(barkmap=0))
        e("floor0 book out of range", lambda: g0.update(books=[nb]))
        e("floor0 scalar book", lambda: g0.update(books=[sc[0]]), bool(sc))
        e("floor0 ampbits 63", lambda: g0.update(ampbits=63))
        e("floor0 ampbits 32", lambda: g0.update(ampbits=32))
        e("floor0 order 255", lambda: g0.update(order=255))
    r = s["residues"][rng.below(nr)]
    e("residue groupbook out of range", lambda: r.update(groupbook=nb))
    e("residue stage book out of range", lambda: r.update(cascade=[1] + r["cascade"][1:], books=[nb] + r["books"][bin(r["cascade"][0]).count("1"):]))
    e("residue stage book without values", lambda: r.update(cascade=[1] + r["cascade"][1:], books=[sc[0]] + r["books"][bin(r["cascade"][0]).count("1"):]), bool(sc))
    e("residue phrasebook too small", lambda: r.update(partitions=64, cascade=[0] * 64, books=[]))
    e("residue begin beyond end", lambda: r.update(begin=(1 << 24) - 1, end=0))
    e("residue grouping 2^24", lambda: r.update(grouping=1 << 24))
    e("residue all cascade bits", lambda: r.update(cascade=[255] * len(r["cascade"]), books=(r["books"] or [vq[0] if vq else 0]) * 64 if False else [(vq[0] if vq else 0)] * (8 * len(r["cascade"]))), bool(vq))
    m = s["mappings"][rng.below(nm)]
    e("mapping floor out of range", lambda: m.update(floor=[nf] + m.get("floor", [0])[1:]))
    e("mapping residue out of range", lambda: m.update(residue=[nr] + m.get("residue", [0])[1:]))
    e("mapping coupling magnitude = angle", lambda: m.update(coupling=[(0, 0)]))
    e("mapping coupling channel out of range", lambda: m.update(coupling=[(0, st["channels"])]), st["channels"] not in (1, 2, 4, 8, 16))
    e("mapping multiplex beyond submaps", lambda: m.update(submaps=2, mux=[3] + [0] * (st["channels"] - 1), floor=[0, 0], residue=[0, 0]))
    e("mapping 16 submaps", lambda: m.update(submaps=16, mux=[rng.below(16) for _ in range(st["channels"])], floor=[0] * 16, residue=[0] * 16))
    md = s["modes"][rng.below(len(s["modes"]))]
    e("mode mapping out of range", lambda: md.update(mapping=nm))
    e("64 modes", lambda: s.update(modes=[{"blockflag": k & 1, "mapping": 0} for k in range(64)]))
    # pick: walk through the named edits in turn, so that every one of them is exercised in every run
    label, fn = rng.choice(edits) if pick is None else edits[pick % len(edits)]
    fn()
    return s, label


FIELD_NO = [0]


def gen_case(rng, k, tier):
    st = pdgen.gen_stream(rng, big=(k % 16 == 0), max_ch=rng.choice([2, 3, 6, 8]))
    hid, hc, hs = st["headers"]
    kind = rng.below(10)
    meta = {"case": k, "channels": st["channels"], "bs": [st["bs0"], st["bs1"]]}
    lines = []
    tied = True
    if kind == 0:
        meta["mutation"] = "none"
    elif kind in (1, 2):
        FIELD_NO[0] += 1
        s2, label = field_edit(rng, st, pick=FIELD_NO[0])
        meta["mutation"] = "field: " + label
        try:
            hs = streams.setup_header(s2, st["channels"])
        except Exception as ex:       # an edit the writer cannot express
            meta["mutation"] += " (not expressible: %s)" % type(ex).__name__
    elif kind == 3:
        b = bytearray(hs)
        n = rng.choice([1, 1, 2, 3, 8])
        for _ in range(n):
            i = rng.range(7, len(b) - 1)
            b[i] ^= 1 << rng.below(8)
        hs = bytes(b)
        meta["mutation"] = "setup: %d bit flips" % n
    elif kind == 4:
        cut = rng.choice([0, 1, 6, 7, 8, rng.range(0, len(hs)), len(hs) - 1])
        hs = hs[:cut]
        meta["mutation"] = "setup truncated to %d bytes" % cut
    elif kind == 5:
        b = bytearray(hs)
        i = rng.range(7, len(b) - 1)
        b[i] = rng.choice([0, 255, 0x80, 0x7f])
        hs = bytes(b)
        meta["mutation"] = "setup: byte set"
    elif kind == 6:
        b = bytearray(hid)
        what = rng.below(9)
        if what == 0:
            b[7] = 1
        elif what == 1:
            b[11] = 0
        elif what == 2:
            b[12:16] = b"\0\0\0\0"
        elif what == 3:
            b[28] = rng.choice([0x55, 0x5f, 0xe6, 0x67, 0xd6, 0xff, 0x00])
        elif what == 4:
            b[29] = 0
        elif what == 5:
            b = b[:rng.range(0, 29)]
        elif what == 6:
            b[12:16] = b"\xff\xff\xff\xff"
        elif what == 7:
            b[11] = 255
        else:
            b[1] = ord("V")
        hid = bytes(b)
        meta["mutation"] = "identification header variant %d" % what
    elif kind == 7:
        b = bytearray(hc)
        what = rng.below(4)
        if what == 0:
            b = b[:rng.range(0, len(b) - 1)]
        elif what == 1:
            b[7:11] = b"\xff\xff\xff\x7f"
        elif what == 2:
            b[-1] = 0
        else:
            b[7 + 4 + 5:7 + 4 + 5 + 4] = b"\xff\xff\xff\xff"
        hc = bytes(b)
        meta["mutation"] = "comment header variant %d" % what
    else:
        meta["mutation"] = "call order"
    order = [("hdr", 1, hid), ("hdr", 0, hc), ("hdr", 0, hs)]
    if kind >= 8 or rng.below(6) == 0:
        # headers out of order, repeated, wrong b_o_s; dsp calls before/after
        opts = [("hdr", 1, hid), ("hdr", 0, hid), ("hdr", 0, hc), ("hdr", 0, hs), ("hdr", 1, hs), ("hdr", 0, b""), ("hdr", 0, b"\x01vorbi"),
                ("hdr", 0, b"\x07vorbis\x00"), ("init",), ("half", 1), ("half", 0), ("reinfo",), ("clear",)]
        order = [rng.choice(opts) for _ in range(rng.range(2, 7))] + (order if rng.below(2) else [])
        meta["mutation"] += " + shuffled calls"
    for o in order:
        if o[0] == "hdr":
            lines.append("hdr %d %s" % (o[1], hexs(o[2])))
        elif o[0] == "half":
            lines.append("half %d" % o[1])
        else:
            lines.append(o[0])
    if rng.below(8) == 0:
        lines.append("half %d" % rng.below(2))
    lines.append("init")
    npk = rng.range(1, 6)
    gran = 0
    for j in range(npk):
        pkt, _ = pdgen.gen_packet(rng, st)
        pm = rng.below(8)
        if pm == 0:
            pkt = pkt[:rng.range(0, max(0, len(pkt) - 1))]
        elif pm == 1 and pkt:
            b = bytearray(pkt)
            b[0] |= 1
            pkt = bytes(b)
        elif pm == 2 and pkt:
            b = bytearray(pkt)
            b[0] |= 0xfe
            pkt = bytes(b)
        elif pm == 3:
            pkt = b""
        gran = rng.choice([-1, -1, gran + rng.range(0, 5000), rng.range(-5, 10), (1 << 61), -(1 << 61), 0])
        eos = 1 if rng.below(8) == 0 else 0
        if rng.below(6) == 0:
            lines.append("trk %s %d %d" % (hexs(pkt), gran, eos))
        else:
            lines.append("pkt %s %d %d %d" % (hexs(pkt), gran, eos, 1 if rng.below(3) else 0))
        r = rng.below(20)
        if r == 0:
            lines.append("restart")
        elif r == 1:
            lines.append("clear")
            lines.append("init")
        elif r == 2:
            lines += ["reinfo", "hdr 1 " + hexs(st["headers"][0]), "hdr 0 " + hexs(st["headers"][1]), "hdr 0 " + hexs(st["headers"][2]), "init"]
        elif r == 3 and kind >= 8:
            # the half-rate flag flipped under a live decoder (the library re-reads it on every call)
            lines.append("half %d" % rng.below(2))
            tied = False          # the model decodes with the setting fixed at init: these cases count for memory safety only
            meta["live_halfrate_toggle"] = True
    if k % 24 == 7 and "init" in lines:
        # initialised at one half-rate setting, switched to the other under the live decoder, more packets decoded
        first = rng.below(2)
        i = lines.index("init")
        lines.insert(i, "half %d" % first)
        j = next((x for x in range(i + 2, len(lines)) if lines[x].startswith("pkt ")), len(lines) - 1)
        lines.insert(j + 1, "half %d" % (1 - first))
        for _ in range(3):
            pkt, _x = pdgen.gen_packet(rng, st)
            lines.append("pkt %s %d %d %d" % (hexs(pkt), -1, 0, 1))
        tied = False
        meta["live_halfrate_toggle"] = True
    lines.append("end")
    return "case %d\n%s\n" % (k, "\n".join(lines)), meta, tied


def check(rep, tier, seed):
    rep.assumptions = ["objects are set up with vorbis_info_init / vorbis_comment_init and zeroed vorbis_dsp_state / vorbis_block; dsp-level calls (synthesis, blockin, "
                       "pcmout, read, restart) are only issued after a vorbis_synthesis_init that returned 0",
                       "vorbis_synthesis_halfrate switched under a live decoder is exercised for memory safety only (the model keeps the setting of the init call)"]
    rep.coverage["trusted_base"] = pdx.TRUSTED + ["ASan + UBSan(bounds, integer-divide-by-zero, null, return, unreachable, vla-bound), allocation cap 2 GiB, 150 s watchdog per case, "
                                                  "default 8 MiB stack; atexit guard for exit() inside the library"]
    pr = common.prove("C02", clean=(tier == "thorough"))
    rep.proof(pr)
    rng = SplitMix(seed * 1000003 + 2)
    wd = common.workdir("C02")
    n = 480 if tier == "quick" else 20000
    texts, metas, untied = [], [], set()
    FIELD_NO[0] = 0
    for k in range(n):
        t, m, tied = gen_case(rng, k, tier)
        texts.append(t)
        metas.append(m)
        if not tied:
            untied.add(str(k))
    res = pdx.run(texts, wd)
    bad_prop = list(res["crashes"])
    dist = {"cases": n, "headers_accepted": 0, "headers_rejected": {}, "init_ok": 0, "init_failed": 0, "packets_ok": 0, "packets_rejected": {}, "mutations": {}}
    for k, li in res["impl"].items():
        m = metas[int(k)]
        key = m["mutation"].split(":")[0] if not m["mutation"].startswith("field") else m["mutation"].split(" (")[0]
        dist["mutations"][key] = dist["mutations"].get(key, 0) + 1
        nontriv = False
        for l in li:
            if l.startswith("prop ") and "FAIL" in l:
                bad_prop.append({"kind": l, "case": k, "meta": m, "cases_file": res["files"][k]})
            if l.startswith("hdr "):
                v = l.split()[1]
                if v == "OK":
                    dist["headers_accepted"] += 1
                else:
                    dist["headers_rejected"][v] = dist["headers_rejected"].get(v, 0) + 1
                    nontriv = True
            if l == "init 0":
                dist["init_ok"] += 1
            if l == "init 1":
                dist["init_failed"] += 1
                nontriv = True
            if l.startswith(("pkt ", "trk ")):
                v = l.split()[1]
                if v == "OK":
                    dist["packets_ok"] += 1
                elif v != "skipped":
                    dist["packets_rejected"][v] = dist["packets_rejected"].get(v, 0) + 1
                    nontriv = True
        rep.add_case((int(k), seed), nontrivial=nontriv, sample=m if int(k) % 37 == 0 else None)
    rep.coverage["rule"] = ("valid streams over the whole feature space, then ONE defect each: a named illegal/boundary value in a set-up field (book index = count, "
                            "duplicate posts, 64 posts, magnitude = angle, multiplex >= submaps, dim 0, over/under-populated trees, ...), bit flips, byte sets, truncation at "
                            "any length, identification/comment header variants, headers out of order / repeated / wrong b_o_s, dsp calls around them; audio packets "
                            "random, truncated, empty, non-audio, invalid mode, wild granule positions, trackonly, restart, clear + re-init, fresh info. The model must "
                            "predict every headerin/init/synthesis verdict, the bits left, every spectrum and every sample count; the implementation runs under "
                            "sanitizers with a watchdog. non-trivial = something was rejected")
    rep.coverage["distribution"] = dist
    if bad_prop:
        rep.violation("property fails on the implementation", {"failures": bad_prop[:10], "seed": seed})
    ties = [d for d in res["ties"] if str(d.get("case")) not in untied]
    dist["cases_memory_safety_only"] = len(untied)
    if bad_prop:
        pass
    elif ties:
        rep.violation("correspondence Setup.v/PacketDec.v <-> headerin/synthesis no longer holds", {"differences": ties[:10], "seed": seed},
                      found_input=False)
    if not pr["ok"]:
        rep.violation("proof obligations of Properties_C02.v not discharged: " + "; ".join(pr["failed"]),
                      {"theorem_file": "coq/Properties_C02.v", "failed": pr["failed"], "log": pr["log"][-3000:]},
                      found_input=bool(bad_prop))


def replay(rep, path):
    check(rep, "quick", rep.seed)
