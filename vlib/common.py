"""Shared machinery for /verif/bin/check.

Stages (DESIGN.md 2.1): build -> prove -> extract+correspond -> search -> report.
Everything is rebuilt from /repo's *current working tree*; builds are cached by
a content hash of the sources so that the twenty checks share one build.
"""
import hashlib
import json
import os
import re
import shutil
import subprocess
import sys
import time

VERIF = os.path.dirname(os.path.dirname(os.path.abspath(__file__)))
REPO = os.environ.get("VERIF_REPO", "/repo")
BUILD = os.path.join(VERIF, "build")
COQ = os.path.join(VERIF, "coq")
ML = os.path.join(VERIF, "ml")
HARNESS = os.path.join(VERIF, "harness")
EVIDENCE = os.path.join(VERIF, "evidence")
REPLAYS = os.path.join(VERIF, "replays")
GUARD = "XIPH_VORBIS_VERIF"

LIB_SOURCES = """mdct.c smallft.c block.c envelope.c window.c lsp.c lpc.c analysis.c
synthesis.c psy.c info.c floor1.c floor0.c res0.c mapping0.c registry.c codebook.c
sharedbook.c lookup.c bitrate.c vorbisenc.c vorbisfile.c""".split()

# ASan + the UBSan subset named in DESIGN.md section 9 (shift-base and
# signed-integer-overflow fire on the unchanged tree in code the properties
# do not name).
SAN = ["-fsanitize=address",
       "-fsanitize=bounds,integer-divide-by-zero,null,return,unreachable,vla-bound",
       "-fno-sanitize-recover=all", "-fno-omit-frame-pointer"]
CFLAGS = ["-O1", "-g", "-D" + GUARD, "-I" + os.path.join(REPO, "include"),
          "-I" + os.path.join(REPO, "lib"), "-w"]
OGG_A = "/usr/lib/x86_64-linux-gnu/libogg.a"


def log(*a):
    print(*a, file=sys.stderr, flush=True)


def run(cmd, timeout=None, cwd=None, env=None, input=None, check=False):
    """subprocess.run with text capture; returns (rc, stdout, stderr); rc=-9 on timeout."""
    try:
        p = subprocess.run(cmd, cwd=cwd, env=env, input=input, timeout=timeout,
                           stdout=subprocess.PIPE, stderr=subprocess.PIPE, text=True,
                           errors="replace")
        if check and p.returncode != 0:
            raise RuntimeError("command failed: %s\n%s\n%s" % (cmd, p.stdout[-4000:], p.stderr[-4000:]))
        return p.returncode, p.stdout, p.stderr
    except subprocess.TimeoutExpired as e:
        out = e.stdout if isinstance(e.stdout, str) else (e.stdout or b"").decode("utf8", "replace")
        err = e.stderr if isinstance(e.stderr, str) else (e.stderr or b"").decode("utf8", "replace")
        return -9, out, err + "\nTIMEOUT"


# --------------------------------------------------------------------------
# stage 1: build /repo's working tree
# --------------------------------------------------------------------------

def _source_files():
    out = []
    for root in ("lib", "include"):
        for d, _, fs in os.walk(os.path.join(REPO, root)):
            for f in fs:
                if f.endswith((".c", ".h")):
                    out.append(os.path.join(d, f))
    return sorted(out)


_hash_cache = None


def repo_hash():
    global _hash_cache
    if _hash_cache:
        return _hash_cache
    h = hashlib.sha256()
    for f in _source_files():
        h.update(f.encode())
        with open(f, "rb") as fh:
            h.update(fh.read())
    _hash_cache = h.hexdigest()[:16]
    return _hash_cache


def _prune_builds(keep):
    if not os.path.isdir(BUILD):
        return
    ds = [os.path.join(BUILD, d) for d in os.listdir(BUILD) if d.startswith("repo-")]
    ds.sort(key=lambda d: os.path.getmtime(d), reverse=True)
    for d in ds[keep:]:
        shutil.rmtree(d, ignore_errors=True)


def build_repo(variant="asan"):
    """Compile the library from the current tree.  variant: asan | plain | tsan.
    Returns the directory holding libvorbisall.a."""
    d = os.path.join(BUILD, "repo-%s-%s" % (repo_hash(), variant))
    lib = os.path.join(d, "libvorbisall.a")
    if os.path.exists(lib):
        os.utime(d, None)
        return d
    os.makedirs(d + ".tmp", exist_ok=True)
    tmp = d + ".tmp"
    flags = list(CFLAGS)
    if variant == "asan":
        flags += SAN
    elif variant == "tsan":
        flags += ["-fsanitize=thread"]
    elif variant == "patinit":
        flags += ["-ftrivial-auto-var-init=pattern"]
    elif variant == "zeroinit":
        flags += ["-ftrivial-auto-var-init=zero", "-enable-trivial-auto-var-init-zero-knowing-it-will-be-removed-from-clang"]
    mk = ["OBJS=" + " ".join(s[:-2] + ".o" for s in LIB_SOURCES),
          "all: libvorbisall.a",
          "libvorbisall.a: $(OBJS)", "\tar rcs $@ $(OBJS)"]
    for s in LIB_SOURCES:
        mk.append("%s.o: %s" % (s[:-2], os.path.join(REPO, "lib", s)))
        mk.append("\tclang %s -c $< -o $@" % " ".join(flags))
    with open(os.path.join(tmp, "Makefile"), "w") as f:
        f.write("\n".join(mk) + "\n")
    rc, out, err = run(["make", "-j16", "-C", tmp], timeout=900)
    if rc != 0:
        shutil.rmtree(tmp, ignore_errors=True)
        raise BuildError("library build failed:\n" + (out + err)[-6000:])
    if os.path.exists(d):
        shutil.rmtree(tmp, ignore_errors=True)
    else:
        os.rename(tmp, d)
    _prune_builds(12)
    return d


class BuildError(Exception):
    pass


def build_harness(name, sources=None, variant="asan", extra=(), wrap_malloc=False, cxx=False):
    """Compile harness/<name>.c against the current tree build; cached by hash of
    harness source + repo hash (harnesses that #include lib/*.c depend on both)."""
    libdir = build_repo(variant)
    sources = sources or [os.path.join(HARNESS, name + ".c")]
    h = hashlib.sha256()
    for s in sources + [os.path.join(HARNESS, "vcommon.h")]:
        if os.path.exists(s):
            with open(s, "rb") as fh:
                h.update(fh.read())
    h.update(" ".join(extra).encode())
    exe = os.path.join(libdir, "%s-%s" % (name, h.hexdigest()[:10]))
    if os.path.exists(exe):
        return exe
    flags = list(CFLAGS) + ["-I" + HARNESS]
    if variant == "asan":
        flags += SAN
    elif variant == "tsan":
        flags += ["-fsanitize=thread"]
    elif variant == "patinit":
        flags += ["-ftrivial-auto-var-init=pattern"]
    elif variant == "zeroinit":
        flags += ["-ftrivial-auto-var-init=zero", "-enable-trivial-auto-var-init-zero-knowing-it-will-be-removed-from-clang"]
    cmd = ["clang"] + flags + list(extra) + sources + \
          [os.path.join(libdir, "libvorbisall.a"), OGG_A, "-lm", "-lpthread", "-o", exe + ".tmp"]
    rc, out, err = run(cmd, timeout=600)
    if rc != 0:
        raise BuildError("harness %s build failed:\n%s" % (name, (out + err)[-6000:]))
    os.rename(exe + ".tmp", exe)
    return exe


def san_env(extra=None):
    e = dict(os.environ)
    e["ASAN_OPTIONS"] = "detect_leaks=0:abort_on_error=0:exitcode=99:allocator_may_return_null=1:max_allocation_size_mb=2048"
    e["UBSAN_OPTIONS"] = "print_stacktrace=1:halt_on_error=1:exitcode=98"
    if extra:
        e.update(extra)
    return e


# --------------------------------------------------------------------------
# stage 2: prove
# --------------------------------------------------------------------------

ALLOWED_AXIOMS = {
    # standard-library axioms (named in the trusted base, DESIGN.md section 10)
    "ClassicalDedekindReals.sig_forall_dec", "ClassicalDedekindReals.sig_not_dec",
    "FunctionalExtensionality.functional_extensionality_dep",
    "Classical_Prop.classic", "Eqdep.Eq_rect_eq.eq_rect_eq",
    "ProofIrrelevance.proof_irrelevance", "JMeq.JMeq_eq",
    "functional_extensionality_dep", "sig_forall_dec", "sig_not_dec", "classic",
}

FORBIDDEN = re.compile(
    r"\b(Admitted|admit|Axiom|Axioms|Parameter|Parameters|Conjecture|Conjectures|Admit Obligations|"
    r"Unset Guard Checking|Unset Positivity Checking|Unset Universe Checking|bypass_check|"
    r"Hypothesis|Hypotheses|Variable|Variables)\b")


def srcfacts():
    """Regenerate coq/SrcFacts.v from the current source (only rewritten when
    its content changes so that make does not rebuild needlessly)."""
    gen = os.path.join(VERIF, "tools", "srcfacts.py")
    rc, out, err = run([sys.executable, gen, REPO], timeout=300)
    if rc != 0:
        raise BuildError("srcfacts failed:\n" + (out + err)[-4000:])
    p = os.path.join(COQ, "SrcFacts.v")
    old = open(p).read() if os.path.exists(p) else None
    if old != out:
        with open(p, "w") as f:
            f.write(out)
    return p


def coq_gate():
    """Source gate: no Admitted/admit/Axiom/Parameter/... and no top-level
    Variable/Hypothesis (inside a Section they are allowed)."""
    bad = []
    for f in sorted(os.listdir(COQ)):
        if not f.endswith(".v"):
            continue
        depth = 0
        txt = open(os.path.join(COQ, f)).read()
        txt = re.sub(r"\(\*.*?\*\)", lambda m: "\n" * m.group(0).count("\n"), txt, flags=re.S)
        for ln, line in enumerate(txt.split("\n"), 1):
            if re.match(r"\s*Section\b", line):
                depth += 1
            if re.match(r"\s*End\b", line) and depth > 0:
                depth -= 1
            m = FORBIDDEN.search(line)
            if m:
                w = m.group(1)
                if w in ("Variable", "Variables", "Hypothesis", "Hypotheses") and depth > 0:
                    continue
                bad.append("%s:%d: %s" % (f, ln, w))
    return bad


def coq_makefile():
    mf = os.path.join(COQ, "Makefile")
    cp = os.path.join(COQ, "_CoqProject")
    if (not os.path.exists(mf)) or os.path.getmtime(mf) < os.path.getmtime(cp):
        run(["coq_makefile", "-f", "_CoqProject", "-o", "Makefile"], cwd=COQ, check=True)


def prove(pid, timeout=1500, clean=False):
    """Full .vo build of Properties_<pid>.vo and what it depends on.
    Returns dict(obligations, discharged, theorems, axioms, ok, log, failed)."""
    import fcntl
    os.makedirs(BUILD, exist_ok=True)
    lockf = open(os.path.join(BUILD, "coq.lock"), "w")
    fcntl.flock(lockf, fcntl.LOCK_EX)        # concurrent checks share coq/: one make at a time
    try:
        return _prove_locked(pid, timeout, clean)
    finally:
        fcntl.flock(lockf, fcntl.LOCK_UN)
        lockf.close()


def _prove_locked(pid, timeout, clean):
    srcfacts()
    coq_makefile()
    target = "Properties_%s.vo" % pid
    src = os.path.join(COQ, "Properties_%s.v" % pid)
    res = {"obligations": 0, "discharged": 0, "theorems": [], "axioms": {}, "ok": False,
           "log": "", "failed": [], "checker_cmd": "make -k -j16 -C coq " + target}
    if clean:
        # thorough tier: the property file and everything it depends on is also rebuilt from
        # nothing in a private copy of the sources (leaves coq/ and its .vo files alone)
        cd = os.path.join(BUILD, "coq-clean-%s-%d" % (pid, os.getpid()))
        shutil.rmtree(cd, ignore_errors=True)
        os.makedirs(cd)
        for f in os.listdir(COQ):
            if f.endswith(".v") or f == "_CoqProject":
                shutil.copy(os.path.join(COQ, f), cd)
        run(["coq_makefile", "-f", "_CoqProject", "-o", "Makefile"], cwd=cd, timeout=120)
        rc0, out0, err0 = run(["make", "-k", "-j16", target], cwd=cd, timeout=timeout * 2)
        ok0 = rc0 == 0 and os.path.exists(os.path.join(cd, target))
        shutil.rmtree(cd, ignore_errors=True)
        res["clean_build"] = "ok" if ok0 else "FAILED"
        if not ok0:
            m = re.findall(r'File "\./([^"]+)", line (\d+)', out0 + err0)
            res["log"] = (out0 + err0)[-8000:]
            res["failed"] = ["clean build: %s:%s" % x for x in m] or ["clean build: make rc=%d" % rc0]
            return res
    gate = coq_gate()
    txt = open(src).read()
    thms = re.findall(r"^\s*(?:Theorem|Example)\s+([A-Za-z0-9_']+)", txt, flags=re.M)
    res["theorems"] = thms
    res["obligations"] = len(thms)
    if gate:
        res["log"] = "forbidden constructs: " + "; ".join(gate)
        res["failed"] = ["source-gate: " + g for g in gate]
        return res
    rc, out, err = run(["make", "-k", "-j16", target], cwd=COQ, timeout=timeout)
    res["log"] = (out + err)[-8000:]
    if rc != 0 or not os.path.exists(os.path.join(COQ, target)):
        m = re.findall(r'File "\./([^"]+)", line (\d+)', out + err)
        res["failed"] = ["%s:%s" % x for x in m] or ["make rc=%d" % rc]
        # theorems of the property file that still check: compile up to failure is
        # not attempted; a failed file discharges nothing.
        return res
    # Print Assumptions output is captured in the make log only when the file was
    # rebuilt; re-run coqc on the (small) property file to always have it.
    rc2, out2, err2 = run(["coqc", "-q", "-Q", ".", "VV", "Properties_%s.v" % pid], cwd=COQ, timeout=timeout)
    if rc2 != 0:
        res["log"] = (out2 + err2)[-8000:]
        res["failed"] = ["coqc Properties_%s.v rc=%d" % (pid, rc2)]
        return res
    ax = parse_assumptions(out2)
    res["axioms"] = ax
    badax = sorted({a for v in ax.values() for a in v if a not in ALLOWED_AXIOMS})
    if badax:
        res["failed"] = ["unexpected axiom: " + a for a in badax]
        return res
    res["discharged"] = len(thms)
    res["ok"] = True
    return res


def parse_assumptions(out):
    """Split coqc output into the blocks printed by successive Print Assumptions."""
    blocks = []
    cur = None
    for line in out.split("\n"):
        if line.startswith("Closed under the global context"):
            blocks.append([])
            cur = None
        elif line.startswith("Axioms:"):
            cur = []
            blocks.append(cur)
        elif cur is not None:
            m = re.match(r"^([A-Za-z_][A-Za-z0-9_.']*)\s*:", line)
            if m:
                cur.append(m.group(1))
    return {"pa%d" % i: b for i, b in enumerate(blocks)}


# --------------------------------------------------------------------------
# stage 3: extraction
# --------------------------------------------------------------------------

def build_model():
    """Extract the models (coq/Extract.v -> ml/gen/*.ml) and build ml/driver.
    Returns the driver path.  Rebuilt when any model .v or the driver changes."""
    gen = os.path.join(ML, "gen")
    os.makedirs(gen, exist_ok=True)
    import fcntl
    with open(os.path.join(gen, ".lock"), "w") as lk:
        fcntl.flock(lk, fcntl.LOCK_EX)
        return _build_model_locked(gen)


def _build_model_locked(gen):
    srcfacts()
    coq_makefile()
    h = hashlib.sha256()
    for f in sorted(os.listdir(COQ)):
        if f.endswith(".v") and not f.startswith("Properties_") and (not f.endswith("_lemmas.v") or f in ("Seek_lemmas.v", "SeekH_lemmas.v", "SeekE_lemmas.v", "Lap_lemmas.v")):
            h.update(open(os.path.join(COQ, f), "rb").read())
    for f in sorted(os.listdir(ML)):
        if f.endswith(".ml"):
            h.update(open(os.path.join(ML, f), "rb").read())
    stamp = os.path.join(gen, "stamp-" + h.hexdigest()[:12])
    drv = os.path.join(gen, "driver")
    if os.path.exists(stamp) and os.path.exists(drv):
        return drv
    rc, out, err = run(["make", "-j16", "Extract.vo"], cwd=COQ, timeout=1200)
    if rc != 0:
        raise BuildError("model extraction failed:\n" + (out + err)[-6000:])
    for f in os.listdir(COQ):
        if f.endswith((".ml", ".mli")):
            shutil.move(os.path.join(COQ, f), os.path.join(gen, f))
    for f in os.listdir(ML):
        if f.endswith(".ml"):
            shutil.copy(os.path.join(ML, f), os.path.join(gen, f))
    rc, out, err = run(["ocamlfind", "ocamlopt", "-O3" if False else "-inline", "100", "-w", "-a",
                        "-package", "str", "-linkpkg",
                        "model.mli", "model.ml", "driver.ml", "-o", "driver"], cwd=gen, timeout=600)
    if rc != 0:
        raise BuildError("OCaml build failed:\n" + (out + err)[-6000:])
    for f in os.listdir(gen):
        if f.startswith("stamp-"):
            os.remove(os.path.join(gen, f))
    open(stamp, "w").close()
    return drv


# --------------------------------------------------------------------------
# stage 5: report
# --------------------------------------------------------------------------

def known_findings():
    """Parse KNOWN_FINDINGS.txt -> list of dict(kind, property, key, text)."""
    out = []
    p = os.path.join(VERIF, "KNOWN_FINDINGS.txt")
    if not os.path.exists(p):
        return out
    for line in open(p):
        line = line.strip()
        if not line or line.startswith("#"):
            continue
        m = re.match(r"(finding|fixed):\s*property=(C\d+)\s+(\S+)\s+(.*)", line)
        if m:
            out.append({"kind": m.group(1), "property": m.group(2), "key": m.group(3), "text": m.group(4)})
    return out


class Report:
    def __init__(self, pid, tier, seed, level="proof"):
        self.pid, self.tier, self.seed, self.level = pid, tier, seed, level
        self.t0 = time.time()
        self.coverage = {"evaluations": 0, "distinct_nontrivial": 0, "rule": "", "samples": [],
                         "obligations": 0, "discharged": 0, "checker_cmd": "", "trusted_base": []}
        self.assumptions = []
        self.violations = []   # (replay_path, suffix)
        self.known = []
        self._distinct = set()

    def add_case(self, canon, nontrivial=True, sample=None):
        self.coverage["evaluations"] += 1
        if nontrivial:
            self._distinct.add(hashlib.md5(repr(canon).encode()).hexdigest())
        if sample is not None and len(self.coverage["samples"]) < 6:
            self.coverage["samples"].append(sample)

    def proof(self, pr):
        self.coverage["obligations"] = pr["obligations"]
        self.coverage["discharged"] = pr["discharged"]
        self.coverage["checker_cmd"] = pr["checker_cmd"]
        self.coverage["theorems"] = pr["theorems"]
        self.coverage["print_assumptions"] = pr["axioms"]

    def violation(self, what, replay_obj, found_input=True, key=None):
        """Record a violation unless it matches a finding: entry."""
        if key:
            for k in known_findings():
                if k["kind"] == "finding" and k["property"] == self.pid and k["key"] == key:
                    self.known.append((key, k["text"]))
                    return False
        os.makedirs(REPLAYS, exist_ok=True)
        tag = "" if self.tier == "quick" else "-" + self.tier
        path = os.path.join(REPLAYS, "%s%s-%d-%d.json" % (self.pid, tag, self.seed, len(self.violations)))
        with open(path, "w") as f:
            json.dump({"property": self.pid, "what": what, "replay": replay_obj,
                       "failing_input_found": found_input}, f, indent=1, default=str)
        self.violations.append((path, "" if found_input else " no-failing-input-found"))
        return True

    def finish(self):
        cov = self.coverage
        cov["distinct_nontrivial"] = len(self._distinct)
        ev = {"property_id": self.pid, "tier": self.tier, "seed": self.seed, "level": self.level,
              "coverage": cov, "assumptions": self.assumptions,
              "wall_s": round(time.time() - self.t0, 2), "violations": len(self.violations),
              "repo_hash": repo_hash()}
        os.makedirs(EVIDENCE, exist_ok=True)
        with open(os.path.join(EVIDENCE, self.pid + ".json"), "w") as f:
            json.dump(ev, f, indent=1, default=str)
        if not self.violations:
            # no stale replay of an earlier run of this property/seed
            import glob
            tag = "" if self.tier == "quick" else "-" + self.tier
            for old in glob.glob(os.path.join(REPLAYS, "%s%s-%d-*.json" % (self.pid, tag, self.seed))):
                try:
                    os.remove(old)
                except OSError:
                    pass
        seen = set()
        for key, text in self.known:
            if key not in seen:
                print("KNOWN-FINDING: property=%s %s %s" % (self.pid, key, text))
                seen.add(key)
        for path, suffix in self.violations[:5]:
            print("VIOLATION property=%s replay=%s%s" % (self.pid, path, suffix))
        sys.stdout.flush()
        return 1 if self.violations else 0


class SplitMix:
    """The one PRNG every random choice derives from (DESIGN.md section 5)."""

    def __init__(self, seed):
        self.s = seed & 0xFFFFFFFFFFFFFFFF

    def next(self):
        self.s = (self.s + 0x9E3779B97F4A7C15) & 0xFFFFFFFFFFFFFFFF
        z = self.s
        z = ((z ^ (z >> 30)) * 0xBF58476D1CE4E5B9) & 0xFFFFFFFFFFFFFFFF
        z = ((z ^ (z >> 27)) * 0x94D049BB133111EB) & 0xFFFFFFFFFFFFFFFF
        return z ^ (z >> 31)

    def below(self, n):
        return self.next() % n if n > 0 else 0

    def range(self, a, b):
        return a + self.below(b - a + 1)

    def choice(self, xs):
        return xs[self.below(len(xs))]

    def chance(self, num, den):
        return self.below(den) < num

    def bytes(self, n):
        return bytes(self.below(256) for _ in range(n))

    def shuffle(self, xs):
        for i in range(len(xs) - 1, 0, -1):
            j = self.below(i + 1)
            xs[i], xs[j] = xs[j], xs[i]


def run_pair(harness_exe, mode, cases_text, workdir, timeout=600, env=None):
    """Run implementation harness and extracted model on the same case file.
    Returns (impl_rc, impl_lines, impl_err, model_rc, model_lines, model_err)."""
    os.makedirs(workdir, exist_ok=True)
    cf = os.path.join(workdir, mode + ".cases")
    with open(cf, "w") as f:
        f.write(cases_text)
    drv = build_model()
    irc, iout, ierr = run([harness_exe, cf], timeout=timeout, env=env or san_env())
    mrc, mout, merr = run(["bash", "-c", "ulimit -s unlimited; exec \"$0\" \"$1\" \"$2\"", drv, mode, cf], timeout=timeout)
    return irc, iout.split("\n"), ierr, mrc, mout.split("\n"), merr


def split_cases(lines):
    """Group output lines by the `case <k>` markers -> dict k -> [lines]."""
    out, cur = {}, None
    for l in lines:
        if l.startswith("case "):
            cur = l[5:].strip()
            out[cur] = []
        elif cur is not None and l != "":
            out[cur].append(l)
    return out


def workdir(pid):
    """Per property and seed, so that the case files a replay points at survive later runs."""
    seed = os.environ.get("VERIF_SEED", "1")
    tier = os.environ.get("VERIF_TIER_EFFECTIVE", "quick")
    d = os.path.join(BUILD, "work", "%s-%s-%s" % (pid, tier, seed))
    os.makedirs(d, exist_ok=True)
    return d


def run_replay_pair(harness_exe, mode, cases_text, workdir, timeout=900, env=None, exe_args=()):
    """Implementation first; the model driver then replays the implementation's
    log (ops + oracle values) and re-derives every observable.  Returns
    (impl_rc, impl_lines_without_prop, prop_lines, impl_err, model_rc, model_lines, model_err)."""
    os.makedirs(workdir, exist_ok=True)
    cf = os.path.join(workdir, mode + ".cases")
    with open(cf, "w") as f:
        f.write(cases_text)
    drv = build_model()
    irc, iout, ierr = run([harness_exe, cf] + list(exe_args), timeout=timeout, env=env or san_env())
    lf = os.path.join(workdir, mode + ".implog")
    with open(lf, "w") as f:
        f.write(iout)
    mrc, mout, merr = run(["bash", "-c", "ulimit -s unlimited; exec \"$0\" \"$1\" \"$2\"", drv, mode, lf], timeout=timeout)
    il = [l for l in iout.split("\n")]
    return irc, il, ierr, mrc, mout.split("\n"), merr


# lines only the model driver prints (theorem hypotheses evaluated on the model): never part of the exact diff
MODEL_ONLY = ("thm ", "thmh ", "tho ", "thml ")


def diff_cases(il, ml, skip_prefixes=("prop ",)):
    """Compare per case; returns (cases_impl, diffs, props) where diffs is a list of
    dicts and props maps case -> list of prop lines."""
    ic, mc = split_cases(il), split_cases(ml)
    diffs, props = [], {}
    for k, li in ic.items():
        props[k] = [l for l in li if l.startswith("prop ")]
        a = [l for l in li if not l.startswith(skip_prefixes)]
        b = mc.get(k)
        if b is None:
            diffs.append({"case": k, "kind": "model produced no output for this case"})
            continue
        b = [l for l in b if not l.startswith(MODEL_ONLY)]      # model-only lines (theorem hypotheses), read by the caller
        if a != b:
            d = next((i for i in range(min(len(a), len(b))) if a[i] != b[i]), min(len(a), len(b)))
            diffs.append({"case": k, "line": d, "impl": a[d] if d < len(a) else None,
                          "model": b[d] if d < len(b) else None,
                          "context": a[max(0, d - 3):d]})
    return ic, diffs, props
