"""C14: hard bitrate limits hold to within the configured reservoir."""
import os
import concurrent.futures as cf
from . import common
from .common import SplitMix

LEVEL = "proof"


def check(rep, tier, seed):
    rep.assumptions = ["managed configurations as RATEMANAGE2_SET accepts them, with reservoir >= 8 bits (packets are whole bytes: smaller reservoirs cannot be honoured by any byte-aligned packetiser)",
                       "hard min <= hard max when both are set (the deprecated RATEMANAGE_HARD call that can violate it is out of scope)"]
    rep.coverage["trusted_base"] = ["Coq 8.16.1 kernel + vm_compute", "extraction + ml/driver.ml",
                                    "harness/c14.c (re-computes the average floater's choice with the library's own expression; synthetic candidate sizes are written into the real packet blobs)",
                                    "the candidate sizes themselves (psychoacoustics, residue coding) are inputs: the theorems quantify over all of them"]
    pr = common.prove("C14", clean=(tier == "thorough"))
    rep.proof(pr)
    exe = common.build_harness("c14")
    common.build_model()
    rng = SplitMix(seed * 1000003 + 14)
    wd = common.workdir("C14")
    lines, metas = [], []
    k = 0
    nenc = 24 if tier == "quick" else 300
    nsyn = 120 if tier == "quick" else 3000
    for _ in range(nenc):
        ch = rng.choice([1, 2, 2, 6])
        rate = rng.choice([8000, 22050, 32000, 44100, 48000])
        nom = rng.choice([32000, 48000, 64000, 96000, 128000]) * (3 if ch == 6 else 1)
        mode = rng.below(4)
        mx = -1 if mode == 1 else rng.choice([nom, nom + nom // 4, nom * 2])
        mn = -1 if mode == 0 else rng.choice([nom, nom // 2, nom // 4])
        if mode == 3:
            mx = mn = nom        # constant bitrate
        res = rng.choice([-1, 8, 64, 2000, 20000, 200000])
        bias = rng.choice([-1, 0, 100, 500, 1000])
        N = rng.range(2000, 40000 if tier == "quick" else 200000)
        lines.append("enc %d %d %d %d %d %d %d %d %d %d %d" % (k, ch, rate, mx, nom, mn, res, bias, N, rng.below(5), rng.below(1 << 30)))
        metas.append({"case": k, "kind": "real encode", "ch": ch, "rate": rate, "max": mx, "nominal": nom, "min": mn, "reservoir": res, "bias1000": bias, "N": N})
        k += 1
    for _ in range(nsyn):
        ch = rng.choice([1, 2])
        rate = rng.choice([8000, 16000, 22050, 44100, 48000])
        nom = rng.choice([24000, 32000, 64000, 96000])
        mode = rng.below(4)
        mx = -1 if mode == 1 else rng.choice([nom, nom * 2])
        mn = -1 if mode == 0 else rng.choice([nom, nom // 2])
        if mode == 3:
            mx = mn = nom
        res = rng.choice([8, 9, 15, 64, 100, 1000, 4000, 100000])
        bias = rng.choice([0, 1, 100, 500, 999, 1000])
        style = rng.below(7)
        nb = rng.range(30, 400 if tier == "quick" else 3000)
        lines.append("syn %d %d %d %d %d %d %d %d %d %d %d" % (k, ch, rate, mx, nom, mn, res, bias, rng.below(1 << 30), nb, style))
        metas.append({"case": k, "kind": "synthetic sizes", "ch": ch, "rate": rate, "max": mx, "nominal": nom, "min": mn, "reservoir": res, "bias1000": bias,
                      "blocks": nb, "style": style})
        k += 1
    shards = 16

    def one(i):
        return common.run_replay_pair(exe, "c14", "\n".join(lines[i::shards]) + "\n", os.path.join(wd, "s%d" % i), timeout=3000)
    with cf.ThreadPoolExecutor(shards) as ex:
        results = list(ex.map(one, range(shards)))
    bad_prop, bad_tie, known = [], [], {}
    dist = {"blocks": 0, "truncated_or_min_choice": 0, "padded": 0, "setup_refused": 0, "real_encodes": 0, "synthetic_runs": 0}
    for i, (irc, il, ierr, mrc, ml, merr) in enumerate(results):
        cfile = os.path.join(wd, "s%d" % i, "c14.cases")
        if irc != 0:
            bad_prop.append({"kind": "implementation crashed / sanitizer", "rc": irc, "stderr": ierr[-3000:], "cases_file": cfile})
        if mrc != 0:
            bad_tie.append({"kind": "model driver failed", "rc": mrc, "stderr": merr[-2000:]})
        ic, diffs, props = common.diff_cases(il, ml, skip_prefixes=("prop ", "known "))
        for d in diffs:
            d["cases_file"] = cfile
            bad_tie.append(d)
        for kk, li in ic.items():
            m = metas[int(kk)]
            nb = 0
            for l in li:
                if l.startswith("prop ") and "FAIL" in l:
                    bad_prop.append({"kind": l, "case": kk, "meta": m, "cases_file": cfile})
                if l.startswith("known "):
                    key = l.split()[1]
                    dist["known_" + key] = dist.get("known_" + key, 0) + 1
                    known.setdefault(key, {"line": l, "case": kk, "meta": m, "cases_file": cfile})
                if l.startswith("K "):
                    nb += 1
                    res_part = (l.split("|") + [""])[1].split()     # a line cut short (crash/watchdog) is reported through the exit status and the diff
                    if res_part and res_part[0] == "0":
                        dist["truncated_or_min_choice"] += 1
                if l.startswith("setup "):
                    dist["setup_refused"] += 1
            dist["blocks"] += nb
            dist["real_encodes" if m["kind"] == "real encode" else "synthetic_runs"] += 1
            rep.add_case(tuple(sorted((a, str(b)) for a, b in m.items())), nontrivial=nb > 0, sample=m if int(kk) % 19 == 0 else None)
    rep.coverage["rule"] = ("(a) real managed encodes (max only / min only / both / CBR; reservoir 8..200000 bits; bias 0..1; 1-6 channels; 8-48 kHz; noise, tones, "
                            "clicks, bursts, silence): every addblock call logged with its 15 candidate sizes and replayed by the extracted model (choice, final size, "
                            "reservoir must match exactly); (b) synthetic candidate sizes (around / far above / far below / exactly at the targets, bursts) pushed "
                            "through the real vorbis_bitrate_addblock; the window bounds are also evaluated directly on the emitted sizes; non-trivial = >= 1 block")
    rep.coverage["distribution"] = dist
    for key, ex_ in known.items():
        rep.violation("deviation listed in KNOWN_FINDINGS.txt under key " + key, ex_, key=key)
    if bad_prop:
        rep.violation("property fails on the implementation", {"failures": bad_prop[:10], "seed": seed})
    elif bad_tie:
        # the model's reservoir/size answers are what C14_reservoir_invariant is about: a different
        # value is no longer covered by the theorem
        rep.violation("correspondence Bitrate.v <-> lib/bitrate.c no longer holds", {"differences": bad_tie[:10], "seed": seed},
                      found_input=False)
    if not pr["ok"]:
        rep.violation("proof obligations of Properties_C14.v not discharged: " + "; ".join(pr["failed"]),
                      {"theorem_file": "coq/Properties_C14.v", "failed": pr["failed"], "log": pr["log"][-3000:]},
                      found_input=bool(bad_prop))


def replay(rep, path):
    check(rep, "quick", rep.seed)
