"""C06: decoded audio is time-aligned with the input, finite and quality-bounded."""
import os
import struct
import concurrent.futures as cf
from . import common
from .common import SplitMix

LEVEL = "proof"

CONFIGS = [(1, 8000), (1, 22050), (1, 44100), (2, 16000), (2, 22050), (2, 32000), (2, 44100), (2, 48000), (3, 48000), (4, 44100), (5, 44100), (6, 44100), (8, 44100),
           (2, 96000), (1, 11025)]
QUALS = [-0.1, 0.1, 0.3, 0.5, 0.7, 0.9, 1.0]
# signal-to-noise floor (dB) for the band-limited signals (multi-tone, sweep, tone bursts), far below what the unchanged
# encoder delivers (DESIGN.md C06: measured 3.7 / 21 / 37 dB at q = -0.1 / 0.3 / 0.9); rises with the quality setting
SNR_FLOOR = {-0.1: -4.0, 0.1: 2.0, 0.3: 10.0, 0.5: 14.0, 0.7: 18.0, 0.9: 24.0, 1.0: 24.0}
PEAK_FACTOR = 4.0
# one channel at a time (signal 5): the unchanged encoder returns every channel (LFE included) with >= 9 dB; a lost channel gives 0 dB
ONE_AT_A_TIME_FLOOR = 4.0


def f32bits(x):
    return struct.unpack("<I", struct.pack("<f", x))[0]


def check(rep, tier, seed):
    rep.assumptions = ["channel 5 of the six-channel (5.1) set-ups is the LFE channel: the encoder low-passes it near 250 Hz by design, so wide-band test content there is "
                       "only checked for finiteness and peak", "quality bound: only for the band-limited signals (multi-tone, sweep, tone bursts) and VBR set-ups"]
    rep.coverage["trusted_base"] = ["Coq 8.16.1 kernel; the real-number axioms of the standard library (ClassicalDedekindReals.sig_forall_dec, sig_not_dec, "
                                    "FunctionalExtensionality.functional_extensionality_dep) under C06_window_power_complementary only",
                                    "harness/c06.c (signal family, cross-correlation, SNR in double precision)",
                                    "finiteness, peak factor and the error-vs-quality bound are MEASURED on the implementation, not proved"]
    pr = common.prove("C06", clean=(tier == "thorough"))
    rep.proof(pr)
    rng = SplitMix(seed * 1000003 + 6)
    wd = common.workdir("C06")
    quick = tier == "quick"
    specs, metas = [], []
    k = 0
    ncfg = 5 if quick else len(CONFIGS)
    # the six-channel (5.1) set-up is the only one with a multi-step coupling chain: always present
    cfgs = ([(6, 44100)] + [c for c in [CONFIGS[(seed * 7 + i * 3) % len(CONFIGS)] for i in range(ncfg - 1)] if c != (6, 44100)]) if quick else CONFIGS
    for ch, rate in cfgs:
        for sig in range(5):
            for q in (QUALS if (sig in (0, 1, 4)) else [rng.choice(QUALS)]):
                n = rng.range(20000, 36000)
                specs.append("%d %d %d 0 %d %d %d %d" % (k, ch, rate, f32bits(q), n, sig, rng.below(1 << 40)))
                metas.append({"case": k, "ch": ch, "rate": rate, "quality": q, "signal": sig, "samples": n})
                k += 1
        if ch >= 2:
            # channel identity: one channel at a time carries a 100 Hz tone (inside the LFE band), the others are digitally silent;
            # both sides of the coupled/uncoupled switch of the multichannel set-ups
            for q in (0.3, 0.7):
                n = rng.range(6000, 9000) * ch
                specs.append("%d %d %d 0 %d %d %d %d" % (k, ch, rate, f32bits(q), n, 5, rng.below(1 << 40)))
                metas.append({"case": k, "ch": ch, "rate": rate, "quality": q, "signal": 5, "samples": n})
                k += 1
        if rng.below(2) == 0 or not quick:
            nom = rng.choice([48000, 64000, 96000]) * ch
            n = rng.range(20000, 30000)
            specs.append("%d %d %d 1 %d %d %d %d" % (k, ch, rate, nom, n, rng.below(5), rng.below(1 << 40)))
            metas.append({"case": k, "ch": ch, "rate": rate, "managed_nominal": nom, "signal": -1, "samples": n})
            k += 1
    exe = common.build_harness("c06")
    shards = 16
    os.makedirs(wd, exist_ok=True)

    def one(i):
        sf = os.path.join(wd, "spec%d" % i)
        with open(sf, "w") as f:
            f.write("\n".join(specs[i::shards]) + "\n")
        return common.run([exe, sf], env=common.san_env(), timeout=3000)
    with cf.ThreadPoolExecutor(shards) as ex:
        results = list(ex.map(one, range(shards)))
    bad, dist = [], {"encodes": len(specs), "refused": 0, "channels_measured": 0, "lfe_channels": 0, "max_peak_ratio": 0.0,
                     "min_snr_margin_db": 1e9, "snr_by_quality": {}}
    per = {}
    for i, (rc, out, err) in enumerate(results):
        sf = os.path.join(wd, "spec%d" % i)
        if rc != 0:
            bad.append({"kind": "crashed / sanitizer", "rc": rc, "stderr": err[-3000:], "spec_file": sf})
        cur = None
        for l in out.split("\n"):
            if l.startswith("case "):
                cur = int(l.split()[1])
            elif l.startswith("refused"):
                dist["refused"] += 1
            elif l.startswith("prop ") and "FAIL" in l:
                bad.append({"kind": l, "meta": metas[cur], "spec": specs[cur]})
            elif l.startswith("count "):
                t = l.split()
                if t[1] != t[2]:
                    bad.append({"kind": "decoded %s samples for %s input samples" % (t[2], t[1]), "meta": metas[cur], "spec": specs[cur]})
            elif l.startswith("m ") and cur is not None:
                m = metas[cur]
                c = int(l.split()[1])
                d = dict(x.split("=") for x in l.split()[2:])
                lfe = (m["ch"] == 6 and c == 5)
                dist["lfe_channels" if lfe else "channels_measured"] += 1
                pin, pout = float(d["peakin"]), float(d["peakout"])
                if d["finite"] != "1":
                    bad.append({"kind": "non-finite sample in channel %d" % c, "meta": m, "spec": specs[cur]})
                if pin > 0:
                    dist["max_peak_ratio"] = max(dist["max_peak_ratio"], pout / pin)
                    if pout > PEAK_FACTOR * pin:
                        bad.append({"kind": "peak of channel %d is %.3g, %.2f times the input peak" % (c, pout, pout / pin), "meta": m, "spec": specs[cur]})
                if m["signal"] == 5:
                    # every channel, the LFE included, must come back: its own slice reconstructed, nothing of another channel's
                    snr5 = float(d["snr"])
                    dist["min_snr_one_channel_at_a_time"] = min(dist.get("min_snr_one_channel_at_a_time", 1e9), snr5)
                    if snr5 < ONE_AT_A_TIME_FLOOR:
                        bad.append({"kind": "one channel at a time: channel %d comes back with SNR %.2f dB (silence or another channel's signal give <= 0 dB)" % (c, snr5),
                                    "meta": m, "measurement": d, "spec": specs[cur]})
                if lfe:
                    continue
                if d["lag"] != "0" and m["signal"] != 5:      # (a 100 Hz tone has no timing resolution at +-1 sample)
                    bad.append({"kind": "channel %d: cross-correlation with the input peaks at lag %s, not 0 (delay/advance)" % (c, d["lag"]), "meta": m,
                                "measurement": d, "spec": specs[cur]})
                if int(d["src"]) != c:
                    bad.append({"kind": "channel %d of the output resembles input channel %s most (permutation)" % (c, d["src"]), "meta": m,
                                "measurement": d, "spec": specs[cur]})
                if m["signal"] in (0, 1, 4):
                    snr = float(d["snr"])
                    q = m["quality"]
                    dist["snr_by_quality"].setdefault(str(q), [1e9, -1e9])
                    dist["snr_by_quality"][str(q)][0] = min(dist["snr_by_quality"][str(q)][0], snr)
                    dist["snr_by_quality"][str(q)][1] = max(dist["snr_by_quality"][str(q)][1], snr)
                    dist["min_snr_margin_db"] = min(dist["min_snr_margin_db"], snr - SNR_FLOOR[q])
                    per.setdefault((m["ch"], m["rate"], m["signal"], c), {})[q] = snr
                    if snr < SNR_FLOOR[q]:
                        bad.append({"kind": "channel %d: SNR %.2f dB below the floor %.1f dB of quality %.1f" % (c, snr, SNR_FLOOR[q], q), "meta": m,
                                    "spec": specs[cur]})
        for m in metas[i::shards]:
            rep.add_case((m["ch"], m["rate"], str(m.get("quality", m.get("managed_nominal"))), m["signal"], seed), nontrivial=True,
                         sample=m if m["case"] % 31 == 0 else None)
    # the bound tightens as quality rises: the best quality is not worse than the worst by more than 3 dB
    for key, byq in per.items():
        if -0.1 in byq and 0.9 in byq and byq[0.9] < byq[-0.1] - 3.0:
            bad.append({"kind": "reconstruction error does not tighten with quality: %.1f dB at q=0.9 vs %.1f dB at q=-0.1" % (byq[0.9], byq[-0.1]),
                        "config": list(key)})
    rep.coverage["rule"] = ("signal family: per-channel distinct multi-tones, sweeps, low-passed noise, click trains with per-channel phase, tone bursts with silence; "
                            "%d channel/rate configurations x 7 qualities (+ managed): per channel the cross-correlation peak over lags -48..48 must sit at 0, the output "
                            "must correlate most with its own input channel, samples finite, peak <= %.0fx input peak, decoded count = input count; band-limited signals: "
                            "SNR above a quality-dependent floor and not decreasing by more than 3 dB from q=-0.1 to q=0.9" % (len(cfgs), PEAK_FACTOR))
    rep.coverage["distribution"] = dist
    if bad:
        rep.violation("property fails on the implementation", {"failures": bad[:10], "seed": seed})
    if not pr["ok"]:
        rep.violation("proof obligations of Properties_C06.v not discharged: " + "; ".join(pr["failed"]),
                      {"theorem_file": "coq/Properties_C06.v", "failed": pr["failed"], "log": pr["log"][-3000:]}, found_input=bool(bad))


def replay(rep, path):
    check(rep, "quick", rep.seed)
