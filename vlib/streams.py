"""Hand-made Vorbis I streams: headers, audio packets and Ogg framing, built bit
by bit so that exotic but legal streams (64-sample blocks, single-page links,
odd page layouts, huge sample values) can be produced without the encoder.
Only a generator of *inputs*: nothing here decides a property."""
import struct


class BitWriter:
    def __init__(self):
        self.acc = 0
        self.n = 0

    def write(self, v, bits):
        if bits:
            self.acc |= (v & ((1 << bits) - 1)) << self.n
            self.n += bits

    def bytes(self):
        nb = (self.n + 7) // 8
        return self.acc.to_bytes(nb, "little") if nb else b""


def ilog(v):
    return v.bit_length() if v > 0 else 0


# --------------------------------------------------------------------------
# headers
# --------------------------------------------------------------------------

def id_header(channels=1, rate=44100, bs0=256, bs1=2048, upper=0, nominal=0, lower=0):
    w = BitWriter()
    w.write(1, 8)
    for ch in b"vorbis":
        w.write(ch, 8)
    w.write(0, 32)
    w.write(channels, 8)
    w.write(rate, 32)
    w.write(upper & 0xffffffff, 32)
    w.write(nominal & 0xffffffff, 32)
    w.write(lower & 0xffffffff, 32)
    w.write(ilog(bs0) - 1, 4)
    w.write(ilog(bs1) - 1, 4)
    w.write(1, 1)
    return w.bytes()


def comment_header(vendor=b"verif", comments=()):
    b = b"\x03vorbis" + struct.pack("<I", len(vendor)) + vendor + struct.pack("<I", len(comments))
    for c in comments:
        b += struct.pack("<I", len(c)) + c
    return b + b"\x01"


def float32_pack(x):
    """codebook.c _float32_pack layout: sign<<31 | (exp+788)<<21 | mantissa(21 bits)"""
    import math
    sign = 0
    if x < 0:
        sign = 0x80000000
        x = -x
    if x == 0:
        return 0
    exp = int(math.floor(math.log(x) / math.log(2) + .001))
    mant = int(round(math.ldexp(x, (21 - 1) - exp)))
    exp = (exp + 768) << 21
    return (sign | exp | mant) & 0xffffffff


def write_codebook(w, cb):
    """cb: dict(dim, lengths=[...] (0 = unused entry), ordered=False, maptype=0,
    min, delta (floats), quant (bits), seq (0/1), quantlist=[...])"""
    w.write(0x564342, 24)
    w.write(cb["dim"], 16)
    lengths = cb["lengths"]
    w.write(len(lengths), 24)
    if cb.get("runs") is not None:
        # explicit ordered encoding: first length, then run counts written verbatim
        # (each with ilog(entries - assigned so far) bits, as the reader expects)
        w.write(1, 1)
        w.write(cb["first_len"] - 1, 5)
        i, n = 0, len(lengths)
        for cnt in cb["runs"]:
            w.write(cnt, ilog(max(n - i, 0)))
            i += cnt
    elif cb.get("ordered"):
        w.write(1, 1)
        # lengths must be non-decreasing and all used
        w.write(lengths[0] - 1, 5)
        i = 0
        cur = lengths[0]
        n = len(lengths)
        while i < n:
            cnt = 0
            while i + cnt < n and lengths[i + cnt] == cur:
                cnt += 1
            w.write(cnt, ilog(n - i))
            i += cnt
            cur += 1
    else:
        w.write(0, 1)
        sparse = any(l == 0 for l in lengths) or cb.get("force_sparse")
        w.write(1 if sparse else 0, 1)
        for l in lengths:
            if sparse:
                if l == 0:
                    w.write(0, 1)
                else:
                    w.write(1, 1)
                    w.write(l - 1, 5)
            else:
                w.write(l - 1, 5)
    mt = cb.get("maptype", 0)
    w.write(mt, 4)
    if mt in (1, 2):
        w.write(float32_pack(cb["min"]), 32)
        w.write(float32_pack(cb["delta"]), 32)
        w.write(cb["quant"] - 1, 4)
        w.write(cb.get("seq", 0), 1)
        for q in cb["quantlist"]:
            w.write(q, cb["quant"])


def write_floor1(w, f):
    """f: dict(partitionclass=[...], classes=[dict(dim, subs, book, subbook=[...])], mult, rangebits, posts=[...])"""
    pc = f.get("partitionclass", [])
    w.write(len(pc), 5)
    for c in pc:
        w.write(c, 4)
    classes = f.get("classes", [])
    for c in classes:
        w.write(c["dim"] - 1, 3)
        w.write(c["subs"], 2)
        if c["subs"]:
            w.write(c["book"], 8)
        for sb in c["subbook"]:
            w.write(sb + 1, 8)
    w.write(f.get("mult", 1) - 1, 2)
    w.write(f.get("rangebits", 8), 4)
    for p in f.get("posts", []):
        w.write(p, f.get("rangebits", 8))


def write_floor0(w, f):
    w.write(f["order"], 8)
    w.write(f["rate"], 16)
    w.write(f["barkmap"], 16)
    w.write(f["ampbits"], 6)
    w.write(f["ampdB"], 8)
    w.write(len(f["books"]) - 1, 4)
    for b in f["books"]:
        w.write(b, 8)


def write_residue(w, r):
    """r: dict(begin, end, grouping, partitions, groupbook, cascade=[bitmask per partition], books=[...in order])"""
    w.write(r.get("begin", 0), 24)
    w.write(r.get("end", 0), 24)
    w.write(r.get("grouping", 1) - 1, 24)
    w.write(r.get("partitions", 1) - 1, 6)
    w.write(r.get("groupbook", 0), 8)
    for c in r.get("cascade", [0] * r.get("partitions", 1)):
        w.write(c & 7, 3)
        if c >> 3:
            w.write(1, 1)
            w.write(c >> 3, 5)
        else:
            w.write(0, 1)
    for b in r.get("books", []):
        w.write(b, 8)


def write_mapping(w, m, channels):
    w.write(0, 16)
    subs = m.get("submaps", 1)
    if subs > 1:
        w.write(1, 1)
        w.write(subs - 1, 4)
    else:
        w.write(0, 1)
    coup = m.get("coupling", [])
    if coup:
        w.write(1, 1)
        w.write(len(coup) - 1, 8)
        for (mag, ang) in coup:
            w.write(mag, ilog(channels - 1))
            w.write(ang, ilog(channels - 1))
    else:
        w.write(0, 1)
    w.write(0, 2)
    if subs > 1:
        for c in range(channels):
            w.write(m["mux"][c], 4)
    for i in range(subs):
        w.write(0, 8)
        w.write(m.get("floor", [0] * subs)[i], 8)
        w.write(m.get("residue", [0] * subs)[i], 8)


def setup_header(setup, channels):
    w = BitWriter()
    w.write(5, 8)
    for ch in b"vorbis":
        w.write(ch, 8)
    books = setup["books"]
    w.write(len(books) - 1, 8)
    for cb in books:
        write_codebook(w, cb)
    w.write(0, 6)
    w.write(0, 16)
    floors = setup["floors"]
    w.write(len(floors) - 1, 6)
    for f in floors:
        w.write(f.get("type", 1), 16)
        if f.get("type", 1) == 0:
            write_floor0(w, f)
        else:
            write_floor1(w, f)
    res = setup["residues"]
    w.write(len(res) - 1, 6)
    for r in res:
        w.write(r.get("type", 0), 16)
        write_residue(w, r)
    maps = setup["mappings"]
    w.write(len(maps) - 1, 6)
    for m in maps:
        write_mapping(w, m, channels)
    modes = setup["modes"]
    w.write(len(modes) - 1, 6)
    for md in modes:
        w.write(md["blockflag"], 1)
        w.write(0, 16)
        w.write(0, 16)
        w.write(md.get("mapping", 0), 8)
    w.write(1, 1)
    return w.bytes()


def minimal_setup(residue_type=0, nmodes=2):
    """one trivial codebook, floor 1 with no partitions, one empty residue, one
    mapping, modes: 0 = short, 1 = long (nmodes=1: short only)"""
    return {
        "books": [{"dim": 1, "lengths": [1, 1]}],
        "floors": [{"type": 1, "partitionclass": [], "classes": [], "mult": 1, "rangebits": 8, "posts": []}],
        "residues": [{"type": residue_type, "begin": 0, "end": 0, "grouping": 1, "partitions": 1, "groupbook": 0,
                      "cascade": [0], "books": []}],
        "mappings": [{}],
        "modes": [{"blockflag": 0}, {"blockflag": 1}][:nmodes],
    }


def loud_setup(amp_post=255, mult=1):
    """Setup able to produce non-zero (and very large) samples: floor 1 with two
    posts at full amplitude, residue type 2 with a one-dimensional lattice book
    whose values are quantlist*delta+min."""
    return {
        "books": [
            {"dim": 1, "lengths": [1, 1]},                                # 0: classification book (1 class)
            {"dim": 1, "lengths": [2, 2, 2, 2], "maptype": 1, "min": -1.0, "delta": 1.0, "quant": 2,
             "quantlist": [0, 1, 2, 3]},                                   # 1: values -1,0,1,2
        ],
        "floors": [{"type": 1, "partitionclass": [], "classes": [], "mult": mult, "rangebits": 8, "posts": []}],
        "residues": [{"type": 2, "begin": 0, "end": 32, "grouping": 32, "partitions": 1, "groupbook": 0,
                      "cascade": [1], "books": [1]}],
        "mappings": [{}],
        "modes": [{"blockflag": 0}, {"blockflag": 1}],
    }


# --------------------------------------------------------------------------
# audio packets
# --------------------------------------------------------------------------

def silent_packet(setup, mode, prev_long=0, next_long=0, channels=1):
    w = BitWriter()
    w.write(0, 1)
    w.write(mode, ilog(len(setup["modes"]) - 1))
    if setup["modes"][mode]["blockflag"]:
        w.write(prev_long, 1)
        w.write(next_long, 1)
    for _ in range(channels):
        w.write(0, 1)          # floor unused
    return w.bytes() or b"\x00"


def loud_packet(setup, mode, prev_long, next_long, channels, y0, y1, entries):
    """For loud_setup(): floor posts y0,y1 (0..255 with mult=1) and residue
    entries (each 0..3 -> value entry-1) for the first 32 interleaved bins."""
    w = BitWriter()
    w.write(0, 1)
    w.write(mode, ilog(len(setup["modes"]) - 1))
    if setup["modes"][mode]["blockflag"]:
        w.write(prev_long, 1)
        w.write(next_long, 1)
    quant_q = [256, 128, 86, 64][setup["floors"][0]["mult"] - 1]
    for _ in range(channels):
        w.write(1, 1)
        w.write(y0, ilog(quant_q - 1))
        w.write(y1, ilog(quant_q - 1))
    # residue 2, one partition word (book 0: 1-bit codewords; class 0 = entry 0), then 32 values
    w.write(0, 1)
    for e in entries:
        w.write([0b00, 0b10, 0b01, 0b11][e], 2)   # lengths 2,2,2,2 -> codewords 00,01,10,11 MSb first
    return w.bytes()


# --------------------------------------------------------------------------
# Ogg framing
# --------------------------------------------------------------------------

_crc_table = []
for _i in range(256):
    _r = _i << 24
    for _ in range(8):
        _r = ((_r << 1) ^ 0x04c11db7) & 0xffffffff if _r & 0x80000000 else (_r << 1) & 0xffffffff
    _crc_table.append(_r)


def ogg_crc(data):
    c = 0
    for b in data:
        c = ((c << 8) & 0xffffffff) ^ _crc_table[((c >> 24) & 0xff) ^ b]
    return c


def make_page(serial, seqno, granule, segments_data, lacing, continued=False, bos=False, eos=False):
    flags = (1 if continued else 0) | (2 if bos else 0) | (4 if eos else 0)
    hdr = b"OggS" + bytes([0, flags]) + struct.pack("<q", granule) + struct.pack("<I", serial & 0xffffffff) + \
        struct.pack("<I", seqno) + b"\0\0\0\0" + bytes([len(lacing)]) + bytes(lacing)
    page = hdr + segments_data
    crc = ogg_crc(page)
    return page[:22] + struct.pack("<I", crc) + page[26:]


def paginate(serial, packets, layout, start_seq=0, bos_first=True, eos_last=True):
    """packets: list of (bytes, granule).  layout: list of ints = number of
    packets to END on each successive page (the last entry repeats).  A packet
    longer than 255*255 bytes spans pages.  Returns (bytes, page_infos)."""
    out = b""
    infos = []
    seq = start_seq
    i = 0
    li = 0
    carry = None        # (remaining bytes of a packet spanning pages, granule)
    first = True
    while i < len(packets) or carry is not None:
        want = layout[min(li, len(layout) - 1)]
        li += 1
        lacing, data = [], b""
        granule = -1
        continued = carry is not None
        ended = 0
        while len(lacing) < 255 and (carry is not None or (i < len(packets) and ended < want)):
            if carry is not None:
                pkt, g = carry
                carry = None
            else:
                pkt, g = packets[i]
                i += 1
            room = 255 - len(lacing)
            nseg = len(pkt) // 255 + 1
            if nseg <= room:
                lacing += [255] * (nseg - 1) + [len(pkt) % 255]
                data += pkt
                granule = g
                ended += 1
            else:
                take = room * 255
                lacing += [255] * room
                data += pkt[:take]
                carry = (pkt[take:], g)
                break
        last = (i >= len(packets) and carry is None)
        page = make_page(serial, seq, granule, data, lacing, continued=continued,
                         bos=(first and bos_first), eos=(last and eos_last))
        infos.append({"offset": len(out), "len": len(page), "granule": granule, "seq": seq, "packets_ended": ended})
        out += page
        seq += 1
        first = False
    return out, infos


def build_link(serial, channels=1, rate=44100, bs0=256, bs1=2048, wseq=(0, 0, 1, 1, 0), total=None, setup=None,
               layout=(1,), header_layout=(1, 2), comments=(), packet_fn=None, granule_all=False, gran_offset=0):
    """A complete logical stream.  wseq: window flag of each audio packet.
    total: sample count to put in the last granule (None = untrimmed).
    Returns (bytes, meta) with meta = dict(N, packets=[(W, granule)], pages=[...])."""
    setup = setup or minimal_setup()
    hdrs = [(id_header(channels, rate, bs0, bs1), 0), (comment_header(comments=comments), 0),
            (setup_header(setup, channels), 0)]
    hb, hinfo = paginate(serial, hdrs, list(header_layout), 0, True, False)
    bs = [bs0, bs1]
    pk = []
    g = 0
    nw = len(wseq)
    for k, W in enumerate(wseq):
        if k > 0:
            g += bs[wseq[k - 1]] // 4 + bs[W] // 4
        mode = W if len(setup["modes"]) > 1 else 0
        prev_long = wseq[k - 1] if k > 0 else 0
        next_long = wseq[k + 1] if k + 1 < nw else 0
        if packet_fn:
            data = packet_fn(k, mode, prev_long, next_long)
        else:
            data = silent_packet(setup, mode, prev_long, next_long, channels)
        pk.append([data, g, W])
    full = g
    N = full if total is None else total
    if pk:
        pk[-1][1] = N
    ab, ainfo = paginate(serial, [(d, gg + gran_offset) for d, gg, _ in pk], list(layout), len(hinfo), False, True)
    for inf in ainfo:
        inf["offset"] += len(hb)
    meta = {"serial": serial, "channels": channels, "rate": rate, "bs0": bs0, "bs1": bs1, "N": N, "full": full,
            "packets": [(W, gg) for _, gg, W in pk], "header_bytes": len(hb), "pages": hinfo + ainfo,
            "bytes": len(hb) + len(ab)}
    return hb + ab, meta


def full_length(bs0, bs1, wseq):
    bs = [bs0, bs1]
    return sum(bs[wseq[k - 1]] // 4 + bs[wseq[k]] // 4 for k in range(1, len(wseq)))


def parse_pages(data):
    """Page table of an (intact) Ogg byte string: list of dict(offset, len, granule, serial, flags, nseg)."""
    out = []
    pos = 0
    n = len(data)
    while pos + 27 <= n and data[pos:pos + 4] == b"OggS":
        nseg = data[pos + 26]
        lac = data[pos + 27:pos + 27 + nseg]
        ln = 27 + nseg + sum(lac)
        gran = struct.unpack("<q", data[pos + 6:pos + 14])[0]
        serial = struct.unpack("<I", data[pos + 14:pos + 18])[0]
        out.append({"offset": pos, "len": ln, "granule": gran, "serial": serial, "flags": data[pos + 5], "nseg": nseg})
        pos += ln
    return out


def extract_packets(data):
    """Packets of a single-serial Ogg byte string (intact), in order."""
    out, cur, pos = [], b"", 0
    n = len(data)
    while pos + 27 <= n and data[pos:pos + 4] == b"OggS":
        nseg = data[pos + 26]
        lac = data[pos + 27:pos + 27 + nseg]
        body = pos + 27 + nseg
        for l in lac:
            cur += data[body:body + l]
            body += l
            if l < 255:
                out.append(cur)
                cur = b""
        pos = body
    return out
