"""C09: opening a chained file accounts for every link and every sample."""
import os
from . import common, vfx, vfgen, streams
from .common import SplitMix

LEVEL = "proof"


def check(rep, tier, seed):
    rep.assumptions = ["intact physical streams: links placed end to end, one Vorbis stream per link, distinct serial numbers"]
    rep.coverage["trusted_base"] = vfx.TRUSTED
    pr = common.prove("C09", clean=(tier == "thorough"))
    rep.proof(pr)
    rng = SplitMix(seed * 1000003 + 9)
    wd = common.workdir("C09")
    nfiles = 96 if tier == "quick" else 1500
    # k = 1..12 links, incl. zero-sample and single-page links (handmade_link shapes 0..2, layout 1)
    specs = []
    for i in range(10):
        specs.append((rng.choice([1000, 0x7ffffff0, 0x80000000, 0xc0000000, 0xffffff00]) + i, rng.choice([1, 2, 6]), rng.choice([8000, 22050, 44100, 48000]), rng.choice([0.0, 0.4]),
                      rng.choice([0, 1, 100, 3000, 9000]), rng.below(5), rng.below(1 << 30), rng.choice([0, 1, 2])))
    enc = vfgen.encode_links(specs, wd)
    cases = []
    for k in range(nfiles):
        nl = rng.choice([1, 2, 2, 3, 3, 4, 5, 8, 12])
        data, Ns, kinds, used = b"", [], [], set()
        serials = set()          # serial numbers must be unique within a physical stream (Ogg framing rule)
        for li in range(nl):
            d = None
            if rng.chance(1, 4):
                j = rng.below(len(enc))
                if j not in used and enc[j] and (specs[j][0] & 0xffffffff) not in serials:
                    used.add(j)
                    d, N = enc[j], specs[j][4]
                    serials.add(specs[j][0] & 0xffffffff)
                    kinds.append("enc")
            if d is None:
                ser = rng.choice([7000, 7000, 0x7fff8000, 0x80000000, 0xffe00000]) + (k * 16 + li) % 30000
                if rng.chance(1, 8) and 0xffffffff not in serials:
                    ser = 0xffffffff          # the all-ones serial number (-1 as a signed 32-bit value)
                while (ser & 0xffffffff) in serials:
                    ser += 100003
                serials.add(ser & 0xffffffff)
                d, m = vfgen.handmade_link(rng, ser, small=True)
                N = m["N"]
                kinds.append("hand")
            data += d
            Ns.append(N)
        # linear read to the end in varying request sizes, then a few tells
        ops = []
        n = 0
        total = sum(Ns)
        while n < total + 6000 and len(ops) < 600:
            ops.append("rf:%d" % rng.choice([4096, 100000, 1000, 1]))
            n += 128
        text = "case %d 1 %d %d 0 %s\nops %s\n" % (k, rng.choice([0, 0, 7, 255]), k, data.hex(), " ".join(ops))
        cases.append((text, {"case": k, "Ns": Ns, "kinds": kinds, "bytes": len(data), "links": nl, "nontrivial": True}))
    results = vfx.run_cases("C09", cases, wd)
    dist = {"zero_sample_links": sum(1 for c in cases for N in c[1]["Ns"] if N == 0),
            "max_links": max(c[1]["links"] for c in cases)}
    bad_prop, bad_tie = vfx.classify(results, [c[1] for c in cases], wd, rep, dist)
    # direct oracle: the linear read delivers, in order and without holes, exactly every link
    for i, (irc, il, ierr, mrc, ml, merr) in enumerate(results):
        cur, refn, got, holes = None, [], {}, 0
        def close_case():
            if cur is None:
                return
            exp = {j: n for j, n in enumerate(refn) if n > 0}
            if got != exp:
                bad_prop.append({"kind": "linear read did not deliver every link completely", "case": cur, "expected": exp, "got": got,
                                 "cases_file": os.path.join(wd, "s%d" % i, "vf.cases")})
        for l in il:
            if l.startswith("case "):
                close_case()
                cur, refn, got = l[5:].strip(), [], {}
            elif l.startswith("ref "):
                refn = [int(x.split(":")[0]) for x in l.split()[2:]]
            elif l.startswith("op rf:"):
                t = l.split()
                try:
                    rc, lk = int(t[3]), int(t[-1])
                except (ValueError, IndexError):
                    continue          # line cut short by a crash/watchdog: reported through the exit status
                if rc > 0:
                    got[lk] = got.get(lk, 0) + rc
                elif rc < 0:
                    bad_prop.append({"kind": "read returned an error/hole on an intact file", "case": cur, "line": l,
                                     "cases_file": os.path.join(wd, "s%d" % i, "vf.cases")})
        close_case()
    rep.coverage["rule"] = ("chained files of 1..12 links (real-encoder and hand-made; differing channels, rates, block sizes; zero-sample and single-page "
                            "links; various page layouts): link count, per-link channels/rate/serial/length and offsets compared with an independent "
                            "packet-level decode and with VFile.v's link table; a linear read must deliver every link completely, in order, bit-identical, "
                            "without error returns; non-trivial = every case")
    rep.coverage["distribution"] = dist
    if bad_prop:
        rep.violation("property fails on the implementation", {"failures": bad_prop[:10], "seed": seed})
    elif bad_tie:
        rep.violation("correspondence VFile.v <-> lib/vorbisfile.c no longer holds", {"differences": bad_tie[:10], "seed": seed},
                      found_input=False)
    if not pr["ok"]:
        rep.violation("proof obligations of Properties_C09.v not discharged: " + "; ".join(pr["failed"]),
                      {"theorem_file": "coq/Properties_C09.v", "failed": pr["failed"], "log": pr["log"][-3000:]},
                      found_input=bool(bad_prop))


def replay(rep, path):
    check(rep, "quick", rep.seed)
