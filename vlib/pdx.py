"""Shared runner for the packet-decoder pair (harness/pd.c vs the extracted
Setup/Codebook/PacketDec models): sharding, exact diff with the floor-0
convention, numeric step."""
import os
import json
import concurrent.futures as cf
from . import common

TRUSTED = ["Coq 8.16.1 kernel + vm_compute", "extraction (ExtrOcamlBasic) + ml/driver.ml (mode pd)",
           "harness/pd.c: #includes lib/mapping0.c with mdct_backward renamed to capture the spectrum of every channel right before the inverse MDCT",
           "libogg's bit reader (outside the repository): modelled in Bits.v/Setup.v, tied by every run",
           "vlib/numeric.py (numpy, tooling interpreter): inverse MDCT by direct cosine sum, Vorbis window, overlap-add and the floor-0 curve are NUMERIC "
           "references with a tolerance, not theorems"]


def exact_lines(impl, model):
    """impl/model: lists of lines of one case.  Returns (a, b) ready for ==: `pcm`/`prop` lines dropped on the
    implementation side; where the model answers `f0 c ...` (floor 0: curve is numeric) the implementation's
    `ch c ...` line is replaced by the same marker."""
    a = [l for l in impl if not l.startswith(("pcm ", "prop "))]
    b = [l for l in model if not l.startswith(("repack ", "eop "))]      # model-only lines (C05 reads them)
    if len(a) == len(b):
        a = [("F0 " + y.split()[1] if y.startswith("f0 ") and x.startswith("ch ") and x.split()[1] == y.split()[1] else x) for x, y in zip(a, b)]
        b = [("F0 " + y.split()[1] if y.startswith("f0 ") else y) for y in b]
    return a, b


def run(texts, wd, shards=16, numeric_meta=None, timeout=3000):
    """texts: list of case texts (each starting with `case <k>`).  Returns dict with
    impl (case -> lines), model, crashes, ties (list of diffs), numeric (dict or None)."""
    exe = common.build_harness("pd")
    common.build_model()
    shards = max(1, min(shards, len(texts)))

    def one(i):
        return common.run_pair(exe, "pd", "".join(texts[i::shards]), os.path.join(wd, "s%d" % i), timeout=timeout)
    with cf.ThreadPoolExecutor(shards) as ex:
        results = list(ex.map(one, range(shards)))
    out = {"impl": {}, "model": {}, "crashes": [], "ties": [], "numeric": None, "files": {}}
    for i, (irc, il, ierr, mrc, ml, merr) in enumerate(results):
        cfile = os.path.join(wd, "s%d" % i, "pd.cases")
        if irc != 0:
            out["crashes"].append({"kind": "implementation crashed / sanitizer / watchdog", "rc": irc, "stderr": ierr[-3000:], "cases_file": cfile,
                                   "last_case": next((l for l in reversed(il) if l.startswith("case ")), None)})
        if mrc != 0:
            out["ties"].append({"kind": "model driver failed", "rc": mrc, "stderr": merr[-2000:], "cases_file": cfile})
        ic, mc = common.split_cases(il), common.split_cases(ml)
        for k, li in ic.items():
            out["impl"][k] = li
            out["model"][k] = mc.get(k, [])
            out["files"][k] = cfile
            a, b = exact_lines(li, mc.get(k, []))
            if a != b:
                d = next((j for j in range(min(len(a), len(b))) if a[j] != b[j]), min(len(a), len(b)))
                x, y = (a[d] if d < len(a) else ""), (b[d] if d < len(b) else "")
                pos = next((q for q in range(min(len(x), len(y))) if x[q] != y[q]), min(len(x), len(y)))
                out["ties"].append({"case": k, "line": d, "impl": x[:60] + " ... " + x[max(0, pos - 16):pos + 24], "model": y[:60] + " ... " + y[max(0, pos - 16):pos + 24],
                                    "column": pos, "context": a[max(0, d - 2):d], "cases_file": cfile})
        if numeric_meta is not None:
            with open(os.path.join(wd, "s%d" % i, "impl.out"), "w") as f:
                f.write("\n".join(il))
            with open(os.path.join(wd, "s%d" % i, "model.out"), "w") as f:
                f.write("\n".join(ml))
    if numeric_meta is not None:
        mfile = os.path.join(wd, "meta.json")
        with open(mfile, "w") as f:
            json.dump(numeric_meta, f)

        def num(i):
            d = os.path.join(wd, "s%d" % i)
            rc, o, e = common.run(["python3-vt", os.path.join(common.VERIF, "vlib", "numeric.py"), os.path.join(d, "impl.out"), os.path.join(d, "model.out"),
                                   mfile, os.path.join(d, "num.json")], timeout=timeout)
            if rc != 0:
                return {"error": (o + e)[-2000:]}
            return json.load(open(os.path.join(d, "num.json")))
        with cf.ThreadPoolExecutor(shards) as ex:
            nums = list(ex.map(num, range(shards)))
        tot = {}
        for n in nums:
            for k, v in n.items():
                if isinstance(v, list):
                    tot.setdefault(k, []).extend(v)
                elif isinstance(v, float):
                    tot[k] = max(tot.get(k, 0.0), v)
                elif isinstance(v, int):
                    tot[k] = tot.get(k, 0) + v
                else:
                    tot.setdefault("errors", []).append(v)
        out["numeric"] = tot
    return out
