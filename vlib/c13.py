"""C13: clear functions release everything on success and on every error path."""
import os
import concurrent.futures as cf
from . import common, vfx, vfgen, streams, mutate
from .common import SplitMix

LEVEL = "proof"
RATES = [-1, 0, 1, 4000, 7999, 8000, 9000, 11025, 15000, 16000, 19000, 22050, 26000, 32000, 40000, 44100, 48000, 50000, 64000,
         96000, 192000, 200000, 200001, 2147483647]


def check(rep, tier, seed):
    rep.assumptions = ["live allocations are observed with LeakSanitizer's recoverable leak check after every scenario, double frees with ASan",
                       "the application calls the documented clear functions (block, dsp, comment, info / ov_clear), here twice in a row"]
    rep.coverage["trusted_base"] = ["Coq 8.16.1 kernel", "harness/c13.c, ASan + LeakSanitizer", "vlib/streams.py, vlib/mutate.py, harness/mkogg.c (inputs)"]
    pr = common.prove("C13", clean=(tier == "thorough"))
    rep.proof(pr)
    exe = common.build_harness("c13")
    rng = SplitMix(seed * 1000003 + 13)
    wd = common.workdir("C13")
    lines = []
    # ---- encoder: every template family, rejected arguments, every set-up stage ----
    nenc = 0
    chans = [1, 2, 3, 4, 5, 6, 7, 8, 16, 255, 0, -1, 256, 300]
    for ch in chans:
        for rate in (RATES if tier != "quick" else [r for r in RATES if rng.chance(1, 2) or r in (8000, 44100, 48000)]):
            if ch > 8 and rate not in (-1, 8000, 44100):
                continue
            mode = rng.below(4)
            q = rng.choice([-0.2, -0.1, 0.0, 0.3, 0.5, 1.0, 1.5, "nan"])
            nom = rng.choice([32000, 64000, 128000, 256000, 1, 10000000]) * max(1, min(ch, 8) // 2)
            tri = "%d:%d:%d" % (rng.choice([-1, nom, nom * 2, 1]), rng.choice([-1, nom]), rng.choice([-1, nom // 2, nom, nom * 3]))
            spec = q if mode in (0, 2) else tri
            stage = rng.choice([0, 1, 2, 2, 2, 3, 7, 8, 9])
            nb = rng.below(4) if ch <= 8 else 0
            lines.append("enc %d %d %d %s %d %d" % (ch, rate, mode, spec, nb, stage))
            nenc += 1
    # ---- packet decoder: header prefixes and corruptions ----
    ndec = 0
    specs = [(1000 + i, rng.choice([1, 2, 6]), rng.choice([8000, 44100]), rng.choice([0.1, 0.5]), 3000, 1, rng.below(1 << 30), 0) for i in range(3)]
    encs = vfgen.encode_links(specs, wd)
    hdrsets = []
    for d in encs:
        pk = streams.extract_packets(d)
        if len(pk) >= 4:
            hdrsets.append(pk[:4])
    for bs0, bs1 in ((64, 64), (256, 2048), (1024, 8192)):
        for rt in (0, 1, 2):
            su = streams.minimal_setup(residue_type=rt)
            hdrsets.append([streams.id_header(2, 44100, bs0, bs1), streams.comment_header(comments=[b"a=b"]), streams.setup_header(su, 2),
                            streams.silent_packet(su, 0, 0, 0, 2)])
    nmut = 40 if tier == "quick" else 400
    for hs in hdrsets:
        for stage in (0, 1, 2, 3, 13, 23):
            lines.append("dec %d %s %s %s %s" % (stage, hs[0].hex(), hs[1].hex(), hs[2].hex(), hs[3].hex()))
            ndec += 1
        for _ in range(nmut):
            which = rng.below(3)
            m = bytearray(hs[which])
            r = rng.below(4)
            if r == 0 and len(m) > 8:
                m = m[:rng.range(7, len(m) - 1)]
            else:
                for _ in range(rng.range(1, 3)):
                    j = rng.range(7, len(m) - 1)
                    m[j] = rng.choice([0, 255, m[j] ^ (1 << rng.below(8)), rng.below(256)])
            h = list(hs)
            h[which] = bytes(m)
            lines.append("dec %d %s %s %s %s" % (rng.choice([3, 13, 23]), h[0].hex(), h[1].hex(), h[2].hex(), h[3].hex()))
            ndec += 1
    # ---- vorbisfile: opens and seeks that fail ----
    nvf = 0
    files = vfx.make_files(rng, 8 if tier == "quick" else 40, tier, wd, small=True)
    for fi in files:
        total, nb = sum(fi["Ns"]), len(fi["data"])
        hx = fi["data"].hex()
        for kind in (0, 1, 2, 4, 5):
            # every callback index of the open for read errors on chained files (the open of a chained
            # file issues ~10-30 callbacks per link); sampled beyond
            full = 130 if (kind in (1, 2) and len(fi["Ns"]) >= 2) else 40
            for k in ([0] if kind == 0 else list(range(1, full)) + [rng.range(full, 300) for _ in range(6)]):
                ops = "rf:4096 ps:%d rf:10 pp:%d rs:%d pl:%d hr:1 ts:0.01 rf:5" % (rng.below(total + 1), rng.below(total + 1), rng.below(nb + 1), rng.below(total + 1))
                # read-callback chunking: with 1..255-byte reads every stage of the open has to call back
                lines.append("vf %d:%d %d %d %d %s %s" % (1 if rng.chance(5, 6) else 0, rng.choice([0, 0, 1, 7, 64, 255, 2047]), kind, rng.below(2), k, hx, ops))
                nvf += 1
        for _ in range(10 if tier == "quick" else 60):
            d = mutate.mutate(rng, fi["data"])
            lines.append("vf %d 0 0 0 %s rf:4096 ps:%d rf:10 rs:%d pl:%d rf:5" % (1 if rng.chance(5, 6) else 0, d.hex() or "-", rng.below(total + 1), rng.below(nb + 1), rng.below(total + 1)))
            nvf += 1
    shards = 16
    env = common.san_env({"ASAN_OPTIONS": "detect_leaks=1:abort_on_error=0:exitcode=99:allocator_may_return_null=1:max_allocation_size_mb=2048",
                          "LSAN_OPTIONS": "exitcode=0:print_suppressions=0"})

    def one(i):
        cfile = os.path.join(wd, "s%d.cases" % i)
        with open(cfile, "w") as f:
            f.write("case %d\n" % i + "\n".join(lines[i::shards]) + "\n")
        return common.run([exe, cfile], env=env, timeout=3000) + (cfile,)
    with cf.ThreadPoolExecutor(shards) as ex:
        results = list(ex.map(one, range(shards)))
    bad_prop = []
    dist = {"encoder_scenarios": nenc, "decoder_scenarios": ndec, "vorbisfile_scenarios": nvf, "ok": 0, "enc_setups_ok": 0, "enc_setups_rejected": 0,
            "dec_header_rejected": 0, "vf_open_failed": 0}
    for i, (rc, out, err, cfile) in enumerate(results):
        if rc != 0:
            site = [x.strip()[:160] for x in err.split("\n") if ("ERROR" in x or "runtime error" in x or " #0 " in x or " #1 " in x)][:4]
            bad_prop.append({"kind": "crash / sanitizer report (double free, use after free) / watchdog", "rc": rc, "site": site, "cases_file": cfile})
        ol = out.split("\n")
        for j, l in enumerate(ol):
            if l.startswith("prop ") and "FAIL" in l:
                leak = [x.strip()[:140] for x in err.split("\n") if (" #1 " in x or " #2 " in x or "leak of" in x)][:6]
                bad_prop.append({"kind": l[:400], "allocation_sites": leak, "cases_file": cfile})
            if l == "prop noleak ok":
                dist["ok"] += 1
            if l.startswith("enc rc 0"):
                dist["enc_setups_ok"] += 1
            elif l.startswith("enc rc "):
                dist["enc_setups_rejected"] += 1
            if l.startswith("dec fed") and not l.endswith("rc 0"):
                dist["dec_header_rejected"] += 1
            if l.startswith("vf open") and l.strip() != "vf open 0":
                dist["vf_open_failed"] += 1
    for k, l in enumerate(lines):
        rep.add_case(l[:200], nontrivial=True, sample=l[:160] if k % 997 == 0 else None)
    rep.coverage["rule"] = ("one scenario per line, leak-checked individually: encoder set-ups over channels {-1..300} x rates around every template boundary x "
                            "VBR/managed/one-step/two-step(+ctl) x how far the set-up proceeds x a few blocks encoded; packet decoder with 0..3 headers fed, init, "
                            "decode, and bit-flipped/truncated headers; vorbisfile opens failing at callback k (read error, zero read, seek/tell failure), mutated "
                            "files, seek/lap/half-rate ops; then block/dsp/comment/info clears (or ov_clear) twice; distinct by scenario text; all non-trivial")
    rep.coverage["distribution"] = dist
    if bad_prop:
        rep.violation("property fails on the implementation", {"failures": bad_prop[:10], "seed": seed})
    if not pr["ok"]:
        rep.violation("proof obligations of Properties_C13.v not discharged: " + "; ".join(pr["failed"]),
                      {"theorem_file": "coq/Properties_C13.v", "failed": pr["failed"], "log": pr["log"][-3000:]},
                      found_input=bool(bad_prop))


def replay(rep, path):
    check(rep, "quick", rep.seed)
