(* Driver for the extracted models: one case file in, canonical lines out.
   Conversions between OCaml ints and the extracted unary/binary numbers are
   the only glue; every decision is taken by extracted code. *)
open Model

let rec pos_of_int i = if i = 1 then XH else if i land 1 = 1 then XI (pos_of_int (i lsr 1)) else XO (pos_of_int (i lsr 1))
let n_of_int i = if i = 0 then N0 else Npos (pos_of_int i)
let rec int_of_pos = function XH -> 1 | XO p -> 2 * int_of_pos p | XI p -> 2 * int_of_pos p + 1
let int_of_n = function N0 -> 0 | Npos p -> int_of_pos p
let z_of_int i = if i = 0 then Z0 else if i > 0 then Zpos (pos_of_int i) else Zneg (pos_of_int (-i))
let int_of_z = function Z0 -> 0 | Zpos p -> int_of_pos p | Zneg p -> - (int_of_pos p)
let nat_of_int i = let rec go i acc = if i = 0 then acc else go (i - 1) (S acc) in go i O
let int_of_nat n = let rec go n acc = match n with O -> acc | S m -> go m (acc + 1) in go n 0

let hexval c = match c with
  | '0'..'9' -> Char.code c - 48 | 'a'..'f' -> Char.code c - 87 | 'A'..'F' -> Char.code c - 55
  | _ -> failwith "hex"
let bytes_of_hex s =
  if s = "-" then [] else begin
    let n = String.length s / 2 in
    let rec go i acc = if i < 0 then acc else go (i - 1) (n_of_int (16 * hexval s.[2*i] + hexval s.[2*i+1]) :: acc) in
    go (n - 1) [] end
let hex_of_bytes l =
  if l = [] then "-" else begin
    let b = Buffer.create 1024 in
    List.iter (fun x -> Buffer.add_string b (Printf.sprintf "%02x" (int_of_n x))) l;
    Buffer.contents b end

let split s = List.filter (fun x -> x <> "") (String.split_on_char ' ' s)

let read_lines f =
  let ic = open_in f in
  let rec go acc = match input_line ic with
    | l -> go (l :: acc)
    | exception End_of_file -> close_in ic; List.rev acc in
  go []

(* ---------------------------------------------------------------- C16 *)
let c16 file =
  let cs = ref [] in
  List.iter (fun line ->
    match split line with
    | ["case"; k] -> cs := []; Printf.printf "case %s\n" k
    | ["c"; h] -> cs := !cs @ [bytes_of_hex h]
    | ["a"; h] -> cs := comment_add !cs (bytes_of_hex h)
    | ["t"; tg; v] -> cs := comment_add_tag !cs (bytes_of_hex tg) (bytes_of_hex v)
    | ["pack"] ->
        Printf.printf "pkt %s\n" (hex_of_bytes (pack_comment encode_vendor_string !cs))
    | ["q"; tag; n] ->
        (match query !cs (bytes_of_hex tag) (nat_of_int (int_of_string n)) with
         | Some (i, off) -> Printf.printf "q %d %d\n" (int_of_n i) (int_of_n off)
         | None -> Printf.printf "q -1 0\n")
    | ["cnt"; tag] -> Printf.printf "cnt %d\n" (int_of_nat (query_count !cs (bytes_of_hex tag)))
    | ["in"; h] ->
        (match headerin_comment (bytes_of_hex h) with
         | Inl ENotVorbis -> Printf.printf "in ENOTVORBIS\n"
         | Inl EBadHeader -> Printf.printf "in EBADHEADER\n"
         | Inr (v, l) ->
             let rec cut = function [] -> [] | N0 :: _ -> [] | x :: r -> x :: cut r in
             Printf.printf "in OK %d %s" (List.length l) (hex_of_bytes (cut v));
             List.iter (fun c -> Printf.printf " %s" (hex_of_bytes c)) l;
             print_newline ())
    | [] -> ()
    | _ -> failwith ("c16: bad line " ^ line)) (read_lines file)

(* ---------------------------------------------------------------- C04 *)
let b2i b = if b then 1 else 0
let zi = z_of_int and iz = int_of_z
let est s = Printf.sprintf "%d %d %d %d %d %d %d %d %d" (iz s.e_centerW) (iz s.e_cur) (iz s.e_storage)
    (iz s.e_eof) (iz s.e_gran) (iz s.e_seq) (b2i s.e_lW) (b2i s.e_W) (b2i s.e_nW)
let c04 file =
  let cfg = ref { bs0 = zi 0; bs1 = zi 0; hs = zi 0 } in
  let es = ref (enc_init !cfg) and ds = ref (dec_init !cfg) in
  let lastb = ref None and nin = ref 0 and total = ref 0 in
  List.iter (fun line ->
    match split line with
    | "case" :: _ -> print_endline line
    | ["cfg"; a; b] ->
        cfg := { bs0 = zi (int_of_string a); bs1 = zi (int_of_string b); hs = zi 0 };
        es := enc_init !cfg; ds := dec_init !cfg; nin := 0; total := 0; lastb := None;
        print_endline line
    | "E0" :: _ -> Printf.printf "E0 %s\n" (est !es)
    | "B" :: n :: _ ->
        es := enc_buffer !es (zi (int_of_string n));
        Printf.printf "B %s | %d %d\n" n (iz !es.e_cur) (iz !es.e_storage)
    | "W" :: n :: _ ->
        let (rc, s) = enc_wrote !cfg !es (zi (int_of_string n)) in
        es := s; if iz rc = 0 && int_of_string n > 0 then nin := !nin + int_of_string n;
        Printf.printf "W %s | %d  %s\n" n (iz rc) (est s)
    | "O" :: bp :: _ ->
        let bpz = if bp = "x" then zi (-1) else zi (int_of_string bp) in
        let (s, ob) = enc_blockout !cfg !es bpz in
        es := s;
        (match ob with
         | None -> Printf.printf "O %s | 0  %s\n" bp (est s)
         | Some b ->
             lastb := Some b;
             Printf.printf "O %s | 1 %d %d %d %d %d %d ;  %s\n" bp (b2i b.b_lW) (b2i b.b_W) (b2i b.b_nW)
               (iz b.b_seq) (iz b.b_gran) (b2i b.b_eof) (est s))
    | ["P"; w; g; pk; eos] ->
        (match !lastb with
         | Some b -> Printf.printf "P %d %d %d %d\n" (b2i b.b_W) (iz b.b_gran) (iz b.b_seq) (b2i b.b_eof)
         | None -> print_endline "P none")
    | "D" :: sr :: _ ->
        (match !lastb with
         | None -> print_endline "D none"
         | Some b ->
             if int_of_string sr <> 0 then Printf.printf "D %s -999 | model-skips\n" sr
             else begin
               let (rc, s) = dec_blockin !cfg !ds (to_dblock b) in
               let cnt = iz (dec_pcmout s) in
               Printf.printf "D 0 %d | %d ; %d %d %d %d %d %d %d %d\n" (iz rc) cnt (iz s.d_centerW) (iz s.d_cur) (iz s.d_ret)
                 (iz s.d_gran) (iz s.d_seq) (b2i s.d_lW) (b2i s.d_W) (iz s.d_count);
               let (_, s2) = dec_read s (zi cnt) in ds := s2; total := !total + cnt
             end)
    | "T" :: _ -> Printf.printf "T %d %d\n" !nin !total
    | "setup" :: _ -> print_endline line
    | _ -> ()) (read_lines file)

(* ---------------------------------------------------------------- C11 *)
let r32 x = Int32.float_of_bits (Int32.bits_of_float x)
let floats_of_hex h =
  if h = "-" then [||] else
  Array.init (String.length h / 8) (fun i -> Int32.float_of_bits (Int32.of_string ("0x" ^ String.sub h (8*i) 8)))
let hex_of_floats a lo n =
  if n <= 0 then "-" else begin
    let b = Buffer.create (8*n) in
    for i = lo to lo + n - 1 do Buffer.add_string b (Printf.sprintf "%08lx" (Int32.bits_of_float a.(i))) done;
    Buffer.contents b end
let dst s = Printf.sprintf " ; %d %d %d %d %d %d %d %d" (iz s.d_centerW) (iz s.d_cur) (iz s.d_ret) (iz s.d_gran)
    (iz s.d_seq) (b2i s.d_lW) (b2i s.d_W) (iz s.d_count)
let c11 file =
  let cfg = ref { bs0 = zi 0; bs1 = zi 0; hs = zi 0 } and ch = ref 1 in
  let ds = ref (dec_init !cfg) in
  let size = ref 0 in
  let buf = ref [||] in                       (* symbolic cells, shared by all channels *)
  let wins : (int, float array) Hashtbl.t = Hashtbl.create 4 in
  let pcm : (int * int, float array) Hashtbl.t = Hashtbl.create 64 in   (* (packet, channel) -> injected block *)
  let kcur = ref 0 in
  let pending_out = ref (0, 0) in             (* (lo, n) of the samples the next `out` lines must show *)
  let rec eval c e = match e with
    | SInit _ -> 0.0
    | SPcm (k, i) -> (try (Hashtbl.find pcm (iz k, c)).(iz i) with _ -> nan)
    | SLap (a, wa, b, wb, wn) ->
        let w = try Hashtbl.find wins (iz wn) with Not_found -> [||] in
        let g i = if i >= 0 && i < Array.length w then w.(i) else nan in
        r32 (r32 (eval c a *. g (iz wa)) +. r32 (eval c b *. g (iz wb))) in
  let materialize f =
    let old = !buf in ignore old;
    buf := Array.init !size (fun i -> f (zi i)) in
  let lookup () = let old = !buf in fun j -> let j = iz j in if j >= 0 && j < Array.length old then old.(j) else SInit (zi j) in
  List.iter (fun line ->
    match split line with
    | "case" :: _ -> print_endline line
    | ["cfg"; a; b; h; c] ->
        cfg := { bs0 = zi (int_of_string a); bs1 = zi (int_of_string b); hs = zi (int_of_string h) };
        ch := int_of_string c; ds := dec_init !cfg; Hashtbl.reset wins; Hashtbl.reset pcm; kcur := 0;
        size := 2 * iz (half !cfg true);
        buf := Array.init !size (fun i -> SInit (zi i));
        print_endline line
    | ["win"; wn; h] -> Hashtbl.replace wins (int_of_string wn) (floats_of_hex h); print_endline line
    | "B" :: w :: g :: sq :: eos :: pf :: "|" :: sr :: _ ->
        if int_of_string sr <> 0 then Printf.printf "B %s %s %s %s %s | %s -999 model-skips\n" w g sq eos pf sr
        else begin
          let b = { k_W = (w = "1"); k_gran = zi (int_of_string g); k_seq = zi (int_of_string sq);
                    k_eof = (eos = "1"); k_pcm = (pf = "1") } in
          let s0 = !ds in
          let (rc, s1) = dec_blockin !cfg s0 b in
          incr kcur;
          if iz rc = 0 && b.k_pcm then materialize (blockin_buf !cfg s0 b (zi !kcur) (lookup ()));
          ds := s1;
          let cnt = iz (dec_pcmout s1) in
          pending_out := (iz s1.d_ret, cnt);
          Printf.printf "B %s %s %s %s %s | 0 %d%s ; %d\n" w g sq eos pf (iz rc) (dst s1) cnt
        end
    | ["in"; c; h] -> Hashtbl.replace pcm (!kcur, int_of_string c) (floats_of_hex h); print_endline line
    | ["out"; c; _] ->
        let (lo, n) = !pending_out in
        let ci = int_of_string c in
        let vals = Array.init (max n 0) (fun i -> eval ci (!buf).(lo + i)) in
        Printf.printf "out %s %s\n" c (hex_of_floats vals 0 n)
    | "P" :: n :: _ ->
        let (rc, s1) = dec_read !ds (zi (int_of_string n)) in ds := s1;
        Printf.printf "P %s | %d%s\n" n (iz rc) (dst s1)
    | "R" :: _ -> ds := dec_restart !cfg !ds; Printf.printf "R | 0%s\n" (dst !ds)
    | "L" :: _ ->
        let s0 = !ds in
        let (r, s1) = dec_lapout !cfg s0 in
        materialize (lapout_buf !cfg s0 (lookup ()));
        ds := s1; pending_out := (iz s1.d_ret, iz r);
        Printf.printf "L | %d%s\n" (iz r) (dst s1)
    | "S" :: _ | "hdr" :: _ | "halfrate" :: _ | "setup" :: _ -> print_endline line
    | _ -> ()) (read_lines file)

(* ---------------------------------------------------------------- C17 *)
let c17 file =
  let chans = ref 1 and hs = ref 0 in
  let cur = ref None in            (* pending R op: word sg be len avail *)
  let ins : (int, Model.f32 list) Hashtbl.t = Hashtbl.create 8 in
  let f32s_of_hex h =
    if h = "-" then [] else
    List.init (String.length h / 8) (fun i -> decode_b32 (zi (int_of_string ("0x" ^ String.sub h (8*i) 8)))) in
  List.iter (fun line ->
    match split line with
    | "case" :: _ -> print_endline line
    | ["cfg"; c; h] -> chans := int_of_string c; hs := int_of_string h; print_endline line
    | ["R"; w; sg; be; len; "|"; "peek"; pk; "avail"; av; "ch"; c] ->
        Hashtbl.reset ins;
        chans := int_of_string c;
        cur := Some (int_of_string w, sg = "1", be = "1", int_of_string len, int_of_string av);
        (* the zero-length peek (made with a valid word size): refused when data is pending *)
        let avi = int_of_string av in
        let exp_pk = if avi > 0 then -131 else int_of_string pk in
        Printf.printf "R %s %s %s %s | peek %d avail %s ch %s\n" w sg be len exp_pk av c
    | ["in"; c; h] -> Hashtbl.replace ins (int_of_string c) (f32s_of_hex h); print_endline line
    | "filter" :: _ ->
        (match !cur with
         | Some (w, _, _, len, av) ->
             let (_, n) = read_frames (zi av) (zi len) (zi w) (zi !chans) in
             Printf.printf "filter %d %d\n" !chans (iz n)
         | None -> print_endline "filter ?")
    | ["ret"; r; "adv"; _; "link"; lk] ->
        (match !cur with
         | Some (w, sg, be, len, av) ->
             if av <= 0 then print_endline line   (* end of stream / error before packing: echoed, checked by prop lines *)
             else begin
               let (r', n) = read_frames (zi av) (zi len) (zi w) (zi !chans) in
               Printf.printf "ret %d adv %d link %s\n" (iz r') ((iz n) lsl !hs) lk
             end
         | None -> print_endline "ret ?")
    | ["out"; h] ->
        (match !cur with
         | Some (w, sg, be, len, av) when av > 0 ->
             let (r', n) = read_frames (zi av) (zi len) (zi w) (zi !chans) in
             if iz r' <= 0 then print_endline "out -" else begin
               let cl = List.init !chans (fun c -> try Hashtbl.find ins c with Not_found -> []) in
               let bytes = pack_frames (zi w) sg be cl (nat_of_int (iz n)) in
               Printf.printf "out %s\n" (hex_of_bytes (List.map (fun z -> n_of_int (iz z)) bytes))
             end
         | _ -> print_endline line)
    | "F" :: _ | "S" :: _ | "open" :: _ | "halfrate" :: _ -> print_endline line
    | _ -> ()) (read_lines file)

(* ---------------------------------------------------------------- vorbisfile *)
let vfmode file =
  let pages = ref [] and hdrs = ref [] and refline = ref [] in
  let st = ref None in
  let hs = ref 0 in
  let parse_pkt tok =
    match String.split_on_char ':' tok with
    | ["h"; g] -> Some { pk_W = None; pk_gran = zi (int_of_string g); pk_eos = false }
    | [w; g; e] when w = "0" || w = "1" -> Some { pk_W = Some (w = "1"); pk_gran = zi (int_of_string g); pk_eos = (e <> "0") }
    | [w; g; e] when w = "x" -> Some { pk_W = None; pk_gran = zi (int_of_string g); pk_eos = (e <> "0") }
    | _ -> None in
  let get () = match !st with Some s -> s | None ->
      let s = open_file (List.rev !pages) (List.rev !hdrs) (zi !hs) in st := Some s; s in
  let show tok rc lk time implraw =
    let s = get () in
    (* at the very end of the data the byte cursor is wherever the last seek put it: echoed *)
    let raw = if s.v_rem = [] then implraw else string_of_int (iz (raw_tell s)) in
    Printf.printf "op %s | %d tell %d raw %s time %s rs %d cl %d link %d\n" tok rc (iz s.v_pcm) raw time
      (iz s.v_rs) (iz s.v_link) lk in
  List.iter (fun line ->
    match split line with
    | "case" :: _ -> pages := []; hdrs := []; st := None; hs := 0; print_endline line
    | "pg" :: off :: len :: serial :: gran :: bos :: eos :: cont :: _ :: toks ->
        let pk = List.filter_map parse_pkt toks in
        pages := { pg_off = zi (int_of_string off); pg_len = zi (int_of_string len); pg_serial = zi (int_of_string serial);
                   pg_gran = zi (int_of_string gran); pg_bos = (bos = "1"); pg_eos = (eos = "1"); pg_cont = (cont = "1");
                   pg_pkts = pk } :: !pages;
        print_endline line
    | "ref" :: _ :: rest ->
        refline := rest;
        hdrs := List.rev (List.map (fun t -> match String.split_on_char ':' t with
                  | [_; _; _; ser; b0; b1] -> ((zi (int_of_string ser), zi (int_of_string b0)), zi (int_of_string b1))
                  | _ -> ((zi 0, zi 0), zi 0)) rest);
        print_endline line
    | "open" :: _ -> print_endline line
    | ["halfrate"; _] ->
        let s = get () in let (r, s') = halfrate s true in st := Some s'; Printf.printf "halfrate %d\n" (iz r)
    | "links" :: _ ->
        let s = get () in
        (* model-only line: do the hypotheses of C09_read_from_start_is_in_sync hold for this freshly opened handle? *)
        Printf.printf "tho %d\n" (if start_hyps s then 1 else 0);
        Printf.printf "links %d total %d" (List.length s.v_links) (iz (pcm_total s));
        List.iteri (fun i l ->
          let (ch, rate) = (match String.split_on_char ':' (List.nth !refline i) with
                            | [_; c; r; _; _; _] -> (c, r) | _ -> ("?", "?")) in
          Printf.printf " %d:%s:%s:%d:%d:%d" (iz l.li_len) ch rate (iz l.li_serial) (iz l.li_off) (iz l.li_dataoff)) s.v_links;
        print_newline ()
    | ["tell0"; _] -> Printf.printf "tell0 %d\n" (iz (get ()).v_pcm)
    | "op" :: tok :: "|" :: rc :: "tell" :: _ :: "raw" :: implraw :: "time" :: time :: _ ->
        let s = get () in
        let arg () = int_of_string (String.sub tok 3 (String.length tok - 3)) in
        (match String.sub tok 0 (min 3 (String.length tok)) with
         | "ps:" ->
             (* model-only line: do the hypotheses of theorem C07_pcm_seek_checked hold for this seek? *)
             (if iz s.v_hs = 1
              then Printf.printf "thmh %s %d\n" tok (if seek_hyps_h s (zi (arg ())) then 1 else 0)
              else Printf.printf "thm %s %d\n" tok (if seek_end_hyps s (zi (arg ())) then 3 else if seek_hyps s (zi (arg ())) then 1 else if seek_hyps_e s (zi (arg ())) then 2 else 0));
             let (r, s') = pcm_seek s (zi (arg ())) in st := Some s'; show tok (iz r) (-1) time implraw
         | "pp:" -> let (r, s') = pcm_seek_page s (zi (arg ())) in st := Some s'; show tok (iz r) (-1) time implraw
         | "rs:" -> let (r, s') = raw_seek s (zi (arg ())) in st := Some s'; show tok (iz r) (-1) time implraw
         | "ts:" | "tp:" ->
             (* ov_time_seek(_page): the double arithmetic of the C code, then the pcm seek *)
             let seconds = float_of_string (String.sub tok 3 (String.length tok - 3)) in
             let rates = List.map (fun t -> match String.split_on_char ':' t with
                                   | [_; _; r; _; _; _] -> float_of_string r | _ -> 1.0) !refline in
             let is_ts = String.sub tok 0 3 = "ts:" in
             (* model-only line for sample-accurate time seeks: theorem hypotheses for the converted target *)
             let thm_line target =
               if is_ts then begin
                 let half = iz s.v_hs = 1 in
                 let ok = (match target with
                           | Some t -> if half then (if seek_hyps_h s (zi t) then 1 else 0)
                                       else if seek_end_hyps s (zi t) then 3 else if seek_hyps s (zi t) then 1 else if seek_hyps_e s (zi t) then 2 else 0
                           | None -> 0) in
                 Printf.printf "%s %s %d %d\n" (if half then "thmh" else "thm") tok ok
                   (match target with Some t -> t | None -> -1)
               end in
             if seconds < 0.0 then (thm_line None; show tok (-131) (-1) time implraw) else begin
               let rec go ls rs tt pt = match ls, rs with
                 | l :: lr, r :: rr ->
                     let addsec = float_of_int (iz l.li_len) /. r in
                     if seconds < tt +. addsec then Some (r, tt, pt) else go lr rr (tt +. addsec) (pt + iz l.li_len)
                 | _, _ -> None in
               match go s.v_links rates 0.0 0 with
               | None -> thm_line None; show tok (-131) (-1) time implraw
               | Some (r, tt, pt) ->
                   let target = Int64.to_int (Int64.of_float (float_of_int pt +. (seconds -. tt) *. r)) in
                   thm_line (Some target);
                   let (rc, s') = (if String.sub tok 0 3 = "ts:" then pcm_seek s (zi target) else pcm_seek_page s (zi target)) in
                   st := Some s'; show tok (iz rc) (-1) time implraw
             end
         | "pl:" ->
             (* model-only line: do the hypotheses of theorem C19_lapped_seek_lands_on_target hold? (full rate) *)
             Printf.printf "thml %s %d\n" tok (if iz s.v_hs = 0 && lap_hyps s (zi (arg ())) then 1 else 0);
             let (r, s') = pcm_seek_lap s (zi (arg ())) in st := Some s'; show tok (iz r) (-1) time implraw
         | "ql:" -> let (r, s') = pcm_seek_page_lap s (zi (arg ())) in st := Some s'; show tok (iz r) (-1) time implraw
         | "rl:" -> let (r, s') = raw_seek_lap s (zi (arg ())) in st := Some s'; show tok (iz r) (-1) time implraw
         | "hr:" -> let (r, s') = halfrate s (arg () <> 0) in st := Some s'; show tok (iz r) (-1) time implraw
         | "rf:" -> let ((r, lk), s') = read_float (read_fuel s) s (zi (arg ())) in st := Some s'; show tok (iz r) (iz lk) time implraw
         | _ -> print_endline line)
    | "holes" :: _ | "closes" :: _ -> print_endline line
    | _ -> ()) (read_lines file)

(* ---------------------------------------------------------------- C14 *)
let c14 file =
  let p = ref { p_min = zi 0; p_max = zi 0; p_spl = zi 1; p_res = zi 0; p_fill = zi 0 } and r = ref (zi 0) in
  List.iter (fun line ->
    match split line with
    | "case" :: _ -> print_endline line
    | "cfg" :: mn :: mx :: spl :: res :: fill :: r0 :: _ ->
        p := { p_min = zi (int_of_string mn); p_max = zi (int_of_string mx); p_spl = zi (int_of_string spl);
               p_res = zi (int_of_string res); p_fill = zi (int_of_string fill) };
        r := zi (int_of_string r0); print_endline line
    | "K" :: w :: c0 :: rest ->
        let rec take n l = if n = 0 then [] else (match l with x :: t -> x :: take (n-1) t | [] -> []) in
        let sizes = List.map (fun x -> zi (int_of_string x)) (take 15 rest) in
        let ((c, this), r') = addblock !p !r sizes (w = "1") (zi (int_of_string c0)) in
        r := r';
        Printf.printf "K %s %s %s | %d %d %d\n" w c0 (String.concat " " (take 15 rest)) (iz c) (iz this) (iz r')
    | "W" :: _ | "S" :: _ | "setup" :: _ -> print_endline line
    | _ -> ()) (read_lines file)

(* ---------------------------------------------------------------- C15 *)
(* floating-point glue (not extracted): the float adjustment of the quality,
   the long->float store into hi->req and the division by the channel count are
   done here in IEEE arithmetic exactly as the C code does; every comparison
   and every decision is taken by the extracted model on exact dyadic values. *)
let rec pos_of_i64 (i : int64) =
  if i = 1L then XH
  else if Int64.logand i 1L = 1L then XI (pos_of_i64 (Int64.shift_right_logical i 1))
  else XO (pos_of_i64 (Int64.shift_right_logical i 1))
let z_of_u64 (i : int64) = if i = 0L then Z0 else Zpos (pos_of_i64 i)
let d64_of_float (x : float) = decode_b64 (z_of_u64 (Int64.bits_of_float x))
let round32 (x : float) = Int32.float_of_bits (Int32.bits_of_float x)
let c15 file =
  let tbl = List.map mk_template setup_templates in
  let s = ref s_init and req = ref 0.0 and dead = ref false in
  let zs x = zi (int_of_string x) in
  let show op rc =
    let st = !s in
    if st.s_cleared then Printf.printf "st %s rc=%d cleared=1\n" op (iz rc)
    else begin
      let (t, is) = match st.s_tmpl with Some (a, b) -> (iz a, iz b) | None -> (-1, -1) in
      let (b0, b1) = match st.s_blocks with Some (a, b) when st.s_stone -> (iz a, iz b) | _ -> (0, 0) in
      Printf.printf "st %s rc=%d cleared=0 tmpl=%d is=%d ch=%d rate=%d man=%d cpl=%d stone=%d min=%d av=%d max=%d res=%d b0=%d b1=%d\n"
        op (iz rc) t is (iz st.s_ch) (iz st.s_rate) (iz st.s_managed) (iz st.s_coupling) (if st.s_stone then 1 else 0)
        (iz st.s_min) (iz st.s_av) (iz st.s_max) (iz st.s_res) b0 b1
    end in
  let rec i64_of_pos = function XH -> 1L | XO p -> Int64.shift_left (i64_of_pos p) 1 | XI p -> Int64.logor (Int64.shift_left (i64_of_pos p) 1) 1L in
  let float_of_zbits = function Z0 -> 0.0 | Zpos p -> Int64.float_of_bits (i64_of_pos p) | Zneg _ -> nan in
  let maps = Array.of_list (List.map (fun (((((((_, _), _), _), q), r), _), _) ->
    (Array.of_list (List.map float_of_zbits q), Array.of_list (List.map float_of_zbits r))) setup_templates) in
  (* (int)(j+del) as the C code computes it: float low/high/del, float sum *)
  let bump_for (rq : float) (bitrate : bool) : z -> z -> bool = fun zi_ zj ->
    let i = iz zi_ and j = iz zj in
    let (q, r) = maps.(i) in let mp = if bitrate then r else q in
    let low = round32 mp.(j) and high = round32 mp.(j + 1) in
    let del = round32 ((rq -. low) /. (high -. low)) in
    let is0 = truncate (round32 (float_of_int j +. del)) in
    if is0 = j then false else if is0 = j + 1 then true
    else (Printf.printf "glue-assumption-violated (int)(j+del)=%d for j=%d\n" is0 j; false) in
  let apply_b b opname o = let (s', rc) = sstep b tbl !s o in s := s'; show opname rc; if s'.s_cleared then dead := true in
  let apply opname o = apply_b (fun _ _ -> false) opname o in
  let quality qb =
    let q = Int32.float_of_bits (Int32.of_string ("0u" ^ qb)) in
    let q = round32 (q +. 0.0000001) in
    if q >= 1.0 then round32 0.9999 else q in
  let f64 b = Int64.float_of_bits (Int64.of_string ("0u" ^ b)) in
  List.iter (fun line ->
    match split line with
    | "case" :: k :: _ -> s := s_init; req := 0.0; dead := false; Printf.printf "case %s\n" k
    | ["end"] -> ()
    | op :: _ when !dead -> Printf.printf "skip %s\n" op
    | [("V" | "IV") as op; ch; rate; qb] ->
        let q = quality qb in
        if int_of_string rate > 0 then req := q;
        apply_b (bump_for q false) op (if op = "V" then OVbr (zs ch, zs rate, d64_of_float q) else OneVbr (zs ch, zs rate, d64_of_float q))
    | [("M" | "IM") as op; ch; rate; mx; nom; mn] ->
        let rd = (match nominal_eff (zs mx) (zs nom) (zs mn) with
          | Some ne when int_of_string rate > 0 ->
              req := round32 (float_of_int (iz ne)); float_of_int (iz ne) /. float_of_int (int_of_string ch)
          | _ -> 0.0) in
        apply_b (bump_for rd true) op (if op = "M" then OManaged (zs ch, zs rate, zs mx, zs nom, zs mn, d64_of_float rd)
                  else OneManaged (zs ch, zs rate, zs mx, zs nom, zs mn, d64_of_float rd))
    | ["I"] -> apply "I" OInit
    | ["C2S"; "null"] -> apply "C2S" (OManage2Set (true, zi 0, zi 0, zi 0, zi 0, d64_of_float 0.0, zi 0, d64_of_float 0.0))
    | ["C2S"; _; act; mnk; avk; mxk; damp; resb; bias] ->
        apply "C2S" (OManage2Set (false, zs act, zs mnk, zs avk, zs mxk, d64_of_float (f64 damp), zs resb, d64_of_float (f64 bias)))
    | ["C2G"; a] -> apply "C2G" (OManage2Get (a = "null"))
    | ["CPL"; v] ->
        let st = !s in
        let ch' = if int_of_string v <> 0 then iz st.s_ch else -1 in
        let rd = if iz st.s_managed <> 0 then !req /. float_of_int ch' else !req in
        apply_b (bump_for rd (iz st.s_managed <> 0)) "CPL" (OCoupling (zs v, d64_of_float rd))
    | "CO" :: num :: _ -> apply "CO" (OCtlOther (zs num))
    | "CN" :: _ -> show "CN" (zi (-131))
    | "E" :: _ -> ()
    | _ -> ()) (read_lines file)

(* ---------------------------------------------------------------- packet decoder (C01/C02/C05) *)
let hex_of_f32s (l : f32 list) =
  if l = [] then "-" else begin
    let b = Buffer.create 4096 in
    List.iter (fun x -> Buffer.add_string b (Printf.sprintf "%08x" (iz (encode_b32 x)))) l;
    Buffer.contents b end
let pd file =
  let hs = ref h_init and ds : dsetup option ref = ref None and dec = ref None and half = ref 0 and seqno = ref 0 in
  let cfg_of (i : ident) = { bs0 = i.i_bs0; bs1 = i.i_bs1; hs = zi !half } in
  let hv = function HOk -> "OK" | HNotVorbis -> "ENOTVORBIS" | HBadHeader -> "EBADHEADER" | HVersion -> "EVERSION" | HFault -> "EFAULT" in
  List.iter (fun line ->
    match split line with
    | "case" :: k :: _ -> hs := h_init; ds := None; dec := None; half := 0; seqno := 0; Printf.printf "case %s\n" k
    | ["end"] -> ()
    | ["hdr"; bos; h] ->
        let (v, s') = headerin !hs (bos = "1") (bytes_of_hex h) in
        let before = !hs in
        hs := s'; Printf.printf "hdr %s\n" (hv v);
        if v = HOk then begin
          (match before.h_ident, s'.h_ident with
           | None, Some i -> Printf.printf "ident %d %d %d %d %d %d %d\n" (iz i.i_channels) (iz i.i_rate) (iz i.i_upper) (iz i.i_nominal) (iz i.i_lower) (iz i.i_bs0) (iz i.i_bs1)
           | _ -> ());
          (match before.h_setup, s'.h_setup with
           | None, Some st ->
               Printf.printf "setup %d %d %d %d %d\n" (List.length st.s_books) (List.length st.s_floors) (List.length st.s_residues) (List.length st.s_maps) (List.length st.s_modes);
               (* re-pack what was parsed with the model of the header packers: equal bytes = the packers and the parser are inverse on this header *)
               let ch = (match s'.h_ident with Some i -> i.i_channels | None -> zi 0) in
               let has_floor0 = List.exists (function Floor0 _ -> true | _ -> false) st.s_floors in
               if not has_floor0 then
                 Printf.printf "repack %s\n" (if setup_packet ch st = bytes_of_hex h then "same" else "differs")
           | _ -> ())
        end
    | ["init"] ->
        if !ds <> None then print_endline "init skipped"
        else begin
          match !hs.h_ident, !hs.h_setup with
          | Some i, Some st ->
              (match synthesis_init i st with
               | Some d -> ds := Some d; dec := Some (dec_init (cfg_of i)); print_endline "init 0"
               | None ->
                   (* abort_books: the static books are gone; a later init fails as well *)
                   hs := { !hs with h_setup = Some { st with s_books = List.map (fun b -> { b with b_lengths = [zi 1; zi 1; zi 1] }) st.s_books } };
                   print_endline "init 1")
          | _ -> print_endline "init 1"
        end
    | (("pkt" | "trk") as op) :: h :: gran :: eos :: rest ->
        (match !ds, !dec with
         | Some d, Some dc ->
             let spec = (op = "pkt") && (match rest with x :: _ -> x = "1" | [] -> false) in
             let pkt = bytes_of_hex h in
             let o = synthesis d pkt in
             let sq = !seqno in incr seqno;
             (match o.po_verdict with
              | PNotAudio -> Printf.printf "%s ENOTAUDIO\n" op
              | PBadPacket -> Printf.printf "%s EBADPACKET\n" op
              | POk ->
                  let left = if op = "trk" then -1 else iz o.po_left in
                  Printf.printf "%s OK %d %d %d %d %d\n" op (iz o.po_mode) (iz o.po_W) (iz o.po_lW) (iz o.po_nW) left;
                  (* model-only line, on request (token "e"): does the packet end before its data does?  Decode it again with
                     zero bytes appended (always legal): if the decoder then reads beyond the original length, it was cut short *)
                  if op = "pkt" && List.mem "e" rest then begin
                    let rec zeros n = if n = 0 then [] else N0 :: zeros (n - 1) in
                    let o2 = synthesis d (pkt @ zeros 64) in
                    let len = 8 * List.length pkt in
                    let used2 = len + 512 - iz o2.po_left in
                    Printf.printf "eop %d\n" (if o2.po_verdict = POk && (iz o2.po_left < 0 || used2 > len) then 1 else 0)
                  end;
                  (* in half-rate mode the inverse MDCT (and the harness' capture) sees the lower half of the spectrum only *)
                  let rec take n l = if n = 0 then [] else (match l with x :: t -> x :: take (n - 1) t | [] -> []) in
                  let cut v = if !half = 1 then take (List.length v / 2) v else v in
                  if spec then List.iteri (fun c co ->
                    match co with
                    | CSpectrum v -> Printf.printf "ch %d %s\n" c (hex_of_f32s (cut v))
                    | CFloor0 (a, l, r) -> Printf.printf "f0 %d %d %s %s\n" c (iz a) (hex_of_f32s l) (hex_of_f32s r)) o.po_chans;
                  let c = cfg_of d.ds_ident in
                  let blk = { k_W = (iz o.po_W = 1); k_gran = zi (int_of_string gran); k_seq = zi sq; k_eof = (eos = "1"); k_pcm = (op = "pkt") } in
                  let (rc, s1) = dec_blockin c dc blk in
                  let cnt = iz (dec_pcmout s1) in
                  let cnt = if cnt < 0 then 0 else cnt in
                  let (_, s2) = dec_read s1 (zi cnt) in
                  dec := Some s2;
                  Printf.printf "cnt %d %d %d\n" (iz rc) cnt (iz s2.d_gran))
         | _ -> Printf.printf "%s skipped\n" op)
    | ["restart"] ->
        (match !ds, !dec with
         | Some d, Some dc -> dec := Some (dec_restart (cfg_of d.ds_ident) dc); seqno := 0; print_endline "restart 0"
         | _ -> print_endline "restart skipped")
    | ["half"; fl] ->
        (match !hs.h_cleared, !hs.h_ident with
         | true, _ -> Printf.printf "half -1 0\n"
         | false, i ->
             let bs0 = (match i with Some i -> iz i.i_bs0 | None -> 0) in
             if bs0 <= 64 && fl <> "0" then Printf.printf "half -1 %d\n" !half
             else begin half := (if fl <> "0" then 1 else 0); Printf.printf "half 0 %d\n" !half end)
    | ["clear"] -> ds := None; dec := None; print_endline "clear"
    | ["reinfo"] -> hs := h_init; ds := None; dec := None; half := 0; print_endline "reinfo"
    | _ -> ()) (read_lines file)

let () =
  match Array.to_list Sys.argv with
  | [_; "c14"; f] -> c14 f
  | [_; "c15"; f] -> c15 f
  | [_; "pd"; f] -> pd f
  | [_; "vf"; f] -> vfmode f
  | [_; "c17"; f] -> c17 f
  | [_; "c11"; f] -> c11 f
  | [_; "c04"; f] -> c04 f
  | [_; "c16"; f] -> c16 f
  | _ -> prerr_endline "usage: driver <mode> <cases>"; exit 2
