(* Half-rate decoding (ov_halfrate): positions stay in full-rate samples, every sample returned stands for
   two.  The development of Sync_lemmas.v / Seek_lemmas.v once more with v_hs = 1: linear reading and
   ov_pcm_seek on intact runs (lemmas for C20).  Block sizes are multiples of eight (128..8192; ov_halfrate
   refuses 64-sample blocks), so every block step is even. *)
From VV Require Import Blocking Blocking_lemmas VFile VFile_lemmas Decoder_lemmas Sync_lemmas Seek_lemmas Term_lemmas.
From Coq Require Import ZArith List Bool Lia ZifyBool.
Import ListNotations.
Local Open Scope Z_scope.
Ltac Zify.zify_post_hook ::= Z.div_mod_to_equations.

(* ---- half-rate decoding: positions stay in full-rate samples, every sample returned stands for two ---- *)
Definition SyncInvH (s : vfs) (here : Z) : Prop :=
  let l := cur_link s in let d := v_dec s in
  v_hs s = 1 /\ 0 <= li_bs0 l /\ 0 <= li_bs1 l /\ li_bs0 l mod 8 = 0 /\ li_bs1 l mod 8 = 0 /\ 0 <= li_init l /\
  d_ret d = d_cur d /\ 0 <= d_ret d /\ 0 <= d_seq d /\ d_seq d + 1 = v_pno s /\
  v_pcm s = base_of s (v_link s) + here /\ 0 <= here /\ tracking l d here.

(* ov_read_float asked for at least what is pending, half rate *)
Definition drainH (s : vfs) : Z * vfs :=
  let n := dec_pcmout (v_dec s) in
  let (_, d) := dec_read (v_dec s) n in (n, set_pcm (set_dec s d) (v_pcm s + 2 * n)).

Lemma step_even_h l a b : li_bs0 l mod 8 = 0 -> li_bs1 l mod 8 = 0 ->
  let stp := blocksize l a / 4 + blocksize l b / 4 in 2 * (stp / 2) = stp.
Proof. intros H0 H1. unfold blocksize. destruct a, b; cbv zeta; lia. Qed.

Lemma feed_drain_sync_h s here p w :
  SyncInvH s here -> intact s here p w ->
  let stp := bsz (cur_cfg s) (d_W (v_dec s)) / 4 + bsz (cur_cfg s) w / 4 in
  let '(n, s2) := drainH (feed s p w) in
  n = stp / 2 /\ SyncInvH s2 (here + stp) /\ d_W (v_dec s2) = w.
Proof.
  intros (Hhs & Hb0 & Hb1 & Hm0 & Hm1 & Hi & Hr & Hr0 & Hs1 & Hs2 & Hpcm & Hh & Ht) (He & Hg) stp.
  set (c := cur_cfg s) in *. set (d := v_dec s) in *. set (l := cur_link s) in *.
  assert (hs c = 1) as Hhc by (unfold c, cur_cfg, cfg_of; cbn; exact Hhs).
  assert (0 <= stp /\ 2 * (stp / 2) = stp) as (Hst & Hev).
  { unfold stp, bsz, c, cur_cfg, cfg_of. cbn [bs0 bs1]. fold l. destruct (d_W d), w; lia. }
  set (b := {| k_W := w; k_gran := pk_gran p; k_seq := v_pno s; k_eof := pk_eos p; k_pcm := true |}).
  destruct (blockin_no_trim c d b) as (d' & Eb & Hout & Hret & HW & Hsq & Hcnt & Hgrn & Hret0).
  - unfold c, cur_cfg, cfg_of; cbn; exact Hb0.
  - unfold c, cur_cfg, cfg_of; cbn; exact Hb1.
  - lia.
  - reflexivity.
  - exact Hr.
  - exact Hr0.
  - exact He.
  - unfold b. cbn [k_gran k_seq k_W]. fold c d stp.
    destruct ((d_seq d =? -1) || negb (d_seq d + 1 =? v_pno s)) eqn:El; [lia|].
    destruct Hg as [Hg|Hg]; [left; exact Hg|right].
    destruct Ht as [[Hgd Hc]|Hgd].
    + left. split; [exact Hgd|]. destruct (d_count d =? -1) eqn:Ec; lia.
    + right. split; lia.
  - unfold b in Hout, HW, Hsq, Hcnt, Hgrn. cbn [k_W k_gran k_seq] in Hout, HW, Hsq, Hcnt, Hgrn. fold c d stp in Hout, Hcnt, Hgrn.
    rewrite Hhc, Z.shiftr_div_pow2 in Hout by lia. change (2 ^ 1) with 2 in Hout.
    assert (dec_pcmout d' = stp / 2) as Hout' by (destruct (0 <? stp / 2) eqn:E; lia).
    destruct ((d_seq d =? -1) || negb (d_seq d + 1 =? v_pno s)) eqn:El; [lia|].
    unfold feed, process_audio. fold c d b. rewrite Eb.
    set (s1 := if negb (pk_gran p =? -1) && negb (pk_eos p) then _ else set_dec s d').
    assert (v_pcm s1 = v_pcm s /\ v_dec s1 = d' /\ v_link s1 = v_link s /\ v_links s1 = v_links s /\ v_hs s1 = v_hs s) as (P1 & P2 & P3 & P4 & P5).
    { unfold s1. destruct (negb (pk_gran p =? -1) && negb (pk_eos p)) eqn:Eg; cbn; repeat split; try reflexivity.
      rewrite Hout', Hhs, Z.shiftl_mul_pow2 by lia. change (2 ^ 1) with 2. destruct Hg as [Hg|Hg]; [lia|]. fold l. rewrite Hg. fold stp.
      destruct (li_init l + here + stp - li_init l <? 0) eqn:E; [lia|]. destruct (li_init l + here + stp - li_init l - stp / 2 * 2 <? 0) eqn:E2; lia. }
    unfold drainH. cbn [v_dec v_pcm set_q]. rewrite P2.
    unfold dec_read. rewrite Hout'.
    destruct (negb (stp / 2 =? 0) && (d_ret d' + stp / 2 >? d_cur d')) eqn:Er; [lia|].
    split; [reflexivity|]. split; [|cbn; exact HW].
    unfold SyncInvH, cur_link, nth_link, base_of. cbn [v_hs v_dec v_pno v_pcm v_link v_links set_pcm set_dec set_q d_ret d_cur d_seq d_gran d_count d_W].
    rewrite P1, P3, P4, P5. fold (nth_link s (v_link s)). fold (cur_link s). fold l. fold (base_of s (v_link s)).
    repeat split; try assumption; try lia.
    unfold tracking. cbn [d_gran d_count].
    destruct Hg as [Hg|Hg].
    + destruct Ht as [[Hgd Hc]|Hgd].
      * left. rewrite Hgrn, Hgd. cbn [Z.eqb]. split; [exact Hg|]. rewrite Hcnt. destruct (d_count d =? -1) eqn:Ec; lia.
      * right. rewrite Hgrn. destruct (d_gran d =? -1) eqn:Eq; lia.
    + fold stp in Hg. right. rewrite Hgrn. destruct (d_gran d =? -1) eqn:Eq; [lia|].
      destruct Ht as [[Hgd Hc]|Hgd]; lia.
Qed.


Fixpoint run_link_h (s : vfs) (ps : list (pkt * bool)) : vfs * list Z :=
  match ps with
  | [] => (s, [])
  | (p, w) :: r => let '(n, s2) := drainH (feed s p w) in
                   let '(s3, ns) := run_link_h s2 r in (s3, n :: ns)
  end.
Fixpoint intact_seq_h (s : vfs) (here : Z) (ps : list (pkt * bool)) : Prop :=
  match ps with
  | [] => True
  | (p, w) :: r =>
      intact s here p w /\
      intact_seq_h (snd (drainH (feed s p w))) (here + (bsz (cur_cfg s) (d_W (v_dec s)) / 4 + bsz (cur_cfg s) w / 4)) r
  end.

Lemma feed_drain_tables_h s p w :
  v_links (snd (drainH (feed s p w))) = v_links s /\ v_link (snd (drainH (feed s p w))) = v_link s.
Proof.
  unfold drainH, feed, process_audio.
  destruct (dec_blockin (cur_cfg s) (v_dec s) _) as [y d1].
  destruct (negb (pk_gran p =? -1) && negb (pk_eos p)); cbn [v_dec set_q set_pcm set_dec];
    match goal with |- context [dec_read ?a ?b] => destruct (dec_read a b) as [x d0] end; cbn; split; reflexivity.
Qed.

(* half rate, any number of intact packets: each delivers half its block step, the position advances by two per
   sample delivered, and the handle stays in sync *)
Theorem linear_read_sync_h : forall ps s here,
  SyncInvH s here -> intact_seq_h s here ps ->
  let '(s', ns) := run_link_h s ps in
  let total := fold_right Z.add 0 ns in
  SyncInvH s' (here + 2 * total) /\ v_pcm s' = v_pcm s + 2 * total /\ Forall (fun n => 0 <= n) ns.
Proof.
  induction ps as [|pw r IH]; intros s here Hinv Hseq; [|destruct pw as [p w]]; cbn [run_link_h intact_seq_h] in *.
  - cbn. rewrite !Z.add_0_r. split; [exact Hinv|]. split; [reflexivity|constructor].
  - destruct Hseq as [Hi Hr].
    pose proof (feed_drain_sync_h s here p w Hinv Hi) as Hstep.
    destruct (drainH (feed s p w)) as [n s2] eqn:Ed. destruct Hstep as (Hn & Hinv2 & HW).
    cbn [snd] in Hr. specialize (IH s2 _ Hinv2 Hr).
    destruct (run_link_h s2 r) as [s3 ns]. cbn [fold_right].
    destruct IH as (A & B & C).
    set (stp := bsz (cur_cfg s) (d_W (v_dec s)) / 4 + bsz (cur_cfg s) w / 4) in *.
    assert (0 <= stp /\ 2 * (stp / 2) = stp) as (Hst & Hev).
    { destruct Hinv as (_ & Hb0 & Hb1 & Hm0 & Hm1 & _). unfold stp, bsz, cur_cfg, cfg_of. cbn [bs0 bs1].
      destruct (d_W (v_dec s)), w; lia. }
    assert (v_pcm s2 = v_pcm s + stp) as Hp2.
    { destruct Hinv as (_ & _ & _ & _ & _ & _ & _ & _ & _ & _ & Hpc & _). destruct Hinv2 as (_ & _ & _ & _ & _ & _ & _ & _ & _ & _ & Hpc2 & _).
      assert (base_of s2 (v_link s2) = base_of s (v_link s)) as Hb.
      { pose proof (feed_drain_tables_h s p w) as [T1 T2]. rewrite Ed in T1, T2. cbn [snd] in T1, T2. unfold base_of. rewrite T1, T2. reflexivity. }
      rewrite Hb in Hpc2. lia. }
    split; [replace (here + 2 * (n + fold_right Z.add 0 ns)) with (here + stp + 2 * fold_right Z.add 0 ns) by lia; exact A|].
    split; [lia|constructor; [lia|assumption]].
Qed.


Lemma blockin_quiet_h c s b :
  0 <= bs0 c -> 0 <= bs1 c -> 0 <= hs c ->
  d_ret s = -1 -> k_eof b = false ->
  let stp := bsz c (d_W s) / 4 + bsz c (k_W b) / 4 in
  let lost := (d_seq s =? -1) || negb (d_seq s + 1 =? k_seq b) in
  let gran0 := if lost then -1 else d_gran s in
  let count0 := if lost then -1 else d_count s in
  let count1 := if count0 =? -1 then 0 else count0 + stp in
  (k_gran b = -1 \/ (gran0 = -1 /\ count1 <= k_gran b) \/ (gran0 <> -1 /\ gran0 + stp = k_gran b)) ->
  exists s', dec_blockin c s b = (0, s') /\ dec_pcmout s' = 0 /\
     (if k_pcm b then d_ret s' = d_cur s' /\ 0 <= d_ret s' else d_ret s' = -1) /\
     d_W s' = k_W b /\ d_seq s' = k_seq b /\ d_count s' = count1 /\
     d_gran s' = (if gran0 =? -1 then k_gran b else gran0 + stp).
Proof.
  intros Hb0 Hb1 Hhs Hr He stp lost gran0 count0 count1 Hg.
  unfold dec_blockin. rewrite Hr.
  replace ((d_cur s >? -1) && negb (-1 =? -1)) with false by (cbn; rewrite andb_false_r; reflexivity).
  unfold dec_pcmpart. rewrite Hr. cbn [Z.eqb].
  fold stp. fold lost. fold gran0. fold count0. fold count1.
  set (n1 := Z.shiftr (bs1 c) (hs c + 1)).
  assert (0 <= n1) as Hn1 by (apply Z.shiftr_nonneg; exact Hb1).
  set (thisC := if d_centerW s =? 0 then 0 else n1).
  assert (0 <= thisC) as HtC by (unfold thisC; destruct (d_centerW s =? 0); lia).
  destruct (k_pcm b) eqn:Ep.
  - assert (dec_granule (hs c) gran0 count1 stp b thisC thisC = (if gran0 =? -1 then k_gran b else gran0 + stp, thisC, thisC)) as Hdg.
    { unfold dec_granule. destruct (gran0 =? -1) eqn:Eg.
      - destruct (negb (k_gran b =? -1)) eqn:Ek.
        + rewrite Ep. unfold trim_first. destruct (count1 >? k_gran b) eqn:Ec; [lia|reflexivity].
        + f_equal. f_equal. lia.
      - destruct (negb (k_gran b =? -1) && negb (gran0 + stp =? k_gran b)) eqn:Ek; [lia|reflexivity]. }
    cbn [Pos.eqb]. rewrite Hdg. eexists. split; [reflexivity|].
    unfold dec_pcmout. cbn [d_ret d_cur d_W d_seq d_count d_gran].
    destruct ((thisC >? -1) && (thisC <? thisC)) eqn:E2; [lia|]. repeat split; try reflexivity; lia.
  - assert (dec_granule (hs c) gran0 count1 stp b (-1) (d_cur s) = (if gran0 =? -1 then k_gran b else gran0 + stp, -1, d_cur s)) as Hdg.
    { unfold dec_granule. destruct (gran0 =? -1) eqn:Eg.
      - destruct (negb (k_gran b =? -1)) eqn:Ek.
        + rewrite Ep. reflexivity.
        + f_equal. f_equal. lia.
      - destruct (negb (k_gran b =? -1) && negb (gran0 + stp =? k_gran b)) eqn:Ek; [lia|reflexivity]. }
    rewrite Hdg. eexists. split; [reflexivity|].
    unfold dec_pcmout. cbn [d_ret d_cur d_W d_seq d_count d_gran]. cbn. repeat split; reflexivity.
Qed.

(* static facts about the current link, half rate: block sizes are multiples of eight *)
Definition CoreH (s : vfs) : Prop :=
  let l := cur_link s in
  v_hs s = 1 /\ v_rs s = INITSET /\ 0 < li_bs0 l /\ 0 < li_bs1 l /\ li_bs0 l <= li_bs1 l /\
  li_bs0 l mod 8 = 0 /\ li_bs1 l mod 8 = 0 /\ 0 <= li_init l /\ 0 <= v_pno s.

Lemma view_core_h s t : view s = view t -> CoreH s -> CoreH t.
Proof.
  unfold view, CoreH, cur_link, nth_link. intros H. injection H as H1 H2 H3 H4 H5 H6 H7 H8.
  rewrite H1, H2, H3, H5, H7. tauto.
Qed.

Lemma feed_presync_h s e p w :
  CoreH s -> PreSync s e p w ->
  let s' := feed s p w in
  SyncInvH s' e /\ dec_pcmout (v_dec s') = 0 /\ d_W (v_dec s') = w.
Proof.
  intros (Hhs & Hrs & Hb0 & Hb1 & Hb01 & Hm0 & Hm1 & Hi & Hpno) (Hr & Hpcm & He0 & Heos & Hg & Hph).
  set (c := cur_cfg s) in *. set (d := v_dec s) in *. set (l := cur_link s) in *.
  assert (hs c = 1) as Hhc by (unfold c, cur_cfg, cfg_of; cbn; exact Hhs).
  set (b := {| k_W := w; k_gran := pk_gran p; k_seq := v_pno s; k_eof := pk_eos p; k_pcm := true |}).
  set (stp := bsz c (d_W d) / 4 + bsz c w / 4) in *.
  destruct (blockin_quiet_h c d b) as (d' & Eb & Hout & Hret & HW & Hsq & Hcnt & Hgrn).
  - unfold c, cur_cfg, cfg_of; cbn; fold l; lia.
  - unfold c, cur_cfg, cfg_of; cbn; fold l; lia.
  - lia.
  - exact Hr.
  - exact Heos.
  - unfold b. cbn [k_gran k_seq k_W]. fold stp.
    destruct Hg as [Hg|Hg]; [left; exact Hg|right].
    destruct Hph as [Hf|(Hs0 & Hs1 & Hst & Ht)].
    + left. rewrite Hf. cbn. split; [reflexivity|lia].
    + destruct ((d_seq d =? -1) || negb (d_seq d + 1 =? v_pno s)) eqn:El; [lia|].
      destruct Ht as [[Hgd Hc]|Hgd].
      * left. split; [exact Hgd|]. destruct (d_count d =? -1) eqn:Ec; lia.
      * right. split; lia.
  - unfold b in Hret, HW, Hsq, Hcnt, Hgrn. cbn [k_W k_gran k_seq k_pcm] in Hret, HW, Hsq, Hcnt, Hgrn. fold stp in Hcnt, Hgrn.
    destruct Hret as [Hret Hret0].
    unfold feed, process_audio. fold c d b. rewrite Eb.
    set (s1 := if negb (pk_gran p =? -1) && negb (pk_eos p) then _ else set_dec s d').
    assert (v_pcm s1 = v_pcm s /\ v_dec s1 = d' /\ v_link s1 = v_link s /\ v_links s1 = v_links s /\ v_hs s1 = v_hs s) as (P1 & P2 & P3 & P4 & P5).
    { unfold s1. destruct (negb (pk_gran p =? -1) && negb (pk_eos p)) eqn:Eg; cbn; repeat split; try reflexivity.
      rewrite Hout, Hhs. change (Z.shiftl 0 1) with 0. destruct Hg as [Hg|Hg]; [lia|]. fold l. rewrite Hg.
      destruct (li_init l + e - li_init l <? 0) eqn:E; [lia|]. destruct (li_init l + e - li_init l - 0 <? 0) eqn:E2; lia. }
    cbn [v_dec set_q]. rewrite P2. split; [|split; [exact Hout|exact HW]].
    unfold SyncInvH, cur_link, nth_link, base_of. cbn [v_hs v_dec v_pno v_pcm v_link v_links set_q].
    rewrite P1, P2, P3, P4, P5. fold (nth_link s (v_link s)). fold (cur_link s). fold l. fold (base_of s (v_link s)).
    repeat split; try assumption; try lia.
    unfold tracking. rewrite Hgrn, Hcnt.
    destruct Hph as [Hf|(Hs0 & Hs1 & Hst & Ht)].
    + rewrite Hf. cbn. destruct Hg as [Hg|Hg]; [left; split; [exact Hg|lia]|right; exact Hg].
    + destruct ((d_seq d =? -1) || negb (d_seq d + 1 =? v_pno s)) eqn:El; [lia|].
      destruct Ht as [[Hgd Hc]|Hgd].
      * rewrite Hgd. cbn [Z.eqb]. destruct Hg as [Hg|Hg]; [left; split; [exact Hg|]|right; exact Hg].
        destruct (d_count d =? -1) eqn:Ec; lia.
      * right. destruct (d_gran d =? -1) eqn:Eq; lia.
Qed.

Lemma presync_blockin_h s e p w (pcmflag : bool) :
  CoreH s -> PreSync s e p w ->
  exists d', dec_blockin (cur_cfg s) (v_dec s)
               {| k_W := w; k_gran := pk_gran p; k_seq := v_pno s; k_eof := pk_eos p; k_pcm := pcmflag |} = (0, d') /\
     dec_pcmout d' = 0 /\ (if pcmflag then d_ret d' = d_cur d' /\ 0 <= d_ret d' else d_ret d' = -1) /\
     d_W d' = w /\ d_seq d' = v_pno s /\ tracking (cur_link s) d' e.
Proof.
  intros (Hhs & Hrs & Hb0 & Hb1 & Hb01 & Hm0 & Hm1 & Hi & Hpno) (Hr & Hpcm & He0 & Heos & Hg & Hph).
  set (c := cur_cfg s) in *. set (d := v_dec s) in *. set (l := cur_link s) in *.
  assert (hs c = 1) as Hhc by (unfold c, cur_cfg, cfg_of; cbn; exact Hhs).
  set (b := {| k_W := w; k_gran := pk_gran p; k_seq := v_pno s; k_eof := pk_eos p; k_pcm := pcmflag |}).
  set (stp := bsz c (d_W d) / 4 + bsz c w / 4) in *.
  destruct (blockin_quiet_h c d b) as (d' & Eb & Hout & Hret & HW & Hsq & Hcnt & Hgrn).
  - unfold c, cur_cfg, cfg_of; cbn; fold l; lia.
  - unfold c, cur_cfg, cfg_of; cbn; fold l; lia.
  - lia.
  - exact Hr.
  - exact Heos.
  - unfold b. cbn [k_gran k_seq k_W]. fold stp.
    destruct Hg as [Hg|Hg]; [left; exact Hg|right].
    destruct Hph as [Hf|(Hs0 & Hs1 & Hst & Ht)].
    + left. rewrite Hf. cbn. split; [reflexivity|lia].
    + destruct ((d_seq d =? -1) || negb (d_seq d + 1 =? v_pno s)) eqn:El; [lia|].
      destruct Ht as [[Hgd Hc]|Hgd].
      * left. split; [exact Hgd|]. destruct (d_count d =? -1) eqn:Ec; lia.
      * right. split; lia.
  - unfold b in Hret, HW, Hsq, Hcnt, Hgrn. cbn [k_W k_gran k_seq k_pcm] in Hret, HW, Hsq, Hcnt, Hgrn. fold stp in Hcnt, Hgrn.
    exists d'. split; [exact Eb|]. split; [exact Hout|]. split; [exact Hret|]. split; [exact HW|]. split; [exact Hsq|].
    unfold tracking. rewrite Hgrn, Hcnt.
    destruct Hph as [Hf|(Hs0 & Hs1 & Hst & Ht)].
    + rewrite Hf. cbn. destruct Hg as [Hg|Hg]; [left; split; [exact Hg|lia]|right; exact Hg].
    + destruct ((d_seq d =? -1) || negb (d_seq d + 1 =? v_pno s)) eqn:El; [lia|].
      destruct Ht as [[Hgd Hc]|Hgd].
      * rewrite Hgd. cbn [Z.eqb]. destruct Hg as [Hg|Hg]; [left; split; [exact Hg|]|right; exact Hg].
        destruct (d_count d =? -1) eqn:Ec; lia.
      * right. destruct (d_gran d =? -1) eqn:Eq; lia.
Qed.

Section TailH.
Variable tail : list page.

Definition ReadyH (s : vfs) (pos : Z) : Prop :=
  exists p q' w e, v_q s = p :: q' /\ pk_W p = Some w /\ PreSync s e p w /\
     IntactS (cur_link s) false e w (q' ++ flat_map pg_pkts (rem1 tail s)) /\ CoreH s /\ PlainRem tail s /\
     (pos - base_of s (v_link s) <= e \/
      Reaches (cur_link s) false e w (q' ++ flat_map pg_pkts (rem1 tail s)) (pos - base_of s (v_link s))) /\
     v_pcm s <= pos.

Lemma seek_discard_ready_h : forall fuel s pos lb,
  (length (rem1 tail s) + length (stream tail s) < fuel)%nat ->
  CoreH s -> PlainRem tail s -> DPhase tail s lb pos ->
  ReadyH (seek_discard fuel s pos lb) pos.
Proof.
  induction fuel as [|f IH]; intros s pos lb Hfuel Hcore Hpl Hd; [lia|].
  cbn [seek_discard].
  destruct (v_q s) as [|p q'] eqn:Eq.
  - destruct Hpl as (Hfr & Hsplit & Hall).
    destruct (rem1 tail s) as [|pg r1] eqn:E1.
    + exfalso. destruct Hd as (_ & _ & Hph). unfold stream in Hph. rewrite Eq, E1 in Hph. cbn in Hph.
      destruct Hph as [(_ & _ & _ & F & _)|(_ & _ & _ & _ & _ & F & _)]; exact F.
    + cbn [app] in Hsplit. rewrite Hsplit.
      inversion Hall as [|x y [Hser Hbos] Hrest]; subst x y.
      rewrite Hbos.
      assert (v_rs s = INITSET) as Hrs by (destruct Hcore as (_ & H & _); exact H).
      cbn [v_rs set_rem]. rewrite Hrs. change (INITSET <? STREAMSET) with false. cbn iota.
      assert (os_pagein (set_rem s (r1 ++ tail)) pg = set_q (set_rem s (r1 ++ tail)) (pg_pkts pg) false (v_pno s)) as Hpi.
      { unfold os_pagein. cbn [v_serial set_rem v_fresh v_q v_pno]. rewrite Hser, Z.eqb_refl, Hfr, Eq. reflexivity. }
      rewrite Hpi.
      set (s1 := set_q (set_rem s (r1 ++ tail)) (pg_pkts pg) false (v_pno s)).
      assert (rem1 tail s1 = r1) as Hr1 by (apply rem1_app; reflexivity).
      assert (stream tail s1 = stream tail s) as Hst by (unfold stream; rewrite Hr1, E1, Eq; unfold s1; cbn; reflexivity).
      apply IH.
      * rewrite Hst, Hr1. cbn [length] in Hfuel. lia.
      * eapply view_core_h; [|exact Hcore]. reflexivity.
      * split; [reflexivity|]. split; [rewrite Hr1; reflexivity|rewrite Hr1; exact Hrest].
      * unfold DPhase in *. rewrite Hst. exact Hd.
  - (* a packet at the head of the queue *)
    destruct Hcore as (Hhs & Hrs & Hb0 & Hb1 & Hb01 & Hm0 & Hm1 & Hi & Hpno).
    destruct Hd as (He0 & Hret & Hph).
    set (l := cur_link s) in *. set (d := v_dec s) in *.
    set (e := v_pcm s - base_of s (v_link s)) in *.
    set (target := pos - base_of s (v_link s)) in *.
    assert (stream tail s = p :: q' ++ flat_map pg_pkts (rem1 tail s)) as Hst by (unfold stream; rewrite Eq; reflexivity).
    rewrite Hst in Hph.
    (* the head packet *)
    assert (exists w eh, pk_W p = Some w /\ pk_eos p = false /\ (pk_gran p = -1 \/ pk_gran p = li_init l + eh) /\
                         IntactS l false eh w (q' ++ flat_map pg_pkts (rem1 tail s)) /\
                         eh = (if lb =? 0 then e else e + Z.shiftr (lb + blocksize l w) 2) /\
                         (d_seq d = -1 \/ (0 <= d_seq d /\ d_seq d + 1 = v_pno s /\
                            0 <= eh - (blocksize l (d_W d) / 4 + blocksize l w / 4) /\
                            tracking l d (eh - (blocksize l (d_W d) / 4 + blocksize l w / 4)))) /\
                         (target <= eh \/ Reaches l false eh w (q' ++ flat_map pg_pkts (rem1 tail s)) target) /\
                         (if lb =? 0 then v_pcm s <= pos else v_pcm s + Z.shiftr (lb + li_bs1 l) 2 < pos))
      as (w & eh & Hw & Heos & Hg & Hrest & Heh & Hphase & Hreach & Hle).
    { destruct Hph as [(Hlb & Hsq & Hin & Hre & Hle)|(Hlb & Hs0 & Hs1 & Ht & Hin & Hre & Hle)]; cbn [IntactS] in Hin; destruct Hin as (w & Hw & Heos & Hg & Hr);
        cbn [Reaches] in Hre; rewrite Hw in Hre.
      - exists w, e. rewrite Hlb. cbn [Z.eqb]. repeat split; try assumption. left. exact Hsq.
      - assert (0 < blocksize l (d_W d)) as Hbpos by (unfold blocksize; destruct (d_W d); lia).
        exists w, (e + (blocksize l (d_W d) / 4 + blocksize l w / 4)). repeat split; try assumption.
        3: { destruct (lb =? 0) eqn:E0; [lia|exact Hle]. }
        + assert (0 < blocksize l (d_W d)) by (unfold blocksize; destruct (d_W d); lia).
          destruct (lb =? 0) eqn:E0; [lia|]. rewrite Hlb, Z.shiftr_div_pow2 by lia. change (2 ^ 2) with 4.
          assert (blocksize l (d_W d) mod 4 = 0) by (unfold blocksize; destruct (d_W d); lia).
          lia.
        + right. replace (e + (blocksize l (d_W d) / 4 + blocksize l w / 4) - (blocksize l (d_W d) / 4 + blocksize l w / 4)) with e by lia.
          repeat split; try assumption. }
    rewrite Hw. fold l.
    set (this := blocksize l w) in *.
    set (s1 := if negb (lb =? 0) then set_pcm s (v_pcm s + Z.shiftr (lb + this) 2) else s).
    assert (view s1 = (v_hs s, v_links s, v_link s, v_serial s, v_rs s, v_dec s, v_pno s, base_of s (v_link s) + eh)) as Hv1.
    { assert (v_pcm s1 = base_of s (v_link s) + eh) as Hp1 by (unfold s1; unfold e in Heh; destruct (lb =? 0) eqn:E0; cbn [negb v_pcm set_pcm]; lia).
      unfold view. rewrite Hp1. unfold s1. destruct (negb (lb =? 0)); reflexivity. }
    assert (v_q s1 = v_q s /\ v_rem s1 = v_rem s /\ v_fresh s1 = v_fresh s /\ v_pages s1 = v_pages s) as (Q1 & Q2 & Q3 & Q4)
      by (unfold s1; destruct (negb (lb =? 0)); cbn; repeat split; reflexivity).
    assert (rem1 tail s1 = rem1 tail s) as Q5 by (unfold rem1; rewrite Q2; reflexivity).
    injection Hv1 as V1 V2 V3 V4 V5 V6 V7 V8.
    assert (cur_link s1 = l) as Hl1 by (unfold cur_link, nth_link; rewrite V2, V3; reflexivity).
    assert (base_of s1 (v_link s1) = base_of s (v_link s)) as Hbase1 by (unfold base_of; rewrite V2, V3; reflexivity).
    assert (0 <= eh) as Heh0.
    { assert (0 <= Z.shiftr (lb + this) 2).
      { apply Z.shiftr_nonneg. unfold this. destruct Hph as [(Hlb & _)|(Hlb & _)]; unfold blocksize in *; destruct w, (d_W d); lia. }
      rewrite Heh. destruct (lb =? 0); [exact He0|]. unfold e in *. lia. }
    assert (CoreH s1) as Hcore1.
    { unfold CoreH. rewrite Hl1, V1, V5, V7. repeat split; assumption. }
    assert (PreSync s1 eh p w) as Hps.
    { unfold PreSync. rewrite Hl1, V6, V7, V8, Hbase1. fold d.
      unfold cur_cfg. rewrite Hl1, V1. unfold bsz, cfg_of. cbn [bs0 bs1].
      repeat split; try assumption; try lia. }
    assert (PlainRem tail s1) as Hpl1 by (unfold PlainRem; rewrite Q2, Q3, Q5, V4; exact Hpl).
    assert (v_pcm s1 <= pos) as Hle1.
    { rewrite V8. rewrite Heh. unfold e. destruct (lb =? 0) eqn:E0; [lia|].
      assert (this <= li_bs1 l) by (unfold this, blocksize; destruct w; lia).
      assert (0 <= lb + this) by (destruct Hph as [(Hlb & _)|(Hlb & _)]; unfold this, blocksize in *; destruct w, (d_W d); lia).
      rewrite Z.shiftr_div_pow2 in Hle |- * by lia. change (2 ^ 2) with 4 in *. lia. }
    cbv zeta. destruct (v_pcm s1 + Z.shiftr (this + li_bs1 l) 2 >=? pos) eqn:Estop.
    + (* stop here: hand over *)
      exists p, q', w, eh. rewrite Q1, Q5, Hl1, Hbase1. fold target. split; [exact Eq|]. split; [exact Hw|]. split; [exact Hps|]. split; [exact Hrest|].
      split; [exact Hcore1|]. split; [exact Hpl1|]. split; [exact Hreach|exact Hle1].
    + (* track this packet only and go on *)
      assert (0 <= Z.shiftr (this + li_bs1 l) 2) as Hx by (apply Z.shiftr_nonneg; unfold this, blocksize; destruct w; lia).
      assert (Reaches l false eh w (q' ++ flat_map pg_pkts (rem1 tail s)) target) as Hre2 by (destruct Hreach as [Hle'|Hre]; [unfold target in *; lia|exact Hre]).
      destruct (presync_blockin_h s1 eh p w false Hcore1 Hps) as (d' & Eb & Hout & Hret' & HW & Hsq & Htr).
      rewrite Eb. rewrite Hl1 in Htr.
      set (s2 := set_dec (set_q s1 q' (v_fresh s1) (v_pno s1 + 1)) d').
      set (s3 := if pk_gran p >? -1 then set_pcm s2 ((if pk_gran p - li_init l <? 0 then 0 else pk_gran p - li_init l) + base_of s2 (v_link s2)) else s2).
      assert (view s3 = (v_hs s, v_links s, v_link s, v_serial s, v_rs s, d', v_pno s + 1, base_of s (v_link s) + eh)) as Hv3.
      { assert (base_of s2 (v_link s2) = base_of s (v_link s)) as Hb2 by (unfold base_of, s2; cbn [v_links v_link set_dec set_q]; rewrite V2, V3; reflexivity).
        assert (v_pcm s3 = base_of s (v_link s) + eh) as Hp3.
        { unfold s3. destruct (pk_gran p >? -1) eqn:Egr.
          - cbn [v_pcm set_pcm]. rewrite Hb2. destruct Hg as [Hg|Hg]; [lia|]. rewrite Hg. destruct (li_init l + eh - li_init l <? 0) eqn:E; lia.
          - unfold s2. cbn [v_pcm set_dec set_q]. exact V8. }
        unfold view. rewrite Hp3. unfold s3, s2. destruct (pk_gran p >? -1); cbn [v_hs v_links v_link v_serial v_rs v_dec v_pno set_pcm set_dec set_q];
          rewrite V1, V2, V3, V4, V5, V7; reflexivity. }
      assert (v_q s3 = q' /\ v_rem s3 = v_rem s /\ v_fresh s3 = v_fresh s) as (R1 & R2 & R3).
      { unfold s3, s2. destruct (pk_gran p >? -1); cbn; rewrite ?Q2, ?Q3; repeat split; reflexivity. }
      assert (rem1 tail s3 = rem1 tail s) as R5 by (unfold rem1; rewrite R2; reflexivity).
      injection Hv3 as W1 W2 W3 W4 W5 W6 W7 W8.
      assert (cur_link s3 = l) as Hl3 by (unfold cur_link, nth_link; rewrite W2, W3; reflexivity).
      assert (base_of s3 (v_link s3) = base_of s (v_link s)) as Hbase3 by (unfold base_of; rewrite W2, W3; reflexivity).
      apply IH.
      * unfold stream. rewrite R1, R5. rewrite Hst in Hfuel. cbn [length] in Hfuel. lia.
      * unfold CoreH. rewrite Hl3, W1, W5, W7. repeat split; try assumption. lia.
      * unfold PlainRem. rewrite R2, R3, R5, W4. exact Hpl.
      * unfold DPhase. rewrite Hl3, W6, W7, W8, Hbase3. unfold stream. rewrite R1, R5. fold target.
        replace (base_of s (v_link s) + eh - base_of s (v_link s)) with eh by lia.
        split; [exact Heh0|]. split; [exact Hret'|]. right. rewrite HW, Hsq.
        repeat split; try assumption; try lia.
Qed.

(* a packet into a synchronised decoder, half rate: half the block step becomes pending, the position stays *)
Lemma feed_sync_pending_h s here p w :
  SyncInvH s here -> intact s here p w ->
  let stp := bsz (cur_cfg s) (d_W (v_dec s)) / 4 + bsz (cur_cfg s) w / 4 in
  let f := feed s p w in let d := v_dec f in
  0 <= d_ret d /\ d_cur d - d_ret d = stp / 2 /\ 0 <= stp /\ 2 * (stp / 2) = stp /\ d_seq d = v_pno s /\ v_pcm f = v_pcm s /\
  tracking (cur_link s) d (here + stp) /\ d_W d = w.
Proof.
  intros (Hhs & Hb0 & Hb1 & Hm0 & Hm1 & Hi & Hr & Hr0 & Hs1 & Hs2 & Hpcm & Hh & Ht) (He & Hg) stp.
  set (c := cur_cfg s) in *. set (d := v_dec s) in *. set (l := cur_link s) in *.
  assert (hs c = 1) as Hhc by (unfold c, cur_cfg, cfg_of; cbn; exact Hhs).
  assert (0 <= stp /\ 2 * (stp / 2) = stp) as (Hst & Hev).
  { unfold stp, bsz, c, cur_cfg, cfg_of. cbn [bs0 bs1]. fold l. destruct (d_W d), w; lia. }
  set (b := {| k_W := w; k_gran := pk_gran p; k_seq := v_pno s; k_eof := pk_eos p; k_pcm := true |}).
  destruct (blockin_no_trim c d b) as (d' & Eb & Hout & Hret & HW & Hsq & Hcnt & Hgrn & Hret0).
  - unfold c, cur_cfg, cfg_of; cbn; exact Hb0.
  - unfold c, cur_cfg, cfg_of; cbn; exact Hb1.
  - lia.
  - reflexivity.
  - exact Hr.
  - exact Hr0.
  - exact He.
  - unfold b. cbn [k_gran k_seq k_W]. fold c d stp.
    destruct ((d_seq d =? -1) || negb (d_seq d + 1 =? v_pno s)) eqn:El; [lia|].
    destruct Hg as [Hg|Hg]; [left; exact Hg|right].
    destruct Ht as [[Hgd Hc]|Hgd].
    + left. split; [exact Hgd|]. destruct (d_count d =? -1) eqn:Ec; lia.
    + right. split; lia.
  - unfold b in Hout, HW, Hsq, Hcnt, Hgrn. cbn [k_W k_gran k_seq] in Hout, HW, Hsq, Hcnt, Hgrn. fold c d stp in Hout, Hcnt, Hgrn.
    rewrite Hhc, Z.shiftr_div_pow2 in Hout by lia. change (2 ^ 1) with 2 in Hout.
    assert (dec_pcmout d' = stp / 2) as Hout' by (destruct (0 <? stp / 2) eqn:E; lia).
    destruct ((d_seq d =? -1) || negb (d_seq d + 1 =? v_pno s)) eqn:El; [lia|].
    intros f d0.
    assert (v_dec f = d' /\ v_pcm f = v_pcm s) as (P2 & P1).
    { unfold f, feed, process_audio. fold c d b. rewrite Eb.
      destruct (negb (pk_gran p =? -1) && negb (pk_eos p)) eqn:Eg; cbn; split; try reflexivity.
      rewrite Hout', Hhs, Z.shiftl_mul_pow2 by lia. change (2 ^ 1) with 2. destruct Hg as [Hg|Hg]; [lia|]. fold l. rewrite Hg. fold stp.
      destruct (li_init l + here + stp - li_init l <? 0) eqn:E; [lia|]. destruct (li_init l + here + stp - li_init l - stp / 2 * 2 <? 0) eqn:E2; lia. }
    unfold d0. rewrite P2, P1.
    split; [exact Hret0|]. split; [lia|]. split; [exact Hst|]. split; [exact Hev|]. split; [exact Hsq|]. split; [reflexivity|]. split; [|exact HW].
    unfold tracking.
    destruct Hg as [Hg|Hg].
    + destruct Ht as [[Hgd Hc]|Hgd].
      * left. rewrite Hgrn, Hgd. cbn [Z.eqb]. split; [exact Hg|]. rewrite Hcnt. destruct (d_count d =? -1) eqn:Ec; lia.
      * right. rewrite Hgrn. destruct (d_gran d =? -1) eqn:Eq; lia.
    + fold stp in Hg. right. rewrite Hgrn. destruct (d_gran d =? -1) eqn:Eq; [lia|].
      destruct Ht as [[Hgd Hc]|Hgd]; lia.
Qed.

(* synchronised at half rate, possibly with samples pending: they are the samples at e, e+2, ... *)
Definition NReadyH (s : vfs) (pos : Z) : Prop :=
  exists e, let l := cur_link s in let d := v_dec s in
  CoreH s /\ PlainRem tail s /\ 0 <= d_ret d /\ d_ret d <= d_cur d /\ 0 <= d_seq d /\ d_seq d + 1 = v_pno s /\
  v_pcm s = base_of s (v_link s) + e /\ 0 <= e /\ tracking l d (e + 2 * (d_cur d - d_ret d)) /\
  IntactS l false (e + 2 * (d_cur d - d_ret d)) (d_W d) (stream tail s) /\
  (pos - base_of s (v_link s) <= e + 2 * (d_cur d - d_ret d) \/
   Reaches l false (e + 2 * (d_cur d - d_ret d)) (d_W d) (stream tail s) (pos - base_of s (v_link s))) /\
  v_pcm s <= pos.
Definition TruthfulH (s : vfs) (pos : Z) : Prop := ReadyH s pos \/ NReadyH s pos.

Lemma core_feed_h s p w : CoreH s -> CoreH (feed s p w).
Proof.
  intros H. destruct (feed_fields s p w) as (_ & _ & _ & _ & F5 & F6 & F7 & F8 & F9 & _).
  unfold CoreH, cur_link, nth_link in *. rewrite F5, F6, F7, F8, F9.
  destruct H as (A & B & C & D & E & F & G & I & J). repeat split; try assumption. lia.
Qed.


Lemma plain_feed_t s p w : PlainRem tail s -> PlainRem tail (feed s p w).
Proof. apply plain_feed. Qed.

Lemma half_floor pos : Z.shiftl (Z.shiftr pos 1) 1 = 2 * (pos / 2).
Proof. rewrite Z.shiftr_div_pow2, Z.shiftl_mul_pow2 by lia. change (2 ^ 1) with 2. lia. Qed.

(* the sample-discarding loop of ov_pcm_seek at half rate keeps the position truthful *)
Lemma seek_skip_truthful_h : forall fuel s pos,
  (length (stream tail s) + (if ((v_pcm s <? 2 * (pos / 2)) && (0 <? (pos - v_pcm s) / 2))%Z then 2 else 1) <= fuel)%nat ->
  TruthfulH s pos -> TruthfulH (seek_skip fuel s pos) pos /\ pos - 2 < v_pcm (seek_skip fuel s pos).
Proof.
  induction fuel as [|f IH]; intros s pos Hfuel HT; [destruct ((v_pcm s <? 2 * (pos / 2)) && (0 <? (pos - v_pcm s) / 2)); lia|].
  assert (CoreH s) as Hcore by (destruct HT as [(p & q' & w & e & _ & _ & _ & _ & H & _)|(e & H & _)]; exact H).
  assert (PlainRem tail s) as Hpl by (destruct HT as [(p & q' & w & e & _ & _ & _ & _ & _ & H & _)|(e & _ & H & _)]; exact H).
  pose proof Hcore as (Hhs & Hrs & Hb0 & Hb1 & Hb01 & Hm0 & Hm1 & Hi & Hpno).
  cbn [seek_skip]. cbv zeta. rewrite Hhs, half_floor, Hrs. change (INITSET =? INITSET) with true. cbv iota.
  rewrite !Z.shiftr_div_pow2 by lia. change (2 ^ 1) with 2.
  destruct (v_pcm s <? 2 * (pos / 2)) eqn:Elt; [|split; [exact HT|lia]].
  destruct ((pos - v_pcm s) / 2 <=? 0) eqn:Et; [split; [exact HT|lia]|].
  assert ((0 <? (pos - v_pcm s) / 2) = true) as Htp by lia. rewrite Htp in Hfuel. cbn [andb] in Hfuel.
  set (target := (pos - v_pcm s) / 2) in *.
  destruct HT as [(p & q' & w & e & Eq & Hw & Hps & Hin & _ & _ & Hreach & Hle)|(e & _ & _ & Hr0 & Hrc & Hs0 & Hs1 & Hpcm & He0 & Htr & Hin & Hreach & Hle)].
  - (* quiet decoder: nothing to discard yet, take the next packet *)
    set (d := v_dec s) in *. set (l := cur_link s) in *.
    pose proof Hps as (Hret & Hpcm & _).
    assert (dec_pcmout d = 0) as Hout by (unfold dec_pcmout; fold d in Hret; rewrite Hret; reflexivity).
    rewrite Hout. destruct (0 >? target) eqn:E1; [lia|].
    rewrite dec_read_zero. change (Z.shiftl 0 1) with 0.
    set (s1 := set_pcm (set_dec s d) (v_pcm s + 0)).
    assert (view s1 = view s) as Hv1 by (unfold view, s1; cbn; rewrite Z.add_0_r; reflexivity).
    destruct (0 <? target) eqn:E2; [|lia].
    assert (rem1 tail s1 = rem1 tail s) as Hr1 by reflexivity.
    assert (stream tail s1 = p :: q' ++ flat_map pg_pkts (rem1 tail s)) as Hst1 by (unfold stream; rewrite Hr1; unfold s1; cbn; rewrite Eq; reflexivity).
    assert (PlainRem tail s1) as Hpl1 by exact Hpl.
    assert (Forall audio (stream tail s1)) as Hau.
    { rewrite Hst1. constructor; [exists w; exact Hw|]. eapply intact_audio. exact Hin. }
    destruct (fetch_plain tail (fetch_fuel s1) s1 p (q' ++ flat_map pg_pkts (rem1 tail s)) Hrs Hpl1 Hau) as (w' & s0 & Hw' & Hfe & Hv0 & Hst0 & Hpl0);
      [unfold fetch_fuel; destruct (stream_bound tail s1 Hpl1) as [B1 B2]; lia|exact Hst1|].
    rewrite Hw in Hw'. injection Hw' as <-. rewrite Hfe. change (1 <=? 0) with false. cbv iota.
    rewrite Hv1 in Hv0.
    assert (CoreH s0) as Hc0 by (eapply view_core_h; [symmetry; exact Hv0|exact Hcore]).
    assert (PreSync s0 e p w) as Hps0 by (eapply view_presync; [symmetry; exact Hv0|exact Hps]).
    destruct (feed_presync_h s0 e p w Hc0 Hps0) as (Hsync & Hout' & HW').
    destruct (view_link _ _ Hv0) as (L1 & L2 & _).
    destruct (link_feed s0 p w) as (L3 & L4).
    apply IH.
    + rewrite (stream_feed tail), Hst0. assert (stream tail s = p :: q' ++ flat_map pg_pkts (rem1 tail s)) as Hst by (unfold stream; rewrite Eq; reflexivity).
      rewrite Hst in Hfuel. cbn [length] in Hfuel. destruct ((v_pcm (feed s0 p w) <? 2 * (pos / 2)) && (0 <? (pos - v_pcm (feed s0 p w)) / 2)); lia.
    + right. exists e. cbv zeta. rewrite L3, L4, L1, L2, (stream_feed tail), Hst0.
      destruct Hsync as (_ & _ & _ & _ & _ & _ & S5 & S6 & S7 & S8 & S9 & S10 & S11).
      rewrite L3, L1 in S11. rewrite L4, L2 in S9.
      split; [apply core_feed_h; exact Hc0|]. split; [apply plain_feed; exact Hpl0|].
      rewrite S5. replace (e + 2 * (d_cur (v_dec (feed s0 p w)) - d_cur (v_dec (feed s0 p w)))) with e by lia.
      rewrite HW'. rewrite <- S5. fold l. fold l in S11.
      split; [exact S6|]. split; [lia|]. split; [exact S7|]. split; [exact S8|]. split; [exact S9|]. split; [exact S10|]. split; [exact S11|].
      split; [exact Hin|]. split; [right; destruct Hreach as [Hle'|Hre]; [lia|exact Hre]|].
      destruct (view_link _ _ Hv0) as (_ & _ & _ & _ & _ & L8 & _). rewrite S9, <- L2. lia.
  - (* samples pending: discard up to the target *)
    cbv zeta in Hin, Htr, Hreach. set (d := v_dec s) in *. set (l := cur_link s) in *.
    set (n := d_cur d - d_ret d) in *.
    assert (dec_pcmout d = n) as Hout.
    { unfold dec_pcmout, n. destruct ((d_ret d >? -1) && (d_ret d <? d_cur d)) eqn:E; lia. }
    rewrite Hout.
    set (samples := if n >? target then target else n).
    assert (0 <= samples /\ samples <= n /\ samples <= target) as (Hs_0 & Hs_n & Hs_t) by (unfold samples; destruct (n >? target) eqn:E; unfold n in *; lia).
    assert (dec_read d samples = (0, {| d_lW := d_lW d; d_W := d_W d; d_centerW := d_centerW d; d_cur := d_cur d; d_ret := d_ret d + samples;
              d_gran := d_gran d; d_seq := d_seq d; d_count := d_count d; d_eof := d_eof d; d_fresh := d_fresh d |})) as Hrd.
    { unfold dec_read. destruct (negb (samples =? 0) && (d_ret d + samples >? d_cur d)) eqn:E; [lia|reflexivity]. }
    rewrite Hrd. set (d1 := {| d_lW := d_lW d; d_ret := d_ret d + samples |}) in *.
    rewrite Z.shiftl_mul_pow2 by lia. change (2 ^ 1) with 2.
    set (s1 := set_pcm (set_dec s d1) (v_pcm s + samples * 2)).
    assert (CoreH s1) as Hc1 by exact Hcore.
    assert (PlainRem tail s1) as Hpl1 by exact Hpl.
    assert (stream tail s1 = stream tail s) as Hst1 by reflexivity.
    assert (2 * target <= pos - v_pcm s) as H2t by (unfold target; lia).
    destruct (samples <? target) eqn:Ecmp.
    + (* everything pending is discarded; next packet *)
      assert (samples = n) as Hsn by (unfold samples in *; destruct (n >? target) eqn:E; lia).
      assert (Reaches l false (e + 2 * n) (d_W d) (stream tail s) (pos - base_of s (v_link s))) as Hre by (destruct Hreach as [Hle'|Hre]; [lia|exact Hre]).
      destruct (stream tail s) as [|p r] eqn:Est; [exfalso; exact Hre|].
      cbn [IntactS] in Hin. destruct Hin as (w & Hw & Heos & Hg & Hrest).
      cbn [Reaches] in Hre. rewrite Hw in Hre.
      assert (Forall audio (stream tail s1)) as Hau.
      { rewrite Hst1. constructor; [exists w; exact Hw|]. eapply intact_audio. exact Hrest. }
      destruct (fetch_plain tail (fetch_fuel s1) s1 p r Hrs Hpl1 Hau) as (w' & s0 & Hw' & Hfe & Hv0 & Hst0 & Hpl0);
        [unfold fetch_fuel; destruct (stream_bound tail s1 Hpl1) as [B1 B2]; lia|exact Hst1|].
      rewrite Hw in Hw'. injection Hw' as <-. rewrite Hfe. change (1 <=? 0) with false. cbv iota.
      assert (CoreH s0) as Hc0 by (eapply view_core_h; [symmetry; exact Hv0|exact Hc1]).
      destruct (view_link _ _ Hv0) as (L1 & L2 & L5 & L6 & L7 & L8 & _).
      change (cur_link s1) with l in L1. change (base_of s1 (v_link s1)) with (base_of s (v_link s)) in L2.
      change (cur_cfg s1) with (cur_cfg s) in L5. change (v_dec s1) with d1 in L6. change (v_pno s1) with (v_pno s) in L7.
      change (v_pcm s1) with (v_pcm s + samples * 2) in L8.
      assert (SyncInvH s0 (e + 2 * n)) as Hsy.
      { unfold SyncInvH. rewrite L1, L2, L6, L7, L8. destruct Hc0 as (A & _). rewrite A. unfold d1. cbn [d_ret d_cur d_seq d_gran d_count].
        repeat split; try lia. unfold tracking in *. cbn [d_gran d_count]. exact Htr. }
      assert (intact s0 (e + 2 * n) p w) as Hint.
      { unfold intact. rewrite L5, L6, L1. unfold d1. cbn [d_W]. rewrite !bsz_blocksize. fold l. split; [exact Heos|].
        destruct Hg as [Hg|Hg]; [left; exact Hg|right]. lia. }
      pose proof (feed_sync_pending_h s0 (e + 2 * n) p w Hsy Hint) as Hfs. cbv zeta in Hfs.
      rewrite L5, L6, L1, L8 in Hfs. change (d_W d1) with (d_W d) in Hfs. rewrite !bsz_blocksize in Hfs. fold l in Hfs.
      set (stp := blocksize l (d_W d) / 4 + blocksize l w / 4) in *.
      destruct Hfs as (G1 & G2 & G3 & G3' & G4 & G5 & G6 & G7).
      destruct (link_feed s0 p w) as (L3 & L4).
      apply IH.
      * rewrite (stream_feed tail), Hst0. cbn [length] in Hfuel. destruct ((v_pcm (feed s0 p w) <? 2 * (pos / 2)) && (0 <? (pos - v_pcm (feed s0 p w)) / 2)); lia.
      * right. exists (e + 2 * n). cbv zeta. rewrite L3, L4, L1, L2, (stream_feed tail), Hst0, G2, G7.
        split; [apply core_feed_h; exact Hc0|]. split; [apply plain_feed; exact Hpl0|].
        destruct (feed_fields s0 p w) as (_ & _ & _ & _ & _ & _ & _ & _ & F9 & _).
        rewrite F9, G4, G5, L7.
        replace (e + 2 * n + 2 * (stp / 2)) with (e + 2 * n + stp) by lia.
        repeat split; try assumption; try lia.
    + (* the target lies inside what is pending *)
      apply IH.
      * rewrite Hst1. change (v_pcm s1) with (v_pcm s + samples * 2).
        assert (samples = target) by lia.
        assert ((0 <? (pos - (v_pcm s + samples * 2)) / 2) = false) as -> by lia. rewrite andb_false_r. lia.
      * right. exists (e + 2 * samples). cbv zeta.
        change (cur_link s1) with l. change (v_dec s1) with d1. change (base_of s1 (v_link s1)) with (base_of s (v_link s)).
        change (v_pno s1) with (v_pno s). change (v_pcm s1) with (v_pcm s + samples * 2). rewrite Hst1.
        unfold d1. cbn [d_ret d_cur d_seq d_W].
        replace (e + 2 * samples + 2 * (d_cur d - (d_ret d + samples))) with (e + 2 * n) by lia.
        split; [exact Hc1|]. split; [exact Hpl1|]. repeat split; try assumption; try lia.
Qed.
Definition LandedH (s1 : vfs) (pos : Z) : Prop :=
  let l := cur_link s1 in let e := v_pcm s1 - base_of s1 (v_link s1) in
  v_hs s1 = 1 /\
  (v_rs s1 = STREAMSET \/ (v_rs s1 = INITSET /\ d_ret (v_dec s1) = -1 /\ d_seq (v_dec s1) = -1)) /\
  0 < li_bs0 l /\ 0 < li_bs1 l /\ li_bs0 l <= li_bs1 l /\ li_bs0 l mod 8 = 0 /\ li_bs1 l mod 8 = 0 /\
  0 <= li_init l /\ 0 <= v_pno s1 /\ PlainRem tail s1 /\ 0 <= e /\ IntactS l true e false (stream tail s1) /\
  Reaches l true e false (stream tail s1) (pos - base_of s1 (v_link s1)) /\ v_pcm s1 <= pos.

Lemma landed_ready_h s1 pos : LandedH s1 pos ->
  let s2 := make_ready s1 in CoreH s2 /\ PlainRem tail s2 /\ DPhase tail s2 0 pos /\ stream tail s2 = stream tail s1 /\ v_rem s2 = v_rem s1 /\ v_q s2 = v_q s1.
Proof.
  intros (Hhs & Hrs & Hb0 & Hb1 & Hb01 & Hm0 & Hm1 & Hi & Hpno & Hpl & He & Hin & Hre & Hle).
  unfold make_ready. destruct Hrs as [Hrs|(Hrs & Hret & Hseq)]; rewrite Hrs.
  - change (STREAMSET =? STREAMSET) with true. cbv iota.
    set (s2 := set_rs (set_dec s1 (dec_init (cur_cfg s1))) INITSET).
    assert (cur_link s2 = cur_link s1) as HL by reflexivity.
    split; [unfold CoreH; rewrite HL; repeat split; assumption|].
    split; [exact Hpl|]. split; [|repeat split; reflexivity].
    unfold DPhase. rewrite HL. change (base_of s2 (v_link s2)) with (base_of s1 (v_link s1)). change (v_pcm s2) with (v_pcm s1).
    change (stream tail s2) with (stream tail s1). change (v_dec s2) with (dec_init (cur_cfg s1)).
    split; [exact He|]. split; [reflexivity|]. left. split; [reflexivity|]. split; [reflexivity|]. split; [exact Hin|]. split; [exact Hre|exact Hle].
  - change (INITSET =? STREAMSET) with false. cbv iota.
    split; [unfold CoreH; repeat split; assumption|]. split; [exact Hpl|]. split; [|repeat split; reflexivity].
    unfold DPhase. split; [exact He|]. split; [exact Hret|]. left. split; [reflexivity|]. split; [exact Hseq|]. split; [exact Hin|]. split; [exact Hre|exact Hle].
Qed.

Theorem pcm_seek_truthful_h s pos s1 :
  pcm_seek_page s pos = (0, s1) -> LandedH s1 pos ->
  fst (pcm_seek s pos) = 0 /\ TruthfulH (snd (pcm_seek s pos)) pos /\ pos - 2 < v_pcm (snd (pcm_seek s pos)) <= pos.
Proof.
  intros Hpage Hland. unfold pcm_seek. rewrite Hpage. change (0 <? 0) with false. cbv iota. cbn [fst snd].
  split; [reflexivity|].
  destruct (landed_ready_h s1 pos Hland) as (Hc2 & Hpl2 & Hd2 & Hst2 & Hr2 & Hq2).
  set (s2 := make_ready s1) in *.
  pose proof (seek_discard_ready_h (length (v_rem s2) + pkt_count (v_rem s2) + length (v_q s2) + 2) s2 pos 0) as Hdis.
  set (s3 := seek_discard (length (v_rem s2) + pkt_count (v_rem s2) + length (v_q s2) + 2) s2 pos 0) in *.
  assert (ReadyH s3 pos) as Hready.
  { apply Hdis; try assumption. destruct (stream_bound tail s2 Hpl2) as [B1 B2]. lia. }
  assert (PlainRem tail s3) as Hpl3 by (destruct Hready as (p & q' & w & e & _ & _ & _ & _ & _ & H & _); exact H).
  destruct (seek_skip_truthful_h (pkt_count (v_rem s3) + length (v_q s3) + 3) s3 pos) as [HT Hge]; [|left; exact Hready|].
  { destruct (stream_bound tail s3 Hpl3) as [B1 B2]. destruct ((v_pcm s3 <? 2 * (pos / 2)) && (0 <? (pos - v_pcm s3) / 2)); lia. }
  split; [exact HT|].
  assert (v_pcm (seek_skip (pkt_count (v_rem s3) + length (v_q s3) + 3) s3 pos) <= pos) as Hle.
  { destruct HT as [(p & q' & w & e & _ & _ & _ & _ & _ & _ & _ & H)|(e & _ & _ & _ & _ & _ & _ & _ & _ & _ & _ & _ & H)]; exact H. }
  lia.
Qed.


Definition FileIntactH (s1 : vfs) (pos : Z) : Prop :=
  let l := cur_link s1 in let e := v_pcm s1 - base_of s1 (v_link s1) in
  0 < li_bs0 l /\ 0 < li_bs1 l /\ li_bs0 l <= li_bs1 l /\ li_bs0 l mod 8 = 0 /\ li_bs1 l mod 8 = 0 /\ 0 <= li_init l /\
  PlainRem tail s1 /\ IntactS l true e false (stream tail s1) /\ Reaches l true e false (stream tail s1) (pos - base_of s1 (v_link s1)).

Definition file_intactb_h (s1 : vfs) (pos : Z) : bool :=
  let l := cur_link s1 in let e := v_pcm s1 - base_of s1 (v_link s1) in
  (0 <? li_bs0 l) && (0 <? li_bs1 l) && (li_bs0 l <=? li_bs1 l) && (li_bs0 l mod 8 =? 0) && (li_bs1 l mod 8 =? 0) && (0 <=? li_init l) &&
  negb (v_fresh s1) &&
  forallb (fun pg => (pg_serial pg =? v_serial s1) && negb (pg_bos pg)) (rem1 tail s1) &&
  intactSb l true e false (stream tail s1) && reachesb l true e false (stream tail s1) (pos - base_of s1 (v_link s1)).

Lemma file_intactb_h_ok s1 pos : file_intactb_h s1 pos = true -> v_rem s1 = rem1 tail s1 ++ tail -> FileIntactH s1 pos.
Proof.
  unfold file_intactb_h, FileIntactH, PlainRem. intros H Hsplit.
  repeat (apply andb_prop in H; let H' := fresh "C" in destruct H as [H H']).
  apply intactSb_ok in C0. apply reachesb_ok in C.
  assert (Forall (plain (v_serial s1)) (rem1 tail s1)) as Hpl.
  { apply Forall_forall. intros pg Hin. rewrite forallb_forall in C1. specialize (C1 pg Hin).
    apply andb_prop in C1. destruct C1 as [A B]. split; [lia|destruct (pg_bos pg); [discriminate|reflexivity]]. }
  repeat split; try assumption; try lia. destruct (v_fresh s1); [discriminate|reflexivity].
Qed.

(* ov_pcm_seek at HALF RATE, any opened handle: if the page seek succeeds (without the continued-packet fallback)
   and what follows the landing point is an intact run reaching the target, the seek reports a position at or
   below the target and less than one output sample (two positions) below it, and that position is truthful *)
Theorem pcm_seek_intact_h s pos s1 :
  v_hs s = 1 -> OPENED <= v_rs s <= INITSET ->
  pcm_seek_page s pos = (0, s1) -> fallback s pos = false -> FileIntactH s1 pos ->
  fst (pcm_seek s pos) = 0 /\ TruthfulH (snd (pcm_seek s pos)) pos /\ pos - 2 < v_pcm (snd (pcm_seek s pos)) <= pos.
Proof.
  intros Hhs Hrs Hpage Hfb (Hb0 & Hb1 & Hb01 & Hm0 & Hm1 & Hi & Hpl & Hin & Hre).
  destruct (page_seek_facts s pos s1 Hpage Hfb Hrs) as (F1 & F2 & F3 & F4 & F5).
  apply (pcm_seek_truthful_h s pos s1 Hpage).
  unfold LandedH. rewrite F1. split; [exact Hhs|]. split; [exact F2|]. repeat (split; [assumption|]). split; [lia|]. split; [exact Hin|]. split; [exact Hre|lia].
Qed.

End TailH.

(* the hypotheses of pcm_seek_intact_h as one executable test *)
Definition seek_hyps_h (s : vfs) (pos : Z) : bool :=
  let r := pcm_seek_page s pos in
  (v_hs s =? 1) && (OPENED <=? v_rs s) && (v_rs s <=? INITSET) && (fst r =? 0) && negb (fallback s pos) &&
  file_intactb_h (auto_tail (snd r)) (snd r) pos.

Theorem pcm_seek_checked_h s pos :
  seek_hyps_h s pos = true ->
  fst (pcm_seek s pos) = 0 /\ pos - 2 < v_pcm (snd (pcm_seek s pos)) <= pos /\
  TruthfulH (auto_tail (snd (pcm_seek_page s pos))) (snd (pcm_seek s pos)) pos.
Proof.
  unfold seek_hyps_h. intros H.
  repeat (apply andb_prop in H; let H' := fresh "C" in destruct H as [H H']).
  destruct (pcm_seek_page s pos) as [rc s1] eqn:Ep. cbn [fst snd] in *.
  assert (rc = 0) by lia. subst rc.
  destruct (pcm_seek_intact_h (auto_tail s1) s pos s1) as (A & B & D); try assumption; try lia.
  - destruct (fallback s pos); [discriminate|reflexivity].
  - apply file_intactb_h_ok; [exact C|apply auto_tail_split].
  - split; [exact A|]. split; [exact D|exact B].
Qed.

(* what "truthful" means at half rate when samples are pending: draining them delivers n samples, the position
   advances by 2n and the handle is in sync there *)
Lemma nready_drain_h (tail : list page) s pos : NReadyH tail s pos ->
  exists e, v_pcm s = base_of s (v_link s) + e /\
    let '(n, s2) := drainH s in
    0 <= n /\ SyncInvH s2 (e + 2 * n) /\ v_pcm s2 = v_pcm s + 2 * n.
Proof.
  intros (e & Hcore & Hpl & Hr0 & Hrc & Hs0 & Hs1 & Hpcm & He0 & Htr & Hin & _). cbv zeta in *.
  exists e. split; [exact Hpcm|]. unfold drainH.
  set (d := v_dec s) in *. set (n := d_cur d - d_ret d) in *.
  assert (dec_pcmout d = n) as Hout.
  { unfold dec_pcmout, n. destruct ((d_ret d >? -1) && (d_ret d <? d_cur d)) eqn:E; lia. }
  rewrite Hout. unfold dec_read. destruct (negb (n =? 0) && (d_ret d + n >? d_cur d)) eqn:E; [lia|].
  destruct Hcore as (Hhs & Hrs & Hb0 & Hb1 & Hb01 & Hm0 & Hm1 & Hi & Hpno).
  split; [lia|]. split; [|reflexivity].
  unfold SyncInvH. cbn [v_hs v_dec v_pno v_pcm set_pcm set_dec d_ret d_cur d_seq].
  change (cur_link (set_pcm (set_dec s _) _)) with (cur_link s).
  change (base_of (set_pcm (set_dec s _) _) _) with (base_of s (v_link s)).
  repeat split; try assumption; try lia.
Qed.

(* ---- page seek, byte seek and the first fetch after landing, half rate ---- *)
Lemma landed_fetch_h (tail : list page) s1 pos : LandedH tail s1 pos ->
  let s2 := make_ready s1 in
  let e := v_pcm s1 - base_of s1 (v_link s1) in
  exists p r w s0,
    stream tail s2 = p :: r /\ pk_W p = Some w /\
    fetch (fetch_fuel s2) s2 = (1, feed s0 p w) /\
    SyncInvH (feed s0 p w) e /\ dec_pcmout (v_dec (feed s0 p w)) = 0 /\ v_pcm (feed s0 p w) = v_pcm s1 /\
    IntactS (cur_link s1) false e w r.
Proof.
  intros Hland.
  destruct (landed_ready_h tail s1 pos Hland) as (Hc2 & Hpl2 & Hd2 & Hst2 & Hr2 & Hq2).
  cbv zeta. set (s2 := make_ready s1) in *.
  destruct Hd2 as (He0 & Hret & Hph).
  assert (cur_link s2 = cur_link s1 /\ base_of s2 (v_link s2) = base_of s1 (v_link s1) /\ v_pcm s2 = v_pcm s1) as (L1 & L2 & L3).
  { unfold s2, make_ready. destruct (v_rs s1 =? STREAMSET); repeat split; reflexivity. }
  rewrite L1, L2, L3 in Hph. rewrite L2, L3 in He0.
  set (e := v_pcm s1 - base_of s1 (v_link s1)) in *.
  destruct Hph as [(_ & Hseq & Hin2 & Hre2 & _)|(Hlb & _)].
  2: { exfalso. destruct Hc2 as (_ & _ & B0 & B1 & _). rewrite L1 in B0, B1. unfold blocksize in Hlb. destruct (d_W (v_dec s2)); lia. }
  destruct (stream tail s2) as [|p r] eqn:Est; [exfalso; exact Hre2|].
  cbn [IntactS] in Hin2. destruct Hin2 as (w & Hw & Heos & Hg & Hrest).
  assert (Forall audio (stream tail s2)) as Hau.
  { rewrite Est. constructor; [exists w; exact Hw|]. eapply intact_audio. exact Hrest. }
  pose proof Hc2 as (_ & Hrs2 & _).
  destruct (fetch_plain tail (fetch_fuel s2) s2 p r Hrs2 Hpl2 Hau) as (w' & s0 & Hw' & Hfe & Hv0 & Hst0 & Hpl0);
    [unfold fetch_fuel; destruct (stream_bound tail s2 Hpl2) as [B1 B2]; lia|exact Est|].
  rewrite Hw in Hw'. injection Hw' as <-.
  assert (CoreH s0) as Hc0 by (eapply view_core_h; [symmetry; exact Hv0|exact Hc2]).
  assert (PreSync s2 e p w) as Hps.
  { unfold PreSync. rewrite L1, L2, L3. repeat split; try assumption; try (unfold e; lia). }
  assert (PreSync s0 e p w) as Hps0 by (eapply view_presync; [symmetry; exact Hv0|exact Hps]).
  destruct (feed_presync_h s0 e p w Hc0 Hps0) as (Hsync & Hout & HW).
  exists p, r, w, s0. split; [reflexivity|]. split; [exact Hw|]. split; [exact Hfe|]. split; [exact Hsync|]. split; [exact Hout|].
  split; [|exact Hrest].
  destruct Hsync as (_ & _ & _ & _ & _ & _ & _ & _ & _ & _ & S9 & _).
  destruct (link_feed s0 p w) as (_ & L4). destruct (view_link _ _ Hv0) as (_ & L5 & _).
  rewrite S9, L4, L5, L2. unfold e. lia.
Qed.

Theorem raw_seek_truthful_h (tail : list page) s pos pg (r1 : list page) e0 :
  let l := cur_link s in
  let pk := if pg_cont pg then tl (pg_pkts pg) else pg_pkts pg in
  v_hs s = 1 -> v_rs s >= STREAMSET -> v_rs s <= INITSET ->
  0 <= pos <= file_end s -> li_off l <= pos < li_end l ->
  pages_from (v_pages s) pos = pg :: r1 ++ tail ->
  plain (v_serial s) pg -> pg_eos pg = false -> Forall (plain (v_serial s)) r1 ->
  0 < li_bs0 l -> 0 < li_bs1 l -> li_bs0 l <= li_bs1 l -> li_bs0 l mod 8 = 0 -> li_bs1 l mod 8 = 0 -> 0 <= li_init l ->
  0 <= e0 -> IntactS l true e0 false (pk ++ flat_map pg_pkts r1) -> scan_acc l 0 0 pk <> None ->
  let s' := snd (raw_seek s pos) in
  fst (raw_seek s pos) = 0 /\ v_pcm s' = base_of s (v_link s) + e0 /\ LandedH tail s' (v_pcm s').
Proof.
  intros l pk Hhs Hrs1 Hrs2 Hpos Hin_link Hpages [Hser Hbos] Heos Hplain Hb0 Hb1 Hb01 Hm0 Hm1 Hi He0 Hint Hsome.
  unfold raw_seek.
  assert ((v_rs s <? OPENED) = false) as -> by (unfold OPENED, STREAMSET in *; lia).
  assert (((pos <? 0) || (pos >? file_end s)) = false) as -> by lia.
  assert (((v_rs s >=? STREAMSET) && ((pos <? li_off (cur_link s)) || (pos >=? li_end (cur_link s)))) = false) as -> by (fold l; lia).
  cbv zeta. cbn [fst snd].
  set (s2 := set_pcm (os_reset s) (-1)).
  set (s3 := set_dec s2 (dec_restart (cur_cfg s2) (v_dec s2))).
  set (s4 := set_rem s3 (pages_from (v_pages s3) pos)).
  assert (v_rem s4 = pg :: r1 ++ tail) as Hrem4 by (unfold s4; cbn [v_rem set_rem]; exact Hpages).
  rewrite Hrem4.
  set (fuel := (length (pg :: r1 ++ tail) + pkt_count (pg :: r1 ++ tail) + 2)%nat).
  destruct (scan_acc l 0 0 pk) as [[a g]|] eqn:Esc; [|congruence].
  assert (exists p0 r0, pk = p0 :: r0) as (p0 & r0 & Hpk) by (destruct pk as [|p0 r0]; [discriminate|eauto]).
  (* first iteration: the work queue is empty, the landing page is fetched into both stream states *)
  assert (fuel = S (length (r1 ++ tail) + pkt_count (pg :: r1 ++ tail) + 2))%nat as Hfu by (unfold fuel; cbn [length]; lia).
  rewrite Hfu. cbn [raw_scan]. cbv zeta. cbn [r_wq r_last].
  assert ((v_rs s4 >=? STREAMSET) = true) as -> by (unfold s4, s3, s2; cbn; lia).
  cbn [Z.eqb negb]. rewrite Hrem4.
  set (s5 := set_rem s4 (r1 ++ tail)).
  assert (v_serial s5 = v_serial s /\ v_rs s5 = v_rs s /\ v_fresh s5 = true /\ v_q s5 = [] /\ v_pno s5 = 0) as (Q1 & Q2 & Q3 & Q4 & Q5) by (repeat split; reflexivity).
  rewrite Q1, Q2, Hser, Z.eqb_refl. cbn [negb andb]. rewrite andb_false_r.
  cbn [andb]. rewrite Q2. assert ((v_rs s <? STREAMSET) = false) as -> by lia.
  set (ff := pg_off pg <=? li_dataoff (cur_link s5)).
  (* both queues receive the packets that start on this page *)
  assert (os_pagein s5 pg = set_q s5 pk false 0) as Hpi.
  { unfold os_pagein. rewrite Q1, Hser, Z.eqb_refl, Q3, Q4. cbn [negb andb app]. unfold pk in *.
    destruct (pg_cont pg).
    - destruct (pg_pkts pg) as [|x y]; [cbn in Hpk; discriminate|]. cbn [tl]. rewrite Q5. reflexivity.
    - rewrite Q5. reflexivity. }
  rewrite Hpi.
  set (s6 := set_q s5 pk false 0).
  assert (work_pagein {| r_last := 0; r_acc := 0; r_lastflag := false; r_firstflag := false; r_wq := []; r_wfresh := true |} pg (pg_eos pg) ff =
          mk_r 0 0 false ff pk (if pg_cont pg then (match pg_pkts pg with [] => true | _ => false end) else false)) as Hwp.
  { unfold work_pagein, mk_r. cbn [r_last r_acc r_wq r_wfresh andb app]. rewrite Heos. unfold pk. reflexivity. }
  rewrite Hwp.
  assert (cur_link s6 = l /\ base_of s6 (v_link s6) = base_of s (v_link s)) as [L6 B6] by (split; reflexivity).
  rewrite (raw_scan_packets pk _ s6 0 0 false ff _ a g); try (rewrite L6; assumption); try (left; reflexivity); try reflexivity.
  2: { assert (length pk <= length (pg_pkts pg))%nat by (unfold pk; destruct (pg_cont pg); [destruct (pg_pkts pg); cbn; lia|lia]). cbn [pkt_count]. lia. }
  2: { unfold s6, s5, s4, s3, s2. cbn. lia. }
  rewrite L6, B6.
  destruct (scan_intact_first l Hb0 Hb1 ltac:(lia) ltac:(lia) pk e0 a g) as [A B].
  { eapply IntactS_app_l. exact Hint. }
  { exact Esc. }
  assert ((let g1 := (let g0 := g - li_init l in if g0 <? 0 then 0 else g0) - a in if g1 <? 0 then 0 else g1) = e0) as Hval.
  { cbv zeta. destruct (g - li_init l <? 0) eqn:E1; [lia|]. destruct (g - li_init l - a <? 0) eqn:E2; lia. }
  rewrite Hval.
  set (s' := set_pcm s6 (e0 + base_of s (v_link s))).
  split; [reflexivity|]. split; [cbn; lia|].
  (* the landing condition *)
  assert (rem1 tail s' = r1) as Hr1 by (apply rem1_app; reflexivity).
  assert (stream tail s' = pk ++ flat_map pg_pkts r1) as Hst by (unfold stream; rewrite Hr1; reflexivity).
  unfold LandedH. change (cur_link s') with l. change (base_of s' (v_link s')) with (base_of s (v_link s)).
  change (v_pcm s') with (e0 + base_of s (v_link s)). rewrite Hst.
  replace (e0 + base_of s (v_link s) - base_of s (v_link s)) with e0 by lia.
  split; [exact Hhs|]. split.
  { change (v_rs s') with (v_rs s). unfold STREAMSET, INITSET in *. assert (v_rs s = 3 \/ v_rs s = 4) as [H|H] by lia; [left; exact H|right].
    split; [exact H|]. split; reflexivity. }
  repeat (split; [assumption|]).
  split; [cbn; lia|]. split.
  { unfold PlainRem. rewrite Hr1. split; [reflexivity|]. split; [reflexivity|]. exact Hplain. }
  split; [exact He0|]. split; [exact Hint|]. split; [|lia].
  rewrite Hpk in *. cbn [app IntactS Reaches] in *. destruct Hint as (w & Hw & _). rewrite Hw. left. lia.
Qed.

(* page seek at half rate *)
Theorem pcm_seek_page_truthful_h (tail : list page) s pos s1 :
  v_hs s = 1 -> OPENED <= v_rs s <= INITSET ->
  pcm_seek_page s pos = (0, s1) -> fallback s pos = false -> FileIntactH tail s1 pos ->
  v_pcm s1 <= pos /\ LandedH tail s1 pos.
Proof.
  intros Hhs Hrs Hpage Hfb (Hb0 & Hb1 & Hb01 & Hm0 & Hm1 & Hi & Hpl & Hin & Hre).
  destruct (page_seek_facts s pos s1 Hpage Hfb Hrs) as (F1 & F2 & F3 & F4 & F5).
  split; [exact F5|].
  unfold LandedH. rewrite F1. split; [exact Hhs|]. split; [exact F2|]. repeat (split; [assumption|]). split; [lia|]. split; [exact Hin|]. split; [exact Hre|lia].
Qed.
