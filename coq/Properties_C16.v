(* C16  Comments survive the header round trip and queries are consistent.
   Only statements, `exact <lemma>`, Print Assumptions and non-vacuity Examples. *)
From VV Require Import Bits Comment Comment_lemmas.
Local Open Scope N_scope.

(* Any vendor string and any list of comments (any bytes, including empty
   entries and embedded zeros; explicit lengths below 2^31) written by the
   header packer is read back with the same count, lengths, bytes and order. *)
Theorem C16_comment_roundtrip :
  forall vendor cs,
    len_ok vendor -> Forall len_ok cs -> (Z.of_nat (length cs) < 2147483648)%Z ->
    headerin_comment (pack_comment vendor cs) = inr (vendor, cs).
Proof. exact comment_roundtrip. Qed.
Print Assumptions C16_comment_roundtrip.

(* What the parser accepts are sub-strings of the packet (never beyond it). *)
Theorem C16_unpacked_within_packet :
  forall storage n rest cs rest',
    unpack_entries storage n rest = Some (cs, rest') ->
    (length rest' <= length rest)%nat /\
    Forall (fun c => (length c <= length rest)%nat) cs /\ length cs = n.
Proof. exact unpack_entries_bound. Qed.
Print Assumptions C16_unpacked_within_packet.

(* Case folding is ASCII-only and locale independent. *)
Theorem C16_toupper_ascii_only :
  forall a b, toupper a = toupper b <->
    a = b \/ (97 <= a <= 122 /\ b = a - 32) \/ (97 <= b <= 122 /\ a = b - 32).
Proof. exact toupper_eq_iff. Qed.
Print Assumptions C16_toupper_ascii_only.

(* A comment matches a tag iff it begins with TAG= up to ASCII case. *)
Theorem C16_match_is_casefolded_prefix :
  forall buf ft, tagcompare buf ft = Match <-> exists p s, buf = p ++ s /\ fold_eq p ft.
Proof. exact tagcompare_match_iff. Qed.
Print Assumptions C16_match_is_casefolded_prefix.

(* The comparison never reads beyond the comment's terminator. *)
Theorem C16_tagcompare_stops_at_nul :
  forall c tag, nonzero tag -> tagcompare (cbuf c) (fulltag tag) <> OutOfBuffer.
Proof. intros c tag H. apply tagcompare_in_buffer, fulltag_nonzero, H. Qed.
Print Assumptions C16_tagcompare_stops_at_nul.

(* The n-th successful query is the n-th match in insertion order. *)
Theorem C16_query_nth_match :
  forall cs tag n,
    query cs tag n =
    match nth_error (filter (fun p => matches tag (snd p))
             (combine (map (fun k => 0 + N.of_nat k) (seq 0 (length cs))) cs)) n with
    | Some (j, _) => Some (j, N.of_nat (length tag) + 1)
    | None => None
    end.
Proof. intros cs tag n. exact (query_from_nth 0 cs tag n). Qed.
Print Assumptions C16_query_nth_match.

(* The reported match count equals the number of successful queries. *)
Theorem C16_query_count_eq_successes :
  forall cs tag n, query cs tag n <> None <-> (n < query_count cs tag)%nat.
Proof. exact query_some_iff. Qed.
Print Assumptions C16_query_count_eq_successes.

Theorem C16_query_add_tag :
  forall cs tag contents, nonzero tag ->
    query_value (comment_add_tag cs tag contents) tag (query_count cs tag) = Some contents.
Proof. exact query_add_tag. Qed.
Print Assumptions C16_query_add_tag.

(* non-vacuity: hypotheses are met by concrete, non-trivial data *)
Example C16_nonvacuous_roundtrip :
  let cs := [[65; 61; 0; 255]; []; [97; 61]] in
  len_ok [120; 0] /\ Forall len_ok cs /\
  headerin_comment (pack_comment [120; 0] cs) = inr ([120; 0], cs).
Proof.
  cbv zeta. split; [unfold len_ok; cbn; lia|]. split.
  - repeat constructor; unfold len_ok; cbn; lia.
  - vm_compute. reflexivity.
Qed.

Example C16_nonvacuous_query :
  query [[116; 61; 49]; [120]; [84; 61; 50]] [116] 1 = Some (2, 2) /\
  query_count [[116; 61; 49]; [120]; [84; 61; 50]] [116] = 2%nat.
Proof. vm_compute. split; reflexivity. Qed.
