(* C15  Encoder set-up succeeds completely or fails cleanly for all arguments.
   Model: EncSetup.v (decision logic of lib/vorbisenc.c: get_setup_template,
   vorbis_encode_setup_vbr / _managed / _init, the freeze of vorbis_encode_ctl),
   over the template table the code has now (SrcFacts.setup_templates is
   regenerated from lib/vorbisenc.c and lib/modes/ on every run).  Memory
   safety of the psychoacoustic set-up itself is exercised on the implementation
   under sanitizers (harness/c15.c), not proved. *)
From VV Require Import SrcFacts EncSetup EncSetup_lemmas Blocking Blocking_lemmas.
Local Open Scope Z_scope.

(* for ALL channel counts, rates and requested qualities/bitrates (any double,
   NaN and infinities included): a successful lookup names a template that
   exists and a setting index inside its per-setting arrays (the three CVEs
   fixed in 1.3.7 were reads outside exactly these arrays) *)
Theorem C15_lookup_in_range :
  forall bump ch srate req bitrate i is,
    lookup bump the_templates 0 ch srate req bitrate = Some (i, is) ->
    0 <= i < Z.of_nat (length the_templates) /\ 0 <= is < t_mappings (tnth the_templates i).
Proof.
  intros bump ch srate req bitrate i is E.
  apply (lookup_in_range bump ch srate req bitrate the_templates 0 i is templates_mappings ltac:(lia)) in E.
  rewrite Z.sub_0_r in E. exact E.
Qed.
Print Assumptions C15_lookup_in_range.

(* every set-up call returns success or a documented code, for all arguments *)
Theorem C15_return_codes :
  forall bump tbl ch rate a b c req sel,
    (let rc := fst (setup_vbr bump tbl ch rate req) in rc = 0 \/ rc = OV_EINVAL_ \/ rc = OV_EIMPL_) /\
    (let rc := fst (setup_managed bump tbl ch rate a b c req) in rc = 0 \/ rc = OV_EINVAL_ \/ rc = OV_EIMPL_) /\
    (let rc := fst (setup_init tbl ch sel) in rc = 0 \/ rc = OV_EINVAL_).
Proof.
  intros. split; [apply setup_vbr_codes|]. split; [apply setup_managed_codes|apply setup_init_codes].
Qed.
Print Assumptions C15_return_codes.

(* complete success: whenever the staged set-up succeeds, the channel count was
   in 1..255 and the installed block sizes form a configuration the blocking
   theorems (C04/C11) apply to: powers of two, 64 <= short <= long <= 8192 *)
Theorem C15_success_installs_legal_blocks :
  forall (bump : bumpfn) (ch rate : Z) (req : d64) (bitrate : bool) (a b c : Z) (sel : option (Z * Z)) (b0 b1 : Z),
    (if bitrate then setup_managed bump the_templates ch rate a b c req else setup_vbr bump the_templates ch rate req) = (0, sel) ->
    setup_init the_templates ch sel = (0, Some (b0, b1)) ->
    1 <= ch <= 255 /\ 0 < rate /\ WF {| bs0 := b0; bs1 := b1; hs := 0 |} /\ b1 <= 8192 /\ b0 mod 8 = 0 /\ b1 mod 8 = 0.
Proof.
  intros bump ch rate req bitrate a b c sel b0 b1 E1 E2.
  pose proof (setup_init_success _ _ _ _ E2) as [Hch Hsel].
  assert (0 < rate /\ exists i is, sel = Some (i, is) /\ lookup bump the_templates 0 ch rate req bitrate = Some (i, is)) as [Hr (i & is & -> & Hl)].
  { destruct bitrate.
    - unfold setup_managed in E1. destruct (rate <=? 0) eqn:Er; [discriminate|].
      destruct (_ && _ && _); [discriminate|].
      destruct (lookup bump the_templates 0 ch rate req true) as [[i is]|] eqn:El; [|discriminate].
      injection E1 as <-. split; [lia|]. exists i, is. auto.
    - unfold setup_vbr in E1. destruct (rate <=? 0) eqn:Er; [discriminate|].
      destruct (lookup bump the_templates 0 ch rate req false) as [[i is]|] eqn:El; [|discriminate].
      injection E1 as <-. split; [lia|]. exists i, is. auto. }
  apply C15_lookup_in_range in Hl. destruct Hl as [Hi His].
  pose proof (setup_init_blocks ch i is b0 b1 E2 Hi His) as (B1 & B2 & B3 & B4 & B5).
  unfold WF. cbn [bs0 bs1]. repeat split; lia.
Qed.
Print Assumptions C15_success_installs_legal_blocks.

(* after setup_init every "set" request (low nibble non-zero) is refused with
   OV_EINVAL before it can touch the staged state *)
Theorem C15_ctl_frozen_after_init :
  forall number, Z.land number 15 <> 0 -> ctl_gate true number = Some OV_EINVAL_.
Proof. exact ctl_frozen. Qed.
Print Assumptions C15_ctl_frozen_after_init.

(* ALL histories: after any sequence of set-up calls, one-step calls and
   control requests (in any order, with any arguments), the staged state names
   an existing template and an in-range setting, and any installed block sizes
   are legal; every call returned 0, OV_EINVAL or OV_EIMPL *)
Theorem C15_every_history :
  forall bump ops, let '(s, rcs) := srun bump the_templates s_init ops in
    SInv the_templates s /\ Forall rc_ok rcs.
Proof.
  intros bump ops. pose proof (srun_inv bump the_templates templates_ok ops s_init (sinv_init _)) as H.
  assert (forall ops s, Forall rc_ok (snd (srun bump the_templates s ops))) as Hrc.
  { clear. intros ops; induction ops as [|o rest IH]; intros s; cbn [srun]; [constructor|].
    pose proof (sstep_rc bump the_templates s o) as H1. destruct (sstep bump the_templates s o) as [s1 rc].
    specialize (IH s1). destruct (srun bump the_templates s1 rest) as [s2 rcs]. cbn in *. constructor; assumption. }
  specialize (Hrc ops s_init). destruct (srun bump the_templates s_init ops) as [s rcs]. split; assumption.
Qed.
Print Assumptions C15_every_history.

(* the one-step calls, from any reachable state: failure leaves exactly the
   cleared state; success leaves a frozen set-up that reports the requested
   channels and rate, with 1 <= channels <= 255 and legal block sizes *)
Theorem C15_one_step_all_or_nothing :
  forall bump s ch rate req mx nom mn rd, SInv the_templates s ->
    (let '(s', rc) := sstep bump the_templates s (OneVbr ch rate req) in
     (rc <> 0 -> s' = s_clear) /\
     (rc = 0 -> s_stone s' = true /\ s_ch s' = ch /\ s_rate s' = rate /\ 1 <= ch <= 255 /\ 0 < rate /\
                exists b0 b1, s_blocks s' = Some (b0, b1) /\ blocks_ok (Some (b0, b1)))) /\
    (let '(s', rc) := sstep bump the_templates s (OneManaged ch rate mx nom mn rd) in
     (rc <> 0 -> s' = s_clear) /\
     (rc = 0 -> s_stone s' = true /\ s_ch s' = ch /\ s_rate s' = rate /\ 1 <= ch <= 255 /\ 0 < rate /\
                exists b0 b1, s_blocks s' = Some (b0, b1) /\ blocks_ok (Some (b0, b1)))).
Proof.
  intros bump s ch rate req mx nom mn rd H. split.
  - exact (one_vbr_outcome bump the_templates s ch rate req templates_ok H).
  - exact (one_managed_outcome bump the_templates s ch rate mx nom mn rd templates_ok H).
Qed.
Print Assumptions C15_one_step_all_or_nothing.

(* once setup_init has succeeded, every set request is refused and changes nothing *)
Theorem C15_frozen_after_init :
  forall bump s o, s_stone s = true -> is_set_ctl o = true -> sstep bump the_templates s o = (s, OV_EINVAL_).
Proof. intros bump. exact (frozen_state bump the_templates). Qed.
Print Assumptions C15_frozen_after_init.

(* the model's codes are the header's codes (SrcFacts is generated from the headers) *)
Example C15_codes_tied : OV_EINVAL_ = OV_EINVAL /\ OV_EIMPL_ = OV_EIMPL.
Proof. split; reflexivity. Qed.

(* why the clamp is there: without it (the code before the fix) a float sum
   that rounds up in the last interval yields setting index = mappings, one past
   the per-setting tables (observed: 300 channels, 48000 Hz, minimum bitrate
   72000299 reads _psy_lowpass_44[12]) *)
Example C15_unclamped_out_of_range :
  pick_is false (fun _ _ => true) 2 10 11 = 11 /\ pick_is true (fun _ _ => true) 2 10 11 = 10.
Proof. split; reflexivity. Qed.

(* non-vacuity: 2 channels, 44100 Hz, quality 0.3 (0x3FD3333340000000 as the
   float 0.3f widened) selects template 0, setting 4, blocks 256/2048 *)
Example C15_nonvacuous :
  setup_vbr (fun _ _ => false) the_templates 2 44100 (decode_b64 4599075939685498880) = (0, Some (0, 4)) /\
  setup_init the_templates 2 (Some (0, 4)) = (0, Some (256, 2048)).
Proof. vm_compute. split; reflexivity. Qed.
