(* C17  Integer PCM output is the rounded, clipped, interleaved float output. *)
From VV Require Import Pcm Pcm_lemmas.
Local Open Scope Z_scope.

(* For every finite sample and both word sizes, clipping after the x86-64
   conversion is the ideal saturating conversion of the value rounded to
   nearest (ties to even): also far outside +-1, on both sides. *)
Theorem C17_round_clip_saturates :
  forall sl lo hi m e, INT_MIN <= lo -> lo <= hi -> hi < INT_MAX ->
    clip lo hi (ftoi sl (Finite m e)) = clip lo hi (rne m (e + sl)).
Proof. exact pack_ideal. Qed.
Print Assumptions C17_round_clip_saturates.

(* "rounded to nearest": within one half, exact on integers, ties to even *)
Theorem C17_rne_within_half :
  forall m e, e < 0 -> let d := 2 ^ (- e) in 2 * Z.abs (rne m e * d - m) <= d.
Proof. exact rne_close. Qed.
Print Assumptions C17_rne_within_half.
Theorem C17_rne_exact_on_integers : forall m e, 0 <= e -> rne m e = m * 2 ^ e.
Proof. exact rne_exact. Qed.
Theorem C17_rne_ties_to_even :
  forall m e, e < 0 -> 2 * (m mod 2 ^ (- e)) = 2 ^ (- e) -> Z.even (rne m e) = true.
Proof. exact rne_tie_even. Qed.

(* every (word, signedness, byte order): the bytes decode back to that value
   (offset for unsigned formats, two's complement, endianness) *)
Theorem C17_bytes_encode_value :
  forall word sgned be x, word = 1 \/ word = 2 ->
    unpack_sample word sgned be (pack_sample word sgned be x) =
    Some (if word =? 1 then clip (-128) 127 (ftoi 7 x) else clip (-32768) 32767 (ftoi 15 x)).
Proof. exact unpack_pack. Qed.
Print Assumptions C17_bytes_encode_value.

(* whole frames, frame-major in channel order *)
Theorem C17_frames_length :
  forall word sgned be chans samples, word = 1 \/ word = 2 ->
    Z.of_nat (length (pack_frames word sgned be chans samples)) =
    Z.of_nat samples * (Z.of_nat (length chans) * word).
Proof. exact pack_frames_length. Qed.
Theorem C17_interleave_order :
  forall word sgned be chans n,
    pack_frames word sgned be chans (S n) =
    pack_frames word sgned be chans n ++ flat_map (pack_sample word sgned be) (frame_at chans n).
Proof. exact pack_frames_snoc. Qed.
Print Assumptions C17_interleave_order.

(* the call returns a whole number of frames not exceeding the buffer, as many
   as fit or as are available, and advances by that many *)
Theorem C17_read_returns_whole_frames :
  forall avail length word channels r n,
    0 < avail -> read_frames avail length word channels = (r, n) -> 0 <= r ->
    0 < word /\ 1 <= channels <= 255 /\ 0 < n /\ n <= avail /\ r = n * (word * channels) /\ r <= length /\
    (n = avail \/ length - r < word * channels).
Proof. exact read_frames_ok. Qed.
Print Assumptions C17_read_returns_whole_frames.

Theorem C17_small_buffer_or_bad_word_is_error :
  forall avail length word channels,
    word <= 0 \/ (0 < word /\ 1 <= channels <= 255 /\ length < word * channels) ->
    read_frames avail length word channels = (-131, 0).
Proof. exact read_frames_too_small. Qed.
Print Assumptions C17_small_buffer_or_bad_word_is_error.

(* non-vacuity / regression witnesses: +65536.0 and +1e10 clip to +32767,
   -1e10 to -32768, 0.5/32768 ties to 0, 1.5/32768 to 2 *)
Example C17_witnesses :
  pack_sample 2 true false (decode_b32 1199570944) = [255; 127] /\      (* 65536.0f *)
  pack_sample 2 true false (decode_b32 1343554297) = [255; 127] /\      (* 1e10f *)
  pack_sample 2 true false (decode_b32 3491037945) = [0; 128] /\        (* -1e10f *)
  pack_sample 2 true true (decode_b32 931135488) = [0; 0] /\            (* 2^-16: tie -> 0 *)
  pack_sample 2 true true (decode_b32 943718400) = [0; 2] /\            (* 1.5*2^-15: tie -> 2 *)
  pack_sample 1 false false (decode_b32 1065353216) = [255].            (* 1.0f, unsigned 8 bit *)
Proof. vm_compute. repeat split; reflexivity. Qed.
