(* M11: decision logic of encoder set-up (lib/vorbisenc.c): template selection
   over the generated template table, return codes of the set-up calls, the
   control-request dispatcher's freeze after setup_init.  Doubles are exact
   dyadic values decoded from their IEEE binary64 bit patterns; comparisons are
   exact.  Definitions only. *)
From Coq Require Export List ZArith Bool Lia.
Export ListNotations.
Local Open Scope Z_scope.

Inductive d64 := DFin (m e : Z) | DPInf | DNInf | DNaN.

Definition decode_b64 (bits : Z) : d64 :=
  let sign := (bits / 9223372036854775808) mod 2 in
  let ex := (bits / 4503599627370496) mod 2048 in
  let frac := bits mod 4503599627370496 in
  if ex =? 2047 then (if frac =? 0 then (if sign =? 1 then DNInf else DPInf) else DNaN)
  else
    let m := if ex =? 0 then frac else 4503599627370496 + frac in
    let e := if ex =? 0 then -1074 else ex - 1075 in
    DFin (if sign =? 1 then - m else m) e.

(* m1*2^e1 < m2*2^e2, exactly *)
Definition fin_lt (m1 e1 m2 e2 : Z) : bool :=
  let e := Z.min e1 e2 in m1 * 2 ^ (e1 - e) <? m2 * 2 ^ (e2 - e).

(* C's a < b on doubles (false when either is NaN) *)
Definition dlt (a b : d64) : bool :=
  match a, b with
  | DNaN, _ | _, DNaN => false
  | DNInf, DNInf => false | DNInf, _ => true
  | _, DNInf => false
  | DPInf, _ => false
  | _, DPInf => true
  | DFin m1 e1, DFin m2 e2 => fin_lt m1 e1 m2 e2
  end.
Definition dge (a b : d64) : bool :=       (* a >= b *)
  match a, b with
  | DNaN, _ | _, DNaN => false
  | _, _ => negb (dlt a b)
  end.

Record template := {
  t_coupling : Z; t_smin : Z; t_smax : Z; t_mappings : Z;
  t_qmap : list d64; t_rmap : list d64; t_short : list Z; t_long : list Z }.

Definition mk_template (x : Z * Z * Z * Z * list Z * list Z * list Z * list Z) : template :=
  let '(c, smin, smax, mp, q, r, s, l) := x in
  {| t_coupling := c; t_smin := smin; t_smax := smax; t_mappings := mp;
     t_qmap := map decode_b64 q; t_rmap := map decode_b64 r; t_short := s; t_long := l |}.

Definition dnth (l : list d64) (i : Z) : d64 := nth (Z.to_nat i) l DNaN.

(* for(j=0;j<mappings;j++) if(req>=map[j] && req<map[j+1]) break; *)
Fixpoint find_j (fuel : nat) (mp : list d64) (req : d64) (j mappings : Z) : Z :=
  match fuel with
  | O => mappings
  | S f =>
      if j >=? mappings then mappings
      else if dge req (dnth mp j) && dlt req (dnth mp (j + 1)) then j
      else find_j f mp req (j + 1) mappings
  end.

(* get_setup_template: (template index, is = (int)base_setting).
   base_setting = j + del is a FLOAT sum in the C code; [bump i j] says whether
   that sum rounded up to j+1 for template i (supplied by the driver in IEEE
   arithmetic; the theorems hold for every such function).  The code clamps the
   result below [mappings]. *)
Definition bumpfn := Z -> Z -> bool.
(* clamp=false is the code before the fix (KNOWN_FINDINGS.txt: base-setting-float-sum) *)
Definition pick_is (clamp : bool) (bump : bumpfn) (i j mappings : Z) : Z :=
  let is0 := if bump i j then j + 1 else j in
  if clamp && (is0 >=? mappings) then mappings - 1 else is0.
Fixpoint lookup (bump : bumpfn) (tbl : list template) (i : Z) (ch srate : Z) (req : d64) (bitrate : bool) : option (Z * Z) :=
  match tbl with
  | [] => None
  | t :: rest =>
      if ((t_coupling t =? -1) || (t_coupling t =? ch)) &&
         (srate >=? t_smin t) && (srate <=? t_smax t) then
        let mp := if bitrate then t_rmap t else t_qmap t in
        if dlt req (dnth mp 0) then lookup bump rest (i + 1) ch srate req bitrate
        else if dlt (dnth mp (t_mappings t)) req then lookup bump rest (i + 1) ch srate req bitrate
        else
          let j := find_j (Z.to_nat (t_mappings t)) mp req 0 (t_mappings t) in
          (* all-points match: base_setting = j - .001; else j + del, clamped *)
          Some (i, if j =? t_mappings t then j - 1
                   else pick_is true bump i j (t_mappings t))
      else lookup bump rest (i + 1) ch srate req bitrate
  end.

Definition OV_EINVAL_ : Z := -131.
Definition OV_EIMPL_ : Z := -130.

(* vorbis_encode_setup_vbr: (return code, chosen (template, is)) *)
Definition setup_vbr (bump : bumpfn) (tbl : list template) (ch rate : Z) (req : d64) : Z * option (Z * Z) :=
  if rate <=? 0 then (OV_EINVAL_, None)
  else match lookup bump tbl 0 ch rate req false with
       | None => (OV_EIMPL_, None)
       | Some r => (0, Some r)
       end.

(* vorbis_encode_setup_managed; [req] = nominal bitrate after the defaults, divided by channels *)
Definition setup_managed (bump : bumpfn) (tbl : list template) (ch rate maxb nomb minb : Z) (req : d64) : Z * option (Z * Z) :=
  if rate <=? 0 then (OV_EINVAL_, None)
  else if (nomb <=? 0) && (maxb <=? 0) && (minb <=? 0) then (OV_EINVAL_, None)
  else match lookup bump tbl 0 ch rate req true with
       | None => (OV_EIMPL_, None)
       | Some r => (0, Some r)
       end.

(* vorbis_encode_setup_init: return code and the block sizes it installs *)
Definition setup_init (tbl : list template) (ch : Z) (sel : option (Z * Z)) : Z * option (Z * Z) :=
  if (ch <? 1) || (ch >? 255) then (OV_EINVAL_, None)
  else match sel with
       | None => (OV_EINVAL_, None)
       | Some (i, is) =>
           let t := nth (Z.to_nat i) tbl {| t_coupling := 0; t_smin := 0; t_smax := 0; t_mappings := 0; t_qmap := []; t_rmap := []; t_short := []; t_long := [] |} in
           (0, Some (nth (Z.to_nat is) (t_short t) 0, nth (Z.to_nat is) (t_long t) 0))
       end.

(* vorbis_encode_ctl's gate: a request whose low nibble is non-zero is a "set"
   and is refused once setup_init has run (set_in_stone) *)
Definition ctl_gate (set_in_stone : bool) (number : Z) : option Z :=
  if negb (Z.land number 15 =? 0) && set_in_stone then Some OV_EINVAL_ else None.

(* ------------------------------------------------------------------ *)
(* The staged set-up as a state machine (highlevel_encode_setup +       *)
(* vorbis_info.channels/rate), one step per API call.                   *)
(* ------------------------------------------------------------------ *)
Definition dle (a b : d64) : bool :=       (* a <= b *)
  match a, b with DNaN, _ | _, DNaN => false | _, _ => negb (dlt b a) end.
Definition dzero : d64 := DFin 0 0.
Definition done : d64 := DFin 1 0.

Record sst := {
  s_tmpl : option (Z * Z);     (* hi->setup as an index into setup_list, (int)hi->base_setting *)
  s_ch : Z; s_rate : Z;        (* vi->channels, vi->rate *)
  s_managed : Z; s_coupling : Z; s_stone : bool;
  s_min : Z; s_av : Z; s_max : Z; s_res : Z;
  s_blocks : option (Z * Z);   (* ci->blocksizes once setup_init has run *)
  s_cleared : bool             (* vorbis_info_clear has run (one-step failure) *)
}.
Definition s_init : sst :=
  {| s_tmpl := None; s_ch := 0; s_rate := 0; s_managed := 0; s_coupling := 0; s_stone := false;
     s_min := 0; s_av := 0; s_max := 0; s_res := 0; s_blocks := None; s_cleared := false |}.
Definition s_clear : sst :=
  {| s_tmpl := None; s_ch := 0; s_rate := 0; s_managed := 0; s_coupling := 0; s_stone := false;
     s_min := 0; s_av := 0; s_max := 0; s_res := 0; s_blocks := None; s_cleared := true |}.

(* effective nominal bitrate of vorbis_encode_setup_managed (None = OV_EINVAL);
   (max+min)*.5 and max*.875 are exact in binary64 below 2^50, then truncated *)
Definition nominal_eff (mx nom mn : Z) : option Z :=
  if nom >? 0 then Some nom
  else if mx >? 0 then (if mn >? 0 then Some (Z.quot (mx + mn) 2) else Some (Z.quot (mx * 7) 8))
  else if mn >? 0 then Some mn else None.

Inductive sop :=
| OVbr (ch rate : Z) (req : d64)                  (* req: the adjusted quality, widened to double *)
| OManaged (ch rate mx nom mn : Z) (reqdiv : d64) (* reqdiv: effective nominal / ch, as the code computes it *)
| OInit
| OneVbr (ch rate : Z) (req : d64)                (* vorbis_encode_init_vbr *)
| OneManaged (ch rate mx nom mn : Z) (reqdiv : d64) (* vorbis_encode_init *)
| OCoupling (v : Z) (reqdiv : d64)                (* OV_ECTL_COUPLING_SET; reqdiv: hi->req (/ch' when managed) *)
| OManage2Set (null : bool) (active mnK avK mxK : Z) (damp : d64) (resbits : Z) (bias : d64)
| OManage2Get (null : bool)
| OCtlOther (number : Z).                        (* LOWPASS/IBLOCK get/set, COUPLING_GET, unknown numbers *)

Definition with_tmpl (s : sst) (sel : Z * Z) (ch rate : Z) : sst :=
  {| s_tmpl := Some sel; s_ch := ch; s_rate := rate; s_managed := s_managed s; s_coupling := s_coupling s;
     s_stone := s_stone s; s_min := s_min s; s_av := s_av s; s_max := s_max s; s_res := s_res s;
     s_blocks := s_blocks s; s_cleared := false |}.

Definition step_vbr (bump : bumpfn) (tbl : list template) (s : sst) (ch rate : Z) (req : d64) : sst * Z :=
  if rate <=? 0 then (s, OV_EINVAL_)
  else match lookup bump tbl 0 ch rate req false with
       | None => ({| s_tmpl := None; s_ch := s_ch s; s_rate := s_rate s; s_managed := s_managed s; s_coupling := s_coupling s;
                     s_stone := s_stone s; s_min := s_min s; s_av := s_av s; s_max := s_max s; s_res := s_res s;
                     s_blocks := s_blocks s; s_cleared := false |}, OV_EIMPL_)
       | Some sel =>
           let s1 := with_tmpl s sel ch rate in
           ({| s_tmpl := s_tmpl s1; s_ch := ch; s_rate := rate; s_managed := 0; s_coupling := 1;
               s_stone := s_stone s; s_min := s_min s; s_av := s_av s; s_max := s_max s; s_res := s_res s;
               s_blocks := s_blocks s; s_cleared := false |}, 0)
       end.

Definition step_managed (bump : bumpfn) (tbl : list template) (s : sst) (ch rate mx nom mn : Z) (reqdiv : d64) : sst * Z :=
  if rate <=? 0 then (s, OV_EINVAL_)
  else match nominal_eff mx nom mn with
       | None => (s, OV_EINVAL_)
       | Some ne =>
           match lookup bump tbl 0 ch rate reqdiv true with
           | None => ({| s_tmpl := None; s_ch := s_ch s; s_rate := s_rate s; s_managed := s_managed s; s_coupling := s_coupling s;
                         s_stone := s_stone s; s_min := s_min s; s_av := s_av s; s_max := s_max s; s_res := s_res s;
                         s_blocks := s_blocks s; s_cleared := false |}, OV_EIMPL_)
           | Some sel =>
               ({| s_tmpl := Some sel; s_ch := ch; s_rate := rate; s_managed := 1; s_coupling := 1;
                   s_stone := s_stone s; s_min := mn; s_av := nom; s_max := mx; s_res := ne * 2;
                   s_blocks := s_blocks s; s_cleared := false |}, 0)
           end
       end.

Definition step_init (tbl : list template) (s : sst) : sst * Z :=
  match setup_init tbl (s_ch s) (s_tmpl s) with
  | (0, Some b) => ({| s_tmpl := s_tmpl s; s_ch := s_ch s; s_rate := s_rate s; s_managed := s_managed s; s_coupling := s_coupling s;
                       s_stone := true; s_min := s_min s; s_av := s_av s; s_max := s_max s; s_res := s_res s;
                       s_blocks := Some b; s_cleared := false |}, 0)
  | (rc, _) => (s, rc)
  end.

Definition one_step (r : sst * Z) (tbl : list template) : sst * Z :=
  let '(s1, rc) := r in
  if rc =? 0 then
    let '(s2, rc2) := step_init tbl s1 in
    if rc2 =? 0 then (s2, 0) else (s_clear, rc2)
  else (s_clear, rc).

Definition OV_ECTL_RATEMANAGE2_GET_ : Z := 20.
Definition known_ctl (number : Z) : bool :=
  existsb (Z.eqb number) [16; 17; 18; 19; 20; 21; 32; 33; 48; 49; 64; 65].

Definition sstep (bump : bumpfn) (tbl : list template) (s : sst) (o : sop) : sst * Z :=
  match o with
  | OVbr ch rate req => step_vbr bump tbl s ch rate req
  | OManaged ch rate mx nom mn reqdiv => step_managed bump tbl s ch rate mx nom mn reqdiv
  | OInit => step_init tbl s
  | OneVbr ch rate req => one_step (step_vbr bump tbl s ch rate req) tbl
  | OneManaged ch rate mx nom mn reqdiv => one_step (step_managed bump tbl s ch rate mx nom mn reqdiv) tbl
  | OCoupling v reqdiv =>
      match ctl_gate (s_stone s) 65 with
      | Some rc => (s, rc)
      | None =>
          let cp := if v =? 0 then 0 else 1 in
          let s0 := {| s_tmpl := s_tmpl s; s_ch := s_ch s; s_rate := s_rate s; s_managed := s_managed s; s_coupling := cp;
                       s_stone := s_stone s; s_min := s_min s; s_av := s_av s; s_max := s_max s; s_res := s_res s;
                       s_blocks := s_blocks s; s_cleared := false |} in
          match lookup bump tbl 0 (if cp =? 0 then -1 else s_ch s) (s_rate s) reqdiv (negb (s_managed s =? 0)) with
          | None => (s0, OV_EIMPL_)
          | Some sel => (with_tmpl s0 sel (s_ch s) (s_rate s), 0)
          end
      end
  | OManage2Set null active mnK avK mxK damp resbits bias =>
      match ctl_gate (s_stone s) 21 with
      | Some rc => (s, rc)
      | None =>
          if null then
            ({| s_tmpl := s_tmpl s; s_ch := s_ch s; s_rate := s_rate s; s_managed := 0; s_coupling := s_coupling s;
                s_stone := s_stone s; s_min := s_min s; s_av := s_av s; s_max := s_max s; s_res := s_res s;
                s_blocks := s_blocks s; s_cleared := false |}, 0)
          else if (mnK >? 0) && (avK >? 0) && (mnK >? avK) then (s, OV_EINVAL_)
          else if (mxK >? 0) && (avK >? 0) && (mxK <? avK) then (s, OV_EINVAL_)
          else if (mnK >? 0) && (mxK >? 0) && (mnK >? mxK) then (s, OV_EINVAL_)
          else if dle damp dzero then (s, OV_EINVAL_)
          else if resbits <? 0 then (s, OV_EINVAL_)
          else if negb (dge bias dzero) then (s, OV_EINVAL_)     (* !(bias >= 0.): NaN refused *)
          else if negb (dle bias done) then (s, OV_EINVAL_)
          else
            ({| s_tmpl := s_tmpl s; s_ch := s_ch s; s_rate := s_rate s; s_managed := active; s_coupling := s_coupling s;
                s_stone := s_stone s; s_min := mnK * 1000; s_av := avK * 1000; s_max := mxK * 1000; s_res := resbits;
                s_blocks := s_blocks s; s_cleared := false |}, 0)
      end
  | OManage2Get null =>
      match ctl_gate (s_stone s) 20 with
      | Some rc => (s, rc)
      | None => (s, if null then OV_EINVAL_ else 0)
      end
  | OCtlOther number =>
      match ctl_gate (s_stone s) number with
      | Some rc => (s, rc)
      | None => (s, if known_ctl number then 0 else OV_EIMPL_)
      end
  end.

Fixpoint srun (bump : bumpfn) (tbl : list template) (s : sst) (ops : list sop) : sst * list Z :=
  match ops with
  | [] => (s, [])
  | o :: rest =>
      let '(s1, rc) := sstep bump tbl s o in
      let '(s2, rcs) := srun bump tbl s1 rest in (s2, rc :: rcs)
  end.
