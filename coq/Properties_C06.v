(* C06  Decoded audio is time-aligned with the input, finite and quality-bounded.
   What is logic is proved: (1) alignment - after the packets emitted so far the
   decoder has returned exactly the input position of the centre of the last
   block, for ALL block-size sequences and chunkings (so output sample i is
   input sample i); (2) channel order - residue bundling returns every vector
   to the channel it was taken from and leaves the others alone; (3) the Vorbis
   window slope is power complementary (unit gain of windowed overlap-add).
   NOT decided by proof: finiteness, peak factor and the error-vs-quality bound
   are statements about the floating-point psychoacoustic encoder; they are
   measured per run on the implementation (harness/c06.c). *)
From VV Require Import Blocking Blocking_lemmas PacketDec Align_lemmas.
From Coq Require Import ZArith List Reals.
Import ListNotations.

Theorem C06_no_delay_no_advance :
  forall c acc b off W lW seq, WF0 c -> Emitted c (acc ++ [b]) off W lW seq ->
    snd (dec_run c (map to_dblock (acc ++ [b]))) = b_gran b.
Proof. exact returned_equals_centre. Qed.
Print Assumptions C06_no_delay_no_advance.

Theorem C06_channels_not_permuted :
  forall (A : Type) (d : A) (idx : list nat) (vals all : list A),
    ((forall i, In i idx -> (i < length all)%nat) -> put_back idx (map (fun j => nth j all d) idx) all = all) /\
    length (put_back idx vals all) = length all /\
    (forall k, ~ In k idx -> nth k (put_back idx vals all) d = nth k all d).
Proof.
  intros A d idx vals all. split; [apply put_back_same|]. split; [apply put_back_length|apply put_back_other].
Qed.
Print Assumptions C06_channels_not_permuted.

Theorem C06_window_power_complementary :
  forall a : R, ((sin (PI / 2 * (sin a)²))² + (sin (PI / 2 * (sin (PI / 2 - a))²))² = 1)%R.
Proof. exact window_power_complementary. Qed.
Print Assumptions C06_window_power_complementary.

Example C06_nonvacuous : WF0 {| bs0 := 256; bs1 := 2048; hs := 0 |} /\ Emitted {| bs0 := 256; bs1 := 2048; hs := 0 |} ([] ++ [mkb false false false 3 0 false]) (0 + step {| bs0 := 256; bs1 := 2048; hs := 0 |} false false) false false (3 + 1).
Proof. split; [split; [unfold WF; cbn; lia|reflexivity]|]. apply Em_snoc. apply Em_nil. Qed.
