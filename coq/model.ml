
(** val xorb : bool -> bool -> bool **)

let xorb b1 b2 =
  if b1 then if b2 then false else true else b2

(** val negb : bool -> bool **)

let negb = function
| true -> false
| false -> true

type nat =
| O
| S of nat

type ('a, 'b) sum =
| Inl of 'a
| Inr of 'b

(** val fst : ('a1 * 'a2) -> 'a1 **)

let fst = function
| (x, _) -> x

(** val snd : ('a1 * 'a2) -> 'a2 **)

let snd = function
| (_, y) -> y

(** val length : 'a1 list -> nat **)

let rec length = function
| [] -> O
| _ :: l' -> S (length l')

(** val app : 'a1 list -> 'a1 list -> 'a1 list **)

let rec app l m =
  match l with
  | [] -> m
  | a :: l1 -> a :: (app l1 m)

type comparison =
| Eq
| Lt
| Gt

(** val compOpp : comparison -> comparison **)

let compOpp = function
| Eq -> Eq
| Lt -> Gt
| Gt -> Lt

module Coq__1 = struct
 (** val add : nat -> nat -> nat **)
 let rec add n0 m =
   match n0 with
   | O -> m
   | S p -> S (add p m)
end
include Coq__1

(** val sub : nat -> nat -> nat **)

let rec sub n0 m =
  match n0 with
  | O -> n0
  | S k -> (match m with
            | O -> n0
            | S l -> sub k l)

module Nat =
 struct
  (** val eqb : nat -> nat -> bool **)

  let rec eqb n0 m =
    match n0 with
    | O -> (match m with
            | O -> true
            | S _ -> false)
    | S n' -> (match m with
               | O -> false
               | S m' -> eqb n' m')

  (** val leb : nat -> nat -> bool **)

  let rec leb n0 m =
    match n0 with
    | O -> true
    | S n' -> (match m with
               | O -> false
               | S m' -> leb n' m')
 end

(** val tl : 'a1 list -> 'a1 list **)

let tl = function
| [] -> []
| _ :: m -> m

(** val nth : nat -> 'a1 list -> 'a1 -> 'a1 **)

let rec nth n0 l default =
  match n0 with
  | O -> (match l with
          | [] -> default
          | x :: _ -> x)
  | S m -> (match l with
            | [] -> default
            | _ :: t -> nth m t default)

(** val last : 'a1 list -> 'a1 -> 'a1 **)

let rec last l d =
  match l with
  | [] -> d
  | a :: l0 -> (match l0 with
                | [] -> a
                | _ :: _ -> last l0 d)

(** val rev : 'a1 list -> 'a1 list **)

let rec rev = function
| [] -> []
| x :: l' -> app (rev l') (x :: [])

(** val map : ('a1 -> 'a2) -> 'a1 list -> 'a2 list **)

let rec map f = function
| [] -> []
| a :: t -> (f a) :: (map f t)

(** val flat_map : ('a1 -> 'a2 list) -> 'a1 list -> 'a2 list **)

let rec flat_map f = function
| [] -> []
| x :: t -> app (f x) (flat_map f t)

(** val fold_left : ('a1 -> 'a2 -> 'a1) -> 'a2 list -> 'a1 -> 'a1 **)

let rec fold_left f l a0 =
  match l with
  | [] -> a0
  | b :: t -> fold_left f t (f a0 b)

(** val existsb : ('a1 -> bool) -> 'a1 list -> bool **)

let rec existsb f = function
| [] -> false
| a :: l0 -> (||) (f a) (existsb f l0)

(** val forallb : ('a1 -> bool) -> 'a1 list -> bool **)

let rec forallb f = function
| [] -> true
| a :: l0 -> (&&) (f a) (forallb f l0)

(** val filter : ('a1 -> bool) -> 'a1 list -> 'a1 list **)

let rec filter f = function
| [] -> []
| x :: l0 -> if f x then x :: (filter f l0) else filter f l0

(** val combine : 'a1 list -> 'a2 list -> ('a1 * 'a2) list **)

let rec combine l l' =
  match l with
  | [] -> []
  | x :: tl0 ->
    (match l' with
     | [] -> []
     | y :: tl' -> (x, y) :: (combine tl0 tl'))

(** val firstn : nat -> 'a1 list -> 'a1 list **)

let rec firstn n0 l =
  match n0 with
  | O -> []
  | S n1 -> (match l with
             | [] -> []
             | a :: l0 -> a :: (firstn n1 l0))

(** val skipn : nat -> 'a1 list -> 'a1 list **)

let rec skipn n0 l =
  match n0 with
  | O -> l
  | S n1 -> (match l with
             | [] -> []
             | _ :: l0 -> skipn n1 l0)

(** val seq : nat -> nat -> nat list **)

let rec seq start = function
| O -> []
| S len0 -> start :: (seq (S start) len0)

(** val repeat : 'a1 -> nat -> 'a1 list **)

let rec repeat x = function
| O -> []
| S k -> x :: (repeat x k)

type positive =
| XI of positive
| XO of positive
| XH

type n =
| N0
| Npos of positive

type z =
| Z0
| Zpos of positive
| Zneg of positive

module Pos =
 struct
  type mask =
  | IsNul
  | IsPos of positive
  | IsNeg
 end

module Coq_Pos =
 struct
  (** val succ : positive -> positive **)

  let rec succ = function
  | XI p -> XO (succ p)
  | XO p -> XI p
  | XH -> XO XH

  (** val add : positive -> positive -> positive **)

  let rec add x y =
    match x with
    | XI p ->
      (match y with
       | XI q -> XO (add_carry p q)
       | XO q -> XI (add p q)
       | XH -> XO (succ p))
    | XO p ->
      (match y with
       | XI q -> XI (add p q)
       | XO q -> XO (add p q)
       | XH -> XI p)
    | XH -> (match y with
             | XI q -> XO (succ q)
             | XO q -> XI q
             | XH -> XO XH)

  (** val add_carry : positive -> positive -> positive **)

  and add_carry x y =
    match x with
    | XI p ->
      (match y with
       | XI q -> XI (add_carry p q)
       | XO q -> XO (add_carry p q)
       | XH -> XI (succ p))
    | XO p ->
      (match y with
       | XI q -> XO (add_carry p q)
       | XO q -> XI (add p q)
       | XH -> XO (succ p))
    | XH ->
      (match y with
       | XI q -> XI (succ q)
       | XO q -> XO (succ q)
       | XH -> XI XH)

  (** val pred_double : positive -> positive **)

  let rec pred_double = function
  | XI p -> XI (XO p)
  | XO p -> XI (pred_double p)
  | XH -> XH

  (** val pred_N : positive -> n **)

  let pred_N = function
  | XI p -> Npos (XO p)
  | XO p -> Npos (pred_double p)
  | XH -> N0

  type mask = Pos.mask =
  | IsNul
  | IsPos of positive
  | IsNeg

  (** val succ_double_mask : mask -> mask **)

  let succ_double_mask = function
  | IsNul -> IsPos XH
  | IsPos p -> IsPos (XI p)
  | IsNeg -> IsNeg

  (** val double_mask : mask -> mask **)

  let double_mask = function
  | IsPos p -> IsPos (XO p)
  | x0 -> x0

  (** val double_pred_mask : positive -> mask **)

  let double_pred_mask = function
  | XI p -> IsPos (XO (XO p))
  | XO p -> IsPos (XO (pred_double p))
  | XH -> IsNul

  (** val sub_mask : positive -> positive -> mask **)

  let rec sub_mask x y =
    match x with
    | XI p ->
      (match y with
       | XI q -> double_mask (sub_mask p q)
       | XO q -> succ_double_mask (sub_mask p q)
       | XH -> IsPos (XO p))
    | XO p ->
      (match y with
       | XI q -> succ_double_mask (sub_mask_carry p q)
       | XO q -> double_mask (sub_mask p q)
       | XH -> IsPos (pred_double p))
    | XH -> (match y with
             | XH -> IsNul
             | _ -> IsNeg)

  (** val sub_mask_carry : positive -> positive -> mask **)

  and sub_mask_carry x y =
    match x with
    | XI p ->
      (match y with
       | XI q -> succ_double_mask (sub_mask_carry p q)
       | XO q -> double_mask (sub_mask p q)
       | XH -> IsPos (pred_double p))
    | XO p ->
      (match y with
       | XI q -> double_mask (sub_mask_carry p q)
       | XO q -> succ_double_mask (sub_mask_carry p q)
       | XH -> double_pred_mask p)
    | XH -> IsNeg

  (** val mul : positive -> positive -> positive **)

  let rec mul x y =
    match x with
    | XI p -> add y (XO (mul p y))
    | XO p -> XO (mul p y)
    | XH -> y

  (** val iter : ('a1 -> 'a1) -> 'a1 -> positive -> 'a1 **)

  let rec iter f x = function
  | XI n' -> f (iter f (iter f x n') n')
  | XO n' -> iter f (iter f x n') n'
  | XH -> f x

  (** val div2 : positive -> positive **)

  let div2 = function
  | XI p0 -> p0
  | XO p0 -> p0
  | XH -> XH

  (** val div2_up : positive -> positive **)

  let div2_up = function
  | XI p0 -> succ p0
  | XO p0 -> p0
  | XH -> XH

  (** val size : positive -> positive **)

  let rec size = function
  | XI p0 -> succ (size p0)
  | XO p0 -> succ (size p0)
  | XH -> XH

  (** val compare_cont : comparison -> positive -> positive -> comparison **)

  let rec compare_cont r x y =
    match x with
    | XI p ->
      (match y with
       | XI q -> compare_cont r p q
       | XO q -> compare_cont Gt p q
       | XH -> Gt)
    | XO p ->
      (match y with
       | XI q -> compare_cont Lt p q
       | XO q -> compare_cont r p q
       | XH -> Gt)
    | XH -> (match y with
             | XH -> r
             | _ -> Lt)

  (** val compare : positive -> positive -> comparison **)

  let compare =
    compare_cont Eq

  (** val eqb : positive -> positive -> bool **)

  let rec eqb p q =
    match p with
    | XI p0 -> (match q with
                | XI q0 -> eqb p0 q0
                | _ -> false)
    | XO p0 -> (match q with
                | XO q0 -> eqb p0 q0
                | _ -> false)
    | XH -> (match q with
             | XH -> true
             | _ -> false)

  (** val coq_Nsucc_double : n -> n **)

  let coq_Nsucc_double = function
  | N0 -> Npos XH
  | Npos p -> Npos (XI p)

  (** val coq_Ndouble : n -> n **)

  let coq_Ndouble = function
  | N0 -> N0
  | Npos p -> Npos (XO p)

  (** val coq_lor : positive -> positive -> positive **)

  let rec coq_lor p q =
    match p with
    | XI p0 ->
      (match q with
       | XI q0 -> XI (coq_lor p0 q0)
       | XO q0 -> XI (coq_lor p0 q0)
       | XH -> p)
    | XO p0 ->
      (match q with
       | XI q0 -> XI (coq_lor p0 q0)
       | XO q0 -> XO (coq_lor p0 q0)
       | XH -> XI p0)
    | XH -> (match q with
             | XO q0 -> XI q0
             | _ -> q)

  (** val coq_land : positive -> positive -> n **)

  let rec coq_land p q =
    match p with
    | XI p0 ->
      (match q with
       | XI q0 -> coq_Nsucc_double (coq_land p0 q0)
       | XO q0 -> coq_Ndouble (coq_land p0 q0)
       | XH -> Npos XH)
    | XO p0 ->
      (match q with
       | XI q0 -> coq_Ndouble (coq_land p0 q0)
       | XO q0 -> coq_Ndouble (coq_land p0 q0)
       | XH -> N0)
    | XH -> (match q with
             | XO _ -> N0
             | _ -> Npos XH)

  (** val ldiff : positive -> positive -> n **)

  let rec ldiff p q =
    match p with
    | XI p0 ->
      (match q with
       | XI q0 -> coq_Ndouble (ldiff p0 q0)
       | XO q0 -> coq_Nsucc_double (ldiff p0 q0)
       | XH -> Npos (XO p0))
    | XO p0 ->
      (match q with
       | XI q0 -> coq_Ndouble (ldiff p0 q0)
       | XO q0 -> coq_Ndouble (ldiff p0 q0)
       | XH -> Npos p)
    | XH -> (match q with
             | XO _ -> Npos XH
             | _ -> N0)

  (** val testbit : positive -> n -> bool **)

  let rec testbit p n0 =
    match p with
    | XI p0 -> (match n0 with
                | N0 -> true
                | Npos n1 -> testbit p0 (pred_N n1))
    | XO p0 -> (match n0 with
                | N0 -> false
                | Npos n1 -> testbit p0 (pred_N n1))
    | XH -> (match n0 with
             | N0 -> true
             | Npos _ -> false)

  (** val iter_op : ('a1 -> 'a1 -> 'a1) -> positive -> 'a1 -> 'a1 **)

  let rec iter_op op p a =
    match p with
    | XI p0 -> op a (iter_op op p0 (op a a))
    | XO p0 -> iter_op op p0 (op a a)
    | XH -> a

  (** val to_nat : positive -> nat **)

  let to_nat x =
    iter_op Coq__1.add x (S O)

  (** val of_succ_nat : nat -> positive **)

  let rec of_succ_nat = function
  | O -> XH
  | S x -> succ (of_succ_nat x)
 end

module N =
 struct
  (** val succ_double : n -> n **)

  let succ_double = function
  | N0 -> Npos XH
  | Npos p -> Npos (XI p)

  (** val double : n -> n **)

  let double = function
  | N0 -> N0
  | Npos p -> Npos (XO p)

  (** val succ_pos : n -> positive **)

  let succ_pos = function
  | N0 -> XH
  | Npos p -> Coq_Pos.succ p

  (** val add : n -> n -> n **)

  let add n0 m =
    match n0 with
    | N0 -> m
    | Npos p -> (match m with
                 | N0 -> n0
                 | Npos q -> Npos (Coq_Pos.add p q))

  (** val sub : n -> n -> n **)

  let sub n0 m =
    match n0 with
    | N0 -> N0
    | Npos n' ->
      (match m with
       | N0 -> n0
       | Npos m' ->
         (match Coq_Pos.sub_mask n' m' with
          | Coq_Pos.IsPos p -> Npos p
          | _ -> N0))

  (** val mul : n -> n -> n **)

  let mul n0 m =
    match n0 with
    | N0 -> N0
    | Npos p -> (match m with
                 | N0 -> N0
                 | Npos q -> Npos (Coq_Pos.mul p q))

  (** val compare : n -> n -> comparison **)

  let compare n0 m =
    match n0 with
    | N0 -> (match m with
             | N0 -> Eq
             | Npos _ -> Lt)
    | Npos n' -> (match m with
                  | N0 -> Gt
                  | Npos m' -> Coq_Pos.compare n' m')

  (** val eqb : n -> n -> bool **)

  let eqb n0 m =
    match n0 with
    | N0 -> (match m with
             | N0 -> true
             | Npos _ -> false)
    | Npos p -> (match m with
                 | N0 -> false
                 | Npos q -> Coq_Pos.eqb p q)

  (** val leb : n -> n -> bool **)

  let leb x y =
    match compare x y with
    | Gt -> false
    | _ -> true

  (** val ltb : n -> n -> bool **)

  let ltb x y =
    match compare x y with
    | Lt -> true
    | _ -> false

  (** val div2 : n -> n **)

  let div2 = function
  | N0 -> N0
  | Npos p0 -> (match p0 with
                | XI p -> Npos p
                | XO p -> Npos p
                | XH -> N0)

  (** val even : n -> bool **)

  let even = function
  | N0 -> true
  | Npos p -> (match p with
               | XO _ -> true
               | _ -> false)

  (** val odd : n -> bool **)

  let odd n0 =
    negb (even n0)

  (** val pos_div_eucl : positive -> n -> n * n **)

  let rec pos_div_eucl a b =
    match a with
    | XI a' ->
      let (q, r) = pos_div_eucl a' b in
      let r' = succ_double r in
      if leb b r' then ((succ_double q), (sub r' b)) else ((double q), r')
    | XO a' ->
      let (q, r) = pos_div_eucl a' b in
      let r' = double r in
      if leb b r' then ((succ_double q), (sub r' b)) else ((double q), r')
    | XH ->
      (match b with
       | N0 -> (N0, (Npos XH))
       | Npos p -> (match p with
                    | XH -> ((Npos XH), N0)
                    | _ -> (N0, (Npos XH))))

  (** val div_eucl : n -> n -> n * n **)

  let div_eucl a b =
    match a with
    | N0 -> (N0, N0)
    | Npos na -> (match b with
                  | N0 -> (N0, a)
                  | Npos _ -> pos_div_eucl na b)

  (** val div : n -> n -> n **)

  let div a b =
    fst (div_eucl a b)

  (** val modulo : n -> n -> n **)

  let modulo a b =
    snd (div_eucl a b)

  (** val coq_lor : n -> n -> n **)

  let coq_lor n0 m =
    match n0 with
    | N0 -> m
    | Npos p -> (match m with
                 | N0 -> n0
                 | Npos q -> Npos (Coq_Pos.coq_lor p q))

  (** val coq_land : n -> n -> n **)

  let coq_land n0 m =
    match n0 with
    | N0 -> N0
    | Npos p -> (match m with
                 | N0 -> N0
                 | Npos q -> Coq_Pos.coq_land p q)

  (** val ldiff : n -> n -> n **)

  let ldiff n0 m =
    match n0 with
    | N0 -> N0
    | Npos p -> (match m with
                 | N0 -> n0
                 | Npos q -> Coq_Pos.ldiff p q)

  (** val testbit : n -> n -> bool **)

  let testbit a n0 =
    match a with
    | N0 -> false
    | Npos p -> Coq_Pos.testbit p n0

  (** val to_nat : n -> nat **)

  let to_nat = function
  | N0 -> O
  | Npos p -> Coq_Pos.to_nat p

  (** val of_nat : nat -> n **)

  let of_nat = function
  | O -> N0
  | S n' -> Npos (Coq_Pos.of_succ_nat n')

  (** val b2n : bool -> n **)

  let b2n = function
  | true -> Npos XH
  | false -> N0
 end

module Z =
 struct
  (** val double : z -> z **)

  let double = function
  | Z0 -> Z0
  | Zpos p -> Zpos (XO p)
  | Zneg p -> Zneg (XO p)

  (** val succ_double : z -> z **)

  let succ_double = function
  | Z0 -> Zpos XH
  | Zpos p -> Zpos (XI p)
  | Zneg p -> Zneg (Coq_Pos.pred_double p)

  (** val pred_double : z -> z **)

  let pred_double = function
  | Z0 -> Zneg XH
  | Zpos p -> Zpos (Coq_Pos.pred_double p)
  | Zneg p -> Zneg (XI p)

  (** val pos_sub : positive -> positive -> z **)

  let rec pos_sub x y =
    match x with
    | XI p ->
      (match y with
       | XI q -> double (pos_sub p q)
       | XO q -> succ_double (pos_sub p q)
       | XH -> Zpos (XO p))
    | XO p ->
      (match y with
       | XI q -> pred_double (pos_sub p q)
       | XO q -> double (pos_sub p q)
       | XH -> Zpos (Coq_Pos.pred_double p))
    | XH ->
      (match y with
       | XI q -> Zneg (XO q)
       | XO q -> Zneg (Coq_Pos.pred_double q)
       | XH -> Z0)

  (** val add : z -> z -> z **)

  let add x y =
    match x with
    | Z0 -> y
    | Zpos x' ->
      (match y with
       | Z0 -> x
       | Zpos y' -> Zpos (Coq_Pos.add x' y')
       | Zneg y' -> pos_sub x' y')
    | Zneg x' ->
      (match y with
       | Z0 -> x
       | Zpos y' -> pos_sub y' x'
       | Zneg y' -> Zneg (Coq_Pos.add x' y'))

  (** val opp : z -> z **)

  let opp = function
  | Z0 -> Z0
  | Zpos x0 -> Zneg x0
  | Zneg x0 -> Zpos x0

  (** val sub : z -> z -> z **)

  let sub m n0 =
    add m (opp n0)

  (** val mul : z -> z -> z **)

  let mul x y =
    match x with
    | Z0 -> Z0
    | Zpos x' ->
      (match y with
       | Z0 -> Z0
       | Zpos y' -> Zpos (Coq_Pos.mul x' y')
       | Zneg y' -> Zneg (Coq_Pos.mul x' y'))
    | Zneg x' ->
      (match y with
       | Z0 -> Z0
       | Zpos y' -> Zneg (Coq_Pos.mul x' y')
       | Zneg y' -> Zpos (Coq_Pos.mul x' y'))

  (** val pow_pos : z -> positive -> z **)

  let pow_pos z0 =
    Coq_Pos.iter (mul z0) (Zpos XH)

  (** val pow : z -> z -> z **)

  let pow x = function
  | Z0 -> Zpos XH
  | Zpos p -> pow_pos x p
  | Zneg _ -> Z0

  (** val compare : z -> z -> comparison **)

  let compare x y =
    match x with
    | Z0 -> (match y with
             | Z0 -> Eq
             | Zpos _ -> Lt
             | Zneg _ -> Gt)
    | Zpos x' -> (match y with
                  | Zpos y' -> Coq_Pos.compare x' y'
                  | _ -> Gt)
    | Zneg x' ->
      (match y with
       | Zneg y' -> compOpp (Coq_Pos.compare x' y')
       | _ -> Lt)

  (** val leb : z -> z -> bool **)

  let leb x y =
    match compare x y with
    | Gt -> false
    | _ -> true

  (** val ltb : z -> z -> bool **)

  let ltb x y =
    match compare x y with
    | Lt -> true
    | _ -> false

  (** val geb : z -> z -> bool **)

  let geb x y =
    match compare x y with
    | Lt -> false
    | _ -> true

  (** val gtb : z -> z -> bool **)

  let gtb x y =
    match compare x y with
    | Gt -> true
    | _ -> false

  (** val eqb : z -> z -> bool **)

  let eqb x y =
    match x with
    | Z0 -> (match y with
             | Z0 -> true
             | _ -> false)
    | Zpos p -> (match y with
                 | Zpos q -> Coq_Pos.eqb p q
                 | _ -> false)
    | Zneg p -> (match y with
                 | Zneg q -> Coq_Pos.eqb p q
                 | _ -> false)

  (** val max : z -> z -> z **)

  let max n0 m =
    match compare n0 m with
    | Lt -> m
    | _ -> n0

  (** val min : z -> z -> z **)

  let min n0 m =
    match compare n0 m with
    | Gt -> m
    | _ -> n0

  (** val abs : z -> z **)

  let abs = function
  | Zneg p -> Zpos p
  | x -> x

  (** val to_nat : z -> nat **)

  let to_nat = function
  | Zpos p -> Coq_Pos.to_nat p
  | _ -> O

  (** val to_N : z -> n **)

  let to_N = function
  | Zpos p -> Npos p
  | _ -> N0

  (** val of_nat : nat -> z **)

  let of_nat = function
  | O -> Z0
  | S n1 -> Zpos (Coq_Pos.of_succ_nat n1)

  (** val of_N : n -> z **)

  let of_N = function
  | N0 -> Z0
  | Npos p -> Zpos p

  (** val pos_div_eucl : positive -> z -> z * z **)

  let rec pos_div_eucl a b =
    match a with
    | XI a' ->
      let (q, r) = pos_div_eucl a' b in
      let r' = add (mul (Zpos (XO XH)) r) (Zpos XH) in
      if ltb r' b
      then ((mul (Zpos (XO XH)) q), r')
      else ((add (mul (Zpos (XO XH)) q) (Zpos XH)), (sub r' b))
    | XO a' ->
      let (q, r) = pos_div_eucl a' b in
      let r' = mul (Zpos (XO XH)) r in
      if ltb r' b
      then ((mul (Zpos (XO XH)) q), r')
      else ((add (mul (Zpos (XO XH)) q) (Zpos XH)), (sub r' b))
    | XH -> if leb (Zpos (XO XH)) b then (Z0, (Zpos XH)) else ((Zpos XH), Z0)

  (** val div_eucl : z -> z -> z * z **)

  let div_eucl a b =
    match a with
    | Z0 -> (Z0, Z0)
    | Zpos a' ->
      (match b with
       | Z0 -> (Z0, a)
       | Zpos _ -> pos_div_eucl a' b
       | Zneg b' ->
         let (q, r) = pos_div_eucl a' (Zpos b') in
         (match r with
          | Z0 -> ((opp q), Z0)
          | _ -> ((opp (add q (Zpos XH))), (add b r))))
    | Zneg a' ->
      (match b with
       | Z0 -> (Z0, a)
       | Zpos _ ->
         let (q, r) = pos_div_eucl a' b in
         (match r with
          | Z0 -> ((opp q), Z0)
          | _ -> ((opp (add q (Zpos XH))), (sub b r)))
       | Zneg b' -> let (q, r) = pos_div_eucl a' (Zpos b') in (q, (opp r)))

  (** val div : z -> z -> z **)

  let div a b =
    let (q, _) = div_eucl a b in q

  (** val modulo : z -> z -> z **)

  let modulo a b =
    let (_, r) = div_eucl a b in r

  (** val quotrem : z -> z -> z * z **)

  let quotrem a b =
    match a with
    | Z0 -> (Z0, Z0)
    | Zpos a0 ->
      (match b with
       | Z0 -> (Z0, a)
       | Zpos b0 ->
         let (q, r) = N.pos_div_eucl a0 (Npos b0) in ((of_N q), (of_N r))
       | Zneg b0 ->
         let (q, r) = N.pos_div_eucl a0 (Npos b0) in
         ((opp (of_N q)), (of_N r)))
    | Zneg a0 ->
      (match b with
       | Z0 -> (Z0, a)
       | Zpos b0 ->
         let (q, r) = N.pos_div_eucl a0 (Npos b0) in
         ((opp (of_N q)), (opp (of_N r)))
       | Zneg b0 ->
         let (q, r) = N.pos_div_eucl a0 (Npos b0) in
         ((of_N q), (opp (of_N r))))

  (** val quot : z -> z -> z **)

  let quot a b =
    fst (quotrem a b)

  (** val even : z -> bool **)

  let even = function
  | Z0 -> true
  | Zpos p -> (match p with
               | XO _ -> true
               | _ -> false)
  | Zneg p -> (match p with
               | XO _ -> true
               | _ -> false)

  (** val odd : z -> bool **)

  let odd = function
  | Z0 -> false
  | Zpos p -> (match p with
               | XO _ -> false
               | _ -> true)
  | Zneg p -> (match p with
               | XO _ -> false
               | _ -> true)

  (** val div2 : z -> z **)

  let div2 = function
  | Z0 -> Z0
  | Zpos p -> (match p with
               | XH -> Z0
               | _ -> Zpos (Coq_Pos.div2 p))
  | Zneg p -> Zneg (Coq_Pos.div2_up p)

  (** val log2 : z -> z **)

  let log2 = function
  | Zpos p0 ->
    (match p0 with
     | XI p -> Zpos (Coq_Pos.size p)
     | XO p -> Zpos (Coq_Pos.size p)
     | XH -> Z0)
  | _ -> Z0

  (** val testbit : z -> z -> bool **)

  let testbit a = function
  | Z0 -> odd a
  | Zpos p ->
    (match a with
     | Z0 -> false
     | Zpos a0 -> Coq_Pos.testbit a0 (Npos p)
     | Zneg a0 -> negb (N.testbit (Coq_Pos.pred_N a0) (Npos p)))
  | Zneg _ -> false

  (** val shiftl : z -> z -> z **)

  let shiftl a = function
  | Z0 -> a
  | Zpos p -> Coq_Pos.iter (mul (Zpos (XO XH))) a p
  | Zneg p -> Coq_Pos.iter div2 a p

  (** val shiftr : z -> z -> z **)

  let shiftr a n0 =
    shiftl a (opp n0)

  (** val coq_lor : z -> z -> z **)

  let coq_lor a b =
    match a with
    | Z0 -> b
    | Zpos a0 ->
      (match b with
       | Z0 -> a
       | Zpos b0 -> Zpos (Coq_Pos.coq_lor a0 b0)
       | Zneg b0 -> Zneg (N.succ_pos (N.ldiff (Coq_Pos.pred_N b0) (Npos a0))))
    | Zneg a0 ->
      (match b with
       | Z0 -> a
       | Zpos b0 -> Zneg (N.succ_pos (N.ldiff (Coq_Pos.pred_N a0) (Npos b0)))
       | Zneg b0 ->
         Zneg
           (N.succ_pos (N.coq_land (Coq_Pos.pred_N a0) (Coq_Pos.pred_N b0))))

  (** val coq_land : z -> z -> z **)

  let coq_land a b =
    match a with
    | Z0 -> Z0
    | Zpos a0 ->
      (match b with
       | Z0 -> Z0
       | Zpos b0 -> of_N (Coq_Pos.coq_land a0 b0)
       | Zneg b0 -> of_N (N.ldiff (Npos a0) (Coq_Pos.pred_N b0)))
    | Zneg a0 ->
      (match b with
       | Z0 -> Z0
       | Zpos b0 -> of_N (N.ldiff (Npos b0) (Coq_Pos.pred_N a0))
       | Zneg b0 ->
         Zneg (N.succ_pos (N.coq_lor (Coq_Pos.pred_N a0) (Coq_Pos.pred_N b0))))
 end

(** val general_vendor_string : n list **)

let general_vendor_string =
  (Npos (XO (XO (XO (XI (XI (XO XH))))))) :: ((Npos (XI (XO (XO (XI (XO (XI
    XH))))))) :: ((Npos (XO (XO (XO (XO (XI (XI XH))))))) :: ((Npos (XO (XO
    (XO (XI (XO (XI XH))))))) :: ((Npos (XO (XI (XI (XI (XO
    XH)))))) :: ((Npos (XI (XI (XI (XI (XO (XO XH))))))) :: ((Npos (XO (XI
    (XO (XO (XI (XI XH))))))) :: ((Npos (XI (XI (XI (XO (XO (XI
    XH))))))) :: ((Npos (XO (XO (XO (XO (XO XH)))))) :: ((Npos (XO (XO (XI
    (XI (XO (XI XH))))))) :: ((Npos (XI (XO (XO (XI (XO (XI
    XH))))))) :: ((Npos (XO (XI (XO (XO (XO (XI XH))))))) :: ((Npos (XO (XI
    (XI (XO (XI (XO XH))))))) :: ((Npos (XI (XI (XI (XI (XO (XI
    XH))))))) :: ((Npos (XO (XI (XO (XO (XI (XI XH))))))) :: ((Npos (XO (XI
    (XO (XO (XO (XI XH))))))) :: ((Npos (XI (XO (XO (XI (XO (XI
    XH))))))) :: ((Npos (XI (XI (XO (XO (XI (XI XH))))))) :: ((Npos (XO (XO
    (XO (XO (XO XH)))))) :: ((Npos (XI (XO (XO (XO (XI XH)))))) :: ((Npos (XO
    (XI (XI (XI (XO XH)))))) :: ((Npos (XI (XI (XO (XO (XI XH)))))) :: ((Npos
    (XO (XI (XI (XI (XO XH)))))) :: ((Npos (XI (XI (XI (XO (XI
    XH)))))) :: [])))))))))))))))))))))))

(** val encode_vendor_string : n list **)

let encode_vendor_string =
  (Npos (XO (XO (XO (XI (XI (XO XH))))))) :: ((Npos (XI (XO (XO (XI (XO (XI
    XH))))))) :: ((Npos (XO (XO (XO (XO (XI (XI XH))))))) :: ((Npos (XO (XO
    (XO (XI (XO (XI XH))))))) :: ((Npos (XO (XI (XI (XI (XO
    XH)))))) :: ((Npos (XI (XI (XI (XI (XO (XO XH))))))) :: ((Npos (XO (XI
    (XO (XO (XI (XI XH))))))) :: ((Npos (XI (XI (XI (XO (XO (XI
    XH))))))) :: ((Npos (XO (XO (XO (XO (XO XH)))))) :: ((Npos (XO (XO (XI
    (XI (XO (XI XH))))))) :: ((Npos (XI (XO (XO (XI (XO (XI
    XH))))))) :: ((Npos (XO (XI (XO (XO (XO (XI XH))))))) :: ((Npos (XO (XI
    (XI (XO (XI (XO XH))))))) :: ((Npos (XI (XI (XI (XI (XO (XI
    XH))))))) :: ((Npos (XO (XI (XO (XO (XI (XI XH))))))) :: ((Npos (XO (XI
    (XO (XO (XO (XI XH))))))) :: ((Npos (XI (XO (XO (XI (XO (XI
    XH))))))) :: ((Npos (XI (XI (XO (XO (XI (XI XH))))))) :: ((Npos (XO (XO
    (XO (XO (XO XH)))))) :: ((Npos (XI (XO (XO (XI (XO (XO
    XH))))))) :: ((Npos (XO (XO (XO (XO (XO XH)))))) :: ((Npos (XO (XI (XO
    (XO (XI XH)))))) :: ((Npos (XO (XO (XO (XO (XI XH)))))) :: ((Npos (XO (XI
    (XO (XO (XI XH)))))) :: ((Npos (XO (XO (XO (XO (XI XH)))))) :: ((Npos (XO
    (XO (XO (XO (XI XH)))))) :: ((Npos (XI (XI (XI (XO (XI XH)))))) :: ((Npos
    (XO (XO (XO (XO (XI XH)))))) :: ((Npos (XO (XO (XI (XO (XI
    XH)))))) :: ((Npos (XO (XO (XO (XO (XO XH)))))) :: ((Npos (XO (XO (XO (XI
    (XO XH)))))) :: ((Npos (XO (XI (XO (XO (XI (XO XH))))))) :: ((Npos (XI
    (XO (XI (XO (XO (XI XH))))))) :: ((Npos (XO (XO (XI (XO (XO (XI
    XH))))))) :: ((Npos (XI (XO (XI (XO (XI (XI XH))))))) :: ((Npos (XI (XI
    (XO (XO (XO (XI XH))))))) :: ((Npos (XI (XO (XO (XI (XO (XI
    XH))))))) :: ((Npos (XO (XI (XI (XI (XO (XI XH))))))) :: ((Npos (XI (XI
    (XI (XO (XO (XI XH))))))) :: ((Npos (XO (XO (XO (XO (XO
    XH)))))) :: ((Npos (XI (XO (XI (XO (XO (XO XH))))))) :: ((Npos (XO (XI
    (XI (XI (XO (XI XH))))))) :: ((Npos (XO (XI (XI (XO (XI (XI
    XH))))))) :: ((Npos (XI (XO (XO (XI (XO (XI XH))))))) :: ((Npos (XO (XI
    (XO (XO (XI (XI XH))))))) :: ((Npos (XI (XI (XI (XI (XO (XI
    XH))))))) :: ((Npos (XO (XI (XI (XI (XO (XI XH))))))) :: ((Npos (XI (XO
    (XI (XI (XO (XI XH))))))) :: ((Npos (XI (XO (XI (XO (XO (XI
    XH))))))) :: ((Npos (XO (XI (XI (XI (XO (XI XH))))))) :: ((Npos (XO (XO
    (XI (XO (XI (XI XH))))))) :: ((Npos (XI (XO (XO (XI (XO
    XH)))))) :: [])))))))))))))))))))))))))))))))))))))))))))))))))))

(** val vIF_POSIT : z **)

let vIF_POSIT =
  Zpos (XI (XI (XI (XI (XI XH)))))

(** val vI_TIMEB : z **)

let vI_TIMEB =
  Zpos XH

(** val vI_FLOORB : z **)

let vI_FLOORB =
  Zpos (XO XH)

(** val vI_RESB : z **)

let vI_RESB =
  Zpos (XI XH)

(** val vI_MAPB : z **)

let vI_MAPB =
  Zpos XH

(** val setup_templates :
    (((((((z * z) * z) * z) * z list) * z list) * z list) * z list) list **)

let setup_templates =
  ((((((((Zpos (XO XH)), (Zpos (XO (XO (XO (XO (XO (XO (XI (XO (XO (XO (XI
    (XI (XI (XO (XO XH))))))))))))))))), (Zpos (XO (XO (XO (XO (XI (XO (XI
    (XO (XI (XI (XO (XO (XO (XO (XI XH))))))))))))))))), (Zpos (XI (XI (XO
    XH))))), ((Zpos (XO (XI (XO (XI (XI (XO (XO (XI (XI (XO (XO (XI (XI (XO
    (XO (XI (XI (XO (XO (XI (XI (XO (XO (XI (XI (XO (XO (XI (XI (XO (XO (XI
    (XI (XO (XO (XI (XI (XO (XO (XI (XI (XO (XO (XI (XI (XO (XO (XI (XI (XO
    (XO (XI (XI (XI (XO (XI (XI (XI (XI (XI (XI (XI (XO
    XH)))))))))))))))))))))))))))))))))))))))))))))))))))))))))))))))) :: (Z0 :: ((Zpos
    (XO (XI (XO (XI (XI (XO (XO (XI (XI (XO (XO (XI (XI (XO (XO (XI (XI (XO
    (XO (XI (XI (XO (XO (XI (XI (XO (XO (XI (XI (XO (XO (XI (XI (XO (XO (XI
    (XI (XO (XO (XI (XI (XO (XO (XI (XI (XO (XO (XI (XI (XO (XO (XI (XI (XI
    (XO (XI (XI (XI (XI (XI (XI
    XH)))))))))))))))))))))))))))))))))))))))))))))))))))))))))))))) :: ((Zpos
    (XO (XI (XO (XI (XI (XO (XO (XI (XI (XO (XO (XI (XI (XO (XO (XI (XI (XO
    (XO (XI (XI (XO (XO (XI (XI (XO (XO (XI (XI (XO (XO (XI (XI (XO (XO (XI
    (XI (XO (XO (XI (XI (XO (XO (XI (XI (XO (XO (XI (XI (XO (XO (XI (XO (XO
    (XI (XI (XI (XI (XI (XI (XI
    XH)))))))))))))))))))))))))))))))))))))))))))))))))))))))))))))) :: ((Zpos
    (XI (XI (XO (XO (XI (XI (XO (XO (XI (XI (XO (XO (XI (XI (XO (XO (XI (XI
    (XO (XO (XI (XI (XO (XO (XI (XI (XO (XO (XI (XI (XO (XO (XI (XI (XO (XO
    (XI (XI (XO (XO (XI (XI (XO (XO (XI (XI (XO (XO (XI (XI (XO (XO (XI (XO
    (XI (XI (XI (XI (XI (XI (XI
    XH)))))))))))))))))))))))))))))))))))))))))))))))))))))))))))))) :: ((Zpos
    (XO (XI (XO (XI (XI (XO (XO (XI (XI (XO (XO (XI (XI (XO (XO (XI (XI (XO
    (XO (XI (XI (XO (XO (XI (XI (XO (XO (XI (XI (XO (XO (XI (XI (XO (XO (XI
    (XI (XO (XO (XI (XI (XO (XO (XI (XI (XO (XO (XI (XI (XO (XO (XI (XI (XO
    (XI (XI (XI (XI (XI (XI (XI
    XH)))))))))))))))))))))))))))))))))))))))))))))))))))))))))))))) :: ((Zpos
    (XO (XO (XO (XO (XO (XO (XO (XO (XO (XO (XO (XO (XO (XO (XO (XO (XO (XO
    (XO (XO (XO (XO (XO (XO (XO (XO (XO (XO (XO (XO (XO (XO (XO (XO (XO (XO
    (XO (XO (XO (XO (XO (XO (XO (XO (XO (XO (XO (XO (XO (XO (XO (XO (XO (XI
    (XI (XI (XI (XI (XI (XI (XI
    XH)))))))))))))))))))))))))))))))))))))))))))))))))))))))))))))) :: ((Zpos
    (XI (XI (XO (XO (XI (XI (XO (XO (XI (XI (XO (XO (XI (XI (XO (XO (XI (XI
    (XO (XO (XI (XI (XO (XO (XI (XI (XO (XO (XI (XI (XO (XO (XI (XI (XO (XO
    (XI (XI (XO (XO (XI (XI (XO (XO (XI (XI (XO (XO (XI (XI (XO (XO (XO (XI
    (XI (XI (XI (XI (XI (XI (XI
    XH)))))))))))))))))))))))))))))))))))))))))))))))))))))))))))))) :: ((Zpos
    (XO (XI (XI (XO (XO (XI (XI (XO (XO (XI (XI (XO (XO (XI (XI (XO (XO (XI
    (XI (XO (XO (XI (XI (XO (XO (XI (XI (XO (XO (XI (XI (XO (XO (XI (XI (XO
    (XO (XI (XI (XO (XO (XI (XI (XO (XO (XI (XI (XO (XO (XI (XI (XO (XO (XI
    (XI (XI (XI (XI (XI (XI (XI
    XH)))))))))))))))))))))))))))))))))))))))))))))))))))))))))))))) :: ((Zpos
    (XO (XI (XO (XI (XI (XO (XO (XI (XI (XO (XO (XI (XI (XO (XO (XI (XI (XO
    (XO (XI (XI (XO (XO (XI (XI (XO (XO (XI (XI (XO (XO (XI (XI (XO (XO (XI
    (XI (XO (XO (XI (XI (XO (XO (XI (XI (XO (XO (XI (XI (XO (XO (XI (XO (XI
    (XI (XI (XI (XI (XI (XI (XI
    XH)))))))))))))))))))))))))))))))))))))))))))))))))))))))))))))) :: ((Zpos
    (XI (XO (XI (XI (XO (XO (XI (XI (XO (XO (XI (XI (XO (XO (XI (XI (XO (XO
    (XI (XI (XO (XO (XI (XI (XO (XO (XI (XI (XO (XO (XI (XI (XO (XO (XI (XI
    (XO (XO (XI (XI (XO (XO (XI (XI (XO (XO (XI (XI (XO (XO (XI (XI (XO (XI
    (XI (XI (XI (XI (XI (XI (XI
    XH)))))))))))))))))))))))))))))))))))))))))))))))))))))))))))))) :: ((Zpos
    (XO (XO (XO (XO (XO (XO (XO (XO (XO (XO (XO (XO (XO (XO (XO (XO (XO (XO
    (XO (XO (XO (XO (XO (XO (XO (XO (XO (XO (XO (XO (XO (XO (XO (XO (XO (XO
    (XO (XO (XO (XO (XO (XO (XO (XO (XO (XO (XO (XO (XO (XO (XO (XO (XI (XI
    (XI (XI (XI (XI (XI (XI (XI
    XH)))))))))))))))))))))))))))))))))))))))))))))))))))))))))))))) :: []))))))))))))),
    ((Zpos (XO (XO (XO (XO (XO (XO (XO (XO (XO (XO (XO (XO (XO (XO (XO (XO
    (XO (XO (XO (XO (XO (XO (XO (XO (XO (XO (XO (XO (XO (XO (XO (XO (XO (XO
    (XO (XO (XO (XO (XO (XO (XI (XO (XO (XI (XI (XI (XI (XI (XI (XO (XI (XO
    (XI (XO (XI (XI (XO (XO (XO (XO (XO (XO
    XH))))))))))))))))))))))))))))))))))))))))))))))))))))))))))))))) :: ((Zpos
    (XO (XO (XO (XO (XO (XO (XO (XO (XO (XO (XO (XO (XO (XO (XO (XO (XO (XO
    (XO (XO (XO (XO (XO (XO (XO (XO (XO (XO (XO (XO (XO (XO (XO (XO (XO (XO
    (XO (XO (XO (XO (XO (XO (XO (XO (XO (XO (XI (XO (XI (XI (XI (XI (XI (XO
    (XI (XI (XO (XO (XO (XO (XO (XO
    XH))))))))))))))))))))))))))))))))))))))))))))))))))))))))))))))) :: ((Zpos
    (XO (XO (XO (XO (XO (XO (XO (XO (XO (XO (XO (XO (XO (XO (XO (XO (XO (XO
    (XO (XO (XO (XO (XO (XO (XO (XO (XO (XO (XO (XO (XO (XO (XO (XO (XO (XO
    (XO (XO (XO (XO (XO (XO (XO (XI (XO (XO (XO (XI (XI (XI (XO (XO (XO (XI
    (XI (XI (XO (XO (XO (XO (XO (XO
    XH))))))))))))))))))))))))))))))))))))))))))))))))))))))))))))))) :: ((Zpos
    (XO (XO (XO (XO (XO (XO (XO (XO (XO (XO (XO (XO (XO (XO (XO (XO (XO (XO
    (XO (XO (XO (XO (XO (XO (XO (XO (XO (XO (XO (XO (XO (XO (XO (XO (XO (XO
    (XO (XO (XO (XO (XO (XO (XO (XO (XI (XI (XI (XO (XI (XI (XI (XO (XO (XI
    (XI (XI (XO (XO (XO (XO (XO (XO
    XH))))))))))))))))))))))))))))))))))))))))))))))))))))))))))))))) :: ((Zpos
    (XO (XO (XO (XO (XO (XO (XO (XO (XO (XO (XO (XO (XO (XO (XO (XO (XO (XO
    (XO (XO (XO (XO (XO (XO (XO (XO (XO (XO (XO (XO (XO (XO (XO (XO (XO (XO
    (XO (XO (XO (XO (XO (XO (XO (XI (XI (XO (XI (XO (XI (XI (XO (XI (XO (XI
    (XI (XI (XO (XO (XO (XO (XO (XO
    XH))))))))))))))))))))))))))))))))))))))))))))))))))))))))))))))) :: ((Zpos
    (XO (XO (XO (XO (XO (XO (XO (XO (XO (XO (XO (XO (XO (XO (XO (XO (XO (XO
    (XO (XO (XO (XO (XO (XO (XO (XO (XO (XO (XO (XO (XO (XO (XO (XO (XO (XO
    (XO (XO (XO (XO (XO (XO (XO (XO (XO (XO (XI (XO (XI (XI (XI (XI (XO (XI
    (XI (XI (XO (XO (XO (XO (XO (XO
    XH))))))))))))))))))))))))))))))))))))))))))))))))))))))))))))))) :: ((Zpos
    (XO (XO (XO (XO (XO (XO (XO (XO (XO (XO (XO (XO (XO (XO (XO (XO (XO (XO
    (XO (XO (XO (XO (XO (XO (XO (XO (XO (XO (XO (XO (XO (XO (XO (XO (XO (XO
    (XO (XO (XO (XO (XO (XO (XO (XI (XO (XO (XO (XI (XI (XI (XO (XO (XI (XI
    (XI (XI (XO (XO (XO (XO (XO (XO
    XH))))))))))))))))))))))))))))))))))))))))))))))))))))))))))))))) :: ((Zpos
    (XO (XO (XO (XO (XO (XO (XO (XO (XO (XO (XO (XO (XO (XO (XO (XO (XO (XO
    (XO (XO (XO (XO (XO (XO (XO (XO (XO (XO (XO (XO (XO (XO (XO (XO (XO (XO
    (XO (XO (XO (XO (XO (XO (XO (XO (XI (XI (XI (XO (XI (XI (XI (XO (XI (XI
    (XI (XI (XO (XO (XO (XO (XO (XO
    XH))))))))))))))))))))))))))))))))))))))))))))))))))))))))))))))) :: ((Zpos
    (XO (XO (XO (XO (XO (XO (XO (XO (XO (XO (XO (XO (XO (XO (XO (XO (XO (XO
    (XO (XO (XO (XO (XO (XO (XO (XO (XO (XO (XO (XO (XO (XO (XO (XO (XO (XO
    (XO (XO (XO (XO (XO (XO (XO (XI (XI (XO (XI (XO (XI (XI (XO (XI (XI (XI
    (XI (XI (XO (XO (XO (XO (XO (XO
    XH))))))))))))))))))))))))))))))))))))))))))))))))))))))))))))))) :: ((Zpos
    (XO (XO (XO (XO (XO (XO (XO (XO (XO (XO (XO (XO (XO (XO (XO (XO (XO (XO
    (XO (XO (XO (XO (XO (XO (XO (XO (XO (XO (XO (XO (XO (XO (XO (XO (XO (XO
    (XO (XO (XO (XO (XO (XO (XO (XO (XO (XO (XI (XO (XI (XI (XI (XI (XI (XI
    (XI (XI (XO (XO (XO (XO (XO (XO
    XH))))))))))))))))))))))))))))))))))))))))))))))))))))))))))))))) :: ((Zpos
    (XO (XO (XO (XO (XO (XO (XO (XO (XO (XO (XO (XO (XO (XO (XO (XO (XO (XO
    (XO (XO (XO (XO (XO (XO (XO (XO (XO (XO (XO (XO (XO (XO (XO (XO (XO (XO
    (XO (XO (XO (XO (XO (XO (XO (XI (XO (XO (XO (XI (XI (XI (XO (XO (XO (XO
    (XO (XO (XI (XO (XO (XO (XO (XO
    XH))))))))))))))))))))))))))))))))))))))))))))))))))))))))))))))) :: ((Zpos
    (XO (XO (XO (XO (XO (XO (XO (XO (XO (XO (XO (XO (XO (XO (XO (XO (XO (XO
    (XO (XO (XO (XO (XO (XO (XO (XO (XO (XO (XO (XO (XO (XO (XO (XO (XO (XI
    (XO (XO (XO (XI (XO (XO (XI (XO (XO (XO (XO (XI (XO (XI (XI (XI (XO (XO
    (XO (XO (XI (XO (XO (XO (XO (XO
    XH))))))))))))))))))))))))))))))))))))))))))))))))))))))))))))))) :: []))))))))))))),
    ((Zpos (XO (XO (XO (XO (XO (XO (XO (XO (XO XH)))))))))) :: ((Zpos (XO (XO
    (XO (XO (XO (XO (XO (XO XH))))))))) :: ((Zpos (XO (XO (XO (XO (XO (XO (XO
    (XO XH))))))))) :: ((Zpos (XO (XO (XO (XO (XO (XO (XO (XO
    XH))))))))) :: ((Zpos (XO (XO (XO (XO (XO (XO (XO (XO
    XH))))))))) :: ((Zpos (XO (XO (XO (XO (XO (XO (XO (XO
    XH))))))))) :: ((Zpos (XO (XO (XO (XO (XO (XO (XO (XO
    XH))))))))) :: ((Zpos (XO (XO (XO (XO (XO (XO (XO (XO
    XH))))))))) :: ((Zpos (XO (XO (XO (XO (XO (XO (XO (XO
    XH))))))))) :: ((Zpos (XO (XO (XO (XO (XO (XO (XO (XO
    XH))))))))) :: ((Zpos (XO (XO (XO (XO (XO (XO (XO (XO
    XH))))))))) :: [])))))))))))), ((Zpos (XO (XO (XO (XO (XO (XO (XO (XO (XO
    (XO (XO (XO XH))))))))))))) :: ((Zpos (XO (XO (XO (XO (XO (XO (XO (XO (XO
    (XO (XO XH)))))))))))) :: ((Zpos (XO (XO (XO (XO (XO (XO (XO (XO (XO (XO
    (XO XH)))))))))))) :: ((Zpos (XO (XO (XO (XO (XO (XO (XO (XO (XO (XO (XO
    XH)))))))))))) :: ((Zpos (XO (XO (XO (XO (XO (XO (XO (XO (XO (XO (XO
    XH)))))))))))) :: ((Zpos (XO (XO (XO (XO (XO (XO (XO (XO (XO (XO (XO
    XH)))))))))))) :: ((Zpos (XO (XO (XO (XO (XO (XO (XO (XO (XO (XO (XO
    XH)))))))))))) :: ((Zpos (XO (XO (XO (XO (XO (XO (XO (XO (XO (XO (XO
    XH)))))))))))) :: ((Zpos (XO (XO (XO (XO (XO (XO (XO (XO (XO (XO (XO
    XH)))))))))))) :: ((Zpos (XO (XO (XO (XO (XO (XO (XO (XO (XO (XO (XO
    XH)))))))))))) :: ((Zpos (XO (XO (XO (XO (XO (XO (XO (XO (XO (XO (XO
    XH)))))))))))) :: [])))))))))))) :: (((((((((Zpos (XO (XI XH))), (Zpos
    (XO (XO (XO (XO (XO (XO (XI (XO (XO (XO (XI (XI (XI (XO (XO
    XH))))))))))))))))), (Zpos (XO (XO (XO (XO (XI (XI (XI (XO (XI (XO (XO
    (XO (XI (XO (XO (XO XH)))))))))))))))))), (Zpos (XI (XI (XO XH))))),
    ((Zpos (XO (XI (XO (XI (XI (XO (XO (XI (XI (XO (XO (XI (XI (XO (XO (XI
    (XI (XO (XO (XI (XI (XO (XO (XI (XI (XO (XO (XI (XI (XO (XO (XI (XI (XO
    (XO (XI (XI (XO (XO (XI (XI (XO (XO (XI (XI (XO (XO (XI (XI (XO (XO (XI
    (XI (XI (XO (XI (XI (XI (XI (XI (XI (XI (XO
    XH)))))))))))))))))))))))))))))))))))))))))))))))))))))))))))))))) :: (Z0 :: ((Zpos
    (XO (XI (XO (XI (XI (XO (XO (XI (XI (XO (XO (XI (XI (XO (XO (XI (XI (XO
    (XO (XI (XI (XO (XO (XI (XI (XO (XO (XI (XI (XO (XO (XI (XI (XO (XO (XI
    (XI (XO (XO (XI (XI (XO (XO (XI (XI (XO (XO (XI (XI (XO (XO (XI (XI (XI
    (XO (XI (XI (XI (XI (XI (XI
    XH)))))))))))))))))))))))))))))))))))))))))))))))))))))))))))))) :: ((Zpos
    (XO (XI (XO (XI (XI (XO (XO (XI (XI (XO (XO (XI (XI (XO (XO (XI (XI (XO
    (XO (XI (XI (XO (XO (XI (XI (XO (XO (XI (XI (XO (XO (XI (XI (XO (XO (XI
    (XI (XO (XO (XI (XI (XO (XO (XI (XI (XO (XO (XI (XI (XO (XO (XI (XO (XO
    (XI (XI (XI (XI (XI (XI (XI
    XH)))))))))))))))))))))))))))))))))))))))))))))))))))))))))))))) :: ((Zpos
    (XI (XI (XO (XO (XI (XI (XO (XO (XI (XI (XO (XO (XI (XI (XO (XO (XI (XI
    (XO (XO (XI (XI (XO (XO (XI (XI (XO (XO (XI (XI (XO (XO (XI (XI (XO (XO
    (XI (XI (XO (XO (XI (XI (XO (XO (XI (XI (XO (XO (XI (XI (XO (XO (XI (XO
    (XI (XI (XI (XI (XI (XI (XI
    XH)))))))))))))))))))))))))))))))))))))))))))))))))))))))))))))) :: ((Zpos
    (XO (XI (XO (XI (XI (XO (XO (XI (XI (XO (XO (XI (XI (XO (XO (XI (XI (XO
    (XO (XI (XI (XO (XO (XI (XI (XO (XO (XI (XI (XO (XO (XI (XI (XO (XO (XI
    (XI (XO (XO (XI (XI (XO (XO (XI (XI (XO (XO (XI (XI (XO (XO (XI (XI (XO
    (XI (XI (XI (XI (XI (XI (XI
    XH)))))))))))))))))))))))))))))))))))))))))))))))))))))))))))))) :: ((Zpos
    (XO (XO (XO (XO (XO (XO (XO (XO (XO (XO (XO (XO (XO (XO (XO (XO (XO (XO
    (XO (XO (XO (XO (XO (XO (XO (XO (XO (XO (XO (XO (XO (XO (XO (XO (XO (XO
    (XO (XO (XO (XO (XO (XO (XO (XO (XO (XO (XO (XO (XO (XO (XO (XO (XO (XI
    (XI (XI (XI (XI (XI (XI (XI
    XH)))))))))))))))))))))))))))))))))))))))))))))))))))))))))))))) :: ((Zpos
    (XI (XI (XO (XO (XI (XI (XO (XO (XI (XI (XO (XO (XI (XI (XO (XO (XI (XI
    (XO (XO (XI (XI (XO (XO (XI (XI (XO (XO (XI (XI (XO (XO (XI (XI (XO (XO
    (XI (XI (XO (XO (XI (XI (XO (XO (XI (XI (XO (XO (XI (XI (XO (XO (XO (XI
    (XI (XI (XI (XI (XI (XI (XI
    XH)))))))))))))))))))))))))))))))))))))))))))))))))))))))))))))) :: ((Zpos
    (XO (XI (XI (XO (XO (XI (XI (XO (XO (XI (XI (XO (XO (XI (XI (XO (XO (XI
    (XI (XO (XO (XI (XI (XO (XO (XI (XI (XO (XO (XI (XI (XO (XO (XI (XI (XO
    (XO (XI (XI (XO (XO (XI (XI (XO (XO (XI (XI (XO (XO (XI (XI (XO (XO (XI
    (XI (XI (XI (XI (XI (XI (XI
    XH)))))))))))))))))))))))))))))))))))))))))))))))))))))))))))))) :: ((Zpos
    (XO (XI (XO (XI (XI (XO (XO (XI (XI (XO (XO (XI (XI (XO (XO (XI (XI (XO
    (XO (XI (XI (XO (XO (XI (XI (XO (XO (XI (XI (XO (XO (XI (XI (XO (XO (XI
    (XI (XO (XO (XI (XI (XO (XO (XI (XI (XO (XO (XI (XI (XO (XO (XI (XO (XI
    (XI (XI (XI (XI (XI (XI (XI
    XH)))))))))))))))))))))))))))))))))))))))))))))))))))))))))))))) :: ((Zpos
    (XI (XO (XI (XI (XO (XO (XI (XI (XO (XO (XI (XI (XO (XO (XI (XI (XO (XO
    (XI (XI (XO (XO (XI (XI (XO (XO (XI (XI (XO (XO (XI (XI (XO (XO (XI (XI
    (XO (XO (XI (XI (XO (XO (XI (XI (XO (XO (XI (XI (XO (XO (XI (XI (XO (XI
    (XI (XI (XI (XI (XI (XI (XI
    XH)))))))))))))))))))))))))))))))))))))))))))))))))))))))))))))) :: ((Zpos
    (XO (XO (XO (XO (XO (XO (XO (XO (XO (XO (XO (XO (XO (XO (XO (XO (XO (XO
    (XO (XO (XO (XO (XO (XO (XO (XO (XO (XO (XO (XO (XO (XO (XO (XO (XO (XO
    (XO (XO (XO (XO (XO (XO (XO (XO (XO (XO (XO (XO (XO (XO (XO (XO (XI (XI
    (XI (XI (XI (XI (XI (XI (XI
    XH)))))))))))))))))))))))))))))))))))))))))))))))))))))))))))))) :: []))))))))))))),
    ((Zpos (XO (XO (XO (XO (XO (XO (XO (XO (XO (XO (XO (XO (XO (XO (XO (XO
    (XO (XO (XO (XO (XO (XO (XO (XO (XO (XO (XO (XO (XO (XO (XO (XO (XO (XO
    (XO (XO (XO (XO (XO (XO (XO (XO (XO (XI (XI (XO (XI (XO (XI (XI (XO (XI
    (XO (XO (XI (XI (XO (XO (XO (XO (XO (XO
    XH))))))))))))))))))))))))))))))))))))))))))))))))))))))))))))))) :: ((Zpos
    (XO (XO (XO (XO (XO (XO (XO (XO (XO (XO (XO (XO (XO (XO (XO (XO (XO (XO
    (XO (XO (XO (XO (XO (XO (XO (XO (XO (XO (XO (XO (XO (XO (XO (XO (XO (XO
    (XO (XO (XO (XO (XO (XO (XO (XI (XO (XO (XO (XI (XI (XI (XO (XO (XI (XO
    (XI (XI (XO (XO (XO (XO (XO (XO
    XH))))))))))))))))))))))))))))))))))))))))))))))))))))))))))))))) :: ((Zpos
    (XO (XO (XO (XO (XO (XO (XO (XO (XO (XO (XO (XO (XO (XO (XO (XO (XO (XO
    (XO (XO (XO (XO (XO (XO (XO (XO (XO (XO (XO (XO (XO (XO (XO (XO (XO (XO
    (XO (XO (XO (XO (XO (XO (XO (XI (XI (XO (XI (XO (XI (XI (XO (XI (XI (XO
    (XI (XI (XO (XO (XO (XO (XO (XO
    XH))))))))))))))))))))))))))))))))))))))))))))))))))))))))))))))) :: ((Zpos
    (XO (XO (XO (XO (XO (XO (XO (XO (XO (XO (XO (XO (XO (XO (XO (XO (XO (XO
    (XO (XO (XO (XO (XO (XO (XO (XO (XO (XO (XO (XO (XO (XO (XO (XO (XO (XO
    (XO (XO (XO (XO (XO (XI (XI (XI (XO (XO (XO (XI (XO (XI (XO (XO (XO (XI
    (XI (XI (XO (XO (XO (XO (XO (XO
    XH))))))))))))))))))))))))))))))))))))))))))))))))))))))))))))))) :: ((Zpos
    (XO (XO (XO (XO (XO (XO (XO (XO (XO (XO (XO (XO (XO (XO (XO (XO (XO (XO
    (XO (XO (XO (XO (XO (XO (XO (XO (XO (XO (XO (XO (XO (XO (XO (XO (XO (XO
    (XO (XO (XO (XO (XO (XI (XI (XO (XI (XI (XI (XO (XO (XI (XI (XO (XO (XI
    (XI (XI (XO (XO (XO (XO (XO (XO
    XH))))))))))))))))))))))))))))))))))))))))))))))))))))))))))))))) :: ((Zpos
    (XO (XO (XO (XO (XO (XO (XO (XO (XO (XO (XO (XO (XO (XO (XO (XO (XO (XO
    (XO (XO (XO (XO (XO (XO (XO (XO (XO (XO (XO (XO (XO (XO (XO (XO (XO (XO
    (XO (XO (XO (XO (XO (XI (XI (XI (XI (XO (XI (XO (XO (XI (XO (XI (XO (XI
    (XI (XI (XO (XO (XO (XO (XO (XO
    XH))))))))))))))))))))))))))))))))))))))))))))))))))))))))))))))) :: ((Zpos
    (XO (XO (XO (XO (XO (XO (XO (XO (XO (XO (XO (XO (XO (XO (XO (XO (XO (XO
    (XO (XO (XO (XO (XO (XO (XO (XO (XO (XO (XO (XO (XO (XO (XO (XO (XO (XO
    (XO (XO (XO (XI (XI (XI (XI (XI (XO (XO (XI (XO (XO (XI (XO (XO (XI (XI
    (XI (XI (XO (XO (XO (XO (XO (XO
    XH))))))))))))))))))))))))))))))))))))))))))))))))))))))))))))))) :: ((Zpos
    (XO (XO (XO (XO (XO (XO (XO (XO (XO (XO (XO (XO (XO (XO (XO (XO (XO (XO
    (XO (XO (XO (XO (XO (XO (XO (XO (XO (XO (XO (XO (XO (XO (XO (XO (XO (XO
    (XO (XO (XO (XO (XO (XO (XO (XO (XI (XI (XI (XO (XI (XI (XI (XO (XI (XI
    (XI (XI (XO (XO (XO (XO (XO (XO
    XH))))))))))))))))))))))))))))))))))))))))))))))))))))))))))))))) :: ((Zpos
    (XO (XO (XO (XO (XO (XO (XO (XO (XO (XO (XO (XO (XO (XO (XO (XO (XO (XO
    (XO (XO (XO (XO (XO (XO (XO (XO (XO (XO (XO (XO (XO (XO (XO (XO (XO (XO
    (XO (XO (XO (XO (XO (XO (XI (XI (XO (XO (XI (XO (XI (XO (XI (XI (XI (XI
    (XI (XI (XO (XO (XO (XO (XO (XO
    XH))))))))))))))))))))))))))))))))))))))))))))))))))))))))))))))) :: ((Zpos
    (XO (XO (XO (XO (XO (XO (XO (XO (XO (XO (XO (XO (XO (XO (XO (XO (XO (XO
    (XO (XO (XO (XO (XO (XO (XO (XO (XO (XO (XO (XO (XO (XO (XO (XO (XO (XO
    (XO (XO (XO (XO (XI (XI (XI (XO (XI (XO (XO (XO (XI (XO (XO (XO (XO (XO
    (XO (XO (XI (XO (XO (XO (XO (XO
    XH))))))))))))))))))))))))))))))))))))))))))))))))))))))))))))))) :: ((Zpos
    (XO (XO (XO (XO (XO (XO (XO (XO (XO (XO (XO (XO (XO (XO (XO (XO (XO (XO
    (XO (XO (XO (XO (XO (XO (XO (XO (XO (XO (XO (XO (XO (XO (XO (XO (XO (XO
    (XO (XO (XO (XO (XI (XO (XO (XI (XI (XI (XI (XI (XI (XO (XI (XO (XO (XO
    (XO (XO (XI (XO (XO (XO (XO (XO
    XH))))))))))))))))))))))))))))))))))))))))))))))))))))))))))))))) :: ((Zpos
    (XO (XO (XO (XO (XO (XO (XO (XO (XO (XO (XO (XO (XO (XO (XO (XO (XO (XO
    (XO (XO (XO (XO (XO (XO (XO (XO (XO (XO (XO (XO (XO (XO (XO (XO (XO (XI
    (XO (XO (XO (XO (XO (XO (XI (XI (XO (XO (XI (XO (XI (XO (XI (XI (XO (XO
    (XO (XO (XI (XO (XO (XO (XO (XO
    XH))))))))))))))))))))))))))))))))))))))))))))))))))))))))))))))) :: []))))))))))))),
    ((Zpos (XO (XO (XO (XO (XO (XO (XO (XO (XO XH)))))))))) :: ((Zpos (XO (XO
    (XO (XO (XO (XO (XO (XO XH))))))))) :: ((Zpos (XO (XO (XO (XO (XO (XO (XO
    (XO XH))))))))) :: ((Zpos (XO (XO (XO (XO (XO (XO (XO (XO
    XH))))))))) :: ((Zpos (XO (XO (XO (XO (XO (XO (XO (XO
    XH))))))))) :: ((Zpos (XO (XO (XO (XO (XO (XO (XO (XO
    XH))))))))) :: ((Zpos (XO (XO (XO (XO (XO (XO (XO (XO
    XH))))))))) :: ((Zpos (XO (XO (XO (XO (XO (XO (XO (XO
    XH))))))))) :: ((Zpos (XO (XO (XO (XO (XO (XO (XO (XO
    XH))))))))) :: ((Zpos (XO (XO (XO (XO (XO (XO (XO (XO
    XH))))))))) :: ((Zpos (XO (XO (XO (XO (XO (XO (XO (XO
    XH))))))))) :: [])))))))))))), ((Zpos (XO (XO (XO (XO (XO (XO (XO (XO (XO
    (XO (XO (XO XH))))))))))))) :: ((Zpos (XO (XO (XO (XO (XO (XO (XO (XO (XO
    (XO (XO XH)))))))))))) :: ((Zpos (XO (XO (XO (XO (XO (XO (XO (XO (XO (XO
    (XO XH)))))))))))) :: ((Zpos (XO (XO (XO (XO (XO (XO (XO (XO (XO (XO (XO
    XH)))))))))))) :: ((Zpos (XO (XO (XO (XO (XO (XO (XO (XO (XO (XO (XO
    XH)))))))))))) :: ((Zpos (XO (XO (XO (XO (XO (XO (XO (XO (XO (XO (XO
    XH)))))))))))) :: ((Zpos (XO (XO (XO (XO (XO (XO (XO (XO (XO (XO (XO
    XH)))))))))))) :: ((Zpos (XO (XO (XO (XO (XO (XO (XO (XO (XO (XO (XO
    XH)))))))))))) :: ((Zpos (XO (XO (XO (XO (XO (XO (XO (XO (XO (XO (XO
    XH)))))))))))) :: ((Zpos (XO (XO (XO (XO (XO (XO (XO (XO (XO (XO (XO
    XH)))))))))))) :: ((Zpos (XO (XO (XO (XO (XO (XO (XO (XO (XO (XO (XO
    XH)))))))))))) :: [])))))))))))) :: (((((((((Zneg XH), (Zpos (XO (XO (XO
    (XO (XO (XO (XI (XO (XO (XO (XI (XI (XI (XO (XO XH))))))))))))))))),
    (Zpos (XO (XO (XO (XO (XI (XO (XI (XO (XI (XI (XO (XO (XO (XO (XI
    XH))))))))))))))))), (Zpos (XI (XI (XO XH))))), ((Zpos (XO (XI (XO (XI
    (XI (XO (XO (XI (XI (XO (XO (XI (XI (XO (XO (XI (XI (XO (XO (XI (XI (XO
    (XO (XI (XI (XO (XO (XI (XI (XO (XO (XI (XI (XO (XO (XI (XI (XO (XO (XI
    (XI (XO (XO (XI (XI (XO (XO (XI (XI (XO (XO (XI (XI (XI (XO (XI (XI (XI
    (XI (XI (XI (XI (XO
    XH)))))))))))))))))))))))))))))))))))))))))))))))))))))))))))))))) :: (Z0 :: ((Zpos
    (XO (XI (XO (XI (XI (XO (XO (XI (XI (XO (XO (XI (XI (XO (XO (XI (XI (XO
    (XO (XI (XI (XO (XO (XI (XI (XO (XO (XI (XI (XO (XO (XI (XI (XO (XO (XI
    (XI (XO (XO (XI (XI (XO (XO (XI (XI (XO (XO (XI (XI (XO (XO (XI (XI (XI
    (XO (XI (XI (XI (XI (XI (XI
    XH)))))))))))))))))))))))))))))))))))))))))))))))))))))))))))))) :: ((Zpos
    (XO (XI (XO (XI (XI (XO (XO (XI (XI (XO (XO (XI (XI (XO (XO (XI (XI (XO
    (XO (XI (XI (XO (XO (XI (XI (XO (XO (XI (XI (XO (XO (XI (XI (XO (XO (XI
    (XI (XO (XO (XI (XI (XO (XO (XI (XI (XO (XO (XI (XI (XO (XO (XI (XO (XO
    (XI (XI (XI (XI (XI (XI (XI
    XH)))))))))))))))))))))))))))))))))))))))))))))))))))))))))))))) :: ((Zpos
    (XI (XI (XO (XO (XI (XI (XO (XO (XI (XI (XO (XO (XI (XI (XO (XO (XI (XI
    (XO (XO (XI (XI (XO (XO (XI (XI (XO (XO (XI (XI (XO (XO (XI (XI (XO (XO
    (XI (XI (XO (XO (XI (XI (XO (XO (XI (XI (XO (XO (XI (XI (XO (XO (XI (XO
    (XI (XI (XI (XI (XI (XI (XI
    XH)))))))))))))))))))))))))))))))))))))))))))))))))))))))))))))) :: ((Zpos
    (XO (XI (XO (XI (XI (XO (XO (XI (XI (XO (XO (XI (XI (XO (XO (XI (XI (XO
    (XO (XI (XI (XO (XO (XI (XI (XO (XO (XI (XI (XO (XO (XI (XI (XO (XO (XI
    (XI (XO (XO (XI (XI (XO (XO (XI (XI (XO (XO (XI (XI (XO (XO (XI (XI (XO
    (XI (XI (XI (XI (XI (XI (XI
    XH)))))))))))))))))))))))))))))))))))))))))))))))))))))))))))))) :: ((Zpos
    (XO (XO (XO (XO (XO (XO (XO (XO (XO (XO (XO (XO (XO (XO (XO (XO (XO (XO
    (XO (XO (XO (XO (XO (XO (XO (XO (XO (XO (XO (XO (XO (XO (XO (XO (XO (XO
    (XO (XO (XO (XO (XO (XO (XO (XO (XO (XO (XO (XO (XO (XO (XO (XO (XO (XI
    (XI (XI (XI (XI (XI (XI (XI
    XH)))))))))))))))))))))))))))))))))))))))))))))))))))))))))))))) :: ((Zpos
    (XI (XI (XO (XO (XI (XI (XO (XO (XI (XI (XO (XO (XI (XI (XO (XO (XI (XI
    (XO (XO (XI (XI (XO (XO (XI (XI (XO (XO (XI (XI (XO (XO (XI (XI (XO (XO
    (XI (XI (XO (XO (XI (XI (XO (XO (XI (XI (XO (XO (XI (XI (XO (XO (XO (XI
    (XI (XI (XI (XI (XI (XI (XI
    XH)))))))))))))))))))))))))))))))))))))))))))))))))))))))))))))) :: ((Zpos
    (XO (XI (XI (XO (XO (XI (XI (XO (XO (XI (XI (XO (XO (XI (XI (XO (XO (XI
    (XI (XO (XO (XI (XI (XO (XO (XI (XI (XO (XO (XI (XI (XO (XO (XI (XI (XO
    (XO (XI (XI (XO (XO (XI (XI (XO (XO (XI (XI (XO (XO (XI (XI (XO (XO (XI
    (XI (XI (XI (XI (XI (XI (XI
    XH)))))))))))))))))))))))))))))))))))))))))))))))))))))))))))))) :: ((Zpos
    (XO (XI (XO (XI (XI (XO (XO (XI (XI (XO (XO (XI (XI (XO (XO (XI (XI (XO
    (XO (XI (XI (XO (XO (XI (XI (XO (XO (XI (XI (XO (XO (XI (XI (XO (XO (XI
    (XI (XO (XO (XI (XI (XO (XO (XI (XI (XO (XO (XI (XI (XO (XO (XI (XO (XI
    (XI (XI (XI (XI (XI (XI (XI
    XH)))))))))))))))))))))))))))))))))))))))))))))))))))))))))))))) :: ((Zpos
    (XI (XO (XI (XI (XO (XO (XI (XI (XO (XO (XI (XI (XO (XO (XI (XI (XO (XO
    (XI (XI (XO (XO (XI (XI (XO (XO (XI (XI (XO (XO (XI (XI (XO (XO (XI (XI
    (XO (XO (XI (XI (XO (XO (XI (XI (XO (XO (XI (XI (XO (XO (XI (XI (XO (XI
    (XI (XI (XI (XI (XI (XI (XI
    XH)))))))))))))))))))))))))))))))))))))))))))))))))))))))))))))) :: ((Zpos
    (XO (XO (XO (XO (XO (XO (XO (XO (XO (XO (XO (XO (XO (XO (XO (XO (XO (XO
    (XO (XO (XO (XO (XO (XO (XO (XO (XO (XO (XO (XO (XO (XO (XO (XO (XO (XO
    (XO (XO (XO (XO (XO (XO (XO (XO (XO (XO (XO (XO (XO (XO (XO (XO (XI (XI
    (XI (XI (XI (XI (XI (XI (XI
    XH)))))))))))))))))))))))))))))))))))))))))))))))))))))))))))))) :: []))))))))))))),
    ((Zpos (XO (XO (XO (XO (XO (XO (XO (XO (XO (XO (XO (XO (XO (XO (XO (XO
    (XO (XO (XO (XO (XO (XO (XO (XO (XO (XO (XO (XO (XO (XO (XO (XO (XO (XO
    (XO (XO (XO (XO (XO (XO (XO (XO (XO (XO (XO (XO (XI (XO (XI (XI (XI (XI
    (XI (XO (XI (XI (XO (XO (XO (XO (XO (XO
    XH))))))))))))))))))))))))))))))))))))))))))))))))))))))))))))))) :: ((Zpos
    (XO (XO (XO (XO (XO (XO (XO (XO (XO (XO (XO (XO (XO (XO (XO (XO (XO (XO
    (XO (XO (XO (XO (XO (XO (XO (XO (XO (XO (XO (XO (XO (XO (XO (XO (XO (XO
    (XO (XO (XO (XO (XO (XO (XO (XO (XI (XI (XI (XO (XI (XI (XI (XO (XO (XI
    (XI (XI (XO (XO (XO (XO (XO (XO
    XH))))))))))))))))))))))))))))))))))))))))))))))))))))))))))))))) :: ((Zpos
    (XO (XO (XO (XO (XO (XO (XO (XO (XO (XO (XO (XO (XO (XO (XO (XO (XO (XO
    (XO (XO (XO (XO (XO (XO (XO (XO (XO (XO (XO (XO (XO (XO (XO (XO (XO (XO
    (XO (XO (XO (XO (XO (XO (XI (XI (XO (XO (XI (XO (XI (XO (XI (XI (XO (XI
    (XI (XI (XO (XO (XO (XO (XO (XO
    XH))))))))))))))))))))))))))))))))))))))))))))))))))))))))))))))) :: ((Zpos
    (XO (XO (XO (XO (XO (XO (XO (XO (XO (XO (XO (XO (XO (XO (XO (XO (XO (XO
    (XO (XO (XO (XO (XO (XO (XO (XO (XO (XO (XO (XO (XO (XO (XO (XO (XO (XO
    (XO (XO (XO (XO (XI (XI (XI (XO (XI (XO (XO (XO (XI (XO (XO (XO (XI (XI
    (XI (XI (XO (XO (XO (XO (XO (XO
    XH))))))))))))))))))))))))))))))))))))))))))))))))))))))))))))))) :: ((Zpos
    (XO (XO (XO (XO (XO (XO (XO (XO (XO (XO (XO (XO (XO (XO (XO (XO (XO (XO
    (XO (XO (XO (XO (XO (XO (XO (XO (XO (XO (XO (XO (XO (XO (XO (XO (XO (XO
    (XO (XO (XO (XO (XO (XO (XO (XI (XO (XO (XO (XI (XI (XI (XO (XO (XI (XI
    (XI (XI (XO (XO (XO (XO (XO (XO
    XH))))))))))))))))))))))))))))))))))))))))))))))))))))))))))))))) :: ((Zpos
    (XO (XO (XO (XO (XO (XO (XO (XO (XO (XO (XO (XO (XO (XO (XO (XO (XO (XO
    (XO (XO (XO (XO (XO (XO (XO (XO (XO (XO (XO (XO (XO (XO (XO (XO (XO (XO
    (XO (XO (XO (XO (XI (XI (XI (XI (XI (XI (XI (XI (XO (XO (XI (XO (XI (XI
    (XI (XI (XO (XO (XO (XO (XO (XO
    XH))))))))))))))))))))))))))))))))))))))))))))))))))))))))))))))) :: ((Zpos
    (XO (XO (XO (XO (XO (XO (XO (XO (XO (XO (XO (XO (XO (XO (XO (XO (XO (XO
    (XO (XO (XO (XO (XO (XO (XO (XO (XO (XO (XO (XO (XO (XO (XO (XO (XO (XO
    (XO (XO (XO (XO (XO (XO (XO (XO (XI (XI (XI (XO (XI (XI (XI (XO (XI (XI
    (XI (XI (XO (XO (XO (XO (XO (XO
    XH))))))))))))))))))))))))))))))))))))))))))))))))))))))))))))))) :: ((Zpos
    (XO (XO (XO (XO (XO (XO (XO (XO (XO (XO (XO (XO (XO (XO (XO (XO (XO (XO
    (XO (XO (XO (XO (XO (XO (XO (XO (XO (XO (XO (XO (XO (XO (XO (XO (XO (XO
    (XO (XO (XO (XO (XI (XI (XO (XI (XI (XO (XI (XI (XO (XI (XO (XI (XI (XI
    (XI (XI (XO (XO (XO (XO (XO (XO
    XH))))))))))))))))))))))))))))))))))))))))))))))))))))))))))))))) :: ((Zpos
    (XO (XO (XO (XO (XO (XO (XO (XO (XO (XO (XO (XO (XO (XO (XO (XO (XO (XO
    (XO (XO (XO (XO (XO (XO (XO (XO (XO (XO (XO (XO (XO (XO (XO (XO (XO (XO
    (XO (XO (XO (XO (XO (XO (XI (XI (XO (XO (XI (XO (XI (XO (XI (XI (XI (XI
    (XI (XI (XO (XO (XO (XO (XO (XO
    XH))))))))))))))))))))))))))))))))))))))))))))))))))))))))))))))) :: ((Zpos
    (XO (XO (XO (XO (XO (XO (XO (XO (XO (XO (XO (XO (XO (XO (XO (XO (XO (XO
    (XO (XO (XO (XO (XO (XO (XO (XO (XO (XO (XO (XO (XO (XO (XO (XO (XO (XO
    (XO (XO (XO (XO (XI (XI (XI (XO (XI (XO (XO (XO (XI (XO (XO (XO (XO (XO
    (XO (XO (XI (XO (XO (XO (XO (XO
    XH))))))))))))))))))))))))))))))))))))))))))))))))))))))))))))))) :: ((Zpos
    (XO (XO (XO (XO (XO (XO (XO (XO (XO (XO (XO (XO (XO (XO (XO (XO (XO (XO
    (XO (XO (XO (XO (XO (XO (XO (XO (XO (XO (XO (XO (XO (XO (XO (XO (XO (XO
    (XO (XO (XO (XO (XO (XO (XO (XI (XO (XO (XO (XI (XI (XI (XO (XO (XO (XO
    (XO (XO (XI (XO (XO (XO (XO (XO
    XH))))))))))))))))))))))))))))))))))))))))))))))))))))))))))))))) :: ((Zpos
    (XO (XO (XO (XO (XO (XO (XO (XO (XO (XO (XO (XO (XO (XO (XO (XO (XO (XO
    (XO (XO (XO (XO (XO (XO (XO (XO (XO (XO (XO (XO (XO (XO (XO (XO (XO (XI
    (XO (XO (XO (XO (XO (XO (XI (XI (XO (XO (XI (XO (XI (XO (XI (XI (XO (XO
    (XO (XO (XI (XO (XO (XO (XO (XO
    XH))))))))))))))))))))))))))))))))))))))))))))))))))))))))))))))) :: []))))))))))))),
    ((Zpos (XO (XO (XO (XO (XO (XO (XO (XO (XO XH)))))))))) :: ((Zpos (XO (XO
    (XO (XO (XO (XO (XO (XO XH))))))))) :: ((Zpos (XO (XO (XO (XO (XO (XO (XO
    (XO XH))))))))) :: ((Zpos (XO (XO (XO (XO (XO (XO (XO (XO
    XH))))))))) :: ((Zpos (XO (XO (XO (XO (XO (XO (XO (XO
    XH))))))))) :: ((Zpos (XO (XO (XO (XO (XO (XO (XO (XO
    XH))))))))) :: ((Zpos (XO (XO (XO (XO (XO (XO (XO (XO
    XH))))))))) :: ((Zpos (XO (XO (XO (XO (XO (XO (XO (XO
    XH))))))))) :: ((Zpos (XO (XO (XO (XO (XO (XO (XO (XO
    XH))))))))) :: ((Zpos (XO (XO (XO (XO (XO (XO (XO (XO
    XH))))))))) :: ((Zpos (XO (XO (XO (XO (XO (XO (XO (XO
    XH))))))))) :: [])))))))))))), ((Zpos (XO (XO (XO (XO (XO (XO (XO (XO (XO
    (XO (XO (XO XH))))))))))))) :: ((Zpos (XO (XO (XO (XO (XO (XO (XO (XO (XO
    (XO (XO XH)))))))))))) :: ((Zpos (XO (XO (XO (XO (XO (XO (XO (XO (XO (XO
    (XO XH)))))))))))) :: ((Zpos (XO (XO (XO (XO (XO (XO (XO (XO (XO (XO (XO
    XH)))))))))))) :: ((Zpos (XO (XO (XO (XO (XO (XO (XO (XO (XO (XO (XO
    XH)))))))))))) :: ((Zpos (XO (XO (XO (XO (XO (XO (XO (XO (XO (XO (XO
    XH)))))))))))) :: ((Zpos (XO (XO (XO (XO (XO (XO (XO (XO (XO (XO (XO
    XH)))))))))))) :: ((Zpos (XO (XO (XO (XO (XO (XO (XO (XO (XO (XO (XO
    XH)))))))))))) :: ((Zpos (XO (XO (XO (XO (XO (XO (XO (XO (XO (XO (XO
    XH)))))))))))) :: ((Zpos (XO (XO (XO (XO (XO (XO (XO (XO (XO (XO (XO
    XH)))))))))))) :: ((Zpos (XO (XO (XO (XO (XO (XO (XO (XO (XO (XO (XO
    XH)))))))))))) :: [])))))))))))) :: (((((((((Zpos (XO XH)), (Zpos (XO (XO
    (XO (XO (XI (XO (XO (XI (XI (XO (XI (XO (XO (XI XH)))))))))))))))), (Zpos
    (XO (XO (XO (XO (XO (XO (XI (XO (XO (XO (XI (XI (XI (XO (XO
    XH))))))))))))))))), (Zpos (XI (XI (XO XH))))), ((Zpos (XO (XI (XO (XI
    (XI (XO (XO (XI (XI (XO (XO (XI (XI (XO (XO (XI (XI (XO (XO (XI (XI (XO
    (XO (XI (XI (XO (XO (XI (XI (XO (XO (XI (XI (XO (XO (XI (XI (XO (XO (XI
    (XI (XO (XO (XI (XI (XO (XO (XI (XI (XO (XO (XI (XI (XI (XO (XI (XI (XI
    (XI (XI (XI (XI (XO
    XH)))))))))))))))))))))))))))))))))))))))))))))))))))))))))))))))) :: (Z0 :: ((Zpos
    (XO (XI (XO (XI (XI (XO (XO (XI (XI (XO (XO (XI (XI (XO (XO (XI (XI (XO
    (XO (XI (XI (XO (XO (XI (XI (XO (XO (XI (XI (XO (XO (XI (XI (XO (XO (XI
    (XI (XO (XO (XI (XI (XO (XO (XI (XI (XO (XO (XI (XI (XO (XO (XI (XI (XI
    (XO (XI (XI (XI (XI (XI (XI
    XH)))))))))))))))))))))))))))))))))))))))))))))))))))))))))))))) :: ((Zpos
    (XO (XI (XO (XI (XI (XO (XO (XI (XI (XO (XO (XI (XI (XO (XO (XI (XI (XO
    (XO (XI (XI (XO (XO (XI (XI (XO (XO (XI (XI (XO (XO (XI (XI (XO (XO (XI
    (XI (XO (XO (XI (XI (XO (XO (XI (XI (XO (XO (XI (XI (XO (XO (XI (XO (XO
    (XI (XI (XI (XI (XI (XI (XI
    XH)))))))))))))))))))))))))))))))))))))))))))))))))))))))))))))) :: ((Zpos
    (XI (XI (XO (XO (XI (XI (XO (XO (XI (XI (XO (XO (XI (XI (XO (XO (XI (XI
    (XO (XO (XI (XI (XO (XO (XI (XI (XO (XO (XI (XI (XO (XO (XI (XI (XO (XO
    (XI (XI (XO (XO (XI (XI (XO (XO (XI (XI (XO (XO (XI (XI (XO (XO (XI (XO
    (XI (XI (XI (XI (XI (XI (XI
    XH)))))))))))))))))))))))))))))))))))))))))))))))))))))))))))))) :: ((Zpos
    (XO (XI (XO (XI (XI (XO (XO (XI (XI (XO (XO (XI (XI (XO (XO (XI (XI (XO
    (XO (XI (XI (XO (XO (XI (XI (XO (XO (XI (XI (XO (XO (XI (XI (XO (XO (XI
    (XI (XO (XO (XI (XI (XO (XO (XI (XI (XO (XO (XI (XI (XO (XO (XI (XI (XO
    (XI (XI (XI (XI (XI (XI (XI
    XH)))))))))))))))))))))))))))))))))))))))))))))))))))))))))))))) :: ((Zpos
    (XO (XO (XO (XO (XO (XO (XO (XO (XO (XO (XO (XO (XO (XO (XO (XO (XO (XO
    (XO (XO (XO (XO (XO (XO (XO (XO (XO (XO (XO (XO (XO (XO (XO (XO (XO (XO
    (XO (XO (XO (XO (XO (XO (XO (XO (XO (XO (XO (XO (XO (XO (XO (XO (XO (XI
    (XI (XI (XI (XI (XI (XI (XI
    XH)))))))))))))))))))))))))))))))))))))))))))))))))))))))))))))) :: ((Zpos
    (XI (XI (XO (XO (XI (XI (XO (XO (XI (XI (XO (XO (XI (XI (XO (XO (XI (XI
    (XO (XO (XI (XI (XO (XO (XI (XI (XO (XO (XI (XI (XO (XO (XI (XI (XO (XO
    (XI (XI (XO (XO (XI (XI (XO (XO (XI (XI (XO (XO (XI (XI (XO (XO (XO (XI
    (XI (XI (XI (XI (XI (XI (XI
    XH)))))))))))))))))))))))))))))))))))))))))))))))))))))))))))))) :: ((Zpos
    (XO (XI (XI (XO (XO (XI (XI (XO (XO (XI (XI (XO (XO (XI (XI (XO (XO (XI
    (XI (XO (XO (XI (XI (XO (XO (XI (XI (XO (XO (XI (XI (XO (XO (XI (XI (XO
    (XO (XI (XI (XO (XO (XI (XI (XO (XO (XI (XI (XO (XO (XI (XI (XO (XO (XI
    (XI (XI (XI (XI (XI (XI (XI
    XH)))))))))))))))))))))))))))))))))))))))))))))))))))))))))))))) :: ((Zpos
    (XO (XI (XO (XI (XI (XO (XO (XI (XI (XO (XO (XI (XI (XO (XO (XI (XI (XO
    (XO (XI (XI (XO (XO (XI (XI (XO (XO (XI (XI (XO (XO (XI (XI (XO (XO (XI
    (XI (XO (XO (XI (XI (XO (XO (XI (XI (XO (XO (XI (XI (XO (XO (XI (XO (XI
    (XI (XI (XI (XI (XI (XI (XI
    XH)))))))))))))))))))))))))))))))))))))))))))))))))))))))))))))) :: ((Zpos
    (XI (XO (XI (XI (XO (XO (XI (XI (XO (XO (XI (XI (XO (XO (XI (XI (XO (XO
    (XI (XI (XO (XO (XI (XI (XO (XO (XI (XI (XO (XO (XI (XI (XO (XO (XI (XI
    (XO (XO (XI (XI (XO (XO (XI (XI (XO (XO (XI (XI (XO (XO (XI (XI (XO (XI
    (XI (XI (XI (XI (XI (XI (XI
    XH)))))))))))))))))))))))))))))))))))))))))))))))))))))))))))))) :: ((Zpos
    (XO (XO (XO (XO (XO (XO (XO (XO (XO (XO (XO (XO (XO (XO (XO (XO (XO (XO
    (XO (XO (XO (XO (XO (XO (XO (XO (XO (XO (XO (XO (XO (XO (XO (XO (XO (XO
    (XO (XO (XO (XO (XO (XO (XO (XO (XO (XO (XO (XO (XO (XO (XO (XO (XI (XI
    (XI (XI (XI (XI (XI (XI (XI
    XH)))))))))))))))))))))))))))))))))))))))))))))))))))))))))))))) :: []))))))))))))),
    ((Zpos (XO (XO (XO (XO (XO (XO (XO (XO (XO (XO (XO (XO (XO (XO (XO (XO
    (XO (XO (XO (XO (XO (XO (XO (XO (XO (XO (XO (XO (XO (XO (XO (XO (XO (XO
    (XO (XO (XO (XO (XO (XO (XO (XO (XI (XO (XI (XO (XO (XI (XI (XO (XO (XO
    (XI (XO (XI (XI (XO (XO (XO (XO (XO (XO
    XH))))))))))))))))))))))))))))))))))))))))))))))))))))))))))))))) :: ((Zpos
    (XO (XO (XO (XO (XO (XO (XO (XO (XO (XO (XO (XO (XO (XO (XO (XO (XO (XO
    (XO (XO (XO (XO (XO (XO (XO (XO (XO (XO (XO (XO (XO (XO (XO (XO (XO (XO
    (XO (XO (XO (XO (XO (XO (XO (XI (XI (XO (XI (XO (XI (XI (XO (XI (XI (XO
    (XI (XI (XO (XO (XO (XO (XO (XO
    XH))))))))))))))))))))))))))))))))))))))))))))))))))))))))))))))) :: ((Zpos
    (XO (XO (XO (XO (XO (XO (XO (XO (XO (XO (XO (XO (XO (XO (XO (XO (XO (XO
    (XO (XO (XO (XO (XO (XO (XO (XO (XO (XO (XO (XO (XO (XO (XO (XO (XO (XO
    (XO (XO (XO (XO (XI (XI (XI (XO (XI (XO (XO (XO (XI (XO (XO (XO (XO (XI
    (XI (XI (XO (XO (XO (XO (XO (XO
    XH))))))))))))))))))))))))))))))))))))))))))))))))))))))))))))))) :: ((Zpos
    (XO (XO (XO (XO (XO (XO (XO (XO (XO (XO (XO (XO (XO (XO (XO (XO (XO (XO
    (XO (XO (XO (XO (XO (XO (XO (XO (XO (XO (XO (XO (XO (XO (XO (XO (XO (XO
    (XO (XO (XO (XO (XI (XO (XO (XI (XI (XI (XI (XI (XI (XO (XI (XO (XO (XI
    (XI (XI (XO (XO (XO (XO (XO (XO
    XH))))))))))))))))))))))))))))))))))))))))))))))))))))))))))))))) :: ((Zpos
    (XO (XO (XO (XO (XO (XO (XO (XO (XO (XO (XO (XO (XO (XO (XO (XO (XO (XO
    (XO (XO (XO (XO (XO (XO (XO (XO (XO (XO (XO (XO (XO (XO (XO (XO (XO (XO
    (XO (XO (XO (XO (XO (XO (XO (XI (XI (XO (XI (XO (XI (XI (XO (XI (XO (XI
    (XI (XI (XO (XO (XO (XO (XO (XO
    XH))))))))))))))))))))))))))))))))))))))))))))))))))))))))))))))) :: ((Zpos
    (XO (XO (XO (XO (XO (XO (XO (XO (XO (XO (XO (XO (XO (XO (XO (XO (XO (XO
    (XO (XO (XO (XO (XO (XO (XO (XO (XO (XO (XO (XO (XO (XO (XO (XO (XO (XO
    (XO (XO (XO (XO (XO (XO (XI (XI (XO (XO (XI (XO (XI (XO (XI (XI (XO (XI
    (XI (XI (XO (XO (XO (XO (XO (XO
    XH))))))))))))))))))))))))))))))))))))))))))))))))))))))))))))))) :: ((Zpos
    (XO (XO (XO (XO (XO (XO (XO (XO (XO (XO (XO (XO (XO (XO (XO (XO (XO (XO
    (XO (XO (XO (XO (XO (XO (XO (XO (XO (XO (XO (XO (XO (XO (XO (XO (XO (XO
    (XO (XO (XO (XI (XI (XI (XI (XI (XO (XO (XI (XO (XO (XI (XO (XO (XI (XI
    (XI (XI (XO (XO (XO (XO (XO (XO
    XH))))))))))))))))))))))))))))))))))))))))))))))))))))))))))))))) :: ((Zpos
    (XO (XO (XO (XO (XO (XO (XO (XO (XO (XO (XO (XO (XO (XO (XO (XO (XO (XO
    (XO (XO (XO (XO (XO (XO (XO (XO (XO (XO (XO (XO (XO (XO (XO (XO (XO (XO
    (XO (XO (XO (XO (XI (XO (XO (XI (XI (XI (XI (XI (XI (XO (XI (XO (XI (XI
    (XI (XI (XO (XO (XO (XO (XO (XO
    XH))))))))))))))))))))))))))))))))))))))))))))))))))))))))))))))) :: ((Zpos
    (XO (XO (XO (XO (XO (XO (XO (XO (XO (XO (XO (XO (XO (XO (XO (XO (XO (XO
    (XO (XO (XO (XO (XO (XO (XO (XO (XO (XO (XO (XO (XO (XO (XO (XO (XO (XO
    (XO (XO (XO (XO (XO (XI (XO (XI (XO (XI (XI (XO (XO (XO (XO (XI (XI (XI
    (XI (XI (XO (XO (XO (XO (XO (XO
    XH))))))))))))))))))))))))))))))))))))))))))))))))))))))))))))))) :: ((Zpos
    (XO (XO (XO (XO (XO (XO (XO (XO (XO (XO (XO (XO (XO (XO (XO (XO (XO (XO
    (XO (XO (XO (XO (XO (XO (XO (XO (XO (XO (XO (XO (XO (XO (XO (XO (XO (XO
    (XO (XO (XO (XI (XI (XI (XO (XO (XI (XO (XO (XO (XO (XO (XI (XI (XI (XI
    (XI (XI (XO (XO (XO (XO (XO (XO
    XH))))))))))))))))))))))))))))))))))))))))))))))))))))))))))))))) :: ((Zpos
    (XO (XO (XO (XO (XO (XO (XO (XO (XO (XO (XO (XO (XO (XO (XO (XO (XO (XO
    (XO (XO (XO (XO (XO (XO (XO (XO (XO (XO (XO (XO (XO (XO (XO (XO (XO (XO
    (XO (XO (XO (XI (XI (XI (XI (XI (XO (XO (XI (XO (XO (XI (XO (XO (XO (XO
    (XO (XO (XI (XO (XO (XO (XO (XO
    XH))))))))))))))))))))))))))))))))))))))))))))))))))))))))))))))) :: ((Zpos
    (XO (XO (XO (XO (XO (XO (XO (XO (XO (XO (XO (XO (XO (XO (XO (XO (XO (XO
    (XO (XO (XO (XO (XO (XO (XO (XO (XO (XO (XO (XO (XO (XO (XO (XO (XO (XO
    (XO (XO (XO (XI (XI (XO (XO (XO (XI (XI (XO (XO (XI (XI (XI (XO (XO (XO
    (XO (XO (XI (XO (XO (XO (XO (XO
    XH))))))))))))))))))))))))))))))))))))))))))))))))))))))))))))))) :: []))))))))))))),
    ((Zpos (XO (XO (XO (XO (XO (XO (XO (XO (XO XH)))))))))) :: ((Zpos (XO (XO
    (XO (XO (XO (XO (XO (XO XH))))))))) :: ((Zpos (XO (XO (XO (XO (XO (XO (XO
    (XO XH))))))))) :: ((Zpos (XO (XO (XO (XO (XO (XO (XO (XO
    XH))))))))) :: ((Zpos (XO (XO (XO (XO (XO (XO (XO (XO
    XH))))))))) :: ((Zpos (XO (XO (XO (XO (XO (XO (XO (XO
    XH))))))))) :: ((Zpos (XO (XO (XO (XO (XO (XO (XO (XO
    XH))))))))) :: ((Zpos (XO (XO (XO (XO (XO (XO (XO (XO
    XH))))))))) :: ((Zpos (XO (XO (XO (XO (XO (XO (XO (XO
    XH))))))))) :: ((Zpos (XO (XO (XO (XO (XO (XO (XO (XO
    XH))))))))) :: ((Zpos (XO (XO (XO (XO (XO (XO (XO (XO
    XH))))))))) :: [])))))))))))), ((Zpos (XO (XO (XO (XO (XO (XO (XO (XO (XO
    (XO (XO (XO XH))))))))))))) :: ((Zpos (XO (XO (XO (XO (XO (XO (XO (XO (XO
    (XO (XO XH)))))))))))) :: ((Zpos (XO (XO (XO (XO (XO (XO (XO (XO (XO (XO
    (XO XH)))))))))))) :: ((Zpos (XO (XO (XO (XO (XO (XO (XO (XO (XO (XO (XO
    XH)))))))))))) :: ((Zpos (XO (XO (XO (XO (XO (XO (XO (XO (XO (XO (XO
    XH)))))))))))) :: ((Zpos (XO (XO (XO (XO (XO (XO (XO (XO (XO (XO (XO
    XH)))))))))))) :: ((Zpos (XO (XO (XO (XO (XO (XO (XO (XO (XO (XO (XO
    XH)))))))))))) :: ((Zpos (XO (XO (XO (XO (XO (XO (XO (XO (XO (XO (XO
    XH)))))))))))) :: ((Zpos (XO (XO (XO (XO (XO (XO (XO (XO (XO (XO (XO
    XH)))))))))))) :: ((Zpos (XO (XO (XO (XO (XO (XO (XO (XO (XO (XO (XO
    XH)))))))))))) :: ((Zpos (XO (XO (XO (XO (XO (XO (XO (XO (XO (XO (XO
    XH)))))))))))) :: [])))))))))))) :: (((((((((Zneg XH), (Zpos (XO (XO (XO
    (XO (XI (XO (XO (XI (XI (XO (XI (XO (XO (XI XH)))))))))))))))), (Zpos (XO
    (XO (XO (XO (XO (XO (XI (XO (XO (XO (XI (XI (XI (XO (XO
    XH))))))))))))))))), (Zpos (XI (XI (XO XH))))), ((Zpos (XO (XI (XO (XI
    (XI (XO (XO (XI (XI (XO (XO (XI (XI (XO (XO (XI (XI (XO (XO (XI (XI (XO
    (XO (XI (XI (XO (XO (XI (XI (XO (XO (XI (XI (XO (XO (XI (XI (XO (XO (XI
    (XI (XO (XO (XI (XI (XO (XO (XI (XI (XO (XO (XI (XI (XI (XO (XI (XI (XI
    (XI (XI (XI (XI (XO
    XH)))))))))))))))))))))))))))))))))))))))))))))))))))))))))))))))) :: (Z0 :: ((Zpos
    (XO (XI (XO (XI (XI (XO (XO (XI (XI (XO (XO (XI (XI (XO (XO (XI (XI (XO
    (XO (XI (XI (XO (XO (XI (XI (XO (XO (XI (XI (XO (XO (XI (XI (XO (XO (XI
    (XI (XO (XO (XI (XI (XO (XO (XI (XI (XO (XO (XI (XI (XO (XO (XI (XI (XI
    (XO (XI (XI (XI (XI (XI (XI
    XH)))))))))))))))))))))))))))))))))))))))))))))))))))))))))))))) :: ((Zpos
    (XO (XI (XO (XI (XI (XO (XO (XI (XI (XO (XO (XI (XI (XO (XO (XI (XI (XO
    (XO (XI (XI (XO (XO (XI (XI (XO (XO (XI (XI (XO (XO (XI (XI (XO (XO (XI
    (XI (XO (XO (XI (XI (XO (XO (XI (XI (XO (XO (XI (XI (XO (XO (XI (XO (XO
    (XI (XI (XI (XI (XI (XI (XI
    XH)))))))))))))))))))))))))))))))))))))))))))))))))))))))))))))) :: ((Zpos
    (XI (XI (XO (XO (XI (XI (XO (XO (XI (XI (XO (XO (XI (XI (XO (XO (XI (XI
    (XO (XO (XI (XI (XO (XO (XI (XI (XO (XO (XI (XI (XO (XO (XI (XI (XO (XO
    (XI (XI (XO (XO (XI (XI (XO (XO (XI (XI (XO (XO (XI (XI (XO (XO (XI (XO
    (XI (XI (XI (XI (XI (XI (XI
    XH)))))))))))))))))))))))))))))))))))))))))))))))))))))))))))))) :: ((Zpos
    (XO (XI (XO (XI (XI (XO (XO (XI (XI (XO (XO (XI (XI (XO (XO (XI (XI (XO
    (XO (XI (XI (XO (XO (XI (XI (XO (XO (XI (XI (XO (XO (XI (XI (XO (XO (XI
    (XI (XO (XO (XI (XI (XO (XO (XI (XI (XO (XO (XI (XI (XO (XO (XI (XI (XO
    (XI (XI (XI (XI (XI (XI (XI
    XH)))))))))))))))))))))))))))))))))))))))))))))))))))))))))))))) :: ((Zpos
    (XO (XO (XO (XO (XO (XO (XO (XO (XO (XO (XO (XO (XO (XO (XO (XO (XO (XO
    (XO (XO (XO (XO (XO (XO (XO (XO (XO (XO (XO (XO (XO (XO (XO (XO (XO (XO
    (XO (XO (XO (XO (XO (XO (XO (XO (XO (XO (XO (XO (XO (XO (XO (XO (XO (XI
    (XI (XI (XI (XI (XI (XI (XI
    XH)))))))))))))))))))))))))))))))))))))))))))))))))))))))))))))) :: ((Zpos
    (XI (XI (XO (XO (XI (XI (XO (XO (XI (XI (XO (XO (XI (XI (XO (XO (XI (XI
    (XO (XO (XI (XI (XO (XO (XI (XI (XO (XO (XI (XI (XO (XO (XI (XI (XO (XO
    (XI (XI (XO (XO (XI (XI (XO (XO (XI (XI (XO (XO (XI (XI (XO (XO (XO (XI
    (XI (XI (XI (XI (XI (XI (XI
    XH)))))))))))))))))))))))))))))))))))))))))))))))))))))))))))))) :: ((Zpos
    (XO (XI (XI (XO (XO (XI (XI (XO (XO (XI (XI (XO (XO (XI (XI (XO (XO (XI
    (XI (XO (XO (XI (XI (XO (XO (XI (XI (XO (XO (XI (XI (XO (XO (XI (XI (XO
    (XO (XI (XI (XO (XO (XI (XI (XO (XO (XI (XI (XO (XO (XI (XI (XO (XO (XI
    (XI (XI (XI (XI (XI (XI (XI
    XH)))))))))))))))))))))))))))))))))))))))))))))))))))))))))))))) :: ((Zpos
    (XO (XI (XO (XI (XI (XO (XO (XI (XI (XO (XO (XI (XI (XO (XO (XI (XI (XO
    (XO (XI (XI (XO (XO (XI (XI (XO (XO (XI (XI (XO (XO (XI (XI (XO (XO (XI
    (XI (XO (XO (XI (XI (XO (XO (XI (XI (XO (XO (XI (XI (XO (XO (XI (XO (XI
    (XI (XI (XI (XI (XI (XI (XI
    XH)))))))))))))))))))))))))))))))))))))))))))))))))))))))))))))) :: ((Zpos
    (XI (XO (XI (XI (XO (XO (XI (XI (XO (XO (XI (XI (XO (XO (XI (XI (XO (XO
    (XI (XI (XO (XO (XI (XI (XO (XO (XI (XI (XO (XO (XI (XI (XO (XO (XI (XI
    (XO (XO (XI (XI (XO (XO (XI (XI (XO (XO (XI (XI (XO (XO (XI (XI (XO (XI
    (XI (XI (XI (XI (XI (XI (XI
    XH)))))))))))))))))))))))))))))))))))))))))))))))))))))))))))))) :: ((Zpos
    (XO (XO (XO (XO (XO (XO (XO (XO (XO (XO (XO (XO (XO (XO (XO (XO (XO (XO
    (XO (XO (XO (XO (XO (XO (XO (XO (XO (XO (XO (XO (XO (XO (XO (XO (XO (XO
    (XO (XO (XO (XO (XO (XO (XO (XO (XO (XO (XO (XO (XO (XO (XO (XO (XI (XI
    (XI (XI (XI (XI (XI (XI (XI
    XH)))))))))))))))))))))))))))))))))))))))))))))))))))))))))))))) :: []))))))))))))),
    ((Zpos (XO (XO (XO (XO (XO (XO (XO (XO (XO (XO (XO (XO (XO (XO (XO (XO
    (XO (XO (XO (XO (XO (XO (XO (XO (XO (XO (XO (XO (XO (XO (XO (XO (XO (XO
    (XO (XO (XO (XO (XO (XO (XO (XO (XI (XI (XO (XO (XI (XO (XI (XO (XI (XI
    (XI (XO (XI (XI (XO (XO (XO (XO (XO (XO
    XH))))))))))))))))))))))))))))))))))))))))))))))))))))))))))))))) :: ((Zpos
    (XO (XO (XO (XO (XO (XO (XO (XO (XO (XO (XO (XO (XO (XO (XO (XO (XO (XO
    (XO (XO (XO (XO (XO (XO (XO (XO (XO (XO (XO (XO (XO (XO (XO (XO (XO (XO
    (XO (XO (XO (XO (XO (XI (XO (XO (XO (XO (XO (XI (XO (XO (XI (XO (XO (XI
    (XI (XI (XO (XO (XO (XO (XO (XO
    XH))))))))))))))))))))))))))))))))))))))))))))))))))))))))))))))) :: ((Zpos
    (XO (XO (XO (XO (XO (XO (XO (XO (XO (XO (XO (XO (XO (XO (XO (XO (XO (XO
    (XO (XO (XO (XO (XO (XO (XO (XO (XO (XO (XO (XO (XO (XO (XO (XO (XO (XO
    (XO (XO (XO (XO (XO (XO (XI (XO (XO (XI (XI (XO (XI (XO (XO (XI (XO (XI
    (XI (XI (XO (XO (XO (XO (XO (XO
    XH))))))))))))))))))))))))))))))))))))))))))))))))))))))))))))))) :: ((Zpos
    (XO (XO (XO (XO (XO (XO (XO (XO (XO (XO (XO (XO (XO (XO (XO (XO (XO (XO
    (XO (XO (XO (XO (XO (XO (XO (XO (XO (XO (XO (XO (XO (XO (XO (XO (XO (XO
    (XO (XO (XO (XO (XO (XO (XO (XO (XO (XO (XI (XO (XI (XI (XI (XI (XO (XI
    (XI (XI (XO (XO (XO (XO (XO (XO
    XH))))))))))))))))))))))))))))))))))))))))))))))))))))))))))))))) :: ((Zpos
    (XO (XO (XO (XO (XO (XO (XO (XO (XO (XO (XO (XO (XO (XO (XO (XO (XO (XO
    (XO (XO (XO (XO (XO (XO (XO (XO (XO (XO (XO (XO (XO (XO (XO (XO (XO (XO
    (XO (XO (XO (XO (XO (XO (XI (XO (XI (XO (XO (XI (XI (XO (XO (XO (XI (XI
    (XI (XI (XO (XO (XO (XO (XO (XO
    XH))))))))))))))))))))))))))))))))))))))))))))))))))))))))))))))) :: ((Zpos
    (XO (XO (XO (XO (XO (XO (XO (XO (XO (XO (XO (XO (XO (XO (XO (XO (XO (XO
    (XO (XO (XO (XO (XO (XO (XO (XO (XO (XO (XO (XO (XO (XO (XO (XO (XO (XO
    (XO (XO (XO (XO (XI (XI (XO (XI (XO (XO (XO (XO (XI (XI (XO (XO (XI (XI
    (XI (XI (XO (XO (XO (XO (XO (XO
    XH))))))))))))))))))))))))))))))))))))))))))))))))))))))))))))))) :: ((Zpos
    (XO (XO (XO (XO (XO (XO (XO (XO (XO (XO (XO (XO (XO (XO (XO (XO (XO (XO
    (XO (XO (XO (XO (XO (XO (XO (XO (XO (XO (XO (XO (XO (XO (XO (XO (XO (XO
    (XO (XO (XO (XO (XI (XI (XI (XI (XI (XI (XI (XI (XO (XO (XI (XO (XI (XI
    (XI (XI (XO (XO (XO (XO (XO (XO
    XH))))))))))))))))))))))))))))))))))))))))))))))))))))))))))))))) :: ((Zpos
    (XO (XO (XO (XO (XO (XO (XO (XO (XO (XO (XO (XO (XO (XO (XO (XO (XO (XO
    (XO (XO (XO (XO (XO (XO (XO (XO (XO (XO (XO (XO (XO (XO (XO (XO (XO (XO
    (XO (XO (XO (XO (XO (XI (XI (XO (XI (XI (XI (XO (XO (XI (XI (XO (XI (XI
    (XI (XI (XO (XO (XO (XO (XO (XO
    XH))))))))))))))))))))))))))))))))))))))))))))))))))))))))))))))) :: ((Zpos
    (XO (XO (XO (XO (XO (XO (XO (XO (XO (XO (XO (XO (XO (XO (XO (XO (XO (XO
    (XO (XO (XO (XO (XO (XO (XO (XO (XO (XO (XO (XO (XO (XO (XO (XO (XO (XO
    (XO (XO (XO (XO (XI (XI (XO (XI (XI (XO (XI (XI (XO (XI (XO (XI (XI (XI
    (XI (XI (XO (XO (XO (XO (XO (XO
    XH))))))))))))))))))))))))))))))))))))))))))))))))))))))))))))))) :: ((Zpos
    (XO (XO (XO (XO (XO (XO (XO (XO (XO (XO (XO (XO (XO (XO (XO (XO (XO (XO
    (XO (XO (XO (XO (XO (XO (XO (XO (XO (XO (XO (XO (XO (XO (XO (XO (XO (XO
    (XO (XO (XO (XO (XO (XO (XI (XI (XO (XO (XI (XO (XI (XO (XI (XI (XI (XI
    (XI (XI (XO (XO (XO (XO (XO (XO
    XH))))))))))))))))))))))))))))))))))))))))))))))))))))))))))))))) :: ((Zpos
    (XO (XO (XO (XO (XO (XO (XO (XO (XO (XO (XO (XO (XO (XO (XO (XO (XO (XO
    (XO (XO (XO (XO (XO (XO (XO (XO (XO (XO (XO (XO (XO (XO (XO (XO (XO (XO
    (XO (XO (XO (XO (XI (XI (XI (XO (XI (XO (XO (XO (XI (XO (XO (XO (XO (XO
    (XO (XO (XI (XO (XO (XO (XO (XO
    XH))))))))))))))))))))))))))))))))))))))))))))))))))))))))))))))) :: ((Zpos
    (XO (XO (XO (XO (XO (XO (XO (XO (XO (XO (XO (XO (XO (XO (XO (XO (XO (XO
    (XO (XO (XO (XO (XO (XO (XO (XO (XO (XO (XO (XO (XO (XO (XO (XO (XO (XO
    (XO (XO (XO (XI (XI (XO (XO (XO (XI (XI (XO (XO (XI (XI (XI (XO (XO (XO
    (XO (XO (XI (XO (XO (XO (XO (XO
    XH))))))))))))))))))))))))))))))))))))))))))))))))))))))))))))))) :: []))))))))))))),
    ((Zpos (XO (XO (XO (XO (XO (XO (XO (XO (XO XH)))))))))) :: ((Zpos (XO (XO
    (XO (XO (XO (XO (XO (XO XH))))))))) :: ((Zpos (XO (XO (XO (XO (XO (XO (XO
    (XO XH))))))))) :: ((Zpos (XO (XO (XO (XO (XO (XO (XO (XO
    XH))))))))) :: ((Zpos (XO (XO (XO (XO (XO (XO (XO (XO
    XH))))))))) :: ((Zpos (XO (XO (XO (XO (XO (XO (XO (XO
    XH))))))))) :: ((Zpos (XO (XO (XO (XO (XO (XO (XO (XO
    XH))))))))) :: ((Zpos (XO (XO (XO (XO (XO (XO (XO (XO
    XH))))))))) :: ((Zpos (XO (XO (XO (XO (XO (XO (XO (XO
    XH))))))))) :: ((Zpos (XO (XO (XO (XO (XO (XO (XO (XO
    XH))))))))) :: ((Zpos (XO (XO (XO (XO (XO (XO (XO (XO
    XH))))))))) :: [])))))))))))), ((Zpos (XO (XO (XO (XO (XO (XO (XO (XO (XO
    (XO (XO (XO XH))))))))))))) :: ((Zpos (XO (XO (XO (XO (XO (XO (XO (XO (XO
    (XO (XO XH)))))))))))) :: ((Zpos (XO (XO (XO (XO (XO (XO (XO (XO (XO (XO
    (XO XH)))))))))))) :: ((Zpos (XO (XO (XO (XO (XO (XO (XO (XO (XO (XO (XO
    XH)))))))))))) :: ((Zpos (XO (XO (XO (XO (XO (XO (XO (XO (XO (XO (XO
    XH)))))))))))) :: ((Zpos (XO (XO (XO (XO (XO (XO (XO (XO (XO (XO (XO
    XH)))))))))))) :: ((Zpos (XO (XO (XO (XO (XO (XO (XO (XO (XO (XO (XO
    XH)))))))))))) :: ((Zpos (XO (XO (XO (XO (XO (XO (XO (XO (XO (XO (XO
    XH)))))))))))) :: ((Zpos (XO (XO (XO (XO (XO (XO (XO (XO (XO (XO (XO
    XH)))))))))))) :: ((Zpos (XO (XO (XO (XO (XO (XO (XO (XO (XO (XO (XO
    XH)))))))))))) :: ((Zpos (XO (XO (XO (XO (XO (XO (XO (XO (XO (XO (XO
    XH)))))))))))) :: [])))))))))))) :: (((((((((Zpos (XO XH)), (Zpos (XO (XO
    (XO (XI (XI (XI (XO (XO (XO (XI (XO (XI (XO (XO XH)))))))))))))))), (Zpos
    (XO (XO (XO (XO (XI (XO (XO (XI (XI (XO (XI (XO (XO (XI
    XH)))))))))))))))), (Zpos (XI XH))), ((Zpos (XO (XI (XO (XI (XI (XO (XO
    (XI (XI (XO (XO (XI (XI (XO (XO (XI (XI (XO (XO (XI (XI (XO (XO (XI (XI
    (XO (XO (XI (XI (XO (XO (XI (XI (XO (XO (XI (XI (XO (XO (XI (XI (XO (XO
    (XI (XI (XO (XO (XI (XI (XO (XO (XI (XI (XI (XO (XI (XI (XI (XI (XI (XI
    (XI (XO
    XH)))))))))))))))))))))))))))))))))))))))))))))))))))))))))))))))) :: ((Zpos
    (XO (XI (XO (XI (XI (XO (XO (XI (XI (XO (XO (XI (XI (XO (XO (XI (XI (XO
    (XO (XI (XI (XO (XO (XI (XI (XO (XO (XI (XI (XO (XO (XI (XI (XO (XO (XI
    (XI (XO (XO (XI (XI (XO (XO (XI (XI (XO (XO (XI (XI (XO (XO (XI (XO (XI
    (XO (XI (XI (XI (XI (XI (XI
    XH)))))))))))))))))))))))))))))))))))))))))))))))))))))))))))))) :: ((Zpos
    (XO (XO (XO (XO (XO (XO (XO (XO (XO (XO (XO (XO (XO (XO (XO (XO (XO (XO
    (XO (XO (XO (XO (XO (XO (XO (XO (XO (XO (XO (XO (XO (XO (XO (XO (XO (XO
    (XO (XO (XO (XO (XO (XO (XO (XO (XO (XO (XO (XO (XO (XO (XO (XO (XO (XI
    (XI (XI (XI (XI (XI (XI (XI
    XH)))))))))))))))))))))))))))))))))))))))))))))))))))))))))))))) :: ((Zpos
    (XO (XO (XO (XO (XO (XO (XO (XO (XO (XO (XO (XO (XO (XO (XO (XO (XO (XO
    (XO (XO (XO (XO (XO (XO (XO (XO (XO (XO (XO (XO (XO (XO (XO (XO (XO (XO
    (XO (XO (XO (XO (XO (XO (XO (XO (XO (XO (XO (XO (XO (XO (XO (XO (XI (XI
    (XI (XI (XI (XI (XI (XI (XI
    XH)))))))))))))))))))))))))))))))))))))))))))))))))))))))))))))) :: []))))),
    ((Zpos (XO (XO (XO (XO (XO (XO (XO (XO (XO (XO (XO (XO (XO (XO (XO (XO
    (XO (XO (XO (XO (XO (XO (XO (XO (XO (XO (XO (XO (XO (XO (XO (XO (XO (XO
    (XO (XO (XO (XO (XO (XO (XO (XO (XI (XI (XO (XO (XI (XO (XI (XO (XI (XI
    (XO (XO (XI (XI (XO (XO (XO (XO (XO (XO
    XH))))))))))))))))))))))))))))))))))))))))))))))))))))))))))))))) :: ((Zpos
    (XO (XO (XO (XO (XO (XO (XO (XO (XO (XO (XO (XO (XO (XO (XO (XO (XO (XO
    (XO (XO (XO (XO (XO (XO (XO (XO (XO (XO (XO (XO (XO (XO (XO (XO (XO (XO
    (XO (XO (XO (XO (XO (XO (XO (XI (XO (XO (XO (XI (XI (XI (XO (XO (XI (XO
    (XI (XI (XO (XO (XO (XO (XO (XO
    XH))))))))))))))))))))))))))))))))))))))))))))))))))))))))))))))) :: ((Zpos
    (XO (XO (XO (XO (XO (XO (XO (XO (XO (XO (XO (XO (XO (XO (XO (XO (XO (XO
    (XO (XO (XO (XO (XO (XO (XO (XO (XO (XO (XO (XO (XO (XO (XO (XO (XO (XO
    (XO (XO (XO (XO (XO (XO (XI (XI (XI (XI (XI (XO (XI (XO (XI (XO (XO (XI
    (XI (XI (XO (XO (XO (XO (XO (XO
    XH))))))))))))))))))))))))))))))))))))))))))))))))))))))))))))))) :: ((Zpos
    (XO (XO (XO (XO (XO (XO (XO (XO (XO (XO (XO (XO (XO (XO (XO (XO (XO (XO
    (XO (XO (XO (XO (XO (XO (XO (XO (XO (XO (XO (XO (XO (XO (XO (XO (XO (XO
    (XO (XO (XO (XO (XI (XI (XI (XI (XI (XI (XI (XI (XO (XO (XI (XO (XI (XI
    (XI (XI (XO (XO (XO (XO (XO (XO
    XH))))))))))))))))))))))))))))))))))))))))))))))))))))))))))))))) :: []))))),
    ((Zpos (XO (XO (XO (XO (XO (XO (XO (XO (XO (XO XH))))))))))) :: ((Zpos
    (XO (XO (XO (XO (XO (XO (XO (XO (XO XH)))))))))) :: ((Zpos (XO (XO (XO
    (XO (XO (XO (XO (XO (XO XH)))))))))) :: [])))), ((Zpos (XO (XO (XO (XO
    (XO (XO (XO (XO (XO (XO XH))))))))))) :: ((Zpos (XO (XO (XO (XO (XO (XO
    (XO (XO (XO (XO XH))))))))))) :: ((Zpos (XO (XO (XO (XO (XO (XO (XO (XO
    (XO (XO XH))))))))))) :: [])))) :: (((((((((Zneg XH), (Zpos (XO (XO (XO
    (XI (XI (XI (XO (XO (XO (XI (XO (XI (XO (XO XH)))))))))))))))), (Zpos (XO
    (XO (XO (XO (XI (XO (XO (XI (XI (XO (XI (XO (XO (XI XH)))))))))))))))),
    (Zpos (XI XH))), ((Zpos (XO (XI (XO (XI (XI (XO (XO (XI (XI (XO (XO (XI
    (XI (XO (XO (XI (XI (XO (XO (XI (XI (XO (XO (XI (XI (XO (XO (XI (XI (XO
    (XO (XI (XI (XO (XO (XI (XI (XO (XO (XI (XI (XO (XO (XI (XI (XO (XO (XI
    (XI (XO (XO (XI (XI (XI (XO (XI (XI (XI (XI (XI (XI (XI (XO
    XH)))))))))))))))))))))))))))))))))))))))))))))))))))))))))))))))) :: ((Zpos
    (XO (XI (XO (XI (XI (XO (XO (XI (XI (XO (XO (XI (XI (XO (XO (XI (XI (XO
    (XO (XI (XI (XO (XO (XI (XI (XO (XO (XI (XI (XO (XO (XI (XI (XO (XO (XI
    (XI (XO (XO (XI (XI (XO (XO (XI (XI (XO (XO (XI (XI (XO (XO (XI (XO (XI
    (XO (XI (XI (XI (XI (XI (XI
    XH)))))))))))))))))))))))))))))))))))))))))))))))))))))))))))))) :: ((Zpos
    (XO (XO (XO (XO (XO (XO (XO (XO (XO (XO (XO (XO (XO (XO (XO (XO (XO (XO
    (XO (XO (XO (XO (XO (XO (XO (XO (XO (XO (XO (XO (XO (XO (XO (XO (XO (XO
    (XO (XO (XO (XO (XO (XO (XO (XO (XO (XO (XO (XO (XO (XO (XO (XO (XO (XI
    (XI (XI (XI (XI (XI (XI (XI
    XH)))))))))))))))))))))))))))))))))))))))))))))))))))))))))))))) :: ((Zpos
    (XO (XO (XO (XO (XO (XO (XO (XO (XO (XO (XO (XO (XO (XO (XO (XO (XO (XO
    (XO (XO (XO (XO (XO (XO (XO (XO (XO (XO (XO (XO (XO (XO (XO (XO (XO (XO
    (XO (XO (XO (XO (XO (XO (XO (XO (XO (XO (XO (XO (XO (XO (XO (XO (XI (XI
    (XI (XI (XI (XI (XI (XI (XI
    XH)))))))))))))))))))))))))))))))))))))))))))))))))))))))))))))) :: []))))),
    ((Zpos (XO (XO (XO (XO (XO (XO (XO (XO (XO (XO (XO (XO (XO (XO (XO (XO
    (XO (XO (XO (XO (XO (XO (XO (XO (XO (XO (XO (XO (XO (XO (XO (XO (XO (XO
    (XO (XO (XO (XO (XO (XO (XO (XO (XO (XO (XO (XO (XI (XO (XI (XI (XI (XI
    (XO (XO (XI (XI (XO (XO (XO (XO (XO (XO
    XH))))))))))))))))))))))))))))))))))))))))))))))))))))))))))))))) :: ((Zpos
    (XO (XO (XO (XO (XO (XO (XO (XO (XO (XO (XO (XO (XO (XO (XO (XO (XO (XO
    (XO (XO (XO (XO (XO (XO (XO (XO (XO (XO (XO (XO (XO (XO (XO (XO (XO (XO
    (XO (XO (XO (XO (XO (XO (XO (XI (XI (XO (XI (XO (XI (XI (XO (XI (XI (XO
    (XI (XI (XO (XO (XO (XO (XO (XO
    XH))))))))))))))))))))))))))))))))))))))))))))))))))))))))))))))) :: ((Zpos
    (XO (XO (XO (XO (XO (XO (XO (XO (XO (XO (XO (XO (XO (XO (XO (XO (XO (XO
    (XO (XO (XO (XO (XO (XO (XO (XO (XO (XO (XO (XO (XO (XO (XO (XO (XO (XO
    (XO (XO (XO (XO (XO (XI (XO (XI (XO (XI (XI (XO (XO (XO (XO (XI (XO (XI
    (XI (XI (XO (XO (XO (XO (XO (XO
    XH))))))))))))))))))))))))))))))))))))))))))))))))))))))))))))))) :: ((Zpos
    (XO (XO (XO (XO (XO (XO (XO (XO (XO (XO (XO (XO (XO (XO (XO (XO (XO (XO
    (XO (XO (XO (XO (XO (XO (XO (XO (XO (XO (XO (XO (XO (XO (XO (XO (XO (XO
    (XO (XO (XO (XO (XI (XO (XO (XI (XI (XI (XI (XI (XI (XO (XI (XO (XI (XI
    (XI (XI (XO (XO (XO (XO (XO (XO
    XH))))))))))))))))))))))))))))))))))))))))))))))))))))))))))))))) :: []))))),
    ((Zpos (XO (XO (XO (XO (XO (XO (XO (XO (XO (XO XH))))))))))) :: ((Zpos
    (XO (XO (XO (XO (XO (XO (XO (XO (XO XH)))))))))) :: ((Zpos (XO (XO (XO
    (XO (XO (XO (XO (XO (XO XH)))))))))) :: [])))), ((Zpos (XO (XO (XO (XO
    (XO (XO (XO (XO (XO (XO XH))))))))))) :: ((Zpos (XO (XO (XO (XO (XO (XO
    (XO (XO (XO (XO XH))))))))))) :: ((Zpos (XO (XO (XO (XO (XO (XO (XO (XO
    (XO (XO XH))))))))))) :: [])))) :: (((((((((Zpos (XO XH)), (Zpos (XO (XO
    (XO (XI (XI (XO (XO (XI (XO (XI (XO (XI (XI XH))))))))))))))), (Zpos (XO
    (XO (XO (XI (XI (XI (XO (XO (XO (XI (XO (XI (XO (XO XH)))))))))))))))),
    (Zpos (XI XH))), ((Zpos (XO (XI (XO (XI (XI (XO (XO (XI (XI (XO (XO (XI
    (XI (XO (XO (XI (XI (XO (XO (XI (XI (XO (XO (XI (XI (XO (XO (XI (XI (XO
    (XO (XI (XI (XO (XO (XI (XI (XO (XO (XI (XI (XO (XO (XI (XI (XO (XO (XI
    (XI (XO (XO (XI (XI (XI (XO (XI (XI (XI (XI (XI (XI (XI (XO
    XH)))))))))))))))))))))))))))))))))))))))))))))))))))))))))))))))) :: ((Zpos
    (XO (XI (XO (XI (XI (XO (XO (XI (XI (XO (XO (XI (XI (XO (XO (XI (XI (XO
    (XO (XI (XI (XO (XO (XI (XI (XO (XO (XI (XI (XO (XO (XI (XI (XO (XO (XI
    (XI (XO (XO (XI (XI (XO (XO (XI (XI (XO (XO (XI (XI (XO (XO (XI (XO (XI
    (XO (XI (XI (XI (XI (XI (XI
    XH)))))))))))))))))))))))))))))))))))))))))))))))))))))))))))))) :: ((Zpos
    (XO (XO (XO (XO (XO (XO (XO (XO (XO (XO (XO (XO (XO (XO (XO (XO (XO (XO
    (XO (XO (XO (XO (XO (XO (XO (XO (XO (XO (XO (XO (XO (XO (XO (XO (XO (XO
    (XO (XO (XO (XO (XO (XO (XO (XO (XO (XO (XO (XO (XO (XO (XO (XO (XO (XI
    (XI (XI (XI (XI (XI (XI (XI
    XH)))))))))))))))))))))))))))))))))))))))))))))))))))))))))))))) :: ((Zpos
    (XO (XO (XO (XO (XO (XO (XO (XO (XO (XO (XO (XO (XO (XO (XO (XO (XO (XO
    (XO (XO (XO (XO (XO (XO (XO (XO (XO (XO (XO (XO (XO (XO (XO (XO (XO (XO
    (XO (XO (XO (XO (XO (XO (XO (XO (XO (XO (XO (XO (XO (XO (XO (XO (XI (XI
    (XI (XI (XI (XI (XI (XI (XI
    XH)))))))))))))))))))))))))))))))))))))))))))))))))))))))))))))) :: []))))),
    ((Zpos (XO (XO (XO (XO (XO (XO (XO (XO (XO (XO (XO (XO (XO (XO (XO (XO
    (XO (XO (XO (XO (XO (XO (XO (XO (XO (XO (XO (XO (XO (XO (XO (XO (XO (XO
    (XO (XO (XO (XO (XO (XO (XO (XO (XO (XO (XI (XI (XI (XO (XI (XI (XI (XO
    (XO (XO (XI (XI (XO (XO (XO (XO (XO (XO
    XH))))))))))))))))))))))))))))))))))))))))))))))))))))))))))))))) :: ((Zpos
    (XO (XO (XO (XO (XO (XO (XO (XO (XO (XO (XO (XO (XO (XO (XO (XO (XO (XO
    (XO (XO (XO (XO (XO (XO (XO (XO (XO (XO (XO (XO (XO (XO (XO (XO (XO (XO
    (XO (XO (XO (XO (XO (XO (XO (XI (XO (XO (XO (XI (XI (XI (XO (XO (XI (XO
    (XI (XI (XO (XO (XO (XO (XO (XO
    XH))))))))))))))))))))))))))))))))))))))))))))))))))))))))))))))) :: ((Zpos
    (XO (XO (XO (XO (XO (XO (XO (XO (XO (XO (XO (XO (XO (XO (XO (XO (XO (XO
    (XO (XO (XO (XO (XO (XO (XO (XO (XO (XO (XO (XO (XO (XO (XO (XO (XO (XO
    (XO (XO (XO (XO (XO (XO (XI (XI (XI (XI (XI (XO (XI (XO (XI (XO (XO (XI
    (XI (XI (XO (XO (XO (XO (XO (XO
    XH))))))))))))))))))))))))))))))))))))))))))))))))))))))))))))))) :: ((Zpos
    (XO (XO (XO (XO (XO (XO (XO (XO (XO (XO (XO (XO (XO (XO (XO (XO (XO (XO
    (XO (XO (XO (XO (XO (XO (XO (XO (XO (XO (XO (XO (XO (XO (XO (XO (XO (XO
    (XO (XO (XO (XO (XI (XI (XI (XI (XI (XI (XI (XI (XO (XO (XI (XO (XI (XI
    (XI (XI (XO (XO (XO (XO (XO (XO
    XH))))))))))))))))))))))))))))))))))))))))))))))))))))))))))))))) :: []))))),
    ((Zpos (XO (XO (XO (XO (XO (XO (XO (XO (XO (XO XH))))))))))) :: ((Zpos
    (XO (XO (XO (XO (XO (XO (XO (XO (XO XH)))))))))) :: ((Zpos (XO (XO (XO
    (XO (XO (XO (XO (XO (XO XH)))))))))) :: [])))), ((Zpos (XO (XO (XO (XO
    (XO (XO (XO (XO (XO (XO XH))))))))))) :: ((Zpos (XO (XO (XO (XO (XO (XO
    (XO (XO (XO (XO XH))))))))))) :: ((Zpos (XO (XO (XO (XO (XO (XO (XO (XO
    (XO (XO XH))))))))))) :: [])))) :: (((((((((Zneg XH), (Zpos (XO (XO (XO
    (XI (XI (XO (XO (XI (XO (XI (XO (XI (XI XH))))))))))))))), (Zpos (XO (XO
    (XO (XI (XI (XI (XO (XO (XO (XI (XO (XI (XO (XO XH)))))))))))))))), (Zpos
    (XI XH))), ((Zpos (XO (XI (XO (XI (XI (XO (XO (XI (XI (XO (XO (XI (XI (XO
    (XO (XI (XI (XO (XO (XI (XI (XO (XO (XI (XI (XO (XO (XI (XI (XO (XO (XI
    (XI (XO (XO (XI (XI (XO (XO (XI (XI (XO (XO (XI (XI (XO (XO (XI (XI (XO
    (XO (XI (XI (XI (XO (XI (XI (XI (XI (XI (XI (XI (XO
    XH)))))))))))))))))))))))))))))))))))))))))))))))))))))))))))))))) :: ((Zpos
    (XO (XI (XO (XI (XI (XO (XO (XI (XI (XO (XO (XI (XI (XO (XO (XI (XI (XO
    (XO (XI (XI (XO (XO (XI (XI (XO (XO (XI (XI (XO (XO (XI (XI (XO (XO (XI
    (XI (XO (XO (XI (XI (XO (XO (XI (XI (XO (XO (XI (XI (XO (XO (XI (XO (XI
    (XO (XI (XI (XI (XI (XI (XI
    XH)))))))))))))))))))))))))))))))))))))))))))))))))))))))))))))) :: ((Zpos
    (XO (XO (XO (XO (XO (XO (XO (XO (XO (XO (XO (XO (XO (XO (XO (XO (XO (XO
    (XO (XO (XO (XO (XO (XO (XO (XO (XO (XO (XO (XO (XO (XO (XO (XO (XO (XO
    (XO (XO (XO (XO (XO (XO (XO (XO (XO (XO (XO (XO (XO (XO (XO (XO (XO (XI
    (XI (XI (XI (XI (XI (XI (XI
    XH)))))))))))))))))))))))))))))))))))))))))))))))))))))))))))))) :: ((Zpos
    (XO (XO (XO (XO (XO (XO (XO (XO (XO (XO (XO (XO (XO (XO (XO (XO (XO (XO
    (XO (XO (XO (XO (XO (XO (XO (XO (XO (XO (XO (XO (XO (XO (XO (XO (XO (XO
    (XO (XO (XO (XO (XO (XO (XO (XO (XO (XO (XO (XO (XO (XO (XO (XO (XI (XI
    (XI (XI (XI (XI (XI (XI (XI
    XH)))))))))))))))))))))))))))))))))))))))))))))))))))))))))))))) :: []))))),
    ((Zpos (XO (XO (XO (XO (XO (XO (XO (XO (XO (XO (XO (XO (XO (XO (XO (XO
    (XO (XO (XO (XO (XO (XO (XO (XO (XO (XO (XO (XO (XO (XO (XO (XO (XO (XO
    (XO (XO (XO (XO (XO (XO (XO (XO (XO (XO (XO (XO (XI (XO (XI (XI (XI (XI
    (XO (XO (XI (XI (XO (XO (XO (XO (XO (XO
    XH))))))))))))))))))))))))))))))))))))))))))))))))))))))))))))))) :: ((Zpos
    (XO (XO (XO (XO (XO (XO (XO (XO (XO (XO (XO (XO (XO (XO (XO (XO (XO (XO
    (XO (XO (XO (XO (XO (XO (XO (XO (XO (XO (XO (XO (XO (XO (XO (XO (XO (XO
    (XO (XO (XO (XO (XO (XO (XO (XI (XI (XO (XI (XO (XI (XI (XO (XI (XI (XO
    (XI (XI (XO (XO (XO (XO (XO (XO
    XH))))))))))))))))))))))))))))))))))))))))))))))))))))))))))))))) :: ((Zpos
    (XO (XO (XO (XO (XO (XO (XO (XO (XO (XO (XO (XO (XO (XO (XO (XO (XO (XO
    (XO (XO (XO (XO (XO (XO (XO (XO (XO (XO (XO (XO (XO (XO (XO (XO (XO (XO
    (XO (XO (XO (XO (XO (XO (XO (XO (XO (XO (XI (XO (XI (XI (XI (XI (XO (XI
    (XI (XI (XO (XO (XO (XO (XO (XO
    XH))))))))))))))))))))))))))))))))))))))))))))))))))))))))))))))) :: ((Zpos
    (XO (XO (XO (XO (XO (XO (XO (XO (XO (XO (XO (XO (XO (XO (XO (XO (XO (XO
    (XO (XO (XO (XO (XO (XO (XO (XO (XO (XO (XO (XO (XO (XO (XO (XO (XO (XO
    (XO (XO (XO (XO (XO (XI (XO (XI (XO (XI (XI (XO (XO (XO (XO (XI (XI (XI
    (XI (XI (XO (XO (XO (XO (XO (XO
    XH))))))))))))))))))))))))))))))))))))))))))))))))))))))))))))))) :: []))))),
    ((Zpos (XO (XO (XO (XO (XO (XO (XO (XO (XO (XO XH))))))))))) :: ((Zpos
    (XO (XO (XO (XO (XO (XO (XO (XO (XO XH)))))))))) :: ((Zpos (XO (XO (XO
    (XO (XO (XO (XO (XO (XO XH)))))))))) :: [])))), ((Zpos (XO (XO (XO (XO
    (XO (XO (XO (XO (XO (XO XH))))))))))) :: ((Zpos (XO (XO (XO (XO (XO (XO
    (XO (XO (XO (XO XH))))))))))) :: ((Zpos (XO (XO (XO (XO (XO (XO (XO (XO
    (XO (XO XH))))))))))) :: [])))) :: (((((((((Zpos (XO XH)), (Zpos (XO (XO
    (XO (XI (XO (XI (XO (XO (XI (XI (XO (XO (XO XH))))))))))))))), (Zpos (XO
    (XO (XO (XI (XI (XO (XO (XI (XO (XI (XO (XI (XI XH))))))))))))))), (Zpos
    (XO XH))), ((Zpos (XO (XI (XO (XI (XI (XO (XO (XI (XI (XO (XO (XI (XI (XO
    (XO (XI (XI (XO (XO (XI (XI (XO (XO (XI (XI (XO (XO (XI (XI (XO (XO (XI
    (XI (XO (XO (XI (XI (XO (XO (XI (XI (XO (XO (XI (XI (XO (XO (XI (XI (XO
    (XO (XI (XI (XI (XO (XI (XI (XI (XI (XI (XI (XI (XO
    XH)))))))))))))))))))))))))))))))))))))))))))))))))))))))))))))))) :: (Z0 :: ((Zpos
    (XO (XO (XO (XO (XO (XO (XO (XO (XO (XO (XO (XO (XO (XO (XO (XO (XO (XO
    (XO (XO (XO (XO (XO (XO (XO (XO (XO (XO (XO (XO (XO (XO (XO (XO (XO (XO
    (XO (XO (XO (XO (XO (XO (XO (XO (XO (XO (XO (XO (XO (XO (XO (XO (XI (XI
    (XI (XI (XI (XI (XI (XI (XI
    XH)))))))))))))))))))))))))))))))))))))))))))))))))))))))))))))) :: [])))),
    ((Zpos (XO (XO (XO (XO (XO (XO (XO (XO (XO (XO (XO (XO (XO (XO (XO (XO
    (XO (XO (XO (XO (XO (XO (XO (XO (XO (XO (XO (XO (XO (XO (XO (XO (XO (XO
    (XO (XO (XO (XO (XO (XO (XO (XO (XO (XO (XO (XO (XI (XO (XI (XI (XI (XI
    (XI (XI (XO (XI (XO (XO (XO (XO (XO (XO
    XH))))))))))))))))))))))))))))))))))))))))))))))))))))))))))))))) :: ((Zpos
    (XO (XO (XO (XO (XO (XO (XO (XO (XO (XO (XO (XO (XO (XO (XO (XO (XO (XO
    (XO (XO (XO (XO (XO (XO (XO (XO (XO (XO (XO (XO (XO (XO (XO (XO (XO (XO
    (XO (XO (XO (XO (XO (XO (XI (XO (XO (XI (XI (XO (XI (XO (XO (XI (XO (XO
    (XI (XI (XO (XO (XO (XO (XO (XO
    XH))))))))))))))))))))))))))))))))))))))))))))))))))))))))))))))) :: ((Zpos
    (XO (XO (XO (XO (XO (XO (XO (XO (XO (XO (XO (XO (XO (XO (XO (XO (XO (XO
    (XO (XO (XO (XO (XO (XO (XO (XO (XO (XO (XO (XO (XO (XO (XO (XO (XO (XO
    (XO (XO (XO (XO (XO (XO (XI (XI (XI (XI (XI (XO (XI (XO (XI (XO (XO (XI
    (XI (XI (XO (XO (XO (XO (XO (XO
    XH))))))))))))))))))))))))))))))))))))))))))))))))))))))))))))))) :: [])))),
    ((Zpos (XO (XO (XO (XO (XO (XO (XO (XO (XO XH)))))))))) :: ((Zpos (XO (XO
    (XO (XO (XO (XO (XO (XO (XO XH)))))))))) :: []))), ((Zpos (XO (XO (XO (XO
    (XO (XO (XO (XO (XO XH)))))))))) :: ((Zpos (XO (XO (XO (XO (XO (XO (XO
    (XO (XO XH)))))))))) :: []))) :: (((((((((Zneg XH), (Zpos (XO (XO (XO (XI
    (XO (XI (XO (XO (XI (XI (XO (XO (XO XH))))))))))))))), (Zpos (XO (XO (XO
    (XI (XI (XO (XO (XI (XO (XI (XO (XI (XI XH))))))))))))))), (Zpos (XO
    XH))), ((Zpos (XO (XI (XO (XI (XI (XO (XO (XI (XI (XO (XO (XI (XI (XO (XO
    (XI (XI (XO (XO (XI (XI (XO (XO (XI (XI (XO (XO (XI (XI (XO (XO (XI (XI
    (XO (XO (XI (XI (XO (XO (XI (XI (XO (XO (XI (XI (XO (XO (XI (XI (XO (XO
    (XI (XI (XI (XO (XI (XI (XI (XI (XI (XI (XI (XO
    XH)))))))))))))))))))))))))))))))))))))))))))))))))))))))))))))))) :: (Z0 :: ((Zpos
    (XO (XO (XO (XO (XO (XO (XO (XO (XO (XO (XO (XO (XO (XO (XO (XO (XO (XO
    (XO (XO (XO (XO (XO (XO (XO (XO (XO (XO (XO (XO (XO (XO (XO (XO (XO (XO
    (XO (XO (XO (XO (XO (XO (XO (XO (XO (XO (XO (XO (XO (XO (XO (XO (XI (XI
    (XI (XI (XI (XI (XI (XI (XI
    XH)))))))))))))))))))))))))))))))))))))))))))))))))))))))))))))) :: [])))),
    ((Zpos (XO (XO (XO (XO (XO (XO (XO (XO (XO (XO (XO (XO (XO (XO (XO (XO
    (XO (XO (XO (XO (XO (XO (XO (XO (XO (XO (XO (XO (XO (XO (XO (XO (XO (XO
    (XO (XO (XO (XO (XO (XO (XO (XO (XO (XO (XI (XI (XI (XO (XI (XI (XI (XO
    (XO (XO (XI (XI (XO (XO (XO (XO (XO (XO
    XH))))))))))))))))))))))))))))))))))))))))))))))))))))))))))))))) :: ((Zpos
    (XO (XO (XO (XO (XO (XO (XO (XO (XO (XO (XO (XO (XO (XO (XO (XO (XO (XO
    (XO (XO (XO (XO (XO (XO (XO (XO (XO (XO (XO (XO (XO (XO (XO (XO (XO (XO
    (XO (XO (XO (XO (XO (XO (XO (XI (XO (XO (XO (XI (XI (XI (XO (XO (XI (XO
    (XI (XI (XO (XO (XO (XO (XO (XO
    XH))))))))))))))))))))))))))))))))))))))))))))))))))))))))))))))) :: ((Zpos
    (XO (XO (XO (XO (XO (XO (XO (XO (XO (XO (XO (XO (XO (XO (XO (XO (XO (XO
    (XO (XO (XO (XO (XO (XO (XO (XO (XO (XO (XO (XO (XO (XO (XO (XO (XO (XO
    (XO (XO (XO (XO (XO (XI (XO (XI (XO (XI (XI (XO (XO (XO (XO (XI (XO (XI
    (XI (XI (XO (XO (XO (XO (XO (XO
    XH))))))))))))))))))))))))))))))))))))))))))))))))))))))))))))))) :: [])))),
    ((Zpos (XO (XO (XO (XO (XO (XO (XO (XO (XO XH)))))))))) :: ((Zpos (XO (XO
    (XO (XO (XO (XO (XO (XO (XO XH)))))))))) :: []))), ((Zpos (XO (XO (XO (XO
    (XO (XO (XO (XO (XO XH)))))))))) :: ((Zpos (XO (XO (XO (XO (XO (XO (XO
    (XO (XO XH)))))))))) :: []))) :: (((((((((Zpos (XO XH)), (Zpos (XO (XO
    (XO (XO (XO (XO (XI (XO (XI (XI (XI (XI XH)))))))))))))), (Zpos (XO (XO
    (XO (XI (XO (XI (XO (XO (XI (XI (XO (XO (XO XH))))))))))))))), (Zpos (XO
    XH))), ((Zpos (XO (XI (XO (XI (XI (XO (XO (XI (XI (XO (XO (XI (XI (XO (XO
    (XI (XI (XO (XO (XI (XI (XO (XO (XI (XI (XO (XO (XI (XI (XO (XO (XI (XI
    (XO (XO (XI (XI (XO (XO (XI (XI (XO (XO (XI (XI (XO (XO (XI (XI (XO (XO
    (XI (XI (XI (XO (XI (XI (XI (XI (XI (XI (XI (XO
    XH)))))))))))))))))))))))))))))))))))))))))))))))))))))))))))))))) :: (Z0 :: ((Zpos
    (XO (XO (XO (XO (XO (XO (XO (XO (XO (XO (XO (XO (XO (XO (XO (XO (XO (XO
    (XO (XO (XO (XO (XO (XO (XO (XO (XO (XO (XO (XO (XO (XO (XO (XO (XO (XO
    (XO (XO (XO (XO (XO (XO (XO (XO (XO (XO (XO (XO (XO (XO (XO (XO (XI (XI
    (XI (XI (XI (XI (XI (XI (XI
    XH)))))))))))))))))))))))))))))))))))))))))))))))))))))))))))))) :: [])))),
    ((Zpos (XO (XO (XO (XO (XO (XO (XO (XO (XO (XO (XO (XO (XO (XO (XO (XO
    (XO (XO (XO (XO (XO (XO (XO (XO (XO (XO (XO (XO (XO (XO (XO (XO (XO (XO
    (XO (XO (XO (XO (XO (XO (XO (XO (XO (XO (XI (XI (XI (XO (XI (XI (XI (XO
    (XI (XI (XO (XI (XO (XO (XO (XO (XO (XO
    XH))))))))))))))))))))))))))))))))))))))))))))))))))))))))))))))) :: ((Zpos
    (XO (XO (XO (XO (XO (XO (XO (XO (XO (XO (XO (XO (XO (XO (XO (XO (XO (XO
    (XO (XO (XO (XO (XO (XO (XO (XO (XO (XO (XO (XO (XO (XO (XO (XO (XO (XO
    (XO (XO (XO (XO (XO (XO (XI (XO (XI (XO (XO (XI (XI (XO (XO (XO (XO (XO
    (XI (XI (XO (XO (XO (XO (XO (XO
    XH))))))))))))))))))))))))))))))))))))))))))))))))))))))))))))))) :: ((Zpos
    (XO (XO (XO (XO (XO (XO (XO (XO (XO (XO (XO (XO (XO (XO (XO (XO (XO (XO
    (XO (XO (XO (XO (XO (XO (XO (XO (XO (XO (XO (XO (XO (XO (XO (XO (XO (XO
    (XO (XO (XO (XO (XO (XO (XO (XO (XO (XO (XI (XO (XI (XI (XI (XI (XI (XO
    (XI (XI (XO (XO (XO (XO (XO (XO
    XH))))))))))))))))))))))))))))))))))))))))))))))))))))))))))))))) :: [])))),
    ((Zpos (XO (XO (XO (XO (XO (XO (XO (XO (XO XH)))))))))) :: ((Zpos (XO (XO
    (XO (XO (XO (XO (XO (XO (XO XH)))))))))) :: []))), ((Zpos (XO (XO (XO (XO
    (XO (XO (XO (XO (XO XH)))))))))) :: ((Zpos (XO (XO (XO (XO (XO (XO (XO
    (XO (XO XH)))))))))) :: []))) :: (((((((((Zneg XH), (Zpos (XO (XO (XO (XO
    (XO (XO (XI (XO (XI (XI (XI (XI XH)))))))))))))), (Zpos (XO (XO (XO (XI
    (XO (XI (XO (XO (XI (XI (XO (XO (XO XH))))))))))))))), (Zpos (XO XH))),
    ((Zpos (XO (XI (XO (XI (XI (XO (XO (XI (XI (XO (XO (XI (XI (XO (XO (XI
    (XI (XO (XO (XI (XI (XO (XO (XI (XI (XO (XO (XI (XI (XO (XO (XI (XI (XO
    (XO (XI (XI (XO (XO (XI (XI (XO (XO (XI (XI (XO (XO (XI (XI (XO (XO (XI
    (XI (XI (XO (XI (XI (XI (XI (XI (XI (XI (XO
    XH)))))))))))))))))))))))))))))))))))))))))))))))))))))))))))))))) :: (Z0 :: ((Zpos
    (XO (XO (XO (XO (XO (XO (XO (XO (XO (XO (XO (XO (XO (XO (XO (XO (XO (XO
    (XO (XO (XO (XO (XO (XO (XO (XO (XO (XO (XO (XO (XO (XO (XO (XO (XO (XO
    (XO (XO (XO (XO (XO (XO (XO (XO (XO (XO (XO (XO (XO (XO (XO (XO (XI (XI
    (XI (XI (XI (XI (XI (XI (XI
    XH)))))))))))))))))))))))))))))))))))))))))))))))))))))))))))))) :: [])))),
    ((Zpos (XO (XO (XO (XO (XO (XO (XO (XO (XO (XO (XO (XO (XO (XO (XO (XO
    (XO (XO (XO (XO (XO (XO (XO (XO (XO (XO (XO (XO (XO (XO (XO (XO (XO (XO
    (XO (XO (XO (XO (XO (XO (XO (XO (XO (XO (XO (XO (XI (XO (XI (XI (XI (XI
    (XI (XI (XO (XI (XO (XO (XO (XO (XO (XO
    XH))))))))))))))))))))))))))))))))))))))))))))))))))))))))))))))) :: ((Zpos
    (XO (XO (XO (XO (XO (XO (XO (XO (XO (XO (XO (XO (XO (XO (XO (XO (XO (XO
    (XO (XO (XO (XO (XO (XO (XO (XO (XO (XO (XO (XO (XO (XO (XO (XO (XO (XO
    (XO (XO (XO (XO (XO (XO (XO (XI (XI (XO (XI (XO (XI (XI (XO (XI (XO (XO
    (XI (XI (XO (XO (XO (XO (XO (XO
    XH))))))))))))))))))))))))))))))))))))))))))))))))))))))))))))))) :: ((Zpos
    (XO (XO (XO (XO (XO (XO (XO (XO (XO (XO (XO (XO (XO (XO (XO (XO (XO (XO
    (XO (XO (XO (XO (XO (XO (XO (XO (XO (XO (XO (XO (XO (XO (XO (XO (XO (XO
    (XO (XO (XO (XO (XO (XI (XO (XO (XO (XO (XO (XI (XO (XO (XI (XO (XO (XI
    (XI (XI (XO (XO (XO (XO (XO (XO
    XH))))))))))))))))))))))))))))))))))))))))))))))))))))))))))))))) :: [])))),
    ((Zpos (XO (XO (XO (XO (XO (XO (XO (XO (XO XH)))))))))) :: ((Zpos (XO (XO
    (XO (XO (XO (XO (XO (XO (XO XH)))))))))) :: []))), ((Zpos (XO (XO (XO (XO
    (XO (XO (XO (XO (XO XH)))))))))) :: ((Zpos (XO (XO (XO (XO (XO (XO (XO
    (XO (XO XH)))))))))) :: []))) :: (((((((((Zpos (XO XH)), (Zpos (XO (XO
    (XO (XO (XI (XO (XI (XO (XI (XI (XO (XO (XO (XO (XI XH))))))))))))))))),
    (Zpos (XO (XO (XO (XO (XO (XO (XI (XO (XI (XO (XI (XI (XO (XO (XO (XO (XI
    XH))))))))))))))))))), (Zpos (XI (XI (XO XH))))), ((Zpos (XO (XI (XO (XI
    (XI (XO (XO (XI (XI (XO (XO (XI (XI (XO (XO (XI (XI (XO (XO (XI (XI (XO
    (XO (XI (XI (XO (XO (XI (XI (XO (XO (XI (XI (XO (XO (XI (XI (XO (XO (XI
    (XI (XO (XO (XI (XI (XO (XO (XI (XI (XO (XO (XI (XI (XI (XO (XI (XI (XI
    (XI (XI (XI (XI (XO
    XH)))))))))))))))))))))))))))))))))))))))))))))))))))))))))))))))) :: (Z0 :: ((Zpos
    (XO (XI (XO (XI (XI (XO (XO (XI (XI (XO (XO (XI (XI (XO (XO (XI (XI (XO
    (XO (XI (XI (XO (XO (XI (XI (XO (XO (XI (XI (XO (XO (XI (XI (XO (XO (XI
    (XI (XO (XO (XI (XI (XO (XO (XI (XI (XO (XO (XI (XI (XO (XO (XI (XI (XI
    (XO (XI (XI (XI (XI (XI (XI
    XH)))))))))))))))))))))))))))))))))))))))))))))))))))))))))))))) :: ((Zpos
    (XO (XI (XO (XI (XI (XO (XO (XI (XI (XO (XO (XI (XI (XO (XO (XI (XI (XO
    (XO (XI (XI (XO (XO (XI (XI (XO (XO (XI (XI (XO (XO (XI (XI (XO (XO (XI
    (XI (XO (XO (XI (XI (XO (XO (XI (XI (XO (XO (XI (XI (XO (XO (XI (XO (XO
    (XI (XI (XI (XI (XI (XI (XI
    XH)))))))))))))))))))))))))))))))))))))))))))))))))))))))))))))) :: ((Zpos
    (XI (XI (XO (XO (XI (XI (XO (XO (XI (XI (XO (XO (XI (XI (XO (XO (XI (XI
    (XO (XO (XI (XI (XO (XO (XI (XI (XO (XO (XI (XI (XO (XO (XI (XI (XO (XO
    (XI (XI (XO (XO (XI (XI (XO (XO (XI (XI (XO (XO (XI (XI (XO (XO (XI (XO
    (XI (XI (XI (XI (XI (XI (XI
    XH)))))))))))))))))))))))))))))))))))))))))))))))))))))))))))))) :: ((Zpos
    (XO (XI (XO (XI (XI (XO (XO (XI (XI (XO (XO (XI (XI (XO (XO (XI (XI (XO
    (XO (XI (XI (XO (XO (XI (XI (XO (XO (XI (XI (XO (XO (XI (XI (XO (XO (XI
    (XI (XO (XO (XI (XI (XO (XO (XI (XI (XO (XO (XI (XI (XO (XO (XI (XI (XO
    (XI (XI (XI (XI (XI (XI (XI
    XH)))))))))))))))))))))))))))))))))))))))))))))))))))))))))))))) :: ((Zpos
    (XO (XO (XO (XO (XO (XO (XO (XO (XO (XO (XO (XO (XO (XO (XO (XO (XO (XO
    (XO (XO (XO (XO (XO (XO (XO (XO (XO (XO (XO (XO (XO (XO (XO (XO (XO (XO
    (XO (XO (XO (XO (XO (XO (XO (XO (XO (XO (XO (XO (XO (XO (XO (XO (XO (XI
    (XI (XI (XI (XI (XI (XI (XI
    XH)))))))))))))))))))))))))))))))))))))))))))))))))))))))))))))) :: ((Zpos
    (XI (XI (XO (XO (XI (XI (XO (XO (XI (XI (XO (XO (XI (XI (XO (XO (XI (XI
    (XO (XO (XI (XI (XO (XO (XI (XI (XO (XO (XI (XI (XO (XO (XI (XI (XO (XO
    (XI (XI (XO (XO (XI (XI (XO (XO (XI (XI (XO (XO (XI (XI (XO (XO (XO (XI
    (XI (XI (XI (XI (XI (XI (XI
    XH)))))))))))))))))))))))))))))))))))))))))))))))))))))))))))))) :: ((Zpos
    (XO (XI (XI (XO (XO (XI (XI (XO (XO (XI (XI (XO (XO (XI (XI (XO (XO (XI
    (XI (XO (XO (XI (XI (XO (XO (XI (XI (XO (XO (XI (XI (XO (XO (XI (XI (XO
    (XO (XI (XI (XO (XO (XI (XI (XO (XO (XI (XI (XO (XO (XI (XI (XO (XO (XI
    (XI (XI (XI (XI (XI (XI (XI
    XH)))))))))))))))))))))))))))))))))))))))))))))))))))))))))))))) :: ((Zpos
    (XO (XI (XO (XI (XI (XO (XO (XI (XI (XO (XO (XI (XI (XO (XO (XI (XI (XO
    (XO (XI (XI (XO (XO (XI (XI (XO (XO (XI (XI (XO (XO (XI (XI (XO (XO (XI
    (XI (XO (XO (XI (XI (XO (XO (XI (XI (XO (XO (XI (XI (XO (XO (XI (XO (XI
    (XI (XI (XI (XI (XI (XI (XI
    XH)))))))))))))))))))))))))))))))))))))))))))))))))))))))))))))) :: ((Zpos
    (XI (XO (XI (XI (XO (XO (XI (XI (XO (XO (XI (XI (XO (XO (XI (XI (XO (XO
    (XI (XI (XO (XO (XI (XI (XO (XO (XI (XI (XO (XO (XI (XI (XO (XO (XI (XI
    (XO (XO (XI (XI (XO (XO (XI (XI (XO (XO (XI (XI (XO (XO (XI (XI (XO (XI
    (XI (XI (XI (XI (XI (XI (XI
    XH)))))))))))))))))))))))))))))))))))))))))))))))))))))))))))))) :: ((Zpos
    (XO (XO (XO (XO (XO (XO (XO (XO (XO (XO (XO (XO (XO (XO (XO (XO (XO (XO
    (XO (XO (XO (XO (XO (XO (XO (XO (XO (XO (XO (XO (XO (XO (XO (XO (XO (XO
    (XO (XO (XO (XO (XO (XO (XO (XO (XO (XO (XO (XO (XO (XO (XO (XO (XI (XI
    (XI (XI (XI (XI (XI (XI (XI
    XH)))))))))))))))))))))))))))))))))))))))))))))))))))))))))))))) :: []))))))))))))),
    ((Zpos (XO (XO (XO (XO (XO (XO (XO (XO (XO (XO (XO (XO (XO (XO (XO (XO
    (XO (XO (XO (XO (XO (XO (XO (XO (XO (XO (XO (XO (XO (XO (XO (XO (XO (XO
    (XO (XO (XO (XO (XO (XO (XO (XO (XO (XO (XO (XO (XO (XO (XO (XO (XO (XO
    (XI (XI (XI (XI (XI (XI (XI (XI (XI (XI (XO
    XH)))))))))))))))))))))))))))))))))))))))))))))))))))))))))))))))) :: ((Zpos
    (XO (XO (XO (XO (XO (XO (XO (XO (XO (XO (XO (XO (XO (XO (XO (XO (XO (XO
    (XO (XO (XO (XO (XO (XO (XO (XO (XO (XO (XO (XO (XO (XO (XO (XO (XO (XO
    (XO (XO (XO (XO (XO (XO (XO (XO (XO (XO (XO (XO (XO (XO (XO (XO (XI (XI
    (XI (XI (XI (XI (XI (XI (XI (XI (XO
    XH)))))))))))))))))))))))))))))))))))))))))))))))))))))))))))))))) :: ((Zpos
    (XO (XO (XO (XO (XO (XO (XO (XO (XO (XO (XO (XO (XO (XO (XO (XO (XO (XO
    (XO (XO (XO (XO (XO (XO (XO (XO (XO (XO (XO (XO (XO (XO (XO (XO (XO (XO
    (XO (XO (XO (XO (XO (XO (XO (XO (XO (XO (XO (XO (XO (XO (XO (XO (XI (XI
    (XI (XI (XI (XI (XI (XI (XI (XI (XO
    XH)))))))))))))))))))))))))))))))))))))))))))))))))))))))))))))))) :: ((Zpos
    (XO (XO (XO (XO (XO (XO (XO (XO (XO (XO (XO (XO (XO (XO (XO (XO (XO (XO
    (XO (XO (XO (XO (XO (XO (XO (XO (XO (XO (XO (XO (XO (XO (XO (XO (XO (XO
    (XO (XO (XO (XO (XO (XO (XO (XO (XO (XO (XO (XO (XO (XO (XO (XO (XI (XI
    (XI (XI (XI (XI (XI (XI (XI (XI (XO
    XH)))))))))))))))))))))))))))))))))))))))))))))))))))))))))))))))) :: ((Zpos
    (XO (XO (XO (XO (XO (XO (XO (XO (XO (XO (XO (XO (XO (XO (XO (XO (XO (XO
    (XO (XO (XO (XO (XO (XO (XO (XO (XO (XO (XO (XO (XO (XO (XO (XO (XO (XO
    (XO (XO (XO (XO (XO (XO (XO (XO (XO (XO (XO (XO (XO (XO (XO (XO (XI (XI
    (XI (XI (XI (XI (XI (XI (XI (XI (XO
    XH)))))))))))))))))))))))))))))))))))))))))))))))))))))))))))))))) :: ((Zpos
    (XO (XO (XO (XO (XO (XO (XO (XO (XO (XO (XO (XO (XO (XO (XO (XO (XO (XO
    (XO (XO (XO (XO (XO (XO (XO (XO (XO (XO (XO (XO (XO (XO (XO (XO (XO (XO
    (XO (XO (XO (XO (XO (XO (XO (XO (XO (XO (XO (XO (XO (XO (XO (XO (XI (XI
    (XI (XI (XI (XI (XI (XI (XI (XI (XO
    XH)))))))))))))))))))))))))))))))))))))))))))))))))))))))))))))))) :: ((Zpos
    (XO (XO (XO (XO (XO (XO (XO (XO (XO (XO (XO (XO (XO (XO (XO (XO (XO (XO
    (XO (XO (XO (XO (XO (XO (XO (XO (XO (XO (XO (XO (XO (XO (XO (XO (XO (XO
    (XO (XO (XO (XO (XO (XO (XO (XO (XO (XO (XO (XO (XO (XO (XO (XO (XI (XI
    (XI (XI (XI (XI (XI (XI (XI (XI (XO
    XH)))))))))))))))))))))))))))))))))))))))))))))))))))))))))))))))) :: ((Zpos
    (XO (XO (XO (XO (XO (XO (XO (XO (XO (XO (XO (XO (XO (XO (XO (XO (XO (XO
    (XO (XO (XO (XO (XO (XO (XO (XO (XO (XO (XO (XO (XO (XO (XO (XO (XO (XO
    (XO (XO (XO (XO (XO (XO (XO (XO (XO (XO (XO (XO (XO (XO (XO (XO (XI (XI
    (XI (XI (XI (XI (XI (XI (XI (XI (XO
    XH)))))))))))))))))))))))))))))))))))))))))))))))))))))))))))))))) :: ((Zpos
    (XO (XO (XO (XO (XO (XO (XO (XO (XO (XO (XO (XO (XO (XO (XO (XO (XO (XO
    (XO (XO (XO (XO (XO (XO (XO (XO (XO (XO (XO (XO (XO (XO (XO (XO (XO (XO
    (XO (XO (XO (XO (XO (XO (XO (XO (XO (XO (XO (XO (XO (XO (XO (XO (XI (XI
    (XI (XI (XI (XI (XI (XI (XI (XI (XO
    XH)))))))))))))))))))))))))))))))))))))))))))))))))))))))))))))))) :: ((Zpos
    (XO (XO (XO (XO (XO (XO (XO (XO (XO (XO (XO (XO (XO (XO (XO (XO (XO (XO
    (XO (XO (XO (XO (XO (XO (XO (XO (XO (XO (XO (XO (XO (XO (XO (XO (XO (XO
    (XO (XO (XO (XO (XO (XO (XO (XO (XO (XO (XO (XO (XO (XO (XO (XO (XI (XI
    (XI (XI (XI (XI (XI (XI (XI (XI (XO
    XH)))))))))))))))))))))))))))))))))))))))))))))))))))))))))))))))) :: ((Zpos
    (XO (XO (XO (XO (XO (XO (XO (XO (XO (XO (XO (XO (XO (XO (XO (XO (XO (XO
    (XO (XO (XO (XO (XO (XO (XO (XO (XO (XO (XO (XO (XO (XO (XO (XO (XO (XO
    (XO (XO (XO (XO (XO (XO (XO (XO (XO (XO (XO (XO (XO (XO (XO (XO (XI (XI
    (XI (XI (XI (XI (XI (XI (XI (XI (XO
    XH)))))))))))))))))))))))))))))))))))))))))))))))))))))))))))))))) :: ((Zpos
    (XO (XO (XO (XO (XO (XO (XO (XO (XO (XO (XO (XO (XO (XO (XO (XO (XO (XO
    (XO (XO (XO (XO (XO (XO (XO (XO (XO (XO (XO (XO (XO (XO (XO (XO (XO (XO
    (XO (XO (XO (XO (XO (XO (XO (XO (XO (XO (XO (XO (XO (XO (XO (XO (XI (XI
    (XI (XI (XI (XI (XI (XI (XI (XI (XO
    XH)))))))))))))))))))))))))))))))))))))))))))))))))))))))))))))))) :: []))))))))))))),
    ((Zpos (XO (XO (XO (XO (XO (XO (XO (XO (XO XH)))))))))) :: ((Zpos (XO (XO
    (XO (XO (XO (XO (XO (XO XH))))))))) :: ((Zpos (XO (XO (XO (XO (XO (XO (XO
    (XO XH))))))))) :: ((Zpos (XO (XO (XO (XO (XO (XO (XO (XO
    XH))))))))) :: ((Zpos (XO (XO (XO (XO (XO (XO (XO (XO
    XH))))))))) :: ((Zpos (XO (XO (XO (XO (XO (XO (XO (XO
    XH))))))))) :: ((Zpos (XO (XO (XO (XO (XO (XO (XO (XO
    XH))))))))) :: ((Zpos (XO (XO (XO (XO (XO (XO (XO (XO
    XH))))))))) :: ((Zpos (XO (XO (XO (XO (XO (XO (XO (XO
    XH))))))))) :: ((Zpos (XO (XO (XO (XO (XO (XO (XO (XO
    XH))))))))) :: ((Zpos (XO (XO (XO (XO (XO (XO (XO (XO
    XH))))))))) :: [])))))))))))), ((Zpos (XO (XO (XO (XO (XO (XO (XO (XO (XO
    (XO (XO (XO XH))))))))))))) :: ((Zpos (XO (XO (XO (XO (XO (XO (XO (XO (XO
    (XO (XO XH)))))))))))) :: ((Zpos (XO (XO (XO (XO (XO (XO (XO (XO (XO (XO
    (XO XH)))))))))))) :: ((Zpos (XO (XO (XO (XO (XO (XO (XO (XO (XO (XO (XO
    XH)))))))))))) :: ((Zpos (XO (XO (XO (XO (XO (XO (XO (XO (XO (XO (XO
    XH)))))))))))) :: ((Zpos (XO (XO (XO (XO (XO (XO (XO (XO (XO (XO (XO
    XH)))))))))))) :: ((Zpos (XO (XO (XO (XO (XO (XO (XO (XO (XO (XO (XO
    XH)))))))))))) :: ((Zpos (XO (XO (XO (XO (XO (XO (XO (XO (XO (XO (XO
    XH)))))))))))) :: ((Zpos (XO (XO (XO (XO (XO (XO (XO (XO (XO (XO (XO
    XH)))))))))))) :: ((Zpos (XO (XO (XO (XO (XO (XO (XO (XO (XO (XO (XO
    XH)))))))))))) :: ((Zpos (XO (XO (XO (XO (XO (XO (XO (XO (XO (XO (XO
    XH)))))))))))) :: [])))))))))))) :: (((((((((Zneg XH), (Zpos (XO (XO (XO
    (XO (XI (XO (XI (XO (XI (XI (XO (XO (XO (XO (XI XH))))))))))))))))),
    (Zpos (XO (XO (XO (XO (XO (XO (XI (XO (XI (XO (XI (XI (XO (XO (XO (XO (XI
    XH))))))))))))))))))), (Zpos (XI (XI (XO XH))))), ((Zpos (XO (XI (XO (XI
    (XI (XO (XO (XI (XI (XO (XO (XI (XI (XO (XO (XI (XI (XO (XO (XI (XI (XO
    (XO (XI (XI (XO (XO (XI (XI (XO (XO (XI (XI (XO (XO (XI (XI (XO (XO (XI
    (XI (XO (XO (XI (XI (XO (XO (XI (XI (XO (XO (XI (XI (XI (XO (XI (XI (XI
    (XI (XI (XI (XI (XO
    XH)))))))))))))))))))))))))))))))))))))))))))))))))))))))))))))))) :: (Z0 :: ((Zpos
    (XO (XI (XO (XI (XI (XO (XO (XI (XI (XO (XO (XI (XI (XO (XO (XI (XI (XO
    (XO (XI (XI (XO (XO (XI (XI (XO (XO (XI (XI (XO (XO (XI (XI (XO (XO (XI
    (XI (XO (XO (XI (XI (XO (XO (XI (XI (XO (XO (XI (XI (XO (XO (XI (XI (XI
    (XO (XI (XI (XI (XI (XI (XI
    XH)))))))))))))))))))))))))))))))))))))))))))))))))))))))))))))) :: ((Zpos
    (XO (XI (XO (XI (XI (XO (XO (XI (XI (XO (XO (XI (XI (XO (XO (XI (XI (XO
    (XO (XI (XI (XO (XO (XI (XI (XO (XO (XI (XI (XO (XO (XI (XI (XO (XO (XI
    (XI (XO (XO (XI (XI (XO (XO (XI (XI (XO (XO (XI (XI (XO (XO (XI (XO (XO
    (XI (XI (XI (XI (XI (XI (XI
    XH)))))))))))))))))))))))))))))))))))))))))))))))))))))))))))))) :: ((Zpos
    (XI (XI (XO (XO (XI (XI (XO (XO (XI (XI (XO (XO (XI (XI (XO (XO (XI (XI
    (XO (XO (XI (XI (XO (XO (XI (XI (XO (XO (XI (XI (XO (XO (XI (XI (XO (XO
    (XI (XI (XO (XO (XI (XI (XO (XO (XI (XI (XO (XO (XI (XI (XO (XO (XI (XO
    (XI (XI (XI (XI (XI (XI (XI
    XH)))))))))))))))))))))))))))))))))))))))))))))))))))))))))))))) :: ((Zpos
    (XO (XI (XO (XI (XI (XO (XO (XI (XI (XO (XO (XI (XI (XO (XO (XI (XI (XO
    (XO (XI (XI (XO (XO (XI (XI (XO (XO (XI (XI (XO (XO (XI (XI (XO (XO (XI
    (XI (XO (XO (XI (XI (XO (XO (XI (XI (XO (XO (XI (XI (XO (XO (XI (XI (XO
    (XI (XI (XI (XI (XI (XI (XI
    XH)))))))))))))))))))))))))))))))))))))))))))))))))))))))))))))) :: ((Zpos
    (XO (XO (XO (XO (XO (XO (XO (XO (XO (XO (XO (XO (XO (XO (XO (XO (XO (XO
    (XO (XO (XO (XO (XO (XO (XO (XO (XO (XO (XO (XO (XO (XO (XO (XO (XO (XO
    (XO (XO (XO (XO (XO (XO (XO (XO (XO (XO (XO (XO (XO (XO (XO (XO (XO (XI
    (XI (XI (XI (XI (XI (XI (XI
    XH)))))))))))))))))))))))))))))))))))))))))))))))))))))))))))))) :: ((Zpos
    (XI (XI (XO (XO (XI (XI (XO (XO (XI (XI (XO (XO (XI (XI (XO (XO (XI (XI
    (XO (XO (XI (XI (XO (XO (XI (XI (XO (XO (XI (XI (XO (XO (XI (XI (XO (XO
    (XI (XI (XO (XO (XI (XI (XO (XO (XI (XI (XO (XO (XI (XI (XO (XO (XO (XI
    (XI (XI (XI (XI (XI (XI (XI
    XH)))))))))))))))))))))))))))))))))))))))))))))))))))))))))))))) :: ((Zpos
    (XO (XI (XI (XO (XO (XI (XI (XO (XO (XI (XI (XO (XO (XI (XI (XO (XO (XI
    (XI (XO (XO (XI (XI (XO (XO (XI (XI (XO (XO (XI (XI (XO (XO (XI (XI (XO
    (XO (XI (XI (XO (XO (XI (XI (XO (XO (XI (XI (XO (XO (XI (XI (XO (XO (XI
    (XI (XI (XI (XI (XI (XI (XI
    XH)))))))))))))))))))))))))))))))))))))))))))))))))))))))))))))) :: ((Zpos
    (XO (XI (XO (XI (XI (XO (XO (XI (XI (XO (XO (XI (XI (XO (XO (XI (XI (XO
    (XO (XI (XI (XO (XO (XI (XI (XO (XO (XI (XI (XO (XO (XI (XI (XO (XO (XI
    (XI (XO (XO (XI (XI (XO (XO (XI (XI (XO (XO (XI (XI (XO (XO (XI (XO (XI
    (XI (XI (XI (XI (XI (XI (XI
    XH)))))))))))))))))))))))))))))))))))))))))))))))))))))))))))))) :: ((Zpos
    (XI (XO (XI (XI (XO (XO (XI (XI (XO (XO (XI (XI (XO (XO (XI (XI (XO (XO
    (XI (XI (XO (XO (XI (XI (XO (XO (XI (XI (XO (XO (XI (XI (XO (XO (XI (XI
    (XO (XO (XI (XI (XO (XO (XI (XI (XO (XO (XI (XI (XO (XO (XI (XI (XO (XI
    (XI (XI (XI (XI (XI (XI (XI
    XH)))))))))))))))))))))))))))))))))))))))))))))))))))))))))))))) :: ((Zpos
    (XO (XO (XO (XO (XO (XO (XO (XO (XO (XO (XO (XO (XO (XO (XO (XO (XO (XO
    (XO (XO (XO (XO (XO (XO (XO (XO (XO (XO (XO (XO (XO (XO (XO (XO (XO (XO
    (XO (XO (XO (XO (XO (XO (XO (XO (XO (XO (XO (XO (XO (XO (XO (XO (XI (XI
    (XI (XI (XI (XI (XI (XI (XI
    XH)))))))))))))))))))))))))))))))))))))))))))))))))))))))))))))) :: []))))))))))))),
    ((Zpos (XO (XO (XO (XO (XO (XO (XO (XO (XO (XO (XO (XO (XO (XO (XO (XO
    (XO (XO (XO (XO (XO (XO (XO (XO (XO (XO (XO (XO (XO (XO (XO (XO (XO (XO
    (XO (XO (XO (XO (XO (XO (XO (XO (XO (XO (XO (XO (XO (XO (XO (XO (XO (XO
    (XI (XI (XI (XI (XI (XI (XI (XI (XI (XI (XO
    XH)))))))))))))))))))))))))))))))))))))))))))))))))))))))))))))))) :: ((Zpos
    (XO (XO (XO (XO (XO (XO (XO (XO (XO (XO (XO (XO (XO (XO (XO (XO (XO (XO
    (XO (XO (XO (XO (XO (XO (XO (XO (XO (XO (XO (XO (XO (XO (XO (XO (XO (XO
    (XO (XO (XO (XO (XO (XO (XO (XO (XO (XO (XO (XO (XO (XO (XO (XO (XI (XI
    (XI (XI (XI (XI (XI (XI (XI (XI (XO
    XH)))))))))))))))))))))))))))))))))))))))))))))))))))))))))))))))) :: ((Zpos
    (XO (XO (XO (XO (XO (XO (XO (XO (XO (XO (XO (XO (XO (XO (XO (XO (XO (XO
    (XO (XO (XO (XO (XO (XO (XO (XO (XO (XO (XO (XO (XO (XO (XO (XO (XO (XO
    (XO (XO (XO (XO (XO (XO (XO (XO (XO (XO (XO (XO (XO (XO (XO (XO (XI (XI
    (XI (XI (XI (XI (XI (XI (XI (XI (XO
    XH)))))))))))))))))))))))))))))))))))))))))))))))))))))))))))))))) :: ((Zpos
    (XO (XO (XO (XO (XO (XO (XO (XO (XO (XO (XO (XO (XO (XO (XO (XO (XO (XO
    (XO (XO (XO (XO (XO (XO (XO (XO (XO (XO (XO (XO (XO (XO (XO (XO (XO (XO
    (XO (XO (XO (XO (XO (XO (XO (XO (XO (XO (XO (XO (XO (XO (XO (XO (XI (XI
    (XI (XI (XI (XI (XI (XI (XI (XI (XO
    XH)))))))))))))))))))))))))))))))))))))))))))))))))))))))))))))))) :: ((Zpos
    (XO (XO (XO (XO (XO (XO (XO (XO (XO (XO (XO (XO (XO (XO (XO (XO (XO (XO
    (XO (XO (XO (XO (XO (XO (XO (XO (XO (XO (XO (XO (XO (XO (XO (XO (XO (XO
    (XO (XO (XO (XO (XO (XO (XO (XO (XO (XO (XO (XO (XO (XO (XO (XO (XI (XI
    (XI (XI (XI (XI (XI (XI (XI (XI (XO
    XH)))))))))))))))))))))))))))))))))))))))))))))))))))))))))))))))) :: ((Zpos
    (XO (XO (XO (XO (XO (XO (XO (XO (XO (XO (XO (XO (XO (XO (XO (XO (XO (XO
    (XO (XO (XO (XO (XO (XO (XO (XO (XO (XO (XO (XO (XO (XO (XO (XO (XO (XO
    (XO (XO (XO (XO (XO (XO (XO (XO (XO (XO (XO (XO (XO (XO (XO (XO (XI (XI
    (XI (XI (XI (XI (XI (XI (XI (XI (XO
    XH)))))))))))))))))))))))))))))))))))))))))))))))))))))))))))))))) :: ((Zpos
    (XO (XO (XO (XO (XO (XO (XO (XO (XO (XO (XO (XO (XO (XO (XO (XO (XO (XO
    (XO (XO (XO (XO (XO (XO (XO (XO (XO (XO (XO (XO (XO (XO (XO (XO (XO (XO
    (XO (XO (XO (XO (XO (XO (XO (XO (XO (XO (XO (XO (XO (XO (XO (XO (XI (XI
    (XI (XI (XI (XI (XI (XI (XI (XI (XO
    XH)))))))))))))))))))))))))))))))))))))))))))))))))))))))))))))))) :: ((Zpos
    (XO (XO (XO (XO (XO (XO (XO (XO (XO (XO (XO (XO (XO (XO (XO (XO (XO (XO
    (XO (XO (XO (XO (XO (XO (XO (XO (XO (XO (XO (XO (XO (XO (XO (XO (XO (XO
    (XO (XO (XO (XO (XO (XO (XO (XO (XO (XO (XO (XO (XO (XO (XO (XO (XI (XI
    (XI (XI (XI (XI (XI (XI (XI (XI (XO
    XH)))))))))))))))))))))))))))))))))))))))))))))))))))))))))))))))) :: ((Zpos
    (XO (XO (XO (XO (XO (XO (XO (XO (XO (XO (XO (XO (XO (XO (XO (XO (XO (XO
    (XO (XO (XO (XO (XO (XO (XO (XO (XO (XO (XO (XO (XO (XO (XO (XO (XO (XO
    (XO (XO (XO (XO (XO (XO (XO (XO (XO (XO (XO (XO (XO (XO (XO (XO (XI (XI
    (XI (XI (XI (XI (XI (XI (XI (XI (XO
    XH)))))))))))))))))))))))))))))))))))))))))))))))))))))))))))))))) :: ((Zpos
    (XO (XO (XO (XO (XO (XO (XO (XO (XO (XO (XO (XO (XO (XO (XO (XO (XO (XO
    (XO (XO (XO (XO (XO (XO (XO (XO (XO (XO (XO (XO (XO (XO (XO (XO (XO (XO
    (XO (XO (XO (XO (XO (XO (XO (XO (XO (XO (XO (XO (XO (XO (XO (XO (XI (XI
    (XI (XI (XI (XI (XI (XI (XI (XI (XO
    XH)))))))))))))))))))))))))))))))))))))))))))))))))))))))))))))))) :: ((Zpos
    (XO (XO (XO (XO (XO (XO (XO (XO (XO (XO (XO (XO (XO (XO (XO (XO (XO (XO
    (XO (XO (XO (XO (XO (XO (XO (XO (XO (XO (XO (XO (XO (XO (XO (XO (XO (XO
    (XO (XO (XO (XO (XO (XO (XO (XO (XO (XO (XO (XO (XO (XO (XO (XO (XI (XI
    (XI (XI (XI (XI (XI (XI (XI (XI (XO
    XH)))))))))))))))))))))))))))))))))))))))))))))))))))))))))))))))) :: ((Zpos
    (XO (XO (XO (XO (XO (XO (XO (XO (XO (XO (XO (XO (XO (XO (XO (XO (XO (XO
    (XO (XO (XO (XO (XO (XO (XO (XO (XO (XO (XO (XO (XO (XO (XO (XO (XO (XO
    (XO (XO (XO (XO (XO (XO (XO (XO (XO (XO (XO (XO (XO (XO (XO (XO (XI (XI
    (XI (XI (XI (XI (XI (XI (XI (XI (XO
    XH)))))))))))))))))))))))))))))))))))))))))))))))))))))))))))))))) :: []))))))))))))),
    ((Zpos (XO (XO (XO (XO (XO (XO (XO (XO (XO XH)))))))))) :: ((Zpos (XO (XO
    (XO (XO (XO (XO (XO (XO XH))))))))) :: ((Zpos (XO (XO (XO (XO (XO (XO (XO
    (XO XH))))))))) :: ((Zpos (XO (XO (XO (XO (XO (XO (XO (XO
    XH))))))))) :: ((Zpos (XO (XO (XO (XO (XO (XO (XO (XO
    XH))))))))) :: ((Zpos (XO (XO (XO (XO (XO (XO (XO (XO
    XH))))))))) :: ((Zpos (XO (XO (XO (XO (XO (XO (XO (XO
    XH))))))))) :: ((Zpos (XO (XO (XO (XO (XO (XO (XO (XO
    XH))))))))) :: ((Zpos (XO (XO (XO (XO (XO (XO (XO (XO
    XH))))))))) :: ((Zpos (XO (XO (XO (XO (XO (XO (XO (XO
    XH))))))))) :: ((Zpos (XO (XO (XO (XO (XO (XO (XO (XO
    XH))))))))) :: [])))))))))))), ((Zpos (XO (XO (XO (XO (XO (XO (XO (XO (XO
    (XO (XO (XO XH))))))))))))) :: ((Zpos (XO (XO (XO (XO (XO (XO (XO (XO (XO
    (XO (XO XH)))))))))))) :: ((Zpos (XO (XO (XO (XO (XO (XO (XO (XO (XO (XO
    (XO XH)))))))))))) :: ((Zpos (XO (XO (XO (XO (XO (XO (XO (XO (XO (XO (XO
    XH)))))))))))) :: ((Zpos (XO (XO (XO (XO (XO (XO (XO (XO (XO (XO (XO
    XH)))))))))))) :: ((Zpos (XO (XO (XO (XO (XO (XO (XO (XO (XO (XO (XO
    XH)))))))))))) :: ((Zpos (XO (XO (XO (XO (XO (XO (XO (XO (XO (XO (XO
    XH)))))))))))) :: ((Zpos (XO (XO (XO (XO (XO (XO (XO (XO (XO (XO (XO
    XH)))))))))))) :: ((Zpos (XO (XO (XO (XO (XO (XO (XO (XO (XO (XO (XO
    XH)))))))))))) :: ((Zpos (XO (XO (XO (XO (XO (XO (XO (XO (XO (XO (XO
    XH)))))))))))) :: ((Zpos (XO (XO (XO (XO (XO (XO (XO (XO (XO (XO (XO
    XH)))))))))))) :: [])))))))))))) :: (((((((((Zpos (XO XH)), Z0), (Zpos
    (XO (XO (XO (XO (XO (XO (XI (XO (XI (XI (XI (XI XH)))))))))))))), (Zpos
    (XO XH))), ((Zpos (XO (XI (XO (XI (XI (XO (XO (XI (XI (XO (XO (XI (XI (XO
    (XO (XI (XI (XO (XO (XI (XI (XO (XO (XI (XI (XO (XO (XI (XI (XO (XO (XI
    (XI (XO (XO (XI (XI (XO (XO (XI (XI (XO (XO (XI (XI (XO (XO (XI (XI (XO
    (XO (XI (XI (XI (XO (XI (XI (XI (XI (XI (XI (XI (XO
    XH)))))))))))))))))))))))))))))))))))))))))))))))))))))))))))))))) :: (Z0 :: ((Zpos
    (XO (XO (XO (XO (XO (XO (XO (XO (XO (XO (XO (XO (XO (XO (XO (XO (XO (XO
    (XO (XO (XO (XO (XO (XO (XO (XO (XO (XO (XO (XO (XO (XO (XO (XO (XO (XO
    (XO (XO (XO (XO (XO (XO (XO (XO (XO (XO (XO (XO (XO (XO (XO (XO (XI (XI
    (XI (XI (XI (XI (XI (XI (XI
    XH)))))))))))))))))))))))))))))))))))))))))))))))))))))))))))))) :: [])))),
    ((Zpos (XO (XO (XO (XO (XO (XO (XO (XO (XO (XO (XO (XO (XO (XO (XO (XO
    (XO (XO (XO (XO (XO (XO (XO (XO (XO (XO (XO (XO (XO (XO (XO (XO (XO (XO
    (XO (XO (XO (XO (XO (XO (XO (XO (XO (XO (XO (XO (XO (XO (XO (XO (XO (XO
    (XI (XI (XI (XI (XI (XI (XI (XI (XI (XI (XO
    XH)))))))))))))))))))))))))))))))))))))))))))))))))))))))))))))))) :: ((Zpos
    (XO (XO (XO (XO (XO (XO (XO (XO (XO (XO (XO (XO (XO (XO (XO (XO (XO (XO
    (XO (XO (XO (XO (XO (XO (XO (XO (XO (XO (XO (XO (XO (XO (XO (XO (XO (XO
    (XO (XO (XO (XO (XO (XO (XO (XO (XO (XO (XO (XO (XO (XO (XO (XO (XI (XI
    (XI (XI (XI (XI (XI (XI (XI (XI (XO
    XH)))))))))))))))))))))))))))))))))))))))))))))))))))))))))))))))) :: ((Zpos
    (XO (XO (XO (XO (XO (XO (XO (XO (XO (XO (XO (XO (XO (XO (XO (XO (XO (XO
    (XO (XO (XO (XO (XO (XO (XO (XO (XO (XO (XO (XO (XO (XO (XO (XO (XO (XO
    (XO (XO (XO (XO (XO (XO (XO (XO (XO (XO (XO (XO (XO (XO (XO (XO (XI (XI
    (XI (XI (XI (XI (XI (XI (XI (XI (XO
    XH)))))))))))))))))))))))))))))))))))))))))))))))))))))))))))))))) :: [])))),
    ((Zpos (XO (XO (XO (XO (XO (XO (XO (XO (XO XH)))))))))) :: ((Zpos (XO (XO
    (XO (XO (XO (XO (XO (XO (XO XH)))))))))) :: []))), ((Zpos (XO (XO (XO (XO
    (XO (XO (XO (XO (XO XH)))))))))) :: ((Zpos (XO (XO (XO (XO (XO (XO (XO
    (XO (XO XH)))))))))) :: []))) :: (((((((((Zneg XH), Z0), (Zpos (XO (XO
    (XO (XO (XO (XO (XI (XO (XI (XI (XI (XI XH)))))))))))))), (Zpos (XO
    XH))), ((Zpos (XO (XI (XO (XI (XI (XO (XO (XI (XI (XO (XO (XI (XI (XO (XO
    (XI (XI (XO (XO (XI (XI (XO (XO (XI (XI (XO (XO (XI (XI (XO (XO (XI (XI
    (XO (XO (XI (XI (XO (XO (XI (XI (XO (XO (XI (XI (XO (XO (XI (XI (XO (XO
    (XI (XI (XI (XO (XI (XI (XI (XI (XI (XI (XI (XO
    XH)))))))))))))))))))))))))))))))))))))))))))))))))))))))))))))))) :: (Z0 :: ((Zpos
    (XO (XO (XO (XO (XO (XO (XO (XO (XO (XO (XO (XO (XO (XO (XO (XO (XO (XO
    (XO (XO (XO (XO (XO (XO (XO (XO (XO (XO (XO (XO (XO (XO (XO (XO (XO (XO
    (XO (XO (XO (XO (XO (XO (XO (XO (XO (XO (XO (XO (XO (XO (XO (XO (XI (XI
    (XI (XI (XI (XI (XI (XI (XI
    XH)))))))))))))))))))))))))))))))))))))))))))))))))))))))))))))) :: [])))),
    ((Zpos (XO (XO (XO (XO (XO (XO (XO (XO (XO (XO (XO (XO (XO (XO (XO (XO
    (XO (XO (XO (XO (XO (XO (XO (XO (XO (XO (XO (XO (XO (XO (XO (XO (XO (XO
    (XO (XO (XO (XO (XO (XO (XO (XO (XO (XO (XO (XO (XO (XO (XO (XO (XO (XO
    (XI (XI (XI (XI (XI (XI (XI (XI (XI (XI (XO
    XH)))))))))))))))))))))))))))))))))))))))))))))))))))))))))))))))) :: ((Zpos
    (XO (XO (XO (XO (XO (XO (XO (XO (XO (XO (XO (XO (XO (XO (XO (XO (XO (XO
    (XO (XO (XO (XO (XO (XO (XO (XO (XO (XO (XO (XO (XO (XO (XO (XO (XO (XO
    (XO (XO (XO (XO (XO (XO (XO (XO (XO (XO (XO (XO (XO (XO (XO (XO (XI (XI
    (XI (XI (XI (XI (XI (XI (XI (XI (XO
    XH)))))))))))))))))))))))))))))))))))))))))))))))))))))))))))))))) :: ((Zpos
    (XO (XO (XO (XO (XO (XO (XO (XO (XO (XO (XO (XO (XO (XO (XO (XO (XO (XO
    (XO (XO (XO (XO (XO (XO (XO (XO (XO (XO (XO (XO (XO (XO (XO (XO (XO (XO
    (XO (XO (XO (XO (XO (XO (XO (XO (XO (XO (XO (XO (XO (XO (XO (XO (XI (XI
    (XI (XI (XI (XI (XI (XI (XI (XI (XO
    XH)))))))))))))))))))))))))))))))))))))))))))))))))))))))))))))))) :: [])))),
    ((Zpos (XO (XO (XO (XO (XO (XO (XO (XO (XO XH)))))))))) :: ((Zpos (XO (XO
    (XO (XO (XO (XO (XO (XO (XO XH)))))))))) :: []))), ((Zpos (XO (XO (XO (XO
    (XO (XO (XO (XO (XO XH)))))))))) :: ((Zpos (XO (XO (XO (XO (XO (XO (XO
    (XO (XO XH)))))))))) :: []))) :: []))))))))))))))))

(** val floor1_fromdB_bits : z list **)

let floor1_fromdB_bits =
  (Zpos (XO (XI (XI (XI (XI (XI (XO (XO (XO (XO (XI (XO (XI (XI (XO (XI (XO
    (XO (XI (XO (XO (XI (XI (XI (XI (XI (XO (XO (XI
    XH)))))))))))))))))))))))))))))) :: ((Zpos (XI (XO (XO (XI (XO (XO (XO
    (XO (XI (XO (XO (XO (XI (XO (XO (XI (XI (XI (XO (XO (XI (XI (XI (XI (XI
    (XI (XO (XO (XI XH)))))))))))))))))))))))))))))) :: ((Zpos (XI (XI (XO
    (XI (XO (XO (XO (XI (XO (XI (XO (XO (XI (XI (XO (XI (XI (XO (XO (XO (XO
    (XO (XO (XO (XO (XO (XI (XO (XI
    XH)))))))))))))))))))))))))))))) :: ((Zpos (XO (XO (XI (XI (XI (XI (XO
    (XO (XO (XO (XO (XO (XO (XI (XO (XO (XO (XI (XO (XI (XO (XO (XO (XO (XO
    (XO (XI (XO (XI XH)))))))))))))))))))))))))))))) :: ((Zpos (XI (XI (XO
    (XO (XO (XI (XO (XO (XO (XI (XO (XI (XI (XO (XO (XO (XI (XI (XO (XO (XI
    (XO (XO (XO (XO (XO (XI (XO (XI
    XH)))))))))))))))))))))))))))))) :: ((Zpos (XO (XO (XO (XO (XO (XI (XI
    (XO (XI (XO (XO (XI (XO (XI (XO (XI (XO (XO (XI (XI (XI (XO (XO (XO (XO
    (XO (XI (XO (XI XH)))))))))))))))))))))))))))))) :: ((Zpos (XI (XI (XI
    (XO (XO (XI (XO (XI (XI (XI (XI (XO (XI (XO (XI (XI (XO (XI (XI (XO (XO
    (XI (XO (XO (XO (XO (XI (XO (XI
    XH)))))))))))))))))))))))))))))) :: ((Zpos (XI (XI (XO (XI (XO (XO (XI
    (XO (XI (XI (XI (XI (XO (XI (XO (XI (XI (XO (XO (XO (XI (XI (XO (XO (XO
    (XO (XI (XO (XI XH)))))))))))))))))))))))))))))) :: ((Zpos (XO (XO (XO
    (XO (XI (XO (XI (XO (XI (XI (XO (XI (XI (XI (XO (XO (XI (XO (XI (XI (XI
    (XI (XO (XO (XO (XO (XI (XO (XI
    XH)))))))))))))))))))))))))))))) :: ((Zpos (XO (XO (XO (XO (XI (XI (XI
    (XO (XI (XI (XI (XO (XO (XO (XO (XI (XI (XO (XO (XI (XO (XO (XI (XO (XO
    (XO (XI (XO (XI XH)))))))))))))))))))))))))))))) :: ((Zpos (XI (XI (XO
    (XO (XO (XI (XO (XO (XO (XO (XO (XO (XO (XI (XO (XI (XO (XI (XI (XO (XI
    (XO (XI (XO (XO (XO (XI (XO (XI
    XH)))))))))))))))))))))))))))))) :: ((Zpos (XO (XO (XO (XI (XI (XI (XO
    (XI (XO (XI (XO (XO (XI (XO (XO (XI (XO (XO (XI (XO (XO (XI (XI (XO (XO
    (XO (XI (XO (XI XH)))))))))))))))))))))))))))))) :: ((Zpos (XI (XO (XI
    (XO (XI (XO (XI (XO (XI (XO (XI (XI (XO (XI (XI (XO (XI (XI (XO (XO (XI
    (XI (XI (XO (XO (XO (XI (XO (XI
    XH)))))))))))))))))))))))))))))) :: ((Zpos (XO (XO (XO (XI (XO (XO (XO
    (XI (XI (XI (XI (XI (XI (XO (XO (XI (XI (XO (XO (XO (XO (XO (XO (XI (XO
    (XO (XI (XO (XI XH)))))))))))))))))))))))))))))) :: ((Zpos (XO (XO (XI
    (XI (XI (XI (XI (XI (XI (XI (XO (XI (XO (XO (XO (XO (XO (XI (XO (XI (XO
    (XO (XO (XI (XO (XO (XI (XO (XI
    XH)))))))))))))))))))))))))))))) :: ((Zpos (XI (XI (XO (XO (XI (XO (XO
    (XI (XO (XO (XI (XO (XO (XO (XO (XO (XI (XI (XO (XO (XI (XO (XO (XI (XO
    (XO (XI (XO (XI XH)))))))))))))))))))))))))))))) :: ((Zpos (XI (XO (XO
    (XI (XO (XI (XI (XO (XO (XI (XO (XO (XI (XO (XO (XI (XO (XO (XI (XI (XI
    (XO (XO (XI (XO (XO (XI (XO (XI
    XH)))))))))))))))))))))))))))))) :: ((Zpos (XO (XI (XO (XO (XI (XI (XO
    (XO (XI (XI (XI (XI (XI (XI (XO (XI (XO (XI (XI (XO (XO (XI (XO (XI (XO
    (XO (XI (XO (XI XH)))))))))))))))))))))))))))))) :: ((Zpos (XI (XI (XI
    (XI (XI (XI (XO (XO (XI (XO (XI (XO (XI (XO (XO (XI (XI (XO (XO (XO (XI
    (XI (XO (XI (XO (XO (XI (XO (XI
    XH)))))))))))))))))))))))))))))) :: ((Zpos (XI (XI (XO (XO (XI (XO (XO
    (XI (XI (XI (XI (XI (XI (XO (XO (XO (XI (XO (XI (XI (XI (XI (XO (XI (XO
    (XO (XI (XO (XI XH)))))))))))))))))))))))))))))) :: ((Zpos (XO (XO (XI
    (XO (XO (XI (XI (XI (XI (XO (XO (XI (XO (XI (XI (XO (XI (XO (XO (XI (XO
    (XO (XI (XI (XO (XO (XI (XO (XI
    XH)))))))))))))))))))))))))))))) :: ((Zpos (XI (XO (XI (XI (XO (XI (XO
    (XI (XO (XO (XO (XO (XO (XO (XO (XI (XO (XI (XI (XO (XI (XO (XI (XI (XO
    (XO (XI (XO (XI XH)))))))))))))))))))))))))))))) :: ((Zpos (XO (XI (XI
    (XO (XI (XI (XO (XO (XI (XO (XO (XO (XI (XI (XI (XO (XO (XO (XI (XO (XO
    (XI (XI (XI (XO (XO (XI (XO (XI
    XH)))))))))))))))))))))))))))))) :: ((Zpos (XO (XI (XI (XO (XO (XI (XO
    (XI (XI (XO (XO (XI (XO (XO (XI (XO (XI (XI (XO (XO (XI (XI (XI (XI (XO
    (XO (XI (XO (XI XH)))))))))))))))))))))))))))))) :: ((Zpos (XO (XO (XO
    (XI (XO (XO (XO (XI (XO (XO (XI (XI (XO (XO (XO (XI (XI (XO (XO (XO (XO
    (XO (XO (XO (XI (XO (XI (XO (XI
    XH)))))))))))))))))))))))))))))) :: ((Zpos (XO (XO (XO (XO (XO (XO (XI
    (XI (XI (XI (XI (XO (XI (XI (XI (XI (XI (XO (XO (XI (XO (XO (XO (XO (XI
    (XO (XI (XO (XI XH)))))))))))))))))))))))))))))) :: ((Zpos (XO (XI (XI
    (XO (XO (XO (XO (XO (XI (XI (XI (XI (XO (XI (XI (XI (XO (XI (XO (XO (XI
    (XO (XO (XO (XI (XO (XI (XO (XI
    XH)))))))))))))))))))))))))))))) :: ((Zpos (XO (XI (XI (XO (XI (XI (XI
    (XO (XI (XI (XO (XI (XI (XI (XI (XO (XO (XO (XI (XI (XI (XO (XO (XO (XI
    (XO (XI (XO (XI XH)))))))))))))))))))))))))))))) :: ((Zpos (XO (XO (XO
    (XO (XO (XO (XI (XI (XO (XI (XI (XO (XO (XI (XO (XI (XO (XI (XI (XO (XO
    (XI (XO (XO (XI (XO (XI (XO (XI
    XH)))))))))))))))))))))))))))))) :: ((Zpos (XI (XI (XI (XO (XI (XI (XO
    (XO (XI (XI (XO (XI (XI (XI (XI (XO (XI (XO (XO (XO (XI (XI (XO (XO (XI
    (XO (XI (XO (XI XH)))))))))))))))))))))))))))))) :: ((Zpos (XO (XI (XO
    (XI (XI (XO (XI (XI (XI (XI (XO (XO (XO (XO (XO (XO (XI (XO (XI (XI (XI
    (XI (XO (XO (XI (XO (XI (XO (XI
    XH)))))))))))))))))))))))))))))) :: ((Zpos (XO (XI (XI (XI (XI (XO (XI
    (XO (XO (XO (XI (XI (XO (XO (XI (XO (XI (XO (XO (XI (XO (XO (XI (XO (XI
    (XO (XI (XO (XI XH)))))))))))))))))))))))))))))) :: ((Zpos (XI (XI (XO
    (XI (XI (XI (XO (XO (XI (XO (XO (XO (XO (XI (XI (XO (XO (XI (XI (XO (XI
    (XO (XI (XO (XI (XO (XI (XO (XI
    XH)))))))))))))))))))))))))))))) :: ((Zpos (XI (XO (XO (XI (XI (XI (XO
    (XI (XI (XI (XI (XI (XO (XO (XI (XO (XO (XO (XI (XO (XO (XI (XI (XO (XI
    (XO (XI (XO (XI XH)))))))))))))))))))))))))))))) :: ((Zpos (XO (XO (XI
    (XI (XI (XI (XI (XI (XI (XO (XI (XO (XO (XI (XO (XO (XI (XI (XO (XO (XI
    (XI (XI (XO (XI (XO (XI (XO (XI
    XH)))))))))))))))))))))))))))))) :: ((Zpos (XO (XI (XO (XI (XO (XO (XO
    (XI (XI (XO (XO (XI (XI (XI (XI (XO (XI (XO (XO (XO (XO (XO (XO (XI (XI
    (XO (XI (XO (XI XH)))))))))))))))))))))))))))))) :: ((Zpos (XO (XI (XI
    (XO (XO (XO (XO (XI (XI (XI (XO (XO (XO (XI (XI (XI (XI (XO (XO (XI (XO
    (XO (XO (XI (XI (XO (XI (XO (XI
    XH)))))))))))))))))))))))))))))) :: ((Zpos (XO (XO (XI (XI (XI (XI (XI
    (XO (XI (XO (XO (XI (XI (XO (XI (XI (XO (XI (XO (XO (XI (XO (XO (XI (XI
    (XO (XI (XO (XI XH)))))))))))))))))))))))))))))) :: ((Zpos (XI (XO (XI
    (XO (XO (XO (XO (XI (XO (XO (XI (XO (XO (XI (XI (XO (XO (XO (XI (XI (XI
    (XO (XO (XI (XI (XO (XI (XO (XI
    XH)))))))))))))))))))))))))))))) :: ((Zpos (XO (XI (XO (XO (XI (XO (XI
    (XO (XO (XI (XI (XI (XO (XO (XO (XI (XO (XI (XI (XO (XO (XI (XO (XI (XI
    (XO (XI (XO (XI XH)))))))))))))))))))))))))))))) :: ((Zpos (XI (XI (XO
    (XO (XI (XI (XO (XO (XI (XO (XO (XO (XO (XI (XI (XO (XI (XO (XO (XO (XI
    (XI (XO (XI (XI (XO (XI (XO (XI
    XH)))))))))))))))))))))))))))))) :: ((Zpos (XI (XO (XI (XO (XO (XI (XO
    (XO (XO (XO (XO (XI (XO (XI (XI (XI (XO (XO (XI (XI (XI (XI (XO (XI (XI
    (XO (XI (XO (XI XH)))))))))))))))))))))))))))))) :: ((Zpos (XO (XO (XI
    (XI (XI (XO (XI (XI (XO (XI (XI (XI (XO (XI (XO (XO (XI (XO (XO (XI (XO
    (XO (XI (XI (XI (XO (XI (XO (XI
    XH)))))))))))))))))))))))))))))) :: ((Zpos (XO (XI (XI (XI (XO (XO (XI
    (XI (XI (XO (XO (XO (XO (XO (XI (XO (XO (XI (XI (XO (XI (XO (XI (XI (XI
    (XO (XI (XO (XI XH)))))))))))))))))))))))))))))) :: ((Zpos (XI (XO (XO
    (XO (XO (XO (XI (XO (XO (XI (XI (XI (XO (XI (XO (XO (XO (XO (XI (XO (XO
    (XI (XI (XI (XI (XO (XI (XO (XI
    XH)))))))))))))))))))))))))))))) :: ((Zpos (XI (XI (XI (XO (XI (XO (XI
    (XO (XO (XI (XO (XO (XO (XO (XO (XO (XI (XI (XO (XO (XI (XI (XI (XI (XI
    (XO (XI (XO (XI XH)))))))))))))))))))))))))))))) :: ((Zpos (XI (XI (XI
    (XI (XO (XO (XO (XI (XO (XI (XI (XO (XO (XI (XI (XO (XI (XO (XO (XO (XO
    (XO (XO (XO (XO (XI (XI (XO (XI
    XH)))))))))))))))))))))))))))))) :: ((Zpos (XI (XI (XI (XI (XO (XO (XI
    (XO (XI (XI (XI (XI (XO (XO (XI (XI (XI (XO (XO (XI (XO (XO (XO (XO (XO
    (XI (XI (XO (XI XH)))))))))))))))))))))))))))))) :: ((Zpos (XI (XO (XI
    (XO (XI (XI (XI (XI (XI (XI (XO (XO (XO (XO (XI (XI (XO (XI (XO (XO (XI
    (XO (XO (XO (XO (XI (XI (XO (XI
    XH)))))))))))))))))))))))))))))) :: ((Zpos (XO (XO (XO (XI (XI (XO (XO
    (XI (XI (XO (XI (XI (XO (XO (XI (XO (XO (XO (XI (XI (XI (XO (XO (XO (XO
    (XI (XI (XO (XI XH)))))))))))))))))))))))))))))) :: ((Zpos (XO (XO (XO
    (XI (XO (XI (XI (XI (XI (XO (XI (XO (XI (XI (XI (XO (XO (XI (XI (XO (XO
    (XI (XO (XO (XO (XI (XI (XO (XI
    XH)))))))))))))))))))))))))))))) :: ((Zpos (XO (XI (XO (XO (XI (XI (XO
    (XO (XI (XI (XI (XO (XO (XO (XI (XO (XI (XO (XO (XO (XI (XI (XO (XO (XO
    (XI (XI (XO (XI XH)))))))))))))))))))))))))))))) :: ((Zpos (XO (XO (XI
    (XO (XI (XI (XI (XO (XO (XO (XI (XI (XO (XO (XI (XI (XO (XO (XI (XI (XI
    (XI (XO (XO (XO (XI (XI (XO (XI
    XH)))))))))))))))))))))))))))))) :: ((Zpos (XO (XI (XI (XI (XI (XO (XI
    (XO (XI (XO (XO (XO (XI (XO (XO (XO (XI (XO (XO (XI (XO (XO (XI (XO (XO
    (XI (XI (XO (XI XH)))))))))))))))))))))))))))))) :: ((Zpos (XI (XO (XI
    (XO (XO (XI (XI (XO (XO (XI (XO (XO (XO (XI (XO (XO (XO (XI (XI (XO (XI
    (XO (XI (XO (XO (XI (XI (XO (XI
    XH)))))))))))))))))))))))))))))) :: ((Zpos (XO (XI (XI (XI (XO (XO (XI
    (XI (XO (XO (XI (XI (XO (XO (XO (XO (XO (XO (XI (XO (XO (XI (XI (XO (XO
    (XI (XI (XO (XI XH)))))))))))))))))))))))))))))) :: ((Zpos (XO (XO (XO
    (XI (XI (XI (XO (XI (XO (XI (XI (XI (XI (XO (XI (XI (XO (XI (XO (XO (XI
    (XI (XI (XO (XO (XI (XI (XO (XI
    XH)))))))))))))))))))))))))))))) :: ((Zpos (XI (XI (XI (XO (XI (XO (XO
    (XI (XI (XI (XO (XO (XI (XO (XI (XO (XI (XO (XO (XO (XO (XO (XO (XI (XO
    (XI (XI (XO (XI XH)))))))))))))))))))))))))))))) :: ((Zpos (XO (XO (XI
    (XI (XI (XO (XO (XO (XI (XI (XO (XI (XI (XI (XO (XI (XI (XO (XO (XI (XO
    (XO (XO (XI (XO (XI (XI (XO (XI
    XH)))))))))))))))))))))))))))))) :: ((Zpos (XO (XI (XO (XO (XI (XI (XI
    (XO (XO (XI (XI (XI (XO (XI (XO (XI (XO (XI (XO (XO (XI (XO (XO (XI (XO
    (XI (XI (XO (XI XH)))))))))))))))))))))))))))))) :: ((Zpos (XI (XI (XI
    (XI (XO (XI (XO (XI (XO (XI (XI (XO (XI (XI (XO (XO (XO (XO (XI (XI (XI
    (XO (XO (XI (XO (XI (XI (XO (XI
    XH)))))))))))))))))))))))))))))) :: ((Zpos (XI (XO (XO (XO (XO (XO (XO
    (XI (XI (XO (XI (XI (XI (XO (XI (XO (XO (XI (XI (XO (XO (XI (XO (XI (XO
    (XI (XI (XO (XI XH)))))))))))))))))))))))))))))) :: ((Zpos (XI (XO (XI
    (XO (XI (XI (XO (XO (XI (XO (XI (XI (XO (XI (XO (XO (XI (XO (XO (XO (XI
    (XI (XO (XI (XO (XI (XI (XO (XI
    XH)))))))))))))))))))))))))))))) :: ((Zpos (XI (XI (XI (XO (XO (XO (XI
    (XI (XO (XO (XO (XO (XI (XI (XO (XI (XO (XO (XI (XI (XI (XI (XO (XI (XO
    (XI (XI (XO (XI XH)))))))))))))))))))))))))))))) :: ((Zpos (XO (XO (XI
    (XO (XO (XI (XI (XI (XI (XI (XO (XO (XI (XI (XI (XI (XO (XO (XO (XI (XO
    (XO (XI (XI (XO (XI (XI (XO (XI
    XH)))))))))))))))))))))))))))))) :: ((Zpos (XI (XO (XO (XO (XO (XO (XO
    (XO (XI (XI (XO (XO (XO (XO (XO (XO (XO (XI (XI (XO (XI (XO (XI (XI (XO
    (XI (XI (XO (XI XH)))))))))))))))))))))))))))))) :: ((Zpos (XO (XO (XO
    (XO (XO (XI (XI (XO (XI (XI (XO (XI (XO (XI (XI (XI (XI (XI (XO (XO (XO
    (XI (XI (XI (XO (XI (XI (XO (XI
    XH)))))))))))))))))))))))))))))) :: ((Zpos (XO (XI (XI (XI (XI (XO (XO
    (XO (XI (XI (XO (XI (XI (XI (XO (XI (XO (XI (XO (XO (XI (XI (XI (XI (XO
    (XI (XI (XO (XI XH)))))))))))))))))))))))))))))) :: ((Zpos (XO (XI (XO
    (XO (XO (XI (XO (XI (XO (XO (XO (XO (XO (XO (XI (XO (XI (XO (XO (XO (XO
    (XO (XO (XO (XI (XI (XI (XO (XI
    XH)))))))))))))))))))))))))))))) :: ((Zpos (XI (XI (XO (XI (XO (XI (XI
    (XI (XO (XI (XI (XO (XO (XI (XO (XI (XI (XO (XO (XI (XO (XO (XO (XO (XI
    (XI (XI (XO (XI XH)))))))))))))))))))))))))))))) :: ((Zpos (XI (XO (XO
    (XO (XI (XI (XI (XI (XO (XO (XO (XI (XI (XO (XO (XI (XO (XI (XO (XO (XI
    (XO (XO (XO (XI (XI (XI (XO (XI
    XH)))))))))))))))))))))))))))))) :: ((Zpos (XI (XO (XO (XI (XO (XO (XI
    (XI (XI (XI (XI (XI (XI (XO (XO (XO (XO (XO (XI (XI (XI (XO (XO (XO (XI
    (XI (XI (XO (XI XH)))))))))))))))))))))))))))))) :: ((Zpos (XO (XI (XI
    (XI (XI (XO (XO (XO (XI (XO (XI (XO (XO (XO (XI (XO (XO (XI (XI (XO (XO
    (XI (XO (XO (XI (XI (XI (XO (XI
    XH)))))))))))))))))))))))))))))) :: ((Zpos (XI (XO (XI (XI (XI (XI (XO
    (XO (XI (XI (XO (XO (XI (XO (XO (XO (XI (XO (XO (XO (XI (XI (XO (XO (XI
    (XI (XI (XO (XI XH)))))))))))))))))))))))))))))) :: ((Zpos (XO (XI (XI
    (XI (XI (XO (XO (XO (XI (XO (XI (XO (XI (XO (XO (XI (XO (XO (XI (XI (XI
    (XI (XO (XO (XI (XI (XI (XO (XI
    XH)))))))))))))))))))))))))))))) :: ((Zpos (XI (XI (XI (XI (XO (XI (XI
    (XO (XO (XI (XI (XO (XI (XO (XI (XI (XO (XO (XO (XI (XO (XO (XI (XO (XI
    (XI (XI (XO (XI XH)))))))))))))))))))))))))))))) :: ((Zpos (XO (XI (XO
    (XO (XO (XI (XO (XI (XI (XI (XO (XO (XO (XI (XI (XI (XI (XO (XI (XO (XI
    (XO (XI (XO (XI (XI (XI (XO (XI
    XH)))))))))))))))))))))))))))))) :: ((Zpos (XI (XI (XI (XO (XI (XI (XI
    (XI (XI (XO (XO (XI (XO (XO (XI (XI (XI (XI (XO (XO (XO (XI (XI (XO (XI
    (XI (XI (XO (XI XH)))))))))))))))))))))))))))))) :: ((Zpos (XI (XO (XO
    (XI (XO (XO (XO (XI (XI (XI (XI (XO (XI (XO (XO (XI (XO (XI (XO (XO (XI
    (XI (XI (XO (XI (XI (XI (XO (XI
    XH)))))))))))))))))))))))))))))) :: ((Zpos (XI (XI (XI (XI (XO (XI (XO
    (XI (XI (XO (XI (XI (XO (XI (XO (XO (XI (XO (XO (XO (XO (XO (XO (XI (XI
    (XI (XI (XO (XI XH)))))))))))))))))))))))))))))) :: ((Zpos (XO (XI (XI
    (XI (XI (XI (XO (XI (XO (XI (XO (XO (XI (XO (XO (XI (XI (XO (XO (XI (XO
    (XO (XO (XI (XI (XI (XI (XO (XI
    XH)))))))))))))))))))))))))))))) :: ((Zpos (XO (XO (XI (XO (XI (XI (XI
    (XO (XI (XI (XO (XO (XO (XO (XO (XI (XO (XI (XO (XO (XI (XO (XO (XI (XI
    (XI (XI (XO (XI XH)))))))))))))))))))))))))))))) :: ((Zpos (XO (XI (XI
    (XO (XO (XI (XI (XI (XO (XO (XO (XI (XO (XO (XO (XO (XO (XO (XI (XI (XI
    (XO (XO (XI (XI (XI (XI (XO (XI
    XH)))))))))))))))))))))))))))))) :: ((Zpos (XO (XI (XI (XI (XI (XI (XO
    (XI (XO (XO (XI (XI (XO (XI (XO (XO (XO (XI (XI (XO (XO (XI (XO (XI (XI
    (XI (XI (XO (XI XH)))))))))))))))))))))))))))))) :: ((Zpos (XI (XI (XI
    (XO (XO (XO (XI (XO (XI (XO (XO (XI (XI (XI (XI (XI (XO (XO (XO (XO (XI
    (XI (XO (XI (XI (XI (XI (XO (XI
    XH)))))))))))))))))))))))))))))) :: ((Zpos (XI (XO (XO (XI (XI (XI (XI
    (XO (XI (XO (XO (XI (XI (XI (XI (XO (XO (XO (XI (XI (XI (XI (XO (XI (XI
    (XI (XI (XO (XI XH)))))))))))))))))))))))))))))) :: ((Zpos (XO (XI (XI
    (XI (XI (XI (XI (XI (XO (XO (XO (XI (XI (XI (XO (XI (XO (XO (XO (XI (XO
    (XO (XI (XI (XI (XI (XI (XO (XI
    XH)))))))))))))))))))))))))))))) :: ((Zpos (XI (XI (XI (XO (XO (XO (XI
    (XO (XO (XO (XI (XO (XO (XO (XI (XI (XI (XO (XI (XO (XI (XO (XI (XI (XI
    (XI (XI (XO (XI XH)))))))))))))))))))))))))))))) :: ((Zpos (XO (XI (XO
    (XO (XI (XO (XO (XI (XO (XO (XO (XI (XO (XI (XO (XI (XI (XI (XO (XO (XO
    (XI (XI (XI (XI (XI (XI (XO (XI
    XH)))))))))))))))))))))))))))))) :: ((Zpos (XO (XO (XO (XI (XI (XI (XI
    (XI (XI (XI (XO (XO (XI (XI (XI (XO (XO (XI (XO (XO (XI (XI (XI (XI (XI
    (XI (XI (XO (XI XH)))))))))))))))))))))))))))))) :: ((Zpos (XO (XO (XO
    (XO (XO (XO (XI (XI (XO (XI (XO (XI (XI (XO (XO (XO (XI (XO (XO (XO (XO
    (XO (XO (XO (XO (XO (XO (XI (XI
    XH)))))))))))))))))))))))))))))) :: ((Zpos (XI (XI (XO (XO (XI (XO (XO
    (XI (XO (XI (XI (XI (XI (XI (XI (XO (XI (XO (XO (XI (XO (XO (XO (XO (XO
    (XO (XO (XI (XI XH)))))))))))))))))))))))))))))) :: ((Zpos (XI (XO (XO
    (XI (XI (XI (XI (XI (XI (XO (XI (XI (XO (XI (XI (XO (XO (XI (XO (XO (XI
    (XO (XO (XO (XO (XO (XO (XI (XI
    XH)))))))))))))))))))))))))))))) :: ((Zpos (XO (XI (XI (XO (XO (XO (XO
    (XO (XO (XI (XO (XO (XI (XI (XI (XI (XI (XI (XO (XI (XI (XO (XO (XO (XO
    (XO (XO (XI (XI XH)))))))))))))))))))))))))))))) :: ((Zpos (XO (XI (XO
    (XO (XO (XI (XI (XO (XO (XO (XI (XO (XI (XO (XO (XO (XO (XI (XI (XO (XO
    (XI (XO (XO (XO (XO (XO (XI (XI
    XH)))))))))))))))))))))))))))))) :: ((Zpos (XO (XI (XI (XO (XI (XO (XI
    (XO (XI (XI (XI (XI (XI (XO (XI (XI (XO (XO (XO (XO (XI (XI (XO (XO (XO
    (XO (XO (XI (XI XH)))))))))))))))))))))))))))))) :: ((Zpos (XO (XO (XO
    (XI (XI (XO (XI (XI (XI (XO (XI (XI (XI (XO (XI (XO (XO (XO (XI (XI (XI
    (XI (XO (XO (XO (XO (XO (XI (XI
    XH)))))))))))))))))))))))))))))) :: ((Zpos (XO (XI (XO (XO (XI (XO (XO
    (XI (XI (XI (XO (XI (XI (XO (XO (XI (XO (XO (XO (XI (XO (XO (XI (XO (XO
    (XO (XO (XI (XI XH)))))))))))))))))))))))))))))) :: ((Zpos (XO (XI (XO
    (XO (XI (XI (XI (XI (XO (XO (XI (XO (XO (XI (XO (XI (XI (XO (XI (XO (XI
    (XO (XI (XO (XO (XO (XO (XI (XI
    XH)))))))))))))))))))))))))))))) :: ((Zpos (XI (XI (XO (XO (XI (XI (XO
    (XO (XI (XI (XI (XO (XO (XO (XO (XI (XI (XI (XO (XO (XO (XI (XI (XO (XO
    (XO (XO (XI (XI XH)))))))))))))))))))))))))))))) :: ((Zpos (XO (XI (XI
    (XI (XO (XI (XI (XO (XO (XO (XO (XO (XI (XO (XI (XO (XO (XI (XO (XO (XI
    (XI (XI (XO (XO (XO (XO (XI (XI
    XH)))))))))))))))))))))))))))))) :: ((Zpos (XI (XI (XO (XO (XI (XO (XI
    (XI (XI (XI (XI (XO (XO (XO (XO (XO (XI (XO (XO (XO (XO (XO (XO (XI (XO
    (XO (XO (XI (XI XH)))))))))))))))))))))))))))))) :: ((Zpos (XI (XI (XO
    (XI (XO (XI (XI (XO (XO (XI (XO (XI (XO (XI (XI (XO (XI (XO (XO (XI (XO
    (XO (XO (XI (XO (XO (XO (XI (XI
    XH)))))))))))))))))))))))))))))) :: ((Zpos (XO (XI (XO (XO (XO (XO (XO
    (XI (XO (XO (XO (XI (XI (XO (XI (XO (XO (XI (XO (XO (XI (XO (XO (XI (XO
    (XO (XO (XI (XI XH)))))))))))))))))))))))))))))) :: ((Zpos (XO (XI (XO
    (XI (XO (XI (XO (XO (XI (XI (XO (XI (XI (XO (XI (XI (XI (XI (XO (XI (XI
    (XO (XO (XI (XO (XO (XO (XI (XI
    XH)))))))))))))))))))))))))))))) :: ((Zpos (XI (XO (XO (XI (XO (XO (XO
    (XO (XO (XO (XI (XI (XI (XI (XI (XI (XI (XO (XI (XO (XO (XI (XO (XI (XO
    (XO (XO (XI (XI XH)))))))))))))))))))))))))))))) :: ((Zpos (XO (XO (XO
    (XI (XO (XI (XI (XO (XI (XO (XI (XO (XO (XO (XI (XI (XO (XO (XO (XO (XI
    (XI (XO (XI (XO (XO (XO (XI (XI
    XH)))))))))))))))))))))))))))))) :: ((Zpos (XI (XI (XO (XI (XI (XI (XO
    (XO (XO (XI (XO (XO (XO (XO (XI (XO (XO (XO (XI (XI (XI (XI (XO (XI (XO
    (XO (XO (XI (XI XH)))))))))))))))))))))))))))))) :: ((Zpos (XI (XO (XO
    (XI (XO (XI (XO (XO (XO (XI (XI (XI (XI (XI (XI (XO (XO (XO (XO (XI (XO
    (XO (XI (XI (XO (XO (XO (XI (XI
    XH)))))))))))))))))))))))))))))) :: ((Zpos (XO (XO (XO (XO (XO (XI (XO
    (XI (XI (XO (XI (XO (XO (XO (XO (XI (XI (XO (XI (XO (XI (XO (XI (XI (XO
    (XO (XO (XI (XI XH)))))))))))))))))))))))))))))) :: ((Zpos (XI (XO (XO
    (XI (XI (XO (XI (XI (XI (XO (XI (XO (XO (XI (XI (XO (XI (XI (XO (XO (XO
    (XI (XI (XI (XO (XO (XO (XI (XI
    XH)))))))))))))))))))))))))))))) :: ((Zpos (XO (XO (XO (XI (XO (XI (XI
    (XI (XO (XO (XI (XI (XO (XI (XO (XO (XO (XI (XO (XO (XI (XI (XI (XI (XO
    (XO (XO (XI (XI XH)))))))))))))))))))))))))))))) :: ((Zpos (XI (XO (XO
    (XI (XO (XI (XI (XI (XO (XO (XI (XO (XI (XI (XI (XI (XO (XO (XO (XO (XO
    (XO (XO (XO (XI (XO (XO (XI (XI
    XH)))))))))))))))))))))))))))))) :: ((Zpos (XO (XI (XI (XO (XO (XO (XI
    (XO (XO (XI (XI (XO (XI (XO (XI (XO (XI (XO (XO (XI (XO (XO (XO (XO (XI
    (XO (XO (XI (XI XH)))))))))))))))))))))))))))))) :: ((Zpos (XO (XI (XI
    (XI (XO (XO (XO (XO (XI (XI (XO (XO (XO (XO (XI (XO (XO (XI (XO (XO (XI
    (XO (XO (XO (XI (XO (XO (XI (XI
    XH)))))))))))))))))))))))))))))) :: ((Zpos (XI (XO (XO (XO (XI (XO (XI
    (XO (XO (XO (XI (XO (XO (XO (XI (XI (XI (XI (XO (XI (XI (XO (XO (XO (XI
    (XO (XO (XI (XI XH)))))))))))))))))))))))))))))) :: ((Zpos (XI (XO (XI
    (XO (XI (XI (XO (XI (XI (XI (XO (XO (XO (XI (XI (XI (XI (XO (XI (XO (XO
    (XI (XO (XO (XI (XO (XO (XI (XI
    XH)))))))))))))))))))))))))))))) :: ((Zpos (XI (XI (XI (XI (XI (XI (XI
    (XO (XI (XI (XO (XI (XO (XI (XO (XI (XO (XO (XO (XO (XI (XI (XO (XO (XI
    (XO (XO (XI (XI XH)))))))))))))))))))))))))))))) :: ((Zpos (XO (XI (XO
    (XO (XO (XI (XO (XI (XO (XI (XI (XO (XO (XI (XO (XO (XO (XO (XI (XI (XI
    (XI (XO (XO (XI (XO (XO (XI (XI
    XH)))))))))))))))))))))))))))))) :: ((Zpos (XI (XO (XI (XO (XO (XO (XI
    (XI (XO (XO (XO (XO (XO (XI (XI (XO (XO (XO (XO (XI (XO (XO (XI (XO (XI
    (XO (XO (XI (XI XH)))))))))))))))))))))))))))))) :: ((Zpos (XI (XI (XO
    (XO (XI (XO (XI (XO (XO (XI (XI (XO (XO (XI (XI (XO (XI (XO (XI (XO (XI
    (XO (XI (XO (XI (XO (XO (XI (XI
    XH)))))))))))))))))))))))))))))) :: ((Zpos (XI (XI (XO (XO (XO (XO (XO
    (XI (XO (XO (XI (XO (XO (XO (XI (XO (XI (XI (XO (XO (XO (XI (XI (XO (XI
    (XO (XO (XI (XI XH)))))))))))))))))))))))))))))) :: ((Zpos (XO (XO (XO
    (XI (XO (XI (XI (XO (XI (XO (XO (XI (XO (XO (XO (XO (XO (XI (XO (XO (XI
    (XI (XI (XO (XI (XO (XO (XI (XI
    XH)))))))))))))))))))))))))))))) :: ((Zpos (XI (XO (XO (XO (XO (XO (XO
    (XO (XO (XI (XO (XO (XO (XI (XI (XI (XO (XO (XO (XO (XO (XO (XO (XI (XI
    (XO (XO (XI (XI XH)))))))))))))))))))))))))))))) :: ((Zpos (XO (XO (XI
    (XO (XO (XI (XO (XO (XO (XI (XO (XO (XO (XO (XI (XO (XI (XO (XO (XI (XO
    (XO (XO (XI (XI (XO (XO (XI (XI
    XH)))))))))))))))))))))))))))))) :: ((Zpos (XI (XO (XI (XI (XI (XO (XO
    (XI (XI (XO (XI (XI (XO (XI (XO (XO (XO (XI (XO (XO (XI (XO (XO (XI (XI
    (XO (XO (XI (XI XH)))))))))))))))))))))))))))))) :: ((Zpos (XI (XI (XO
    (XI (XI (XI (XI (XO (XI (XO (XI (XI (XO (XI (XO (XI (XI (XI (XO (XI (XI
    (XO (XO (XI (XI (XO (XO (XI (XI
    XH)))))))))))))))))))))))))))))) :: ((Zpos (XI (XI (XO (XO (XO (XI (XI
    (XO (XI (XI (XO (XI (XO (XO (XI (XI (XI (XO (XI (XO (XO (XI (XO (XI (XI
    (XO (XO (XI (XI XH)))))))))))))))))))))))))))))) :: ((Zpos (XI (XO (XO
    (XI (XI (XO (XO (XI (XI (XO (XO (XO (XI (XO (XO (XI (XO (XO (XO (XO (XI
    (XI (XO (XI (XI (XO (XO (XI (XI
    XH)))))))))))))))))))))))))))))) :: ((Zpos (XI (XO (XI (XI (XO (XO (XO
    (XO (XI (XI (XO (XI (XO (XO (XO (XO (XO (XO (XI (XI (XI (XI (XO (XI (XI
    (XO (XO (XI (XI XH)))))))))))))))))))))))))))))) :: ((Zpos (XO (XI (XI
    (XO (XO (XI (XI (XO (XI (XI (XO (XO (XO (XO (XI (XO (XO (XO (XO (XI (XO
    (XO (XI (XI (XI (XO (XO (XI (XI
    XH)))))))))))))))))))))))))))))) :: ((Zpos (XI (XI (XO (XI (XO (XO (XO
    (XO (XI (XI (XI (XO (XO (XO (XI (XO (XI (XO (XI (XO (XI (XO (XI (XI (XI
    (XO (XO (XI (XI XH)))))))))))))))))))))))))))))) :: ((Zpos (XO (XI (XO
    (XO (XI (XI (XO (XO (XI (XI (XO (XO (XO (XI (XO (XO (XI (XI (XO (XO (XO
    (XI (XI (XI (XI (XO (XO (XI (XI
    XH)))))))))))))))))))))))))))))) :: ((Zpos (XI (XO (XI (XI (XO (XI (XI
    (XI (XI (XO (XI (XO (XO (XI (XI (XI (XI (XO (XO (XO (XI (XI (XI (XI (XI
    (XO (XO (XI (XI XH)))))))))))))))))))))))))))))) :: ((Zpos (XI (XO (XI
    (XI (XI (XO (XO (XO (XI (XI (XI (XI (XO (XO (XI (XI (XO (XO (XO (XO (XO
    (XO (XO (XO (XO (XI (XO (XI (XI
    XH)))))))))))))))))))))))))))))) :: ((Zpos (XI (XO (XI (XO (XO (XO (XO
    (XO (XO (XI (XI (XI (XO (XI (XO (XO (XI (XO (XO (XI (XO (XO (XO (XO (XO
    (XI (XO (XI (XI XH)))))))))))))))))))))))))))))) :: ((Zpos (XO (XO (XO
    (XO (XI (XI (XO (XO (XO (XO (XO (XI (XI (XO (XO (XO (XO (XI (XO (XO (XI
    (XO (XO (XO (XO (XI (XO (XI (XI
    XH)))))))))))))))))))))))))))))) :: ((Zpos (XI (XO (XO (XI (XO (XI (XO
    (XI (XO (XI (XI (XO (XI (XO (XO (XI (XI (XI (XO (XI (XI (XO (XO (XO (XO
    (XI (XO (XI (XI XH)))))))))))))))))))))))))))))) :: ((Zpos (XI (XO (XI
    (XO (XI (XO (XO (XO (XI (XI (XO (XO (XI (XI (XO (XI (XI (XO (XI (XO (XO
    (XI (XO (XO (XO (XI (XO (XI (XI
    XH)))))))))))))))))))))))))))))) :: ((Zpos (XI (XI (XI (XO (XI (XI (XO
    (XI (XI (XI (XI (XO (XI (XI (XI (XO (XO (XO (XO (XO (XI (XI (XO (XO (XO
    (XI (XO (XI (XI XH)))))))))))))))))))))))))))))) :: ((Zpos (XO (XO (XI
    (XI (XI (XI (XI (XO (XI (XI (XI (XI (XO (XI (XI (XI (XI (XI (XO (XI (XI
    (XI (XO (XO (XO (XI (XO (XI (XI
    XH)))))))))))))))))))))))))))))) :: ((Zpos (XO (XI (XO (XI (XO (XO (XO
    (XO (XO (XI (XI (XO (XO (XI (XO (XO (XO (XO (XO (XI (XO (XO (XI (XO (XO
    (XI (XO (XI (XI XH)))))))))))))))))))))))))))))) :: ((Zpos (XI (XI (XI
    (XO (XO (XO (XI (XI (XI (XI (XI (XO (XO (XI (XO (XO (XI (XO (XI (XO (XI
    (XO (XI (XO (XO (XI (XO (XI (XI
    XH)))))))))))))))))))))))))))))) :: ((Zpos (XO (XI (XI (XO (XO (XI (XI
    (XI (XI (XO (XO (XO (XO (XO (XO (XO (XI (XI (XO (XO (XO (XI (XI (XO (XO
    (XI (XO (XI (XI XH)))))))))))))))))))))))))))))) :: ((Zpos (XO (XO (XO
    (XI (XI (XI (XI (XO (XO (XI (XO (XO (XO (XO (XI (XI (XI (XO (XO (XO (XI
    (XI (XI (XO (XO (XI (XO (XI (XI
    XH)))))))))))))))))))))))))))))) :: ((Zpos (XI (XI (XO (XI (XI (XI (XO
    (XO (XO (XO (XI (XI (XI (XI (XO (XI (XO (XO (XO (XO (XO (XO (XO (XI (XO
    (XI (XO (XI (XI XH)))))))))))))))))))))))))))))) :: ((Zpos (XI (XO (XO
    (XI (XO (XI (XI (XI (XI (XO (XO (XI (XI (XO (XO (XO (XI (XO (XO (XI (XO
    (XO (XO (XI (XO (XI (XO (XI (XI
    XH)))))))))))))))))))))))))))))) :: ((Zpos (XO (XI (XI (XO (XO (XO (XI
    (XI (XO (XI (XO (XO (XO (XO (XO (XO (XO (XI (XO (XO (XI (XO (XO (XI (XO
    (XI (XO (XI (XI XH)))))))))))))))))))))))))))))) :: ((Zpos (XI (XI (XO
    (XI (XI (XO (XI (XI (XI (XI (XI (XI (XI (XI (XI (XO (XI (XI (XO (XI (XI
    (XO (XO (XI (XO (XI (XO (XI (XI
    XH)))))))))))))))))))))))))))))) :: ((Zpos (XI (XI (XO (XI (XO (XO (XI
    (XI (XO (XI (XO (XI (XI (XO (XO (XI (XI (XO (XI (XO (XO (XI (XO (XI (XO
    (XI (XO (XI (XI XH)))))))))))))))))))))))))))))) :: ((Zpos (XO (XO (XO
    (XI (XI (XO (XI (XI (XI (XO (XI (XI (XI (XO (XI (XO (XO (XO (XO (XO (XI
    (XI (XO (XI (XO (XI (XO (XI (XI
    XH)))))))))))))))))))))))))))))) :: ((Zpos (XI (XI (XI (XI (XO (XI (XI
    (XI (XI (XI (XO (XO (XI (XO (XI (XI (XI (XI (XO (XI (XI (XI (XO (XI (XO
    (XI (XO (XI (XI XH)))))))))))))))))))))))))))))) :: ((Zpos (XI (XI (XO
    (XO (XI (XI (XO (XI (XO (XO (XO (XI (XO (XO (XO (XO (XO (XO (XO (XI (XO
    (XO (XI (XI (XO (XI (XO (XI (XI
    XH)))))))))))))))))))))))))))))) :: ((Zpos (XO (XO (XO (XI (XO (XO (XO
    (XI (XO (XO (XO (XI (XO (XO (XO (XO (XI (XO (XI (XO (XI (XO (XI (XI (XO
    (XI (XO (XI (XI XH)))))))))))))))))))))))))))))) :: ((Zpos (XI (XI (XI
    (XI (XI (XO (XO (XI (XO (XO (XO (XO (XO (XI (XI (XI (XO (XI (XO (XO (XO
    (XI (XI (XI (XO (XI (XO (XI (XI
    XH)))))))))))))))))))))))))))))) :: ((Zpos (XI (XI (XI (XO (XO (XO (XO
    (XO (XI (XI (XI (XI (XI (XO (XO (XI (XI (XO (XO (XO (XI (XI (XI (XI (XO
    (XI (XO (XI (XI XH)))))))))))))))))))))))))))))) :: ((Zpos (XO (XO (XI
    (XI (XI (XO (XI (XO (XI (XO (XO (XI (XO (XI (XO (XI (XO (XO (XO (XO (XO
    (XO (XO (XO (XI (XI (XO (XI (XI
    XH)))))))))))))))))))))))))))))) :: ((Zpos (XO (XO (XO (XO (XI (XO (XI
    (XI (XI (XO (XI (XO (XO (XO (XO (XO (XI (XO (XO (XI (XO (XO (XO (XO (XI
    (XI (XO (XI (XI XH)))))))))))))))))))))))))))))) :: ((Zpos (XO (XI (XI
    (XI (XI (XO (XI (XO (XI (XO (XI (XI (XO (XI (XI (XI (XI (XO (XO (XO (XI
    (XO (XO (XO (XI (XI (XO (XI (XI
    XH)))))))))))))))))))))))))))))) :: ((Zpos (XI (XI (XI (XI (XO (XO (XO
    (XO (XI (XO (XO (XI (XO (XI (XI (XO (XI (XI (XO (XI (XI (XO (XO (XO (XI
    (XI (XO (XI (XI XH)))))))))))))))))))))))))))))) :: ((Zpos (XO (XO (XI
    (XO (XO (XO (XO (XI (XO (XI (XO (XO (XO (XO (XO (XI (XI (XO (XI (XO (XO
    (XI (XO (XO (XI (XI (XO (XI (XI
    XH)))))))))))))))))))))))))))))) :: ((Zpos (XI (XO (XI (XI (XI (XI (XI
    (XI (XI (XI (XO (XO (XO (XO (XI (XO (XO (XO (XO (XO (XI (XI (XO (XO (XI
    (XI (XO (XI (XI XH)))))))))))))))))))))))))))))) :: ((Zpos (XI (XI (XI
    (XO (XO (XI (XI (XO (XO (XO (XO (XI (XI (XI (XO (XI (XI (XI (XO (XI (XI
    (XI (XO (XO (XI (XI (XO (XI (XI
    XH)))))))))))))))))))))))))))))) :: ((Zpos (XI (XO (XO (XO (XO (XI (XI
    (XO (XI (XI (XO (XI (XO (XI (XI (XI (XI (XI (XI (XO (XO (XO (XI (XO (XI
    (XI (XO (XI (XI XH)))))))))))))))))))))))))))))) :: ((Zpos (XI (XO (XI
    (XI (XO (XO (XI (XO (XI (XO (XO (XI (XO (XI (XI (XI (XO (XO (XI (XO (XI
    (XO (XI (XO (XI (XI (XO (XI (XI
    XH)))))))))))))))))))))))))))))) :: ((Zpos (XI (XO (XI (XI (XI (XO (XI
    (XO (XI (XI (XI (XI (XI (XI (XO (XI (XO (XI (XO (XO (XO (XI (XI (XO (XI
    (XI (XO (XI (XI XH)))))))))))))))))))))))))))))) :: ((Zpos (XO (XO (XI
    (XI (XI (XO (XO (XI (XI (XI (XO (XI (XI (XI (XI (XO (XI (XO (XO (XO (XI
    (XI (XI (XO (XI (XI (XO (XI (XI
    XH)))))))))))))))))))))))))))))) :: ((Zpos (XI (XI (XI (XI (XI (XI (XI
    (XO (XO (XI (XI (XO (XI (XO (XO (XI (XO (XO (XO (XO (XO (XO (XO (XI (XI
    (XI (XO (XI (XI XH)))))))))))))))))))))))))))))) :: ((Zpos (XO (XI (XO
    (XI (XI (XI (XO (XI (XI (XO (XO (XO (XI (XI (XI (XI (XO (XO (XO (XI (XO
    (XO (XO (XI (XI (XI (XO (XI (XI
    XH)))))))))))))))))))))))))))))) :: ((Zpos (XI (XO (XO (XI (XI (XI (XI
    (XI (XI (XI (XI (XO (XI (XO (XI (XI (XI (XO (XO (XO (XI (XO (XO (XI (XI
    (XI (XO (XI (XI XH)))))))))))))))))))))))))))))) :: ((Zpos (XI (XI (XI
    (XO (XO (XO (XI (XO (XO (XI (XO (XO (XI (XO (XI (XO (XI (XI (XO (XI (XI
    (XO (XO (XI (XI (XI (XO (XI (XI
    XH)))))))))))))))))))))))))))))) :: ((Zpos (XI (XO (XO (XO (XO (XO (XI
    (XO (XO (XI (XO (XI (XO (XI (XI (XO (XI (XO (XI (XO (XO (XI (XO (XI (XI
    (XI (XO (XI (XI XH)))))))))))))))))))))))))))))) :: ((Zpos (XI (XI (XI
    (XO (XO (XI (XO (XO (XO (XI (XO (XI (XO (XI (XO (XO (XO (XO (XO (XO (XI
    (XI (XO (XI (XI (XI (XO (XI (XI
    XH)))))))))))))))))))))))))))))) :: ((Zpos (XO (XI (XO (XO (XO (XI (XI
    (XI (XO (XO (XI (XI (XI (XO (XO (XI (XI (XI (XO (XI (XI (XI (XO (XI (XI
    (XI (XO (XI (XI XH)))))))))))))))))))))))))))))) :: ((Zpos (XO (XI (XO
    (XO (XI (XO (XO (XO (XO (XI (XI (XI (XO (XO (XI (XI (XI (XI (XI (XO (XO
    (XO (XI (XI (XI (XI (XO (XI (XI
    XH)))))))))))))))))))))))))))))) :: ((Zpos (XI (XI (XI (XO (XI (XO (XO
    (XO (XO (XI (XO (XI (XO (XO (XI (XI (XO (XO (XI (XO (XI (XO (XI (XI (XI
    (XI (XO (XI (XI XH)))))))))))))))))))))))))))))) :: ((Zpos (XO (XO (XO
    (XO (XO (XI (XO (XO (XO (XI (XI (XI (XI (XO (XO (XI (XO (XI (XO (XO (XO
    (XI (XI (XI (XI (XI (XO (XI (XI
    XH)))))))))))))))))))))))))))))) :: ((Zpos (XI (XO (XI (XO (XI (XI (XO
    (XO (XO (XO (XO (XI (XI (XO (XI (XO (XI (XO (XO (XO (XI (XI (XI (XI (XI
    (XI (XO (XI (XI XH)))))))))))))))))))))))))))))) :: ((Zpos (XO (XI (XI
    (XO (XO (XI (XO (XI (XI (XI (XO (XO (XO (XO (XO (XI (XO (XO (XO (XO (XO
    (XO (XO (XO (XO (XO (XI (XI (XI
    XH)))))))))))))))))))))))))))))) :: ((Zpos (XI (XI (XI (XO (XO (XI (XO
    (XI (XI (XO (XI (XI (XI (XO (XI (XI (XO (XO (XO (XI (XO (XO (XO (XO (XO
    (XO (XI (XI (XI XH)))))))))))))))))))))))))))))) :: ((Zpos (XO (XO (XO
    (XI (XI (XO (XO (XI (XO (XI (XO (XO (XO (XO (XI (XI (XI (XO (XO (XO (XI
    (XO (XO (XO (XO (XO (XI (XI (XI
    XH)))))))))))))))))))))))))))))) :: ((Zpos (XO (XI (XO (XO (XO (XO (XO
    (XI (XI (XI (XO (XI (XI (XI (XO (XO (XI (XI (XO (XI (XI (XO (XO (XO (XO
    (XO (XI (XI (XI XH)))))))))))))))))))))))))))))) :: ((Zpos (XI (XO (XO
    (XO (XO (XO (XO (XO (XO (XI (XO (XO (XI (XO (XI (XO (XI (XO (XI (XO (XO
    (XI (XO (XO (XO (XO (XI (XI (XI
    XH)))))))))))))))))))))))))))))) :: ((Zpos (XO (XO (XI (XO (XI (XO (XI
    (XO (XO (XO (XO (XO (XI (XO (XO (XO (XO (XO (XO (XO (XI (XI (XO (XO (XO
    (XO (XI (XI (XI XH)))))))))))))))))))))))))))))) :: ((Zpos (XI (XO (XO
    (XO (XO (XI (XI (XO (XI (XO (XO (XO (XO (XO (XO (XI (XI (XI (XO (XI (XI
    (XI (XO (XO (XO (XO (XI (XI (XI
    XH)))))))))))))))))))))))))))))) :: ((Zpos (XO (XO (XO (XI (XO (XO (XI
    (XI (XO (XO (XO (XO (XI (XI (XO (XI (XI (XI (XI (XO (XO (XO (XI (XO (XO
    (XO (XI (XI (XI XH)))))))))))))))))))))))))))))) :: ((Zpos (XI (XO (XI
    (XO (XO (XI (XI (XI (XO (XI (XO (XI (XO (XI (XO (XI (XO (XO (XI (XO (XI
    (XO (XI (XO (XO (XO (XI (XI (XI
    XH)))))))))))))))))))))))))))))) :: ((Zpos (XO (XO (XO (XI (XO (XI (XI
    (XI (XO (XO (XI (XI (XI (XI (XI (XO (XO (XI (XO (XO (XO (XI (XI (XO (XO
    (XO (XI (XI (XI XH)))))))))))))))))))))))))))))) :: ((Zpos (XO (XO (XI
    (XO (XI (XO (XI (XI (XO (XO (XI (XO (XI (XI (XO (XO (XI (XO (XO (XO (XI
    (XI (XI (XO (XO (XO (XI (XI (XI
    XH)))))))))))))))))))))))))))))) :: ((Zpos (XI (XI (XI (XI (XO (XO (XI
    (XI (XO (XO (XO (XO (XI (XI (XI (XO (XO (XO (XO (XO (XO (XO (XO (XI (XO
    (XO (XI (XI (XI XH)))))))))))))))))))))))))))))) :: ((Zpos (XO (XI (XI
    (XO (XI (XO (XO (XI (XI (XO (XO (XI (XO (XO (XI (XI (XO (XO (XO (XI (XO
    (XO (XO (XI (XO (XO (XI (XI (XI
    XH)))))))))))))))))))))))))))))) :: ((Zpos (XO (XI (XO (XI (XI (XI (XO
    (XO (XI (XO (XI (XI (XO (XI (XO (XI (XI (XO (XO (XO (XI (XO (XO (XI (XO
    (XO (XI (XI (XI XH)))))))))))))))))))))))))))))) :: ((Zpos (XO (XO (XO
    (XO (XO (XO (XI (XI (XO (XO (XI (XO (XO (XI (XO (XO (XI (XI (XO (XI (XI
    (XO (XO (XI (XO (XO (XI (XI (XI
    XH)))))))))))))))))))))))))))))) :: ((Zpos (XI (XO (XI (XO (XO (XO (XI
    (XI (XI (XO (XO (XI (XI (XI (XO (XO (XI (XO (XI (XO (XO (XI (XO (XI (XO
    (XO (XI (XI (XI XH)))))))))))))))))))))))))))))) :: ((Zpos (XI (XO (XI
    (XO (XO (XO (XO (XI (XO (XI (XI (XO (XI (XI (XI (XI (XI (XI (XI (XI (XO
    (XI (XO (XI (XO (XO (XI (XI (XI
    XH)))))))))))))))))))))))))))))) :: ((Zpos (XI (XO (XI (XO (XO (XI (XI
    (XI (XI (XO (XI (XO (XO (XI (XI (XO (XI (XI (XO (XI (XI (XI (XO (XI (XO
    (XO (XI (XI (XI XH)))))))))))))))))))))))))))))) :: ((Zpos (XO (XI (XO
    (XO (XO (XO (XO (XI (XI (XI (XO (XO (XI (XO (XO (XI (XI (XI (XI (XO (XO
    (XO (XI (XI (XO (XO (XI (XI (XI
    XH)))))))))))))))))))))))))))))) :: ((Zpos (XI (XO (XO (XI (XI (XI (XO
    (XI (XI (XI (XO (XI (XO (XO (XO (XI (XO (XO (XI (XO (XI (XO (XI (XI (XO
    (XO (XI (XI (XI XH)))))))))))))))))))))))))))))) :: ((Zpos (XO (XO (XI
    (XO (XI (XI (XO (XI (XI (XI (XO (XI (XI (XO (XI (XO (XO (XI (XO (XO (XO
    (XI (XI (XI (XO (XO (XI (XI (XI
    XH)))))))))))))))))))))))))))))) :: ((Zpos (XI (XO (XO (XI (XI (XI (XI
    (XO (XI (XO (XO (XO (XI (XO (XO (XO (XI (XO (XO (XO (XI (XI (XI (XI (XO
    (XO (XI (XI (XI XH)))))))))))))))))))))))))))))) :: ((Zpos (XI (XI (XO
    (XI (XI (XI (XI (XI (XI (XO (XI (XI (XI (XO (XI (XO (XO (XO (XO (XO (XO
    (XO (XO (XO (XI (XO (XI (XI (XI
    XH)))))))))))))))))))))))))))))) :: ((Zpos (XI (XO (XO (XI (XO (XO (XO
    (XI (XI (XO (XI (XO (XI (XI (XO (XI (XO (XO (XO (XI (XO (XO (XO (XO (XI
    (XO (XI (XI (XI XH)))))))))))))))))))))))))))))) :: ((Zpos (XI (XI (XI
    (XI (XI (XO (XI (XI (XI (XI (XI (XO (XI (XO (XO (XI (XI (XO (XO (XO (XI
    (XO (XO (XO (XI (XO (XI (XI (XI
    XH)))))))))))))))))))))))))))))) :: ((Zpos (XO (XI (XO (XO (XO (XO (XO
    (XO (XO (XI (XI (XI (XO (XO (XO (XO (XI (XI (XO (XI (XI (XO (XO (XO (XI
    (XO (XI (XI (XI XH)))))))))))))))))))))))))))))) :: ((Zpos (XI (XO (XI
    (XI (XO (XO (XO (XI (XI (XO (XO (XO (XO (XI (XO (XO (XI (XO (XI (XO (XO
    (XI (XO (XO (XI (XO (XI (XI (XI
    XH)))))))))))))))))))))))))))))) :: ((Zpos (XI (XO (XO (XI (XI (XI (XO
    (XI (XO (XO (XI (XI (XI (XO (XI (XI (XI (XI (XI (XI (XO (XI (XO (XO (XI
    (XO (XI (XI (XI XH)))))))))))))))))))))))))))))) :: ((Zpos (XI (XO (XI
    (XI (XO (XI (XI (XO (XO (XI (XO (XI (XO (XO (XI (XO (XI (XI (XO (XI (XI
    (XI (XO (XO (XI (XO (XI (XI (XI
    XH)))))))))))))))))))))))))))))) :: ((Zpos (XO (XO (XO (XO (XO (XO (XI
    (XO (XO (XI (XI (XO (XI (XI (XI (XO (XI (XI (XI (XO (XO (XO (XI (XO (XI
    (XO (XI (XI (XI XH)))))))))))))))))))))))))))))) :: ((Zpos (XI (XO (XO
    (XO (XI (XO (XO (XI (XO (XO (XI (XI (XO (XI (XI (XO (XO (XO (XI (XO (XI
    (XO (XI (XO (XI (XO (XI (XI (XI
    XH)))))))))))))))))))))))))))))) :: ((Zpos (XI (XO (XI (XO (XO (XO (XO
    (XI (XO (XI (XO (XI (XI (XI (XO (XO (XO (XI (XO (XO (XO (XI (XI (XO (XI
    (XO (XI (XI (XI XH)))))))))))))))))))))))))))))) :: ((Zpos (XO (XI (XO
    (XO (XO (XI (XO (XO (XO (XI (XI (XI (XO (XI (XI (XI (XO (XO (XO (XO (XI
    (XI (XI (XO (XI (XO (XI (XI (XI
    XH)))))))))))))))))))))))))))))) :: ((Zpos (XO (XI (XO (XI (XO (XI (XO
    (XO (XI (XI (XO (XI (XO (XO (XI (XO (XO (XO (XO (XO (XO (XO (XO (XI (XI
    (XO (XI (XI (XI XH)))))))))))))))))))))))))))))) :: ((Zpos (XI (XI (XI
    (XI (XI (XI (XI (XO (XI (XO (XO (XO (XO (XI (XO (XI (XO (XO (XO (XI (XO
    (XO (XO (XI (XI (XO (XI (XI (XI
    XH)))))))))))))))))))))))))))))) :: ((Zpos (XO (XO (XO (XI (XO (XO (XO
    (XI (XO (XI (XO (XO (XO (XO (XO (XI (XI (XO (XO (XO (XI (XO (XO (XI (XI
    (XO (XI (XI (XI XH)))))))))))))))))))))))))))))) :: ((Zpos (XO (XO (XO
    (XI (XO (XO (XI (XO (XI (XI (XI (XO (XI (XI (XI (XI (XO (XI (XO (XI (XI
    (XO (XO (XI (XI (XO (XI (XI (XI
    XH)))))))))))))))))))))))))))))) :: ((Zpos (XO (XO (XO (XI (XI (XO (XI
    (XO (XI (XO (XO (XI (XO (XO (XO (XO (XI (XO (XI (XO (XO (XI (XO (XI (XI
    (XO (XI (XI (XI XH)))))))))))))))))))))))))))))) :: ((Zpos (XO (XI (XO
    (XO (XI (XI (XI (XI (XO (XI (XO (XO (XO (XO (XI (XI (XI (XI (XI (XI (XO
    (XI (XO (XI (XI (XO (XI (XI (XI
    XH)))))))))))))))))))))))))))))) :: ((Zpos (XO (XO (XO (XI (XI (XI (XI
    (XI (XO (XI (XI (XI (XO (XI (XO (XO (XI (XI (XO (XI (XI (XI (XO (XI (XI
    (XO (XI (XI (XI XH)))))))))))))))))))))))))))))) :: ((Zpos (XI (XI (XO
    (XO (XO (XO (XO (XO (XI (XO (XO (XI (XI (XO (XI (XO (XI (XI (XI (XO (XO
    (XO (XI (XI (XI (XO (XI (XI (XI
    XH)))))))))))))))))))))))))))))) :: ((Zpos (XI (XO (XI (XI (XO (XI (XI
    (XO (XI (XO (XI (XI (XO (XO (XI (XO (XO (XO (XI (XO (XI (XO (XI (XI (XI
    (XO (XI (XI (XI XH)))))))))))))))))))))))))))))) :: ((Zpos (XO (XO (XI
    (XI (XI (XO (XI (XO (XI (XO (XO (XI (XI (XO (XO (XO (XO (XI (XO (XO (XO
    (XI (XI (XI (XI (XO (XI (XI (XI
    XH)))))))))))))))))))))))))))))) :: ((Zpos (XI (XO (XO (XO (XI (XO (XI
    (XI (XO (XI (XO (XI (XO (XO (XI (XI (XO (XO (XO (XO (XI (XI (XI (XI (XI
    (XO (XI (XI (XI XH)))))))))))))))))))))))))))))) :: ((Zpos (XI (XI (XO
    (XI (XI (XO (XI (XO (XO (XO (XO (XI (XI (XI (XO (XO (XO (XO (XO (XO (XO
    (XO (XO (XO (XO (XI (XI (XI (XI
    XH)))))))))))))))))))))))))))))) :: ((Zpos (XI (XI (XI (XO (XI (XI (XI
    (XO (XI (XO (XI (XI (XO (XO (XO (XI (XO (XO (XO (XI (XO (XO (XO (XO (XO
    (XI (XI (XI (XI XH)))))))))))))))))))))))))))))) :: ((Zpos (XI (XI (XO
    (XO (XI (XI (XO (XO (XI (XO (XI (XI (XO (XI (XI (XO (XI (XO (XO (XO (XI
    (XO (XO (XO (XO (XI (XI (XI (XI
    XH)))))))))))))))))))))))))))))) :: ((Zpos (XO (XO (XO (XO (XI (XO (XO
    (XI (XO (XO (XO (XO (XO (XI (XI (XI (XO (XI (XO (XI (XI (XO (XO (XO (XO
    (XI (XI (XI (XI XH)))))))))))))))))))))))))))))) :: ((Zpos (XI (XI (XI
    (XO (XO (XI (XO (XO (XI (XO (XO (XO (XI (XI (XI (XI (XO (XO (XI (XO (XO
    (XI (XO (XO (XO (XI (XI (XI (XI
    XH)))))))))))))))))))))))))))))) :: ((Zpos (XO (XI (XI (XI (XO (XI (XO
    (XO (XI (XO (XO (XI (XO (XI (XO (XI (XI (XI (XI (XI (XO (XI (XO (XO (XO
    (XI (XI (XI (XI XH)))))))))))))))))))))))))))))) :: ((Zpos (XI (XI (XI
    (XO (XO (XO (XO (XI (XI (XI (XO (XO (XI (XO (XO (XO (XI (XI (XO (XI (XI
    (XI (XO (XO (XO (XI (XI (XI (XI
    XH)))))))))))))))))))))))))))))) :: ((Zpos (XO (XI (XO (XI (XO (XO (XI
    (XI (XI (XI (XO (XI (XI (XI (XO (XO (XI (XI (XI (XO (XO (XO (XI (XO (XO
    (XI (XI (XI (XI XH)))))))))))))))))))))))))))))) :: ((Zpos (XI (XO (XI
    (XI (XO (XO (XI (XO (XO (XI (XI (XI (XO (XI (XO (XO (XO (XO (XI (XO (XI
    (XO (XI (XO (XO (XI (XI (XI (XI
    XH)))))))))))))))))))))))))))))) :: ((Zpos (XI (XI (XI (XO (XI (XI (XO
    (XO (XO (XO (XO (XI (XI (XI (XI (XI (XI (XO (XO (XO (XO (XI (XI (XO (XO
    (XI (XI (XI (XI XH)))))))))))))))))))))))))))))) :: ((Zpos (XO (XO (XI
    (XO (XO (XO (XO (XI (XI (XI (XI (XO (XO (XI (XO (XI (XO (XO (XO (XO (XI
    (XI (XI (XO (XO (XI (XI (XI (XI
    XH)))))))))))))))))))))))))))))) :: ((Zpos (XI (XI (XI (XI (XO (XO (XO
    (XI (XI (XO (XI (XO (XO (XI (XO (XO (XO (XO (XO (XO (XO (XO (XO (XI (XO
    (XI (XI (XI (XI XH)))))))))))))))))))))))))))))) :: ((Zpos (XI (XI (XO
    (XO (XI (XI (XI (XO (XI (XO (XO (XI (XI (XI (XI (XO (XO (XO (XO (XI (XO
    (XO (XO (XI (XO (XI (XI (XI (XI
    XH)))))))))))))))))))))))))))))) :: ((Zpos (XO (XI (XO (XO (XO (XI (XI
    (XI (XI (XI (XI (XO (XI (XO (XI (XO (XI (XO (XO (XO (XI (XO (XO (XI (XO
    (XI (XI (XI (XI XH)))))))))))))))))))))))))))))) :: ((Zpos (XO (XO (XI
    (XI (XI (XO (XI (XI (XI (XO (XO (XI (XO (XO (XI (XI (XO (XI (XO (XI (XI
    (XO (XO (XI (XO (XI (XI (XI (XI
    XH)))))))))))))))))))))))))))))) :: ((Zpos (XI (XO (XO (XI (XI (XI (XI
    (XI (XO (XO (XO (XI (XI (XO (XI (XI (XO (XO (XI (XO (XO (XI (XO (XI (XO
    (XI (XI (XI (XI XH)))))))))))))))))))))))))))))) :: ((Zpos (XI (XO (XI
    (XI (XO (XI (XI (XO (XI (XI (XI (XI (XO (XO (XO (XI (XI (XI (XI (XI (XO
    (XI (XO (XI (XO (XI (XI (XI (XI
    XH)))))))))))))))))))))))))))))) :: ((Zpos (XI (XI (XO (XI (XI (XO (XO
    (XO (XO (XO (XO (XI (XI (XI (XI (XI (XO (XI (XO (XI (XI (XI (XO (XI (XO
    (XI (XI (XI (XI XH)))))))))))))))))))))))))))))) :: ((Zpos (XI (XO (XI
    (XO (XI (XO (XO (XI (XO (XI (XI (XI (XI (XO (XO (XO (XI (XI (XI (XO (XO
    (XO (XI (XI (XO (XI (XI (XI (XI
    XH)))))))))))))))))))))))))))))) :: ((Zpos (XI (XI (XO (XO (XI (XI (XO
    (XO (XI (XI (XI (XI (XO (XO (XO (XO (XO (XO (XI (XO (XI (XO (XI (XI (XO
    (XI (XI (XI (XI XH)))))))))))))))))))))))))))))) :: ((Zpos (XI (XI (XI
    (XO (XI (XO (XO (XO (XI (XI (XI (XO (XI (XO (XI (XI (XI (XO (XO (XO (XO
    (XI (XI (XI (XO (XI (XI (XI (XI
    XH)))))))))))))))))))))))))))))) :: ((Zpos (XI (XO (XI (XI (XI (XI (XO
    (XO (XO (XO (XI (XO (XO (XO (XO (XI (XO (XO (XO (XO (XI (XI (XI (XI (XO
    (XI (XI (XI (XI XH)))))))))))))))))))))))))))))) :: ((Zpos (XO (XI (XI
    (XO (XO (XO (XI (XI (XO (XI (XO (XO (XI (XO (XO (XO (XO (XO (XO (XO (XO
    (XO (XO (XO (XI (XI (XI (XI (XI
    XH)))))))))))))))))))))))))))))) :: ((Zpos (XO (XI (XO (XO (XI (XI (XI
    (XO (XI (XO (XI (XO (XO (XI (XI (XO (XO (XO (XO (XI (XO (XO (XO (XO (XI
    (XI (XI (XI (XI XH)))))))))))))))))))))))))))))) :: ((Zpos (XI (XI (XO
    (XO (XI (XO (XO (XI (XO (XI (XO (XO (XO (XO (XI (XO (XI (XO (XO (XO (XI
    (XO (XO (XO (XI (XI (XI (XI (XI
    XH)))))))))))))))))))))))))))))) :: ((Zpos (XI (XI (XO (XI (XO (XI (XO
    (XO (XI (XI (XO (XO (XI (XI (XO (XI (XO (XI (XO (XI (XI (XO (XO (XO (XI
    (XI (XI (XI (XI XH)))))))))))))))))))))))))))))) :: ((Zpos (XO (XI (XI
    (XI (XO (XO (XI (XI (XO (XO (XO (XO (XO (XO (XI (XI (XO (XO (XI (XO (XO
    (XI (XO (XO (XI (XI (XI (XI (XI
    XH)))))))))))))))))))))))))))))) :: ((Zpos (XI (XO (XO (XO (XI (XI (XO
    (XI (XI (XO (XI (XO (XI (XI (XI (XO (XI (XI (XI (XI (XO (XI (XO (XO (XI
    (XI (XI (XI (XI XH)))))))))))))))))))))))))))))) :: ((Zpos (XO (XI (XO
    (XO (XI (XI (XO (XI (XO (XO (XI (XI (XI (XO (XI (XI (XO (XI (XO (XI (XI
    (XI (XO (XO (XI (XI (XI (XI (XI
    XH)))))))))))))))))))))))))))))) :: ((Zpos (XI (XO (XI (XO (XO (XI (XI
    (XO (XI (XO (XO (XO (XO (XO (XO (XO (XI (XI (XI (XO (XO (XO (XI (XO (XI
    (XI (XI (XI (XI XH)))))))))))))))))))))))))))))) :: ((Zpos (XI (XO (XI
    (XI (XI (XO (XO (XO (XO (XO (XO (XO (XI (XI (XI (XI (XI (XI (XO (XO (XI
    (XO (XI (XO (XI (XI (XI (XI (XI
    XH)))))))))))))))))))))))))))))) :: ((Zpos (XI (XI (XO (XI (XI (XI (XI
    (XI (XI (XO (XI (XO (XI (XI (XO (XI (XI (XO (XO (XO (XO (XI (XI (XO (XI
    (XI (XI (XI (XI XH)))))))))))))))))))))))))))))) :: ((Zpos (XI (XI (XO
    (XI (XI (XI (XI (XI (XO (XO (XO (XO (XO (XI (XI (XO (XO (XO (XO (XO (XI
    (XI (XI (XO (XI (XI (XI (XI (XI
    XH)))))))))))))))))))))))))))))) :: ((Zpos (XO (XO (XO (XO (XO (XO (XO
    (XO (XO (XO (XO (XO (XO (XO (XO (XO (XO (XO (XO (XO (XO (XO (XO (XI (XI
    (XI (XI (XI (XI
    XH)))))))))))))))))))))))))))))) :: [])))))))))))))))))))))))))))))))))))))))))))))))))))))))))))))))))))))))))))))))))))))))))))))))))))))))))))))))))))))))))))))))))))))))))))))))))))))))))))))))))))))))))))))))))))))))))))))))))))))))))))))))))))))))))))))))))))))))))))))))))))))))))))))))

type bits = bool list

(** val bits_of : nat -> n -> bits **)

let rec bits_of w v =
  match w with
  | O -> []
  | S w' -> (N.odd v) :: (bits_of w' (N.div2 v))

(** val val_of : bits -> n **)

let rec val_of = function
| [] -> N0
| b :: r -> N.add (N.b2n b) (N.mul (Npos (XO XH)) (val_of r))

type reader = bits option

(** val bread : nat -> reader -> n option * reader **)

let bread w = function
| Some bs ->
  if Nat.leb w (length bs)
  then ((Some (val_of (firstn w bs))), (Some (skipn w bs)))
  else (None, None)
| None -> (None, None)

(** val blook : nat -> reader -> n option **)

let blook w = function
| Some bs ->
  if Nat.leb w (length bs) then Some (val_of (firstn w bs)) else None
| None -> None

(** val badv : nat -> reader -> reader **)

let badv w = function
| Some bs -> if Nat.leb w (length bs) then Some (skipn w bs) else None
| None -> None

(** val byte_bits : n -> bits **)

let byte_bits b =
  bits_of (S (S (S (S (S (S (S (S O)))))))) b

(** val bits_of_bytes : n list -> bits **)

let bits_of_bytes bs =
  flat_map byte_bits bs

(** val bytes_of_bits_fuel : nat -> bits -> n list **)

let rec bytes_of_bits_fuel fuel bs =
  match fuel with
  | O -> []
  | S f ->
    (match bs with
     | [] -> []
     | _ :: _ ->
       (val_of (firstn (S (S (S (S (S (S (S (S O)))))))) bs)) :: (bytes_of_bits_fuel
                                                                   f
                                                                   (skipn (S
                                                                    (S (S (S
                                                                    (S (S (S
                                                                    (S
                                                                    O))))))))
                                                                    bs)))

(** val bytes_of_bits : bits -> n list **)

let bytes_of_bits bs =
  bytes_of_bits_fuel (length bs) bs

(** val le32 : n -> n list **)

let le32 v =
  (N.modulo v (Npos (XO (XO (XO (XO (XO (XO (XO (XO XH)))))))))) :: (
    (N.modulo (N.div v (Npos (XO (XO (XO (XO (XO (XO (XO (XO XH))))))))))
      (Npos (XO (XO (XO (XO (XO (XO (XO (XO XH)))))))))) :: ((N.modulo
                                                               (N.div v (Npos
                                                                 (XO (XO (XO
                                                                 (XO (XO (XO
                                                                 (XO (XO (XO
                                                                 (XO (XO (XO
                                                                 (XO (XO (XO
                                                                 (XO
                                                                 XH))))))))))))))))))
                                                               (Npos (XO (XO
                                                               (XO (XO (XO
                                                               (XO (XO (XO
                                                               XH)))))))))) :: (
    (N.modulo
      (N.div v (Npos (XO (XO (XO (XO (XO (XO (XO (XO (XO (XO (XO (XO (XO (XO
        (XO (XO (XO (XO (XO (XO (XO (XO (XO (XO XH))))))))))))))))))))))))))
      (Npos (XO (XO (XO (XO (XO (XO (XO (XO XH)))))))))) :: [])))

(** val read32 : n list -> (n * n list) option **)

let read32 = function
| [] -> None
| a :: l ->
  (match l with
   | [] -> None
   | b :: l0 ->
     (match l0 with
      | [] -> None
      | c :: l1 ->
        (match l1 with
         | [] -> None
         | d :: r ->
           Some
             ((N.add
                (N.add
                  (N.add a
                    (N.mul (Npos (XO (XO (XO (XO (XO (XO (XO (XO XH)))))))))
                      b))
                  (N.mul (Npos (XO (XO (XO (XO (XO (XO (XO (XO (XO (XO (XO
                    (XO (XO (XO (XO (XO XH))))))))))))))))) c))
                (N.mul (Npos (XO (XO (XO (XO (XO (XO (XO (XO (XO (XO (XO (XO
                  (XO (XO (XO (XO (XO (XO (XO (XO (XO (XO (XO (XO
                  XH))))))))))))))))))))))))) d)), r))))

(** val to_int32 : n -> z **)

let to_int32 v =
  if N.ltb v (Npos (XO (XO (XO (XO (XO (XO (XO (XO (XO (XO (XO (XO (XO (XO
       (XO (XO (XO (XO (XO (XO (XO (XO (XO (XO (XO (XO (XO (XO (XO (XO (XO
       XH))))))))))))))))))))))))))))))))
  then Z.of_N v
  else Z.sub (Z.of_N v) (Zpos (XO (XO (XO (XO (XO (XO (XO (XO (XO (XO (XO (XO
         (XO (XO (XO (XO (XO (XO (XO (XO (XO (XO (XO (XO (XO (XO (XO (XO (XO
         (XO (XO (XO XH)))))))))))))))))))))))))))))))))

(** val take : nat -> 'a1 list -> ('a1 list * 'a1 list) option **)

let take n0 l =
  if Nat.leb n0 (length l) then Some ((firstn n0 l), (skipn n0 l)) else None

(** val list_eqb : n list -> n list -> bool **)

let rec list_eqb a b =
  match a with
  | [] -> (match b with
           | [] -> true
           | _ :: _ -> false)
  | x :: a' ->
    (match b with
     | [] -> false
     | y :: b' -> (&&) (N.eqb x y) (list_eqb a' b'))

type cstr = n list

(** val toupper : n -> n **)

let toupper c =
  if (&&) (N.leb (Npos (XI (XO (XO (XO (XO (XI XH))))))) c)
       (N.leb c (Npos (XO (XI (XO (XI (XI (XI XH))))))))
  then N.sub c (Npos (XO (XO (XO (XO (XO XH))))))
  else c

type cmp =
| Match
| Mismatch
| OutOfBuffer

(** val tagcompare : n list -> n list -> cmp **)

let rec tagcompare buf = function
| [] -> Match
| t :: ts ->
  (match buf with
   | [] -> OutOfBuffer
   | b :: bs ->
     if N.eqb (toupper b) (toupper t) then tagcompare bs ts else Mismatch)

(** val cbuf : cstr -> n list **)

let cbuf c =
  app c (N0 :: [])

(** val fulltag : n list -> n list **)

let fulltag tag =
  app tag ((Npos (XI (XO (XI (XI (XI XH)))))) :: [])

(** val matches : n list -> cstr -> bool **)

let matches tag c =
  match tagcompare (cbuf c) (fulltag tag) with
  | Match -> true
  | _ -> false

(** val query_from : n -> cstr list -> n list -> nat -> (n * n) option **)

let rec query_from i cs tag count =
  match cs with
  | [] -> None
  | c :: r ->
    if matches tag c
    then (match count with
          | O -> Some (i, (N.add (N.of_nat (length tag)) (Npos XH)))
          | S k -> query_from (N.add i (Npos XH)) r tag k)
    else query_from (N.add i (Npos XH)) r tag count

(** val query : cstr list -> n list -> nat -> (n * n) option **)

let query cs tag count =
  query_from N0 cs tag count

(** val query_count : cstr list -> n list -> nat **)

let rec query_count cs tag =
  match cs with
  | [] -> O
  | c :: r -> add (if matches tag c then S O else O) (query_count r tag)

(** val query_value : cstr list -> n list -> nat -> cstr option **)

let query_value cs tag count =
  match query cs tag count with
  | Some p ->
    let (i, off) = p in Some (skipn (N.to_nat off) (nth (N.to_nat i) cs []))
  | None -> None

(** val comment_add : cstr list -> cstr -> cstr list **)

let comment_add cs c =
  app cs (c :: [])

(** val comment_add_tag : cstr list -> n list -> n list -> cstr list **)

let comment_add_tag cs tag contents =
  comment_add cs
    (app tag (app ((Npos (XI (XO (XI (XI (XI XH)))))) :: []) contents))

(** val vorbis_magic : n list **)

let vorbis_magic =
  (Npos (XO (XI (XI (XO (XI (XI XH))))))) :: ((Npos (XI (XI (XI (XI (XO (XI
    XH))))))) :: ((Npos (XO (XI (XO (XO (XI (XI XH))))))) :: ((Npos (XO (XI
    (XO (XO (XO (XI XH))))))) :: ((Npos (XI (XO (XO (XI (XO (XI
    XH))))))) :: ((Npos (XI (XI (XO (XO (XI (XI XH))))))) :: [])))))

(** val pack_entries : cstr list -> n list **)

let rec pack_entries = function
| [] -> []
| c :: r -> app (le32 (N.of_nat (length c))) (app c (pack_entries r))

(** val pack_comment : cstr -> cstr list -> n list **)

let pack_comment vendor cs =
  app ((Npos (XI XH)) :: [])
    (app vorbis_magic
      (app (le32 (N.of_nat (length vendor)))
        (app vendor
          (app (le32 (N.of_nat (length cs)))
            (app (pack_entries cs) ((Npos XH) :: []))))))

type verdict =
| ENotVorbis
| EBadHeader

(** val unpack_entries : z -> nat -> n list -> (cstr list * n list) option **)

let rec unpack_entries storage n0 rest =
  match n0 with
  | O -> Some ([], rest)
  | S k ->
    (match read32 rest with
     | Some p ->
       let (v, rest1) = p in
       let len = to_int32 v in
       if Z.ltb len Z0
       then None
       else if Z.gtb len (Z.of_nat (length rest1))
            then None
            else (match take (Z.to_nat len) rest1 with
                  | Some p0 ->
                    let (c, rest2) = p0 in
                    (match unpack_entries storage k rest2 with
                     | Some p1 ->
                       let (cs, rest3) = p1 in Some ((c :: cs), rest3)
                     | None -> None)
                  | None -> None)
     | None -> None)

(** val unpack_comment_body : z -> n list -> (cstr * cstr list) option **)

let unpack_comment_body storage rest =
  match read32 rest with
  | Some p ->
    let (v, rest1) = p in
    let vlen = to_int32 v in
    if Z.ltb vlen Z0
    then None
    else if Z.gtb vlen (Z.sub storage (Zpos (XO (XO (XO XH)))))
         then None
         else (match take (Z.to_nat vlen) rest1 with
               | Some p0 ->
                 let (vendor, rest2) = p0 in
                 (match read32 rest2 with
                  | Some p1 ->
                    let (v2, rest3) = p1 in
                    let n0 = to_int32 v2 in
                    if Z.ltb n0 Z0
                    then None
                    else if Z.gtb n0
                              (Z.shiftr (Z.of_nat (length rest3)) (Zpos (XO
                                XH)))
                         then None
                         else (match unpack_entries storage (Z.to_nat n0)
                                       rest3 with
                               | Some p2 ->
                                 let (cs, rest4) = p2 in
                                 (match rest4 with
                                  | [] -> None
                                  | b :: _ ->
                                    if N.odd b
                                    then Some (vendor, cs)
                                    else None)
                               | None -> None)
                  | None -> None)
               | None -> None)
  | None -> None

(** val headerin_comment : n list -> (verdict, cstr * cstr list) sum **)

let headerin_comment pkt0 = match pkt0 with
| [] -> Inl ENotVorbis
| t :: l ->
  (match l with
   | [] -> Inl ENotVorbis
   | m0 :: l0 ->
     (match l0 with
      | [] -> Inl ENotVorbis
      | m1 :: l1 ->
        (match l1 with
         | [] -> Inl ENotVorbis
         | m2 :: l2 ->
           (match l2 with
            | [] -> Inl ENotVorbis
            | m3 :: l3 ->
              (match l3 with
               | [] -> Inl ENotVorbis
               | m4 :: l4 ->
                 (match l4 with
                  | [] -> Inl ENotVorbis
                  | m5 :: rest ->
                    if list_eqb
                         (m0 :: (m1 :: (m2 :: (m3 :: (m4 :: (m5 :: []))))))
                         vorbis_magic
                    then if N.eqb t (Npos (XI XH))
                         then (match unpack_comment_body
                                       (Z.of_nat (length pkt0)) rest with
                               | Some r -> Inr r
                               | None -> Inl EBadHeader)
                         else Inl EBadHeader
                    else Inl ENotVorbis))))))

type cfg = { bs0 : z; bs1 : z; hs : z }

(** val bsz : cfg -> bool -> z **)

let bsz c = function
| true -> c.bs1
| false -> c.bs0

type enc = { e_centerW : z; e_cur : z; e_storage : z; e_eof : z; e_gran : 
             z; e_lW : bool; e_W : bool; e_nW : bool; e_seq : z; e_pre : 
             bool }

(** val enc_init : cfg -> enc **)

let enc_init c =
  { e_centerW = (Z.div c.bs1 (Zpos (XO XH))); e_cur =
    (Z.div c.bs1 (Zpos (XO XH))); e_storage = c.bs1; e_eof = Z0; e_gran = Z0;
    e_lW = false; e_W = false; e_nW = false; e_seq = (Zpos (XI XH)); e_pre =
    false }

(** val enc_buffer : enc -> z -> enc **)

let enc_buffer s vals =
  if Z.geb (Z.add s.e_cur vals) s.e_storage
  then { e_centerW = s.e_centerW; e_cur = s.e_cur; e_storage =
         (Z.add s.e_cur (Z.mul vals (Zpos (XO XH)))); e_eof = s.e_eof;
         e_gran = s.e_gran; e_lW = s.e_lW; e_W = s.e_W; e_nW = s.e_nW;
         e_seq = s.e_seq; e_pre = s.e_pre }
  else s

(** val enc_wrote : cfg -> enc -> z -> z * enc **)

let enc_wrote c s vals =
  if Z.leb vals Z0
  then let s1 = enc_buffer s (Z.mul c.bs1 (Zpos (XI XH))) in
       (Z0, { e_centerW = s1.e_centerW; e_cur =
       (Z.add s1.e_cur (Z.mul c.bs1 (Zpos (XI XH)))); e_storage =
       s1.e_storage; e_eof = s1.e_cur; e_gran = s1.e_gran; e_lW = s1.e_lW;
       e_W = s1.e_W; e_nW = s1.e_nW; e_seq = s1.e_seq; e_pre = true })
  else if Z.gtb (Z.add s.e_cur vals) s.e_storage
       then ((Zneg (XI (XI (XO (XO (XO (XO (XO XH)))))))), s)
       else let cur = Z.add s.e_cur vals in
            (Z0, { e_centerW = s.e_centerW; e_cur = cur; e_storage =
            s.e_storage; e_eof = s.e_eof; e_gran = s.e_gran; e_lW = s.e_lW;
            e_W = s.e_W; e_nW = s.e_nW; e_seq = s.e_seq; e_pre =
            ((||) s.e_pre (Z.gtb (Z.sub cur s.e_centerW) c.bs1)) })

type eblock = { b_lW : bool; b_W : bool; b_nW : bool; b_seq : z; b_gran : 
                z; b_eof : bool }

(** val enc_blockout : cfg -> enc -> z -> enc * eblock option **)

let enc_blockout c s bp =
  if negb s.e_pre
  then (s, None)
  else if Z.eqb s.e_eof (Zneg XH)
       then (s, None)
       else if (&&) (Z.eqb bp (Zneg XH)) (Z.eqb s.e_eof Z0)
            then (s, None)
            else let nW =
                   if Z.eqb bp (Zneg XH)
                   then false
                   else if Z.eqb c.bs0 c.bs1
                        then false
                        else negb (Z.eqb bp Z0)
                 in
                 let centerNext =
                   Z.add
                     (Z.add s.e_centerW
                       (Z.div (bsz c s.e_W) (Zpos (XO (XO XH)))))
                     (Z.div (bsz c nW) (Zpos (XO (XO XH))))
                 in
                 let blockbound =
                   Z.add centerNext (Z.div (bsz c nW) (Zpos (XO XH)))
                 in
                 if Z.ltb s.e_cur blockbound
                 then ({ e_centerW = s.e_centerW; e_cur = s.e_cur;
                        e_storage = s.e_storage; e_eof = s.e_eof; e_gran =
                        s.e_gran; e_lW = s.e_lW; e_W = s.e_W; e_nW = nW;
                        e_seq = s.e_seq; e_pre = s.e_pre }, None)
                 else let blk = { b_lW = s.e_lW; b_W = s.e_W; b_nW = nW;
                        b_seq = s.e_seq; b_gran = s.e_gran; b_eof =
                        ((&&) (negb (Z.eqb s.e_eof Z0))
                          (Z.geb s.e_centerW s.e_eof)) }
                      in
                      if (&&) (negb (Z.eqb s.e_eof Z0))
                           (Z.geb s.e_centerW s.e_eof)
                      then ({ e_centerW = s.e_centerW; e_cur = s.e_cur;
                             e_storage = s.e_storage; e_eof = (Zneg XH);
                             e_gran = s.e_gran; e_lW = s.e_lW; e_W = s.e_W;
                             e_nW = nW; e_seq = (Z.add s.e_seq (Zpos XH));
                             e_pre = s.e_pre }, (Some blk))
                      else let newc = Z.div c.bs1 (Zpos (XO XH)) in
                           let mv = Z.sub centerNext newc in
                           if Z.gtb mv Z0
                           then let eof1 =
                                  if Z.eqb s.e_eof Z0
                                  then Z0
                                  else if Z.leb (Z.sub s.e_eof mv) Z0
                                       then Zneg XH
                                       else Z.sub s.e_eof mv
                                in
                                let gran1 =
                                  if Z.eqb s.e_eof Z0
                                  then Z.add s.e_gran mv
                                  else if Z.geb newc eof1
                                       then Z.add s.e_gran
                                              (Z.sub mv (Z.sub newc eof1))
                                       else Z.add s.e_gran mv
                                in
                                ({ e_centerW = newc; e_cur =
                                (Z.sub s.e_cur mv); e_storage = s.e_storage;
                                e_eof = eof1; e_gran = gran1; e_lW = s.e_W;
                                e_W = nW; e_nW = nW; e_seq =
                                (Z.add s.e_seq (Zpos XH)); e_pre = s.e_pre },
                                (Some blk))
                           else ({ e_centerW = s.e_centerW; e_cur = s.e_cur;
                                  e_storage = s.e_storage; e_eof = s.e_eof;
                                  e_gran = s.e_gran; e_lW = s.e_lW; e_W =
                                  s.e_W; e_nW = nW; e_seq =
                                  (Z.add s.e_seq (Zpos XH)); e_pre =
                                  s.e_pre }, (Some blk))

(** val enc_drain :
    cfg -> nat -> enc -> z list -> eblock list -> ((enc * z list) * eblock
    list) option **)

let rec enc_drain c fuel s orc acc =
  match fuel with
  | O -> None
  | S f ->
    let bp = match orc with
             | [] -> Zneg XH
             | x :: _ -> x in
    let consumed = (&&) s.e_pre (negb (Z.eqb s.e_eof (Zneg XH))) in
    let orc' = if consumed then tl orc else orc in
    let (s', o) = enc_blockout c s bp in
    (match o with
     | Some b -> enc_drain c f s' orc' (app acc (b :: []))
     | None -> Some ((s', orc'), acc))

(** val drain_fuel : enc -> nat **)

let drain_fuel s =
  Z.to_nat
    (Z.add (Z.div s.e_cur (Zpos (XO (XO (XO (XO XH)))))) (Zpos (XO (XO XH))))

(** val enc_feed :
    cfg -> enc -> z list -> z list -> eblock list -> ((enc * z list) * eblock
    list) option **)

let rec enc_feed c s chunks orc acc =
  match chunks with
  | [] -> Some ((s, orc), acc)
  | n0 :: r ->
    let s1 = enc_buffer s n0 in
    let (z0, s2) = enc_wrote c s1 n0 in
    (match z0 with
     | Z0 ->
       (match enc_drain c (drain_fuel s2) s2 orc acc with
        | Some p ->
          let (p0, acc3) = p in
          let (s3, orc3) = p0 in enc_feed c s3 r orc3 acc3
        | None -> None)
     | _ -> None)

(** val enc_run : cfg -> z list -> z list -> (enc * eblock list) option **)

let enc_run c chunks orc =
  match enc_feed c (enc_init c) chunks orc [] with
  | Some p ->
    let (p0, acc) = p in
    let (s, orc1) = p0 in
    let (_, s1) = enc_wrote c s Z0 in
    (match enc_drain c (drain_fuel s1) s1 orc1 acc with
     | Some p1 -> let (p2, acc2) = p1 in let (s2, _) = p2 in Some (s2, acc2)
     | None -> None)
  | None -> None

type dec = { d_lW : bool; d_W : bool; d_centerW : z; d_cur : z; d_ret : 
             z; d_gran : z; d_seq : z; d_count : z; d_eof : bool;
             d_fresh : bool }

type dblock = { k_W : bool; k_gran : z; k_seq : z; k_eof : bool; k_pcm : bool }

(** val dec_restart : cfg -> dec -> dec **)

let dec_restart c s =
  let cw = Z.shiftr c.bs1 (Z.add c.hs (Zpos XH)) in
  { d_lW = s.d_lW; d_W = s.d_W; d_centerW = cw; d_cur = (Z.shiftr cw c.hs);
  d_ret = (Zneg XH); d_gran = (Zneg XH); d_seq = (Zneg XH); d_count = (Zneg
  XH); d_eof = false; d_fresh = s.d_fresh }

(** val dec_init : cfg -> dec **)

let dec_init c =
  dec_restart c { d_lW = false; d_W = false; d_centerW = Z0; d_cur = Z0;
    d_ret = Z0; d_gran = Z0; d_seq = Z0; d_count = Z0; d_eof = false;
    d_fresh = false }

(** val dec_pcmpart : cfg -> dec -> dblock -> z -> (z * z) * z **)

let dec_pcmpart c s b stp =
  let n1 = Z.shiftr c.bs1 (Z.add c.hs (Zpos XH)) in
  let thisC = if Z.eqb s.d_centerW Z0 then Z0 else n1 in
  let prevC = if Z.eqb s.d_centerW Z0 then n1 else Z0 in
  if b.k_pcm
  then (((if Z.eqb s.d_centerW Z0 then n1 else Z0),
         (if Z.eqb s.d_ret (Zneg XH) then thisC else prevC)),
         (if Z.eqb s.d_ret (Zneg XH)
          then thisC
          else Z.add prevC (Z.shiftr stp c.hs)))
  else ((s.d_centerW, s.d_ret), s.d_cur)

(** val trim_first : z -> z -> dblock -> z -> z -> z * z **)

let trim_first h count1 b ret1 cur1 =
  if Z.gtb count1 b.k_gran
  then let extra0 = Z.sub count1 b.k_gran in
       let extra = if Z.ltb extra0 Z0 then Z0 else extra0 in
       if b.k_eof
       then let avail = Z.shiftl (Z.sub cur1 ret1) h in
            let extra' = if Z.gtb extra avail then avail else extra in
            (ret1, (Z.sub cur1 (Z.shiftr extra' h)))
       else ((if Z.gtb (Z.shiftr extra h) (Z.sub cur1 ret1)
              then cur1
              else Z.add ret1 (Z.shiftr extra h)), cur1)
  else (ret1, cur1)

(** val trim_tracked : z -> z -> dblock -> z -> z -> z * z **)

let trim_tracked h g b ret1 cur1 =
  if (&&) (Z.gtb g b.k_gran) b.k_eof
  then let extra = Z.sub g b.k_gran in
       let avail = Z.shiftl (Z.sub cur1 ret1) h in
       let extra1 = if Z.gtb extra avail then avail else extra in
       let extra2 = if Z.ltb extra1 Z0 then Z0 else extra1 in
       (ret1, (Z.sub cur1 (Z.shiftr extra2 h)))
  else (ret1, cur1)

(** val dec_granule : z -> z -> z -> z -> dblock -> z -> z -> (z * z) * z **)

let dec_granule h gran0 count1 stp b ret1 cur1 =
  if Z.eqb gran0 (Zneg XH)
  then if negb (Z.eqb b.k_gran (Zneg XH))
       then let (r, cu) =
              if b.k_pcm
              then trim_first h count1 b ret1 cur1
              else (ret1, cur1)
            in
            ((b.k_gran, r), cu)
       else ((gran0, ret1), cur1)
  else let g = Z.add gran0 stp in
       if (&&) (negb (Z.eqb b.k_gran (Zneg XH))) (negb (Z.eqb g b.k_gran))
       then let (r, cu) = trim_tracked h g b ret1 cur1 in ((b.k_gran, r), cu)
       else ((g, ret1), cur1)

(** val dec_blockin : cfg -> dec -> dblock -> z * dec **)

let dec_blockin c s b =
  if (&&) (Z.gtb s.d_cur s.d_ret) (negb (Z.eqb s.d_ret (Zneg XH)))
  then ((Zneg (XI (XI (XO (XO (XO (XO (XO XH)))))))), s)
  else let lW = s.d_W in
       let w = b.k_W in
       let lost =
         (||) (Z.eqb s.d_seq (Zneg XH))
           (negb (Z.eqb (Z.add s.d_seq (Zpos XH)) b.k_seq))
       in
       let gran0 = if lost then Zneg XH else s.d_gran in
       let count0 = if lost then Zneg XH else s.d_count in
       let stp =
         Z.add (Z.div (bsz c lW) (Zpos (XO (XO XH))))
           (Z.div (bsz c w) (Zpos (XO (XO XH))))
       in
       let (p, cur1) = dec_pcmpart c s b stp in
       let (cw, ret1) = p in
       let count1 = if Z.eqb count0 (Zneg XH) then Z0 else Z.add count0 stp in
       let (p0, cur2) = dec_granule c.hs gran0 count1 stp b ret1 cur1 in
       let (gran2, ret2) = p0 in
       (Z0, { d_lW = lW; d_W = w; d_centerW = cw; d_cur = cur2; d_ret = ret2;
       d_gran = gran2; d_seq = b.k_seq; d_count = count1; d_eof =
       ((||) s.d_eof b.k_eof); d_fresh = true })

(** val dec_pcmout : dec -> z **)

let dec_pcmout s =
  if (&&) (Z.gtb s.d_ret (Zneg XH)) (Z.ltb s.d_ret s.d_cur)
  then Z.sub s.d_cur s.d_ret
  else Z0

(** val dec_read : dec -> z -> z * dec **)

let dec_read s n0 =
  if (&&) (negb (Z.eqb n0 Z0)) (Z.gtb (Z.add s.d_ret n0) s.d_cur)
  then ((Zneg (XI (XI (XO (XO (XO (XO (XO XH)))))))), s)
  else (Z0, { d_lW = s.d_lW; d_W = s.d_W; d_centerW = s.d_centerW; d_cur =
         s.d_cur; d_ret = (Z.add s.d_ret n0); d_gran = s.d_gran; d_seq =
         s.d_seq; d_count = s.d_count; d_eof = s.d_eof; d_fresh = s.d_fresh })

(** val dec_step : cfg -> (dec * z) -> dblock -> dec * z **)

let dec_step c sa b =
  let (s, total) = sa in
  let (z0, s1) = dec_blockin c s b in
  (match z0 with
   | Z0 ->
     let n0 = dec_pcmout s1 in ((snd (dec_read s1 n0)), (Z.add total n0))
   | _ -> (s1, total))

(** val dec_run : cfg -> dblock list -> dec * z **)

let dec_run c bl =
  fold_left (dec_step c) bl ((dec_init c), Z0)

(** val to_dblock : eblock -> dblock **)

let to_dblock b =
  { k_W = b.b_W; k_gran = b.b_gran; k_seq = b.b_seq; k_eof = b.b_eof; k_pcm =
    true }

(** val dec_lapout : cfg -> dec -> z * dec **)

let dec_lapout c s =
  let n0 = Z.shiftr (bsz c s.d_W) (Z.add c.hs (Zpos XH)) in
  let n1 = Z.shiftr c.bs0 (Z.add c.hs (Zpos XH)) in
  let n2 = Z.shiftr c.bs1 (Z.add c.hs (Zpos XH)) in
  if Z.ltb s.d_ret Z0
  then (Z0, s)
  else if negb s.d_fresh
       then ((Z.sub (Z.add n2 n0) s.d_ret), s)
       else if Z.eqb s.d_centerW n2
            then let p = ((Z.sub s.d_cur n2), (Z.sub s.d_ret n2)) in
                 let cw1 = Z0 in
                 let (cur1, ret1) = p in
                 if xorb s.d_lW s.d_W
                 then let cur2 =
                        Z.add cur1 (Z.div (Z.sub n2 n1) (Zpos (XO XH)))
                      in
                      let ret2 =
                        Z.add ret1 (Z.div (Z.sub n2 n1) (Zpos (XO XH)))
                      in
                      ((Z.sub (Z.add n2 n0) ret2), { d_lW = s.d_lW; d_W =
                      s.d_W; d_centerW = cw1; d_cur = cur2; d_ret = ret2;
                      d_gran = s.d_gran; d_seq = s.d_seq; d_count =
                      s.d_count; d_eof = s.d_eof; d_fresh = false })
                 else if negb s.d_lW
                      then let cur2 = Z.add cur1 (Z.sub n2 n1) in
                           let ret2 = Z.add ret1 (Z.sub n2 n1) in
                           ((Z.sub (Z.add n2 n0) ret2), { d_lW = s.d_lW;
                           d_W = s.d_W; d_centerW = cw1; d_cur = cur2;
                           d_ret = ret2; d_gran = s.d_gran; d_seq = s.d_seq;
                           d_count = s.d_count; d_eof = s.d_eof; d_fresh =
                           false })
                      else ((Z.sub (Z.add n2 n0) ret1), { d_lW = s.d_lW;
                             d_W = s.d_W; d_centerW = cw1; d_cur = cur1;
                             d_ret = ret1; d_gran = s.d_gran; d_seq =
                             s.d_seq; d_count = s.d_count; d_eof = s.d_eof;
                             d_fresh = false })
            else let p = (s.d_cur, s.d_ret) in
                 let cw1 = s.d_centerW in
                 let (cur1, ret1) = p in
                 if xorb s.d_lW s.d_W
                 then let cur2 =
                        Z.add cur1 (Z.div (Z.sub n2 n1) (Zpos (XO XH)))
                      in
                      let ret2 =
                        Z.add ret1 (Z.div (Z.sub n2 n1) (Zpos (XO XH)))
                      in
                      ((Z.sub (Z.add n2 n0) ret2), { d_lW = s.d_lW; d_W =
                      s.d_W; d_centerW = cw1; d_cur = cur2; d_ret = ret2;
                      d_gran = s.d_gran; d_seq = s.d_seq; d_count =
                      s.d_count; d_eof = s.d_eof; d_fresh = false })
                 else if negb s.d_lW
                      then let cur2 = Z.add cur1 (Z.sub n2 n1) in
                           let ret2 = Z.add ret1 (Z.sub n2 n1) in
                           ((Z.sub (Z.add n2 n0) ret2), { d_lW = s.d_lW;
                           d_W = s.d_W; d_centerW = cw1; d_cur = cur2;
                           d_ret = ret2; d_gran = s.d_gran; d_seq = s.d_seq;
                           d_count = s.d_count; d_eof = s.d_eof; d_fresh =
                           false })
                      else ((Z.sub (Z.add n2 n0) ret1), { d_lW = s.d_lW;
                             d_W = s.d_W; d_centerW = cw1; d_cur = cur1;
                             d_ret = ret1; d_gran = s.d_gran; d_seq =
                             s.d_seq; d_count = s.d_count; d_eof = s.d_eof;
                             d_fresh = false })

type sexp =
| SInit of z
| SPcm of z * z
| SLap of sexp * z * sexp * z * z

(** val half : cfg -> bool -> z **)

let half c w =
  Z.shiftr (bsz c w) (Z.add c.hs (Zpos XH))

(** val blockin_buf :
    cfg -> dec -> dblock -> z -> (z -> sexp) -> z -> sexp **)

let blockin_buf c s b k buf =
  let lW = s.d_W in
  let w = b.k_W in
  let n0 = half c w in
  let n1 = half c false in
  let n2 = half c true in
  let thisC = if Z.eqb s.d_centerW Z0 then Z0 else n2 in
  let prevC = if Z.eqb s.d_centerW Z0 then n2 else Z0 in
  (fun i ->
  if (&&) (Z.leb thisC i) (Z.ltb i (Z.add thisC n0))
  then SPcm (k, (Z.add n0 (Z.sub i thisC)))
  else if lW
       then if w
            then let j = Z.sub i prevC in
                 if (&&) (Z.leb Z0 j) (Z.ltb j n2)
                 then SLap ((buf i), (Z.sub (Z.sub n2 j) (Zpos XH)), (SPcm
                        (k, j)), j, n2)
                 else buf i
            else let j =
                   Z.sub i
                     (Z.sub (Z.add prevC (Z.div n2 (Zpos (XO XH))))
                       (Z.div n1 (Zpos (XO XH))))
                 in
                 if (&&) (Z.leb Z0 j) (Z.ltb j n1)
                 then SLap ((buf i), (Z.sub (Z.sub n1 j) (Zpos XH)), (SPcm
                        (k, j)), j, n1)
                 else buf i
       else if w
            then let j = Z.sub i prevC in
                 if (&&) (Z.leb Z0 j) (Z.ltb j n1)
                 then SLap ((buf i), (Z.sub (Z.sub n1 j) (Zpos XH)), (SPcm
                        (k,
                        (Z.add j
                          (Z.sub (Z.div n2 (Zpos (XO XH)))
                            (Z.div n1 (Zpos (XO XH))))))), j, n1)
                 else if (&&) (Z.leb n1 j)
                           (Z.ltb j
                             (Z.add (Z.div n2 (Zpos (XO XH)))
                               (Z.div n1 (Zpos (XO XH)))))
                      then SPcm (k,
                             (Z.add j
                               (Z.sub (Z.div n2 (Zpos (XO XH)))
                                 (Z.div n1 (Zpos (XO XH))))))
                      else buf i
            else let j = Z.sub i prevC in
                 if (&&) (Z.leb Z0 j) (Z.ltb j n1)
                 then SLap ((buf i), (Z.sub (Z.sub n1 j) (Zpos XH)), (SPcm
                        (k, j)), j, n1)
                 else buf i)

(** val spec_out : z -> z -> bool -> bool -> z -> z -> z -> sexp **)

let spec_out n0 n1 lW w kp kc j =
  if lW
  then if w
       then SLap ((SPcm (kp, (Z.add n1 j))), (Z.sub (Z.sub n1 j) (Zpos XH)),
              (SPcm (kc, j)), j, n1)
       else let d = Z.sub (Z.div n1 (Zpos (XO XH))) (Z.div n0 (Zpos (XO XH)))
            in
            if Z.ltb j d
            then SPcm (kp, (Z.add n1 j))
            else SLap ((SPcm (kp, (Z.add n1 j))),
                   (Z.sub (Z.sub n0 (Z.sub j d)) (Zpos XH)), (SPcm (kc,
                   (Z.sub j d))), (Z.sub j d), n0)
  else if w
       then let d = Z.sub (Z.div n1 (Zpos (XO XH))) (Z.div n0 (Zpos (XO XH)))
            in
            if Z.ltb j n0
            then SLap ((SPcm (kp, (Z.add n0 j))),
                   (Z.sub (Z.sub n0 j) (Zpos XH)), (SPcm (kc, (Z.add j d))),
                   j, n0)
            else SPcm (kc, (Z.add j d))
       else SLap ((SPcm (kp, (Z.add n0 j))), (Z.sub (Z.sub n0 j) (Zpos XH)),
              (SPcm (kc, j)), j, n0)

(** val pkts : sexp -> z list **)

let rec pkts = function
| SInit _ -> (Zneg XH) :: []
| SPcm (k, _) -> k :: []
| SLap (a, _, b, _, _) -> app (pkts a) (pkts b)

(** val lapout_buf : cfg -> dec -> (z -> sexp) -> z -> sexp **)

let lapout_buf c s buf =
  let n0 = half c false in
  let n1 = half c true in
  if (||) (Z.ltb s.d_ret Z0) (negb s.d_fresh)
  then buf
  else let buf1 =
         if Z.eqb s.d_centerW n1
         then (fun i ->
                if (&&) (Z.leb Z0 i) (Z.ltb i n1)
                then buf (Z.add i n1)
                else if (&&) (Z.leb n1 i) (Z.ltb i (Z.mul (Zpos (XO XH)) n1))
                     then buf (Z.sub i n1)
                     else buf i)
         else buf
       in
       if xorb s.d_lW s.d_W
       then let d = Z.div (Z.sub n1 n0) (Zpos (XO XH)) in
            (fun i ->
            if (&&) (Z.leb d i)
                 (Z.ltb i (Z.add d (Z.div (Z.add n1 n0) (Zpos (XO XH)))))
            then buf1 (Z.sub i d)
            else buf1 i)
       else if negb s.d_lW
            then let d = Z.sub n1 n0 in
                 (fun i ->
                 if (&&) (Z.leb d i) (Z.ltb i (Z.add d n0))
                 then buf1 (Z.sub i d)
                 else buf1 i)
            else buf1

type f32 =
| Finite of z * z
| PInf
| NInf
| NaN

(** val decode_b32 : z -> f32 **)

let decode_b32 bits0 =
  let sign =
    Z.modulo
      (Z.div bits0 (Zpos (XO (XO (XO (XO (XO (XO (XO (XO (XO (XO (XO (XO (XO
        (XO (XO (XO (XO (XO (XO (XO (XO (XO (XO (XO (XO (XO (XO (XO (XO (XO
        (XO XH))))))))))))))))))))))))))))))))) (Zpos (XO XH))
  in
  let ex =
    Z.modulo
      (Z.div bits0 (Zpos (XO (XO (XO (XO (XO (XO (XO (XO (XO (XO (XO (XO (XO
        (XO (XO (XO (XO (XO (XO (XO (XO (XO (XO XH)))))))))))))))))))))))))
      (Zpos (XO (XO (XO (XO (XO (XO (XO (XO XH)))))))))
  in
  let frac =
    Z.modulo bits0 (Zpos (XO (XO (XO (XO (XO (XO (XO (XO (XO (XO (XO (XO (XO
      (XO (XO (XO (XO (XO (XO (XO (XO (XO (XO XH))))))))))))))))))))))))
  in
  if Z.eqb ex (Zpos (XI (XI (XI (XI (XI (XI (XI XH))))))))
  then if Z.eqb frac Z0
       then if Z.eqb sign (Zpos XH) then NInf else PInf
       else NaN
  else let m =
         if Z.eqb ex Z0
         then frac
         else Z.add (Zpos (XO (XO (XO (XO (XO (XO (XO (XO (XO (XO (XO (XO (XO
                (XO (XO (XO (XO (XO (XO (XO (XO (XO (XO
                XH)))))))))))))))))))))))) frac
       in
       let e =
         if Z.eqb ex Z0
         then Zneg (XI (XO (XI (XO (XI (XO (XO XH)))))))
         else Z.sub ex (Zpos (XO (XI (XI (XO (XI (XO (XO XH))))))))
       in
       Finite ((if Z.eqb sign (Zpos XH) then Z.opp m else m), e)

(** val rne : z -> z -> z **)

let rne m e =
  if Z.leb Z0 e
  then Z.mul m (Z.pow (Zpos (XO XH)) e)
  else let d = Z.pow (Zpos (XO XH)) (Z.opp e) in
       let q = Z.div m d in
       let r = Z.modulo m d in
       if Z.ltb (Z.mul (Zpos (XO XH)) r) d
       then q
       else if Z.gtb (Z.mul (Zpos (XO XH)) r) d
            then Z.add q (Zpos XH)
            else if Z.even q then q else Z.add q (Zpos XH)

(** val dy_ge : z -> z -> z -> bool **)

let dy_ge m e k =
  if Z.leb Z0 e
  then Z.geb (Z.mul m (Z.pow (Zpos (XO XH)) e)) k
  else Z.geb m (Z.mul k (Z.pow (Zpos (XO XH)) (Z.opp e)))

(** val iNT_MIN : z **)

let iNT_MIN =
  Zneg (XO (XO (XO (XO (XO (XO (XO (XO (XO (XO (XO (XO (XO (XO (XO (XO (XO
    (XO (XO (XO (XO (XO (XO (XO (XO (XO (XO (XO (XO (XO (XO
    XH)))))))))))))))))))))))))))))))

(** val iNT_MAX : z **)

let iNT_MAX =
  Zpos (XI (XI (XI (XI (XI (XI (XI (XI (XI (XI (XI (XI (XI (XI (XI (XI (XI
    (XI (XI (XI (XI (XI (XI (XI (XI (XI (XI (XI (XI (XI
    XH))))))))))))))))))))))))))))))

(** val ftoi : z -> f32 -> z **)

let ftoi sl = function
| Finite (m, e) ->
  if dy_ge m (Z.add e sl) iNT_MAX
  then iNT_MAX
  else let v = rne m (Z.add e sl) in if Z.ltb v iNT_MIN then iNT_MIN else v
| PInf -> iNT_MAX
| _ -> iNT_MIN

(** val clip : z -> z -> z -> z **)

let clip lo hi v =
  if Z.gtb v hi then hi else if Z.ltb v lo then lo else v

(** val pack_sample : z -> bool -> bool -> f32 -> z list **)

let pack_sample word sgned bigendian x =
  if Z.eqb word (Zpos XH)
  then let v =
         clip (Zneg (XO (XO (XO (XO (XO (XO (XO XH)))))))) (Zpos (XI (XI (XI
           (XI (XI (XI XH))))))) (ftoi (Zpos (XI (XI XH))) x)
       in
       (Z.modulo
         (Z.add v
           (if sgned then Z0 else Zpos (XO (XO (XO (XO (XO (XO (XO XH)))))))))
         (Zpos (XO (XO (XO (XO (XO (XO (XO (XO XH)))))))))) :: []
  else let v =
         clip (Zneg (XO (XO (XO (XO (XO (XO (XO (XO (XO (XO (XO (XO (XO (XO
           (XO XH)))))))))))))))) (Zpos (XI (XI (XI (XI (XI (XI (XI (XI (XI
           (XI (XI (XI (XI (XI XH)))))))))))))))
           (ftoi (Zpos (XI (XI (XI XH)))) x)
       in
       let u =
         Z.modulo
           (Z.add v
             (if sgned
              then Z0
              else Zpos (XO (XO (XO (XO (XO (XO (XO (XO (XO (XO (XO (XO (XO
                     (XO (XO XH))))))))))))))))) (Zpos (XO (XO (XO (XO (XO
           (XO (XO (XO (XO (XO (XO (XO (XO (XO (XO (XO XH)))))))))))))))))
       in
       if bigendian
       then (Z.div u (Zpos (XO (XO (XO (XO (XO (XO (XO (XO XH)))))))))) :: (
              (Z.modulo u (Zpos (XO (XO (XO (XO (XO (XO (XO (XO XH)))))))))) :: [])
       else (Z.modulo u (Zpos (XO (XO (XO (XO (XO (XO (XO (XO XH)))))))))) :: (
              (Z.div u (Zpos (XO (XO (XO (XO (XO (XO (XO (XO XH)))))))))) :: [])

(** val frame_at : f32 list list -> nat -> f32 list **)

let rec frame_at chans j =
  match chans with
  | [] -> []
  | c :: r -> (nth j c NaN) :: (frame_at r j)

(** val pack_frames : z -> bool -> bool -> f32 list list -> nat -> z list **)

let pack_frames word sgned bigendian chans samples =
  flat_map (fun j ->
    flat_map (pack_sample word sgned bigendian) (frame_at chans j))
    (seq O samples)

(** val cdiv : z -> z -> z **)

let cdiv =
  Z.quot

(** val read_frames : z -> z -> z -> z -> z * z **)

let read_frames avail length0 word channels =
  if Z.leb word Z0
  then ((Zneg (XI (XI (XO (XO (XO (XO (XO XH)))))))), Z0)
  else if (||) (Z.ltb channels (Zpos XH))
            (Z.gtb channels (Zpos (XI (XI (XI (XI (XI (XI (XI XH)))))))))
       then ((Zneg (XI (XI (XO (XO (XO (XO (XO XH)))))))), Z0)
       else let bps = Z.mul word channels in
            let samples =
              if Z.gtb avail (cdiv length0 bps)
              then cdiv length0 bps
              else avail
            in
            if Z.leb samples Z0
            then ((Zneg (XI (XI (XO (XO (XO (XO (XO XH)))))))), Z0)
            else ((Z.mul samples bps), samples)

type pkt = { pk_W : bool option; pk_gran : z; pk_eos : bool }

type page = { pg_off : z; pg_len : z; pg_serial : z; pg_gran : z;
              pg_bos : bool; pg_eos : bool; pg_cont : bool; pg_pkts : 
              pkt list }

type linfo = { li_serial : z; li_bs0 : z; li_bs1 : z; li_off : z;
               li_dataoff : z; li_end : z; li_init : z; li_len : z }

(** val oPENED : z **)

let oPENED =
  Zpos (XO XH)

(** val sTREAMSET : z **)

let sTREAMSET =
  Zpos (XI XH)

(** val iNITSET : z **)

let iNITSET =
  Zpos (XO (XO XH))

(** val oV_EOF_ : z **)

let oV_EOF_ =
  Zneg (XO XH)

(** val oV_EINVAL_ : z **)

let oV_EINVAL_ =
  Zneg (XI (XI (XO (XO (XO (XO (XO XH)))))))

(** val oUT_OF_FUEL : z **)

let oUT_OF_FUEL =
  Zneg (XI (XI (XI (XO (XO (XI (XI (XI (XI XH)))))))))

(** val blocksize : linfo -> bool -> z **)

let blocksize l = function
| true -> l.li_bs1
| false -> l.li_bs0

(** val init_scan_pkts :
    linfo -> pkt list -> z -> z option -> z * z option **)

let rec init_scan_pkts l ps acc last0 =
  match ps with
  | [] -> (acc, last0)
  | p :: r ->
    (match p.pk_W with
     | Some w ->
       let this = blocksize l w in
       let acc' =
         match last0 with
         | Some lb -> Z.add acc (Z.shiftr (Z.add lb this) (Zpos (XO XH)))
         | None -> acc
       in
       init_scan_pkts l r acc' (Some this)
     | None -> init_scan_pkts l r acc last0)

(** val init_scan : linfo -> page list -> z -> z option -> z **)

let rec init_scan l pgs acc last0 =
  match pgs with
  | [] -> acc
  | pg :: r ->
    if pg.pg_bos
    then acc
    else if negb (Z.eqb pg.pg_serial l.li_serial)
         then init_scan l r acc last0
         else let (acc', last') = init_scan_pkts l pg.pg_pkts acc last0 in
              if negb (Z.eqb pg.pg_gran (Zneg XH))
              then Z.sub pg.pg_gran acc'
              else init_scan l r acc' last'

(** val initial_pcmoffset : linfo -> page list -> z **)

let initial_pcmoffset l audio_pages =
  let a = init_scan l audio_pages Z0 None in if Z.ltb a Z0 then Z0 else a

(** val last_gran : z -> page list -> z -> z **)

let rec last_gran serial pgs cur =
  match pgs with
  | [] -> cur
  | pg :: r ->
    last_gran serial r (if Z.eqb pg.pg_serial serial then pg.pg_gran else cur)

type vfs = { v_pages : page list; v_links : linfo list; v_rem : page list;
             v_rs : z; v_link : z; v_serial : z; v_q : pkt list;
             v_fresh : bool; v_pno : z; v_pcm : z; v_dec : dec; v_hs : 
             z }

(** val nth_link : vfs -> z -> linfo **)

let nth_link s i =
  nth (Z.to_nat i) s.v_links { li_serial = (Zneg XH); li_bs0 = Z0; li_bs1 =
    Z0; li_off = Z0; li_dataoff = Z0; li_end = Z0; li_init = Z0; li_len = Z0 }

(** val cur_link : vfs -> linfo **)

let cur_link s =
  nth_link s s.v_link

(** val cfg_of : linfo -> z -> cfg **)

let cfg_of l h =
  { bs0 = l.li_bs0; bs1 = l.li_bs1; hs = h }

(** val cur_cfg : vfs -> cfg **)

let cur_cfg s =
  cfg_of (cur_link s) s.v_hs

(** val sum_len : linfo list -> nat -> z **)

let rec sum_len ls = function
| O -> Z0
| S k -> (match ls with
          | [] -> Z0
          | l :: r -> Z.add l.li_len (sum_len r k))

(** val base_of : vfs -> z -> z **)

let base_of s link =
  sum_len s.v_links (Z.to_nat link)

(** val pcm_total : vfs -> z **)

let pcm_total s =
  sum_len s.v_links (length s.v_links)

(** val file_end : vfs -> z **)

let file_end s =
  match rev s.v_pages with
  | [] -> Z0
  | pg :: _ -> Z.add pg.pg_off pg.pg_len

(** val raw_tell : vfs -> z **)

let raw_tell s =
  match s.v_rem with
  | [] -> file_end s
  | pg :: _ -> pg.pg_off

(** val find_link : linfo list -> z -> z -> z option **)

let rec find_link ls serial i =
  match ls with
  | [] -> None
  | l :: r ->
    if Z.eqb l.li_serial serial
    then Some i
    else find_link r serial (Z.add i (Zpos XH))

(** val set_q : vfs -> pkt list -> bool -> z -> vfs **)

let set_q s q fresh pno =
  { v_pages = s.v_pages; v_links = s.v_links; v_rem = s.v_rem; v_rs = s.v_rs;
    v_link = s.v_link; v_serial = s.v_serial; v_q = q; v_fresh = fresh;
    v_pno = pno; v_pcm = s.v_pcm; v_dec = s.v_dec; v_hs = s.v_hs }

(** val set_rem : vfs -> page list -> vfs **)

let set_rem s rem =
  { v_pages = s.v_pages; v_links = s.v_links; v_rem = rem; v_rs = s.v_rs;
    v_link = s.v_link; v_serial = s.v_serial; v_q = s.v_q; v_fresh =
    s.v_fresh; v_pno = s.v_pno; v_pcm = s.v_pcm; v_dec = s.v_dec; v_hs =
    s.v_hs }

(** val set_rs : vfs -> z -> vfs **)

let set_rs s rs =
  { v_pages = s.v_pages; v_links = s.v_links; v_rem = s.v_rem; v_rs = rs;
    v_link = s.v_link; v_serial = s.v_serial; v_q = s.v_q; v_fresh =
    s.v_fresh; v_pno = s.v_pno; v_pcm = s.v_pcm; v_dec = s.v_dec; v_hs =
    s.v_hs }

(** val set_pcm : vfs -> z -> vfs **)

let set_pcm s p =
  { v_pages = s.v_pages; v_links = s.v_links; v_rem = s.v_rem; v_rs = s.v_rs;
    v_link = s.v_link; v_serial = s.v_serial; v_q = s.v_q; v_fresh =
    s.v_fresh; v_pno = s.v_pno; v_pcm = p; v_dec = s.v_dec; v_hs = s.v_hs }

(** val set_dec : vfs -> dec -> vfs **)

let set_dec s d =
  { v_pages = s.v_pages; v_links = s.v_links; v_rem = s.v_rem; v_rs = s.v_rs;
    v_link = s.v_link; v_serial = s.v_serial; v_q = s.v_q; v_fresh =
    s.v_fresh; v_pno = s.v_pno; v_pcm = s.v_pcm; v_dec = d; v_hs = s.v_hs }

(** val set_link : vfs -> z -> z -> vfs **)

let set_link s link serial =
  { v_pages = s.v_pages; v_links = s.v_links; v_rem = s.v_rem; v_rs = s.v_rs;
    v_link = link; v_serial = serial; v_q = s.v_q; v_fresh = s.v_fresh;
    v_pno = s.v_pno; v_pcm = s.v_pcm; v_dec = s.v_dec; v_hs = s.v_hs }

(** val set_hs : vfs -> z -> vfs **)

let set_hs s h =
  { v_pages = s.v_pages; v_links = s.v_links; v_rem = s.v_rem; v_rs = s.v_rs;
    v_link = s.v_link; v_serial = s.v_serial; v_q = s.v_q; v_fresh =
    s.v_fresh; v_pno = s.v_pno; v_pcm = s.v_pcm; v_dec = s.v_dec; v_hs = h }

(** val os_reset : vfs -> vfs **)

let os_reset s =
  set_q s [] true Z0

(** val os_pagein : vfs -> page -> vfs **)

let os_pagein s pg =
  if negb (Z.eqb pg.pg_serial s.v_serial)
  then s
  else if (&&) s.v_fresh pg.pg_cont
       then (match pg.pg_pkts with
             | [] -> s
             | _ :: r -> set_q s (app s.v_q r) false s.v_pno)
       else set_q s (app s.v_q pg.pg_pkts) false s.v_pno

(** val decode_clear : vfs -> vfs **)

let decode_clear s =
  set_rs s oPENED

(** val make_ready : vfs -> vfs **)

let make_ready s =
  if Z.eqb s.v_rs sTREAMSET
  then set_rs (set_dec s (dec_init (cur_cfg s))) iNITSET
  else s

(** val process_audio : vfs -> pkt -> bool -> vfs **)

let process_audio s p w =
  let b = { k_W = w; k_gran = p.pk_gran; k_seq = s.v_pno; k_eof = p.pk_eos;
    k_pcm = true }
  in
  let (_, d) = dec_blockin (cur_cfg s) s.v_dec b in
  let s1 = set_dec s d in
  if (&&) (negb (Z.eqb p.pk_gran (Zneg XH))) (negb p.pk_eos)
  then let link = s.v_link in
       let g0 = Z.sub p.pk_gran (cur_link s).li_init in
       let g1 = if Z.ltb g0 Z0 then Z0 else g0 in
       let samples = Z.shiftl (dec_pcmout d) s.v_hs in
       let g2 = if Z.ltb (Z.sub g1 samples) Z0 then Z0 else Z.sub g1 samples
       in
       set_pcm s1 (Z.add g2 (base_of s link))
  else s1

(** val fetch : nat -> vfs -> z * vfs **)

let rec fetch fuel s =
  match fuel with
  | O -> (oUT_OF_FUEL, s)
  | S f ->
    let s0 = make_ready s in
    if (&&) (Z.eqb s0.v_rs iNITSET)
         (match s0.v_q with
          | [] -> false
          | _ :: _ -> true)
    then (match s0.v_q with
          | [] -> (oUT_OF_FUEL, s0)
          | p :: q' ->
            let s1 = set_q s0 q' s0.v_fresh (Z.add s0.v_pno (Zpos XH)) in
            (match p.pk_W with
             | Some w ->
               let s2 = process_audio (set_q s0 q' s0.v_fresh s0.v_pno) p w in
               ((Zpos XH),
               (set_q s2 s2.v_q s2.v_fresh (Z.add s0.v_pno (Zpos XH))))
             | None -> fetch f s1))
    else (match s0.v_rem with
          | [] -> (oV_EOF_, s0)
          | pg :: rem' ->
            let s1 = set_rem s0 rem' in
            if (&&) (Z.eqb s1.v_rs iNITSET)
                 (negb (Z.eqb s1.v_serial pg.pg_serial))
            then if pg.pg_bos
                 then let s2 = decode_clear s1 in
                      (match find_link s2.v_links pg.pg_serial Z0 with
                       | Some link ->
                         let s3 =
                           set_rs (os_reset (set_link s2 link pg.pg_serial))
                             sTREAMSET
                         in
                         fetch f (os_pagein s3 pg)
                       | None -> fetch f s2)
                 else fetch f s1
            else if Z.ltb s1.v_rs sTREAMSET
                 then (match find_link s1.v_links pg.pg_serial Z0 with
                       | Some link ->
                         let s3 =
                           set_rs (os_reset (set_link s1 link pg.pg_serial))
                             sTREAMSET
                         in
                         fetch f (os_pagein s3 pg)
                       | None -> fetch f s1)
                 else fetch f (os_pagein s1 pg))

(** val pkt_count : page list -> nat **)

let rec pkt_count = function
| [] -> O
| pg :: r -> add (length pg.pg_pkts) (pkt_count r)

(** val fetch_fuel : vfs -> nat **)

let fetch_fuel s =
  add (add (add (length s.v_rem) (pkt_count s.v_rem)) (length s.v_q)) (S (S
    O))

(** val read_float : nat -> vfs -> z -> (z * z) * vfs **)

let rec read_float fuel s length0 =
  match fuel with
  | O -> ((oUT_OF_FUEL, (Zneg XH)), s)
  | S f ->
    let samples = if Z.eqb s.v_rs iNITSET then dec_pcmout s.v_dec else Z0 in
    if negb (Z.eqb samples Z0)
    then let n0 = if Z.gtb samples length0 then length0 else samples in
         let (_, d) = dec_read s.v_dec n0 in
         ((n0, s.v_link),
         (set_pcm (set_dec s d) (Z.add s.v_pcm (Z.shiftl n0 s.v_hs))))
    else let (rc, s1) = fetch (fetch_fuel s) s in
         if Z.eqb rc oV_EOF_
         then ((Z0, (Zneg XH)), s1)
         else if Z.leb rc Z0
              then ((rc, (Zneg XH)), s1)
              else read_float f s1 length0

(** val read_fuel : vfs -> nat **)

let read_fuel s =
  add (add (pkt_count s.v_rem) (length s.v_q)) (S (S (S O)))

(** val pages_from : page list -> z -> page list **)

let rec pages_from pgs pos =
  match pgs with
  | [] -> []
  | pg :: r -> if Z.geb pg.pg_off pos then pgs else pages_from r pos

type rscan = { r_last : z; r_acc : z; r_lastflag : bool; r_firstflag : 
               bool; r_wq : pkt list; r_wfresh : bool }

(** val work_pagein : rscan -> page -> bool -> bool -> rscan **)

let work_pagein r pg lastflag firstflag =
  let pk = if (&&) r.r_wfresh pg.pg_cont then tl pg.pg_pkts else pg.pg_pkts in
  let fresh' =
    if (&&) r.r_wfresh pg.pg_cont
    then (match pg.pg_pkts with
          | [] -> true
          | _ :: _ -> false)
    else false
  in
  { r_last = r.r_last; r_acc = r.r_acc; r_lastflag = lastflag; r_firstflag =
  firstflag; r_wq = (app r.r_wq pk); r_wfresh = fresh' }

(** val raw_scan : nat -> vfs -> rscan -> vfs **)

let rec raw_scan fuel s r =
  match fuel with
  | O -> set_pcm s oUT_OF_FUEL
  | S f ->
    let take_page =
      if negb (Z.eqb r.r_last Z0)
      then set_pcm s (Zneg XH)
      else (match s.v_rem with
            | [] -> set_pcm s (pcm_total s)
            | pg :: rem' ->
              let s1 = set_rem s rem' in
              let s2 =
                if (&&)
                     ((&&) (Z.geb s1.v_rs sTREAMSET)
                       (negb (Z.eqb s1.v_serial pg.pg_serial))) pg.pg_bos
                then decode_clear s1
                else s1
              in
              if Z.ltb s2.v_rs sTREAMSET
              then (match find_link s2.v_links pg.pg_serial Z0 with
                    | Some link ->
                      let s3 =
                        set_rs (os_reset (set_link s2 link pg.pg_serial))
                          sTREAMSET
                      in
                      let r3 = { r_last = r.r_last; r_acc = r.r_acc;
                        r_lastflag = r.r_lastflag; r_firstflag =
                        r.r_firstflag; r_wq = []; r_wfresh = true }
                      in
                      let ff = Z.leb pg.pg_off (cur_link s3).li_dataoff in
                      raw_scan f (os_pagein s3 pg)
                        (work_pagein r3 pg pg.pg_eos ff)
                    | None -> raw_scan f s2 r)
              else let ff = Z.leb pg.pg_off (cur_link s2).li_dataoff in
                   raw_scan f (os_pagein s2 pg)
                     (work_pagein r pg pg.pg_eos ff))
    in
    if Z.geb s.v_rs sTREAMSET
    then (match r.r_wq with
          | [] -> take_page
          | p :: wq' ->
            let r1 = { r_last = r.r_last; r_acc = r.r_acc; r_lastflag =
              r.r_lastflag; r_firstflag = r.r_firstflag; r_wq = wq';
              r_wfresh = r.r_wfresh }
            in
            let l = cur_link s in
            let (p0, acc1) =
              match p.pk_W with
              | Some w ->
                let tb = blocksize l w in
                if (&&) r.r_lastflag (negb r.r_firstflag)
                then ((tb,
                       (set_q s (tl s.v_q) s.v_fresh
                         (Z.add s.v_pno (Zpos XH)))), r.r_acc)
                else ((tb, s),
                       (if negb (Z.eqb r.r_last Z0)
                        then Z.add r.r_acc
                               (Z.shiftr (Z.add r.r_last tb) (Zpos (XO XH)))
                        else r.r_acc))
              | None ->
                ((Z0,
                  (set_q s (tl s.v_q) s.v_fresh (Z.add s.v_pno (Zpos XH)))),
                  r.r_acc)
            in
            let (this, s1) = p0 in
            if negb (Z.eqb p.pk_gran (Zneg XH))
            then let g0 = Z.sub p.pk_gran l.li_init in
                 let g1 = if Z.ltb g0 Z0 then Z0 else g0 in
                 let g2 = Z.sub g1 acc1 in
                 let g3 = if Z.ltb g2 Z0 then Z0 else g2 in
                 set_pcm s1 (Z.add g3 (base_of s1 s1.v_link))
            else raw_scan f s1 { r_last = this; r_acc = acc1; r_lastflag =
                   r1.r_lastflag; r_firstflag = r1.r_firstflag; r_wq = wq';
                   r_wfresh = r1.r_wfresh })
    else take_page

(** val raw_seek : vfs -> z -> z * vfs **)

let raw_seek s pos =
  if Z.ltb s.v_rs oPENED
  then (oV_EINVAL_, s)
  else if (||) (Z.ltb pos Z0) (Z.gtb pos (file_end s))
       then (oV_EINVAL_, s)
       else let s1 =
              if (&&) (Z.geb s.v_rs sTREAMSET)
                   ((||) (Z.ltb pos (cur_link s).li_off)
                     (Z.geb pos (cur_link s).li_end))
              then decode_clear s
              else s
            in
            let s2 = set_pcm (os_reset s1) (Zneg XH) in
            let s3 = set_dec s2 (dec_restart (cur_cfg s2) s2.v_dec) in
            let s4 = set_rem s3 (pages_from s3.v_pages pos) in
            let r0 = { r_last = Z0; r_acc = Z0; r_lastflag = false;
              r_firstflag = false; r_wq = []; r_wfresh = true }
            in
            (Z0,
            (raw_scan
              (add (add (length s4.v_rem) (pkt_count s4.v_rem)) (S (S O))) s4
              r0))

(** val link_of_pos : linfo list -> z -> z -> nat -> z * z **)

let rec link_of_pos ls pos total = function
| O -> ((Zneg XH), total)
| S k ->
  let t =
    Z.sub total
      (nth k ls { li_serial = (Zneg XH); li_bs0 = Z0; li_bs1 = Z0; li_off =
        Z0; li_dataoff = Z0; li_end = Z0; li_init = Z0; li_len = Z0 }).li_len
  in
  if Z.geb pos t then ((Z.of_nat k), t) else link_of_pos ls pos t k

(** val best_page :
    page list -> linfo -> z -> page list option -> page list option **)

let rec best_page pgs l target best =
  match pgs with
  | [] -> best
  | pg :: r ->
    if Z.geb pg.pg_off l.li_end
    then best
    else if (&&)
              ((&&)
                ((&&) (Z.geb pg.pg_off l.li_dataoff)
                  (Z.eqb pg.pg_serial l.li_serial))
                (negb (Z.eqb pg.pg_gran (Zneg XH)))) (Z.ltb pg.pg_gran target)
         then best_page r l target (Some pgs)
         else best_page r l target best

(** val drop_to_gran : pkt list -> z -> ((pkt list * z) * z) option **)

let rec drop_to_gran q n0 =
  match q with
  | [] -> None
  | p :: r ->
    if negb (Z.eqb p.pk_gran (Zneg XH))
    then Some ((q, n0), p.pk_gran)
    else drop_to_gran r (Z.add n0 (Zpos XH))

(** val rewind_page : page list -> linfo -> z option **)

let rec rewind_page before_rev l =
  match before_rev with
  | [] -> None
  | pg :: r ->
    if Z.ltb pg.pg_off l.li_dataoff
    then None
    else if (&&) (Z.eqb pg.pg_serial l.li_serial)
              ((||) (Z.gtb pg.pg_gran (Zneg XH)) (negb pg.pg_cont))
         then Some pg.pg_off
         else rewind_page r l

(** val pages_before : page list -> z -> page list -> page list **)

let rec pages_before pgs off acc =
  match pgs with
  | [] -> acc
  | pg :: r ->
    if Z.geb pg.pg_off off then acc else pages_before r off (pg :: acc)

(** val enter_link : vfs -> z -> vfs **)

let enter_link s link =
  if (||) (negb (Z.eqb link s.v_link)) (Z.ltb s.v_rs sTREAMSET)
  then set_rs (set_link (decode_clear s) link (nth_link s link).li_serial)
         sTREAMSET
  else set_dec s (dec_restart (cur_cfg s) s.v_dec)

(** val pcm_seek_page : vfs -> z -> z * vfs **)

let pcm_seek_page s pos =
  if Z.ltb s.v_rs oPENED
  then (oV_EINVAL_, s)
  else if (||) (Z.ltb pos Z0) (Z.gtb pos (pcm_total s))
       then (oV_EINVAL_, s)
       else let (link, total) =
              link_of_pos s.v_links pos (pcm_total s) (length s.v_links)
            in
            let l = nth_link s link in
            let target = Z.add (Z.sub pos total) l.li_init in
            (match best_page s.v_pages l target None with
             | Some l0 ->
               (match l0 with
                | [] -> (oUT_OF_FUEL, s)
                | pg :: rem' ->
                  let s1 =
                    enter_link (set_pcm (set_rem s rem') (Zneg XH)) link
                  in
                  let s2 = os_pagein (os_reset s1) pg in
                  (match drop_to_gran s2.v_q Z0 with
                   | Some p ->
                     let (p0, g) = p in
                     let (q', n0) = p0 in
                     let p1 = Z.sub g (cur_link s2).li_init in
                     let p2 = Z.add (if Z.ltb p1 Z0 then Z0 else p1) total in
                     let s3 =
                       set_pcm (set_q s2 q' s2.v_fresh (Z.add s2.v_pno n0)) p2
                     in
                     if Z.gtb s3.v_pcm pos
                     then ((Zneg (XI (XO (XO (XO (XO (XO (XO XH)))))))),
                            (decode_clear (set_pcm s3 (Zneg XH))))
                     else (Z0, s3)
                   | None ->
                     (match rewind_page
                              (pages_before s2.v_pages pg.pg_off [])
                              (cur_link s2) with
                      | Some off -> raw_seek s2 off
                      | None ->
                        let cur =
                          if Z.leb pg.pg_off (cur_link s2).li_dataoff
                          then s2.v_rem
                          else tl
                                 (pages_from s2.v_pages
                                   (cur_link s2).li_dataoff)
                        in
                        ((Zneg (XI (XO (XO (XI (XO (XO (XO XH)))))))),
                        (decode_clear (set_pcm (set_rem s2 cur) (Zneg XH)))))))
             | None ->
               (match pages_from s.v_pages l.li_dataoff with
                | [] ->
                  ((Zneg (XI (XO (XO (XI (XO (XO (XO XH)))))))),
                    (decode_clear (set_pcm s (Zneg XH))))
                | pg :: rem' ->
                  if Z.eqb pg.pg_serial l.li_serial
                  then let s1 = enter_link (set_pcm s total) link in
                       let s2 = os_pagein (os_reset (set_rem s1 rem')) pg in
                       if Z.gtb s2.v_pcm pos
                       then ((Zneg (XI (XO (XO (XO (XO (XO (XO XH)))))))),
                              (decode_clear (set_pcm s2 (Zneg XH))))
                       else (Z0, s2)
                  else ((Zneg (XI (XO (XO (XI (XO (XO (XO XH)))))))),
                         (decode_clear (set_pcm s (Zneg XH))))))

(** val seek_discard : nat -> vfs -> z -> z -> vfs **)

let rec seek_discard fuel s pos lastblock =
  match fuel with
  | O -> set_pcm s oUT_OF_FUEL
  | S f ->
    (match s.v_q with
     | [] ->
       (match s.v_rem with
        | [] -> s
        | pg :: rem' ->
          let s1 = set_rem s rem' in
          let s2 = if pg.pg_bos then decode_clear s1 else s1 in
          if Z.ltb s2.v_rs sTREAMSET
          then (match find_link s2.v_links pg.pg_serial Z0 with
                | Some link ->
                  let s3 =
                    make_ready
                      (set_rs (os_reset (set_link s2 link pg.pg_serial))
                        sTREAMSET)
                  in
                  seek_discard f (os_pagein s3 pg) pos Z0
                | None -> seek_discard f s2 pos lastblock)
          else seek_discard f (os_pagein s2 pg) pos lastblock)
     | p :: q' ->
       (match p.pk_W with
        | Some w ->
          let l = cur_link s in
          let this = blocksize l w in
          let s1 =
            if negb (Z.eqb lastblock Z0)
            then set_pcm s
                   (Z.add s.v_pcm
                     (Z.shiftr (Z.add lastblock this) (Zpos (XO XH))))
            else s
          in
          if Z.geb
               (Z.add s1.v_pcm
                 (Z.shiftr (Z.add this l.li_bs1) (Zpos (XO XH)))) pos
          then s1
          else let b = { k_W = w; k_gran = p.pk_gran; k_seq = s1.v_pno;
                 k_eof = p.pk_eos; k_pcm = false }
               in
               let (_, d) = dec_blockin (cur_cfg s1) s1.v_dec b in
               let s2 =
                 set_dec (set_q s1 q' s1.v_fresh (Z.add s1.v_pno (Zpos XH))) d
               in
               let s3 =
                 if Z.gtb p.pk_gran (Zneg XH)
                 then let g0 = Z.sub p.pk_gran l.li_init in
                      set_pcm s2
                        (Z.add (if Z.ltb g0 Z0 then Z0 else g0)
                          (base_of s2 s2.v_link))
                 else s2
               in
               seek_discard f s3 pos this
        | None ->
          seek_discard f (set_q s q' s.v_fresh (Z.add s.v_pno (Zpos XH))) pos
            lastblock))

(** val seek_skip : nat -> vfs -> z -> vfs **)

let rec seek_skip fuel s pos =
  match fuel with
  | O -> set_pcm s oUT_OF_FUEL
  | S f ->
    let h = s.v_hs in
    if Z.ltb s.v_pcm (Z.shiftl (Z.shiftr pos h) h)
    then let target = Z.shiftr (Z.sub pos s.v_pcm) h in
         let samples0 =
           if Z.eqb s.v_rs iNITSET then dec_pcmout s.v_dec else Z0
         in
         if Z.leb target Z0
         then s
         else let samples = if Z.gtb samples0 target then target else samples0
              in
              let (_, d) = dec_read s.v_dec samples in
              let s1 =
                set_pcm (set_dec s d) (Z.add s.v_pcm (Z.shiftl samples h))
              in
              if Z.ltb samples target
              then let (rc, s2) = fetch (fetch_fuel s1) s1 in
                   if Z.leb rc Z0
                   then seek_skip f (set_pcm s2 (pcm_total s2)) pos
                   else seek_skip f s2 pos
              else seek_skip f s1 pos
    else s

(** val pcm_seek : vfs -> z -> z * vfs **)

let pcm_seek s pos =
  let (rc, s1) = pcm_seek_page s pos in
  if Z.ltb rc Z0
  then (rc, s1)
  else let s2 = make_ready s1 in
       let s3 =
         seek_discard
           (add
             (add (add (length s2.v_rem) (pkt_count s2.v_rem))
               (length s2.v_q)) (S (S O))) s2 pos Z0
       in
       (Z0,
       (seek_skip
         (add (add (pkt_count s3.v_rem) (length s3.v_q)) (S (S (S O)))) s3
         pos))

(** val halfrate : vfs -> bool -> z * vfs **)

let halfrate s flag =
  if (&&) flag
       (existsb (fun l ->
         Z.leb l.li_bs0 (Zpos (XO (XO (XO (XO (XO (XO XH)))))))) s.v_links)
  then (oV_EINVAL_, s)
  else let s1 = set_hs s (if flag then Zpos XH else Z0) in
       if Z.gtb s1.v_rs sTREAMSET
       then let s2 = set_rs s1 sTREAMSET in
            if Z.geb s2.v_pcm Z0
            then (Z0, (snd (pcm_seek (set_pcm s2 (Zneg XH)) s2.v_pcm)))
            else (Z0, s2)
       else (Z0, s1)

(** val opened : page list -> linfo list -> z -> vfs **)

let opened pages links h =
  let l0 =
    nth O links { li_serial = (Zneg XH); li_bs0 = Z0; li_bs1 = Z0; li_off =
      Z0; li_dataoff = Z0; li_end = Z0; li_init = Z0; li_len = Z0 }
  in
  let s0 = { v_pages = pages; v_links = links; v_rem = []; v_rs = sTREAMSET;
    v_link = Z0; v_serial = l0.li_serial; v_q = []; v_fresh = true; v_pno =
    Z0; v_pcm = (Zneg XH); v_dec = (dec_init (cfg_of l0 h)); v_hs = h }
  in
  snd (raw_seek s0 l0.li_dataoff)

(** val split_links :
    page list -> page list -> page list list -> bool -> page list list **)

let rec split_links pgs cur acc prev_bos =
  match pgs with
  | [] -> (match cur with
           | [] -> rev acc
           | _ :: _ -> rev ((rev cur) :: acc))
  | pg :: r ->
    if (&&) pg.pg_bos (negb prev_bos)
    then (match cur with
          | [] -> split_links r (pg :: []) acc true
          | _ :: _ -> split_links r (pg :: []) ((rev cur) :: acc) true)
    else split_links r (pg :: cur) acc pg.pg_bos

(** val is_header : pkt -> bool **)

let is_header p =
  match p.pk_W with
  | Some _ -> false
  | None -> true

(** val skip_headers : page list -> z -> nat -> page list **)

let rec skip_headers pgs serial seen =
  match pgs with
  | [] -> []
  | pg :: r ->
    if Nat.leb (S (S (S O))) seen
    then pgs
    else if Z.eqb pg.pg_serial serial
         then skip_headers r serial
                (add seen (length (filter is_header pg.pg_pkts)))
         else skip_headers r serial seen

(** val mk_link : page list -> ((z * z) * z) -> z -> z option -> linfo **)

let mk_link seg hdr fend next_off =
  let (p, b1) = hdr in
  let (serial, b0) = p in
  let off = match seg with
            | [] -> Z0
            | pg :: _ -> pg.pg_off in
  let audio = skip_headers seg serial O in
  let dataoff =
    match audio with
    | [] -> (match next_off with
             | Some o -> o
             | None -> fend)
    | pg :: _ -> pg.pg_off
  in
  let l0 = { li_serial = serial; li_bs0 = b0; li_bs1 = b1; li_off = off;
    li_dataoff = dataoff; li_end =
    (match next_off with
     | Some o -> o
     | None -> fend); li_init = Z0; li_len = Z0 }
  in
  let init = initial_pcmoffset l0 audio in
  let lg = last_gran serial seg (Zneg XH) in
  let len0 = Z.sub (if Z.ltb lg Z0 then Z0 else lg) init in
  { li_serial = serial; li_bs0 = b0; li_bs1 = b1; li_off = off; li_dataoff =
  dataoff; li_end = l0.li_end; li_init = init; li_len =
  (if Z.ltb len0 Z0 then Z0 else len0) }

(** val mk_links : page list list -> ((z * z) * z) list -> z -> linfo list **)

let rec mk_links segs hdrs fend =
  match segs with
  | [] -> []
  | seg :: r ->
    (match hdrs with
     | [] -> []
     | h :: hr ->
       let next_off =
         match r with
         | [] -> None
         | l :: _ -> (match l with
                      | [] -> None
                      | pg :: _ -> Some pg.pg_off)
       in
       (mk_link seg h fend next_off) :: (mk_links r hr fend))

(** val open_file : page list -> ((z * z) * z) list -> z -> vfs **)

let open_file pages hdrs h =
  let fend = match rev pages with
             | [] -> Z0
             | pg :: _ -> pg.pg_off in
  opened pages (mk_links (split_links pages [] [] false) hdrs fend) h

type bparams = { p_min : z; p_max : z; p_spl : z; p_res : z; p_fill : z }

(** val nblobs : z **)

let nblobs =
  Zpos (XI (XI (XI XH)))

(** val size_at : z list -> z -> z **)

let size_at sizes i =
  nth (Z.to_nat i) sizes Z0

(** val cdiv8 : z -> z **)

let cdiv8 x =
  Z.quot x (Zpos (XO (XO (XO XH))))

(** val up_loop : nat -> z list -> z -> z -> z -> z -> z * z **)

let rec up_loop fuel sizes r mint choice this =
  match fuel with
  | O -> (choice, this)
  | S f ->
    if Z.ltb (Z.sub r (Z.sub mint this)) Z0
    then let c = Z.add choice (Zpos XH) in
         if Z.geb c nblobs
         then (c, this)
         else up_loop f sizes r mint c
                (Z.mul (Zpos (XO (XO (XO XH)))) (size_at sizes c))
    else (choice, this)

(** val down_loop : nat -> z list -> z -> z -> z -> z -> z -> z * z **)

let rec down_loop fuel sizes r maxt res choice this =
  match fuel with
  | O -> (choice, this)
  | S f ->
    if Z.gtb (Z.add r (Z.sub this maxt)) res
    then let c = Z.sub choice (Zpos XH) in
         if Z.ltb c Z0
         then (c, this)
         else down_loop f sizes r maxt res c
                (Z.mul (Zpos (XO (XO (XO XH)))) (size_at sizes c))
    else (choice, this)

(** val stage1 : bparams -> z -> z list -> z -> z -> z -> z * z **)

let stage1 p r sizes mint c0 this0 =
  if (&&) (Z.gtb p.p_min Z0) (Z.ltb this0 mint)
  then up_loop (S (S (S (S (S (S (S (S (S (S (S (S (S (S (S (S
         O)))))))))))))))) sizes r mint c0 this0
  else (c0, this0)

(** val stage2 : bparams -> z -> z list -> z -> z -> z -> z * z **)

let stage2 p r sizes maxt c1 this1 =
  if (&&) (Z.gtb p.p_max Z0) (Z.gtb this1 maxt)
  then down_loop (S (S (S (S (S (S (S (S (S (S (S (S (S (S (S (S
         O)))))))))))))))) sizes r maxt p.p_res c1 this1
  else (c1, this1)

(** val stage3 : bparams -> z -> z list -> z -> z -> z -> z -> z * z **)

let stage3 p r sizes mint maxt c2 this2 =
  if Z.ltb c2 Z0
  then let maxsize = cdiv8 (Z.add maxt (Z.sub p.p_res r)) in
       (Z0,
       (if Z.gtb (size_at sizes Z0) maxsize
        then Z.mul (Zpos (XO (XO (XO XH)))) maxsize
        else this2))
  else let minsize = cdiv8 (Z.add (Z.sub mint r) (Zpos (XI (XI XH)))) in
       let c = if Z.geb c2 nblobs then Z.sub nblobs (Zpos XH) else c2 in
       let bytes = size_at sizes c in
       (c,
       (Z.mul (Zpos (XO (XO (XO XH))))
         (if Z.gtb minsize bytes then minsize else bytes)))

(** val update : bparams -> z -> z -> z -> z -> z **)

let update p r mint maxt this =
  if (||) (Z.gtb p.p_min Z0) (Z.gtb p.p_max Z0)
  then if (&&) (Z.gtb maxt Z0) (Z.gtb this maxt)
       then Z.add r (Z.sub this maxt)
       else if (&&) (Z.gtb mint Z0) (Z.ltb this mint)
            then Z.add r (Z.sub this mint)
            else if Z.gtb r p.p_fill
                 then if Z.gtb maxt Z0
                      then let x = Z.add r (Z.sub this maxt) in
                           if Z.ltb x p.p_fill then p.p_fill else x
                      else p.p_fill
                 else if Z.gtb mint Z0
                      then let x = Z.add r (Z.sub this mint) in
                           if Z.gtb x p.p_fill then p.p_fill else x
                      else p.p_fill
  else r

(** val addblock : bparams -> z -> z list -> bool -> z -> (z * z) * z **)

let addblock p r sizes w c0 =
  let mint = if w then Z.mul p.p_min p.p_spl else p.p_min in
  let maxt = if w then Z.mul p.p_max p.p_spl else p.p_max in
  let (c1, this1) =
    stage1 p r sizes mint c0
      (Z.mul (Zpos (XO (XO (XO XH)))) (size_at sizes c0))
  in
  let (c2, this2) = stage2 p r sizes maxt c1 this1 in
  let (choice, this) = stage3 p r sizes mint maxt c2 this2 in
  ((choice, this), (update p r mint maxt this))

type d64 =
| DFin of z * z
| DPInf
| DNInf
| DNaN

(** val decode_b64 : z -> d64 **)

let decode_b64 bits0 =
  let sign =
    Z.modulo
      (Z.div bits0 (Zpos (XO (XO (XO (XO (XO (XO (XO (XO (XO (XO (XO (XO (XO
        (XO (XO (XO (XO (XO (XO (XO (XO (XO (XO (XO (XO (XO (XO (XO (XO (XO
        (XO (XO (XO (XO (XO (XO (XO (XO (XO (XO (XO (XO (XO (XO (XO (XO (XO
        (XO (XO (XO (XO (XO (XO (XO (XO (XO (XO (XO (XO (XO (XO (XO (XO
        XH)))))))))))))))))))))))))))))))))))))))))))))))))))))))))))))))))
      (Zpos (XO XH))
  in
  let ex =
    Z.modulo
      (Z.div bits0 (Zpos (XO (XO (XO (XO (XO (XO (XO (XO (XO (XO (XO (XO (XO
        (XO (XO (XO (XO (XO (XO (XO (XO (XO (XO (XO (XO (XO (XO (XO (XO (XO
        (XO (XO (XO (XO (XO (XO (XO (XO (XO (XO (XO (XO (XO (XO (XO (XO (XO
        (XO (XO (XO (XO (XO
        XH)))))))))))))))))))))))))))))))))))))))))))))))))))))) (Zpos (XO
      (XO (XO (XO (XO (XO (XO (XO (XO (XO (XO XH))))))))))))
  in
  let frac =
    Z.modulo bits0 (Zpos (XO (XO (XO (XO (XO (XO (XO (XO (XO (XO (XO (XO (XO
      (XO (XO (XO (XO (XO (XO (XO (XO (XO (XO (XO (XO (XO (XO (XO (XO (XO (XO
      (XO (XO (XO (XO (XO (XO (XO (XO (XO (XO (XO (XO (XO (XO (XO (XO (XO (XO
      (XO (XO (XO XH)))))))))))))))))))))))))))))))))))))))))))))))))))))
  in
  if Z.eqb ex (Zpos (XI (XI (XI (XI (XI (XI (XI (XI (XI (XI XH)))))))))))
  then if Z.eqb frac Z0
       then if Z.eqb sign (Zpos XH) then DNInf else DPInf
       else DNaN
  else let m =
         if Z.eqb ex Z0
         then frac
         else Z.add (Zpos (XO (XO (XO (XO (XO (XO (XO (XO (XO (XO (XO (XO (XO
                (XO (XO (XO (XO (XO (XO (XO (XO (XO (XO (XO (XO (XO (XO (XO
                (XO (XO (XO (XO (XO (XO (XO (XO (XO (XO (XO (XO (XO (XO (XO
                (XO (XO (XO (XO (XO (XO (XO (XO (XO
                XH))))))))))))))))))))))))))))))))))))))))))))))))))))) frac
       in
       let e =
         if Z.eqb ex Z0
         then Zneg (XO (XI (XO (XO (XI (XI (XO (XO (XO (XO XH))))))))))
         else Z.sub ex (Zpos (XI (XI (XO (XO (XI (XI (XO (XO (XO (XO
                XH)))))))))))
       in
       DFin ((if Z.eqb sign (Zpos XH) then Z.opp m else m), e)

(** val fin_lt : z -> z -> z -> z -> bool **)

let fin_lt m1 e1 m2 e2 =
  let e = Z.min e1 e2 in
  Z.ltb (Z.mul m1 (Z.pow (Zpos (XO XH)) (Z.sub e1 e)))
    (Z.mul m2 (Z.pow (Zpos (XO XH)) (Z.sub e2 e)))

(** val dlt : d64 -> d64 -> bool **)

let dlt a b =
  match a with
  | DFin (m1, e1) ->
    (match b with
     | DFin (m2, e2) -> fin_lt m1 e1 m2 e2
     | DPInf -> true
     | _ -> false)
  | DNInf -> (match b with
              | DFin (_, _) -> true
              | DPInf -> true
              | _ -> false)
  | _ -> false

(** val dge : d64 -> d64 -> bool **)

let dge a b =
  match a with
  | DNaN -> false
  | _ -> (match b with
          | DNaN -> false
          | _ -> negb (dlt a b))

type template = { t_coupling : z; t_smin : z; t_smax : z; t_mappings : 
                  z; t_qmap : d64 list; t_rmap : d64 list; t_short : 
                  z list; t_long : z list }

(** val mk_template :
    (((((((z * z) * z) * z) * z list) * z list) * z list) * z list) ->
    template **)

let mk_template = function
| (p, l) ->
  let (p0, s) = p in
  let (p1, r) = p0 in
  let (p2, q) = p1 in
  let (p3, mp) = p2 in
  let (p4, smax) = p3 in
  let (c, smin) = p4 in
  { t_coupling = c; t_smin = smin; t_smax = smax; t_mappings = mp; t_qmap =
  (map decode_b64 q); t_rmap = (map decode_b64 r); t_short = s; t_long = l }

(** val dnth : d64 list -> z -> d64 **)

let dnth l i =
  nth (Z.to_nat i) l DNaN

(** val find_j : nat -> d64 list -> d64 -> z -> z -> z **)

let rec find_j fuel mp req j mappings =
  match fuel with
  | O -> mappings
  | S f ->
    if Z.geb j mappings
    then mappings
    else if (&&) (dge req (dnth mp j)) (dlt req (dnth mp (Z.add j (Zpos XH))))
         then j
         else find_j f mp req (Z.add j (Zpos XH)) mappings

type bumpfn = z -> z -> bool

(** val pick_is : bool -> bumpfn -> z -> z -> z -> z **)

let pick_is clamp bump i j mappings =
  let is0 = if bump i j then Z.add j (Zpos XH) else j in
  if (&&) clamp (Z.geb is0 mappings) then Z.sub mappings (Zpos XH) else is0

(** val lookup :
    bumpfn -> template list -> z -> z -> z -> d64 -> bool -> (z * z) option **)

let rec lookup bump tbl i ch srate req bitrate =
  match tbl with
  | [] -> None
  | t :: rest ->
    if (&&)
         ((&&) ((||) (Z.eqb t.t_coupling (Zneg XH)) (Z.eqb t.t_coupling ch))
           (Z.geb srate t.t_smin)) (Z.leb srate t.t_smax)
    then let mp = if bitrate then t.t_rmap else t.t_qmap in
         if dlt req (dnth mp Z0)
         then lookup bump rest (Z.add i (Zpos XH)) ch srate req bitrate
         else if dlt (dnth mp t.t_mappings) req
              then lookup bump rest (Z.add i (Zpos XH)) ch srate req bitrate
              else let j =
                     find_j (Z.to_nat t.t_mappings) mp req Z0 t.t_mappings
                   in
                   Some (i,
                   (if Z.eqb j t.t_mappings
                    then Z.sub j (Zpos XH)
                    else pick_is true bump i j t.t_mappings))
    else lookup bump rest (Z.add i (Zpos XH)) ch srate req bitrate

(** val oV_EINVAL_0 : z **)

let oV_EINVAL_0 =
  Zneg (XI (XI (XO (XO (XO (XO (XO XH)))))))

(** val oV_EIMPL_ : z **)

let oV_EIMPL_ =
  Zneg (XO (XI (XO (XO (XO (XO (XO XH)))))))

(** val setup_init :
    template list -> z -> (z * z) option -> z * (z * z) option **)

let setup_init tbl ch sel =
  if (||) (Z.ltb ch (Zpos XH))
       (Z.gtb ch (Zpos (XI (XI (XI (XI (XI (XI (XI XH)))))))))
  then (oV_EINVAL_0, None)
  else (match sel with
        | Some p ->
          let (i, is) = p in
          let t =
            nth (Z.to_nat i) tbl { t_coupling = Z0; t_smin = Z0; t_smax = Z0;
              t_mappings = Z0; t_qmap = []; t_rmap = []; t_short = [];
              t_long = [] }
          in
          (Z0, (Some ((nth (Z.to_nat is) t.t_short Z0),
          (nth (Z.to_nat is) t.t_long Z0))))
        | None -> (oV_EINVAL_0, None))

(** val ctl_gate : bool -> z -> z option **)

let ctl_gate set_in_stone number =
  if (&&) (negb (Z.eqb (Z.coq_land number (Zpos (XI (XI (XI XH))))) Z0))
       set_in_stone
  then Some oV_EINVAL_0
  else None

(** val dle : d64 -> d64 -> bool **)

let dle a b =
  match a with
  | DNaN -> false
  | _ -> (match b with
          | DNaN -> false
          | _ -> negb (dlt b a))

(** val dzero : d64 **)

let dzero =
  DFin (Z0, Z0)

(** val done0 : d64 **)

let done0 =
  DFin ((Zpos XH), Z0)

type sst = { s_tmpl : (z * z) option; s_ch : z; s_rate : z; s_managed : 
             z; s_coupling : z; s_stone : bool; s_min : z; s_av : z;
             s_max : z; s_res : z; s_blocks : (z * z) option; s_cleared : 
             bool }

(** val s_init : sst **)

let s_init =
  { s_tmpl = None; s_ch = Z0; s_rate = Z0; s_managed = Z0; s_coupling = Z0;
    s_stone = false; s_min = Z0; s_av = Z0; s_max = Z0; s_res = Z0;
    s_blocks = None; s_cleared = false }

(** val s_clear : sst **)

let s_clear =
  { s_tmpl = None; s_ch = Z0; s_rate = Z0; s_managed = Z0; s_coupling = Z0;
    s_stone = false; s_min = Z0; s_av = Z0; s_max = Z0; s_res = Z0;
    s_blocks = None; s_cleared = true }

(** val nominal_eff : z -> z -> z -> z option **)

let nominal_eff mx nom mn =
  if Z.gtb nom Z0
  then Some nom
  else if Z.gtb mx Z0
       then if Z.gtb mn Z0
            then Some (Z.quot (Z.add mx mn) (Zpos (XO XH)))
            else Some
                   (Z.quot (Z.mul mx (Zpos (XI (XI XH)))) (Zpos (XO (XO (XO
                     XH)))))
       else if Z.gtb mn Z0 then Some mn else None

type sop =
| OVbr of z * z * d64
| OManaged of z * z * z * z * z * d64
| OInit
| OneVbr of z * z * d64
| OneManaged of z * z * z * z * z * d64
| OCoupling of z * d64
| OManage2Set of bool * z * z * z * z * d64 * z * d64
| OManage2Get of bool
| OCtlOther of z

(** val with_tmpl : sst -> (z * z) -> z -> z -> sst **)

let with_tmpl s sel ch rate =
  { s_tmpl = (Some sel); s_ch = ch; s_rate = rate; s_managed = s.s_managed;
    s_coupling = s.s_coupling; s_stone = s.s_stone; s_min = s.s_min; s_av =
    s.s_av; s_max = s.s_max; s_res = s.s_res; s_blocks = s.s_blocks;
    s_cleared = false }

(** val step_vbr :
    bumpfn -> template list -> sst -> z -> z -> d64 -> sst * z **)

let step_vbr bump tbl s ch rate req =
  if Z.leb rate Z0
  then (s, oV_EINVAL_0)
  else (match lookup bump tbl Z0 ch rate req false with
        | Some sel ->
          let s1 = with_tmpl s sel ch rate in
          ({ s_tmpl = s1.s_tmpl; s_ch = ch; s_rate = rate; s_managed = Z0;
          s_coupling = (Zpos XH); s_stone = s.s_stone; s_min = s.s_min;
          s_av = s.s_av; s_max = s.s_max; s_res = s.s_res; s_blocks =
          s.s_blocks; s_cleared = false }, Z0)
        | None ->
          ({ s_tmpl = None; s_ch = s.s_ch; s_rate = s.s_rate; s_managed =
            s.s_managed; s_coupling = s.s_coupling; s_stone = s.s_stone;
            s_min = s.s_min; s_av = s.s_av; s_max = s.s_max; s_res = s.s_res;
            s_blocks = s.s_blocks; s_cleared = false }, oV_EIMPL_))

(** val step_managed :
    bumpfn -> template list -> sst -> z -> z -> z -> z -> z -> d64 -> sst * z **)

let step_managed bump tbl s ch rate mx nom mn reqdiv =
  if Z.leb rate Z0
  then (s, oV_EINVAL_0)
  else (match nominal_eff mx nom mn with
        | Some ne ->
          (match lookup bump tbl Z0 ch rate reqdiv true with
           | Some sel ->
             ({ s_tmpl = (Some sel); s_ch = ch; s_rate = rate; s_managed =
               (Zpos XH); s_coupling = (Zpos XH); s_stone = s.s_stone;
               s_min = mn; s_av = nom; s_max = mx; s_res =
               (Z.mul ne (Zpos (XO XH))); s_blocks = s.s_blocks; s_cleared =
               false }, Z0)
           | None ->
             ({ s_tmpl = None; s_ch = s.s_ch; s_rate = s.s_rate; s_managed =
               s.s_managed; s_coupling = s.s_coupling; s_stone = s.s_stone;
               s_min = s.s_min; s_av = s.s_av; s_max = s.s_max; s_res =
               s.s_res; s_blocks = s.s_blocks; s_cleared = false }, oV_EIMPL_))
        | None -> (s, oV_EINVAL_0))

(** val step_init : template list -> sst -> sst * z **)

let step_init tbl s =
  let (rc, o) = setup_init tbl s.s_ch s.s_tmpl in
  (match rc with
   | Z0 ->
     (match o with
      | Some b ->
        ({ s_tmpl = s.s_tmpl; s_ch = s.s_ch; s_rate = s.s_rate; s_managed =
          s.s_managed; s_coupling = s.s_coupling; s_stone = true; s_min =
          s.s_min; s_av = s.s_av; s_max = s.s_max; s_res = s.s_res;
          s_blocks = (Some b); s_cleared = false }, Z0)
      | None -> (s, rc))
   | _ -> (s, rc))

(** val one_step : (sst * z) -> template list -> sst * z **)

let one_step r tbl =
  let (s1, rc) = r in
  if Z.eqb rc Z0
  then let (s2, rc2) = step_init tbl s1 in
       if Z.eqb rc2 Z0 then (s2, Z0) else (s_clear, rc2)
  else (s_clear, rc)

(** val known_ctl : z -> bool **)

let known_ctl number =
  existsb (Z.eqb number) ((Zpos (XO (XO (XO (XO XH))))) :: ((Zpos (XI (XO (XO
    (XO XH))))) :: ((Zpos (XO (XI (XO (XO XH))))) :: ((Zpos (XI (XI (XO (XO
    XH))))) :: ((Zpos (XO (XO (XI (XO XH))))) :: ((Zpos (XI (XO (XI (XO
    XH))))) :: ((Zpos (XO (XO (XO (XO (XO XH)))))) :: ((Zpos (XI (XO (XO (XO
    (XO XH)))))) :: ((Zpos (XO (XO (XO (XO (XI XH)))))) :: ((Zpos (XI (XO (XO
    (XO (XI XH)))))) :: ((Zpos (XO (XO (XO (XO (XO (XO XH))))))) :: ((Zpos
    (XI (XO (XO (XO (XO (XO XH))))))) :: []))))))))))))

(** val sstep : bumpfn -> template list -> sst -> sop -> sst * z **)

let sstep bump tbl s = function
| OVbr (ch, rate, req) -> step_vbr bump tbl s ch rate req
| OManaged (ch, rate, mx, nom, mn, reqdiv) ->
  step_managed bump tbl s ch rate mx nom mn reqdiv
| OInit -> step_init tbl s
| OneVbr (ch, rate, req) -> one_step (step_vbr bump tbl s ch rate req) tbl
| OneManaged (ch, rate, mx, nom, mn, reqdiv) ->
  one_step (step_managed bump tbl s ch rate mx nom mn reqdiv) tbl
| OCoupling (v, reqdiv) ->
  (match ctl_gate s.s_stone (Zpos (XI (XO (XO (XO (XO (XO XH))))))) with
   | Some rc -> (s, rc)
   | None ->
     let cp = if Z.eqb v Z0 then Z0 else Zpos XH in
     let s0 = { s_tmpl = s.s_tmpl; s_ch = s.s_ch; s_rate = s.s_rate;
       s_managed = s.s_managed; s_coupling = cp; s_stone = s.s_stone; s_min =
       s.s_min; s_av = s.s_av; s_max = s.s_max; s_res = s.s_res; s_blocks =
       s.s_blocks; s_cleared = false }
     in
     (match lookup bump tbl Z0 (if Z.eqb cp Z0 then Zneg XH else s.s_ch)
              s.s_rate reqdiv (negb (Z.eqb s.s_managed Z0)) with
      | Some sel -> ((with_tmpl s0 sel s.s_ch s.s_rate), Z0)
      | None -> (s0, oV_EIMPL_)))
| OManage2Set (null, active, mnK, avK, mxK, damp, resbits, bias) ->
  (match ctl_gate s.s_stone (Zpos (XI (XO (XI (XO XH))))) with
   | Some rc -> (s, rc)
   | None ->
     if null
     then ({ s_tmpl = s.s_tmpl; s_ch = s.s_ch; s_rate = s.s_rate; s_managed =
            Z0; s_coupling = s.s_coupling; s_stone = s.s_stone; s_min =
            s.s_min; s_av = s.s_av; s_max = s.s_max; s_res = s.s_res;
            s_blocks = s.s_blocks; s_cleared = false }, Z0)
     else if (&&) ((&&) (Z.gtb mnK Z0) (Z.gtb avK Z0)) (Z.gtb mnK avK)
          then (s, oV_EINVAL_0)
          else if (&&) ((&&) (Z.gtb mxK Z0) (Z.gtb avK Z0)) (Z.ltb mxK avK)
               then (s, oV_EINVAL_0)
               else if (&&) ((&&) (Z.gtb mnK Z0) (Z.gtb mxK Z0))
                         (Z.gtb mnK mxK)
                    then (s, oV_EINVAL_0)
                    else if dle damp dzero
                         then (s, oV_EINVAL_0)
                         else if Z.ltb resbits Z0
                              then (s, oV_EINVAL_0)
                              else if negb (dge bias dzero)
                                   then (s, oV_EINVAL_0)
                                   else if negb (dle bias done0)
                                        then (s, oV_EINVAL_0)
                                        else ({ s_tmpl = s.s_tmpl; s_ch =
                                               s.s_ch; s_rate = s.s_rate;
                                               s_managed = active;
                                               s_coupling = s.s_coupling;
                                               s_stone = s.s_stone; s_min =
                                               (Z.mul mnK (Zpos (XO (XO (XO
                                                 (XI (XO (XI (XI (XI (XI
                                                 XH))))))))))); s_av =
                                               (Z.mul avK (Zpos (XO (XO (XO
                                                 (XI (XO (XI (XI (XI (XI
                                                 XH))))))))))); s_max =
                                               (Z.mul mxK (Zpos (XO (XO (XO
                                                 (XI (XO (XI (XI (XI (XI
                                                 XH))))))))))); s_res =
                                               resbits; s_blocks =
                                               s.s_blocks; s_cleared =
                                               false }, Z0))
| OManage2Get null ->
  (match ctl_gate s.s_stone (Zpos (XO (XO (XI (XO XH))))) with
   | Some rc -> (s, rc)
   | None -> (s, (if null then oV_EINVAL_0 else Z0)))
| OCtlOther number ->
  (match ctl_gate s.s_stone number with
   | Some rc -> (s, rc)
   | None -> (s, (if known_ctl number then Z0 else oV_EIMPL_)))

(** val zbits : z -> z **)

let zbits m =
  if Z.eqb m Z0 then Z0 else Z.add (Z.log2 (Z.abs m)) (Zpos XH)

(** val round_gen : z -> z -> z -> z -> z -> f32 **)

let round_gen prec emin emax m e =
  if Z.eqb m Z0
  then Finite (Z0, Z0)
  else let e' = Z.max (Z.sub (Z.add e (zbits m)) prec) emin in
       let m' =
         if Z.leb e' e
         then Z.mul m (Z.pow (Zpos (XO XH)) (Z.sub e e'))
         else rne m (Z.sub e e')
       in
       if Z.gtb (Z.add (zbits m') e') emax
       then if Z.ltb m Z0 then NInf else PInf
       else Finite (m', e')

(** val r32 : z -> z -> f32 **)

let r32 =
  round_gen (Zpos (XO (XO (XO (XI XH))))) (Zneg (XI (XO (XI (XO (XI (XO (XO
    XH)))))))) (Zpos (XO (XO (XO (XO (XO (XO (XO XH))))))))

(** val r64 : z -> z -> f32 **)

let r64 =
  round_gen (Zpos (XI (XO (XI (XO (XI XH)))))) (Zneg (XO (XI (XO (XO (XI (XI
    (XO (XO (XO (XO XH))))))))))) (Zpos (XO (XO (XO (XO (XO (XO (XO (XO (XO
    (XO XH)))))))))))

(** val fadd_gen : (z -> z -> f32) -> f32 -> f32 -> f32 **)

let fadd_gen rnd a b =
  match a with
  | Finite (m1, e1) ->
    (match b with
     | Finite (m2, e2) ->
       let e = Z.min e1 e2 in
       rnd
         (Z.add (Z.mul m1 (Z.pow (Zpos (XO XH)) (Z.sub e1 e)))
           (Z.mul m2 (Z.pow (Zpos (XO XH)) (Z.sub e2 e)))) e
     | x -> x)
  | PInf -> (match b with
             | Finite (_, _) -> PInf
             | PInf -> PInf
             | _ -> NaN)
  | NInf -> (match b with
             | Finite (_, _) -> NInf
             | PInf -> NaN
             | x -> x)
  | NaN -> NaN

(** val fneg : f32 -> f32 **)

let fneg = function
| Finite (m, e) -> Finite ((Z.opp m), e)
| PInf -> NInf
| NInf -> PInf
| NaN -> NaN

(** val fmul_gen : (z -> z -> f32) -> f32 -> f32 -> f32 **)

let fmul_gen rnd a b =
  match a with
  | Finite (m, e1) ->
    (match b with
     | Finite (m2, e2) -> rnd (Z.mul m m2) (Z.add e1 e2)
     | PInf -> if Z.eqb m Z0 then NaN else if Z.ltb m Z0 then NInf else PInf
     | NInf -> if Z.eqb m Z0 then NaN else if Z.ltb m Z0 then PInf else NInf
     | NaN -> NaN)
  | PInf ->
    (match b with
     | Finite (m, _) ->
       if Z.eqb m Z0 then NaN else if Z.ltb m Z0 then NInf else PInf
     | x -> x)
  | NInf ->
    (match b with
     | Finite (m, _) ->
       if Z.eqb m Z0 then NaN else if Z.ltb m Z0 then PInf else NInf
     | PInf -> NInf
     | NInf -> PInf
     | NaN -> NaN)
  | NaN -> NaN

(** val fadd32 : f32 -> f32 -> f32 **)

let fadd32 =
  fadd_gen r32

(** val fsub32 : f32 -> f32 -> f32 **)

let fsub32 a b =
  fadd_gen r32 a (fneg b)

(** val fmul32 : f32 -> f32 -> f32 **)

let fmul32 =
  fmul_gen r32

(** val fadd64 : f32 -> f32 -> f32 **)

let fadd64 =
  fadd_gen r64

(** val fmul64 : f32 -> f32 -> f32 **)

let fmul64 =
  fmul_gen r64

(** val to32 : f32 -> f32 **)

let to32 a = match a with
| Finite (m, e) -> r32 m e
| _ -> a

(** val fzero : f32 **)

let fzero =
  Finite (Z0, Z0)

(** val of_int : z -> f32 **)

let of_int z0 =
  Finite (z0, Z0)

(** val fpos : f32 -> bool **)

let fpos = function
| Finite (m, _) -> Z.gtb m Z0
| PInf -> true
| _ -> false

(** val encode_b32 : f32 -> z **)

let encode_b32 = function
| Finite (m, e) ->
  if Z.eqb m Z0
  then Z0
  else let s =
         if Z.ltb m Z0
         then Zpos (XO (XO (XO (XO (XO (XO (XO (XO (XO (XO (XO (XO (XO (XO
                (XO (XO (XO (XO (XO (XO (XO (XO (XO (XO (XO (XO (XO (XO (XO
                (XO (XO XH)))))))))))))))))))))))))))))))
         else Z0
       in
       let a0 = Z.abs m in
       let sh = Z.sub (Zpos (XO (XO (XO (XI XH))))) (zbits a0) in
       let e' = Z.sub e sh in
       if Z.ltb e' (Zneg (XI (XO (XI (XO (XI (XO (XO XH))))))))
       then Z.add s
              (if Z.geb e (Zneg (XI (XO (XI (XO (XI (XO (XO XH))))))))
               then Z.mul a0
                      (Z.pow (Zpos (XO XH))
                        (Z.add e (Zpos (XI (XO (XI (XO (XI (XO (XO XH))))))))))
               else Z.shiftr a0
                      (Z.sub (Zneg (XI (XO (XI (XO (XI (XO (XO XH)))))))) e))
       else Z.add
              (Z.add s
                (Z.mul
                  (Z.add e' (Zpos (XO (XI (XI (XO (XI (XO (XO XH)))))))))
                  (Zpos (XO (XO (XO (XO (XO (XO (XO (XO (XO (XO (XO (XO (XO
                  (XO (XO (XO (XO (XO (XO (XO (XO (XO (XO
                  XH))))))))))))))))))))))))))
              (Z.sub
                (if Z.geb sh Z0
                 then Z.mul a0 (Z.pow (Zpos (XO XH)) sh)
                 else Z.shiftr a0 (Z.opp sh)) (Zpos (XO (XO (XO (XO (XO (XO
                (XO (XO (XO (XO (XO (XO (XO (XO (XO (XO (XO (XO (XO (XO (XO
                (XO (XO XH)))))))))))))))))))))))))
| PInf ->
  Zpos (XO (XO (XO (XO (XO (XO (XO (XO (XO (XO (XO (XO (XO (XO (XO (XO (XO
    (XO (XO (XO (XO (XO (XO (XI (XI (XI (XI (XI (XI (XI
    XH))))))))))))))))))))))))))))))
| NInf ->
  Zpos (XO (XO (XO (XO (XO (XO (XO (XO (XO (XO (XO (XO (XO (XO (XO (XO (XO
    (XO (XO (XO (XO (XO (XO (XI (XI (XI (XI (XI (XI (XI (XI
    XH)))))))))))))))))))))))))))))))
| NaN ->
  Zpos (XO (XO (XO (XO (XO (XO (XO (XO (XO (XO (XO (XO (XO (XO (XO (XO (XO
    (XO (XO (XO (XO (XO (XI (XI (XI (XI (XI (XI (XI (XI
    XH))))))))))))))))))))))))))))))

(** val float32_unpack : z -> f32 **)

let float32_unpack v =
  let mant =
    Z.modulo v (Zpos (XO (XO (XO (XO (XO (XO (XO (XO (XO (XO (XO (XO (XO (XO
      (XO (XO (XO (XO (XO (XO (XO XH))))))))))))))))))))))
  in
  let sign =
    Z.modulo
      (Z.div v (Zpos (XO (XO (XO (XO (XO (XO (XO (XO (XO (XO (XO (XO (XO (XO
        (XO (XO (XO (XO (XO (XO (XO (XO (XO (XO (XO (XO (XO (XO (XO (XO (XO
        XH))))))))))))))))))))))))))))))))) (Zpos (XO XH))
  in
  let ex =
    Z.modulo
      (Z.div v (Zpos (XO (XO (XO (XO (XO (XO (XO (XO (XO (XO (XO (XO (XO (XO
        (XO (XO (XO (XO (XO (XO (XO XH))))))))))))))))))))))) (Zpos (XO (XO
      (XO (XO (XO (XO (XO (XO (XO (XO XH)))))))))))
  in
  let ex' =
    Z.sub (Z.sub ex (Zpos (XO (XO (XI (XO XH)))))) (Zpos (XO (XO (XO (XO (XO
      (XO (XO (XO (XI XH))))))))))
  in
  let ex'' =
    if Z.gtb ex' (Zpos (XI (XI (XI (XI (XI XH))))))
    then Zpos (XI (XI (XI (XI (XI XH)))))
    else if Z.ltb ex' (Zneg (XI (XI (XI (XI (XI XH))))))
         then Zneg (XI (XI (XI (XI (XI XH)))))
         else ex'
  in
  Finite ((if Z.eqb sign (Zpos XH) then Z.opp mant else mant), ex'')

(** val rd_acc : nat -> bits -> z -> z -> (z * bits) option **)

let rec rd_acc w bs k acc =
  match w with
  | O -> Some (acc, bs)
  | S w' ->
    (match bs with
     | [] -> None
     | b :: r ->
       rd_acc w' r (Z.mul (Zpos (XO XH)) k) (if b then Z.add acc k else acc))

(** val rd : nat -> bits -> (z * bits) option **)

let rd w bs =
  rd_acc w bs (Zpos XH) Z0

(** val ilog_fuel : nat -> z -> z **)

let rec ilog_fuel fuel v =
  match fuel with
  | O -> Z0
  | S f ->
    if Z.leb v Z0
    then Z0
    else Z.add (Zpos XH) (ilog_fuel f (Z.div v (Zpos (XO XH))))

(** val ilog : z -> z **)

let ilog v =
  if Z.ltb v Z0
  then Zpos (XO (XO (XO (XO (XO XH)))))
  else ilog_fuel (S (S (S (S (S (S (S (S (S (S (S (S (S (S (S (S (S (S (S (S
         (S (S (S (S (S (S (S (S (S (S (S (S (S (S (S (S (S (S (S (S
         O)))))))))))))))))))))))))))))))))))))))) v

(** val ilogn : z -> nat **)

let ilogn v =
  Z.to_nat (ilog v)

(** val bytes_left : bits -> z **)

let bytes_left bs =
  Z.div (Z.of_nat (length bs)) (Zpos (XO (XO (XO XH))))

type book = { b_dim : z; b_entries : z; b_lengths : z list; b_maptype : 
              z; b_qmin : z; b_qdelta : z; b_qquant : z; b_qseq : z;
              b_quantlist : z list }

(** val pow_le : z -> z -> z -> bool **)

let pow_le b d cap =
  if Z.leb b (Zpos XH)
  then true
  else if Z.gtb d (Zpos (XI (XO (XO (XI XH)))))
       then false
       else Z.leb (Z.pow b d) cap

(** val iroot_fuel : nat -> z -> z -> z -> z -> z **)

let rec iroot_fuel fuel lo hi d cap =
  match fuel with
  | O -> lo
  | S f ->
    if Z.leb (Z.sub hi lo) (Zpos XH)
    then lo
    else let mid = Z.div (Z.add lo hi) (Zpos (XO XH)) in
         if pow_le mid d cap
         then iroot_fuel f mid hi d cap
         else iroot_fuel f lo mid d cap

(** val quantvals1 : z -> z -> z **)

let quantvals1 entries dim =
  if (||) (Z.ltb entries (Zpos XH)) (Z.ltb dim (Zpos XH))
  then Z0
  else iroot_fuel (S (S (S (S (S (S (S (S (S (S (S (S (S (S (S (S (S (S (S (S
         (S (S (S (S (S (S (S (S (S (S (S (S (S (S (S (S (S (S (S (S
         O)))))))))))))))))))))))))))))))))))))))) (Zpos XH)
         (Z.add entries (Zpos XH)) dim entries

(** val rd_list : nat -> nat -> bits -> (z list * bits) option **)

let rec rd_list n0 w bs =
  match n0 with
  | O -> Some ([], bs)
  | S k ->
    (match rd w bs with
     | Some p ->
       let (v, r) = p in
       (match rd_list k w r with
        | Some p0 -> let (l, r2) = p0 in Some ((v :: l), r2)
        | None -> None)
     | None -> None)

(** val rd_lengths_sparse : nat -> bits -> (z list * bits) option **)

let rec rd_lengths_sparse n0 bs =
  match n0 with
  | O -> Some ([], bs)
  | S k ->
    (match rd (S O) bs with
     | Some p ->
       let (f, r) = p in
       if Z.eqb f (Zpos XH)
       then (match rd (S (S (S (S (S O))))) r with
             | Some p0 ->
               let (v, r1) = p0 in
               (match rd_lengths_sparse k r1 with
                | Some p1 ->
                  let (l, r2) = p1 in Some (((Z.add v (Zpos XH)) :: l), r2)
                | None -> None)
             | None -> None)
       else (match rd_lengths_sparse k r with
             | Some p0 -> let (l, r2) = p0 in Some ((Z0 :: l), r2)
             | None -> None)
     | None -> None)

(** val rd_ordered : nat -> z -> z -> z -> bits -> (z list * bits) option **)

let rec rd_ordered fuel entries i length0 bs =
  match fuel with
  | O -> None
  | S f ->
    if Z.geb i entries
    then Some ([], bs)
    else (match rd (ilogn (Z.sub entries i)) bs with
          | Some p ->
            let (num, r) = p in
            if (||)
                 ((||) (Z.gtb length0 (Zpos (XO (XO (XO (XO (XO XH)))))))
                   (Z.gtb num (Z.sub entries i)))
                 ((&&) (Z.gtb num Z0)
                   (Z.gtb
                     (Z.shiftr (Z.sub num (Zpos XH))
                       (Z.sub length0 (Zpos XH))) (Zpos XH)))
            then None
            else (match rd_ordered f entries (Z.add i num)
                          (Z.add length0 (Zpos XH)) r with
                  | Some p0 ->
                    let (l, r2) = p0 in
                    Some ((app (repeat length0 (Z.to_nat num)) l), r2)
                  | None -> None)
          | None -> None)

(** val unpack_book : bits -> (book * bits) option **)

let unpack_book bs =
  match rd (S (S (S (S (S (S (S (S (S (S (S (S (S (S (S (S (S (S (S (S (S (S
          (S (S O)))))))))))))))))))))))) bs with
  | Some p ->
    let (sync, r0) = p in
    if negb
         (Z.eqb sync (Zpos (XO (XI (XO (XO (XO (XO (XI (XO (XI (XI (XO (XO
           (XO (XO (XI (XO (XO (XI (XI (XO (XI (XO XH))))))))))))))))))))))))
    then None
    else (match rd (S (S (S (S (S (S (S (S (S (S (S (S (S (S (S (S
                  O)))))))))))))))) r0 with
          | Some p0 ->
            let (dim, r1) = p0 in
            (match rd (S (S (S (S (S (S (S (S (S (S (S (S (S (S (S (S (S (S
                     (S (S (S (S (S (S O)))))))))))))))))))))))) r1 with
             | Some p1 ->
               let (entries, r2) = p1 in
               if Z.gtb (Z.add (ilog dim) (ilog entries)) (Zpos (XO (XO (XO
                    (XI XH)))))
               then None
               else (match rd (S O) r2 with
                     | Some p2 ->
                       let (ordered, r3) = p2 in
                       (match if Z.eqb ordered Z0
                              then (match rd (S O) r3 with
                                    | Some p3 ->
                                      let (unused, r) = p3 in
                                      if Z.gtb
                                           (Z.div
                                             (Z.add
                                               (Z.mul entries
                                                 (if Z.eqb unused (Zpos XH)
                                                  then Zpos XH
                                                  else Zpos (XI (XO XH))))
                                               (Zpos (XI (XI XH)))) (Zpos (XO
                                             (XO (XO XH))))) (bytes_left r)
                                      then None
                                      else if Z.eqb unused (Zpos XH)
                                           then rd_lengths_sparse
                                                  (Z.to_nat entries) r
                                           else (match rd_list
                                                         (Z.to_nat entries)
                                                         (S (S (S (S (S
                                                         O))))) r with
                                                 | Some p4 ->
                                                   let (l, r') = p4 in
                                                   Some
                                                   ((map (fun x ->
                                                      Z.add x (Zpos XH)) l),
                                                   r')
                                                 | None -> None)
                                    | None -> None)
                              else (match rd (S (S (S (S (S O))))) r3 with
                                    | Some p3 ->
                                      let (l0, r) = p3 in
                                      rd_ordered (S (S (S (S (S (S (S (S (S
                                        (S (S (S (S (S (S (S (S (S (S (S (S
                                        (S (S (S (S (S (S (S (S (S (S (S (S
                                        (S (S (S (S (S (S (S
                                        O))))))))))))))))))))))))))))))))))))))))
                                        entries Z0 (Z.add l0 (Zpos XH)) r
                                    | None -> None) with
                        | Some p3 ->
                          let (lens, r4) = p3 in
                          (match rd (S (S (S (S O)))) r4 with
                           | Some p4 ->
                             let (maptype, r5) = p4 in
                             if Z.eqb maptype Z0
                             then Some ({ b_dim = dim; b_entries = entries;
                                    b_lengths = lens; b_maptype = Z0;
                                    b_qmin = Z0; b_qdelta = Z0; b_qquant =
                                    Z0; b_qseq = Z0; b_quantlist = [] }, r5)
                             else if (||) (Z.eqb maptype (Zpos XH))
                                       (Z.eqb maptype (Zpos (XO XH)))
                                  then (match rd (S (S (S (S (S (S (S (S (S
                                                (S (S (S (S (S (S (S (S (S (S
                                                (S (S (S (S (S (S (S (S (S (S
                                                (S (S (S
                                                O))))))))))))))))))))))))))))))))
                                                r5 with
                                        | Some p5 ->
                                          let (qmin, r6) = p5 in
                                          (match rd (S (S (S (S (S (S (S (S
                                                   (S (S (S (S (S (S (S (S (S
                                                   (S (S (S (S (S (S (S (S (S
                                                   (S (S (S (S (S (S
                                                   O))))))))))))))))))))))))))))))))
                                                   r6 with
                                           | Some p6 ->
                                             let (qdelta, r7) = p6 in
                                             (match rd (S (S (S (S O)))) r7 with
                                              | Some p7 ->
                                                let (qq, r8) = p7 in
                                                (match rd (S O) r8 with
                                                 | Some p8 ->
                                                   let (qseq, r9) = p8 in
                                                   let quantvals =
                                                     if Z.eqb maptype (Zpos
                                                          XH)
                                                     then if Z.eqb dim Z0
                                                          then Z0
                                                          else quantvals1
                                                                 entries dim
                                                     else Z.mul entries dim
                                                   in
                                                   if Z.gtb
                                                        (Z.div
                                                          (Z.add
                                                            (Z.mul quantvals
                                                              (Z.add qq (Zpos
                                                                XH))) (Zpos
                                                            (XI (XI XH))))
                                                          (Zpos (XO (XO (XO
                                                          XH)))))
                                                        (bytes_left r9)
                                                   then None
                                                   else (match rd_list
                                                                 (Z.to_nat
                                                                   quantvals)
                                                                 (Z.to_nat
                                                                   (Z.add qq
                                                                    (Zpos XH)))
                                                                 r9 with
                                                         | Some p9 ->
                                                           let (ql, r10) = p9
                                                           in
                                                           Some ({ b_dim =
                                                           dim; b_entries =
                                                           entries;
                                                           b_lengths = lens;
                                                           b_maptype =
                                                           maptype; b_qmin =
                                                           qmin; b_qdelta =
                                                           qdelta; b_qquant =
                                                           (Z.add qq (Zpos
                                                             XH)); b_qseq =
                                                           qseq;
                                                           b_quantlist =
                                                           ql }, r10)
                                                         | None -> None)
                                                 | None -> None)
                                              | None -> None)
                                           | None -> None)
                                        | None -> None)
                                  else None
                           | None -> None)
                        | None -> None)
                     | None -> None)
             | None -> None)
          | None -> None)
  | None -> None

type fclass = { c_dim : z; c_subs : z; c_book : z; c_subbook : z list }

type floor =
| Floor0 of z * z * z * z * z * z list
| Floor1 of z list * fclass list * z * z * z list

(** val bk : book list -> z -> book **)

let bk books i =
  nth (Z.to_nat i) books { b_dim = Z0; b_entries = Z0; b_lengths = [];
    b_maptype = Z0; b_qmin = Z0; b_qdelta = Z0; b_qquant = Z0; b_qseq = Z0;
    b_quantlist = [] }

(** val nbooks : book list -> z **)

let nbooks books =
  Z.of_nat (length books)

(** val rd_floor0_books :
    nat -> book list -> bits -> (z list * bits) option **)

let rec rd_floor0_books n0 books bs =
  match n0 with
  | O -> Some ([], bs)
  | S k ->
    (match rd (S (S (S (S (S (S (S (S O)))))))) bs with
     | Some p ->
       let (b, r) = p in
       if (||)
            ((||) (Z.geb b (nbooks books)) (Z.eqb (bk books b).b_maptype Z0))
            (Z.ltb (bk books b).b_dim (Zpos XH))
       then None
       else (match rd_floor0_books k books r with
             | Some p0 -> let (l, r2) = p0 in Some ((b :: l), r2)
             | None -> None)
     | None -> None)

(** val unpack_floor0 : book list -> bits -> (floor * bits) option **)

let unpack_floor0 books bs =
  match rd (S (S (S (S (S (S (S (S O)))))))) bs with
  | Some p ->
    let (order, r1) = p in
    (match rd (S (S (S (S (S (S (S (S (S (S (S (S (S (S (S (S
             O)))))))))))))))) r1 with
     | Some p0 ->
       let (rate, r2) = p0 in
       (match rd (S (S (S (S (S (S (S (S (S (S (S (S (S (S (S (S
                O)))))))))))))))) r2 with
        | Some p1 ->
          let (barkmap, r3) = p1 in
          (match rd (S (S (S (S (S (S O)))))) r3 with
           | Some p2 ->
             let (ampbits, r4) = p2 in
             (match rd (S (S (S (S (S (S (S (S O)))))))) r4 with
              | Some p3 ->
                let (ampdB, r5) = p3 in
                (match rd (S (S (S (S O)))) r5 with
                 | Some p4 ->
                   let (nb, r6) = p4 in
                   if (||)
                        ((||) (Z.ltb order (Zpos XH)) (Z.ltb rate (Zpos XH)))
                        (Z.ltb barkmap (Zpos XH))
                   then None
                   else (match rd_floor0_books
                                 (Z.to_nat (Z.add nb (Zpos XH))) books r6 with
                         | Some p5 ->
                           let (bl, r7) = p5 in
                           Some ((Floor0 (order, rate, barkmap, ampbits,
                           ampdB, bl)), r7)
                         | None -> None)
                 | None -> None)
              | None -> None)
           | None -> None)
        | None -> None)
     | None -> None)
  | None -> None

(** val rd_subbooks : nat -> z -> bits -> (z list * bits) option **)

let rec rd_subbooks n0 nb bs =
  match n0 with
  | O -> Some ([], bs)
  | S k ->
    (match rd (S (S (S (S (S (S (S (S O)))))))) bs with
     | Some p ->
       let (v, r) = p in
       if Z.geb (Z.sub v (Zpos XH)) nb
       then None
       else (match rd_subbooks k nb r with
             | Some p0 ->
               let (l, r2) = p0 in Some (((Z.sub v (Zpos XH)) :: l), r2)
             | None -> None)
     | None -> None)

(** val rd_classes : nat -> z -> bits -> (fclass list * bits) option **)

let rec rd_classes n0 nb bs =
  match n0 with
  | O -> Some ([], bs)
  | S k ->
    (match rd (S (S (S O))) bs with
     | Some p ->
       let (d, r1) = p in
       (match rd (S (S O)) r1 with
        | Some p0 ->
          let (subs, r2) = p0 in
          (match if Z.eqb subs Z0
                 then Some (Z0, r2)
                 else rd (S (S (S (S (S (S (S (S O)))))))) r2 with
           | Some p1 ->
             let (cb, r3) = p1 in
             if Z.geb cb nb
             then None
             else (match rd_subbooks (Z.to_nat (Z.pow (Zpos (XO XH)) subs))
                           nb r3 with
                   | Some p2 ->
                     let (sb, r4) = p2 in
                     (match rd_classes k nb r4 with
                      | Some p3 ->
                        let (l, r5) = p3 in
                        Some (({ c_dim = (Z.add d (Zpos XH)); c_subs = subs;
                        c_book = cb; c_subbook = sb } :: l), r5)
                      | None -> None)
                   | None -> None)
           | None -> None)
        | None -> None)
     | None -> None)

(** val cls : fclass list -> z -> fclass **)

let cls classes i =
  nth (Z.to_nat i) classes { c_dim = Z0; c_subs = Z0; c_book = Z0;
    c_subbook = [] }

(** val rd_posts :
    z list -> fclass list -> nat -> z -> bits -> (z list * bits) option **)

let rec rd_posts pc classes rangebits count bs =
  match pc with
  | [] -> Some ([], bs)
  | c :: rest ->
    let count' = Z.add count (cls classes c).c_dim in
    if Z.gtb count' vIF_POSIT
    then None
    else (match rd_list (Z.to_nat (cls classes c).c_dim) rangebits bs with
          | Some p ->
            let (l, r) = p in
            (match rd_posts rest classes rangebits count' r with
             | Some p0 -> let (l2, r2) = p0 in Some ((app l l2), r2)
             | None -> None)
          | None -> None)

(** val zmax_list : z list -> z -> z **)

let rec zmax_list l acc =
  match l with
  | [] -> acc
  | x :: r -> zmax_list r (Z.max acc x)

(** val zmem : z -> z list -> bool **)

let rec zmem x = function
| [] -> false
| y :: r -> (||) (Z.eqb x y) (zmem x r)

(** val nodupb : z list -> bool **)

let rec nodupb = function
| [] -> true
| x :: r -> (&&) (negb (zmem x r)) (nodupb r)

(** val unpack_floor1 : book list -> bits -> (floor * bits) option **)

let unpack_floor1 books bs =
  match rd (S (S (S (S (S O))))) bs with
  | Some p ->
    let (parts, r1) = p in
    (match rd_list (Z.to_nat parts) (S (S (S (S O)))) r1 with
     | Some p0 ->
       let (pc, r2) = p0 in
       let maxclass = zmax_list pc (Zneg XH) in
       (match rd_classes (Z.to_nat (Z.add maxclass (Zpos XH))) (nbooks books)
                r2 with
        | Some p1 ->
          let (classes, r3) = p1 in
          (match rd (S (S O)) r3 with
           | Some p2 ->
             let (mult, r4) = p2 in
             (match rd (S (S (S (S O)))) r4 with
              | Some p3 ->
                let (rangebits, r5) = p3 in
                (match rd_posts pc classes (Z.to_nat rangebits) Z0 r5 with
                 | Some p4 ->
                   let (posts, r6) = p4 in
                   if nodupb
                        (Z0 :: ((Z.pow (Zpos (XO XH)) rangebits) :: posts))
                   then Some ((Floor1 (pc, classes, (Z.add mult (Zpos XH)),
                          rangebits, posts)), r6)
                   else None
                 | None -> None)
              | None -> None)
           | None -> None)
        | None -> None)
     | None -> None)
  | None -> None

type residue = { r_type : z; r_begin : z; r_end : z; r_grouping : z;
                 r_partitions : z; r_groupbook : z; r_secondstages : 
                 z list; r_booklist : z list; r_partvals : z }

(** val icount_fuel : nat -> z -> z **)

let rec icount_fuel fuel v =
  match fuel with
  | O -> Z0
  | S f ->
    if Z.leb v Z0
    then Z0
    else Z.add (Z.modulo v (Zpos (XO XH)))
           (icount_fuel f (Z.div v (Zpos (XO XH))))

(** val icount : z -> z **)

let icount v =
  icount_fuel (S (S (S (S (S (S (S (S (S (S (S (S (S (S (S (S
    O)))))))))))))))) v

(** val rd_cascade : nat -> bits -> (z list * bits) option **)

let rec rd_cascade n0 bs =
  match n0 with
  | O -> Some ([], bs)
  | S k ->
    (match rd (S (S (S O))) bs with
     | Some p ->
       let (c, r1) = p in
       (match rd (S O) r1 with
        | Some p0 ->
          let (f, r2) = p0 in
          if Z.eqb f (Zpos XH)
          then (match rd (S (S (S (S (S O))))) r2 with
                | Some p1 ->
                  let (c5, r) = p1 in
                  let p2 = ((Z.add c (Z.mul c5 (Zpos (XO (XO (XO XH)))))), r)
                  in
                  let (cc, r3) = p2 in
                  (match rd_cascade k r3 with
                   | Some p3 -> let (l, r4) = p3 in Some ((cc :: l), r4)
                   | None -> None)
                | None -> None)
          else let p1 = (c, r2) in
               let (cc, r3) = p1 in
               (match rd_cascade k r3 with
                | Some p2 -> let (l, r4) = p2 in Some ((cc :: l), r4)
                | None -> None)
        | None -> None)
     | None -> None)

(** val partvals_fuel : nat -> z -> z -> z -> z -> z option **)

let rec partvals_fuel fuel dim partitions entries acc =
  match fuel with
  | O -> None
  | S f ->
    if Z.leb dim Z0
    then Some acc
    else let acc' = Z.mul acc partitions in
         if Z.gtb acc' entries
         then None
         else partvals_fuel f (Z.sub dim (Zpos XH)) partitions entries acc'

(** val unpack_residue : z -> book list -> bits -> (residue * bits) option **)

let unpack_residue rtype books bs =
  match rd (S (S (S (S (S (S (S (S (S (S (S (S (S (S (S (S (S (S (S (S (S (S
          (S (S O)))))))))))))))))))))))) bs with
  | Some p ->
    let (begin0, r1) = p in
    (match rd (S (S (S (S (S (S (S (S (S (S (S (S (S (S (S (S (S (S (S (S (S
             (S (S (S O)))))))))))))))))))))))) r1 with
     | Some p0 ->
       let (end_, r2) = p0 in
       (match rd (S (S (S (S (S (S (S (S (S (S (S (S (S (S (S (S (S (S (S (S
                (S (S (S (S O)))))))))))))))))))))))) r2 with
        | Some p1 ->
          let (grouping, r3) = p1 in
          (match rd (S (S (S (S (S (S O)))))) r3 with
           | Some p2 ->
             let (parts, r4) = p2 in
             (match rd (S (S (S (S (S (S (S (S O)))))))) r4 with
              | Some p3 ->
                let (groupbook, r5) = p3 in
                (match rd_cascade (Z.to_nat (Z.add parts (Zpos XH))) r5 with
                 | Some p4 ->
                   let (casc, r6) = p4 in
                   let acc = fold_left (fun a c -> Z.add a (icount c)) casc Z0
                   in
                   (match rd_list (Z.to_nat acc) (S (S (S (S (S (S (S (S
                            O)))))))) r6 with
                    | Some p5 ->
                      let (bl, r7) = p5 in
                      if Z.geb groupbook (nbooks books)
                      then None
                      else if existsb (fun b ->
                                (||)
                                  ((||) (Z.geb b (nbooks books))
                                    (Z.eqb (bk books b).b_maptype Z0))
                                  (Z.ltb (bk books b).b_dim (Zpos XH))) bl
                           then None
                           else let gb = bk books groupbook in
                                if Z.ltb gb.b_dim (Zpos XH)
                                then None
                                else (match if Z.eqb (Z.add parts (Zpos XH))
                                                 (Zpos XH)
                                            then Some (Zpos XH)
                                            else partvals_fuel (S (S (S (S (S
                                                   (S (S (S (S (S (S (S (S (S
                                                   (S (S (S (S (S (S (S (S (S
                                                   (S (S (S (S (S (S (S
                                                   O))))))))))))))))))))))))))))))
                                                   gb.b_dim
                                                   (Z.add parts (Zpos XH))
                                                   gb.b_entries (Zpos XH) with
                                      | Some pv ->
                                        if (&&)
                                             (Z.eqb (Z.add parts (Zpos XH))
                                               (Zpos XH))
                                             (Z.gtb (Zpos XH) gb.b_entries)
                                        then None
                                        else Some ({ r_type = rtype;
                                               r_begin = begin0; r_end =
                                               end_; r_grouping =
                                               (Z.add grouping (Zpos XH));
                                               r_partitions =
                                               (Z.add parts (Zpos XH));
                                               r_groupbook = groupbook;
                                               r_secondstages = casc;
                                               r_booklist = bl; r_partvals =
                                               pv }, r7)
                                      | None -> None)
                    | None -> None)
                 | None -> None)
              | None -> None)
           | None -> None)
        | None -> None)
     | None -> None)
  | None -> None

type mapping = { m_submaps : z; m_coupling : (z * z) list; m_mux : z list;
                 m_floor : z list; m_residue : z list }

type mode = { md_blockflag : z; md_mapping : z }

(** val rd_coupling : nat -> z -> bits -> ((z * z) list * bits) option **)

let rec rd_coupling n0 channels bs =
  match n0 with
  | O -> Some ([], bs)
  | S k ->
    (match rd (ilogn (Z.sub channels (Zpos XH))) bs with
     | Some p ->
       let (m, r1) = p in
       (match rd (ilogn (Z.sub channels (Zpos XH))) r1 with
        | Some p0 ->
          let (a, r2) = p0 in
          if (||) ((||) (Z.eqb m a) (Z.geb m channels)) (Z.geb a channels)
          then None
          else (match rd_coupling k channels r2 with
                | Some p1 -> let (l, r3) = p1 in Some (((m, a) :: l), r3)
                | None -> None)
        | None -> None)
     | None -> None)

(** val rd_mux : nat -> z -> bits -> (z list * bits) option **)

let rec rd_mux n0 submaps bs =
  match n0 with
  | O -> Some ([], bs)
  | S k ->
    (match rd (S (S (S (S O)))) bs with
     | Some p ->
       let (v, r) = p in
       if Z.geb v submaps
       then None
       else (match rd_mux k submaps r with
             | Some p0 -> let (l, r2) = p0 in Some ((v :: l), r2)
             | None -> None)
     | None -> None)

(** val rd_submaps : nat -> z -> z -> bits -> ((z * z) list * bits) option **)

let rec rd_submaps n0 floors residues bs =
  match n0 with
  | O -> Some ([], bs)
  | S k ->
    (match rd (S (S (S (S (S (S (S (S O)))))))) bs with
     | Some p ->
       let (_, r0) = p in
       (match rd (S (S (S (S (S (S (S (S O)))))))) r0 with
        | Some p0 ->
          let (f, r1) = p0 in
          if Z.geb f floors
          then None
          else (match rd (S (S (S (S (S (S (S (S O)))))))) r1 with
                | Some p1 ->
                  let (rs, r2) = p1 in
                  if Z.geb rs residues
                  then None
                  else (match rd_submaps k floors residues r2 with
                        | Some p2 ->
                          let (l, r3) = p2 in Some (((f, rs) :: l), r3)
                        | None -> None)
                | None -> None)
        | None -> None)
     | None -> None)

(** val unpack_mapping : z -> z -> z -> bits -> (mapping * bits) option **)

let unpack_mapping channels floors residues bs =
  if Z.leb channels Z0
  then None
  else (match rd (S O) bs with
        | Some p ->
          let (b1, r1) = p in
          if Z.eqb b1 (Zpos XH)
          then (match rd (S (S (S (S O)))) r1 with
                | Some p0 ->
                  let (s, r) = p0 in
                  let p1 = ((Z.add s (Zpos XH)), r) in
                  let (submaps, r2) = p1 in
                  (match rd (S O) r2 with
                   | Some p2 ->
                     let (b2, r3) = p2 in
                     (match if Z.eqb b2 (Zpos XH)
                            then (match rd (S (S (S (S (S (S (S (S O))))))))
                                          r3 with
                                  | Some p3 ->
                                    let (s0, r0) = p3 in
                                    rd_coupling
                                      (Z.to_nat (Z.add s0 (Zpos XH)))
                                      channels r0
                                  | None -> None)
                            else Some ([], r3) with
                      | Some p3 ->
                        let (coupling, r4) = p3 in
                        (match rd (S (S O)) r4 with
                         | Some p4 ->
                           let (reserved, r5) = p4 in
                           if negb (Z.eqb reserved Z0)
                           then None
                           else (match if Z.gtb submaps (Zpos XH)
                                       then rd_mux (Z.to_nat channels)
                                              submaps r5
                                       else Some
                                              ((repeat Z0 (Z.to_nat channels)),
                                              r5) with
                                 | Some p5 ->
                                   let (mux, r6) = p5 in
                                   (match rd_submaps (Z.to_nat submaps)
                                            floors residues r6 with
                                    | Some p6 ->
                                      let (subs, r7) = p6 in
                                      Some ({ m_submaps = submaps;
                                      m_coupling = coupling; m_mux = mux;
                                      m_floor = (map fst subs); m_residue =
                                      (map snd subs) }, r7)
                                    | None -> None)
                                 | None -> None)
                         | None -> None)
                      | None -> None)
                   | None -> None)
                | None -> None)
          else let p0 = ((Zpos XH), r1) in
               let (submaps, r2) = p0 in
               (match rd (S O) r2 with
                | Some p1 ->
                  let (b2, r3) = p1 in
                  (match if Z.eqb b2 (Zpos XH)
                         then (match rd (S (S (S (S (S (S (S (S O)))))))) r3 with
                               | Some p2 ->
                                 let (s, r) = p2 in
                                 rd_coupling (Z.to_nat (Z.add s (Zpos XH)))
                                   channels r
                               | None -> None)
                         else Some ([], r3) with
                   | Some p2 ->
                     let (coupling, r4) = p2 in
                     (match rd (S (S O)) r4 with
                      | Some p3 ->
                        let (reserved, r5) = p3 in
                        if negb (Z.eqb reserved Z0)
                        then None
                        else (match if Z.gtb submaps (Zpos XH)
                                    then rd_mux (Z.to_nat channels) submaps r5
                                    else Some
                                           ((repeat Z0 (Z.to_nat channels)),
                                           r5) with
                              | Some p4 ->
                                let (mux, r6) = p4 in
                                (match rd_submaps (Z.to_nat submaps) floors
                                         residues r6 with
                                 | Some p5 ->
                                   let (subs, r7) = p5 in
                                   Some ({ m_submaps = submaps; m_coupling =
                                   coupling; m_mux = mux; m_floor =
                                   (map fst subs); m_residue =
                                   (map snd subs) }, r7)
                                 | None -> None)
                              | None -> None)
                      | None -> None)
                   | None -> None)
                | None -> None)
        | None -> None)

type setup = { s_books : book list; s_floors : floor list;
               s_residues : residue list; s_maps : mapping list;
               s_modes : mode list }

(** val rd_books : nat -> bits -> (book list * bits) option **)

let rec rd_books n0 bs =
  match n0 with
  | O -> Some ([], bs)
  | S k ->
    (match unpack_book bs with
     | Some p ->
       let (b, r) = p in
       (match rd_books k r with
        | Some p0 -> let (l, r2) = p0 in Some ((b :: l), r2)
        | None -> None)
     | None -> None)

(** val rd_times : nat -> bits -> (unit * bits) option **)

let rec rd_times n0 bs =
  match n0 with
  | O -> Some ((), bs)
  | S k ->
    (match rd (S (S (S (S (S (S (S (S (S (S (S (S (S (S (S (S
             O)))))))))))))))) bs with
     | Some p ->
       let (t, r) = p in if Z.geb t vI_TIMEB then None else rd_times k r
     | None -> None)

(** val rd_floors : nat -> book list -> bits -> (floor list * bits) option **)

let rec rd_floors n0 books bs =
  match n0 with
  | O -> Some ([], bs)
  | S k ->
    (match rd (S (S (S (S (S (S (S (S (S (S (S (S (S (S (S (S
             O)))))))))))))))) bs with
     | Some p ->
       let (t, r) = p in
       if Z.geb t vI_FLOORB
       then None
       else (match if Z.eqb t Z0
                   then unpack_floor0 books r
                   else unpack_floor1 books r with
             | Some p0 ->
               let (f, r1) = p0 in
               (match rd_floors k books r1 with
                | Some p1 -> let (l, r2) = p1 in Some ((f :: l), r2)
                | None -> None)
             | None -> None)
     | None -> None)

(** val rd_residues :
    nat -> book list -> bits -> (residue list * bits) option **)

let rec rd_residues n0 books bs =
  match n0 with
  | O -> Some ([], bs)
  | S k ->
    (match rd (S (S (S (S (S (S (S (S (S (S (S (S (S (S (S (S
             O)))))))))))))))) bs with
     | Some p ->
       let (t, r) = p in
       if Z.geb t vI_RESB
       then None
       else (match unpack_residue t books r with
             | Some p0 ->
               let (x, r1) = p0 in
               (match rd_residues k books r1 with
                | Some p1 -> let (l, r2) = p1 in Some ((x :: l), r2)
                | None -> None)
             | None -> None)
     | None -> None)

(** val rd_maps :
    nat -> z -> z -> z -> bits -> (mapping list * bits) option **)

let rec rd_maps n0 channels floors residues bs =
  match n0 with
  | O -> Some ([], bs)
  | S k ->
    (match rd (S (S (S (S (S (S (S (S (S (S (S (S (S (S (S (S
             O)))))))))))))))) bs with
     | Some p ->
       let (t, r) = p in
       if Z.geb t vI_MAPB
       then None
       else (match unpack_mapping channels floors residues r with
             | Some p0 ->
               let (x, r1) = p0 in
               (match rd_maps k channels floors residues r1 with
                | Some p1 -> let (l, r2) = p1 in Some ((x :: l), r2)
                | None -> None)
             | None -> None)
     | None -> None)

(** val rd_modes : nat -> z -> bits -> (mode list * bits) option **)

let rec rd_modes n0 maps bs =
  match n0 with
  | O -> Some ([], bs)
  | S k ->
    (match rd (S O) bs with
     | Some p ->
       let (bf, r1) = p in
       (match rd (S (S (S (S (S (S (S (S (S (S (S (S (S (S (S (S
                O)))))))))))))))) r1 with
        | Some p0 ->
          let (wt, r2) = p0 in
          (match rd (S (S (S (S (S (S (S (S (S (S (S (S (S (S (S (S
                   O)))))))))))))))) r2 with
           | Some p1 ->
             let (tt_, r3) = p1 in
             (match rd (S (S (S (S (S (S (S (S O)))))))) r3 with
              | Some p2 ->
                let (mp, r4) = p2 in
                if (||) ((||) (Z.geb wt (Zpos XH)) (Z.geb tt_ (Zpos XH)))
                     (Z.geb mp maps)
                then None
                else (match rd_modes k maps r4 with
                      | Some p3 ->
                        let (l, r5) = p3 in
                        Some (({ md_blockflag = bf; md_mapping = mp } :: l),
                        r5)
                      | None -> None)
              | None -> None)
           | None -> None)
        | None -> None)
     | None -> None)

(** val unpack_setup : z -> bits -> setup option **)

let unpack_setup channels bs =
  match rd (S (S (S (S (S (S (S (S O)))))))) bs with
  | Some p ->
    let (nb, r1) = p in
    (match rd_books (Z.to_nat (Z.add nb (Zpos XH))) r1 with
     | Some p0 ->
       let (books, r2) = p0 in
       (match rd (S (S (S (S (S (S O)))))) r2 with
        | Some p1 ->
          let (nt, r3) = p1 in
          (match rd_times (Z.to_nat (Z.add nt (Zpos XH))) r3 with
           | Some p2 ->
             let (_, r4) = p2 in
             (match rd (S (S (S (S (S (S O)))))) r4 with
              | Some p3 ->
                let (nf, r5) = p3 in
                (match rd_floors (Z.to_nat (Z.add nf (Zpos XH))) books r5 with
                 | Some p4 ->
                   let (floors, r6) = p4 in
                   (match rd (S (S (S (S (S (S O)))))) r6 with
                    | Some p5 ->
                      let (nr, r7) = p5 in
                      (match rd_residues (Z.to_nat (Z.add nr (Zpos XH)))
                               books r7 with
                       | Some p6 ->
                         let (residues, r8) = p6 in
                         (match rd (S (S (S (S (S (S O)))))) r8 with
                          | Some p7 ->
                            let (nm, r9) = p7 in
                            (match rd_maps (Z.to_nat (Z.add nm (Zpos XH)))
                                     channels (Z.of_nat (length floors))
                                     (Z.of_nat (length residues)) r9 with
                             | Some p8 ->
                               let (maps, r10) = p8 in
                               (match rd (S (S (S (S (S (S O)))))) r10 with
                                | Some p9 ->
                                  let (nmo, r11) = p9 in
                                  (match rd_modes
                                           (Z.to_nat (Z.add nmo (Zpos XH)))
                                           (Z.of_nat (length maps)) r11 with
                                   | Some p10 ->
                                     let (modes, r12) = p10 in
                                     (match rd (S O) r12 with
                                      | Some p11 ->
                                        let (fr, _) = p11 in
                                        if Z.eqb fr (Zpos XH)
                                        then Some { s_books = books;
                                               s_floors = floors;
                                               s_residues = residues;
                                               s_maps = maps; s_modes =
                                               modes }
                                        else None
                                      | None -> None)
                                   | None -> None)
                                | None -> None)
                             | None -> None)
                          | None -> None)
                       | None -> None)
                    | None -> None)
                 | None -> None)
              | None -> None)
           | None -> None)
        | None -> None)
     | None -> None)
  | None -> None

type ident = { i_channels : z; i_rate : z; i_upper : z; i_nominal : z;
               i_lower : z; i_bs0 : z; i_bs1 : z }

(** val s32 : z -> z **)

let s32 v =
  if Z.ltb v (Zpos (XO (XO (XO (XO (XO (XO (XO (XO (XO (XO (XO (XO (XO (XO
       (XO (XO (XO (XO (XO (XO (XO (XO (XO (XO (XO (XO (XO (XO (XO (XO (XO
       XH))))))))))))))))))))))))))))))))
  then v
  else Z.sub v (Zpos (XO (XO (XO (XO (XO (XO (XO (XO (XO (XO (XO (XO (XO (XO
         (XO (XO (XO (XO (XO (XO (XO (XO (XO (XO (XO (XO (XO (XO (XO (XO (XO
         (XO XH)))))))))))))))))))))))))))))))))

type hverdict =
| HOk
| HNotVorbis
| HBadHeader
| HVersion
| HFault

(** val unpack_ident : bits -> hverdict * ident option **)

let unpack_ident bs =
  match rd (S (S (S (S (S (S (S (S (S (S (S (S (S (S (S (S (S (S (S (S (S (S
          (S (S (S (S (S (S (S (S (S (S O)))))))))))))))))))))))))))))))) bs with
  | Some p ->
    let (ver, r0) = p in
    if negb (Z.eqb ver Z0)
    then (HVersion, None)
    else (match rd (S (S (S (S (S (S (S (S O)))))))) r0 with
          | Some p0 ->
            let (ch, r1) = p0 in
            (match rd (S (S (S (S (S (S (S (S (S (S (S (S (S (S (S (S (S (S
                     (S (S (S (S (S (S (S (S (S (S (S (S (S (S
                     O)))))))))))))))))))))))))))))))) r1 with
             | Some p1 ->
               let (rate, r2) = p1 in
               (match rd (S (S (S (S (S (S (S (S (S (S (S (S (S (S (S (S (S
                        (S (S (S (S (S (S (S (S (S (S (S (S (S (S (S
                        O)))))))))))))))))))))))))))))))) r2 with
                | Some p2 ->
                  let (up, r3) = p2 in
                  (match rd (S (S (S (S (S (S (S (S (S (S (S (S (S (S (S (S
                           (S (S (S (S (S (S (S (S (S (S (S (S (S (S (S (S
                           O)))))))))))))))))))))))))))))))) r3 with
                   | Some p3 ->
                     let (nom, r4) = p3 in
                     (match rd (S (S (S (S (S (S (S (S (S (S (S (S (S (S (S
                              (S (S (S (S (S (S (S (S (S (S (S (S (S (S (S (S
                              (S O)))))))))))))))))))))))))))))))) r4 with
                      | Some p4 ->
                        let (lo, r5) = p4 in
                        (match rd (S (S (S (S O)))) r5 with
                         | Some p5 ->
                           let (b0, r6) = p5 in
                           (match rd (S (S (S (S O)))) r6 with
                            | Some p6 ->
                              let (b1, r7) = p6 in
                              (match rd (S O) r7 with
                               | Some p7 ->
                                 let (fr, r8) = p7 in
                                 if (||)
                                      ((||)
                                        ((||)
                                          ((||)
                                            ((||) (Z.ltb rate (Zpos XH))
                                              (Z.ltb ch (Zpos XH)))
                                            (Z.ltb (Z.pow (Zpos (XO XH)) b0)
                                              (Zpos (XO (XO (XO (XO (XO (XO
                                              XH)))))))))
                                          (Z.ltb (Z.pow (Zpos (XO XH)) b1)
                                            (Z.pow (Zpos (XO XH)) b0)))
                                        (Z.gtb (Z.pow (Zpos (XO XH)) b1)
                                          (Zpos (XO (XO (XO (XO (XO (XO (XO
                                          (XO (XO (XO (XO (XO (XO
                                          XH))))))))))))))))
                                      (negb (Z.eqb fr (Zpos XH)))
                                 then (HBadHeader, None)
                                 else let p8 = ({ i_channels = ch; i_rate =
                                        rate; i_upper = (s32 up); i_nominal =
                                        (s32 nom); i_lower = (s32 lo);
                                        i_bs0 = (Z.pow (Zpos (XO XH)) b0);
                                        i_bs1 = (Z.pow (Zpos (XO XH)) b1) },
                                        r8)
                                      in
                                      let (i, _) = p8 in (HOk, (Some i))
                               | None -> (HBadHeader, None))
                            | None -> (HBadHeader, None))
                         | None -> (HBadHeader, None))
                      | None -> (HBadHeader, None))
                   | None -> (HBadHeader, None))
                | None -> (HBadHeader, None))
             | None -> (HBadHeader, None))
          | None -> (HBadHeader, None))
  | None -> (HVersion, None)

type hstate = { h_cleared : bool; h_ident : ident option; h_comment : 
                bool; h_setup : setup option }

(** val h_init : hstate **)

let h_init =
  { h_cleared = false; h_ident = None; h_comment = false; h_setup = None }

(** val vorbis_str : n list **)

let vorbis_str =
  (Npos (XO (XI (XI (XO (XI (XI XH))))))) :: ((Npos (XI (XI (XI (XI (XO (XI
    XH))))))) :: ((Npos (XO (XI (XO (XO (XI (XI XH))))))) :: ((Npos (XO (XI
    (XO (XO (XO (XI XH))))))) :: ((Npos (XI (XO (XO (XI (XO (XI
    XH))))))) :: ((Npos (XI (XI (XO (XO (XI (XI XH))))))) :: [])))))

(** val headerin : hstate -> bool -> n list -> hverdict * hstate **)

let headerin s bos pkt0 =
  let bs = bits_of_bytes pkt0 in
  (match rd (S (S (S (S (S (S (S (S O)))))))) bs with
   | Some p ->
     let (ptype, r0) = p in
     if negb
          ((&&)
            (Nat.leb (S (S (S (S (S (S (S (S (S (S (S (S (S (S (S (S (S (S (S
              (S (S (S (S (S (S (S (S (S (S (S (S (S (S (S (S (S (S (S (S (S
              (S (S (S (S (S (S (S (S
              O)))))))))))))))))))))))))))))))))))))))))))))))) (length r0))
            (list_eqb (firstn (S (S (S (S (S (S O)))))) (skipn (S O) pkt0))
              vorbis_str))
     then (HNotVorbis, s)
     else let body =
            skipn (S (S (S (S (S (S (S (S (S (S (S (S (S (S (S (S (S (S (S (S
              (S (S (S (S (S (S (S (S (S (S (S (S (S (S (S (S (S (S (S (S (S
              (S (S (S (S (S (S (S
              O)))))))))))))))))))))))))))))))))))))))))))))))) r0
          in
          if Z.eqb ptype (Zpos XH)
          then if negb bos
               then (HBadHeader, s)
               else (match s.h_ident with
                     | Some _ -> (HBadHeader, s)
                     | None ->
                       if s.h_cleared
                       then (HFault, s)
                       else let (v, o) = unpack_ident body in
                            (match v with
                             | HOk ->
                               (match o with
                                | Some i ->
                                  (HOk, { h_cleared = false; h_ident = (Some
                                    i); h_comment = s.h_comment; h_setup =
                                    s.h_setup })
                                | None ->
                                  (v, { h_cleared = true; h_ident = None;
                                    h_comment = s.h_comment; h_setup = None }))
                             | HVersion -> (HVersion, s)
                             | _ ->
                               (v, { h_cleared = true; h_ident = None;
                                 h_comment = s.h_comment; h_setup = None })))
          else if Z.eqb ptype (Zpos (XI XH))
               then (match s.h_ident with
                     | Some _ ->
                       if s.h_comment
                       then (HBadHeader, s)
                       else (match headerin_comment pkt0 with
                             | Inl _ -> (HBadHeader, s)
                             | Inr _ ->
                               (HOk, { h_cleared = s.h_cleared; h_ident =
                                 s.h_ident; h_comment = true; h_setup =
                                 s.h_setup }))
                     | None -> (HBadHeader, s))
               else if Z.eqb ptype (Zpos (XI (XO XH)))
                    then (match s.h_ident with
                          | Some i ->
                            if negb s.h_comment
                            then (HBadHeader, s)
                            else if s.h_cleared
                                 then (HFault, s)
                                 else (match s.h_setup with
                                       | Some _ -> (HBadHeader, s)
                                       | None ->
                                         (match unpack_setup i.i_channels body with
                                          | Some st ->
                                            (HOk, { h_cleared = false;
                                              h_ident = s.h_ident;
                                              h_comment = true; h_setup =
                                              (Some st) })
                                          | None ->
                                            (HBadHeader, { h_cleared = true;
                                              h_ident = None; h_comment =
                                              s.h_comment; h_setup = None })))
                          | None -> (HBadHeader, s))
                    else (HBadHeader, s)
   | None -> (HNotVorbis, s))

(** val u32 : z -> z **)

let u32 x =
  Z.modulo x (Zpos (XO (XO (XO (XO (XO (XO (XO (XO (XO (XO (XO (XO (XO (XO
    (XO (XO (XO (XO (XO (XO (XO (XO (XO (XO (XO (XO (XO (XO (XO (XO (XO (XO
    XH)))))))))))))))))))))))))))))))))

(** val mget : z list -> z -> z **)

let mget mk j =
  nth (Z.to_nat j) mk Z0

(** val lset : 'a1 list -> nat -> 'a1 -> 'a1 list **)

let rec lset l j v =
  match l with
  | [] -> []
  | h :: t -> (match j with
               | O -> v :: t
               | S k -> h :: (lset t k v))

(** val mset : z list -> z -> z -> z list **)

let mset mk j v =
  lset mk (Z.to_nat j) (u32 v)

(** val mw_up : nat -> z list -> z -> z list **)

let rec mw_up fuel mk j =
  match fuel with
  | O -> mk
  | S f ->
    if Z.leb j Z0
    then mk
    else if Z.odd (mget mk j)
         then if Z.eqb j (Zpos XH)
              then mset mk (Zpos XH) (Z.add (mget mk (Zpos XH)) (Zpos XH))
              else mset mk j
                     (Z.mul (mget mk (Z.sub j (Zpos XH))) (Zpos (XO XH)))
         else mw_up f (mset mk j (Z.add (mget mk j) (Zpos XH)))
                (Z.sub j (Zpos XH))

(** val mw_prune : nat -> z list -> z -> z -> z list **)

let rec mw_prune fuel mk j entry =
  match fuel with
  | O -> mk
  | S f ->
    if Z.geb j (Zpos (XI (XO (XO (XO (XO XH))))))
    then mk
    else if Z.eqb (Z.div (mget mk j) (Zpos (XO XH))) entry
         then mw_prune f
                (mset mk j
                  (Z.mul (mget mk (Z.sub j (Zpos XH))) (Zpos (XO XH))))
                (Z.add j (Zpos XH)) (mget mk j)
         else mk

(** val mw_assign :
    z list -> z -> z list -> (((z * z) * z) list * z list) option **)

let rec mw_assign lens idx mk =
  match lens with
  | [] -> Some ([], mk)
  | l :: rest ->
    if Z.gtb l Z0
    then let entry = mget mk l in
         if (&&) (Z.ltb l (Zpos (XO (XO (XO (XO (XO XH)))))))
              (negb (Z.eqb (Z.shiftr entry l) Z0))
         then None
         else let mk1 =
                mw_up (S (S (S (S (S (S (S (S (S (S (S (S (S (S (S (S (S (S
                  (S (S (S (S (S (S (S (S (S (S (S (S (S (S (S (S (S (S (S (S
                  (S (S O)))))))))))))))))))))))))))))))))))))))) mk l
              in
              let mk2 =
                mw_prune (S (S (S (S (S (S (S (S (S (S (S (S (S (S (S (S (S
                  (S (S (S (S (S (S (S (S (S (S (S (S (S (S (S (S (S (S (S (S
                  (S (S (S O)))))))))))))))))))))))))))))))))))))))) mk1
                  (Z.add l (Zpos XH)) entry
              in
              (match mw_assign rest (Z.add idx (Zpos XH)) mk2 with
               | Some p ->
                 let (ws, mkf) = p in Some ((((idx, l), entry) :: ws), mkf)
               | None -> None)
    else mw_assign rest (Z.add idx (Zpos XH)) mk

(** val under_populated : nat -> z list -> z -> bool **)

let rec under_populated fuel mk i =
  match fuel with
  | O -> false
  | S f ->
    if Z.geb i (Zpos (XI (XO (XO (XO (XO XH))))))
    then false
    else if negb (Z.eqb (Z.modulo (mget mk i) (Z.pow (Zpos (XO XH)) i)) Z0)
         then true
         else under_populated f mk (Z.add i (Zpos XH))

(** val make_words : z list -> ((z * z) * z) list option **)

let make_words lens =
  match mw_assign lens Z0
          (repeat Z0 (S (S (S (S (S (S (S (S (S (S (S (S (S (S (S (S (S (S (S
            (S (S (S (S (S (S (S (S (S (S (S (S (S (S
            O)))))))))))))))))))))))))))))))))) with
  | Some p ->
    let (ws, mk) = p in
    if (&&) (Z.eqb (Z.of_nat (length ws)) (Zpos XH))
         (Z.eqb (mget mk (Zpos (XO XH))) (Zpos (XO XH)))
    then Some ws
    else if under_populated (S (S (S (S (S (S (S (S (S (S (S (S (S (S (S (S
              (S (S (S (S (S (S (S (S (S (S (S (S (S (S (S (S (S (S (S (S (S
              (S (S (S O)))))))))))))))))))))))))))))))))))))))) mk (Zpos XH)
         then None
         else Some ws
  | None -> None

type htree =
| HEmpty
| HLeaf of z
| HNode of htree * htree

(** val cw_bits : nat -> z -> bool list **)

let rec cw_bits len code =
  match len with
  | O -> []
  | S k -> (Z.testbit code (Z.of_nat k)) :: (cw_bits k code)

(** val hinsert : htree -> bool list -> z -> htree **)

let rec hinsert t bs e =
  match bs with
  | [] -> HLeaf e
  | b :: r ->
    (match t with
     | HNode (z0, o) ->
       if b then HNode (z0, (hinsert o r e)) else HNode ((hinsert z0 r e), o)
     | _ ->
       if b
       then HNode (HEmpty, (hinsert HEmpty r e))
       else HNode ((hinsert HEmpty r e), HEmpty))

(** val build_tree : ((z * z) * z) list -> htree **)

let build_tree ws =
  fold_left (fun t w ->
    let (y, c) = w in let (e, l) = y in hinsert t (cw_bits (Z.to_nat l) c) e)
    ws HEmpty

(** val hwalk : htree -> bits -> (z * bits) option **)

let rec hwalk t bs =
  match t with
  | HEmpty -> None
  | HLeaf e -> Some (e, bs)
  | HNode (z0, o) ->
    (match bs with
     | [] -> None
     | b :: r -> hwalk (if b then o else z0) r)

type dbook = { d_src : book; d_used : z; d_single : bool; d_first : z;
               d_tree : htree; d_qv : z; d_min : f32; d_delta : f32 }

(** val init_book : book -> dbook option **)

let init_book b =
  let used = Z.of_nat (length (filter (fun l -> Z.gtb l Z0) b.b_lengths)) in
  let mk = fun ws -> { d_src = b; d_used = used; d_single =
    ((&&) (Z.eqb used (Zpos XH)) (Z.eqb (zmax_list b.b_lengths Z0) (Zpos XH)));
    d_first =
    (match ws with
     | [] -> Z0
     | y :: _ -> let (y0, _) = y in let (e, _) = y0 in e); d_tree =
    (build_tree ws); d_qv =
    (if Z.eqb b.b_maptype (Zpos XH)
     then quantvals1 b.b_entries b.b_dim
     else Z0); d_min = (float32_unpack b.b_qmin); d_delta =
    (float32_unpack b.b_qdelta) }
  in
  if Z.eqb used Z0
  then Some (mk [])
  else (match make_words b.b_lengths with
        | Some ws -> Some (mk ws)
        | None -> None)

(** val book_decode : dbook -> bits -> z option * bits **)

let book_decode d bs =
  if Z.eqb d.d_used Z0
  then (None, bs)
  else if d.d_single
       then (match bs with
             | [] -> (None, [])
             | _ :: r -> ((Some d.d_first), r))
       else (match hwalk d.d_tree bs with
             | Some p -> let (e, r) = p in ((Some e), r)
             | None -> (None, []))

(** val unq : dbook -> nat -> z list -> f32 -> f32 list **)

let rec unq d k qs last0 =
  match k with
  | O -> []
  | S k' ->
    (match qs with
     | [] -> []
     | q :: rest ->
       let v =
         to32
           (fadd64 (fadd64 (fmul64 (of_int (Z.abs q)) d.d_delta) d.d_min)
             last0)
       in
       v :: (unq d k' rest
              (if Z.eqb d.d_src.b_qseq (Zpos XH) then v else last0)))

(** val lattice_idx : nat -> z -> z -> z -> z list **)

let rec lattice_idx k entry indexdiv qv =
  match k with
  | O -> []
  | S k' ->
    (Z.modulo (Z.div entry indexdiv) qv) :: (lattice_idx k' entry
                                              (Z.mul indexdiv qv) qv)

(** val book_vector : dbook -> z -> f32 list **)

let book_vector d entry =
  let b = d.d_src in
  let dim = Z.to_nat b.b_dim in
  if Z.eqb b.b_maptype (Zpos XH)
  then if Z.leb d.d_qv Z0
       then repeat fzero dim
       else unq d dim
              (map (fun i -> nth (Z.to_nat i) b.b_quantlist Z0)
                (lattice_idx dim entry (Zpos XH) d.d_qv)) fzero
  else if Z.eqb b.b_maptype (Zpos (XO XH))
       then unq d dim
              (firstn dim
                (skipn (Z.to_nat (Z.mul entry b.b_dim)) b.b_quantlist)) fzero
       else repeat fzero dim

(** val empty_book : book **)

let empty_book =
  { b_dim = Z0; b_entries = Z0; b_lengths = []; b_maptype = Z0; b_qmin = Z0;
    b_qdelta = Z0; b_qquant = Z0; b_qseq = Z0; b_quantlist = [] }

(** val empty_dbook : dbook **)

let empty_dbook =
  { d_src = empty_book; d_used = Z0; d_single = false; d_first = Z0; d_tree =
    HEmpty; d_qv = Z0; d_min = fzero; d_delta = fzero }

type dsetup = { ds_ident : ident; ds_setup : setup; ds_books : dbook list }

(** val init_books : book list -> dbook list option **)

let rec init_books = function
| [] -> Some []
| b :: r ->
  (match init_book b with
   | Some d ->
     (match init_books r with
      | Some l -> Some (d :: l)
      | None -> None)
   | None -> None)

(** val synthesis_init : ident -> setup -> dsetup option **)

let synthesis_init i s =
  match init_books s.s_books with
  | Some l -> Some { ds_ident = i; ds_setup = s; ds_books = l }
  | None -> None

(** val dbk : dsetup -> z -> dbook **)

let dbk ds i =
  nth (Z.to_nat i) ds.ds_books empty_dbook

type prd = bits * bool

(** val rdm : nat -> prd -> z * prd **)

let rdm w p =
  match rd w (fst p) with
  | Some p0 -> let (v, r) = p0 in (v, (r, (snd p)))
  | None -> ((Zneg XH), ([], true))

(** val bdec : dbook -> prd -> z option * prd **)

let bdec d p =
  let (o, r) = book_decode d (fst p) in (o, (r, (snd p)))

(** val zn : z list -> z -> z **)

let zn l i =
  nth (Z.to_nat i) l Z0

(** val f1_quantq : z -> z **)

let f1_quantq mult =
  if Z.eqb mult (Zpos XH)
  then Zpos (XO (XO (XO (XO (XO (XO (XO (XO XH))))))))
  else if Z.eqb mult (Zpos (XO XH))
       then Zpos (XO (XO (XO (XO (XO (XO (XO XH)))))))
       else if Z.eqb mult (Zpos (XI XH))
            then Zpos (XO (XI (XI (XO (XI (XO XH))))))
            else Zpos (XO (XO (XO (XO (XO (XO XH))))))

(** val neigh_scan : z list -> z -> z -> z -> z -> z -> z -> z * z **)

let rec neigh_scan pl j cur lo lx hi hx =
  match pl with
  | [] -> (lo, hi)
  | x :: r ->
    if (&&) (Z.gtb x lx) (Z.ltb x cur)
    then if (&&) (Z.ltb x hx) (Z.gtb x cur)
         then neigh_scan r (Z.add j (Zpos XH)) cur j x j x
         else neigh_scan r (Z.add j (Zpos XH)) cur j x hi hx
    else if (&&) (Z.ltb x hx) (Z.gtb x cur)
         then neigh_scan r (Z.add j (Zpos XH)) cur lo lx j x
         else neigh_scan r (Z.add j (Zpos XH)) cur lo lx hi hx

(** val neighbors : z list -> z -> z * z **)

let neighbors pl i =
  neigh_scan (firstn (Z.to_nat i) pl) Z0 (zn pl i) Z0 Z0 (Zpos XH)
    (zn pl (Zpos XH))

(** val render_point : z -> z -> z -> z -> z -> z **)

let render_point x0 x1 y0 y1 x =
  let y2 =
    Z.coq_land y0 (Zpos (XI (XI (XI (XI (XI (XI (XI (XI (XI (XI (XI (XI (XI
      (XI XH)))))))))))))))
  in
  let y3 =
    Z.coq_land y1 (Zpos (XI (XI (XI (XI (XI (XI (XI (XI (XI (XI (XI (XI (XI
      (XI XH)))))))))))))))
  in
  let dy = Z.sub y3 y2 in
  let adx = Z.sub x1 x0 in
  let off = Z.quot (Z.mul (Z.abs dy) (Z.sub x x0)) adx in
  if Z.ltb dy Z0 then Z.sub y2 off else Z.add y2 off

(** val f1_sub :
    dsetup -> fclass -> nat -> z -> prd -> z list option * prd **)

let rec f1_sub ds c k cval bs =
  match k with
  | O -> ((Some []), bs)
  | S k' ->
    let csub = Z.pow (Zpos (XO XH)) c.c_subs in
    let book0 =
      nth (Z.to_nat (Z.coq_land cval (Z.sub csub (Zpos XH)))) c.c_subbook
        (Zneg XH)
    in
    let cval' = Z.shiftr cval c.c_subs in
    if Z.geb book0 Z0
    then let (o, r) = bdec (dbk ds book0) bs in
         (match o with
          | Some v ->
            let (o0, r2) = f1_sub ds c k' cval' r in
            (match o0 with
             | Some l -> ((Some (v :: l)), r2)
             | None -> (None, r2))
          | None -> (None, r))
    else let (o, r2) = f1_sub ds c k' cval' bs in
         (match o with
          | Some l -> ((Some (Z0 :: l)), r2)
          | None -> (None, r2))

(** val f1_parts :
    dsetup -> fclass list -> z list -> prd -> z list option * prd **)

let rec f1_parts ds classes pc bs =
  match pc with
  | [] -> ((Some []), bs)
  | cl :: rest ->
    let c = cls classes cl in
    let (cv, r1) =
      if Z.eqb c.c_subs Z0 then ((Some Z0), bs) else bdec (dbk ds c.c_book) bs
    in
    (match cv with
     | Some cval ->
       let (o, r2) = f1_sub ds c (Z.to_nat c.c_dim) cval r1 in
       (match o with
        | Some l ->
          let (o0, r3) = f1_parts ds classes rest r2 in
          (match o0 with
           | Some l2 -> ((Some (app l l2)), r3)
           | None -> (None, r3))
        | None -> (None, r2))
     | None -> (None, r1))

(** val f1_unwrap : nat -> z list -> z -> z -> z list -> z list **)

let rec f1_unwrap fuel pl q i fit =
  match fuel with
  | O -> fit
  | S f ->
    if Z.geb i (Z.of_nat (length pl))
    then fit
    else let (lo, hi) = neighbors pl i in
         let predicted =
           render_point (zn pl lo) (zn pl hi) (zn fit lo) (zn fit hi)
             (zn pl i)
         in
         let hiroom = Z.sub q predicted in
         let room =
           Z.mul (if Z.ltb hiroom predicted then hiroom else predicted) (Zpos
             (XO XH))
         in
         let val0 = zn fit i in
         let fit' =
           if negb (Z.eqb val0 Z0)
           then let v =
                  if Z.geb val0 room
                  then if Z.gtb hiroom predicted
                       then Z.sub val0 predicted
                       else Z.sub (Zneg XH) (Z.sub val0 hiroom)
                  else if Z.odd val0
                       then Z.opp (Z.shiftr (Z.add val0 (Zpos XH)) (Zpos XH))
                       else Z.shiftr val0 (Zpos XH)
                in
                let f1 =
                  lset fit (Z.to_nat i)
                    (Z.coq_land (Z.add v predicted) (Zpos (XI (XI (XI (XI (XI
                      (XI (XI (XI (XI (XI (XI (XI (XI (XI XH))))))))))))))))
                in
                let f2 =
                  lset f1 (Z.to_nat lo)
                    (Z.coq_land (zn f1 lo) (Zpos (XI (XI (XI (XI (XI (XI (XI
                      (XI (XI (XI (XI (XI (XI (XI XH))))))))))))))))
                in
                lset f2 (Z.to_nat hi)
                  (Z.coq_land (zn f2 hi) (Zpos (XI (XI (XI (XI (XI (XI (XI
                    (XI (XI (XI (XI (XI (XI (XI XH))))))))))))))))
           else lset fit (Z.to_nat i)
                  (Z.coq_lor predicted (Zpos (XO (XO (XO (XO (XO (XO (XO (XO
                    (XO (XO (XO (XO (XO (XO (XO XH)))))))))))))))))
         in
         f1_unwrap f pl q (Z.add i (Zpos XH)) fit'

(** val floor1_inverse1 :
    dsetup -> z list -> fclass list -> z -> z -> z list -> prd -> z list
    option * prd **)

let floor1_inverse1 ds pc classes mult rangebits posts bs =
  let (flag, r0) = rdm (S O) bs in
  if negb (Z.eqb flag (Zpos XH))
  then (None, r0)
  else let q = f1_quantq mult in
       let w = ilogn (Z.sub q (Zpos XH)) in
       let (f0, r1) = rdm w r0 in
       let (f1, r2) = rdm w r1 in
       let (o, r3) = f1_parts ds classes pc r2 in
       (match o with
        | Some l ->
          let pl = Z0 :: ((Z.pow (Zpos (XO XH)) rangebits) :: posts) in
          ((Some
          (f1_unwrap (S (S (S (S (S (S (S (S (S (S (S (S (S (S (S (S (S (S (S
            (S (S (S (S (S (S (S (S (S (S (S (S (S (S (S (S (S (S (S (S (S (S
            (S (S (S (S (S (S (S (S (S (S (S (S (S (S (S (S (S (S (S (S (S (S
            (S (S (S (S (S (S (S
            O))))))))))))))))))))))))))))))))))))))))))))))))))))))))))))))))))))))
            pl q (Zpos (XO XH)) (f0 :: (f1 :: l)))), r3)
        | None -> (None, r3))

(** val line_ys : nat -> z -> z -> z -> z -> z -> z -> z list **)

let rec line_ys cnt y err ady adx base sy =
  match cnt with
  | O -> []
  | S c ->
    let err' = Z.add err ady in
    if Z.geb err' adx
    then let e2 = Z.sub err' adx in
         let y2 = Z.add y sy in y2 :: (line_ys c y2 e2 ady adx base sy)
    else let y2 = Z.add y base in y2 :: (line_ys c y2 err' ady adx base sy)

(** val render_line : z -> z -> z -> z -> z -> z list **)

let render_line n0 x0 x1 y0 y1 =
  let dy = Z.sub y1 y0 in
  let adx = Z.sub x1 x0 in
  let base = Z.quot dy adx in
  let sy = if Z.ltb dy Z0 then Z.sub base (Zpos XH) else Z.add base (Zpos XH)
  in
  let ady = Z.sub (Z.abs dy) (Z.abs (Z.mul base adx)) in
  let lim = if Z.gtb n0 x1 then x1 else n0 in
  if Z.ltb x0 lim
  then y0 :: (line_ys (Z.to_nat (Z.sub (Z.sub lim x0) (Zpos XH))) y0 Z0 ady
               adx base sy)
  else []

(** val clamp255 : z -> z **)

let clamp255 y =
  if Z.ltb y Z0
  then Z0
  else if Z.gtb y (Zpos (XI (XI (XI (XI (XI (XI (XI XH))))))))
       then Zpos (XI (XI (XI (XI (XI (XI (XI XH)))))))
       else y

(** val ins_by : z list -> z -> z list -> z list **)

let rec ins_by pl i l = match l with
| [] -> i :: []
| j :: r -> if Z.ltb (zn pl i) (zn pl j) then i :: l else j :: (ins_by pl i r)

(** val forward_index : z list -> z list **)

let forward_index pl =
  fold_left (fun acc i -> ins_by pl i acc) (map Z.of_nat (seq O (length pl)))
    []

(** val f1_lines :
    z -> z list -> z list -> z -> z list -> z -> z -> (z list * z) * z **)

let rec f1_lines n0 pl fit mult order lx ly =
  match order with
  | [] -> (([], lx), ly)
  | cur :: rest ->
    let hy =
      Z.coq_land (zn fit cur) (Zpos (XI (XI (XI (XI (XI (XI (XI (XI (XI (XI
        (XI (XI (XI (XI XH)))))))))))))))
    in
    if Z.eqb hy (zn fit cur)
    then let hx = zn pl cur in
         let hy' = clamp255 (Z.mul hy mult) in
         let seg = render_line n0 lx hx ly hy' in
         let (p, ly2) = f1_lines n0 pl fit mult rest hx hy' in
         let (l, lx2) = p in (((app seg l), lx2), ly2)
    else f1_lines n0 pl fit mult rest lx ly

(** val floor1_curve : z -> z -> z -> z list -> z list -> z list **)

let floor1_curve n0 mult rangebits posts fit =
  let pl = Z0 :: ((Z.pow (Zpos (XO XH)) rangebits) :: posts) in
  let ly0 = clamp255 (Z.mul (zn fit Z0) mult) in
  let (p, ly) = f1_lines n0 pl fit mult (tl (forward_index pl)) Z0 ly0 in
  let (l, _) = p in
  let l' = firstn (Z.to_nat n0) l in
  app l' (repeat ly (sub (Z.to_nat n0) (length l')))

(** val decodev_set :
    nat -> dbook -> z -> z -> prd -> f32 list option * prd **)

let rec decodev_set fuel d n0 i bs =
  match fuel with
  | O -> ((Some []), bs)
  | S f ->
    if Z.geb i n0
    then ((Some []), bs)
    else let (o, r) = bdec d bs in
         (match o with
          | Some e ->
            let t = firstn (Z.to_nat (Z.sub n0 i)) (book_vector d e) in
            let (o0, r2) =
              decodev_set f d n0 (Z.add i (Z.of_nat (length t))) r
            in
            (match o0 with
             | Some l -> ((Some (app t l)), r2)
             | None -> (None, r2))
          | None -> (None, r))

(** val lsp_accumulate : nat -> nat -> f32 list -> f32 -> f32 list **)

let rec lsp_accumulate fuel dim l last0 =
  match fuel with
  | O -> []
  | S f ->
    (match l with
     | [] -> []
     | _ :: _ ->
       let chunk = map (fun x -> fadd32 x last0) (firstn dim l) in
       app chunk (lsp_accumulate f dim (skipn dim l) (last chunk last0)))

type memo =
| MNone
| MFloor1 of z list
| MFloor0 of z * f32 list

(** val floor0_inverse1 : dsetup -> z -> z -> z list -> prd -> memo * prd **)

let floor0_inverse1 ds order ampbits books bs =
  if Z.gtb ampbits (Zpos (XO (XO (XO (XO (XO XH))))))
  then (MNone, ([], true))
  else let (ampraw0, r0) = rdm (Z.to_nat ampbits) bs in
       let ampraw =
         if Z.eqb ampbits (Zpos (XO (XO (XO (XO (XO XH))))))
         then s32 ampraw0
         else ampraw0
       in
       if Z.gtb ampraw Z0
       then let (booknum, r1) = rdm (ilogn (Z.of_nat (length books))) r0 in
            if (&&) (Z.geb booknum Z0)
                 (Z.ltb booknum (Z.of_nat (length books)))
            then let d = dbk ds (zn books booknum) in
                 if Z.eqb d.d_used Z0
                 then ((MFloor0 (ampraw, (repeat fzero (Z.to_nat order)))),
                        r1)
                 else let (o, r2) =
                        decodev_set (add (Z.to_nat order) (S O)) d order Z0 r1
                      in
                      (match o with
                       | Some l ->
                         ((MFloor0 (ampraw,
                           (lsp_accumulate (add (Z.to_nat order) (S O))
                             (Z.to_nat d.d_src.b_dim) l fzero))), r2)
                       | None -> (MNone, r2))
            else (MNone, r1)
       else (MNone, r0)

(** val floor_inverse1 : dsetup -> floor -> prd -> memo * prd **)

let floor_inverse1 ds f bs =
  match f with
  | Floor0 (order, _, _, ampbits, _, books) ->
    floor0_inverse1 ds order ampbits books bs
  | Floor1 (pc, classes, mult, rangebits, posts) ->
    let (o, r) = floor1_inverse1 ds pc classes mult rangebits posts bs in
    (match o with
     | Some fit -> ((MFloor1 fit), r)
     | None -> (MNone, r))

(** val add_at : nat -> f32 list -> f32 list -> f32 list **)

let rec add_at off vals vec =
  match off with
  | O ->
    (match vec with
     | [] -> []
     | x :: r ->
       (match vals with
        | [] -> vec
        | v :: vs -> (fadd32 x v) :: (add_at O vs r)))
  | S k -> (match vec with
            | [] -> []
            | x :: r -> x :: (add_at k vals r))

(** val decodev_add :
    nat -> dbook -> f32 list -> z -> z -> z -> prd -> (f32 list * prd) * bool **)

let rec decodev_add fuel d vec off n0 i bs =
  match fuel with
  | O -> ((vec, bs), true)
  | S f ->
    if Z.geb i n0
    then ((vec, bs), true)
    else let (o, r) = bdec d bs in
         (match o with
          | Some e ->
            let t = firstn (Z.to_nat (Z.sub n0 i)) (book_vector d e) in
            if Nat.eqb (length t) O
            then ((vec, r), true)
            else decodev_add f d (add_at (Z.to_nat (Z.add off i)) t vec) off
                   n0 (Z.add i (Z.of_nat (length t))) r
          | None -> ((vec, r), false))

(** val decode_n : nat -> dbook -> prd -> z list option * prd **)

let rec decode_n k d bs =
  match k with
  | O -> ((Some []), bs)
  | S k' ->
    let (o, r) = bdec d bs in
    (match o with
     | Some e ->
       let (o0, r2) = decode_n k' d r in
       (match o0 with
        | Some l -> ((Some (e :: l)), r2)
        | None -> (None, r2))
     | None -> (None, r))

(** val decodevs_add :
    dbook -> f32 list -> z -> z -> prd -> (f32 list * prd) * bool **)

let decodevs_add d vec off n0 bs =
  let dim = d.d_src.b_dim in
  let step = Z.quot n0 dim in
  let (o, r) = decode_n (Z.to_nat step) d bs in
  (match o with
   | Some es ->
     let ts = map (book_vector d) es in
     let vec' =
       fold_left (fun v i ->
         add_at (Z.to_nat (Z.add off (Z.mul (Z.of_nat i) step)))
           (firstn (Z.to_nat (Z.sub n0 (Z.mul (Z.of_nat i) step)))
             (map (fun t -> nth i t fzero) ts)) v) (seq O (Z.to_nat dim)) vec
     in
     ((vec', r), true)
   | None -> ((vec, r), false))

(** val vv_scatter :
    f32 list list -> z -> f32 list -> z -> z -> z -> (f32 list list * z) * z **)

let rec vv_scatter vecs ch t i chptr m =
  match t with
  | [] -> ((vecs, i), chptr)
  | x :: r ->
    if Z.geb i m
    then ((vecs, i), chptr)
    else let v = nth (Z.to_nat chptr) vecs [] in
         let vecs' =
           lset vecs (Z.to_nat chptr) (add_at (Z.to_nat i) (x :: []) v)
         in
         if Z.eqb (Z.add chptr (Zpos XH)) ch
         then vv_scatter vecs' ch r (Z.add i (Zpos XH)) Z0 m
         else vv_scatter vecs' ch r i (Z.add chptr (Zpos XH)) m

(** val decodevv_add :
    nat -> dbook -> f32 list list -> z -> z -> z -> z -> prd -> (f32 list
    list * prd) * bool **)

let rec decodevv_add fuel d vecs ch i chptr m bs =
  match fuel with
  | O -> ((vecs, bs), true)
  | S f ->
    if Z.geb i m
    then ((vecs, bs), true)
    else let (o, r) = bdec d bs in
         (match o with
          | Some e ->
            let t = book_vector d e in
            if Nat.eqb (length t) O
            then ((vecs, r), true)
            else let (p, chptr') = vv_scatter vecs ch t i chptr m in
                 let (vecs', i') = p in
                 decodevv_add f d vecs' ch i' chptr' m r
          | None -> ((vecs, r), false))

(** val stage_index : z list -> z -> z -> z -> z option **)

let rec stage_index ss c s acc =
  match ss with
  | [] -> None
  | x :: rest ->
    if Z.eqb c Z0
    then if Z.testbit x s
         then Some (Z.add acc (icount (Z.modulo x (Z.pow (Zpos (XO XH)) s))))
         else None
    else stage_index rest (Z.sub c (Zpos XH)) s (Z.add acc (icount x))

(** val res_stages : residue -> z **)

let res_stages r =
  zmax_list (map ilog r.r_secondstages) Z0

(** val pw_digit : residue -> z -> z -> z -> z **)

let pw_digit r dim temp k =
  Z.modulo
    (Z.div temp (Z.pow r.r_partitions (Z.sub (Z.sub dim (Zpos XH)) k)))
    r.r_partitions

type rstate = { rs_vecs : f32 list list; rs_bits : prd; rs_pw : z list list;
                rs_go : bool }

(** val r01_chan :
    dsetup -> residue -> z -> z -> z -> z -> z -> nat -> nat -> rstate ->
    rstate **)

let rec r01_chan ds r s dim i l k j nch st =
  match nch with
  | O -> st
  | S nch' ->
    if negb st.rs_go
    then st
    else let temp = nth (Z.to_nat l) (nth j st.rs_pw []) Z0 in
         let c = pw_digit r dim temp k in
         let st1 =
           if Z.testbit (zn r.r_secondstages c) s
           then (match stage_index r.r_secondstages c s Z0 with
                 | Some bi ->
                   let d = dbk ds (zn r.r_booklist bi) in
                   if Z.eqb d.d_used Z0
                   then st
                   else let vec = nth j st.rs_vecs [] in
                        let off = Z.add r.r_begin (Z.mul i r.r_grouping) in
                        let (p, ok) =
                          if Z.eqb r.r_type Z0
                          then decodevs_add d vec off r.r_grouping st.rs_bits
                          else decodev_add
                                 (add (Z.to_nat r.r_grouping) (S O)) d vec
                                 off r.r_grouping Z0 st.rs_bits
                        in
                        let (vec', bs') = p in
                        { rs_vecs = (lset st.rs_vecs j vec'); rs_bits = bs';
                        rs_pw = st.rs_pw; rs_go = ok }
                 | None -> st)
           else st
         in
         r01_chan ds r s dim i l k (S j) nch' st1

(** val r01_k :
    dsetup -> residue -> z -> z -> z -> nat -> z -> z -> z -> nat -> rstate
    -> rstate * z **)

let rec r01_k ds r s dim partvals nch i l k cnt st =
  match cnt with
  | O -> (st, i)
  | S c ->
    if (||) (negb st.rs_go) (Z.geb i partvals)
    then (st, i)
    else r01_k ds r s dim partvals nch (Z.add i (Zpos XH)) l
           (Z.add k (Zpos XH)) c (r01_chan ds r s dim i l k O nch st)

(** val r01_fetch : dsetup -> residue -> nat -> nat -> rstate -> rstate **)

let rec r01_fetch ds r nch j st =
  match nch with
  | O -> st
  | S n' ->
    if negb st.rs_go
    then st
    else let (o, b) = bdec (dbk ds r.r_groupbook) st.rs_bits in
         (match o with
          | Some temp ->
            if Z.geb temp r.r_partvals
            then { rs_vecs = st.rs_vecs; rs_bits = b; rs_pw = st.rs_pw;
                   rs_go = false }
            else r01_fetch ds r n' (S j) { rs_vecs = st.rs_vecs; rs_bits = b;
                   rs_pw =
                   (lset st.rs_pw j (app (nth j st.rs_pw []) (temp :: [])));
                   rs_go = true }
          | None ->
            { rs_vecs = st.rs_vecs; rs_bits = b; rs_pw = st.rs_pw; rs_go =
              false })

(** val r01_parts :
    nat -> dsetup -> residue -> z -> z -> z -> nat -> z -> z -> rstate ->
    rstate **)

let rec r01_parts fuel ds r s dim partvals nch i l st =
  match fuel with
  | O -> st
  | S f ->
    if (||) (negb st.rs_go) (Z.geb i partvals)
    then st
    else let st1 = if Z.eqb s Z0 then r01_fetch ds r nch O st else st in
         if negb st1.rs_go
         then st1
         else let (st2, i') =
                r01_k ds r s dim partvals nch i l Z0 (Z.to_nat dim) st1
              in
              r01_parts f ds r s dim partvals nch i' (Z.add l (Zpos XH)) st2

(** val r01_stages :
    dsetup -> residue -> z -> z -> nat -> z -> nat -> rstate -> rstate **)

let rec r01_stages ds r dim partvals nch s cnt st =
  match cnt with
  | O -> st
  | S c ->
    if negb st.rs_go
    then st
    else r01_stages ds r dim partvals nch (Z.add s (Zpos XH)) c
           (r01_parts (add (Z.to_nat partvals) (S O)) ds r s dim partvals nch
             Z0 Z0 st)

(** val res01_inverse :
    dsetup -> residue -> z -> f32 list list -> prd -> f32 list list * prd **)

let res01_inverse ds r halfn vecs bs =
  let nch = length vecs in
  let dim = (dbk ds r.r_groupbook).d_src.b_dim in
  let end_ = if Z.ltb r.r_end halfn then r.r_end else halfn in
  let n0 = Z.sub end_ r.r_begin in
  if (&&) (Z.gtb n0 Z0) (negb (Nat.eqb nch O))
  then let partvals = Z.quot n0 r.r_grouping in
       let st =
         r01_stages ds r dim partvals nch Z0 (Z.to_nat (res_stages r))
           { rs_vecs = vecs; rs_bits = bs; rs_pw = (repeat [] nch); rs_go =
           true }
       in
       (st.rs_vecs, st.rs_bits)
  else (vecs, bs)

(** val r2_k :
    dsetup -> residue -> z -> z -> z -> z -> z -> z -> z -> nat -> rstate ->
    rstate * z **)

let rec r2_k ds r s dim partvals ch i l k cnt st =
  match cnt with
  | O -> (st, i)
  | S c ->
    if (||) (negb st.rs_go) (Z.geb i partvals)
    then (st, i)
    else let temp = nth (Z.to_nat l) (nth O st.rs_pw []) Z0 in
         let cl = pw_digit r dim temp k in
         let st1 =
           if Z.testbit (zn r.r_secondstages cl) s
           then (match stage_index r.r_secondstages cl s Z0 with
                 | Some bi ->
                   let d = dbk ds (zn r.r_booklist bi) in
                   if Z.eqb d.d_used Z0
                   then st
                   else let off = Z.add (Z.mul i r.r_grouping) r.r_begin in
                        let (p, ok) =
                          decodevv_add
                            (Z.to_nat
                              (Z.add
                                (Z.mul
                                  (Z.add
                                    (Z.sub
                                      (Z.quot (Z.add off r.r_grouping) ch)
                                      (Z.quot off ch)) (Zpos XH)) ch) (Zpos
                                (XO XH)))) d st.rs_vecs ch (Z.quot off ch) Z0
                            (Z.quot (Z.add off r.r_grouping) ch) st.rs_bits
                        in
                        let (vecs', bs') = p in
                        { rs_vecs = vecs'; rs_bits = bs'; rs_pw = st.rs_pw;
                        rs_go = ok }
                 | None -> st)
           else st
         in
         r2_k ds r s dim partvals ch (Z.add i (Zpos XH)) l
           (Z.add k (Zpos XH)) c st1

(** val r2_parts :
    nat -> dsetup -> residue -> z -> z -> z -> z -> z -> z -> rstate -> rstate **)

let rec r2_parts fuel ds r s dim partvals ch i l st =
  match fuel with
  | O -> st
  | S f ->
    if (||) (negb st.rs_go) (Z.geb i partvals)
    then st
    else let st1 = if Z.eqb s Z0 then r01_fetch ds r (S O) O st else st in
         if negb st1.rs_go
         then st1
         else let (st2, i') =
                r2_k ds r s dim partvals ch i l Z0 (Z.to_nat dim) st1
              in
              r2_parts f ds r s dim partvals ch i' (Z.add l (Zpos XH)) st2

(** val r2_stages :
    dsetup -> residue -> z -> z -> z -> z -> nat -> rstate -> rstate **)

let rec r2_stages ds r dim partvals ch s cnt st =
  match cnt with
  | O -> st
  | S c ->
    if negb st.rs_go
    then st
    else r2_stages ds r dim partvals ch (Z.add s (Zpos XH)) c
           (r2_parts (add (Z.to_nat partvals) (S O)) ds r s dim partvals ch
             Z0 Z0 st)

(** val res2_inverse :
    dsetup -> residue -> z -> f32 list list -> bool list -> prd -> f32 list
    list * prd **)

let res2_inverse ds r halfn vecs nonzero bs =
  let ch = Z.of_nat (length vecs) in
  let dim = (dbk ds r.r_groupbook).d_src.b_dim in
  let mx = Z.mul halfn ch in
  let end_ = if Z.ltb r.r_end mx then r.r_end else mx in
  let n0 = Z.sub end_ r.r_begin in
  if (&&) (Z.gtb n0 Z0) (existsb (fun b -> b) nonzero)
  then let partvals = Z.quot n0 r.r_grouping in
       let st =
         r2_stages ds r dim partvals ch Z0 (Z.to_nat (res_stages r))
           { rs_vecs = vecs; rs_bits = bs; rs_pw = ([] :: []); rs_go = true }
       in
       (st.rs_vecs, st.rs_bits)
  else (vecs, bs)

(** val floors_in : dsetup -> mapping -> z list -> prd -> memo list * prd **)

let rec floors_in ds m mux bs =
  match mux with
  | [] -> ([], bs)
  | sub0 :: rest ->
    let f =
      nth (Z.to_nat (zn m.m_floor sub0)) ds.ds_setup.s_floors (Floor1 ([],
        [], (Zpos XH), Z0, []))
    in
    let (mm, r) = floor_inverse1 ds f bs in
    let (l, r2) = floors_in ds m rest r in ((mm :: l), r2)

(** val is_used : memo -> bool **)

let is_used = function
| MNone -> false
| _ -> true

(** val bnth : bool list -> z -> bool **)

let bnth l i =
  nth (Z.to_nat i) l false

(** val couple_nonzero : (z * z) list -> bool list -> bool list **)

let couple_nonzero coupling nz =
  fold_left (fun nz0 p ->
    let (mg, an) = p in
    if (||) (bnth nz0 mg) (bnth nz0 an)
    then lset (lset nz0 (Z.to_nat mg) true) (Z.to_nat an) true
    else nz0) coupling nz

(** val chans_of : z list -> z -> nat list **)

let chans_of mux sub0 =
  filter (fun j -> Z.eqb (nth j mux Z0) sub0) (seq O (length mux))

(** val put_back : nat list -> 'a1 list -> 'a1 list -> 'a1 list **)

let rec put_back idx vals all =
  match idx with
  | [] -> all
  | i :: ir ->
    (match vals with
     | [] -> all
     | v :: vr -> put_back ir vr (lset all i v))

(** val residues_in :
    dsetup -> mapping -> z -> bool list -> z -> nat -> f32 list list -> prd
    -> f32 list list * prd **)

let rec residues_in ds m halfn nz sub0 cnt pcm bs =
  match cnt with
  | O -> (pcm, bs)
  | S c ->
    let idx = chans_of m.m_mux sub0 in
    let r =
      nth (Z.to_nat (zn m.m_residue sub0)) ds.ds_setup.s_residues { r_type =
        Z0; r_begin = Z0; r_end = Z0; r_grouping = (Zpos XH); r_partitions =
        (Zpos XH); r_groupbook = Z0; r_secondstages = []; r_booklist = [];
        r_partvals = (Zpos XH) }
    in
    let (pcm', bs') =
      if Z.eqb r.r_type (Zpos (XO XH))
      then let (vs, b) =
             res2_inverse ds r halfn (map (fun j -> nth j pcm []) idx)
               (map (fun j -> nth j nz false) idx) bs
           in
           ((put_back idx vs pcm), b)
      else let used = filter (fun j -> nth j nz false) idx in
           let (vs, b) =
             res01_inverse ds r halfn (map (fun j -> nth j pcm []) used) bs
           in
           ((put_back used vs pcm), b)
    in
    residues_in ds m halfn nz (Z.add sub0 (Zpos XH)) c pcm' bs'

(** val couple_one : f32 -> f32 -> f32 * f32 **)

let couple_one mag ang =
  if fpos mag
  then if fpos ang then (mag, (fsub32 mag ang)) else ((fadd32 mag ang), mag)
  else if fpos ang then (mag, (fadd32 mag ang)) else ((fsub32 mag ang), mag)

(** val uncouple : (z * z) list -> f32 list list -> f32 list list **)

let uncouple coupling pcm =
  fold_left (fun pcm0 p ->
    let (mg, an) = p in
    let prs =
      map (fun q -> couple_one (fst q) (snd q))
        (combine (nth (Z.to_nat mg) pcm0 []) (nth (Z.to_nat an) pcm0 []))
    in
    lset (lset pcm0 (Z.to_nat mg) (map fst prs)) (Z.to_nat an) (map snd prs))
    (rev coupling) pcm

(** val fromdB : z -> f32 **)

let fromdB y =
  decode_b32 (zn floor1_fromdB_bits y)

type chan_out =
| CSpectrum of f32 list
| CFloor0 of z * f32 list * f32 list

(** val apply_floor :
    dsetup -> mapping -> z -> nat -> memo -> f32 list -> chan_out **)

let apply_floor ds m halfn j mm vec =
  match mm with
  | MNone -> CSpectrum (repeat fzero (Z.to_nat halfn))
  | MFloor1 fit ->
    (match nth (Z.to_nat (zn m.m_floor (nth j m.m_mux Z0)))
             ds.ds_setup.s_floors (Floor1 ([], [], (Zpos XH), Z0, [])) with
     | Floor0 (_, _, _, _, _, _) -> CSpectrum vec
     | Floor1 (_, _, mult, rangebits, posts) ->
       CSpectrum
         (map (fun p -> fmul32 (fst p) (fromdB (snd p)))
           (combine vec (floor1_curve halfn mult rangebits posts fit))))
  | MFloor0 (a, l) -> CFloor0 (a, l, vec)

type pverdict =
| POk
| PNotAudio
| PBadPacket

type pout = { po_verdict : pverdict; po_mode : z; po_W : z; po_lW : z;
              po_nW : z; po_left : z; po_chans : chan_out list }

(** val synthesis : dsetup -> n list -> pout **)

let synthesis ds pkt0 =
  let bad = fun v -> { po_verdict = v; po_mode = Z0; po_W = Z0; po_lW = Z0;
    po_nW = Z0; po_left = Z0; po_chans = [] }
  in
  let bs = ((bits_of_bytes pkt0), false) in
  let (t, r0) = rdm (S O) bs in
  if negb (Z.eqb t Z0)
  then bad PNotAudio
  else let modes = ds.ds_setup.s_modes in
       let (mode0, r1) =
         rdm (ilogn (Z.sub (Z.of_nat (length modes)) (Zpos XH))) r0
       in
       if (||) (Z.ltb mode0 Z0) (Z.geb mode0 (Z.of_nat (length modes)))
       then bad PBadPacket
       else let md =
              nth (Z.to_nat mode0) modes { md_blockflag = Z0; md_mapping =
                Z0 }
            in
            let w = md.md_blockflag in
            let (lW, r2) =
              if Z.eqb w (Zpos XH) then rdm (S O) r1 else (Z0, r1)
            in
            let (nW, r3) =
              if Z.eqb w (Zpos XH) then rdm (S O) r2 else (Z0, r2)
            in
            if Z.ltb nW Z0
            then bad PBadPacket
            else let m =
                   nth (Z.to_nat md.md_mapping) ds.ds_setup.s_maps
                     { m_submaps = (Zpos XH); m_coupling = []; m_mux = [];
                     m_floor = []; m_residue = [] }
                 in
                 let n0 =
                   if Z.eqb w (Zpos XH)
                   then ds.ds_ident.i_bs1
                   else ds.ds_ident.i_bs0
                 in
                 let halfn = Z.div n0 (Zpos (XO XH)) in
                 let (memos, r4) = floors_in ds m m.m_mux r3 in
                 let nz = couple_nonzero m.m_coupling (map is_used memos) in
                 let pcm0 = map (fun _ -> repeat fzero (Z.to_nat halfn)) memos
                 in
                 let (pcm1, r5) =
                   residues_in ds m halfn nz Z0 (Z.to_nat m.m_submaps) pcm0 r4
                 in
                 let pcm2 = uncouple m.m_coupling pcm1 in
                 { po_verdict = POk; po_mode = mode0; po_W = w; po_lW = lW;
                 po_nW = nW; po_left =
                 (if snd r5 then Zneg (XO XH) else Z.of_nat (length (fst r5)));
                 po_chans =
                 (map (fun x ->
                   let (y, v) = x in
                   let (j, mm) = y in apply_floor ds m halfn j mm v)
                   (combine (combine (seq O (length memos)) memos) pcm2)) }

(** val wr : nat -> z -> bits **)

let wr w v =
  bits_of w (Z.to_N (Z.modulo v (Z.pow (Zpos (XO XH)) (Z.of_nat w))))

(** val ordered_from : z -> z list -> bool **)

let rec ordered_from prev = function
| [] -> true
| x :: r ->
  if (||) (Z.eqb prev Z0) (Z.ltb x prev) then false else ordered_from x r

(** val is_ordered : z list -> bool **)

let is_ordered = function
| [] -> false
| x :: r -> ordered_from x r

(** val pack_ordered_runs : z -> z list -> z -> z -> z -> bits **)

let rec pack_ordered_runs entries l i count last0 =
  match l with
  | [] -> wr (ilogn (Z.sub entries count)) (Z.sub i count)
  | this :: r ->
    app
      (if Z.gtb this last0
       then app (wr (ilogn (Z.sub entries count)) (Z.sub i count))
              (flat_map (fun _ -> wr (ilogn (Z.sub entries i)) Z0)
                (seq O (Z.to_nat (Z.sub (Z.sub this last0) (Zpos XH)))))
       else [])
      (pack_ordered_runs entries r (Z.add i (Zpos XH))
        (if Z.gtb this last0 then i else count) this)

(** val pack_lengths : z -> z list -> bits **)

let pack_lengths entries lens =
  if is_ordered lens
  then (match lens with
        | [] -> []
        | l0 :: r ->
          app (wr (S O) (Zpos XH))
            (app (wr (S (S (S (S (S O))))) (Z.sub l0 (Zpos XH)))
              (pack_ordered_runs entries r (Zpos XH) Z0 l0)))
  else app (wr (S O) Z0)
         (if existsb (fun l -> Z.eqb l Z0) lens
          then app (wr (S O) (Zpos XH))
                 (flat_map (fun l ->
                   if Z.eqb l Z0
                   then wr (S O) Z0
                   else app (wr (S O) (Zpos XH))
                          (wr (S (S (S (S (S O))))) (Z.sub l (Zpos XH))))
                   lens)
          else app (wr (S O) Z0)
                 (flat_map (fun l ->
                   wr (S (S (S (S (S O))))) (Z.sub l (Zpos XH))) lens))

(** val pack_book : book -> bits **)

let pack_book b =
  app
    (wr (S (S (S (S (S (S (S (S (S (S (S (S (S (S (S (S (S (S (S (S (S (S (S
      (S O)))))))))))))))))))))))) (Zpos (XO (XI (XO (XO (XO (XO (XI (XO (XI
      (XI (XO (XO (XO (XO (XI (XO (XO (XI (XI (XO (XI (XO
      XH))))))))))))))))))))))))
    (app
      (wr (S (S (S (S (S (S (S (S (S (S (S (S (S (S (S (S O))))))))))))))))
        b.b_dim)
      (app
        (wr (S (S (S (S (S (S (S (S (S (S (S (S (S (S (S (S (S (S (S (S (S (S
          (S (S O)))))))))))))))))))))))) b.b_entries)
        (app (pack_lengths b.b_entries b.b_lengths)
          (app (wr (S (S (S (S O)))) b.b_maptype)
            (if (||) (Z.eqb b.b_maptype (Zpos XH))
                  (Z.eqb b.b_maptype (Zpos (XO XH)))
             then app
                    (wr (S (S (S (S (S (S (S (S (S (S (S (S (S (S (S (S (S (S
                      (S (S (S (S (S (S (S (S (S (S (S (S (S (S
                      O)))))))))))))))))))))))))))))))) b.b_qmin)
                    (app
                      (wr (S (S (S (S (S (S (S (S (S (S (S (S (S (S (S (S (S
                        (S (S (S (S (S (S (S (S (S (S (S (S (S (S (S
                        O)))))))))))))))))))))))))))))))) b.b_qdelta)
                      (app
                        (wr (S (S (S (S O)))) (Z.sub b.b_qquant (Zpos XH)))
                        (app (wr (S O) b.b_qseq)
                          (flat_map (fun q -> wr (Z.to_nat b.b_qquant) q)
                            b.b_quantlist))))
             else [])))))

(** val pack_class : fclass -> bits **)

let pack_class c =
  app (wr (S (S (S O))) (Z.sub c.c_dim (Zpos XH)))
    (app (wr (S (S O)) c.c_subs)
      (app
        (if Z.eqb c.c_subs Z0
         then []
         else wr (S (S (S (S (S (S (S (S O)))))))) c.c_book)
        (flat_map (fun s ->
          wr (S (S (S (S (S (S (S (S O)))))))) (Z.add s (Zpos XH)))
          c.c_subbook)))

(** val pack_floor1_body :
    z list -> fclass list -> z -> z -> z list -> bits **)

let pack_floor1_body pc classes mult rangebits posts =
  app (wr (S (S (S (S (S O))))) (Z.of_nat (length pc)))
    (app (flat_map (wr (S (S (S (S O))))) pc)
      (app (flat_map pack_class classes)
        (app (wr (S (S O)) (Z.sub mult (Zpos XH)))
          (app (wr (S (S (S (S O)))) rangebits)
            (flat_map (wr (Z.to_nat rangebits)) posts)))))

(** val pack_floor : floor -> bits **)

let pack_floor = function
| Floor0 (_, _, _, _, _, _) -> []
| Floor1 (pc, classes, mult, rangebits, posts) ->
  app
    (wr (S (S (S (S (S (S (S (S (S (S (S (S (S (S (S (S O))))))))))))))))
      (Zpos XH)) (pack_floor1_body pc classes mult rangebits posts)

(** val pack_cascade : z -> bits **)

let pack_cascade c =
  if Z.gtb (ilog c) (Zpos (XI XH))
  then app (wr (S (S (S O))) c)
         (app (wr (S O) (Zpos XH))
           (wr (S (S (S (S (S O))))) (Z.shiftr c (Zpos (XI XH)))))
  else wr (S (S (S (S O)))) c

(** val pack_residue_body : residue -> bits **)

let pack_residue_body r =
  app
    (wr (S (S (S (S (S (S (S (S (S (S (S (S (S (S (S (S (S (S (S (S (S (S (S
      (S O)))))))))))))))))))))))) r.r_begin)
    (app
      (wr (S (S (S (S (S (S (S (S (S (S (S (S (S (S (S (S (S (S (S (S (S (S
        (S (S O)))))))))))))))))))))))) r.r_end)
      (app
        (wr (S (S (S (S (S (S (S (S (S (S (S (S (S (S (S (S (S (S (S (S (S (S
          (S (S O)))))))))))))))))))))))) (Z.sub r.r_grouping (Zpos XH)))
        (app (wr (S (S (S (S (S (S O)))))) (Z.sub r.r_partitions (Zpos XH)))
          (app (wr (S (S (S (S (S (S (S (S O)))))))) r.r_groupbook)
            (app (flat_map pack_cascade r.r_secondstages)
              (flat_map (wr (S (S (S (S (S (S (S (S O))))))))) r.r_booklist))))))

(** val pack_residue : residue -> bits **)

let pack_residue r =
  app
    (wr (S (S (S (S (S (S (S (S (S (S (S (S (S (S (S (S O))))))))))))))))
      r.r_type) (pack_residue_body r)

(** val pack_mapping_body : z -> mapping -> bits **)

let pack_mapping_body channels m =
  app
    (if Z.gtb m.m_submaps (Zpos XH)
     then app (wr (S O) (Zpos XH))
            (wr (S (S (S (S O)))) (Z.sub m.m_submaps (Zpos XH)))
     else wr (S O) Z0)
    (app
      (match m.m_coupling with
       | [] -> wr (S O) Z0
       | p :: l ->
         let cp = p :: l in
         app (wr (S O) (Zpos XH))
           (app
             (wr (S (S (S (S (S (S (S (S O))))))))
               (Z.sub (Z.of_nat (length cp)) (Zpos XH)))
             (flat_map (fun p0 ->
               app (wr (ilogn (Z.sub channels (Zpos XH))) (fst p0))
                 (wr (ilogn (Z.sub channels (Zpos XH))) (snd p0))) cp)))
      (app (wr (S (S O)) Z0)
        (app
          (if Z.gtb m.m_submaps (Zpos XH)
           then flat_map (wr (S (S (S (S O))))) m.m_mux
           else [])
          (flat_map (fun p ->
            app (wr (S (S (S (S (S (S (S (S O)))))))) Z0)
              (app (wr (S (S (S (S (S (S (S (S O)))))))) (fst p))
                (wr (S (S (S (S (S (S (S (S O)))))))) (snd p))))
            (combine m.m_floor m.m_residue)))))

(** val pack_mapping : z -> mapping -> bits **)

let pack_mapping channels m =
  app
    (wr (S (S (S (S (S (S (S (S (S (S (S (S (S (S (S (S O)))))))))))))))) Z0)
    (pack_mapping_body channels m)

(** val pack_mode : mode -> bits **)

let pack_mode m =
  app (wr (S O) m.md_blockflag)
    (app
      (wr (S (S (S (S (S (S (S (S (S (S (S (S (S (S (S (S O))))))))))))))))
        Z0)
      (app
        (wr (S (S (S (S (S (S (S (S (S (S (S (S (S (S (S (S O))))))))))))))))
          Z0) (wr (S (S (S (S (S (S (S (S O)))))))) m.md_mapping)))

(** val pack_setup : z -> setup -> bits **)

let pack_setup channels s =
  app
    (wr (S (S (S (S (S (S (S (S O))))))))
      (Z.sub (Z.of_nat (length s.s_books)) (Zpos XH)))
    (app (flat_map pack_book s.s_books)
      (app (wr (S (S (S (S (S (S O)))))) Z0)
        (app
          (wr (S (S (S (S (S (S (S (S (S (S (S (S (S (S (S (S
            O)))))))))))))))) Z0)
          (app
            (wr (S (S (S (S (S (S O))))))
              (Z.sub (Z.of_nat (length s.s_floors)) (Zpos XH)))
            (app (flat_map pack_floor s.s_floors)
              (app
                (wr (S (S (S (S (S (S O))))))
                  (Z.sub (Z.of_nat (length s.s_residues)) (Zpos XH)))
                (app (flat_map pack_residue s.s_residues)
                  (app
                    (wr (S (S (S (S (S (S O))))))
                      (Z.sub (Z.of_nat (length s.s_maps)) (Zpos XH)))
                    (app (flat_map (pack_mapping channels) s.s_maps)
                      (app
                        (wr (S (S (S (S (S (S O))))))
                          (Z.sub (Z.of_nat (length s.s_modes)) (Zpos XH)))
                        (app (flat_map pack_mode s.s_modes)
                          (wr (S O) (Zpos XH)))))))))))))

(** val pack_ident : ident -> bits **)

let pack_ident i =
  app
    (wr (S (S (S (S (S (S (S (S (S (S (S (S (S (S (S (S (S (S (S (S (S (S (S
      (S (S (S (S (S (S (S (S (S O)))))))))))))))))))))))))))))))) Z0)
    (app (wr (S (S (S (S (S (S (S (S O)))))))) i.i_channels)
      (app
        (wr (S (S (S (S (S (S (S (S (S (S (S (S (S (S (S (S (S (S (S (S (S (S
          (S (S (S (S (S (S (S (S (S (S O))))))))))))))))))))))))))))))))
          i.i_rate)
        (app
          (wr (S (S (S (S (S (S (S (S (S (S (S (S (S (S (S (S (S (S (S (S (S
            (S (S (S (S (S (S (S (S (S (S (S
            O)))))))))))))))))))))))))))))))) i.i_upper)
          (app
            (wr (S (S (S (S (S (S (S (S (S (S (S (S (S (S (S (S (S (S (S (S
              (S (S (S (S (S (S (S (S (S (S (S (S
              O)))))))))))))))))))))))))))))))) i.i_nominal)
            (app
              (wr (S (S (S (S (S (S (S (S (S (S (S (S (S (S (S (S (S (S (S (S
                (S (S (S (S (S (S (S (S (S (S (S (S
                O)))))))))))))))))))))))))))))))) i.i_lower)
              (app (wr (S (S (S (S O)))) (ilog (Z.sub i.i_bs0 (Zpos XH))))
                (app (wr (S (S (S (S O)))) (ilog (Z.sub i.i_bs1 (Zpos XH))))
                  (wr (S O) (Zpos XH)))))))))

(** val head : n -> n list **)

let head t =
  t :: vorbis_str

(** val setup_packet : z -> setup -> n list **)

let setup_packet channels s =
  app (head (Npos (XI (XO XH)))) (bytes_of_bits (pack_setup channels s))

(** val ident_packet : ident -> n list **)

let ident_packet i =
  app (head (Npos XH)) (bytes_of_bits (pack_ident i))

(** val fallback : vfs -> z -> bool **)

let fallback s pos =
  let (link, total) =
    link_of_pos s.v_links pos (pcm_total s) (length s.v_links)
  in
  let l = nth_link s link in
  let target = Z.add (Z.sub pos total) l.li_init in
  (match best_page s.v_pages l target None with
   | Some l0 ->
     (match l0 with
      | [] -> false
      | pg :: rem' ->
        let s1 = enter_link (set_pcm (set_rem s rem') (Zneg XH)) link in
        let s2 = os_pagein (os_reset s1) pg in
        (match drop_to_gran s2.v_q Z0 with
         | Some _ -> false
         | None -> true))
   | None -> false)

(** val run_split : z -> page list -> page list * page list **)

let rec run_split serial pgs = match pgs with
| [] -> ([], [])
| pg :: r ->
  if (&&) ((&&) (Z.eqb pg.pg_serial serial) (negb pg.pg_bos))
       (forallb (fun p -> negb p.pk_eos) pg.pg_pkts)
  then let (a, b) = run_split serial r in ((pg :: a), b)
  else ([], pgs)

(** val auto_tail : vfs -> page list **)

let auto_tail s1 =
  snd (run_split s1.v_serial s1.v_rem)

(** val rem1 : page list -> vfs -> page list **)

let rem1 tail s =
  firstn (sub (length s.v_rem) (length tail)) s.v_rem

(** val stream : page list -> vfs -> pkt list **)

let stream tail s =
  app s.v_q (flat_map (fun p -> p.pg_pkts) (rem1 tail s))

(** val intactSb : linfo -> bool -> z -> bool -> pkt list -> bool **)

let rec intactSb l first e lW = function
| [] -> true
| p :: r ->
  (match p.pk_W with
   | Some w ->
     let eh =
       if first
       then e
       else Z.add e
              (Z.add (Z.div (blocksize l lW) (Zpos (XO (XO XH))))
                (Z.div (blocksize l w) (Zpos (XO (XO XH)))))
     in
     (&&)
       ((&&) (negb p.pk_eos)
         ((||) (Z.eqb p.pk_gran (Zneg XH))
           (Z.eqb p.pk_gran (Z.add l.li_init eh)))) (intactSb l false eh w r)
   | None -> false)

(** val reachesb : linfo -> bool -> z -> bool -> pkt list -> z -> bool **)

let rec reachesb l first e lW ps target =
  match ps with
  | [] -> false
  | p :: r ->
    (match p.pk_W with
     | Some w ->
       let eh =
         if first
         then e
         else Z.add e
                (Z.add (Z.div (blocksize l lW) (Zpos (XO (XO XH))))
                  (Z.div (blocksize l w) (Zpos (XO (XO XH)))))
       in
       (||) (Z.leb target eh) (reachesb l false eh w r target)
     | None -> false)

(** val file_intactb : page list -> vfs -> z -> bool **)

let file_intactb tail s1 pos =
  let l = cur_link s1 in
  let e = Z.sub s1.v_pcm (base_of s1 s1.v_link) in
  (&&)
    ((&&)
      ((&&)
        ((&&)
          ((&&)
            ((&&)
              ((&&)
                ((&&) ((&&) (Z.ltb Z0 l.li_bs0) (Z.ltb Z0 l.li_bs1))
                  (Z.leb l.li_bs0 l.li_bs1))
                (Z.eqb (Z.modulo l.li_bs0 (Zpos (XO (XO XH)))) Z0))
              (Z.eqb (Z.modulo l.li_bs1 (Zpos (XO (XO XH)))) Z0))
            (Z.leb Z0 l.li_init)) (negb s1.v_fresh))
        (forallb (fun pg ->
          (&&) (Z.eqb pg.pg_serial s1.v_serial) (negb pg.pg_bos))
          (rem1 tail s1))) (intactSb l true e false (stream tail s1)))
    (reachesb l true e false (stream tail s1)
      (Z.sub pos (base_of s1 s1.v_link)))

(** val seek_hyps : vfs -> z -> bool **)

let seek_hyps s pos =
  let r = pcm_seek_page s pos in
  (&&)
    ((&&)
      ((&&)
        ((&&) ((&&) (Z.eqb s.v_hs Z0) (Z.leb oPENED s.v_rs))
          (Z.leb s.v_rs iNITSET)) (Z.eqb (fst r) Z0)) (negb (fallback s pos)))
    (file_intactb (auto_tail (snd r)) (snd r) pos)

(** val file_intactb_h : page list -> vfs -> z -> bool **)

let file_intactb_h tail s1 pos =
  let l = cur_link s1 in
  let e = Z.sub s1.v_pcm (base_of s1 s1.v_link) in
  (&&)
    ((&&)
      ((&&)
        ((&&)
          ((&&)
            ((&&)
              ((&&)
                ((&&) ((&&) (Z.ltb Z0 l.li_bs0) (Z.ltb Z0 l.li_bs1))
                  (Z.leb l.li_bs0 l.li_bs1))
                (Z.eqb (Z.modulo l.li_bs0 (Zpos (XO (XO (XO XH))))) Z0))
              (Z.eqb (Z.modulo l.li_bs1 (Zpos (XO (XO (XO XH))))) Z0))
            (Z.leb Z0 l.li_init)) (negb s1.v_fresh))
        (forallb (fun pg ->
          (&&) (Z.eqb pg.pg_serial s1.v_serial) (negb pg.pg_bos))
          (rem1 tail s1))) (intactSb l true e false (stream tail s1)))
    (reachesb l true e false (stream tail s1)
      (Z.sub pos (base_of s1 s1.v_link)))

(** val seek_hyps_h : vfs -> z -> bool **)

let seek_hyps_h s pos =
  let r = pcm_seek_page s pos in
  (&&)
    ((&&)
      ((&&)
        ((&&) ((&&) (Z.eqb s.v_hs (Zpos XH)) (Z.leb oPENED s.v_rs))
          (Z.leb s.v_rs iNITSET)) (Z.eqb (fst r) Z0)) (negb (fallback s pos)))
    (file_intactb_h (auto_tail (snd r)) (snd r) pos)
