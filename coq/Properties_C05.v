(* C05  Encoder output is a valid stream that the decoder consumes bit-for-bit.
   Proved: what the tree walk reads is exactly what a prefix-free codeword table
   writes (decode (encode e) = e, whatever follows) - and the table _make_words
   builds for any accepted lengths below 32 is prefix-free, so the round trip
   holds for every such book unconditionally -, and reads consume exactly
   the width written.  The encoder's choices (posts, partition classes, values)
   are inputs; that its packets are consumed exactly is decided per run by the
   strict model decoder on real encoder output (harness/c05enc.c + pd pair). *)
From VV Require Import SrcFacts Bits Pcm Fl Setup Codebook PacketDec Pack Decoder_lemmas MakeWords_lemmas Pack_lemmas.
From Coq Require Import ZArith List Bool.
Import ListNotations.
Local Open Scope Z_scope.

Theorem C05_codeword_roundtrip :
  forall ws, prefix_free ws -> forall w rest, In w ws ->
    hwalk (build_tree ws) (word_of w ++ rest) = Some (entry_of w, rest).
Proof. exact build_tree_decodes. Qed.
Print Assumptions C05_codeword_roundtrip.

(* the same without hypothesis on the table: any lengths (below 32) the reference code accepts *)
Theorem C05_codeword_roundtrip_accepted_books :
  forall lens ws, (forall l, In l lens -> l <= 31) -> make_words lens = Some ws ->
    forall w rest, In w ws -> hwalk (build_tree ws) (word_of w ++ rest) = Some (entry_of w, rest).
Proof. intros lens ws Hle Hmw. apply build_tree_decodes. exact (make_words_prefix_free lens ws Hle Hmw). Qed.
Print Assumptions C05_codeword_roundtrip_accepted_books.

Theorem C05_field_consumed_exactly :
  forall w bs v r, rd w bs = Some (v, r) -> 0 <= v < 2 ^ Z.of_nat w /\ (length r + w = length bs)%nat.
Proof. exact rd_range. Qed.
Print Assumptions C05_field_consumed_exactly.

(* the headers the encoder packs are the headers this parser reads: tied per
   run field by field; here: a set-up the parser accepts has valid mode/mapping tables *)
Theorem C05_accepted_modes_valid :
  forall n maps bs l r, rd_modes n maps bs = Some (l, r) ->
    length l = n /\ Forall (fun m => 0 <= md_mapping m < maps /\ (md_blockflag m = 0 \/ md_blockflag m = 1)) l.
Proof. exact rd_modes_wf. Qed.
Print Assumptions C05_accepted_modes_valid.

(* HEADERS: the parser reads back exactly the set-up the packers wrote, for
   EVERY packable set-up (Pack.v models _vorbis_pack_books, vorbis_staticbook_pack
   with its ordered / sparse / dense length encodings, floor1_pack, res0_pack,
   mapping0_pack; tied per run: re-packing the parsed set-up of every real
   encoder header gives the same bytes), whatever padding follows *)
Theorem C05_setup_header_roundtrip :
  forall channels s pad, setup_ok channels s -> unpack_setup channels (pack_setup channels s ++ pad) = Some s.
Proof. exact unpack_pack_setup. Qed.
Print Assumptions C05_setup_header_roundtrip.

Theorem C05_ident_header_roundtrip :
  forall i pad, ident_ok i -> unpack_ident (pack_ident i ++ pad) = (HOk, Some i).
Proof. exact unpack_pack_ident. Qed.
Print Assumptions C05_ident_header_roundtrip.

(* each codebook, alone: all three length encodings and both value mappings *)
Theorem C05_codebook_roundtrip :
  forall b rest, book_ok b -> (8 <= length rest)%nat -> unpack_book (pack_book b ++ rest) = Some (b, rest).
Proof. exact unpack_pack_book. Qed.
Print Assumptions C05_codebook_roundtrip.

(* non-vacuity: an ordered book with a skipped length, a sparse book, a lattice book *)
Definition ex_ordered : book := {| b_dim := 1; b_entries := 5; b_lengths := [1; 3; 3; 3; 3]; b_maptype := 0; b_qmin := 0; b_qdelta := 0; b_qquant := 0; b_qseq := 0; b_quantlist := [] |}.
Definition ex_sparse : book := {| b_dim := 2; b_entries := 4; b_lengths := [1; 0; 2; 2]; b_maptype := 1; b_qmin := 1611661312; b_qdelta := 1616117760; b_qquant := 2; b_qseq := 0; b_quantlist := [1; 3] |}.
Example C05_book_examples :
  book_ok ex_ordered /\ is_ordered (b_lengths ex_ordered) = true /\
  book_ok ex_sparse /\ is_ordered (b_lengths ex_sparse) = false /\
  unpack_book (pack_book ex_ordered ++ pack_book ex_sparse ++ repeat false 8) = Some (ex_ordered, pack_book ex_sparse ++ repeat false 8).
Proof.
  split; [|split; [reflexivity|split; [|split; [reflexivity|vm_compute; reflexivity]]]].
  - unfold book_ok, ex_ordered; cbn [b_dim b_entries b_lengths b_maptype b_qmin b_qdelta b_qquant b_qseq b_quantlist].
    split; [lia|]. split; [lia|]. split; [vm_compute; discriminate|]. split; [reflexivity|].
    split; [repeat constructor; lia|]. split.
    + intros _. split; [cbn; lia|vm_compute; reflexivity].
    + left. repeat split; reflexivity.
  - unfold book_ok, ex_sparse; cbn [b_dim b_entries b_lengths b_maptype b_qmin b_qdelta b_qquant b_qseq b_quantlist].
    split; [lia|]. split; [lia|]. split; [vm_compute; discriminate|]. split; [reflexivity|].
    split; [repeat constructor; lia|]. split.
    + intros H. vm_compute in H. discriminate.
    + right. split; [left; reflexivity|]. split; [lia|]. split; [lia|]. split; [lia|]. split; [left; reflexivity|].
      split; [vm_compute; reflexivity|repeat constructor; cbn; lia].
Qed.

Example C05_nonvacuous : prefix_free [(0, 1, 0); (1, 2, 2); (2, 2, 3)].
Proof. cbn. repeat split; try discriminate; repeat constructor; try discriminate. Qed.
