(* C05  Encoder output is a valid stream that the decoder consumes bit-for-bit.
   Proved: what the tree walk reads is exactly what a prefix-free codeword table
   writes (decode (encode e) = e, whatever follows), and reads consume exactly
   the width written.  The encoder's choices (posts, partition classes, values)
   are inputs; that its packets are consumed exactly is decided per run by the
   strict model decoder on real encoder output (harness/c05enc.c + pd pair). *)
From VV Require Import SrcFacts Bits Pcm Fl Setup Codebook PacketDec Decoder_lemmas.
From Coq Require Import ZArith List Bool.
Import ListNotations.
Local Open Scope Z_scope.

Theorem C05_codeword_roundtrip :
  forall ws, prefix_free ws -> forall w rest, In w ws ->
    hwalk (build_tree ws) (word_of w ++ rest) = Some (entry_of w, rest).
Proof. exact build_tree_decodes. Qed.
Print Assumptions C05_codeword_roundtrip.

Theorem C05_field_consumed_exactly :
  forall w bs v r, rd w bs = Some (v, r) -> 0 <= v < 2 ^ Z.of_nat w /\ (length r + w = length bs)%nat.
Proof. exact rd_range. Qed.
Print Assumptions C05_field_consumed_exactly.

(* the headers the encoder packs are the headers this parser reads: tied per
   run field by field; here: a set-up the parser accepts has valid mode/mapping tables *)
Theorem C05_accepted_modes_valid :
  forall n maps bs l r, rd_modes n maps bs = Some (l, r) ->
    length l = n /\ Forall (fun m => 0 <= md_mapping m < maps /\ (md_blockflag m = 0 \/ md_blockflag m = 1)) l.
Proof. exact rd_modes_wf. Qed.
Print Assumptions C05_accepted_modes_valid.

Example C05_nonvacuous : prefix_free [(0, 1, 0); (1, 2, 2); (2, 2, 3)].
Proof. cbn. repeat split; try discriminate; repeat constructor; try discriminate. Qed.
