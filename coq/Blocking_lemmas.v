(* Proofs about M7 (Blocking.v): the encoder emits a well-formed block
   sequence whose last granule position is the number of samples submitted,
   and the decoder returns exactly that many samples from such a sequence. *)
From VV Require Import Blocking.
From Coq Require Import ZifyBool Sorted.
Local Open Scope Z_scope.
Ltac Zify.zify_post_hook ::= Z.div_mod_to_equations.

Definition WF (c : cfg) : Prop := 64 <= bs0 c /\ bs0 c <= bs1 c.

Definition step (c : cfg) (lW W : bool) : Z := bsz c lW / 4 + bsz c W / 4.

Lemma bsz_bounds c w : WF c -> 64 <= bsz c w <= bs1 c.
Proof. unfold WF, bsz. destruct w; lia. Qed.

Lemma step_bounds c a b : WF c -> 32 <= step c a b /\ step c a b <= bs1 c / 2.
Proof.
  intros H. unfold step. pose proof (bsz_bounds c a H). pose proof (bsz_bounds c b H). lia.
Qed.

(* ---- what the encoder has emitted so far -------------------------------- *)

Definition mkb lW W nW seq g eof : eblock :=
  {| b_lW := lW; b_W := W; b_nW := nW; b_seq := seq; b_gran := g; b_eof := eof |}.

(* [Emitted c acc off W lW seq]: acc is a sequence of non-final blocks; the
   next block to emit has its centre at absolute sample position off, window
   flag W, previous flag lW and sequence number seq. *)
Inductive Emitted (c : cfg) : list eblock -> Z -> bool -> bool -> Z -> Prop :=
| Em_nil : Emitted c [] 0 false false 3
| Em_snoc acc off W lW seq nW :
    Emitted c acc off W lW seq ->
    Emitted c (acc ++ [mkb lW W nW seq off false]) (off + step c W nW) nW W (seq + 1).

Definition FinalSeq (c : cfg) (N : Z) (bl : list eblock) : Prop :=
  exists acc off W lW seq nW,
    Emitted c acc off W lW seq /\ bl = acc ++ [mkb lW W nW seq N true] /\
    N <= off /\ Forall (fun b => b_gran b < N) acc.

(* ---- encoder invariant ----------------------------------------------------- *)

Definition EInv (c : cfg) (nin : Z) (eofd : bool) (s : enc) (acc : list eblock) : Prop :=
  exists off W lW seq,
    Emitted c acc off W lW seq /\
    e_W s = W /\ e_lW s = lW /\ e_seq s = seq /\
    e_centerW s = bs1 c / 2 /\ bs1 c / 2 <= e_cur s /\
    Forall (fun b => b_gran b < nin) acc /\
    if eofd then
      0 < e_eof s /\ e_eof s = bs1 c / 2 + nin - off /\ e_cur s = e_eof s + bs1 c * 3 /\
      e_pre s = true /\
      (if bs1 c / 2 >=? e_eof s then e_gran s = nin else e_gran s = off)
    else
      e_eof s = 0 /\ e_cur s = bs1 c / 2 + nin - off /\ e_gran s = off.

Lemma einv_init c : WF c -> EInv c 0 false (enc_init c) [].
Proof.
  intros H. exists 0, false, false, 3. cbn. repeat split; try lia; constructor.
Qed.

Lemma einv_buffer c nin eofd s acc vals : EInv c nin eofd s acc -> EInv c nin eofd (enc_buffer s vals) acc.
Proof.
  intros H. unfold enc_buffer. destruct (e_cur s + vals >=? e_storage s); [|exact H].
  destruct H as (off & W & lW & seq & H). exists off, W, lW, seq. cbn. exact H.
Qed.

Lemma forall_lt_mono (acc : list eblock) a b : a <= b ->
  Forall (fun x => b_gran x < a) acc -> Forall (fun x => b_gran x < b) acc.
Proof. intros L H. eapply Forall_impl; [|exact H]. cbv beta. intros x Hx. lia. Qed.

Lemma einv_wrote c nin s acc vals s' :
  0 < vals -> EInv c nin false s acc -> enc_wrote c s vals = (0, s') ->
  EInv c (nin + vals) false s' acc.
Proof.
  intros Hv H E. unfold enc_wrote in E.
  destruct (vals <=? 0) eqn:E0; [lia|].
  destruct (e_cur s + vals >? e_storage s) eqn:E1; [inversion E|].
  inversion E; subst; clear E.
  destruct H as (off & W & lW & seq & He & H1 & H2 & H3 & H4 & H5 & H6 & H7 & H8 & H9).
  exists off, W, lW, seq. cbn. repeat split; try assumption; try lia.
  eapply forall_lt_mono; [|exact H6]. lia.
Qed.

Lemma einv_eof c nin s acc s' :
  WF c -> EInv c nin false s acc -> enc_wrote c s 0 = (0, s') -> EInv c nin true s' acc.
Proof.
  intros Hc H E. unfold enc_wrote in E. cbn [Z.leb] in E. change (0 <=? 0) with true in E. cbv iota in E.
  inversion E; subst; clear E.
  apply (einv_buffer c nin false s acc (bs1 c * 3)) in H.
  set (s1 := enc_buffer s (bs1 c * 3)) in *.
  destruct H as (off & W & lW & seq & He & H1 & H2 & H3 & H4 & H5 & H6 & H7 & H8 & H9).
  exists off, W, lW, seq. cbn. unfold WF in Hc.
  repeat split; try assumption; try lia.
  destruct (bs1 c / 2 >=? e_cur s1) eqn:E; lia.
Qed.

(* ---- one blockout call ----------------------------------------------------- *)

Lemma blockout_pre c nin s acc bp s' ob :
  WF c -> EInv c nin false s acc -> enc_blockout c s bp = (s', ob) ->
  match ob with
  | None => EInv c nin false s' acc
  | Some b => EInv c nin false s' (acc ++ [b]) /\ e_cur s' + 32 <= e_cur s
  end.
Proof.
  intros Hc H E.
  destruct H as (off & W & lW & seq & He & H1 & H2 & H3 & H4 & H5 & H6 & H7 & H8 & H9).
  assert (EInv c nin false s acc) as Hs by (exists off, W, lW, seq; repeat split; assumption).
  subst W lW seq off.
  unfold enc_blockout in E.
  destruct (negb (e_pre s)); [injection E as <- <-; exact Hs|].
  rewrite H7 in E. change (0 =? -1) with false in E. cbv iota in E.
  change (0 =? 0) with true in E. rewrite andb_true_r in E.
  destruct (bp =? -1) eqn:Ebp; [injection E as <- <-; exact Hs|].
  cbn [andb negb] in E.
  set (nW := if bs0 c =? bs1 c then false else negb (bp =? 0)) in *.
  pose proof (step_bounds c (e_W s) nW Hc) as Hst. unfold step in Hst.
  pose proof (bsz_bounds c nW Hc) as HnW.
  destruct (e_cur s <? e_centerW s + bsz c (e_W s) / 4 + bsz c nW / 4 + bsz c nW / 2) eqn:Ebb.
  - injection E as <- <-. exists (e_gran s), (e_W s), (e_lW s), (e_seq s). cbn. repeat split; try assumption; reflexivity.
  - destruct (e_centerW s + bsz c (e_W s) / 4 + bsz c nW / 4 - bs1 c / 2 >? 0) eqn:Emv; [|lia].
    injection E as <- <-. cbn. split; [|lia].
    exists (e_gran s + step c (e_W s) nW), nW, (e_W s), (e_seq s + 1). cbn.
    repeat split; try lia.
    + apply Em_snoc. exact He.
    + apply Forall_app. split; [exact H6|]. constructor; [|constructor]. cbn. unfold step. lia.
    + unfold step. lia.
    + unfold step. lia.
Qed.

Lemma blockout_eof c nin s acc bp s' ob :
  WF c -> 0 <= nin -> EInv c nin true s acc -> enc_blockout c s bp = (s', ob) ->
  exists b, ob = Some b /\
    ((EInv c nin true s' (acc ++ [b]) /\ e_cur s' + 32 <= e_cur s) \/
     (FinalSeq c nin (acc ++ [b]) /\ e_eof s' = -1)).
Proof.
  intros Hc Hn H E.
  destruct H as (off & W & lW & seq & He & H1 & H2 & H3 & H4 & H5 & H6 & H7 & H8 & H9 & H10 & H11).
  subst W lW seq.
  unfold enc_blockout in E. rewrite H10 in E. cbn [negb] in E.
  destruct (e_eof s =? -1) eqn:E1; [lia|].
  destruct (e_eof s =? 0) eqn:E2; [lia|]. rewrite andb_false_r in E. cbn [negb andb] in E.
  set (nW := if bp =? -1 then false else if bs0 c =? bs1 c then false else negb (bp =? 0)) in *.
  pose proof (step_bounds c (e_W s) nW Hc) as Hst. unfold step in Hst.
  pose proof (bsz_bounds c nW Hc) as HnW. unfold WF in Hc.
  destruct (e_cur s <? e_centerW s + bsz c (e_W s) / 4 + bsz c nW / 4 + bsz c nW / 2) eqn:Ebb; [lia|].
  destruct (e_centerW s >=? e_eof s) eqn:Efin.
  - (* final block *)
    injection E as <- <-. eexists. split; [reflexivity|]. right. cbn. split; [|reflexivity].
    exists acc, off, (e_W s), (e_lW s), (e_seq s), nW.
    destruct (bs1 c / 2 >=? e_eof s) eqn:E3; [|lia].
    repeat split; try assumption.
    + unfold mkb. rewrite H11. reflexivity.
    + lia.
  - destruct (e_centerW s + bsz c (e_W s) / 4 + bsz c nW / 4 - bs1 c / 2 >? 0) eqn:Emv; [|lia].
    injection E as <- <-. eexists. split; [reflexivity|]. left. cbn. split; [|lia].
    destruct (bs1 c / 2 >=? e_eof s) eqn:E3; [lia|].
    set (mv := e_centerW s + bsz c (e_W s) / 4 + bsz c nW / 4 - bs1 c / 2) in *.
    assert (mv = step c (e_W s) nW) as Hmv by (unfold mv, step; lia).
    destruct (e_eof s - mv <=? 0) eqn:E4; [lia|].
    exists (off + step c (e_W s) nW), nW, (e_W s), (e_seq s + 1). cbn.
    repeat split; try lia.
    + rewrite H11. apply Em_snoc. exact He.
    + apply Forall_app. split; [exact H6|]. constructor; [|constructor]. cbn. lia.
    + destruct (bs1 c / 2 >=? e_eof s - mv) eqn:E5; lia.
Qed.

(* ---- the drain loops -------------------------------------------------------- *)

Lemma drain_pre c nin : WF c ->
  forall fuel s orc acc,
    EInv c nin false s acc -> (Z.to_nat (e_cur s / 32) + 1 <= fuel)%nat ->
    exists s' orc' acc', enc_drain c fuel s orc acc = Some (s', orc', acc') /\ EInv c nin false s' acc'.
Proof.
  intros Hc. induction fuel as [|f IH]; intros s orc acc H Hf; [lia|].
  cbn [enc_drain].
  destruct (enc_blockout c s (match orc with [] => -1 | x :: _ => x end)) as [s' ob] eqn:E.
  pose proof (blockout_pre c nin s acc _ s' ob Hc H E) as Hb.
  destruct ob as [b|].
  - destruct Hb as [Hi Hd]. apply IH; [exact Hi|].
    destruct Hi as (off & W & lW & seq & _ & _ & _ & _ & _ & H5 & _).
    unfold WF in Hc. lia.
  - eexists _, _, _. split; [reflexivity|exact Hb].
Qed.

Lemma blockout_done c s bp : e_eof s = -1 -> enc_blockout c s bp = (s, None).
Proof.
  intros H. unfold enc_blockout. destruct (negb (e_pre s)); [reflexivity|]. rewrite H. reflexivity.
Qed.

Lemma drain_eof c nin : WF c -> 0 <= nin ->
  forall fuel s orc acc,
    EInv c nin true s acc -> (Z.to_nat (e_cur s / 32) + 2 <= fuel)%nat ->
    exists s' orc' acc', enc_drain c fuel s orc acc = Some (s', orc', acc') /\ FinalSeq c nin acc'.
Proof.
  intros Hc Hn. induction fuel as [|f IH]; intros s orc acc H Hf; [lia|].
  cbn [enc_drain].
  destruct (enc_blockout c s (match orc with [] => -1 | x :: _ => x end)) as [s' ob] eqn:E.
  destruct (blockout_eof c nin s acc _ s' ob Hc Hn H E) as (b & -> & [[Hi Hd]|[Hfin Hdone]]).
  - apply IH; [exact Hi|].
    destruct Hi as (off & W & lW & seq & _ & _ & _ & _ & _ & H5 & _).
    unfold WF in Hc. lia.
  - destruct f as [|f']; [lia|]. cbn [enc_drain]. rewrite blockout_done by exact Hdone.
    eexists _, _, _. split; [reflexivity|exact Hfin].
Qed.

Lemma drain_fuel_ok s : 0 <= e_cur s -> (Z.to_nat (e_cur s / 32) + 2 <= drain_fuel s)%nat.
Proof. intros H. unfold drain_fuel. lia. Qed.

Lemma einv_cur_nonneg c nin eofd s acc : WF c -> EInv c nin eofd s acc -> 0 <= e_cur s.
Proof.
  intros Hc (off & W & lW & seq & _ & _ & _ & _ & _ & H5 & _). unfold WF in Hc. lia.
Qed.

Definition chunks_ok (chunks : list Z) : Prop := Forall (fun n => 0 < n) chunks.

Lemma wrote_after_buffer c s n : 0 < n -> exists s', enc_wrote c (enc_buffer s n) n = (0, s').
Proof.
  intros Hn. unfold enc_wrote. destruct (n <=? 0) eqn:E0; [lia|].
  unfold enc_buffer. destruct (e_cur s + n >=? e_storage s) eqn:E1; cbn.
  - destruct (e_cur s + n >? e_cur s + n * 2) eqn:E2; [lia|]. eexists; reflexivity.
  - destruct (e_cur s + n >? e_storage s) eqn:E2; [lia|]. eexists; reflexivity.
Qed.

Lemma feed_inv c : WF c ->
  forall chunks s orc acc nin,
    chunks_ok chunks -> EInv c nin false s acc ->
    exists s' orc' acc', enc_feed c s chunks orc acc = Some (s', orc', acc') /\
                         EInv c (nin + fold_right Z.add 0 chunks) false s' acc'.
Proof.
  intros Hc. induction chunks as [|n r IH]; intros s orc acc nin Hk H; cbn [enc_feed fold_right].
  - rewrite Z.add_0_r. eexists _, _, _. split; [reflexivity|exact H].
  - inversion Hk as [|? ? Hn Hr]; subst.
    destruct (wrote_after_buffer c s n Hn) as [s2 E2]. rewrite E2.
    pose proof (einv_wrote c nin _ acc n s2 Hn (einv_buffer c nin false s acc n H) E2) as H2.
    destruct (drain_pre c (nin + n) Hc (drain_fuel s2) s2 orc acc H2) as (s3 & orc3 & acc3 & E3 & H3).
    { pose proof (drain_fuel_ok s2 (einv_cur_nonneg c _ _ s2 acc Hc H2)). lia. }
    rewrite E3.
    destruct (IH s3 orc3 acc3 (nin + n) Hr H3) as (s4 & orc4 & acc4 & E4 & H4).
    rewrite E4. eexists _, _, _. split; [reflexivity|].
    replace (nin + (n + fold_right Z.add 0 r)) with (nin + n + fold_right Z.add 0 r) by lia. exact H4.
Qed.

Lemma sum_nonneg chunks : chunks_ok chunks -> 0 <= fold_right Z.add 0 chunks.
Proof. induction 1; cbn; lia. Qed.

(* (A) every complete encode yields a final sequence for N = sum of the chunks *)
Lemma enc_run_final c chunks orc :
  WF c -> chunks_ok chunks ->
  exists s bl, enc_run c chunks orc = Some (s, bl) /\ FinalSeq c (fold_right Z.add 0 chunks) bl.
Proof.
  intros Hc Hk. unfold enc_run.
  destruct (feed_inv c Hc chunks (enc_init c) orc [] 0 Hk (einv_init c Hc)) as (s & orc1 & acc & E & H).
  rewrite E. rewrite Z.add_0_l in H.
  destruct (enc_wrote c s 0) as [rc s1] eqn:Ew.
  assert (rc = 0) as -> by (unfold enc_wrote in Ew; cbn in Ew; inversion Ew; reflexivity).
  pose proof (einv_eof c _ s acc s1 Hc H Ew) as H1.
  destruct (drain_eof c _ Hc (sum_nonneg chunks Hk) (drain_fuel s1) s1 orc1 acc H1) as (s2 & orc2 & acc2 & E2 & Hf).
  { apply drain_fuel_ok. eapply einv_cur_nonneg; eauto. }
  rewrite E2. eexists _, _. split; [reflexivity|exact Hf].
Qed.

(* ---- properties of final sequences ----------------------------------------- *)

Lemma emitted_lt_off c acc off W lW seq : WF c ->
  Emitted c acc off W lW seq -> 0 <= off /\ Forall (fun b => b_gran b < off) acc.
Proof.
  intros Hc H. induction H as [|acc off W lW seq nW H [IH0 IH]].
  - split; [lia|constructor].
  - pose proof (step_bounds c W nW Hc). split; [lia|].
    apply Forall_app. split.
    + eapply forall_lt_mono; [|exact IH]. lia.
    + constructor; [cbn; lia|constructor].
Qed.

Lemma sorted_snoc (l : list Z) x : StronglySorted Z.lt l -> Forall (fun y => y < x) l -> StronglySorted Z.lt (l ++ [x]).
Proof.
  induction l as [|a l IH]; intros Hs Hf; cbn.
  - constructor; constructor.
  - inversion Hs; subst. inversion Hf; subst. constructor.
    + apply IH; assumption.
    + apply Forall_app. split; [assumption|constructor; [assumption|constructor]].
Qed.

Lemma emitted_sorted c acc off W lW seq : WF c ->
  Emitted c acc off W lW seq -> StronglySorted Z.lt (map b_gran acc).
Proof.
  intros Hc H. induction H as [|acc off W lW seq nW H IH]; [constructor|].
  rewrite map_app. cbn. apply sorted_snoc; [exact IH|].
  destruct (emitted_lt_off c acc off W lW seq Hc H) as [_ Hf].
  rewrite Forall_map. exact Hf.
Qed.

(* granule positions strictly increase up to the last packet, which carries N *)
Lemma final_granules c N bl : WF c -> FinalSeq c N bl ->
  StronglySorted Z.lt (map b_gran (removelast bl)) /\
  Forall (fun b => b_gran b < N /\ b_eof b = false) (removelast bl) /\
  b_gran (last bl (mkb false false false 0 0 false)) = N /\
  b_eof (last bl (mkb false false false 0 0 false)) = true.
Proof.
  intros Hc (acc & off & W & lW & seq & nW & He & -> & Hle & Hf).
  rewrite removelast_last, last_last. cbn.
  repeat split.
  - eapply emitted_sorted; eauto.
  - clear Hle. induction He as [|acc off W lW seq nW0 He IH]; [constructor|].
    apply Forall_app in Hf. destruct Hf as [Hf1 Hf2]. apply Forall_app. split; [apply IH; exact Hf1|].
    inversion Hf2; subst. constructor; [split; [assumption|reflexivity]|constructor].
Qed.

(* window flags agree with the neighbours' block sizes *)
Inductive Chained : list eblock -> Prop :=
| Ch_nil : Chained []
| Ch_one b : Chained [b]
| Ch_cons a b r : b_nW a = b_W b -> b_lW b = b_W a -> b_seq b = b_seq a + 1 -> Chained (b :: r) -> Chained (a :: b :: r).

Lemma chained_snoc l b : Chained l ->
  (forall a, l <> [] -> a = last l b -> b_nW a = b_W b /\ b_lW b = b_W a /\ b_seq b = b_seq a + 1) ->
  Chained (l ++ [b]).
Proof.
  induction 1 as [|a|a b0 r H1 H2 H3 H IH]; intros Hl; cbn.
  - constructor.
  - destruct (Hl a) as (X & Y & Z0); [discriminate|reflexivity|]. constructor; auto. constructor.
  - constructor; auto. apply IH. intros x Hx Hlast. apply Hl; [discriminate|].
    rewrite Hlast. cbn. reflexivity.
Qed.

Lemma emitted_chained c acc off W lW seq :
  Emitted c acc off W lW seq ->
  Chained acc /\ (acc <> [] -> forall d, b_nW (last acc d) = W /\ b_W (last acc d) = lW /\ b_seq (last acc d) + 1 = seq)
  /\ (acc = [] -> W = false /\ lW = false).
Proof.
  induction 1 as [|acc off W lW seq nW H (IH1 & IH2 & IH3)].
  - split; [constructor|]. split; [congruence|auto].
  - split; [|split].
    + apply chained_snoc; [exact IH1|]. intros a Hne Ha. specialize (IH2 Hne (mkb lW W nW seq off false)).
      rewrite <- Ha in IH2. cbn. destruct IH2 as (X & Y & Z0). repeat split; auto; lia.
    + intros _ d. rewrite last_last. cbn. repeat split; reflexivity.
    + intros E. destruct acc; discriminate.
Qed.

Lemma final_chained c N bl : FinalSeq c N bl ->
  Chained bl /\ b_W (hd (mkb false false false 0 0 false) bl) = false.
Proof.
  intros (acc & off & W & lW & seq & nW & He & -> & _ & _).
  destruct (emitted_chained c acc off W lW seq He) as (H1 & H2 & H3). split.
  - apply chained_snoc; [exact H1|]. intros a Hne Ha. specialize (H2 Hne (mkb lW W nW seq N true)).
    rewrite <- Ha in H2. cbn. destruct H2 as (X & Y & Z0). repeat split; auto; lia.
  - destruct acc as [|a r].
    + cbn. apply H3. reflexivity.
    + cbn. clear -He. remember (a :: r) as l eqn:El. revert a r El.
      induction He as [|acc off W lW seq nW He IH]; intros a r El; [discriminate|].
      destruct acc as [|a0 r0].
      * cbn in El. inversion El; subst. cbn. inversion He; subst; [reflexivity|].
        match goal with H : _ ++ [_] = [] |- _ => destruct acc; discriminate H end.
      * cbn in El. inversion El; subst. eapply IH. reflexivity.
Qed.

(* ---- decoder ----------------------------------------------------------------- *)

(* half-rate flag: 0, or 1 with block sizes divisible by 8 (>= 128 in practice:
   vorbis_synthesis_halfrate refuses 64-sample blocks) *)
Definition WFh (c : cfg) : Prop :=
  WF c /\ (hs c = 0 \/ (hs c = 1 /\ bs0 c mod 8 = 0 /\ bs1 c mod 8 = 0)).
Definition WF0 (c : cfg) : Prop := WF c /\ hs c = 0.
Lemma WF0_WFh c : WF0 c -> WFh c.
Proof. intros [H1 H2]. split; auto. Qed.

Definition n1of (c : cfg) : Z := Z.shiftr (bs1 c) (hs c + 1).
Definition hdiv (c : cfg) (x : Z) : Z := x / 2 ^ hs c.

Ltac hs_cases Hh :=
  let E0 := fresh "Eb0" in let E1 := fresh "Eb1" in
  destruct Hh as [Hh | (Hh & E0 & E1)]; rewrite ?Hh in *;
  cbn [Z.add] in *;
  rewrite ?Z.shiftr_div_pow2, ?Z.shiftl_mul_pow2 in * by lia;
  change (2 ^ 0) with 1 in *; change (2 ^ 1) with 2 in *; change (2 ^ 2) with 4 in *.

Lemma n1_pos c : WFh c -> 16 <= n1of c.
Proof.
  intros [[H1 H2] Hh]. unfold n1of. hs_cases Hh; lia.
Qed.

Lemma step_even c a b : WFh c -> hs c = 1 -> step c a b mod 2 = 0.
Proof.
  intros [[H1 H2] Hh] E. destruct Hh as [Hh | (Hh & E0 & E1)]; [lia|].
  unfold step, bsz. destruct a, b; lia.
Qed.

Lemma granule_tracked_eq h gran0 count1 stp b r cu :
  gran0 <> -1 -> gran0 + stp = k_gran b ->
  dec_granule h gran0 count1 stp b r cu = (k_gran b, r, cu).
Proof.
  intros H1 H2. unfold dec_granule.
  destruct (gran0 =? -1) eqn:E; [lia|].
  destruct (negb (k_gran b =? -1) && negb (gran0 + stp =? k_gran b)) eqn:E2; [lia|].
  rewrite H2. reflexivity.
Qed.

(* last packet: the tracked position overshoots the packet's by extra samples,
   which are taken off the end (extra >> hs returned samples) *)
Lemma granule_tracked_final h gran0 count1 stp b r cu :
  (h = 0 \/ h = 1) ->
  gran0 <> -1 -> k_gran b <> -1 -> k_eof b = true ->
  k_gran b <= gran0 + stp -> gran0 + stp - k_gran b <= (cu - r) * 2 ^ h ->
  dec_granule h gran0 count1 stp b r cu = (k_gran b, r, cu - (gran0 + stp - k_gran b) / 2 ^ h).
Proof.
  intros Hh H1 H2 H3 H4 H5. unfold dec_granule.
  destruct (gran0 =? -1) eqn:E; [lia|].
  destruct (negb (k_gran b =? -1) && negb (gran0 + stp =? k_gran b)) eqn:E2.
  - unfold trim_tracked. rewrite H3, andb_true_r.
    rewrite Z.shiftl_mul_pow2, Z.shiftr_div_pow2 by lia.
    destruct (gran0 + stp >? k_gran b) eqn:E3; [|lia].
    destruct (gran0 + stp - k_gran b >? (cu - r) * 2 ^ h) eqn:E4; [lia|].
    destruct (gran0 + stp - k_gran b <? 0) eqn:E5; [lia|].
    reflexivity.
  - assert (gran0 + stp = k_gran b) as -> by lia. f_equal. rewrite Z.sub_diag.
    destruct Hh as [-> | ->]; cbn; lia.
Qed.

Lemma granule_first_zero h stp b r cu :
  k_gran b = 0 -> dec_granule h (-1) 0 stp b r cu = (0, r, cu).
Proof.
  intros H. unfold dec_granule, trim_first. rewrite H. destruct (k_pcm b); reflexivity.
Qed.

Definition mkd lW W cw cur ret gran seq count eof : dec :=
  {| d_lW := lW; d_W := W; d_centerW := cw; d_cur := cur; d_ret := ret; d_gran := gran; d_seq := seq;
     d_count := count; d_eof := eof; d_fresh := true |}.

Lemma blockin_first c b :
  WFh c -> k_pcm b = true -> k_gran b = 0 ->
  dec_blockin c (dec_init c) b =
  (0, mkd false (k_W b) 0 (n1of c) (n1of c) 0 (k_seq b) 0 (k_eof b)).
Proof.
  intros Hc Hp Hg. pose proof (n1_pos c Hc) as Hn. destruct Hc as [Hc Hhs].
  unfold dec_blockin, dec_init, dec_restart. cbn [d_cur d_ret d_W d_seq d_gran d_count d_centerW d_eof d_lW].
  fold (n1of c).
  change ((-1 =? -1)) with true. rewrite andb_false_r. cbn [orb].
  unfold dec_pcmpart. cbn [d_cur d_ret d_centerW]. rewrite Hp. fold (n1of c).
  destruct (n1of c =? 0) eqn:E; [lia|].
  change (-1 =? -1) with true. cbv iota.
  rewrite granule_first_zero by exact Hg. reflexivity.
Qed.

Lemma blockin_tracked c s b :
  k_pcm b = true -> d_ret s = d_cur s -> 0 <= d_ret s ->
  d_seq s <> -1 -> d_seq s + 1 = k_seq b -> d_gran s <> -1 -> d_count s <> -1 ->
  let stp := step c (d_W s) (k_W b) in
  let prevC := if d_centerW s =? 0 then n1of c else 0 in
  dec_blockin c s b =
  (0, let '(g, r, cu) := dec_granule (hs c) (d_gran s) (d_count s + stp) stp b prevC (prevC + Z.shiftr stp (hs c)) in
      mkd (d_W s) (k_W b) (if d_centerW s =? 0 then n1of c else 0) cu r g (k_seq b) (d_count s + stp)
          (d_eof s || k_eof b)).
Proof.
  intros Hp Hr Hr0 Hs1 Hs2 Hg Hcn. cbv zeta.
  unfold dec_blockin. rewrite Hr.
  destruct ((d_cur s >? d_cur s) && negb (d_cur s =? -1)) eqn:E0; [lia|].
  destruct ((d_seq s =? -1) || negb (d_seq s + 1 =? k_seq b)) eqn:E1; [lia|].
  unfold dec_pcmpart. rewrite Hp, Hr. fold (n1of c).
  destruct (d_cur s =? -1) eqn:E2; [lia|].
  destruct (d_count s =? -1) eqn:E3; [lia|].
  fold (step c (d_W s) (k_W b)).
  destruct (dec_granule (hs c) (d_gran s) (d_count s + step c (d_W s) (k_W b)) (step c (d_W s) (k_W b)) b
              (if d_centerW s =? 0 then n1of c else 0)
              ((if d_centerW s =? 0 then n1of c else 0) + Z.shiftr (step c (d_W s) (k_W b)) (hs c))) as [[g r] cu].
  reflexivity.
Qed.

(* state after decoding the non-final blocks [acc] and draining all output;
   total counts returned samples: (centre of the last decoded block) >> hs *)
Definition DInv (c : cfg) (s : dec) (total : Z) (acc : list eblock) (off : Z) (W lW : bool) (seq : Z) : Prop :=
  match acc with
  | [] => s = dec_init c /\ total = 0
  | _ => d_W s = lW /\ d_seq s = seq - 1 /\ d_gran s = off - step c lW W /\ d_count s = off - step c lW W /\
         d_ret s = d_cur s /\ 0 <= d_ret s /\ total = hdiv c (off - step c lW W) /\
         (hs c = 1 -> (off - step c lW W) mod 2 = 0)
  end.

Lemma emitted_nonempty_facts c a r off W lW seq : WF c ->
  Emitted c (a :: r) off W lW seq -> 4 <= seq /\ 0 <= off - step c lW W.
Proof.
  intros Hc H. remember (a :: r) as l eqn:El. revert a r El.
  induction H as [|acc off W lW seq nW H IH]; intros a r El; [discriminate|].
  replace (off + step c W nW - step c W nW) with off by lia.
  destruct (emitted_lt_off c acc off W lW seq Hc H) as [H0 _].
  destruct acc as [|a0 r0].
  - inversion H; subst; [lia|]. match goal with X : _ ++ [_] = [] |- _ => destruct acc; discriminate X end.
  - destruct (IH a0 r0 eq_refl). lia.
Qed.

Lemma dec_mid c s total acc off W lW seq nW :
  WFh c -> Emitted c acc off W lW seq -> DInv c s total acc off W lW seq ->
  forall s' total', dec_step c (s, total) (to_dblock (mkb lW W nW seq off false)) = (s', total') ->
  DInv c s' total' (acc ++ [mkb lW W nW seq off false]) (off + step c W nW) nW W (seq + 1).
Proof.
  intros Hc He Hd s' total' E.
  pose proof (n1_pos c Hc) as Hn1. pose proof Hc as [Hc' Hhs].
  pose proof (step_bounds c lW W Hc') as Hst. pose proof (step_bounds c W nW Hc') as Hst2.
  pose proof (step_even c lW W Hc) as Hev.
  unfold DInv. destruct (acc ++ [mkb lW W nW seq off false]) eqn:Eapp; [destruct acc; discriminate|]. clear Eapp.
  replace (off + step c W nW - step c W nW) with off by lia.
  unfold dec_step in E. unfold DInv in Hd. destruct acc as [|a0 r0].
  - destruct Hd as (-> & ->). inversion He; subst; [|match goal with H : _ ++ [_] = [] |- _ => destruct acc; discriminate H end].
    rewrite blockin_first in E by (auto; reflexivity).
    unfold dec_pcmout, dec_read, mkd in E. cbn in E.
    destruct ((n1of c >? -1) && (n1of c <? n1of c)) eqn:E1; [lia|].
    cbn in E. injection E as <- <-. cbn. unfold hdiv.
    repeat split; first [lia | symmetry; apply Z.div_0_l; destruct Hhs as [-> | (-> & _)]; cbn; lia].
  - destruct Hd as (D1 & D2 & D3 & D4 & D5 & D6 & D7 & D8).
    destruct (emitted_nonempty_facts c a0 r0 off W lW seq Hc' He) as [Hseq Hoff].
    rewrite blockin_tracked in E; try assumption; try reflexivity;
      cbn [to_dblock mkb k_seq k_W k_gran k_eof k_pcm b_seq b_W b_gran b_eof]; try lia.
    rewrite D1, D3, D4 in E. cbn [to_dblock mkb k_seq k_W k_gran k_eof k_pcm b_seq b_W b_gran b_eof] in E.
    rewrite granule_tracked_eq in E by (cbn; lia). cbn [k_gran] in E.
    unfold dec_pcmout, dec_read, mkd in E. cbn [d_ret d_cur d_W d_lW d_seq d_gran d_count d_eof d_centerW] in E.
    set (prevC := if d_centerW s =? 0 then n1of c else 0) in *.
    assert (0 <= prevC) by (unfold prevC; destruct (d_centerW s =? 0); lia).
    set (out := Z.shiftr (step c lW W) (hs c)) in *.
    assert (16 <= out /\ total + out = hdiv c off /\ (hs c = 1 -> off mod 2 = 0)) as (Ho & Ht & Hpar).
    { unfold out, hdiv in *. subst total. clear E. hs_cases Hhs; lia. }
    destruct ((prevC >? -1) && (prevC <? prevC + out)) eqn:E1; [|lia].
    replace (prevC + out - prevC) with out in E by lia.
    destruct (negb (out =? 0) && (prevC + out >? prevC + out)) eqn:E2; [lia|].
    cbn in E. injection E as <- <-. cbn. repeat split; first [lia | exact Hpar].
Qed.

Lemma dec_run_emitted c acc off W lW seq :
  WFh c -> Emitted c acc off W lW seq ->
  DInv c (fst (dec_run c (map to_dblock acc))) (snd (dec_run c (map to_dblock acc))) acc off W lW seq.
Proof.
  intros Hc He. induction He as [|acc off W lW seq nW He IH].
  - cbn. split; reflexivity.
  - unfold dec_run in *. rewrite map_app, fold_left_app. cbn [map fold_left].
    destruct (fold_left (dec_step c) (map to_dblock acc) (dec_init c, 0)) as [s total] eqn:E0.
    cbn [fst snd] in IH.
    destruct (dec_step c (s, total) (to_dblock (mkb lW W nW seq off false))) as [s' total'] eqn:E1.
    cbn [fst snd]. eapply dec_mid; eauto.
Qed.

(* (B) decoding a final sequence returns exactly ceil(N / 2^hs) samples *)
Lemma dec_run_final_h c N bl :
  WFh c -> 0 <= N -> FinalSeq c N bl ->
  snd (dec_run c (map to_dblock bl)) = (N + 2 ^ hs c - 1) / 2 ^ hs c.
Proof.
  intros Hc HN (acc & off & W & lW & seq & nW & He & -> & Hle & Hf).
  pose proof (dec_run_emitted c acc off W lW seq Hc He) as Hd.
  pose proof (n1_pos c Hc) as Hn1. pose proof Hc as [Hc' Hhs].
  pose proof (step_bounds c lW W Hc') as Hst.
  pose proof (step_even c lW W Hc) as Hev.
  unfold dec_run in *. rewrite map_app, fold_left_app. cbn [map fold_left].
  destruct (fold_left (dec_step c) (map to_dblock acc) (dec_init c, 0)) as [s total].
  cbn [fst snd] in Hd. unfold dec_step. unfold DInv in Hd. destruct acc as [|a0 r0].
  - destruct Hd as (-> & ->). inversion He; subst; [|match goal with H : _ ++ [_] = [] |- _ => destruct acc; discriminate H end].
    assert (N = 0) as -> by lia.
    rewrite blockin_first by (auto; reflexivity).
    unfold dec_pcmout, dec_read, mkd. cbn.
    destruct ((n1of c >? -1) && (n1of c <? n1of c)) eqn:E1; [lia|]. cbn.
    destruct Hhs as [-> | (-> & _)]; reflexivity.
  - destruct Hd as (D1 & D2 & D3 & D4 & D5 & D6 & D7 & D8).
    destruct (emitted_nonempty_facts c a0 r0 off W lW seq Hc' He) as [Hseq Hoff].
    assert (off - step c lW W < N) as Hlast.
    { clear -He Hf Hc'. inversion He as [|acc1 off1 W1 lW1 seq1 nW1 He1 Eacc]; subst.
      rewrite <- Eacc in Hf. apply Forall_app in Hf. destruct Hf as [_ Hf]. inversion Hf; subst. cbn in *. lia. }
    rewrite blockin_tracked; try assumption; try reflexivity;
      cbn [to_dblock mkb k_seq k_W k_gran k_eof k_pcm b_seq b_W b_gran b_eof]; try lia.
    rewrite D1, D3, D4. cbn [to_dblock mkb k_seq k_W k_gran k_eof k_pcm b_seq b_W b_gran b_eof].
    set (prevC := if d_centerW s =? 0 then n1of c else 0) in *.
    assert (0 <= prevC) by (unfold prevC; destruct (d_centerW s =? 0); lia).
    set (out := Z.shiftr (step c lW W) (hs c)) in *.
    assert (out * 2 ^ hs c = step c lW W) as Hout.
    { unfold out. clear D7. hs_cases Hhs; lia. }
    assert (hs c = 0 \/ hs c = 1) as Hh01 by (destruct Hhs as [-> | (-> & _)]; auto).
    rewrite granule_tracked_final;
      cbn [to_dblock mkb k_seq k_W k_gran k_eof k_pcm b_seq b_W b_gran b_eof];
      first [exact Hh01 | reflexivity | lia | idtac].
    unfold dec_pcmout, dec_read, mkd. cbn [d_ret d_cur d_W d_lW d_seq d_gran d_count d_eof d_centerW].
    set (x := (off - step c lW W + step c lW W - N) / 2 ^ hs c) in *.
    assert (0 <= x < out /\ total + (out - x) = (N + 2 ^ hs c - 1) / 2 ^ hs c) as (Hx & Htot).
    { unfold x, out, hdiv in *. subst total. clear Hout. hs_cases Hhs; lia. }
    destruct ((prevC >? -1) && (prevC <? prevC + out - x)) eqn:E1; [|lia].
    destruct (negb (prevC + out - x - prevC =? 0) && (prevC + (prevC + out - x - prevC) >? prevC + out - x)) eqn:E2; [lia|].
    cbn [snd]. lia.
Qed.

Lemma dec_run_final c N bl :
  WF0 c -> 0 <= N -> FinalSeq c N bl -> snd (dec_run c (map to_dblock bl)) = N.
Proof.
  intros Hc HN Hf. rewrite (dec_run_final_h c N bl (WF0_WFh c Hc) HN Hf).
  destruct Hc as [_ ->]. cbn. rewrite Z.div_1_r. lia.
Qed.

(* C20: with half-rate on, a link of N samples yields ceil(N/2) *)
Lemma dec_run_final_half c N bl :
  WFh c -> hs c = 1 -> 0 <= N -> FinalSeq c N bl -> snd (dec_run c (map to_dblock bl)) = (N + 1) / 2.
Proof.
  intros Hc Hh HN Hf. rewrite (dec_run_final_h c N bl Hc HN Hf). rewrite Hh.
  change (2 ^ 1) with 2. f_equal. lia.
Qed.

(* C04: encode then decode preserves the exact sample count *)
Lemma enc_dec_count c chunks orc :
  WF0 c -> chunks_ok chunks ->
  exists s bl, enc_run c chunks orc = Some (s, bl) /\
               snd (dec_run c (map to_dblock bl)) = fold_right Z.add 0 chunks.
Proof.
  intros Hc Hk. destruct (enc_run_final c chunks orc (proj1 Hc) Hk) as (s & bl & E & Hf).
  exists s, bl. split; [exact E|]. apply dec_run_final; auto. apply sum_nonneg, Hk.
Qed.
