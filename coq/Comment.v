(* M12: comment handling of lib/info.c (definitions only; proofs in
   Comment_lemmas.v).  Bytes are N (< 256 where it matters). *)
From VV Require Export Bits.
Local Open Scope N_scope.

Definition cstr := list N.           (* bytes of a comment, explicit length *)

(* _v_toupper *)
Definition toupper (c : N) : N :=
  if (97 <=? c) && (c <=? 122) then c - 32 else c.

(* tagcompare(s1=comment buffer (len+1 bytes, last one 0), s2=fulltag, n=|fulltag|).
   Three results: match, mismatch, or an access beyond the comment's buffer. *)
Inductive cmp := Match | Mismatch | OutOfBuffer.

Fixpoint tagcompare (buf fulltag : list N) {struct fulltag} : cmp :=
  match fulltag with
  | [] => Match
  | t :: ts =>
      match buf with
      | [] => OutOfBuffer
      | b :: bs => if toupper b =? toupper t then tagcompare bs ts else Mismatch
      end
  end.

Definition cbuf (c : cstr) : list N := c ++ [0].
Definition fulltag (tag : list N) : list N := tag ++ [61].   (* '=' *)

Definition matches (tag : list N) (c : cstr) : bool :=
  match tagcompare (cbuf c) (fulltag tag) with Match => true | _ => false end.

(* vorbis_comment_query: (index of the comment, offset of the returned pointer) *)
Fixpoint query_from (i : N) (cs : list cstr) (tag : list N) (count : nat) : option (N * N) :=
  match cs with
  | [] => None
  | c :: r =>
      if matches tag c then
        match count with
        | O => Some (i, N.of_nat (length tag) + 1)
        | S k => query_from (i + 1) r tag k
        end
      else query_from (i + 1) r tag count
  end.
Definition query (cs : list cstr) (tag : list N) (count : nat) := query_from 0 cs tag count.

Fixpoint query_count (cs : list cstr) (tag : list N) : nat :=
  match cs with
  | [] => O
  | c :: r => (if matches tag c then 1 else 0)%nat + query_count r tag
  end.

(* the value a successful query points at: the bytes after "TAG=" *)
Definition query_value (cs : list cstr) (tag : list N) (count : nat) : option cstr :=
  match query cs tag count with
  | Some (i, off) => Some (skipn (N.to_nat off) (nth (N.to_nat i) cs []))
  | None => None
  end.

(* vorbis_comment_add / comment_add_tag (C strings: no zero byte inside) *)
Definition comment_add (cs : list cstr) (c : cstr) : list cstr := cs ++ [c].
Definition comment_add_tag (cs : list cstr) (tag contents : list N) : list cstr :=
  comment_add cs (tag ++ [61] ++ contents).

(* ---- header packet ---------------------------------------------------- *)

Definition vorbis_magic : list N := [118; 111; 114; 98; 105; 115].  (* "vorbis" *)

Fixpoint pack_entries (cs : list cstr) : list N :=
  match cs with
  | [] => []
  | c :: r => le32 (N.of_nat (length c)) ++ c ++ pack_entries r
  end.

(* _vorbis_pack_comment: the trailing framing bit makes a last byte 0x01 *)
Definition pack_comment (vendor : cstr) (cs : list cstr) : list N :=
  [3] ++ vorbis_magic ++ le32 (N.of_nat (length vendor)) ++ vendor ++
  le32 (N.of_nat (length cs)) ++ pack_entries cs ++ [1].

Inductive verdict := ENotVorbis | EBadHeader.

(* comments of _vorbis_unpack_comment; [storage] = packet length in bytes,
   [rest] = unread bytes (so bytes consumed = storage - |rest|) *)
Fixpoint unpack_entries (storage : Z) (n : nat) (rest : list N) : option (list cstr * list N) :=
  match n with
  | O => Some ([], rest)
  | S k =>
      match read32 rest with
      | None => None
      | Some (v, rest1) =>
          let len := to_int32 v in
          if (len <? 0)%Z then None
          else if (len >? Z.of_nat (length rest1))%Z then None
          else match take (Z.to_nat len) rest1 with
               | None => None
               | Some (c, rest2) =>
                   match unpack_entries storage k rest2 with
                   | None => None
                   | Some (cs, rest3) => Some (c :: cs, rest3)
                   end
               end
      end
  end.

Definition unpack_comment_body (storage : Z) (rest : list N) : option (cstr * list cstr) :=
  match read32 rest with
  | None => None
  | Some (v, rest1) =>
      let vlen := to_int32 v in
      if (vlen <? 0)%Z then None
      else if (vlen >? storage - 8)%Z then None
      else match take (Z.to_nat vlen) rest1 with
           | None => None
           | Some (vendor, rest2) =>
               match read32 rest2 with
               | None => None
               | Some (v2, rest3) =>
                   let n := to_int32 v2 in
                   if (n <? 0)%Z then None
                   else if (n >? Z.shiftr (Z.of_nat (length rest3)) 2)%Z then None
                   else match unpack_entries storage (Z.to_nat n) rest3 with
                        | None => None
                        | Some (cs, rest4) =>
                            match rest4 with
                            | b :: _ => if N.odd b then Some (vendor, cs) else None
                            | [] => None
                            end
                        end
               end
           end
  end.

(* vorbis_synthesis_headerin restricted to a comment packet arriving after a
   valid identification header and before any other comment header *)
Definition headerin_comment (pkt : list N) : verdict + (cstr * list cstr) :=
  match pkt with
  | t :: m0 :: m1 :: m2 :: m3 :: m4 :: m5 :: rest =>
      if list_eqb [m0; m1; m2; m3; m4; m5] vorbis_magic then
        if t =? 3 then
          match unpack_comment_body (Z.of_nat (length pkt)) rest with
          | Some r => inr r
          | None => inl EBadHeader
          end
        else inl EBadHeader  (* other types are not this model's business *)
      else inl ENotVorbis
  | _ => inl ENotVorbis
  end.
