(* C11  A damaged or skipped packet disturbs only its own neighbourhood.
   Statements about the symbolic PCM buffer of Overlap.v (lib/block.c:
   vorbis_synthesis_blockin / _restart). *)
From VV Require Import Blocking Blocking_lemmas Overlap Overlap_lemmas.
Local Open Scope Z_scope.

(* Whatever state and buffer contents the decoder had (after any sequence of
   lost, altered, rejected, duplicated packets or a restart), after blockin of
   packet k and then of packet k+1 the samples between the two block centres
   are exactly the specification's overlap-add of packets k and k+1 ... *)
Theorem C11_two_packets_determine_output :
  forall c s s1 b1 b2 k buf j,
    SizesOK c -> d_W s1 = k_W b1 ->
    d_centerW s1 = (if d_centerW s =? 0 then half c true else 0) ->
    0 <= j < half c (k_W b1) / 2 + half c (k_W b2) / 2 ->
    blockin_buf c s1 b2 (k + 1) (blockin_buf c s b1 k buf)
      ((if d_centerW s1 =? 0 then half c true else 0) + j) =
    spec_out (half c false) (half c true) (k_W b1) (k_W b2) k (k + 1) j.
Proof. exact two_blockins_spec. Qed.
Print Assumptions C11_two_packets_determine_output.

(* ... hence depend on no packet other than k and k+1 (nor on prior contents). *)
Theorem C11_provenance_two :
  forall c s s1 b1 b2 k buf j x,
    SizesOK c -> d_W s1 = k_W b1 ->
    d_centerW s1 = (if d_centerW s =? 0 then half c true else 0) ->
    0 <= j < half c (k_W b1) / 2 + half c (k_W b2) / 2 ->
    In x (pkts (blockin_buf c s1 b2 (k + 1) (blockin_buf c s b1 k buf)
                 ((if d_centerW s1 =? 0 then half c true else 0) + j))) ->
    x = k \/ x = k + 1.
Proof. exact provenance_two. Qed.
Print Assumptions C11_provenance_two.

(* The samples handed out after a blockin lie inside that region - for
   arbitrary granule positions, eos flags and sequence numbers. *)
Theorem C11_returned_range_in_region :
  forall c s b s',
    (hs c = 0 \/ hs c = 1) -> SizesOK c -> k_pcm b = true -> dec_blockin c s b = (0, s') ->
    let prevC := if d_centerW s =? 0 then half c true else 0 in
    let thisC := if d_centerW s =? 0 then 0 else half c true in
    if d_ret s =? -1 then d_ret s' = thisC /\ d_cur s' = thisC
    else prevC <= d_ret s' /\ d_ret s' <= d_cur s' /\
         d_cur s' <= prevC + Z.shiftr (bsz c (d_W s) / 4 + bsz c (k_W b) / 4) (hs c).
Proof. exact blockin_returned_range_all. Qed.
Print Assumptions C11_returned_range_in_region.

(* For ARBITRARY granule positions: never more than blockin produced, and the
   read position never passes the write position. *)
Theorem C11_trim_any_granule :
  forall h gran0 count1 stp b r cu,
    (h = 0 \/ h = 1) -> r <= cu -> -2147483648 <= r ->
    let '(g, r', cu') := dec_granule h gran0 count1 stp b r cu in
    r' <= cu' /\ r <= cu' /\ cu' <= cu /\ -2147483648 <= r'.
Proof. exact granule_range_any. Qed.
Print Assumptions C11_trim_any_granule.

(* Granule/sequence bookkeeping (lost after a gap) does not reach the audio path. *)
Theorem C11_audio_path_ignores_tracking :
  forall c s s' b k buf, d_W s = d_W s' -> (d_centerW s =? 0) = (d_centerW s' =? 0) ->
    forall i, blockin_buf c s b k buf i = blockin_buf c s' b k buf i.
Proof. exact blockin_buf_ext. Qed.
Print Assumptions C11_audio_path_ignores_tracking.

(* Writes stay inside the 2*n1 cells; cells outside the written ranges keep
   their value; packet and window indices are in range. *)
Theorem C11_writes_in_bounds :
  forall c s b, SizesOK c ->
    Forall (fun r => 0 <= fst r /\ fst r <= snd r /\ snd r <= 2 * half c true) (blockin_writes c s b).
Proof. exact blockin_writes_in_bounds. Qed.
Print Assumptions C11_writes_in_bounds.

Theorem C11_frame :
  forall c s b k buf i, SizesOK c ->
    (forall r, In r (blockin_writes c s b) -> ~ (fst r <= i < snd r)) ->
    blockin_buf c s b k buf i = buf i.
Proof. exact blockin_buf_frame. Qed.
Print Assumptions C11_frame.

Theorem C11_reads_in_bounds :
  forall c s b k buf i, SizesOK c ->
    (forall i, pcm_idx_ok c k (k_W b) (buf i) /\ win_idx_ok (buf i)) ->
    pcm_idx_ok c k (k_W b) (blockin_buf c s b k buf i) /\ win_idx_ok (blockin_buf c s b k buf i).
Proof. exact blockin_reads_in_bounds. Qed.
Print Assumptions C11_reads_in_bounds.

(* non-vacuity: the hypotheses hold for real block sizes, incl. half-rate *)
Example C11_sizes_nonvacuous :
  SizesOK {| bs0 := 64; bs1 := 64; hs := 0 |} /\ SizesOK {| bs0 := 256; bs1 := 2048; hs := 0 |} /\
  SizesOK {| bs0 := 128; bs1 := 8192; hs := 1 |}.
Proof. unfold SizesOK, half; cbn. repeat split; lia. Qed.

Example C11_concrete_lap :
  let c := {| bs0 := 64; bs1 := 256; hs := 0 |} in
  let s := dec_init c in
  let b1 := {| k_W := true; k_gran := 0; k_seq := 3; k_eof := false; k_pcm := true |} in
  let b2 := {| k_W := false; k_gran := 80; k_seq := 4; k_eof := false; k_pcm := true |} in
  let s1 := snd (dec_blockin c s b1) in
  blockin_buf c s1 b2 8 (blockin_buf c s b1 7 SInit) (128 + 50) =
  SLap (SPcm 7 178) 29 (SPcm 8 2) 2 32.
Proof. vm_compute. reflexivity. Qed.
