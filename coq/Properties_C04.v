(* C04  Encode then decode preserves the exact sample count and starts at zero.
   Statements about the block-sequencing automata of Blocking.v (lib/block.c). *)
From VV Require Import Blocking Blocking_lemmas.
From Coq Require Import Sorted.
Local Open Scope Z_scope.

(* For every pair of block sizes, every partition of N into positive chunks
   and EVERY sequence of envelope-search results, the encoder run terminates
   and decoding what it produced returns exactly N samples. *)
Theorem C04_enc_dec_count :
  forall c chunks orc, WF0 c -> chunks_ok chunks ->
    exists s bl, enc_run c chunks orc = Some (s, bl) /\
                 snd (dec_run c (map to_dblock bl)) = fold_right Z.add 0 chunks.
Proof. exact enc_dec_count. Qed.
Print Assumptions C04_enc_dec_count.

(* The encoder terminates (never out of fuel) with a final sequence: ... *)
Theorem C04_enc_terminates_final :
  forall c chunks orc, WF c -> chunks_ok chunks ->
    exists s bl, enc_run c chunks orc = Some (s, bl) /\ FinalSeq c (fold_right Z.add 0 chunks) bl.
Proof. exact enc_run_final. Qed.
Print Assumptions C04_enc_terminates_final.

(* ... granule positions strictly increase, every non-final one is below N
   and not flagged, the last packet carries granule position N and eos. *)
Theorem C04_granules_monotone_last_is_N :
  forall c N bl, WF c -> FinalSeq c N bl ->
    StronglySorted Z.lt (map b_gran (removelast bl)) /\
    Forall (fun b => b_gran b < N /\ b_eof b = false) (removelast bl) /\
    b_gran (last bl (mkb false false false 0 0 false)) = N /\
    b_eof (last bl (mkb false false false 0 0 false)) = true.
Proof. exact final_granules. Qed.
Print Assumptions C04_granules_monotone_last_is_N.

(* window flags of each packet agree with its neighbours; the first block is short *)
Theorem C04_window_flags_consistent :
  forall c N bl, FinalSeq c N bl ->
    Chained bl /\ b_W (hd (mkb false false false 0 0 false) bl) = false.
Proof. exact final_chained. Qed.
Print Assumptions C04_window_flags_consistent.

(* any well-formed final sequence decodes to N samples, whatever produced it *)
Theorem C04_dec_count_of_final :
  forall c N bl, WF0 c -> 0 <= N -> FinalSeq c N bl -> snd (dec_run c (map to_dblock bl)) = N.
Proof. exact dec_run_final. Qed.
Print Assumptions C04_dec_count_of_final.

(* non-vacuity: concrete runs at (256, 2048), including N = 0 and N < one block *)
Definition c256 : cfg := {| bs0 := 256; bs1 := 2048; hs := 0 |}.
Definition total_of (chunks orc : list Z) : option Z :=
  match enc_run c256 chunks orc with
  | Some (_, bl) => Some (snd (dec_run c256 (map to_dblock bl)))
  | None => None
  end.
Example C04_nonvacuous_wf : WF0 c256.
Proof. unfold WF0, WF, c256; cbn; lia. Qed.
Example C04_nonvacuous_runs :
  total_of [] [] = Some 0 /\ total_of [1] [1;0;1] = Some 1 /\ total_of [63] [] = Some 63 /\
  total_of [1000; 1048] [1;1;0;0;1] = Some 2048 /\
  total_of [4096; 4096; 4096; 4096; 4096; 4096; 4096; 4096; 4096; 4096; 3140] [1;1;1;0;0;1;1;0;1;1;1;1;1;1;1;1;1;1;1;0;0;0;1] = Some 44100.
Proof. vm_compute. repeat split; reflexivity. Qed.
