From VV Require Import SrcFacts EncSetup.
From Coq Require Import ZifyBool.
Local Open Scope Z_scope.

Definition the_templates : list template := map mk_template setup_templates.

Section WithBump.
(* the rounding behaviour of the float sum j+del: arbitrary *)
Variable bump : bumpfn.

Lemma find_j_range mp req : forall fuel j mappings,
  0 <= j <= mappings -> j <= find_j fuel mp req j mappings <= mappings.
Proof.
  induction fuel as [|f IH]; intros j mappings Hj; cbn [find_j]; [lia|].
  destruct (j >=? mappings) eqn:E; [lia|].
  destruct (dge req (dnth mp j) && dlt req (dnth mp (j + 1))); [lia|].
  specialize (IH (j + 1) mappings ltac:(lia)). lia.
Qed.

Definition tnth (tbl : list template) (i : Z) : template :=
  nth (Z.to_nat i) tbl {| t_coupling := 0; t_smin := 0; t_smax := 0; t_mappings := 0; t_qmap := []; t_rmap := []; t_short := []; t_long := [] |}.

(* the selected template exists and the setting index addresses its arrays:
   0 <= is and is + 1 <= mappings (the arrays have mappings + 1 entries) *)
Lemma lookup_in_range ch srate req bitrate : forall tbl i0 i is,
  Forall (fun t => 1 <= t_mappings t) tbl -> 0 <= i0 ->
  lookup bump tbl i0 ch srate req bitrate = Some (i, is) ->
  i0 <= i < i0 + Z.of_nat (length tbl) /\ 0 <= is < t_mappings (tnth tbl (i - i0)).
Proof.
  induction tbl as [|t rest IH]; intros i0 i is Hm H0 E; cbn [lookup] in E; [discriminate|].
  inversion Hm as [|? ? Ht Hrest]; subst.
  assert (lookup bump rest (i0 + 1) ch srate req bitrate = Some (i, is) ->
          i0 <= i < i0 + Z.of_nat (length (t :: rest)) /\ 0 <= is < t_mappings (tnth (t :: rest) (i - i0))) as Hrec.
  { intros E'. apply IH in E'; [|exact Hrest|lia]. destruct E' as [E1 E2]. cbn [length]. split; [lia|].
    unfold tnth in *. replace (Z.to_nat (i - i0)) with (S (Z.to_nat (i - (i0 + 1)))) by lia. cbn [nth]. exact E2. }
  destruct (((t_coupling t =? -1) || (t_coupling t =? ch)) && (srate >=? t_smin t) && (srate <=? t_smax t)).
  - destruct (dlt req (dnth (if bitrate then t_rmap t else t_qmap t) 0)); [exact (Hrec E)|].
    destruct (dlt (dnth (if bitrate then t_rmap t else t_qmap t) (t_mappings t)) req); [exact (Hrec E)|].
    inversion E; subst. cbn [length]. split; [lia|].
    rewrite Z.sub_diag. unfold tnth. cbn [Z.to_nat nth].
    pose proof (find_j_range (if bitrate then t_rmap t else t_qmap t) req (Z.to_nat (t_mappings t)) 0 (t_mappings t) ltac:(lia)) as Hj.
    destruct (find_j _ _ _ 0 (t_mappings t) =? t_mappings t) eqn:Ej; [lia|].
    unfold pick_is. cbn [andb]. destruct (bump i (find_j _ _ _ 0 (t_mappings t)));
      match goal with |- context [?a >=? ?b] => destruct (a >=? b) eqn:Ec end; lia.
  - exact (Hrec E).
Qed.

(* facts about the table the code has NOW (SrcFacts.v is regenerated from
   lib/vorbisenc.c + lib/modes on every run) *)
Definition pow2_64_8192 (x : Z) : bool := existsb (Z.eqb x) [64; 128; 256; 512; 1024; 2048; 4096; 8192].

Definition tmpl_ok (t : template) : bool :=
  (1 <=? t_mappings t) &&
  (Z.of_nat (length (t_qmap t)) =? t_mappings t + 1) &&
  (Z.of_nat (length (t_rmap t)) =? t_mappings t + 1) &&
  (Z.of_nat (length (t_short t)) =? t_mappings t) &&
  (Z.of_nat (length (t_long t)) =? t_mappings t) &&
  forallb pow2_64_8192 (t_short t) && forallb pow2_64_8192 (t_long t) &&
  forallb (fun p => fst p <=? snd p) (combine (t_short t) (t_long t)) &&
  (t_smin t <=? t_smax t).

Lemma templates_ok : forallb tmpl_ok the_templates = true.
Proof. vm_compute. reflexivity. Qed.

Lemma templates_mappings : Forall (fun t => 1 <= t_mappings t) the_templates.
Proof.
  apply Forall_forall. intros t Hin. pose proof templates_ok as H. rewrite forallb_forall in H.
  specialize (H t Hin). unfold tmpl_ok in H. lia.
Qed.

(* every block-size pair any template can install is a legal one: powers of
   two, 64 <= short <= long <= 8192 (checked over the whole table) *)
Definition all_pairs_ok : bool :=
  forallb (fun t => forallb (fun p => pow2_64_8192 (fst p) && pow2_64_8192 (snd p) && (fst p <=? snd p))
                            (combine (t_short t) (t_long t))) the_templates.
Lemma all_pairs_ok_true : all_pairs_ok = true.
Proof. vm_compute. reflexivity. Qed.

Lemma pow2_bounds x : pow2_64_8192 x = true -> 64 <= x <= 8192 /\ x mod 8 = 0.
Proof.
  unfold pow2_64_8192. cbn [existsb]. intros H.
  repeat match type of H with (_ || _) = true => apply orb_true_iff in H; destruct H as [H|H] end;
    try (apply Z.eqb_eq in H; subst; split; [lia|reflexivity]). discriminate.
Qed.

Lemma setup_init_blocks_gen tbl ch i is b0 b1 :
  forallb tmpl_ok tbl = true ->
  setup_init tbl ch (Some (i, is)) = (0, Some (b0, b1)) ->
  0 <= i < Z.of_nat (length tbl) ->
  0 <= is < t_mappings (tnth tbl i) ->
  64 <= b0 /\ b0 <= b1 /\ b1 <= 8192 /\ b0 mod 8 = 0 /\ b1 mod 8 = 0.
Proof.
  intros Hok E Hi His. unfold setup_init in E.
  destruct ((ch <? 1) || (ch >? 255)); [discriminate|].
  fold (tnth tbl i) in E. set (t := tnth tbl i) in *.
  injection E as <- <-.
  rewrite forallb_forall in Hok.
  assert (In t tbl) as Hin by (unfold t, tnth; apply nth_In; lia).
  specialize (Hok _ Hin). unfold tmpl_ok in Hok.
  repeat (apply andb_true_iff in Hok; destruct Hok as [Hok ?]).
  match goal with H : forallb pow2_64_8192 (t_short t) = true |- _ => rename H into Hs end.
  match goal with H : forallb pow2_64_8192 (t_long t) = true |- _ => rename H into Hl end.
  match goal with H : forallb _ (combine _ _) = true |- _ => rename H into Hc end.
  rewrite forallb_forall in Hs, Hl, Hc.
  assert (Z.to_nat is < length (t_short t))%nat as L1 by lia.
  assert (Z.to_nat is < length (t_long t))%nat as L2 by lia.
  pose proof (pow2_bounds _ (Hs _ (nth_In _ 0 L1))) as [B1 B2].
  pose proof (pow2_bounds _ (Hl _ (nth_In _ 0 L2))) as [B3 B4].
  assert (In (nth (Z.to_nat is) (t_short t) 0, nth (Z.to_nat is) (t_long t) 0) (combine (t_short t) (t_long t))) as Hin2.
  { rewrite <- (combine_nth (t_short t) (t_long t) (Z.to_nat is) 0 0) by lia. apply nth_In. rewrite combine_length. lia. }
  specialize (Hc _ Hin2). cbn [fst snd] in Hc. repeat split; lia.
Qed.

Lemma setup_init_blocks ch i is b0 b1 :
  setup_init the_templates ch (Some (i, is)) = (0, Some (b0, b1)) ->
  0 <= i < Z.of_nat (length the_templates) ->
  0 <= is < t_mappings (tnth the_templates i) ->
  64 <= b0 /\ b0 <= b1 /\ b1 <= 8192 /\ b0 mod 8 = 0 /\ b1 mod 8 = 0.
Proof. apply setup_init_blocks_gen. exact templates_ok. Qed.

(* every result of the set-up calls is success or a documented code *)
Lemma setup_vbr_codes tbl ch rate req :
  let rc := fst (setup_vbr bump tbl ch rate req) in rc = 0 \/ rc = OV_EINVAL_ \/ rc = OV_EIMPL_.
Proof. unfold setup_vbr. destruct (rate <=? 0); cbn; [auto|]. destruct (lookup _ _ _ _ _ _); cbn; auto. Qed.
Lemma setup_managed_codes tbl ch rate a b c req :
  let rc := fst (setup_managed bump tbl ch rate a b c req) in rc = 0 \/ rc = OV_EINVAL_ \/ rc = OV_EIMPL_.
Proof.
  unfold setup_managed. destruct (rate <=? 0); cbn; [auto|]. destruct (_ && _ && _); cbn; [auto|].
  destruct (lookup _ _ _ _ _ _); cbn; auto.
Qed.
Lemma setup_init_codes tbl ch sel :
  let rc := fst (setup_init tbl ch sel) in rc = 0 \/ rc = OV_EINVAL_.
Proof. unfold setup_init. destruct (_ || _); cbn; [auto|]. destruct sel as [[i is]|]; cbn; auto. Qed.

(* success of setup_init implies the requested channel count was in 1..255 and a template had been selected *)
Lemma setup_init_success tbl ch sel r : setup_init tbl ch sel = (0, r) -> 1 <= ch <= 255 /\ sel <> None.
Proof.
  unfold setup_init. destruct ((ch <? 1) || (ch >? 255)) eqn:E; [discriminate|].
  destruct sel as [[i is]|]; [|discriminate]. intros _. split; [lia|discriminate].
Qed.

Lemma ctl_frozen number : Z.land number 15 <> 0 -> ctl_gate true number = Some OV_EINVAL_.
Proof. intros H. unfold ctl_gate. destruct (Z.land number 15 =? 0) eqn:E; [lia|reflexivity]. Qed.

(* ------------------------------------------------------------------ *)
(* invariants of the staged set-up over every sequence of calls         *)
(* ------------------------------------------------------------------ *)
Definition sel_ok (tbl : list template) (sel : option (Z * Z)) : Prop :=
  match sel with
  | None => True
  | Some (i, is) => 0 <= i < Z.of_nat (length tbl) /\ 0 <= is < t_mappings (tnth tbl i)
  end.
Definition blocks_ok (b : option (Z * Z)) : Prop :=
  match b with
  | None => True
  | Some (b0, b1) => 64 <= b0 /\ b0 <= b1 /\ b1 <= 8192 /\ b0 mod 8 = 0 /\ b1 mod 8 = 0
  end.
Definition SInv (tbl : list template) (s : sst) : Prop :=
  sel_ok tbl (s_tmpl s) /\ blocks_ok (s_blocks s) /\ (s_stone s = true -> s_blocks s <> None).

Definition TblOk (tbl : list template) : Prop := forallb tmpl_ok tbl = true.

Lemma tbl_mappings tbl : TblOk tbl -> Forall (fun t => 1 <= t_mappings t) tbl.
Proof.
  intros H. apply Forall_forall. intros t Hin. unfold TblOk in H. rewrite forallb_forall in H.
  specialize (H t Hin). unfold tmpl_ok in H. lia.
Qed.

Lemma lookup_sel_ok tbl ch srate req br : TblOk tbl -> sel_ok tbl (lookup bump tbl 0 ch srate req br).
Proof.
  intros H. destruct (lookup bump tbl 0 ch srate req br) as [[i is]|] eqn:E; [|exact I].
  apply (lookup_in_range ch srate req br tbl 0 i is (tbl_mappings tbl H) ltac:(lia)) in E.
  rewrite Z.sub_0_r in E. exact E.
Qed.

Lemma sinv_init tbl : SInv tbl s_init.
Proof. unfold SInv, s_init; cbn. repeat split; auto. discriminate. Qed.
Lemma sinv_clear tbl : SInv tbl s_clear.
Proof. unfold SInv, s_clear; cbn. repeat split; auto. discriminate. Qed.

Lemma step_vbr_inv tbl s ch rate req : TblOk tbl -> SInv tbl s -> SInv tbl (fst (step_vbr bump tbl s ch rate req)).
Proof.
  intros Ht (H1 & H2 & H3). unfold step_vbr. destruct (rate <=? 0); [exact (conj H1 (conj H2 H3))|].
  pose proof (lookup_sel_ok tbl ch rate req false Ht) as Hl.
  destruct (lookup bump tbl 0 ch rate req false) as [sel|]; cbn; unfold SInv; cbn; auto.
Qed.
Lemma step_managed_inv tbl s ch rate mx nom mn rd : TblOk tbl -> SInv tbl s -> SInv tbl (fst (step_managed bump tbl s ch rate mx nom mn rd)).
Proof.
  intros Ht (H1 & H2 & H3). unfold step_managed. destruct (rate <=? 0); [exact (conj H1 (conj H2 H3))|].
  destruct (nominal_eff mx nom mn); [|exact (conj H1 (conj H2 H3))].
  pose proof (lookup_sel_ok tbl ch rate rd true Ht) as Hl.
  destruct (lookup bump tbl 0 ch rate rd true) as [sel|]; cbn; unfold SInv; cbn; auto.
Qed.
Lemma step_init_inv tbl s : TblOk tbl -> SInv tbl s -> SInv tbl (fst (step_init tbl s)).
Proof.
  intros Ht (H1 & H2 & H3). unfold step_init.
  destruct (setup_init tbl (s_ch s) (s_tmpl s)) as [rc [b|]] eqn:E.
  - destruct rc; try exact (conj H1 (conj H2 H3)). cbn. unfold SInv; cbn. split; [exact H1|]. split; [|discriminate].
    destruct b as [b0 b1]. destruct (s_tmpl s) as [[i is]|] eqn:Es.
    + cbn in H1. exact (setup_init_blocks_gen tbl (s_ch s) i is b0 b1 Ht E (proj1 H1) (proj2 H1)).
    + unfold setup_init in E. destruct (_ || _); discriminate.
  - destruct rc; exact (conj H1 (conj H2 H3)).
Qed.
Lemma one_step_inv tbl r : TblOk tbl -> SInv tbl (fst r) -> SInv tbl (fst (one_step r tbl)).
Proof.
  intros Ht H. destruct r as [s1 rc]. unfold one_step. destruct (rc =? 0); [|apply sinv_clear].
  pose proof (step_init_inv tbl s1 Ht H) as Hi. destruct (step_init tbl s1) as [s2 rc2]. destruct (rc2 =? 0); [exact Hi|apply sinv_clear].
Qed.

Lemma sstep_inv tbl s o : TblOk tbl -> SInv tbl s -> SInv tbl (fst (sstep bump tbl s o)).
Proof.
  intros Ht H. destruct o as [ch rate req|ch rate mx nom mn rd| |ch rate req|ch rate mx nom mn rd|v rd|null act mnK avK mxK damp resb bias|null|number]; cbn [sstep].
  - apply step_vbr_inv; assumption.
  - apply step_managed_inv; assumption.
  - apply step_init_inv; assumption.
  - apply one_step_inv; [assumption|apply step_vbr_inv; assumption].
  - apply one_step_inv; [assumption|apply step_managed_inv; assumption].
  - destruct (ctl_gate (s_stone s) 65); [exact H|]. destruct H as (H1 & H2 & H3).
    match goal with |- context [lookup bump tbl 0 ?c ?r ?q ?b] => pose proof (lookup_sel_ok tbl c r q b Ht) as Hl; destruct (lookup bump tbl 0 c r q b) as [sel|] end;
      cbn; unfold SInv; cbn; auto.
  - destruct (ctl_gate (s_stone s) 21); [exact H|]. destruct H as (H1 & H2 & H3).
    destruct null; [unfold SInv; cbn; auto|].
    repeat match goal with |- context [if ?c then _ else _] => destruct c; [unfold SInv; cbn; auto|] end.
    unfold SInv; cbn; auto.
  - destruct (ctl_gate (s_stone s) 20); exact H.
  - destruct (ctl_gate (s_stone s) number); exact H.
Qed.

Lemma srun_inv tbl : TblOk tbl -> forall ops s, SInv tbl s -> SInv tbl (fst (srun bump tbl s ops)).
Proof.
  intros Ht. induction ops as [|o rest IH]; intros s H; cbn [srun]; [exact H|].
  pose proof (sstep_inv tbl s o Ht H) as H1. destruct (sstep bump tbl s o) as [s1 rc].
  specialize (IH s1 H1). destruct (srun bump tbl s1 rest) as [s2 rcs]. exact IH.
Qed.

(* return codes of every step *)
Definition rc_ok (rc : Z) : Prop := rc = 0 \/ rc = OV_EINVAL_ \/ rc = OV_EIMPL_.
Lemma step_vbr_rc tbl s ch rate req : rc_ok (snd (step_vbr bump tbl s ch rate req)).
Proof. unfold step_vbr, rc_ok. destruct (rate <=? 0); cbn; auto. destruct (lookup _ _ _ _ _ _); cbn; auto. Qed.
Lemma step_managed_rc tbl s ch rate mx nom mn rd : rc_ok (snd (step_managed bump tbl s ch rate mx nom mn rd)).
Proof.
  unfold step_managed, rc_ok. destruct (rate <=? 0); cbn; auto. destruct (nominal_eff _ _ _); cbn; auto.
  destruct (lookup _ _ _ _ _ _); cbn; auto.
Qed.
Lemma step_init_rc tbl s : rc_ok (snd (step_init tbl s)).
Proof.
  unfold step_init, rc_ok. pose proof (setup_init_codes tbl (s_ch s) (s_tmpl s)) as H. cbn in H.
  destruct (setup_init tbl (s_ch s) (s_tmpl s)) as [rc [b|]]; cbn in *; destruct rc; cbn; auto; destruct H as [H|H]; try discriminate; auto.
Qed.
Lemma one_step_rc tbl r : rc_ok (snd r) -> rc_ok (snd (one_step r tbl)).
Proof.
  destruct r as [s1 rc]. cbn. intros H. unfold one_step. destruct (rc =? 0); [|exact H].
  pose proof (step_init_rc tbl s1) as Hi. destruct (step_init tbl s1) as [s2 rc2]. cbn in Hi.
  destruct (rc2 =? 0); cbn; [left; reflexivity|exact Hi].
Qed.
Lemma gate_rc st n rc : ctl_gate st n = Some rc -> rc = OV_EINVAL_.
Proof. unfold ctl_gate. destruct (_ && _); [intros E; inversion E; reflexivity|discriminate]. Qed.
Lemma sstep_rc tbl s o : rc_ok (snd (sstep bump tbl s o)).
Proof.
  destruct o as [ch rate req|ch rate mx nom mn rd| |ch rate req|ch rate mx nom mn rd|v rd|null act mnK avK mxK damp resb bias|null|number]; cbn [sstep].
  - apply step_vbr_rc. - apply step_managed_rc. - apply step_init_rc.
  - apply one_step_rc, step_vbr_rc. - apply one_step_rc, step_managed_rc.
  - destruct (ctl_gate (s_stone s) 65) eqn:G; [apply gate_rc in G; subst; cbn; unfold rc_ok; auto|].
    destruct (lookup _ _ _ _ _ _); cbn; unfold rc_ok; auto.
  - destruct (ctl_gate (s_stone s) 21) eqn:G; [apply gate_rc in G; subst; cbn; unfold rc_ok; auto|].
    destruct null; [cbn; unfold rc_ok; auto|].
    repeat match goal with |- context [if ?c then _ else _] => destruct c; [cbn; unfold rc_ok; auto|] end.
    cbn; unfold rc_ok; auto.
  - destruct (ctl_gate (s_stone s) 20) eqn:G; [apply gate_rc in G; subst; cbn; unfold rc_ok; auto|].
    destruct null; cbn; unfold rc_ok; auto.
  - destruct (ctl_gate (s_stone s) number) eqn:G; [apply gate_rc in G; subst; cbn; unfold rc_ok; auto|].
    destruct (known_ctl number); cbn; unfold rc_ok; auto.
Qed.

(* the one-step calls: failure leaves the cleared state; success means a
   frozen, fully installed set-up reporting the requested channels and rate *)
Lemma one_step_outcome tbl (ch rate : Z) (r : sst * Z) :
  TblOk tbl -> SInv tbl (fst r) -> (snd r = 0 -> s_ch (fst r) = ch /\ s_rate (fst r) = rate /\ 0 < rate) ->
  let '(s', rc) := one_step r tbl in
  (rc <> 0 -> s' = s_clear) /\
  (rc = 0 -> s_stone s' = true /\ s_ch s' = ch /\ s_rate s' = rate /\ 1 <= ch <= 255 /\ 0 < rate /\
             exists b0 b1, s_blocks s' = Some (b0, b1) /\ blocks_ok (Some (b0, b1))).
Proof.
  intros Ht Hinv Hr. destruct r as [s1 rc1]. cbn [fst snd] in *. unfold one_step.
  destruct (rc1 =? 0) eqn:E1.
  - assert (rc1 = 0) by lia. subst rc1. specialize (Hr eq_refl). destruct Hr as (Hc & Hrt & Hpos).
    pose proof (step_init_inv tbl s1 Ht Hinv) as Hi.
    unfold step_init in *. destruct (setup_init tbl (s_ch s1) (s_tmpl s1)) as [rc [b|]] eqn:E.
    + destruct rc; cbn [Z.eqb]; try (split; [reflexivity|intros; lia]).
      cbn in Hi. destruct Hi as (_ & Hb & _). cbn in Hb. split; [lia|]. intros _. cbn.
      pose proof (setup_init_success _ _ _ _ E) as [Hch _].
      destruct b as [b0 b1]. repeat split; try lia. exists b0, b1. split; [reflexivity|exact Hb].
    + pose proof (setup_init_success tbl (s_ch s1) (s_tmpl s1) None) as Hs.
      destruct rc; cbn [Z.eqb]; try (split; [reflexivity|intros; lia]).
      unfold setup_init in E. destruct (_ || _); [discriminate|]. destruct (s_tmpl s1) as [[? ?]|]; discriminate.
  - split; [reflexivity|lia].
Qed.

Lemma one_vbr_outcome tbl s ch rate req : TblOk tbl -> SInv tbl s ->
  let '(s', rc) := sstep bump tbl s (OneVbr ch rate req) in
  (rc <> 0 -> s' = s_clear) /\
  (rc = 0 -> s_stone s' = true /\ s_ch s' = ch /\ s_rate s' = rate /\ 1 <= ch <= 255 /\ 0 < rate /\
             exists b0 b1, s_blocks s' = Some (b0, b1) /\ blocks_ok (Some (b0, b1))).
Proof.
  intros Ht H. cbn [sstep]. apply (one_step_outcome tbl ch rate); [exact Ht|apply step_vbr_inv; assumption|].
  unfold step_vbr. destruct (rate <=? 0) eqn:Er; cbn; [unfold OV_EINVAL_; discriminate|].
  destruct (lookup _ _ _ _ _ _); cbn; [intros _; repeat split; lia|unfold OV_EIMPL_; discriminate].
Qed.
Lemma one_managed_outcome tbl s ch rate mx nom mn rd : TblOk tbl -> SInv tbl s ->
  let '(s', rc) := sstep bump tbl s (OneManaged ch rate mx nom mn rd) in
  (rc <> 0 -> s' = s_clear) /\
  (rc = 0 -> s_stone s' = true /\ s_ch s' = ch /\ s_rate s' = rate /\ 1 <= ch <= 255 /\ 0 < rate /\
             exists b0 b1, s_blocks s' = Some (b0, b1) /\ blocks_ok (Some (b0, b1))).
Proof.
  intros Ht H. cbn [sstep]. apply (one_step_outcome tbl ch rate); [exact Ht|apply step_managed_inv; assumption|].
  unfold step_managed. destruct (rate <=? 0) eqn:Er; cbn; [unfold OV_EINVAL_; discriminate|].
  destruct (nominal_eff _ _ _); cbn; [|unfold OV_EINVAL_; discriminate].
  destruct (lookup _ _ _ _ _ _); cbn; [intros _; repeat split; lia|unfold OV_EIMPL_; discriminate].
Qed.

(* once frozen, every set request leaves the state exactly as it was *)
Definition is_set_ctl (o : sop) : bool :=
  match o with
  | OCoupling _ _ | OManage2Set _ _ _ _ _ _ _ _ => true
  | OCtlOther n => negb (Z.land n 15 =? 0)
  | _ => false
  end.
Lemma frozen_state tbl s o : s_stone s = true -> is_set_ctl o = true -> sstep bump tbl s o = (s, OV_EINVAL_).
Proof.
  intros Hs Ho. destruct o; cbn in Ho; try discriminate; cbn [sstep]; rewrite Hs.
  - reflexivity.
  - reflexivity.
  - unfold ctl_gate. rewrite Ho. reflexivity.
Qed.

End WithBump.
