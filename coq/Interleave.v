(* M12: instances with disjoint state under an arbitrary interleaving.
   A world is a list of instance states; a schedule is a list of
   (instance index, operation).  Generic in the step function. *)
From Coq Require Export List Arith Lia.
Export ListNotations.

Section World.
Variables (S Op Out : Type).
Variable step : S -> Op -> S * Out.

(* one instance alone *)
Fixpoint solo (s : S) (ops : list Op) : S * list Out :=
  match ops with
  | [] => (s, [])
  | o :: rest => let '(s1, out) := step s o in
                 let '(s2, outs) := solo s1 rest in (s2, out :: outs)
  end.

Fixpoint upd (w : list S) (i : nat) (s : S) : list S :=
  match w, i with
  | [], _ => []
  | _ :: t, O => s :: t
  | h :: t, Datatypes.S j => h :: upd t j s
  end.

(* the world under a schedule: outputs tagged with the instance that produced them *)
Fixpoint run (w : list S) (sched : list (nat * Op)) : list S * list (nat * Out) :=
  match sched with
  | [] => (w, [])
  | (i, o) :: rest =>
      match nth_error w i with
      | None => run w rest                      (* no such instance: ignored *)
      | Some s => let '(s1, out) := step s o in
                  let '(w2, outs) := run (upd w i s1) rest in (w2, (i, out) :: outs)
      end
  end.

Definition ops_of (i : nat) (sched : list (nat * Op)) : list Op :=
  map snd (filter (fun p => Nat.eqb (fst p) i) sched).
Definition outs_of (i : nat) (outs : list (nat * Out)) : list Out :=
  map snd (filter (fun p => Nat.eqb (fst p) i) outs).
End World.
