(* M3b: codebooks as lib/sharedbook.c and lib/codebook.c build and use them:
   _make_words (codeword assignment, over/under-population verdict), decode as
   a walk of the Huffman tree the codewords define, the single-entry special
   case, VQ vector unquantisation (_book_unquantize).  Definitions only. *)
From VV Require Import Bits Pcm Fl Setup.
From Coq Require Import ZArith List Bool.
Import ListNotations.
Local Open Scope Z_scope.

Definition u32 (x : Z) : Z := x mod 4294967296.
Definition mget (mk : list Z) (j : Z) : Z := nth (Z.to_nat j) mk 0.
Fixpoint lset {A} (l : list A) (j : nat) (v : A) : list A :=
  match l, j with
  | [], _ => []
  | _ :: t, O => v :: t
  | h :: t, S k => h :: lset t k v
  end.
Definition mset (mk : list Z) (j : Z) (v : Z) : list Z := lset mk (Z.to_nat j) (u32 v).

(* for(j=length;j>0;j--){ if(marker[j]&1){ ...; break; } marker[j]++; } *)
Fixpoint mw_up (fuel : nat) (mk : list Z) (j : Z) : list Z :=
  match fuel with
  | O => mk
  | S f =>
      if j <=? 0 then mk
      else if Z.odd (mget mk j) then
             (if j =? 1 then mset mk 1 (mget mk 1 + 1) else mset mk j (mget mk (j - 1) * 2))
           else mw_up f (mset mk j (mget mk j + 1)) (j - 1)
  end.
(* for(j=length+1;j<33;j++) if((marker[j]>>1)==entry){ entry=marker[j]; marker[j]=marker[j-1]<<1; } else break; *)
Fixpoint mw_prune (fuel : nat) (mk : list Z) (j entry : Z) : list Z :=
  match fuel with
  | O => mk
  | S f =>
      if j >=? 33 then mk
      else if mget mk j / 2 =? entry then mw_prune f (mset mk j (mget mk (j - 1) * 2)) (j + 1) (mget mk j)
           else mk
  end.

(* returns (entry index, length, codeword) for every used entry, or None when
   the lengths over-populate the tree *)
Fixpoint mw_assign (lens : list Z) (idx : Z) (mk : list Z) : option (list (Z * Z * Z) * list Z) :=
  match lens with
  | [] => Some ([], mk)
  | l :: rest =>
      if l >? 0 then
        let entry := mget mk l in
        if (l <? 32) && negb (Z.shiftr entry l =? 0) then None
        else
          let mk1 := mw_up 40 mk l in
          let mk2 := mw_prune 40 mk1 (l + 1) entry in
          match mw_assign rest (idx + 1) mk2 with
          | None => None
          | Some (ws, mkf) => Some ((idx, l, entry) :: ws, mkf)
          end
      else mw_assign rest (idx + 1) mk
  end.

Fixpoint under_populated (fuel : nat) (mk : list Z) (i : Z) : bool :=
  match fuel with
  | O => false
  | S f => if i >=? 33 then false
           else if negb (mget mk i mod 2 ^ i =? 0) then true else under_populated f mk (i + 1)
  end.

Definition make_words (lens : list Z) : option (list (Z * Z * Z)) :=
  match mw_assign lens 0 (repeat 0 33) with
  | None => None
  | Some (ws, mk) =>
      if (Z.of_nat (length ws) =? 1) && (mget mk 2 =? 2) then Some ws     (* the single-entry book *)
      else if under_populated 40 mk 1 then None else Some ws
  end.

(* ------------------------------------------------------------------ *)
Inductive htree := HEmpty | HLeaf (e : Z) | HNode (z o : htree).

(* codeword bits, most significant first (the order they appear in the stream) *)
Fixpoint cw_bits (len : nat) (code : Z) : list bool :=
  match len with
  | O => []
  | S k => Z.testbit code (Z.of_nat k) :: cw_bits k code
  end.
Fixpoint hinsert (t : htree) (bs : list bool) (e : Z) : htree :=
  match bs with
  | [] => HLeaf e
  | b :: r =>
      match t with
      | HNode z o => if b then HNode z (hinsert o r e) else HNode (hinsert z r e) o
      | _ => if b then HNode HEmpty (hinsert HEmpty r e) else HNode (hinsert HEmpty r e) HEmpty
      end
  end.
Definition build_tree (ws : list (Z * Z * Z)) : htree :=
  fold_left (fun t w => let '(e, l, c) := w in hinsert t (cw_bits (Z.to_nat l) c) e) ws HEmpty.

(* walk the tree along the stream: (entry, remaining bits) *)
Fixpoint hwalk (t : htree) (bs : bits) {struct bs} : option (Z * bits) :=
  match t with
  | HLeaf e => Some (e, bs)
  | HEmpty => None
  | HNode z o => match bs with [] => None | b :: r => hwalk (if b then o else z) r end
  end.

Record dbook := {
  d_src : book; d_used : Z; d_single : bool; d_first : Z; d_tree : htree; d_qv : Z;
  d_min : f32; d_delta : f32 }.

(* vorbis_book_init_decode: None when _make_words refuses the lengths *)
Definition init_book (b : book) : option dbook :=
  let used := Z.of_nat (length (filter (fun l => l >? 0) (b_lengths b))) in
  let mk ws := {| d_src := b; d_used := used;
                  d_single := (used =? 1) && (zmax_list (b_lengths b) 0 =? 1);
                  d_first := match ws with (e, _, _) :: _ => e | [] => 0 end;
                  d_tree := build_tree ws;
                  d_qv := if b_maptype b =? 1 then quantvals1 (b_entries b) (b_dim b) else 0;
                  d_min := float32_unpack (b_qmin b); d_delta := float32_unpack (b_qdelta b) |} in
  if used =? 0 then Some (mk [])
  else match make_words (b_lengths b) with None => None | Some ws => Some (mk ws) end.

(* vorbis_book_decode: (Some original entry number | None for -1, reader after).
   A book without used entries returns -1 and leaves the reader alone; running
   out of bits returns -1 and exhausts the reader. *)
Definition book_decode (d : dbook) (bs : bits) : option Z * bits :=
  if d_used d =? 0 then (None, bs)
  else if d_single d then (match bs with [] => (None, []) | _ :: r => (Some (d_first d), r) end)
  else match hwalk (d_tree d) bs with Some (e, r) => (Some e, r) | None => (None, []) end.

(* the VQ vector of an entry: val = fabs(q)*delta + mindel + last in double, stored as float *)
Fixpoint unq (d : dbook) (k : nat) (qs : list Z) (last : f32) : list f32 :=
  match k, qs with
  | S k', q :: rest =>
      let v := to32 (fadd64 (fadd64 (fmul64 (of_int (Z.abs q)) (d_delta d)) (d_min d)) last) in
      v :: unq d k' rest (if b_qseq (d_src d) =? 1 then v else last)
  | _, _ => []
  end.
Fixpoint lattice_idx (k : nat) (entry indexdiv qv : Z) : list Z :=
  match k with
  | O => []
  | S k' => (entry / indexdiv) mod qv :: lattice_idx k' entry (indexdiv * qv) qv
  end.
Definition book_vector (d : dbook) (entry : Z) : list f32 :=
  let b := d_src d in
  let dim := Z.to_nat (b_dim b) in
  if b_maptype b =? 1 then
    (if d_qv d <=? 0 then repeat fzero dim
     else unq d dim (map (fun i => nth (Z.to_nat i) (b_quantlist b) 0) (lattice_idx dim entry 1 (d_qv d))) fzero)
  else if b_maptype b =? 2 then
    unq d dim (firstn dim (skipn (Z.to_nat (entry * b_dim b)) (b_quantlist b))) fzero
  else repeat fzero dim.
