(* M3a: IEEE-754 binary32/binary64 arithmetic on exact dyadic values:
   correctly rounded (nearest, ties to even) add, sub, mul, and conversion to
   and from bit patterns.  Definitions only.  Signed zeros are not
   distinguished (Finite 0 _); the correspondence canonicalises -0 to +0. *)
From VV Require Import Pcm.
From Coq Require Import ZArith Bool.
Local Open Scope Z_scope.

Definition zbits (m : Z) : Z := if m =? 0 then 0 else Z.log2 (Z.abs m) + 1.

(* round m*2^e to precision [prec] with minimum exponent [emin] and overflow at 2^emax *)
Definition round_gen (prec emin emax : Z) (m e : Z) : f32 :=
  if m =? 0 then Finite 0 0 else
  let e' := Z.max (e + zbits m - prec) emin in
  let m' := if e' <=? e then m * 2 ^ (e - e') else rne m (e - e') in
  if zbits m' + e' >? emax then (if m <? 0 then NInf else PInf) else Finite m' e'.

Definition r32 : Z -> Z -> f32 := round_gen 24 (-149) 128.
Definition r64 : Z -> Z -> f32 := round_gen 53 (-1074) 1024.

Definition fadd_gen (rnd : Z -> Z -> f32) (a b : f32) : f32 :=
  match a, b with
  | NaN, _ | _, NaN => NaN
  | PInf, NInf | NInf, PInf => NaN
  | PInf, _ | _, PInf => PInf
  | NInf, _ | _, NInf => NInf
  | Finite m1 e1, Finite m2 e2 =>
      let e := Z.min e1 e2 in rnd (m1 * 2 ^ (e1 - e) + m2 * 2 ^ (e2 - e)) e
  end.
Definition fneg (a : f32) : f32 :=
  match a with Finite m e => Finite (- m) e | PInf => NInf | NInf => PInf | NaN => NaN end.
Definition fmul_gen (rnd : Z -> Z -> f32) (a b : f32) : f32 :=
  match a, b with
  | NaN, _ | _, NaN => NaN
  | Finite m1 e1, Finite m2 e2 => rnd (m1 * m2) (e1 + e2)
  | Finite m _, PInf | PInf, Finite m _ => if m =? 0 then NaN else if m <? 0 then NInf else PInf
  | Finite m _, NInf | NInf, Finite m _ => if m =? 0 then NaN else if m <? 0 then PInf else NInf
  | PInf, PInf | NInf, NInf => PInf
  | PInf, NInf | NInf, PInf => NInf
  end.
Definition fadd32 := fadd_gen r32.
Definition fsub32 (a b : f32) := fadd_gen r32 a (fneg b).
Definition fmul32 := fmul_gen r32.
Definition fadd64 := fadd_gen r64.
Definition fmul64 := fmul_gen r64.
Definition to32 (a : f32) : f32 := match a with Finite m e => r32 m e | x => x end.
Definition fabs (a : f32) : f32 := match a with Finite m e => Finite (Z.abs m) e | NInf => PInf | x => x end.
Definition fzero : f32 := Finite 0 0.
Definition of_int (z : Z) : f32 := Finite z 0.

(* a > 0 *)
Definition fpos (a : f32) : bool := match a with Finite m _ => m >? 0 | PInf => true | _ => false end.

(* bit pattern of a value that is representable in binary32 (-0 never produced) *)
Definition encode_b32 (a : f32) : Z :=
  match a with
  | NaN => 2143289344                     (* 0x7fc00000 *)
  | PInf => 2139095040 | NInf => 4286578688
  | Finite m e =>
      if m =? 0 then 0 else
      let s := if m <? 0 then 2147483648 else 0 in
      let a := Z.abs m in
      (* normalise to 24 bits when possible *)
      let sh := 24 - zbits a in
      let e' := e - sh in          (* value = (a * 2^sh) * 2^e' *)
      if e' <? -149 then s + (if e >=? -149 then a * 2 ^ (e + 149) else Z.shiftr a (-149 - e))   (* subnormal *)
      else s + (e' + 150) * 8388608 + ((if sh >=? 0 then a * 2 ^ sh else Z.shiftr a (- sh)) - 8388608)
  end.

(* _float32_unpack of lib/sharedbook.c *)
Definition float32_unpack (v : Z) : f32 :=
  let mant := v mod 2097152 in
  let sign := (v / 2147483648) mod 2 in
  let ex := (v / 2097152) mod 1024 in
  let ex' := ex - 20 - 768 in
  let ex'' := if ex' >? 63 then 63 else if ex' <? -63 then -63 else ex' in
  Finite (if sign =? 1 then - mant else mant) ex''.
