(* C19  Lapped seeks differ from plain seeks only inside the first half short block.
   Proved (Overlap.v): vorbis_synthesis_lapout exposes, contiguously and in
   order, exactly what a read would have returned next followed by the
   not-yet-windowed second half of the last block, inside the buffer, for all
   four window transitions and both buffer phases; the splice writes only the
   first min(n1,n2) cells from the read position; and the bookkeeping behind
   "lands where the plain seek lands": a lapped seek is the plain seek followed
   by priming (fetch until something is pending), lapout and the splice - and
   priming after a truthful seek on an intact run leaves the reported position
   unchanged (Prime_lemmas.v).  Landing on real streams (= the plain seek's)
   and the values (bit-identical outside the region, window-weighted cross-fade
   inside) are established per run on twin handles. *)
From VV Require Import Blocking Blocking_lemmas Overlap Overlap_lemmas VFile Seek_lemmas Read_lemmas Prime_lemmas.
Local Open Scope Z_scope.

Theorem C19_lapout_contiguous :
  forall c s buf, SizesOK c -> AfterBlockin c s ->
    let n1 := half c true in
    let n := half c (d_W s) in
    let prevC := if d_centerW s =? 0 then 0 else n1 in
    let thisC := if d_centerW s =? 0 then n1 else 0 in
    d_cur s = prevC + half c (d_lW s) / 2 + half c (d_W s) / 2 ->
    let '(r, s') := dec_lapout c s in
    let buf' := lapout_buf c s buf in
    let pending := d_cur s - d_ret s in
    r = pending + n /\ 0 <= d_ret s' /\ d_ret s' + r <= 2 * n1 /\
    (forall j, 0 <= j < pending -> buf' (d_ret s' + j) = buf (d_ret s + j)) /\
    (forall j, 0 <= j < n -> buf' (d_ret s' + pending + j) = buf (thisC + j)).
Proof. exact lapout_contiguous. Qed.
Print Assumptions C19_lapout_contiguous.

Theorem C19_splice_touches_only_prefix :
  forall n wn ret lap buf i, ~ (ret <= i < ret + n) -> splice_buf n wn ret lap buf i = CKeep (buf i).
Proof.
  intros n wn ret lap buf i H. unfold splice_buf.
  destruct ((ret <=? i) && (i <? ret + n)) eqn:E; [lia|reflexivity].
Qed.
Print Assumptions C19_splice_touches_only_prefix.

Theorem C19_splice_is_crossfade_in_prefix :
  forall n wn ret lap buf i, ret <= i < ret + n ->
    splice_buf n wn ret (Some lap) buf i = CSplice (buf i) (Some (lap (i - ret))) (i - ret) wn.
Proof.
  intros n wn ret lap buf i H. unfold splice_buf.
  destruct ((ret <=? i) && (i <? ret + n)) eqn:E; [reflexivity|lia].
Qed.
Print Assumptions C19_splice_is_crossfade_in_prefix.

(* non-vacuity: a reachable state after two blockins satisfies AfterBlockin *)
Example C19_nonvacuous :
  let c := {| bs0 := 64; bs1 := 256; hs := 0 |} in
  let b1 := {| k_W := true; k_gran := 0; k_seq := 3; k_eof := false; k_pcm := true |} in
  let b2 := {| k_W := false; k_gran := 80; k_seq := 4; k_eof := false; k_pcm := true |} in
  let s2 := snd (dec_blockin c (snd (dec_blockin c (dec_init c) b1)) b2) in
  SizesOK c /\ AfterBlockin c s2 /\ fst (dec_lapout c s2) = 112.
Proof. unfold SizesOK, AfterBlockin, half; vm_compute. repeat split; try lia; try (left; reflexivity); discriminate. Qed.

(* priming after a truthful seek keeps the reported position (and ends with samples pending) *)
Theorem C19_priming_keeps_reported_position :
  forall (tail : list page) s pos,
    Truthful tail s pos -> (2 <= length (stream tail s))%nat ->
    exists sp, prime (read_fuel s) s = PReady sp /\ v_pcm sp = v_pcm s /\ 0 < pending sp.
Proof. exact priming_keeps_position. Qed.
Print Assumptions C19_priming_keeps_reported_position.
