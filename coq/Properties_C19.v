(* C19  Lapped seeks differ from plain seeks only inside the first half short block.
   Proved (Overlap.v): vorbis_synthesis_lapout exposes, contiguously and in
   order, exactly what a read would have returned next followed by the
   not-yet-windowed second half of the last block, inside the buffer, for all
   four window transitions and both buffer phases; the splice writes only the
   first min(n1,n2) cells from the read position; and the bookkeeping behind
   "lands where the plain seek lands": a lapped seek is the plain seek followed
   by priming (fetch until something is pending), lapout and the splice - and
   priming after a truthful seek on an intact run leaves the reported position
   unchanged (Prime_lemmas.v).  Landing on real streams (= the plain seek's)
   and the values (bit-identical outside the region, window-weighted cross-fade
   inside) are established per run on twin handles. *)
From VV Require Import Blocking Blocking_lemmas Overlap Overlap_lemmas VFile VFileDemo Seek_lemmas Read_lemmas Prime_lemmas Lap_lemmas.
From Coq Require Import ZArith List Bool Lia.
Import ListNotations.
Local Open Scope Z_scope.

Theorem C19_lapout_contiguous :
  forall c s buf, SizesOK c -> AfterBlockin c s ->
    let n1 := half c true in
    let n := half c (d_W s) in
    let prevC := if d_centerW s =? 0 then 0 else n1 in
    let thisC := if d_centerW s =? 0 then n1 else 0 in
    d_cur s = prevC + half c (d_lW s) / 2 + half c (d_W s) / 2 ->
    let '(r, s') := dec_lapout c s in
    let buf' := lapout_buf c s buf in
    let pending := d_cur s - d_ret s in
    r = pending + n /\ 0 <= d_ret s' /\ d_ret s' + r <= 2 * n1 /\
    (forall j, 0 <= j < pending -> buf' (d_ret s' + j) = buf (d_ret s + j)) /\
    (forall j, 0 <= j < n -> buf' (d_ret s' + pending + j) = buf (thisC + j)).
Proof. exact lapout_contiguous. Qed.
Print Assumptions C19_lapout_contiguous.

Theorem C19_splice_touches_only_prefix :
  forall n wn ret lap buf i, ~ (ret <= i < ret + n) -> splice_buf n wn ret lap buf i = CKeep (buf i).
Proof.
  intros n wn ret lap buf i H. unfold splice_buf.
  destruct ((ret <=? i) && (i <? ret + n)) eqn:E; [lia|reflexivity].
Qed.
Print Assumptions C19_splice_touches_only_prefix.

Theorem C19_splice_is_crossfade_in_prefix :
  forall n wn ret lap buf i, ret <= i < ret + n ->
    splice_buf n wn ret (Some lap) buf i = CSplice (buf i) (Some (lap (i - ret))) (i - ret) wn.
Proof.
  intros n wn ret lap buf i H. unfold splice_buf.
  destruct ((ret <=? i) && (i <? ret + n)) eqn:E; [reflexivity|lia].
Qed.
Print Assumptions C19_splice_is_crossfade_in_prefix.

(* non-vacuity: a reachable state after two blockins satisfies AfterBlockin *)
Example C19_nonvacuous :
  let c := {| bs0 := 64; bs1 := 256; hs := 0 |} in
  let b1 := {| k_W := true; k_gran := 0; k_seq := 3; k_eof := false; k_pcm := true |} in
  let b2 := {| k_W := false; k_gran := 80; k_seq := 4; k_eof := false; k_pcm := true |} in
  let s2 := snd (dec_blockin c (snd (dec_blockin c (dec_init c) b1)) b2) in
  SizesOK c /\ AfterBlockin c s2 /\ fst (dec_lapout c s2) = 112.
Proof. unfold SizesOK, AfterBlockin, half; vm_compute. repeat split; try lia; try (left; reflexivity); discriminate. Qed.

(* priming after a truthful seek keeps the reported position (and ends with samples pending) *)
Theorem C19_priming_keeps_reported_position :
  forall (tail : list page) s pos,
    Truthful tail s pos -> (2 <= length (stream tail s))%nat ->
    exists sp, prime (read_fuel s) s = PReady sp /\ v_pcm sp = v_pcm s /\ 0 < pending sp.
Proof. exact priming_keeps_position. Qed.
Print Assumptions C19_priming_keeps_reported_position.

(* ---- the lapped seek itself (VFile.seek_lap: set up, take the lapping data, plain seek, prime without
   spanning links, expose the buffer), tied to ov_pcm_seek_lap / ov_pcm_seek_page_lap / ov_raw_seek_lap per run *)

(* _ov_initprime after a truthful seek succeeds, keeps the reported position and ends with samples pending *)
Theorem C19_initprime_keeps_reported_position :
  forall (tail : list page) s pos,
    Truthful tail s pos -> (2 <= length (stream tail s))%nat ->
    forall fuel, (3 <= fuel)%nat ->
    exists sp, initprime fuel s = (0, sp) /\ v_pcm sp = v_pcm s /\ 0 < dec_pcmout (v_dec sp) /\
               cur_link sp = cur_link s /\ v_hs sp = v_hs s.
Proof. exact initprime_keeps_position. Qed.
Print Assumptions C19_initprime_keeps_reported_position.

(* a lapped sample seek lands where the plain seek lands: it returns 0 and reports exactly the target, whenever
   the set-up succeeds and the plain seek from the state it leaves meets seek_hyps (intact run to the target)
   with two packets to prime from *)
Theorem C19_lapped_seek_lands_on_target :
  forall s pos, lap_hyps s pos = true ->
    fst (pcm_seek_lap s pos) = 0 /\ v_pcm (snd (pcm_seek_lap s pos)) = pos.
Proof. exact lap_seek_checked. Qed.
Print Assumptions C19_lapped_seek_lands_on_target.

(* it fails wherever the plain seek (applied after the set-up) fails, with the same code and state *)
Theorem C19_lapped_seek_fails_like_plain :
  forall s pos s2 rc s3,
    OPENED <= v_rs s -> 0 <= pos <= pcm_total s -> lap_pre s = Some s2 ->
    pcm_seek s2 pos = (rc, s3) -> rc <> 0 -> pcm_seek_lap s pos = (rc, s3).
Proof. exact lap_seek_fails_like_plain. Qed.
Print Assumptions C19_lapped_seek_fails_like_plain.

(* and rejects what the plain seek rejects before touching anything *)
Theorem C19_lapped_seek_rejects_out_of_range :
  forall s pos, pos < 0 \/ pos > pcm_total s ->
    pcm_seek_lap s pos = (OV_EINVAL_, s) /\ pcm_seek_page_lap s pos = (OV_EINVAL_, s).
Proof. exact lap_seek_rejects_out_of_range. Qed.
Print Assumptions C19_lapped_seek_rejects_out_of_range.

(* non-vacuity: from a handle in mid-stream (sought to 300, ten samples read) the hypotheses hold for 400 and the
   lapped seek lands there as the plain one does *)
Example C19_lap_hyps_nonvacuous :
  let s := snd (fst (read_float 9 (snd (pcm_seek demo2 300)) 10), snd (read_float 9 (snd (pcm_seek demo2 300)) 10)) in
  lap_hyps s 400 = true /\ v_pcm (snd (pcm_seek_lap s 400)) = 400 /\ v_pcm (snd (pcm_seek s 400)) = 400.
Proof. vm_compute. repeat split. Qed.

(* page- and byte-granularity lapped seeks: wherever the plain seek (applied after the set-up) lands on an intact
   run with two packets to prime from - the landing the theorems C07_page_seek_truthful_on_intact_run and
   C07_raw_seek_truthful_* establish - the lapped variant returns 0 and reports the same position *)
Theorem C19_lapped_page_seek_lands_where_plain_lands :
  forall (tail : list page) s pos s2 s3 pos',
    OPENED <= v_rs s -> 0 <= pos <= pcm_total s ->
    lap_pre s = Some s2 -> pcm_seek_page s2 pos = (0, s3) -> Landed tail s3 pos' -> (2 <= length (stream tail s3))%nat ->
    fst (pcm_seek_page_lap s pos) = 0 /\ v_pcm (snd (pcm_seek_page_lap s pos)) = v_pcm s3.
Proof.
  intros tail s pos s2 s3 pos' Hrs Hpos Hpre Hs Hl Hn. unfold pcm_seek_page_lap.
  destruct (v_rs s <? OPENED) eqn:E0; [lia|]. destruct ((pos <? 0) || (pos >? pcm_total s)) eqn:E1; [lia|].
  exact (lap_seek_lands_where_plain_lands tail pcm_seek_page s pos s2 s3 pos' Hpre Hs Hl Hn).
Qed.
Print Assumptions C19_lapped_page_seek_lands_where_plain_lands.

Theorem C19_lapped_byte_seek_lands_where_plain_lands :
  forall (tail : list page) s pos s2 s3 pos',
    OPENED <= v_rs s -> 0 <= pos <= file_end s ->
    lap_pre s = Some s2 -> raw_seek s2 pos = (0, s3) -> Landed tail s3 pos' -> (2 <= length (stream tail s3))%nat ->
    fst (raw_seek_lap s pos) = 0 /\ v_pcm (snd (raw_seek_lap s pos)) = v_pcm s3.
Proof.
  intros tail s pos s2 s3 pos' Hrs Hpos Hpre Hs Hl Hn. unfold raw_seek_lap.
  destruct (v_rs s <? OPENED) eqn:E0; [lia|]. destruct ((pos <? 0) || (pos >? file_end s)) eqn:E1; [lia|].
  exact (lap_seek_lands_where_plain_lands tail raw_seek s pos s2 s3 pos' Hpre Hs Hl Hn).
Qed.
Print Assumptions C19_lapped_byte_seek_lands_where_plain_lands.
