(* M7: block sequencing of lib/block.c as two integer automata (definitions
   only).  Encoder: vorbis_analysis_buffer / _wrote / _blockout with the
   envelope search result as an oracle value.  Decoder:
   vorbis_synthesis_blockin / _pcmout / _read / _restart / _lapout. *)
From Coq Require Export List ZArith Bool Lia.
Export ListNotations.
Local Open Scope Z_scope.

Record cfg := { bs0 : Z; bs1 : Z; hs : Z }.
Definition bsz (c : cfg) (w : bool) : Z := if w then bs1 c else bs0 c.

(* ------------------------------------------------------------------ *)
(* Encoder                                                             *)
(* ------------------------------------------------------------------ *)

Record enc := {
  e_centerW : Z; e_cur : Z; e_storage : Z; e_eof : Z; e_gran : Z;
  e_lW : bool; e_W : bool; e_nW : bool; e_seq : Z; e_pre : bool }.

Definition enc_init (c : cfg) : enc :=
  {| e_centerW := bs1 c / 2; e_cur := bs1 c / 2; e_storage := bs1 c; e_eof := 0; e_gran := 0;
     e_lW := false; e_W := false; e_nW := false; e_seq := 3; e_pre := false |}.

(* vorbis_analysis_buffer(vals) *)
Definition enc_buffer (s : enc) (vals : Z) : enc :=
  if e_cur s + vals >=? e_storage s then
    {| e_centerW := e_centerW s; e_cur := e_cur s; e_storage := e_cur s + vals * 2; e_eof := e_eof s;
       e_gran := e_gran s; e_lW := e_lW s; e_W := e_W s; e_nW := e_nW s; e_seq := e_seq s; e_pre := e_pre s |}
  else s.

(* vorbis_analysis_wrote(vals): returns (rc, state) *)
Definition enc_wrote (c : cfg) (s : enc) (vals : Z) : Z * enc :=
  if vals <=? 0 then
    let s1 := enc_buffer s (bs1 c * 3) in
    (0, {| e_centerW := e_centerW s1; e_cur := e_cur s1 + bs1 c * 3; e_storage := e_storage s1;
           e_eof := e_cur s1; e_gran := e_gran s1; e_lW := e_lW s1; e_W := e_W s1; e_nW := e_nW s1;
           e_seq := e_seq s1; e_pre := true |})
  else if e_cur s + vals >? e_storage s then (-131, s)
  else
    let cur := e_cur s + vals in
    (0, {| e_centerW := e_centerW s; e_cur := cur; e_storage := e_storage s; e_eof := e_eof s;
           e_gran := e_gran s; e_lW := e_lW s; e_W := e_W s; e_nW := e_nW s; e_seq := e_seq s;
           e_pre := e_pre s || (cur - e_centerW s >? bs1 c) |}).

(* the block handed to analysis: lW W nW, sequence, granulepos, eofflag *)
Record eblock := { b_lW : bool; b_W : bool; b_nW : bool; b_seq : Z; b_gran : Z; b_eof : bool }.

(* vorbis_analysis_blockout; [bp] = what _ve_envelope_search returns (-1,0,1;
   any other non-negative value is treated as the C code would: index).
   [None] in the result = returned 0. *)
Definition enc_blockout (c : cfg) (s : enc) (bp : Z) : enc * option eblock :=
  if negb (e_pre s) then (s, None)
  else if e_eof s =? -1 then (s, None)
  else if (bp =? -1) && (e_eof s =? 0) then (s, None)
  else
    let nW := if bp =? -1 then false
              else if bs0 c =? bs1 c then false else negb (bp =? 0) in
    let centerNext := e_centerW s + bsz c (e_W s) / 4 + bsz c nW / 4 in
    let blockbound := centerNext + bsz c nW / 2 in
    if e_cur s <? blockbound then
      (* nW was already stored in the state before this return *)
      ({| e_centerW := e_centerW s; e_cur := e_cur s; e_storage := e_storage s; e_eof := e_eof s;
          e_gran := e_gran s; e_lW := e_lW s; e_W := e_W s; e_nW := nW; e_seq := e_seq s; e_pre := e_pre s |}, None)
    else
      let blk := {| b_lW := e_lW s; b_W := e_W s; b_nW := nW; b_seq := e_seq s; b_gran := e_gran s;
                    b_eof := negb (e_eof s =? 0) && (e_centerW s >=? e_eof s) |} in
      if negb (e_eof s =? 0) && (e_centerW s >=? e_eof s) then
        ({| e_centerW := e_centerW s; e_cur := e_cur s; e_storage := e_storage s; e_eof := -1;
            e_gran := e_gran s; e_lW := e_lW s; e_W := e_W s; e_nW := nW; e_seq := e_seq s + 1; e_pre := e_pre s |},
         Some blk)
      else
        let newc := bs1 c / 2 in
        let mv := centerNext - newc in
        if mv >? 0 then
          let eof1 := if e_eof s =? 0 then 0 else
                        (if e_eof s - mv <=? 0 then -1 else e_eof s - mv) in
          let gran1 := if e_eof s =? 0 then e_gran s + mv
                       else if newc >=? eof1 then e_gran s + (mv - (newc - eof1))
                       else e_gran s + mv in
          ({| e_centerW := newc; e_cur := e_cur s - mv; e_storage := e_storage s; e_eof := eof1;
              e_gran := gran1; e_lW := e_W s; e_W := nW; e_nW := nW; e_seq := e_seq s + 1; e_pre := e_pre s |},
           Some blk)
        else
          ({| e_centerW := e_centerW s; e_cur := e_cur s; e_storage := e_storage s; e_eof := e_eof s;
              e_gran := e_gran s; e_lW := e_lW s; e_W := e_W s; e_nW := nW; e_seq := e_seq s + 1; e_pre := e_pre s |},
           Some blk).

(* The application loop of every encoder example: after each wrote, call
   blockout until it returns 0.  The oracle is a stream (list) of bp values,
   one consumed per blockout call that gets as far as the envelope search.
   Fuelled; out-of-fuel is an explicit error excluded by the theorems. *)
Fixpoint enc_drain (c : cfg) (fuel : nat) (s : enc) (orc : list Z) (acc : list eblock)
  : option (enc * list Z * list eblock) :=
  match fuel with
  | O => None
  | S f =>
      let bp := match orc with [] => -1 | x :: _ => x end in
      let consumed := e_pre s && negb (e_eof s =? -1) in
      let orc' := if consumed then tl orc else orc in
      match enc_blockout c s bp with
      | (s', None) => Some (s', orc', acc)
      | (s', Some b) => enc_drain c f s' orc' (acc ++ [b])
      end
  end.

(* fuel that always suffices for one drain: every emitted block moves the
   buffer by at least 32 samples *)
Definition drain_fuel (s : enc) : nat := Z.to_nat (e_cur s / 16 + 4).

Fixpoint enc_feed (c : cfg) (s : enc) (chunks : list Z) (orc : list Z) (acc : list eblock)
  : option (enc * list Z * list eblock) :=
  match chunks with
  | [] => Some (s, orc, acc)
  | n :: r =>
      let s1 := enc_buffer s n in
      match enc_wrote c s1 n with
      | (0, s2) =>
          match enc_drain c (drain_fuel s2) s2 orc acc with
          | Some (s3, orc3, acc3) => enc_feed c s3 r orc3 acc3
          | None => None
          end
      | _ => None
      end
  end.

(* whole encode: positive chunks, then end of input *)
Definition enc_run (c : cfg) (chunks : list Z) (orc : list Z) : option (enc * list eblock) :=
  match enc_feed c (enc_init c) chunks orc [] with
  | None => None
  | Some (s, orc1, acc) =>
      let (_, s1) := enc_wrote c s 0 in
      match enc_drain c (drain_fuel s1) s1 orc1 acc with
      | Some (s2, _, acc2) => Some (s2, acc2)
      | None => None
      end
  end.

(* ------------------------------------------------------------------ *)
(* Decoder                                                             *)
(* ------------------------------------------------------------------ *)

Record dec := {
  d_lW : bool; d_W : bool; d_centerW : Z; d_cur : Z; d_ret : Z; d_gran : Z; d_seq : Z;
  d_count : Z; d_eof : bool;
  d_fresh : bool }.   (* nW == -1: a block has been added since the last lapout rearranged the buffer *)

(* what blockin sees of a vorbis_block *)
Record dblock := { k_W : bool; k_gran : Z; k_seq : Z; k_eof : bool; k_pcm : bool }.

(* vorbis_synthesis_restart (also the tail of vorbis_synthesis_init) *)
Definition dec_restart (c : cfg) (s : dec) : dec :=
  let cw := Z.shiftr (bs1 c) (hs c + 1) in
  {| d_lW := d_lW s; d_W := d_W s; d_centerW := cw; d_cur := Z.shiftr cw (hs c); d_ret := -1;
     d_gran := -1; d_seq := -1; d_count := -1; d_eof := false; d_fresh := d_fresh s |}.

Definition dec_init (c : cfg) : dec :=
  dec_restart c {| d_lW := false; d_W := false; d_centerW := 0; d_cur := 0; d_ret := 0; d_gran := 0;
                   d_seq := 0; d_count := 0; d_eof := false; d_fresh := false |}.

(* the overlap/add + copy part: new (centerW, pcm_returned, pcm_current) *)
Definition dec_pcmpart (c : cfg) (s : dec) (b : dblock) (stp : Z) : Z * Z * Z :=
  let n1 := Z.shiftr (bs1 c) (hs c + 1) in
  let thisC := if d_centerW s =? 0 then 0 else n1 in
  let prevC := if d_centerW s =? 0 then n1 else 0 in
  if k_pcm b then
    (if d_centerW s =? 0 then n1 else 0,
     if d_ret s =? -1 then thisC else prevC,
     if d_ret s =? -1 then thisC else prevC + Z.shiftr stp (hs c))
  else (d_centerW s, d_ret s, d_cur s).

(* C: [int] pcm_returned += [long] value: the sum is truncated to 32 bits *)
Definition wrap32 (x : Z) : Z := (x + 2147483648) mod 4294967296 - 2147483648.

(* first granule position seen after (re)start: trim the beginning, or the
   end when the block is also the last one; returns (pcm_returned, pcm_current) *)
Definition trim_first (h : Z) (count1 : Z) (b : dblock) (ret1 cur1 : Z) : Z * Z :=
  if count1 >? k_gran b then
    let extra0 := count1 - k_gran b in
    let extra := if extra0 <? 0 then 0 else extra0 in
    if k_eof b then
      let avail := Z.shiftl (cur1 - ret1) h in
      let extra' := if extra >? avail then avail else extra in
      (ret1, cur1 - Z.shiftr extra' h)
    else
      ((if Z.shiftr extra h >? cur1 - ret1 then cur1 else ret1 + Z.shiftr extra h), cur1)
  else (ret1, cur1).

(* tracked granule position g disagrees with the packet's: strip the end of a
   partial last frame *)
Definition trim_tracked (h : Z) (g : Z) (b : dblock) (ret1 cur1 : Z) : Z * Z :=
  if (g >? k_gran b) && k_eof b then
    let extra := g - k_gran b in
    let avail := Z.shiftl (cur1 - ret1) h in
    let extra1 := if extra >? avail then avail else extra in
    let extra2 := if extra1 <? 0 then 0 else extra1 in
    (ret1, cur1 - Z.shiftr extra2 h)
  else (ret1, cur1).

Definition dec_granule (h : Z) (gran0 count1 stp : Z) (b : dblock) (ret1 cur1 : Z) : Z * Z * Z :=
  if gran0 =? -1 then
    if negb (k_gran b =? -1) then
      let (r, cu) := if k_pcm b then trim_first h count1 b ret1 cur1 else (ret1, cur1) in (k_gran b, r, cu)
    else (gran0, ret1, cur1)
  else
    let g := gran0 + stp in
    if negb (k_gran b =? -1) && negb (g =? k_gran b) then
      let (r, cu) := trim_tracked h g b ret1 cur1 in (k_gran b, r, cu)
    else (g, ret1, cur1).

Definition dec_blockin (c : cfg) (s : dec) (b : dblock) : Z * dec :=
  if (d_cur s >? d_ret s) && negb (d_ret s =? -1) then (-131, s)
  else
    let lW := d_W s in
    let W := k_W b in
    let lost := (d_seq s =? -1) || negb (d_seq s + 1 =? k_seq b) in
    let gran0 := if lost then -1 else d_gran s in
    let count0 := if lost then -1 else d_count s in
    let stp := bsz c lW / 4 + bsz c W / 4 in
    let '(cw, ret1, cur1) := dec_pcmpart c s b stp in
    let count1 := if count0 =? -1 then 0 else count0 + stp in
    let '(gran2, ret2, cur2) := dec_granule (hs c) gran0 count1 stp b ret1 cur1 in
    (0, {| d_lW := lW; d_W := W; d_centerW := cw; d_cur := cur2; d_ret := ret2; d_gran := gran2;
           d_seq := k_seq b; d_count := count1; d_eof := d_eof s || k_eof b; d_fresh := true |}).

Definition dec_pcmout (s : dec) : Z :=
  if (d_ret s >? -1) && (d_ret s <? d_cur s) then d_cur s - d_ret s else 0.

Definition dec_read (s : dec) (n : Z) : Z * dec :=
  if negb (n =? 0) && (d_ret s + n >? d_cur s) then (-131, s)
  else (0, {| d_lW := d_lW s; d_W := d_W s; d_centerW := d_centerW s; d_cur := d_cur s; d_ret := d_ret s + n;
              d_gran := d_gran s; d_seq := d_seq s; d_count := d_count s; d_eof := d_eof s; d_fresh := d_fresh s |}).

(* the application loop: blockin, then take everything pcmout offers *)
Definition dec_step (c : cfg) (sa : dec * Z) (b : dblock) : dec * Z :=
  let (s, total) := sa in
  match dec_blockin c s b with
  | (0, s1) => let n := dec_pcmout s1 in (snd (dec_read s1 n), total + n)
  | (_, s1) => (s1, total)
  end.

Definition dec_run (c : cfg) (bl : list dblock) : dec * Z :=
  fold_left (dec_step c) bl (dec_init c, 0).

(* packets as the encoder's blocks reach the decoder (packet k carries the
   block's W, granule position, sequence number and eos flag) *)
Definition to_dblock (b : eblock) : dblock :=
  {| k_W := b_W b; k_gran := b_gran b; k_seq := b_seq b; k_eof := b_eof b; k_pcm := true |}.

(* vorbis_synthesis_lapout: (return value, state) *)
Definition dec_lapout (c : cfg) (s : dec) : Z * dec :=
  let n := Z.shiftr (bsz c (d_W s)) (hs c + 1) in
  let n0 := Z.shiftr (bs0 c) (hs c + 1) in
  let n1 := Z.shiftr (bs1 c) (hs c + 1) in
  if d_ret s <? 0 then (0, s)
  else if negb (d_fresh s) then (n1 + n - d_ret s, s)     (* already rearranged for this block *)
  else
    let '(cur1, ret1, cw1) :=
      if d_centerW s =? n1 then (d_cur s - n1, d_ret s - n1, 0) else (d_cur s, d_ret s, d_centerW s) in
    let '(cur2, ret2) :=
      if xorb (d_lW s) (d_W s) then (cur1 + (n1 - n0) / 2, ret1 + (n1 - n0) / 2)
      else if negb (d_lW s) then (cur1 + (n1 - n0), ret1 + (n1 - n0))
      else (cur1, ret1) in
    (n1 + n - ret2,
     {| d_lW := d_lW s; d_W := d_W s; d_centerW := cw1; d_cur := cur2; d_ret := ret2; d_gran := d_gran s;
        d_seq := d_seq s; d_count := d_count s; d_eof := d_eof s; d_fresh := false |}).
