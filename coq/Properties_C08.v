(* C08  Seeks reach every valid target and land where the API says.
   Proved so far on VFile.v: out-of-range arguments are rejected without
   disturbing the state; the page a page-granularity seek lands on is the LAST
   page of the link in the search range whose granule position is set and below
   the target (so: at or before the target, and no page boundary lies between
   the landing point and the target); link selection; a successful page seek
   (not through the continued-packet fallback) reports a position inside the
   selected link and at or before the target, for ANY page table; the
   sample-accurate seek reports EXACTLY the target whenever the executable
   hypotheses seek_hyps hold (intact run from the landing point reaching the
   target, full rate; Seek_lemmas.v) or seek_hyps_e hold (the same up to and
   including the link's end, through the block the end-of-stream packet cuts
   short; SeekE_lemmas.v); a sample seek to the end of the last link followed
   by a read reports end of file (seek_end_hyps).  Exact landing for every
   target of small chained files and time seeks are established per run. *)
From VV Require Import Blocking VFile VFile_lemmas Term_lemmas VFileDemo Sync_lemmas Seek_lemmas SeekE_lemmas.
From Coq Require Import ZArith List Lia.
Import ListNotations.
Local Open Scope Z_scope.

Theorem C08_out_of_range_rejected_unchanged :
  forall s pos,
    (pos < 0 \/ pos > file_end s -> raw_seek s pos = (OV_EINVAL_, s)) /\
    (pos < 0 \/ pos > pcm_total s -> pcm_seek_page s pos = (OV_EINVAL_, s)) /\
    (pos < 0 \/ pos > pcm_total s -> pcm_seek s pos = (OV_EINVAL_, s)).
Proof.
  intros s pos. split; [apply raw_seek_rejects|]. split; [apply pcm_seek_page_rejects|apply pcm_seek_rejects].
Qed.
Print Assumptions C08_out_of_range_rejected_unchanged.

Theorem C08_page_seek_lands_on_last_page_before_target :
  forall l target pgs pg rest,
    Forall (fun pg => pg_off pg < li_end l) pgs ->
    best_page pgs l target None = Some (pg :: rest) ->
    exists pre, pgs = pre ++ pg :: rest /\ candidate l target pg = true /\
                Forall (fun q => candidate l target q = false) rest.
Proof. exact best_page_spec. Qed.
Print Assumptions C08_page_seek_lands_on_last_page_before_target.

Theorem C08_no_page_before_target_means_link_start :
  forall l target pgs,
    Forall (fun pg => pg_off pg < li_end l) pgs ->
    best_page pgs l target None = None -> Forall (fun pg => candidate l target pg = false) pgs.
Proof. exact best_page_none_spec. Qed.
Print Assumptions C08_no_page_before_target_means_link_start.

Theorem C08_link_selection :
  forall ls pos total i link t,
    link_of_pos ls pos total i = (link, t) -> 0 <= link -> pos >= t /\ link < Z.of_nat i.
Proof. exact link_of_pos_bounds. Qed.
Print Assumptions C08_link_selection.

Example C08_nonvacuous :
  let l := {| li_serial := 1; li_bs0 := 64; li_bs1 := 512; li_off := 0; li_dataoff := 158; li_end := 218; li_init := 0; li_len := 300 |} in
  exists pg rest, best_page (firstn 4 demo_pages) l 200 None = Some (pg :: rest) /\ pg_gran pg = 176.
Proof. eexists _, _. vm_compute. split; reflexivity. Qed.

(* any page table: a page seek that succeeds lands inside the selected link, at or before the target *)
Theorem C08_page_seek_lands_at_or_before_target :
  forall s pos s1,
    pcm_seek_page s pos = (0, s1) -> fallback s pos = false -> OPENED <= v_rs s <= INITSET ->
    base_of s1 (v_link s1) <= v_pcm s1 <= pos.
Proof. intros s pos s1 H1 H2 H3. destruct (page_seek_facts s pos s1 H1 H2 H3) as (_ & _ & _ & H). exact H. Qed.
Print Assumptions C08_page_seek_lands_at_or_before_target.

(* any page table, any handle state: a sample seek that reports success does not land before the target *)
Theorem C08_sample_seek_never_short :
  forall s pos, v_hs s = 0 -> fst (pcm_seek s pos) = 0 -> pos <= v_pcm (snd (pcm_seek s pos)).
Proof. intros s pos Hh H. pose proof (pcm_seek_not_short s pos ltac:(lia) H) as B. rewrite Hh in B. change (2 ^ 0) with 1 in B. lia. Qed.
Print Assumptions C08_sample_seek_never_short.

(* the sample-accurate seek lands exactly on the target (hypotheses: one executable test) *)
Theorem C08_sample_seek_lands_exactly_on_target :
  forall s pos, seek_hyps s pos = true ->
    fst (pcm_seek s pos) = 0 /\ v_pcm (snd (pcm_seek s pos)) = pos.
Proof. intros s pos H. destruct (pcm_seek_checked s pos H) as (A & B & _). split; assumption. Qed.
Print Assumptions C08_sample_seek_lands_exactly_on_target.

(* non-vacuity: every target of the demo link up to the last page *)
Example C08_exact_landing_nonvacuous :
  forallb (fun k => seek_hyps demo2 (Z.of_nat k) && (v_pcm (snd (pcm_seek demo2 (Z.of_nat k))) =? Z.of_nat k)) (seq 0 673) = true.
Proof. vm_compute. reflexivity. Qed.

(* ... and up to the very end of the link: targets inside the block that the end-of-stream packet cuts
   short, the link's last sample and its end included (SeekE_lemmas.v) *)
Theorem C08_sample_seek_lands_exactly_up_to_link_end :
  forall s pos, seek_hyps_e s pos = true ->
    fst (pcm_seek s pos) = 0 /\ v_pcm (snd (pcm_seek s pos)) = pos.
Proof. intros s pos H. destruct (pcm_seek_checked_e s pos H) as (A & B & _). split; assumption. Qed.
Print Assumptions C08_sample_seek_lands_exactly_up_to_link_end.

(* non-vacuity: the targets of the demo link's last page, its end (700) included *)
Example C08_exact_landing_to_end_nonvacuous :
  forallb (fun k => seek_hyps_e demo2 (Z.of_nat k) && (v_pcm (snd (pcm_seek demo2 (Z.of_nat k))) =? Z.of_nat k)) (seq 673 28) = true.
Proof. vm_compute. reflexivity. Qed.

(* a sample-accurate seek to the end of the last link, then a read: end of file.  Hypotheses as one executable
   test (seek_end_hyps): the seek is covered by the theorem above, no page follows the run in the file, and
   the run closes with an end-of-stream packet whose granule position is the target *)
Theorem C08_seek_to_end_then_end_of_file :
  forall s pos len, seek_end_hyps s pos = true ->
    let s' := snd (pcm_seek s pos) in
    fst (pcm_seek s pos) = 0 /\ v_pcm s' = pos /\ fst (fst (read_float (read_fuel s') s' len)) = 0.
Proof. exact seek_to_end_checked. Qed.
Print Assumptions C08_seek_to_end_then_end_of_file.

(* the general form: a handle whose position is truthful (up to the link's end) and equal to the position the
   closing end-of-stream packet gives, with nothing after the run *)
Theorem C08_truthful_at_end_then_end_of_file :
  forall gend s pos len,
    TruthfulE [] s pos -> EndE [] gend s -> v_pcm s = pos ->
    pos - base_of s (v_link s) = gend - li_init (cur_link s) ->
    fst (fst (read_float (read_fuel s) s len)) = 0.
Proof. exact seek_end_then_eof. Qed.
Print Assumptions C08_truthful_at_end_then_end_of_file.

(* non-vacuity: the end of the one-link demo file and of the two-link one *)
Example C08_seek_to_end_nonvacuous :
  seek_end_hyps demo2 700 = true /\ seek_end_hyps demo4 900 = true /\ seek_end_hyps demo2 699 = false /\
  fst (fst (let s' := snd (pcm_seek demo4 900) in read_float (read_fuel s') s' 64)) = 0.
Proof. vm_compute. repeat split. Qed.
