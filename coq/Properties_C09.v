(* C09  Opening a chained file accounts for every link and every sample.
   Proved on VFile.v: splitting the page table into links loses no page and
   every link starts at a BOS page; lengths and initial offsets are
   non-negative; the total is the sum of the link lengths; and, for one link
   at full rate: reading an intact run of packets and then the link's
   end-of-stream packet delivers EXACTLY the samples up to the position the
   last granule position names - none missing, none beyond - and leaves the
   reported position at the link's end (Sync_lemmas.v: link_read_to_end).
   That the read then crosses into the next link and delivers it from its
   first sample is established per run (tie + oracle), see DESIGN.md. *)
From VV Require Import Blocking VFile VFile_lemmas VFileDemo Sync_lemmas Seek_lemmas.
From Coq Require Import ZArith List Lia.
Import ListNotations.
Local Open Scope Z_scope.

Theorem C09_every_page_in_exactly_one_link :
  forall pgs, concat (split_links pgs [] [] false) = pgs.
Proof. exact split_links_concat. Qed.
Print Assumptions C09_every_page_in_exactly_one_link.

Theorem C09_lengths_nonnegative :
  forall seg hdr fend next, 0 <= li_len (mk_link seg hdr fend next) /\ 0 <= li_init (mk_link seg hdr fend next).
Proof. exact mk_link_nonneg. Qed.
Print Assumptions C09_lengths_nonnegative.

Theorem C09_total_is_sum_of_links :
  forall s, pcm_total s = fold_right Z.add 0 (map li_len (v_links s)).
Proof. exact pcm_total_sum. Qed.
Print Assumptions C09_total_is_sum_of_links.

Theorem C09_one_link_per_segment :
  forall segs hdrs fend, length (mk_links segs hdrs fend) = Nat.min (length segs) (length hdrs).
Proof. exact mk_links_length. Qed.
Print Assumptions C09_one_link_per_segment.

Example C09_demo_links :
  map (fun l => (li_serial l, li_off l, li_dataoff l, li_init l, li_len l)) (v_links demo) =
  [(1, 0, 158, 0, 300); (2, 248, 406, 0, 128)].
Proof. vm_compute. reflexivity. Qed.

(* every sample of a link is accounted for: intact packets, then the end-of-stream packet whose granule
   position names the link's length L (the decoder having seen some granule position before) *)
Theorem C09_link_read_accounts_for_every_sample :
  forall ps s here p w L,
    SyncInv s here -> intact_seq s here ps ->
    let '(s1, ns) := run_link s ps in
    let here1 := here + fold_right Z.add 0 ns in
    d_gran (v_dec s1) <> -1 ->
    pk_eos p = true -> pk_gran p = li_init (cur_link s1) + L ->
    here1 <= L <= here1 + (bsz (cur_cfg s1) (d_W (v_dec s1)) / 4 + bsz (cur_cfg s1) w / 4) ->
    let '(n, s2) := drain (feed s1 p w) in
    fold_right Z.add 0 ns + n = L - here /\ v_pcm s2 = base_of s (v_link s) + L /\ dec_pcmout (v_dec s2) = 0.
Proof. exact link_read_to_end. Qed.
Print Assumptions C09_link_read_accounts_for_every_sample.

(* non-vacuity: the demo link (700 samples) from the position after its first read (32): six intact packets and
   the end-of-stream packet deliver 32+32+144+256+144+32 and then 28 samples = 700 - 32, and the position ends at 700 *)
Example C09_demo2_read_to_end :
  let a w g e := {| pk_W := Some w; pk_gran := g; pk_eos := e |} in
  let s1 := snd (read_float (read_fuel demo2) demo2 1000) in
  let ps := [(a false 64 false, false); (a false (-1) false, false); (a true 240 false, true); (a true 496 false, true);
             (a false (-1) false, false); (a false 672 false, false)] in
  SyncInv s1 32 /\ intact_seq s1 32 ps /\
  (let '(s2, ns) := run_link s1 ps in
   let '(n, s3) := drain (feed s2 (a false 700 true) false) in
   ns = [32; 32; 144; 256; 144; 32] /\ n = 28 /\ v_pcm s3 = 700 /\ li_len (cur_link s3) = 700).
Proof.
  cbv zeta. split; [|split].
  - unfold SyncInv. vm_compute. repeat split; try discriminate; try reflexivity; try (intros H; discriminate H). right. reflexivity.
  - cbn [intact_seq]. unfold intact.
    repeat (split; [vm_compute; split; [reflexivity|first [left; reflexivity|right; reflexivity]]|]). exact I.
  - vm_compute. repeat split; reflexivity.
Qed.

(* reading from the start of a freshly opened handle (hypotheses: one executable test): the first fetch delivers
   nothing and leaves the handle in sync at position 0 of the link; the two theorems on linear reading and on the
   end of the link then account for every sample up to the link's length *)
Theorem C09_read_from_start_is_in_sync :
  forall s, start_hyps s = true ->
    let s2 := make_ready s in
    exists p r w s0,
      stream (auto_tail s) s2 = p :: r /\ pk_W p = Some w /\
      fetch (fetch_fuel s2) s2 = (1, feed s0 p w) /\
      SyncInv (feed s0 p w) 0 /\ dec_pcmout (v_dec (feed s0 p w)) = 0 /\ v_pcm (feed s0 p w) = v_pcm s /\
      IntactS (cur_link s) false 0 w r.
Proof. exact read_from_start. Qed.
Print Assumptions C09_read_from_start_is_in_sync.

Example C09_start_hyps_nonvacuous : start_hyps demo2 = true /\ start_hyps demo = true.
Proof. split; vm_compute; reflexivity. Qed.
