(* C09  Opening a chained file accounts for every link and every sample.
   Proved on VFile.v: splitting the page table into links loses no page and
   every link starts at a BOS page; lengths and initial offsets are
   non-negative; the total is the sum of the link lengths.  That the linear
   read then delivers every link completely and in order is established per
   run (tie + oracle), see DESIGN.md. *)
From VV Require Import Blocking VFile VFile_lemmas VFileDemo.
Local Open Scope Z_scope.

Theorem C09_every_page_in_exactly_one_link :
  forall pgs, concat (split_links pgs [] [] false) = pgs.
Proof. exact split_links_concat. Qed.
Print Assumptions C09_every_page_in_exactly_one_link.

Theorem C09_lengths_nonnegative :
  forall seg hdr fend next, 0 <= li_len (mk_link seg hdr fend next) /\ 0 <= li_init (mk_link seg hdr fend next).
Proof. exact mk_link_nonneg. Qed.
Print Assumptions C09_lengths_nonnegative.

Theorem C09_total_is_sum_of_links :
  forall s, pcm_total s = fold_right Z.add 0 (map li_len (v_links s)).
Proof. exact pcm_total_sum. Qed.
Print Assumptions C09_total_is_sum_of_links.

Theorem C09_one_link_per_segment :
  forall segs hdrs fend, length (mk_links segs hdrs fend) = Nat.min (length segs) (length hdrs).
Proof. exact mk_links_length. Qed.
Print Assumptions C09_one_link_per_segment.

Example C09_demo_links :
  map (fun l => (li_serial l, li_off l, li_dataoff l, li_init l, li_len l)) (v_links demo) =
  [(1, 0, 158, 0, 300); (2, 248, 406, 0, 128)].
Proof. vm_compute. reflexivity. Qed.
