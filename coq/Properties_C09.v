(* C09  Opening a chained file accounts for every link and every sample.
   Proved on VFile.v: splitting the page table into links loses no page and
   every link starts at a BOS page; lengths and initial offsets are
   non-negative; the total is the sum of the link lengths; and, for one link
   at full rate: reading an intact run of packets and then the link's
   end-of-stream packet delivers EXACTLY the samples up to the position the
   last granule position names - none missing, none beyond - and leaves the
   reported position at the link's end (Sync_lemmas.v: link_read_to_end).
   And the read then CROSSES into the next link: the fetch that meets the next
   link's first page dumps the decoder, enters that link, skips its header
   packets and leaves the handle in sync at position 0 of the new link, the
   reported position being the start of that link (Cross_lemmas.v).  Together:
   start of a link -> in sync at 0 -> intact packets -> end-of-stream packet ->
   next link in sync at 0 -> ...  Per run the whole chain is compared with an
   independent decode of every link (tie + oracle), see DESIGN.md. *)
From VV Require Import Blocking VFile VFile_lemmas Term_lemmas Read_lemmas VFileDemo Sync_lemmas Seek_lemmas Cross_lemmas.
From Coq Require Import ZArith List Lia.
Import ListNotations.
Local Open Scope Z_scope.

Theorem C09_every_page_in_exactly_one_link :
  forall pgs, concat (split_links pgs [] [] false) = pgs.
Proof. exact split_links_concat. Qed.
Print Assumptions C09_every_page_in_exactly_one_link.

Theorem C09_lengths_nonnegative :
  forall seg hdr fend next, 0 <= li_len (mk_link seg hdr fend next) /\ 0 <= li_init (mk_link seg hdr fend next).
Proof. exact mk_link_nonneg. Qed.
Print Assumptions C09_lengths_nonnegative.

Theorem C09_total_is_sum_of_links :
  forall s, pcm_total s = fold_right Z.add 0 (map li_len (v_links s)).
Proof. exact pcm_total_sum. Qed.
Print Assumptions C09_total_is_sum_of_links.

Theorem C09_one_link_per_segment :
  forall segs hdrs fend, length (mk_links segs hdrs fend) = Nat.min (length segs) (length hdrs).
Proof. exact mk_links_length. Qed.
Print Assumptions C09_one_link_per_segment.

Example C09_demo_links :
  map (fun l => (li_serial l, li_off l, li_dataoff l, li_init l, li_len l)) (v_links demo) =
  [(1, 0, 158, 0, 300); (2, 248, 406, 0, 128)].
Proof. vm_compute. reflexivity. Qed.

(* every sample of a link is accounted for: intact packets, then the end-of-stream packet whose granule
   position names the link's length L (the decoder having seen some granule position before) *)
Theorem C09_link_read_accounts_for_every_sample :
  forall ps s here p w L,
    SyncInv s here -> intact_seq s here ps ->
    let '(s1, ns) := run_link s ps in
    let here1 := here + fold_right Z.add 0 ns in
    d_gran (v_dec s1) <> -1 ->
    pk_eos p = true -> pk_gran p = li_init (cur_link s1) + L ->
    here1 <= L <= here1 + (bsz (cur_cfg s1) (d_W (v_dec s1)) / 4 + bsz (cur_cfg s1) w / 4) ->
    let '(n, s2) := drain (feed s1 p w) in
    fold_right Z.add 0 ns + n = L - here /\ v_pcm s2 = base_of s (v_link s) + L /\ dec_pcmout (v_dec s2) = 0.
Proof. exact link_read_to_end. Qed.
Print Assumptions C09_link_read_accounts_for_every_sample.

(* non-vacuity: the demo link (700 samples) from the position after its first read (32): six intact packets and
   the end-of-stream packet deliver 32+32+144+256+144+32 and then 28 samples = 700 - 32, and the position ends at 700 *)
Example C09_demo2_read_to_end :
  let a w g e := {| pk_W := Some w; pk_gran := g; pk_eos := e |} in
  let s1 := snd (read_float (read_fuel demo2) demo2 1000) in
  let ps := [(a false 64 false, false); (a false (-1) false, false); (a true 240 false, true); (a true 496 false, true);
             (a false (-1) false, false); (a false 672 false, false)] in
  SyncInv s1 32 /\ intact_seq s1 32 ps /\
  (let '(s2, ns) := run_link s1 ps in
   let '(n, s3) := drain (feed s2 (a false 700 true) false) in
   ns = [32; 32; 144; 256; 144; 32] /\ n = 28 /\ v_pcm s3 = 700 /\ li_len (cur_link s3) = 700).
Proof.
  cbv zeta. split; [|split].
  - unfold SyncInv. vm_compute. repeat split; try discriminate; try reflexivity; try (intros H; discriminate H). right. reflexivity.
  - cbn [intact_seq]. unfold intact.
    repeat (split; [vm_compute; split; [reflexivity|first [left; reflexivity|right; reflexivity]]|]). exact I.
  - vm_compute. repeat split; reflexivity.
Qed.

(* reading from the start of a freshly opened handle (hypotheses: one executable test): the first fetch delivers
   nothing and leaves the handle in sync at position 0 of the link; the two theorems on linear reading and on the
   end of the link then account for every sample up to the link's length *)
Theorem C09_read_from_start_is_in_sync :
  forall s, start_hyps s = true ->
    let s2 := make_ready s in
    exists p r w s0,
      stream (auto_tail s) s2 = p :: r /\ pk_W p = Some w /\
      fetch (fetch_fuel s2) s2 = (1, feed s0 p w) /\
      SyncInv (feed s0 p w) 0 /\ dec_pcmout (v_dec (feed s0 p w)) = 0 /\ v_pcm (feed s0 p w) = v_pcm s /\
      IntactS (cur_link s) false 0 w r.
Proof. exact read_from_start. Qed.
Print Assumptions C09_read_from_start_is_in_sync.

Example C09_start_hyps_nonvacuous : start_hyps demo2 = true /\ start_hyps demo = true.
Proof. split; vm_compute; reflexivity. Qed.

(* linear reading across a link boundary *)
Theorem C09_read_crosses_into_next_link :
  forall (tail : list page) s pgb (r1 : list page) j hdrs p r w,
    let l := nth_link s j in
    v_hs s = 0 -> v_rs s = INITSET -> v_q s = [] -> v_rem s = pgb :: r1 ++ tail ->
    pg_bos pgb = true -> pg_cont pgb = false -> pg_serial pgb <> v_serial s ->
    find_link (v_links s) (pg_serial pgb) 0 = Some j -> 0 <= j ->
    Forall (plain (pg_serial pgb)) r1 ->
    pg_pkts pgb ++ flat_map pg_pkts r1 = hdrs ++ p :: r -> Forall is_hdr hdrs -> pk_W p = Some w ->
    0 < li_bs0 l -> 0 < li_bs1 l -> li_bs0 l <= li_bs1 l -> li_bs0 l mod 4 = 0 -> li_bs1 l mod 4 = 0 -> 0 <= li_init l ->
    IntactS l true 0 false (p :: r) -> v_pcm s = base_of s j ->
    exists s0,
      fetch (fetch_fuel s) s = (1, feed s0 p w) /\ SyncInv (feed s0 p w) 0 /\ v_link (feed s0 p w) = j /\
      v_pcm (feed s0 p w) = base_of s j /\ dec_pcmout (v_dec (feed s0 p w)) = 0 /\
      stream tail (feed s0 p w) = r /\ PlainRem tail (feed s0 p w) /\ IntactS l false 0 w r.
Proof. exact fetch_crosses_link. Qed.
Print Assumptions C09_read_crosses_into_next_link.

(* non-vacuity: the two-link demo after its first link has been read completely (700 samples in 8 reads) *)
Definition demo4_end : vfs := match reads demo4 (repeat 100000 8) with Some (_, x) => x | None => demo4 end.
Example C09_demo4_crossing :
  let a w g e := {| pk_W := Some w; pk_gran := g; pk_eos := e |} in
  (match reads demo4 (repeat 100000 8) with Some (t, _) => t | None => -1 end) = 700 /\
  exists s0, fetch (fetch_fuel demo4_end) demo4_end = (1, feed s0 (a false (-1) false) false) /\
             SyncInv (feed s0 (a false (-1) false) false) 0 /\ v_link (feed s0 (a false (-1) false) false) = 1 /\
             v_pcm (feed s0 (a false (-1) false) false) = 700.
Proof.
  cbv zeta. split; [vm_compute; reflexivity|].
  destruct (fetch_crosses_link [demo4_nth 11] demo4_end (demo4_nth 8) [demo4_nth 9; demo4_nth 10] 1
              [{| pk_W := None; pk_gran := 0; pk_eos := false |}; {| pk_W := None; pk_gran := -1; pk_eos := false |}; {| pk_W := None; pk_gran := 0; pk_eos := false |}]
              {| pk_W := Some false; pk_gran := -1; pk_eos := false |} [{| pk_W := Some false; pk_gran := 128; pk_eos := false |}] false)
    as (s0 & A & B & C & D & _).
  - vm_compute. reflexivity.
  - vm_compute. reflexivity.
  - vm_compute. reflexivity.
  - vm_compute. reflexivity.
  - reflexivity.
  - reflexivity.
  - vm_compute. intros H; discriminate H.
  - vm_compute. reflexivity.
  - lia.
  - repeat constructor.
  - reflexivity.
  - repeat constructor.
  - reflexivity.
  - vm_compute. reflexivity.
  - vm_compute. reflexivity.
  - vm_compute. discriminate.
  - vm_compute. reflexivity.
  - vm_compute. reflexivity.
  - vm_compute. discriminate.
  - apply intactSb_ok. vm_compute. reflexivity.
  - vm_compute. reflexivity.
  - exists s0. split; [exact A|]. split; [exact B|]. split; [exact C|]. rewrite D. vm_compute. reflexivity.
Qed.
