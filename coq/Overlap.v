(* M7b: the PCM double buffer of vorbis_synthesis_blockin / _lapout with
   symbolic contents: which packet's IMDCT output sample, under which window
   coefficient, ends up in which cell (definitions only). *)
From VV Require Export Blocking.
Local Open Scope Z_scope.

(* symbolic sample values; windows are named by their half-size (n0 or n1) *)
Inductive sexp :=
| SInit (i : Z)                       (* whatever the cell held before *)
| SPcm (k : Z) (i : Z)                (* sample i of packet k's IMDCT output *)
| SLap (old : sexp) (wold : Z) (new : sexp) (wnew : Z) (wn : Z).
       (* old*w[wold] + new*w[wnew], w = the window with half-size wn *)

Definition half (c : cfg) (w : bool) : Z := Z.shiftr (bsz c w) (hs c + 1).

(* cell contents after vorbis_synthesis_blockin of packet k (vb->pcm present)
   on a state with flags (lW := d_W s, W := k_W b) and centre phase d_centerW s *)
Definition blockin_buf (c : cfg) (s : dec) (b : dblock) (k : Z) (buf : Z -> sexp) : Z -> sexp :=
  let lW := d_W s in
  let W := k_W b in
  let n := half c W in
  let n0 := half c false in
  let n1 := half c true in
  let thisC := if d_centerW s =? 0 then 0 else n1 in
  let prevC := if d_centerW s =? 0 then n1 else 0 in
  fun i =>
    if (thisC <=? i) && (i <? thisC + n) then SPcm k (n + (i - thisC))      (* the copy section *)
    else
      match lW, W with
      | true, true =>
          let j := i - prevC in
          if (0 <=? j) && (j <? n1) then SLap (buf i) (n1 - j - 1) (SPcm k j) j n1 else buf i
      | true, false =>
          let j := i - (prevC + n1 / 2 - n0 / 2) in
          if (0 <=? j) && (j <? n0) then SLap (buf i) (n0 - j - 1) (SPcm k j) j n0 else buf i
      | false, true =>
          let j := i - prevC in
          if (0 <=? j) && (j <? n0) then SLap (buf i) (n0 - j - 1) (SPcm k (j + (n1 / 2 - n0 / 2))) j n0
          else if (n0 <=? j) && (j <? n1 / 2 + n0 / 2) then SPcm k (j + (n1 / 2 - n0 / 2))
          else buf i
      | false, false =>
          let j := i - prevC in
          if (0 <=? j) && (j <? n0) then SLap (buf i) (n0 - j - 1) (SPcm k j) j n0 else buf i
      end.

(* every index blockin writes, as (low, high) half-open ranges *)
Definition blockin_writes (c : cfg) (s : dec) (b : dblock) : list (Z * Z) :=
  let lW := d_W s in
  let W := k_W b in
  let n := half c W in
  let n0 := half c false in
  let n1 := half c true in
  let thisC := if d_centerW s =? 0 then 0 else n1 in
  let prevC := if d_centerW s =? 0 then n1 else 0 in
  (thisC, thisC + n) ::
  match lW, W with
  | true, true => [(prevC, prevC + n1)]
  | true, false => [(prevC + n1 / 2 - n0 / 2, prevC + n1 / 2 - n0 / 2 + n0)]
  | false, true => [(prevC, prevC + n1 / 2 + n0 / 2)]
  | false, false => [(prevC, prevC + n0)]
  end.

(* the Vorbis I specification's overlap-add (section 4.3.8): sample j counted
   from the centre of the previous block (flag lW, packet kp) towards the
   centre of the current one (flag W, packet kc), windows applied in full *)
Definition spec_out (n0 n1 : Z) (lW W : bool) (kp kc : Z) (j : Z) : sexp :=
  match lW, W with
  | true, true => SLap (SPcm kp (n1 + j)) (n1 - j - 1) (SPcm kc j) j n1
  | false, false => SLap (SPcm kp (n0 + j)) (n0 - j - 1) (SPcm kc j) j n0
  | true, false =>
      let d := n1 / 2 - n0 / 2 in
      if j <? d then SPcm kp (n1 + j)
      else SLap (SPcm kp (n1 + j)) (n0 - (j - d) - 1) (SPcm kc (j - d)) (j - d) n0
  | false, true =>
      let d := n1 / 2 - n0 / 2 in
      if j <? n0 then SLap (SPcm kp (n0 + j)) (n0 - j - 1) (SPcm kc (j + d)) j n0
      else SPcm kc (j + d)
  end.

(* packets mentioned by a symbolic value; SInit counts as packet -1 *)
Fixpoint pkts (e : sexp) : list Z :=
  match e with
  | SInit _ => [-1]
  | SPcm k _ => [k]
  | SLap a _ b _ _ => pkts a ++ pkts b
  end.

(* cell contents after vorbis_synthesis_lapout (the halves are swapped when
   the buffer wraps, then the data is moved up to be contiguous) *)
Definition lapout_buf (c : cfg) (s : dec) (buf : Z -> sexp) : Z -> sexp :=
  let n0 := half c false in
  let n1 := half c true in
  if (d_ret s <? 0) || negb (d_fresh s) then buf
  else
    let buf1 := if d_centerW s =? n1
                then (fun i => if (0 <=? i) && (i <? n1) then buf (i + n1)
                               else if (n1 <=? i) && (i <? 2 * n1) then buf (i - n1) else buf i)
                else buf in
    if xorb (d_lW s) (d_W s) then
      let d := (n1 - n0) / 2 in
      fun i => if (d <=? i) && (i <? d + (n1 + n0) / 2) then buf1 (i - d) else buf1 i
    else if negb (d_lW s) then
      let d := n1 - n0 in
      fun i => if (d <=? i) && (i <? d + n0) then buf1 (i - d) else buf1 i
    else buf1.

(* _ov_splice on the exposed buffer: the first n = min(n1, n2) cells from the
   read position are cross-faded with the saved lap samples (SSplice new old i
   = new*w^2(i) + old*(1-w^2(i)); channels the old stream did not have fade in
   from silence); nothing else is written *)
Inductive cell :=
| CKeep (e : sexp)
| CSplice (new : sexp) (old : option sexp) (i : Z) (wn : Z).

Definition splice_buf (n wn : Z) (ret : Z) (lap : option (Z -> sexp)) (buf : Z -> sexp) : Z -> cell :=
  fun i => if (ret <=? i) && (i <? ret + n)
           then CSplice (buf i) (match lap with Some l => Some (l (i - ret)) | None => None end) (i - ret) wn
           else CKeep (buf i).
