From VV Require Import Ledger.

(* the source is closed only by ov_clear, at most once per ownership, and
   never for a handle whose open failed *)
Lemma hstep_closes_mono h o : h_closes h <= h_closes (hstep h o).
Proof. destruct o, (h_state h) eqn:E; cbn; rewrite ?E; cbn; try lia; destruct (h_has_source h); lia. Qed.

Lemma hstep_no_close_unless_clear h o : o <> Clear -> h_closes (hstep h o) = h_closes h.
Proof. intros H. destruct o, (h_state h) eqn:E; cbn; rewrite ?E; cbn; try reflexivity; contradiction. Qed.

Definition hinv (h : handle) : Prop :=
  (h_state h = Zeroed -> h_has_source h = false) /\ (h_state h <> Zeroed -> h_has_source h = true).

Lemma hinv_init : hinv h_init. Proof. split; [reflexivity|intros H; contradiction]. Qed.
Lemma hinv_step h o : hinv h -> hinv (hstep h o).
Proof.
  intros [H1 H2]. unfold hinv.
  destruct o, (h_state h) eqn:E; cbn [hstep h_state h_has_source]; rewrite ?E; cbn [h_state h_has_source];
    split; intros H; try reflexivity; try congruence; try discriminate;
    try (rewrite E in *); try (apply H1; reflexivity); try (apply H2; discriminate); try (apply H2; exact H); try (apply H1; exact H).
Qed.

Lemma hinv_run_from h ops : hinv h -> hinv (fold_left hstep ops h).
Proof. revert h. induction ops as [|o r IH]; intros h H; cbn; [exact H|apply IH, hinv_step, H]. Qed.

(* a failed open leaves the handle zeroed and without the source; the next
   ov_clear does not close anything *)
Lemma failed_open_then_clear_no_close h :
  hinv h -> h_state h = Zeroed ->
  h_closes (hstep (hstep h OpenFail) Clear) = h_closes h.
Proof. intros [H1 _] E. cbn. rewrite E. cbn. reflexivity. Qed.

(* exactly one close per successful open that is eventually cleared *)
Lemma closes_from h ops :
  hinv h -> h_closes (fold_left hstep ops h) = h_closes h + owned (h_state h) ops
            + 0 * (if h_has_source h then 1 else 0).
Proof.
  revert h. induction ops as [|o r IH]; intros h Hi; cbn [fold_left owned]; [lia|].
  rewrite IH by (apply hinv_step, Hi). destruct Hi as [H1 H2].
  destruct o, (h_state h) eqn:E; cbn [hstep h_state h_closes h_has_source]; rewrite ?E; cbn [h_state h_closes h_has_source]; try lia;
    try (rewrite (H1 eq_refl); lia); try (rewrite H2 by congruence; lia).
Qed.

Lemma closes_count ops : h_closes (hrun ops) = owned Zeroed ops.
Proof. unfold hrun. rewrite closes_from by apply hinv_init. cbn. lia. Qed.

(* clearing twice in a row closes once *)
Lemma clear_idempotent h : hstep (hstep h Clear) Clear = hstep h Clear.
Proof. cbn. destruct (h_state h); reflexivity. Qed.
