(* C03  vorbisfile is memory-safe and terminates on arbitrary physical streams.
   What the models carry, for ARBITRARY page tables / granule positions / states:
   the packet-and-page loops of the read path terminate within the fuel the
   model computes (each iteration consumes a queued packet or a page); EVERY
   loop of the seek path (the scan of ov_raw_seek, the packet-discarding and
   the sample-discarding loop of ov_pcm_seek, the packet fetch they call)
   terminates: its result is independent of the fuel beyond the measure of the
   state, and ov_raw_seek / ov_pcm_seek supply more than that measure, so the
   functions with any amount of extra fuel compute the same result; the page
   seek never reports the out-of-fuel marker (the one loop of the C code that
   did not terminate - the page rewind of ov_pcm_seek_page - was found by the
   per-run exploration and repaired, commit abb7138); the
   decoder's buffer writes stay inside its 2*n1 cells from any state; granule
   trimming never offers more than was produced whatever the granule position;
   the data source is closed only by ov_clear, once, never after a failed open.
   Memory safety of the C code itself on arbitrary bytes (libogg framing,
   header parsing, the byte-level bisection) is decided per run by mutation
   of real files x random call sequences under ASan/UBSan with a watchdog. *)
From VV Require Import Blocking Blocking_lemmas Overlap Overlap_lemmas VFile VFile_lemmas Term_lemmas Ledger Ledger_lemmas.
Local Open Scope Z_scope.

Theorem C03_fetch_terminates_any_page_table :
  forall s, fst (fetch (fetch_fuel s) s) <> OUT_OF_FUEL.
Proof. exact fetch_fuel_enough. Qed.
Print Assumptions C03_fetch_terminates_any_page_table.

Theorem C03_read_terminates_any_page_table :
  forall s len, 0 <= len -> fst (fst (read_float (read_fuel s) s len)) <> OUT_OF_FUEL.
Proof. exact read_fuel_enough. Qed.
Print Assumptions C03_read_terminates_any_page_table.

Theorem C03_fetch_result_is_packet_or_eof :
  forall fuel s, fst (fetch fuel s) = 1 \/ fst (fetch fuel s) = OV_EOF_ \/ fst (fetch fuel s) = OUT_OF_FUEL.
Proof. exact fetch_rc. Qed.
Print Assumptions C03_fetch_result_is_packet_or_eof.

(* ---- the seek path: every loop ends, for any page table and any handle state ---- *)
Theorem C03_fetch_fuel_independent :
  forall f1 f2 s, (measure s < f1)%nat -> (measure s < f2)%nat -> fetch f1 s = fetch f2 s.
Proof. exact fetch_fuel_indep. Qed.
Print Assumptions C03_fetch_fuel_independent.

Theorem C03_raw_scan_terminates :
  forall f1 f2 s r, (rmeasure s r < f1)%nat -> (rmeasure s r < f2)%nat -> raw_scan f1 s r = raw_scan f2 s r.
Proof. exact raw_scan_fuel. Qed.
Print Assumptions C03_raw_scan_terminates.

Theorem C03_seek_discard_terminates :
  forall f1 f2 s pos lb, (measure s < f1)%nat -> (measure s < f2)%nat -> seek_discard f1 s pos lb = seek_discard f2 s pos lb.
Proof. exact seek_discard_fuel. Qed.
Print Assumptions C03_seek_discard_terminates.

Theorem C03_seek_skip_terminates :
  forall f1 f2 s pos, 0 <= v_hs s -> pos <= pcm_total s ->
    (packets s + 2 <= f1)%nat -> (packets s + 2 <= f2)%nat -> seek_skip f1 s pos = seek_skip f2 s pos.
Proof. exact seek_skip_fuel. Qed.
Print Assumptions C03_seek_skip_terminates.

(* the functions themselves: any amount of extra fuel in their loops changes nothing *)
Theorem C03_raw_seek_terminates_any_page_table :
  forall k s pos, raw_seek_x k s pos = raw_seek s pos.
Proof. exact raw_seek_terminates. Qed.
Print Assumptions C03_raw_seek_terminates_any_page_table.

Theorem C03_pcm_seek_terminates_any_page_table :
  forall k s pos, 0 <= v_hs s -> pcm_seek_x k s pos = pcm_seek s pos.
Proof. exact pcm_seek_terminates. Qed.
Print Assumptions C03_pcm_seek_terminates_any_page_table.

Theorem C03_page_seek_never_out_of_fuel :
  forall s pos, fst (pcm_seek_page s pos) <> OUT_OF_FUEL.
Proof. exact pcm_seek_page_rc. Qed.
Print Assumptions C03_page_seek_never_out_of_fuel.

Theorem C03_decoder_writes_in_bounds_from_any_state :
  forall c s b, SizesOK c ->
    Forall (fun r => 0 <= fst r /\ fst r <= snd r /\ snd r <= 2 * half c true) (blockin_writes c s b).
Proof. exact blockin_writes_in_bounds. Qed.
Print Assumptions C03_decoder_writes_in_bounds_from_any_state.

Theorem C03_trim_any_granule :
  forall h gran0 count1 stp b r cu,
    (h = 0 \/ h = 1) -> r <= cu ->
    let '(g, r', cu') := dec_granule h gran0 count1 stp b r cu in
    r <= r' /\ r' <= cu' /\ cu' <= cu.
Proof. exact granule_range_all. Qed.
Print Assumptions C03_trim_any_granule.

Theorem C03_failed_open_never_closes :
  forall h, hinv h -> h_state h = Zeroed -> h_closes (hstep (hstep h OpenFail) Clear) = h_closes h.
Proof. exact failed_open_then_clear_no_close. Qed.
Print Assumptions C03_failed_open_never_closes.

(* non-vacuity: a garbage page table (foreign serials, lying granules, no eos) *)
Example C03_garbage_table_reads_to_eof :
  let a w g := {| pk_W := Some w; pk_gran := g; pk_eos := false |} in
  let pgs := [ {| pg_off := 0; pg_len := 10; pg_serial := 9; pg_gran := -5; pg_bos := false; pg_eos := false; pg_cont := true; pg_pkts := [a true 7] |};
               {| pg_off := 10; pg_len := 10; pg_serial := 1; pg_gran := 1099511627776; pg_bos := true; pg_eos := false; pg_cont := false; pg_pkts := [a false (-1); a true 3] |};
               {| pg_off := 20; pg_len := 10; pg_serial := 1; pg_gran := 2; pg_bos := false; pg_eos := false; pg_cont := true; pg_pkts := [a true (-7)] |} ] in
  let s := open_file pgs [(1, 64, 256)] 0 in
  fst (fst (read_float (read_fuel s) s 100)) <> OUT_OF_FUEL.
Proof. vm_compute. discriminate. Qed.
