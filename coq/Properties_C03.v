(* C03  vorbisfile is memory-safe and terminates on arbitrary physical streams.
   What the models carry, for ARBITRARY page tables / granule positions / states:
   the packet-and-page loops of the read path terminate within the fuel the
   model computes (each iteration consumes a queued packet or a page); the
   decoder's buffer writes stay inside its 2*n1 cells from any state; granule
   trimming never offers more than was produced whatever the granule position;
   the data source is closed only by ov_clear, once, never after a failed open.
   Memory safety of the C code itself on arbitrary bytes (libogg framing,
   header parsing, the byte-level bisection) is decided per run by mutation
   of real files x random call sequences under ASan/UBSan with a watchdog. *)
From VV Require Import Blocking Blocking_lemmas Overlap Overlap_lemmas VFile VFile_lemmas Ledger Ledger_lemmas.
Local Open Scope Z_scope.

Theorem C03_fetch_terminates_any_page_table :
  forall s, fst (fetch (fetch_fuel s) s) <> OUT_OF_FUEL.
Proof. exact fetch_fuel_enough. Qed.
Print Assumptions C03_fetch_terminates_any_page_table.

Theorem C03_read_terminates_any_page_table :
  forall s len, 0 <= len -> fst (fst (read_float (read_fuel s) s len)) <> OUT_OF_FUEL.
Proof. exact read_fuel_enough. Qed.
Print Assumptions C03_read_terminates_any_page_table.

Theorem C03_fetch_result_is_packet_or_eof :
  forall fuel s, fst (fetch fuel s) = 1 \/ fst (fetch fuel s) = OV_EOF_ \/ fst (fetch fuel s) = OUT_OF_FUEL.
Proof. exact fetch_rc. Qed.
Print Assumptions C03_fetch_result_is_packet_or_eof.

Theorem C03_decoder_writes_in_bounds_from_any_state :
  forall c s b, SizesOK c ->
    Forall (fun r => 0 <= fst r /\ fst r <= snd r /\ snd r <= 2 * half c true) (blockin_writes c s b).
Proof. exact blockin_writes_in_bounds. Qed.
Print Assumptions C03_decoder_writes_in_bounds_from_any_state.

Theorem C03_trim_any_granule :
  forall h gran0 count1 stp b r cu,
    (h = 0 \/ h = 1) -> r <= cu ->
    let '(g, r', cu') := dec_granule h gran0 count1 stp b r cu in
    r <= r' /\ r' <= cu' /\ cu' <= cu.
Proof. exact granule_range_all. Qed.
Print Assumptions C03_trim_any_granule.

Theorem C03_failed_open_never_closes :
  forall h, hinv h -> h_state h = Zeroed -> h_closes (hstep (hstep h OpenFail) Clear) = h_closes h.
Proof. exact failed_open_then_clear_no_close. Qed.
Print Assumptions C03_failed_open_never_closes.

(* non-vacuity: a garbage page table (foreign serials, lying granules, no eos) *)
Example C03_garbage_table_reads_to_eof :
  let a w g := {| pk_W := Some w; pk_gran := g; pk_eos := false |} in
  let pgs := [ {| pg_off := 0; pg_len := 10; pg_serial := 9; pg_gran := -5; pg_bos := false; pg_eos := false; pg_cont := true; pg_pkts := [a true 7] |};
               {| pg_off := 10; pg_len := 10; pg_serial := 1; pg_gran := 1099511627776; pg_bos := true; pg_eos := false; pg_cont := false; pg_pkts := [a false (-1); a true 3] |};
               {| pg_off := 20; pg_len := 10; pg_serial := 1; pg_gran := 2; pg_bos := false; pg_eos := false; pg_cont := true; pg_pkts := [a true (-7)] |} ] in
  let s := open_file pgs [(1, 64, 256)] 0 in
  fst (fst (read_float (read_fuel s) s 100)) <> OUT_OF_FUEL.
Proof. vm_compute. discriminate. Qed.
