(* Proofs about M13 (Pcm.v). *)
From VV Require Import Pcm.
From Coq Require Import ZifyBool.
Local Open Scope Z_scope.
Ltac Zify.zify_post_hook ::= Z.div_mod_to_equations.

Lemma pow2_pos n : 0 <= n -> 0 < 2 ^ n.
Proof. intros H. apply Z.pow_pos_nonneg; lia. Qed.

(* rounding error at most one half; exact for integers *)
Lemma rne_close m e :
  e < 0 -> let d := 2 ^ (- e) in 2 * Z.abs (rne m e * d - m) <= d.
Proof.
  intros He d. unfold rne. destruct (0 <=? e) eqn:E0; [lia|].
  fold d. assert (0 < d) as Hd by (apply pow2_pos; lia).
  pose proof (Z.div_mod m d ltac:(lia)) as Hdm. pose proof (Z.mod_pos_bound m d Hd) as Hr.
  set (q := m / d) in *. set (r := m mod d) in *. clearbody q r d.
  destruct (2 * r <? d) eqn:E1; [nia|].
  destruct (2 * r >? d) eqn:E2; [nia|].
  destruct (Z.even q); nia.
Qed.

Lemma rne_exact m e : 0 <= e -> rne m e = m * 2 ^ e.
Proof. intros H. unfold rne. destruct (0 <=? e) eqn:E; [reflexivity|lia]. Qed.

(* ties go to the even neighbour *)
Lemma rne_tie_even m e :
  e < 0 -> 2 * (m mod 2 ^ (- e)) = 2 ^ (- e) -> Z.even (rne m e) = true.
Proof.
  intros He Ht. unfold rne. destruct (0 <=? e) eqn:E0; [lia|].
  set (d := 2 ^ (- e)) in *.
  destruct (2 * (m mod d) <? d) eqn:E1; [lia|].
  destruct (2 * (m mod d) >? d) eqn:E2; [lia|].
  destruct (Z.even (m / d)) eqn:Ev; [exact Ev|].
  rewrite Z.even_add, Ev. reflexivity.
Qed.

Lemma rne_floor_le m e : e < 0 -> m / 2 ^ (- e) <= rne m e <= m / 2 ^ (- e) + 1.
Proof.
  intros He. unfold rne. destruct (0 <=? e) eqn:E0; [lia|].
  destruct (2 * (m mod 2 ^ (- e)) <? 2 ^ (- e)); [lia|].
  destruct (2 * (m mod 2 ^ (- e)) >? 2 ^ (- e)); [lia|].
  destruct (Z.even (m / 2 ^ (- e))); lia.
Qed.

Lemma rne_ge_int m e k : dy_ge m e k = true -> k <= rne m e.
Proof.
  unfold dy_ge. destruct (0 <=? e) eqn:E0; intros H.
  - rewrite rne_exact by lia. lia.
  - assert (e < 0) as He by lia. pose proof (rne_floor_le m e He) as [Hl _].
    assert (0 < 2 ^ (- e)) as Hd by (apply pow2_pos; lia).
    assert (k <= m / 2 ^ (- e)) by (apply Z.div_le_lower_bound; lia). lia.
Qed.

(* clip o ftoi is the ideal saturating conversion of the rounded value *)
Lemma pack_ideal sl lo hi m e :
  INT_MIN <= lo -> lo <= hi -> hi < INT_MAX ->
  clip lo hi (ftoi sl (Finite m e)) = clip lo hi (rne m (e + sl)).
Proof.
  unfold INT_MIN, INT_MAX. intros H1 H2 H3. unfold ftoi, clip, INT_MIN, INT_MAX.
  destruct (dy_ge m (e + sl) 2147483647) eqn:Eg.
  - apply rne_ge_int in Eg.
    destruct (2147483647 >? hi) eqn:E1; [|lia].
    destruct (rne m (e + sl) >? hi) eqn:E2; [reflexivity|lia].
  - destruct (rne m (e + sl) <? -2147483648) eqn:El; [|reflexivity].
    destruct (-2147483648 >? hi) eqn:E1; [lia|].
    destruct (-2147483648 <? lo) eqn:E2.
    + destruct (rne m (e + sl) >? hi) eqn:E3; [lia|].
      destruct (rne m (e + sl) <? lo) eqn:E4; [reflexivity|lia].
    + assert (lo = -2147483648) by lia. subst lo.
      destruct (rne m (e + sl) >? hi) eqn:E3; [lia|].
      destruct (rne m (e + sl) <? -2147483648) eqn:E4; [reflexivity|lia].
Qed.

Lemma clip_range lo hi v : lo <= hi -> lo <= clip lo hi v <= hi.
Proof. intros H. unfold clip. destruct (v >? hi) eqn:E1; [lia|]. destruct (v <? lo) eqn:E2; lia. Qed.

(* every format: the bytes decode back to the clipped, rounded sample *)
Lemma unpack_pack word sgned be x :
  word = 1 \/ word = 2 ->
  unpack_sample word sgned be (pack_sample word sgned be x) =
  Some (if word =? 1 then clip (-128) 127 (ftoi 7 x) else clip (-32768) 32767 (ftoi 15 x)).
Proof.
  intros [-> | ->]; unfold pack_sample, unpack_sample; cbn [Z.eqb Pos.eqb].
  - pose proof (clip_range (-128) 127 (ftoi 7 x) ltac:(lia)) as Hc.
    set (v := clip (-128) 127 (ftoi 7 x)) in *. clearbody v. f_equal.
    destruct sgned.
    + destruct ((v + 0) mod 256 >=? 128) eqn:E; lia.
    + lia.
  - pose proof (clip_range (-32768) 32767 (ftoi 15 x) ltac:(lia)) as Hc.
    set (v := clip (-32768) 32767 (ftoi 15 x)) in *. clearbody v.
    destruct be, sgned; cbv iota; f_equal.
    + set (u := (v + 0) mod 65536). assert (u / 256 * 256 + u mod 256 = u) as -> by lia.
      destruct (u >=? 32768) eqn:E; unfold u in *; lia.
    + set (u := (v + 32768) mod 65536). assert (u / 256 * 256 + u mod 256 = u) as -> by lia. unfold u. lia.
    + set (u := (v + 0) mod 65536). assert (u / 256 * 256 + u mod 256 = u) as -> by lia.
      destruct (u >=? 32768) eqn:E; unfold u in *; lia.
    + set (u := (v + 32768) mod 65536). assert (u / 256 * 256 + u mod 256 = u) as -> by lia. unfold u. lia.
Qed.

Lemma pack_sample_length word sgned be x :
  word = 1 \/ word = 2 -> Z.of_nat (length (pack_sample word sgned be x)) = word.
Proof. intros [-> | ->]; unfold pack_sample; cbn [Z.eqb Pos.eqb]; [reflexivity|]. destruct be; reflexivity. Qed.

Lemma frame_at_length chans j : length (frame_at chans j) = length chans.
Proof. induction chans; cbn; auto. Qed.

Lemma flat_map_const_length {A B} (f : A -> list B) (l : list A) k :
  (forall a, length (f a) = k) -> length (flat_map f l) = (length l * k)%nat.
Proof. intros H. induction l as [|a r IH]; cbn; [reflexivity|]. rewrite app_length, H, IH. lia. Qed.

(* whole frames, frame-major (sample j of every channel, in channel order) *)
Lemma pack_frames_length word sgned be chans samples :
  word = 1 \/ word = 2 ->
  Z.of_nat (length (pack_frames word sgned be chans samples)) = Z.of_nat samples * (Z.of_nat (length chans) * word).
Proof.
  intros Hw. unfold pack_frames.
  rewrite (flat_map_const_length _ _ (length chans * Z.to_nat word)%nat).
  - rewrite seq_length. destruct Hw as [-> | ->]; lia.
  - intros j. rewrite (flat_map_const_length _ _ (Z.to_nat word)).
    + rewrite frame_at_length. reflexivity.
    + intros x. pose proof (pack_sample_length word sgned be x Hw). lia.
Qed.

Lemma pack_frames_snoc word sgned be chans n :
  pack_frames word sgned be chans (S n) =
  pack_frames word sgned be chans n ++ flat_map (pack_sample word sgned be) (frame_at chans n).
Proof.
  unfold pack_frames. rewrite seq_S, flat_map_app. cbn. rewrite app_nil_r. reflexivity.
Qed.

(* frame arithmetic of the read call *)
Lemma read_frames_ok avail length word channels r n :
  0 < avail -> read_frames avail length word channels = (r, n) -> 0 <= r ->
  0 < word /\ 1 <= channels <= 255 /\ 0 < n /\ n <= avail /\ r = n * (word * channels) /\ r <= length /\
  (n = avail \/ length - r < word * channels).
Proof.
  intros Ha E Hr. unfold read_frames, cdiv in E.
  destruct (word <=? 0) eqn:E1; [inversion E; lia|].
  destruct ((channels <? 1) || (channels >? 255)) eqn:E2; [inversion E; lia|].
  assert (0 < word * channels) as Hb by nia.
  assert (0 <= length \/ length < 0) as [Hl | Hl] by lia.
  - rewrite Z.quot_div_nonneg in E by lia.
    destruct (avail >? length / (word * channels)) eqn:E3.
    + destruct (length / (word * channels) <=? 0) eqn:E4; injection E as <- <-; [lia|].
      repeat split; try lia; try nia.
      all: right; pose proof (Z.div_mod length (word * channels) ltac:(lia));
        pose proof (Z.mod_pos_bound length (word * channels) Hb); nia.
    + destruct (avail <=? 0) eqn:E4; injection E as <- <-; [lia|].
      repeat split; try lia.
      assert (avail * (word * channels) <= length / (word * channels) * (word * channels)) by nia.
      pose proof (Z.div_mod length (word * channels) ltac:(lia)).
      pose proof (Z.mod_pos_bound length (word * channels) Hb). nia.
  - assert (Z.quot length (word * channels) <= 0) as Hq.
    { rewrite <- (Z.opp_involutive length), Z.quot_opp_l by lia.
      pose proof (Z.quot_pos (- length) (word * channels) ltac:(lia) Hb). lia. }
    destruct (avail >? Z.quot length (word * channels)) eqn:E3.
    + destruct (Z.quot length (word * channels) <=? 0) eqn:E4; injection E as <- <-; lia.
    + destruct (avail <=? 0) eqn:E4; injection E as <- <-; lia.
Qed.

(* a buffer smaller than one frame, or a non-positive word size, is an error *)
Lemma read_frames_too_small avail length word channels :
  word <= 0 \/ (0 < word /\ 1 <= channels <= 255 /\ length < word * channels) ->
  read_frames avail length word channels = (-131, 0).
Proof.
  intros [H | (Hw & Hc & Hl)]; unfold read_frames, cdiv.
  - destruct (word <=? 0) eqn:E; [reflexivity|lia].
  - destruct (word <=? 0) eqn:E1; [lia|].
    destruct ((channels <? 1) || (channels >? 255)) eqn:E2; [lia|].
    assert (0 < word * channels) as Hb by nia.
    assert (Z.quot length (word * channels) <= 0) as Hq.
    { assert (0 <= length \/ length < 0) as [H0 | H0] by lia.
      - rewrite Z.quot_small by lia. lia.
      - rewrite <- (Z.opp_involutive length), Z.quot_opp_l by lia.
        pose proof (Z.quot_pos (- length) (word * channels) ltac:(lia) Hb). lia. }
    destruct (avail >? Z.quot length (word * channels)) eqn:E3.
    + destruct (Z.quot length (word * channels) <=? 0) eqn:E4; [reflexivity|lia].
    + destruct (avail <=? 0) eqn:E4; [reflexivity|lia].
Qed.
