(* M4: one audio packet through lib/synthesis.c, lib/mapping0.c (up to but not
   including the inverse MDCT), lib/floor1.c, lib/floor0.c (bit consumption and
   LSP coefficients; the curve itself is numeric), lib/res0.c: verdict, bits
   consumed, and the spectrum of every channel as exact binary32 values.
   Definitions only. *)
From VV Require Import SrcFacts Bits Pcm Fl Setup Codebook.
From Coq Require Import ZArith List Bool.
Import ListNotations.
Local Open Scope Z_scope.

Definition empty_book : book :=
  {| b_dim := 0; b_entries := 0; b_lengths := []; b_maptype := 0; b_qmin := 0; b_qdelta := 0; b_qquant := 0; b_qseq := 0; b_quantlist := [] |}.
Definition empty_dbook : dbook :=
  {| d_src := empty_book; d_used := 0; d_single := false; d_first := 0; d_tree := HEmpty; d_qv := 0; d_min := fzero; d_delta := fzero |}.

Record dsetup := { ds_ident : ident; ds_setup : setup; ds_books : list dbook }.

Fixpoint init_books (bl : list book) : option (list dbook) :=
  match bl with
  | [] => Some []
  | b :: r => match init_book b with
              | None => None
              | Some d => match init_books r with None => None | Some l => Some (d :: l) end
              end
  end.
(* vorbis_synthesis_init: None when a codebook cannot be built *)
Definition synthesis_init (i : ident) (s : setup) : option dsetup :=
  match init_books (s_books s) with
  | None => None
  | Some l => Some {| ds_ident := i; ds_setup := s; ds_books := l |}
  end.
Definition dbk (ds : dsetup) (i : Z) : dbook := nth (Z.to_nat i) (ds_books ds) empty_dbook.

(* oggpack_read with the value -1 and an exhausted reader at end of packet *)
(* the packet reader: remaining bits and libogg's overflow state (a read ran
   past the end).  A failed codeword look-up consumes what is left WITHOUT
   setting that state (oggpack_look/oggpack_adv), a failed oggpack_read sets it. *)
Definition prd := (bits * bool)%type.
Definition rdm (w : nat) (p : prd) : Z * prd :=
  match rd w (fst p) with Some (v, r) => (v, (r, snd p)) | None => (-1, ([], true)) end.
Definition bdec (d : dbook) (p : prd) : option Z * prd :=
  let '(o, r) := book_decode d (fst p) in (o, (r, snd p)).

Definition zn (l : list Z) (i : Z) : Z := nth (Z.to_nat i) l 0.

(* ------------------------------------------------------------------ *)
(* floor 1                                                             *)
(* ------------------------------------------------------------------ *)
Definition f1_quantq (mult : Z) : Z :=
  if mult =? 1 then 256 else if mult =? 2 then 128 else if mult =? 3 then 86 else 64.

(* floor1_look: low/high neighbours of post i among posts 0..i-1 *)
Fixpoint neigh_scan (pl : list Z) (j : Z) (cur lo lx hi hx : Z) : Z * Z :=
  match pl with
  | [] => (lo, hi)
  | x :: r =>
      let '(lo1, lx1) := if (x >? lx) && (x <? cur) then (j, x) else (lo, lx) in
      let '(hi1, hx1) := if (x <? hx) && (x >? cur) then (j, x) else (hi, hx) in
      neigh_scan r (j + 1) cur lo1 lx1 hi1 hx1
  end.
Definition neighbors (pl : list Z) (i : Z) : Z * Z :=
  neigh_scan (firstn (Z.to_nat i) pl) 0 (zn pl i) 0 0 1 (zn pl 1).

(* render_point *)
Definition render_point (x0 x1 y0 y1 x : Z) : Z :=
  let y0 := Z.land y0 32767 in let y1 := Z.land y1 32767 in
  let dy := y1 - y0 in let adx := x1 - x0 in
  let off := Z.quot (Z.abs dy * (x - x0)) adx in
  if dy <? 0 then y0 - off else y0 + off.

(* the partition loop of floor1_inverse1: values for posts 2.., or None at end of packet *)
Fixpoint f1_sub (ds : dsetup) (c : fclass) (k : nat) (cval : Z) (bs : prd) : option (list Z) * prd :=
  match k with
  | O => (Some [], bs)
  | S k' =>
      let csub := 2 ^ c_subs c in
      let book := nth (Z.to_nat (Z.land cval (csub - 1))) (c_subbook c) (-1) in
      let cval' := Z.shiftr cval (c_subs c) in
      if book >=? 0 then
        match bdec (dbk ds book) bs with
        | (None, r) => (None, r)
        | (Some v, r) => match f1_sub ds c k' cval' r with (Some l, r2) => (Some (v :: l), r2) | (None, r2) => (None, r2) end
        end
      else match f1_sub ds c k' cval' bs with (Some l, r2) => (Some (0 :: l), r2) | (None, r2) => (None, r2) end
  end.
Fixpoint f1_parts (ds : dsetup) (classes : list fclass) (pc : list Z) (bs : prd) : option (list Z) * prd :=
  match pc with
  | [] => (Some [], bs)
  | cl :: rest =>
      let c := cls classes cl in
      let '(cv, r1) := if c_subs c =? 0 then (Some 0, bs) else bdec (dbk ds (c_book c)) bs in
      match cv with
      | None => (None, r1)
      | Some cval =>
          match f1_sub ds c (Z.to_nat (c_dim c)) cval r1 with
          | (None, r2) => (None, r2)
          | (Some l, r2) => match f1_parts ds classes rest r2 with (Some l2, r3) => (Some (l ++ l2), r3) | (None, r3) => (None, r3) end
          end
      end
  end.

(* unwrap and reconstitute by linear prediction, post by post *)
Fixpoint f1_unwrap (fuel : nat) (pl : list Z) (q : Z) (i : Z) (fit : list Z) : list Z :=
  match fuel with
  | O => fit
  | S f =>
      if i >=? Z.of_nat (length pl) then fit else
      let '(lo, hi) := neighbors pl i in
      let predicted := render_point (zn pl lo) (zn pl hi) (zn fit lo) (zn fit hi) (zn pl i) in
      let hiroom := q - predicted in
      let loroom := predicted in
      let room := (if hiroom <? loroom then hiroom else loroom) * 2 in
      let val := zn fit i in
      let fit' :=
        if negb (val =? 0) then
          let v := if val >=? room then (if hiroom >? loroom then val - loroom else -1 - (val - hiroom))
                   else (if Z.odd val then - Z.shiftr (val + 1) 1 else Z.shiftr val 1) in
          let f1 := lset fit (Z.to_nat i) (Z.land (v + predicted) 32767) in
          let f2 := lset f1 (Z.to_nat lo) (Z.land (zn f1 lo) 32767) in
          lset f2 (Z.to_nat hi) (Z.land (zn f2 hi) 32767)
        else lset fit (Z.to_nat i) (Z.lor predicted 32768) in
      f1_unwrap f pl q (i + 1) fit'
  end.

Definition floor1_inverse1 (ds : dsetup) (pc : list Z) (classes : list fclass) (mult rangebits : Z) (posts : list Z) (bs : prd)
  : option (list Z) * prd :=
  let '(flag, r0) := rdm 1 bs in
  if negb (flag =? 1) then (None, r0) else
  let q := f1_quantq mult in
  let w := ilogn (q - 1) in
  let '(f0, r1) := rdm w r0 in
  let '(f1, r2) := rdm w r1 in
  match f1_parts ds classes pc r2 with
  | (None, r3) => (None, r3)
  | (Some l, r3) =>
      let pl := 0 :: 2 ^ rangebits :: posts in
      (Some (f1_unwrap 70 pl q 2 (f0 :: f1 :: l)), r3)
  end.

(* render_line0: table index for x = x0 .. min(n,x1)-1 *)
Fixpoint line_ys (cnt : nat) (y err ady adx base sy : Z) : list Z :=
  match cnt with
  | O => []
  | S c => let err' := err + ady in
           let '(e2, y2) := if err' >=? adx then (err' - adx, y + sy) else (err', y + base) in
           y2 :: line_ys c y2 e2 ady adx base sy
  end.
Definition render_line (n x0 x1 y0 y1 : Z) : list Z :=
  let dy := y1 - y0 in let adx := x1 - x0 in
  let base := Z.quot dy adx in
  let sy := if dy <? 0 then base - 1 else base + 1 in
  let ady := Z.abs dy - Z.abs (base * adx) in
  let lim := if n >? x1 then x1 else n in
  if x0 <? lim then y0 :: line_ys (Z.to_nat (lim - x0 - 1)) y0 0 ady adx base sy else [].

Definition clamp255 (y : Z) : Z := if y <? 0 then 0 else if y >? 255 then 255 else y.

(* insertion sort of post indices by position (floor1_look's forward_index) *)
Fixpoint ins_by (pl : list Z) (i : Z) (l : list Z) : list Z :=
  match l with
  | [] => [i]
  | j :: r => if zn pl i <? zn pl j then i :: l else j :: ins_by pl i r
  end.
Definition forward_index (pl : list Z) : list Z :=
  fold_left (fun acc i => ins_by pl i acc) (map Z.of_nat (seq 0 (length pl))) [].

(* floor1_inverse2: the table index applied to every spectral line 0..n-1 *)
Fixpoint f1_lines (n : Z) (pl fit : list Z) (mult : Z) (order : list Z) (lx ly : Z) : list Z * Z * Z :=
  match order with
  | [] => ([], lx, ly)
  | cur :: rest =>
      let hy := Z.land (zn fit cur) 32767 in
      if hy =? zn fit cur then
        let hx := zn pl cur in
        let hy' := clamp255 (hy * mult) in
        let seg := render_line n lx hx ly hy' in
        let '(l, lx2, ly2) := f1_lines n pl fit mult rest hx hy' in (seg ++ l, lx2, ly2)
      else f1_lines n pl fit mult rest lx ly
  end.
Definition floor1_curve (n : Z) (mult rangebits : Z) (posts : list Z) (fit : list Z) : list Z :=
  let pl := 0 :: 2 ^ rangebits :: posts in
  let ly0 := clamp255 (zn fit 0 * mult) in
  let '(l, hx, ly) := f1_lines n pl fit mult (tl (forward_index pl)) 0 ly0 in
  let l' := firstn (Z.to_nat n) l in
  l' ++ repeat ly (Z.to_nat n - length l').

(* ------------------------------------------------------------------ *)
(* floor 0: bits consumed and LSP coefficients (amplitude stays raw)    *)
(* ------------------------------------------------------------------ *)
(* vorbis_book_decodev_set *)
Fixpoint decodev_set (fuel : nat) (d : dbook) (n : Z) (i : Z) (bs : prd) : option (list f32) * prd :=
  match fuel with
  | O => (Some [], bs)
  | S f =>
      if i >=? n then (Some [], bs) else
      match bdec d bs with
      | (None, r) => (None, r)
      | (Some e, r) =>
          let t := firstn (Z.to_nat (n - i)) (book_vector d e) in
          match decodev_set f d n (i + Z.of_nat (length t)) r with
          | (Some l, r2) => (Some (t ++ l), r2)
          | (None, r2) => (None, r2)
          end
      end
  end.
(* for(j=0;j<m;){ for(k=0;j<m && k<dim;k++,j++) lsp[j]+=last; last=lsp[j-1]; } *)
Fixpoint lsp_accumulate (fuel : nat) (dim : nat) (l : list f32) (last : f32) : list f32 :=
  match fuel with
  | O => []
  | S f =>
      match l with
      | [] => []
      | _ => let chunk := map (fun x => fadd32 x last) (firstn dim l) in
             chunk ++ lsp_accumulate f dim (skipn dim l) (List.last chunk last)
      end
  end.

Inductive memo :=
| MNone                                   (* unused channel *)
| MFloor1 (fit : list Z)
| MFloor0 (ampraw : Z) (lsp : list f32).

Definition floor0_inverse1 (ds : dsetup) (order ampbits : Z) (books : list Z) (bs : prd) : memo * prd :=
  if ampbits >? 32 then (MNone, ([], true)) else           (* oggpack_read refuses more than 32 bits *)
  let '(ampraw0, r0) := rdm (Z.to_nat ampbits) bs in
  let ampraw := if ampbits =? 32 then s32 ampraw0 else ampraw0 in     (* stored in an int *)
  if ampraw >? 0 then
    let '(booknum, r1) := rdm (ilogn (Z.of_nat (length books))) r0 in
    if (booknum >=? 0) && (booknum <? Z.of_nat (length books)) then
      let d := dbk ds (zn books booknum) in
      if d_used d =? 0 then (MFloor0 ampraw (repeat fzero (Z.to_nat order)), r1)
      else match decodev_set (Z.to_nat order + 1) d order 0 r1 with
           | (None, r2) => (MNone, r2)
           | (Some l, r2) => (MFloor0 ampraw (lsp_accumulate (Z.to_nat order + 1) (Z.to_nat (b_dim (d_src d))) l fzero), r2)
           end
    else (MNone, r1)
  else (MNone, r0).

Definition floor_inverse1 (ds : dsetup) (f : Setup.floor) (bs : prd) : memo * prd :=
  match f with
  | Floor1 pc classes mult rangebits posts =>
      match floor1_inverse1 ds pc classes mult rangebits posts bs with
      | (Some fit, r) => (MFloor1 fit, r)
      | (None, r) => (MNone, r)
      end
  | Floor0 order rate barkmap ampbits ampdB books => floor0_inverse1 ds order ampbits books bs
  end.

(* ------------------------------------------------------------------ *)
(* residue                                                             *)
(* ------------------------------------------------------------------ *)
Fixpoint add_at (off : nat) (vals : list f32) (vec : list f32) : list f32 :=
  match off, vec with
  | _, [] => []
  | S k, x :: r => x :: add_at k vals r
  | O, x :: r => match vals with [] => vec | v :: vs => fadd32 x v :: add_at O vs r end
  end.

(* vorbis_book_decodev_add: (vector, reader, ok) *)
Fixpoint decodev_add (fuel : nat) (d : dbook) (vec : list f32) (off n i : Z) (bs : prd) : list f32 * prd * bool :=
  match fuel with
  | O => (vec, bs, true)
  | S f =>
      if i >=? n then (vec, bs, true) else
      match bdec d bs with
      | (None, r) => (vec, r, false)
      | (Some e, r) =>
          let t := firstn (Z.to_nat (n - i)) (book_vector d e) in
          if (length t =? 0)%nat then (vec, r, true)           (* dim 0: refused at unpack *)
          else decodev_add f d (add_at (Z.to_nat (off + i)) t vec) off n (i + Z.of_nat (length t)) r
      end
  end.

Fixpoint decode_n (k : nat) (d : dbook) (bs : prd) : option (list Z) * prd :=
  match k with
  | O => (Some [], bs)
  | S k' => match bdec d bs with
            | (None, r) => (None, r)
            | (Some e, r) => match decode_n k' d r with (Some l, r2) => (Some (e :: l), r2) | (None, r2) => (None, r2) end
            end
  end.
(* vorbis_book_decodevs_add: step = n/dim entries first, then the interleaved adds *)
Definition decodevs_add (d : dbook) (vec : list f32) (off n : Z) (bs : prd) : list f32 * prd * bool :=
  let dim := b_dim (d_src d) in
  let step := Z.quot n dim in
  match decode_n (Z.to_nat step) d bs with
  | (None, r) => (vec, r, false)
  | (Some es, r) =>
      let ts := map (book_vector d) es in
      (* a[o+j] += t[j][i], o = i*step *)
      let vec' := fold_left (fun v i =>
                     add_at (Z.to_nat (off + Z.of_nat i * step))
                            (firstn (Z.to_nat (n - Z.of_nat i * step)) (map (fun t => nth i t fzero) ts)) v)
                            (seq 0 (Z.to_nat dim)) vec in
      (vec', r, true)
  end.

(* vorbis_book_decodevv_add: one value after the other across the channels *)
Fixpoint vv_scatter (vecs : list (list f32)) (ch : Z) (t : list f32) (i chptr m : Z) : list (list f32) * Z * Z :=
  match t with
  | [] => (vecs, i, chptr)
  | x :: r =>
      if i >=? m then (vecs, i, chptr) else
      let v := nth (Z.to_nat chptr) vecs [] in
      let vecs' := lset vecs (Z.to_nat chptr) (add_at (Z.to_nat i) [x] v) in
      if chptr + 1 =? ch then vv_scatter vecs' ch r (i + 1) 0 m else vv_scatter vecs' ch r i (chptr + 1) m
  end.
Fixpoint decodevv_add (fuel : nat) (d : dbook) (vecs : list (list f32)) (ch i chptr m : Z) (bs : prd) : list (list f32) * prd * bool :=
  match fuel with
  | O => (vecs, bs, true)
  | S f =>
      if i >=? m then (vecs, bs, true) else
      match bdec d bs with
      | (None, r) => (vecs, r, false)
      | (Some e, r) =>
          let t := book_vector d e in
          if (length t =? 0)%nat then (vecs, r, true) else
          let '(vecs', i', chptr') := vv_scatter vecs ch t i chptr m in
          decodevv_add f d vecs' ch i' chptr' m r
      end
  end.

(* look->partbooks: for partition class c and stage s the index into booklist *)
Fixpoint stage_index (ss : list Z) (c : Z) (s : Z) (acc : Z) : option Z :=
  match ss with
  | [] => None
  | x :: rest =>
      if c =? 0 then (if Z.testbit x s then Some (acc + icount (x mod 2 ^ s)) else None)
      else stage_index rest (c - 1) s (acc + icount x)
  end.
Definition res_stages (r : residue) : Z := zmax_list (map ilog (r_secondstages r)) 0.

(* digit k (most significant first) of a partition word *)
Definition pw_digit (r : residue) (dim : Z) (temp k : Z) : Z :=
  (temp / r_partitions r ^ (dim - 1 - k)) mod r_partitions r.

Record rstate := { rs_vecs : list (list f32); rs_bits : prd; rs_pw : list (list Z); rs_go : bool }.

(* residue formats 0 and 1: the body for one partition word position l *)
Fixpoint r01_chan (ds : dsetup) (r : residue) (s : Z) (dim : Z) (i l k : Z) (j : nat) (nch : nat) (st : rstate) : rstate :=
  match nch with
  | O => st
  | S nch' =>
      if negb (rs_go st) then st else
      let temp := nth (Z.to_nat l) (nth j (rs_pw st) []) 0 in
      let c := pw_digit r dim temp k in
      let st1 :=
        if Z.testbit (zn (r_secondstages r) c) s then
          match stage_index (r_secondstages r) c s 0 with
          | None => st
          | Some bi =>
              let d := dbk ds (zn (r_booklist r) bi) in
              if d_used d =? 0 then st else
              let vec := nth j (rs_vecs st) [] in
              let off := r_begin r + i * r_grouping r in
              let '(vec', bs', ok) :=
                if r_type r =? 0 then decodevs_add d vec off (r_grouping r) (rs_bits st)
                else decodev_add (Z.to_nat (r_grouping r) + 1) d vec off (r_grouping r) 0 (rs_bits st) in
              {| rs_vecs := lset (rs_vecs st) j vec'; rs_bits := bs'; rs_pw := rs_pw st; rs_go := ok |}
          end
        else st in
      r01_chan ds r s dim i l k (S j) nch' st1
  end.
Fixpoint r01_k (ds : dsetup) (r : residue) (s dim partvals : Z) (nch : nat) (i l k : Z) (cnt : nat) (st : rstate) : rstate * Z :=
  match cnt with
  | O => (st, i)
  | S c =>
      if negb (rs_go st) || (i >=? partvals) then (st, i)
      else r01_k ds r s dim partvals nch (i + 1) l (k + 1) c (r01_chan ds r s dim i l k 0 nch st)
  end.
(* fetch the partition word of every channel (stage 0) *)
Fixpoint r01_fetch (ds : dsetup) (r : residue) (nch : nat) (j : nat) (st : rstate) : rstate :=
  match nch with
  | O => st
  | S n' =>
      if negb (rs_go st) then st else
      match bdec (dbk ds (r_groupbook r)) (rs_bits st) with
      | (None, b) => {| rs_vecs := rs_vecs st; rs_bits := b; rs_pw := rs_pw st; rs_go := false |}
      | (Some temp, b) =>
          if temp >=? r_partvals r then {| rs_vecs := rs_vecs st; rs_bits := b; rs_pw := rs_pw st; rs_go := false |}
          else r01_fetch ds r n' (S j)
                 {| rs_vecs := rs_vecs st; rs_bits := b;
                    rs_pw := lset (rs_pw st) j (nth j (rs_pw st) [] ++ [temp]); rs_go := true |}
      end
  end.
Fixpoint r01_parts (fuel : nat) (ds : dsetup) (r : residue) (s dim partvals : Z) (nch : nat) (i l : Z) (st : rstate) : rstate :=
  match fuel with
  | O => st
  | S f =>
      if negb (rs_go st) || (i >=? partvals) then st else
      let st1 := if s =? 0 then r01_fetch ds r nch 0 st else st in
      if negb (rs_go st1) then st1 else
      let '(st2, i') := r01_k ds r s dim partvals nch i l 0 (Z.to_nat dim) st1 in
      r01_parts f ds r s dim partvals nch i' (l + 1) st2
  end.
Fixpoint r01_stages (ds : dsetup) (r : residue) (dim partvals : Z) (nch : nat) (s : Z) (cnt : nat) (st : rstate) : rstate :=
  match cnt with
  | O => st
  | S c => if negb (rs_go st) then st
           else r01_stages ds r dim partvals nch (s + 1) c (r01_parts (Z.to_nat partvals + 1) ds r s dim partvals nch 0 0 st)
  end.

Definition res01_inverse (ds : dsetup) (r : residue) (halfn : Z) (vecs : list (list f32)) (bs : prd) : list (list f32) * prd :=
  let nch := length vecs in
  let dim := b_dim (d_src (dbk ds (r_groupbook r))) in
  let end_ := if r_end r <? halfn then r_end r else halfn in
  let n := end_ - r_begin r in
  if (n >? 0) && negb (nch =? 0)%nat then
    let partvals := Z.quot n (r_grouping r) in
    let st := r01_stages ds r dim partvals nch 0 (Z.to_nat (res_stages r))
                {| rs_vecs := vecs; rs_bits := bs; rs_pw := repeat [] nch; rs_go := true |} in
    (rs_vecs st, rs_bits st)
  else (vecs, bs).

(* residue format 2: one partition word stream, values interleaved across channels *)
Fixpoint r2_k (ds : dsetup) (r : residue) (s dim partvals ch : Z) (i l k : Z) (cnt : nat) (st : rstate) : rstate * Z :=
  match cnt with
  | O => (st, i)
  | S c =>
      if negb (rs_go st) || (i >=? partvals) then (st, i) else
      let temp := nth (Z.to_nat l) (nth 0 (rs_pw st) []) 0 in
      let cl := pw_digit r dim temp k in
      let st1 :=
        if Z.testbit (zn (r_secondstages r) cl) s then
          match stage_index (r_secondstages r) cl s 0 with
          | None => st
          | Some bi =>
              let d := dbk ds (zn (r_booklist r) bi) in
              if d_used d =? 0 then st else
              let off := i * r_grouping r + r_begin r in
              (* the loop runs until i reaches m: up to (m - i) * ch values, which can exceed the grouping *)
              let '(vecs', bs', ok) := decodevv_add (Z.to_nat ((Z.quot (off + r_grouping r) ch - Z.quot off ch + 1) * ch + 2))
                                         d (rs_vecs st) ch (Z.quot off ch) 0
                                         (Z.quot (off + r_grouping r) ch) (rs_bits st) in
              {| rs_vecs := vecs'; rs_bits := bs'; rs_pw := rs_pw st; rs_go := ok |}
          end
        else st in
      r2_k ds r s dim partvals ch (i + 1) l (k + 1) c st1
  end.
Fixpoint r2_parts (fuel : nat) (ds : dsetup) (r : residue) (s dim partvals ch : Z) (i l : Z) (st : rstate) : rstate :=
  match fuel with
  | O => st
  | S f =>
      if negb (rs_go st) || (i >=? partvals) then st else
      let st1 := if s =? 0 then r01_fetch ds r 1 0 st else st in
      if negb (rs_go st1) then st1 else
      let '(st2, i') := r2_k ds r s dim partvals ch i l 0 (Z.to_nat dim) st1 in
      r2_parts f ds r s dim partvals ch i' (l + 1) st2
  end.
Fixpoint r2_stages (ds : dsetup) (r : residue) (dim partvals ch : Z) (s : Z) (cnt : nat) (st : rstate) : rstate :=
  match cnt with
  | O => st
  | S c => if negb (rs_go st) then st
           else r2_stages ds r dim partvals ch (s + 1) c (r2_parts (Z.to_nat partvals + 1) ds r s dim partvals ch 0 0 st)
  end.
Definition res2_inverse (ds : dsetup) (r : residue) (halfn : Z) (vecs : list (list f32)) (nonzero : list bool) (bs : prd)
  : list (list f32) * prd :=
  let ch := Z.of_nat (length vecs) in
  let dim := b_dim (d_src (dbk ds (r_groupbook r))) in
  let mx := halfn * ch in
  let end_ := if r_end r <? mx then r_end r else mx in
  let n := end_ - r_begin r in
  if (n >? 0) && existsb (fun b => b) nonzero then
    let partvals := Z.quot n (r_grouping r) in
    let st := r2_stages ds r dim partvals ch 0 (Z.to_nat (res_stages r))
                {| rs_vecs := vecs; rs_bits := bs; rs_pw := [[]]; rs_go := true |} in
    (rs_vecs st, rs_bits st)
  else (vecs, bs).

(* ------------------------------------------------------------------ *)
(* mapping 0                                                           *)
(* ------------------------------------------------------------------ *)
Fixpoint floors_in (ds : dsetup) (m : mapping) (mux : list Z) (bs : prd) : list memo * prd :=
  match mux with
  | [] => ([], bs)
  | sub :: rest =>
      let f := nth (Z.to_nat (zn (m_floor m) sub)) (s_floors (ds_setup ds)) (Floor1 [] [] 1 0 []) in
      let '(mm, r) := floor_inverse1 ds f bs in
      let '(l, r2) := floors_in ds m rest r in (mm :: l, r2)
  end.
Definition is_used (mm : memo) : bool := match mm with MNone => false | _ => true end.
Definition bnth (l : list bool) (i : Z) : bool := nth (Z.to_nat i) l false.

(* channel coupling can dirty the nonzero list *)
Definition couple_nonzero (coupling : list (Z * Z)) (nz : list bool) : list bool :=
  fold_left (fun nz p => let '(mg, an) := p in
                         if bnth nz mg || bnth nz an then lset (lset nz (Z.to_nat mg) true) (Z.to_nat an) true else nz) coupling nz.

Definition chans_of (mux : list Z) (sub : Z) : list nat :=
  filter (fun j => nth j mux 0 =? sub) (seq 0 (length mux)).
Fixpoint put_back {A} (idx : list nat) (vals : list A) (all : list A) : list A :=
  match idx, vals with
  | i :: ir, v :: vr => put_back ir vr (lset all i v)
  | _, _ => all
  end.

Fixpoint residues_in (ds : dsetup) (m : mapping) (halfn : Z) (nz : list bool) (sub : Z) (cnt : nat)
                     (pcm : list (list f32)) (bs : prd) : list (list f32) * prd :=
  match cnt with
  | O => (pcm, bs)
  | S c =>
      let idx := chans_of (m_mux m) sub in
      let r := nth (Z.to_nat (zn (m_residue m) sub)) (s_residues (ds_setup ds))
                   {| r_type := 0; r_begin := 0; r_end := 0; r_grouping := 1; r_partitions := 1; r_groupbook := 0;
                      r_secondstages := []; r_booklist := []; r_partvals := 1 |} in
      let '(pcm', bs') :=
        if r_type r =? 2 then
          let '(vs, b) := res2_inverse ds r halfn (map (fun j => nth j pcm []) idx) (map (fun j => nth j nz false) idx) bs in
          (put_back idx vs pcm, b)
        else
          let used := filter (fun j => nth j nz false) idx in
          let '(vs, b) := res01_inverse ds r halfn (map (fun j => nth j pcm []) used) bs in
          (put_back used vs pcm, b) in
      residues_in ds m halfn nz (sub + 1) c pcm' bs'
  end.

Definition couple_one (mag ang : f32) : f32 * f32 :=
  if fpos mag then (if fpos ang then (mag, fsub32 mag ang) else (fadd32 mag ang, mag))
  else (if fpos ang then (mag, fadd32 mag ang) else (fsub32 mag ang, mag)).
Definition uncouple (coupling : list (Z * Z)) (pcm : list (list f32)) : list (list f32) :=
  fold_left (fun pcm p =>
               let '(mg, an) := p in
               let prs := map (fun q => couple_one (fst q) (snd q)) (combine (nth (Z.to_nat mg) pcm []) (nth (Z.to_nat an) pcm [])) in
               lset (lset pcm (Z.to_nat mg) (map fst prs)) (Z.to_nat an) (map snd prs))
            (rev coupling) pcm.

Definition fromdB (y : Z) : f32 := decode_b32 (zn floor1_fromdB_bits y).

(* per channel: the final spectrum for floor 1 / unused channels; for floor 0
   the residue and the floor parameters (its curve is applied numerically) *)
Inductive chan_out :=
| CSpectrum (v : list f32)
| CFloor0 (ampraw : Z) (lsp : list f32) (residue_ : list f32).

Definition apply_floor (ds : dsetup) (m : mapping) (halfn : Z) (j : nat) (mm : memo) (vec : list f32) : chan_out :=
  match mm with
  | MNone => CSpectrum (repeat fzero (Z.to_nat halfn))
  | MFloor0 a l => CFloor0 a l vec
  | MFloor1 fit =>
      match nth (Z.to_nat (zn (m_floor m) (nth j (m_mux m) 0))) (s_floors (ds_setup ds)) (Floor1 [] [] 1 0 []) with
      | Floor1 pc classes mult rangebits posts =>
          CSpectrum (map (fun p => fmul32 (fst p) (fromdB (snd p))) (combine vec (floor1_curve halfn mult rangebits posts fit)))
      | _ => CSpectrum vec
      end
  end.

Inductive pverdict := POk | PNotAudio | PBadPacket.
Record pout := { po_verdict : pverdict; po_mode : Z; po_W : Z; po_lW : Z; po_nW : Z; po_left : Z; po_chans : list chan_out }.

Definition synthesis (ds : dsetup) (pkt : list N) : pout :=
  let bad v := {| po_verdict := v; po_mode := 0; po_W := 0; po_lW := 0; po_nW := 0; po_left := 0; po_chans := [] |} in
  let bs : prd := (bits_of_bytes pkt, false) in
  let '(t, r0) := rdm 1 bs in
  if negb (t =? 0) then bad PNotAudio else
  let modes := s_modes (ds_setup ds) in
  let '(mode, r1) := rdm (ilogn (Z.of_nat (length modes) - 1)) r0 in
  if (mode <? 0) || (mode >=? Z.of_nat (length modes)) then bad PBadPacket else
  let md := nth (Z.to_nat mode) modes {| md_blockflag := 0; md_mapping := 0 |} in
  let W := md_blockflag md in
  let '(lW, r2) := if W =? 1 then rdm 1 r1 else (0, r1) in
  let '(nW, r3) := if W =? 1 then rdm 1 r2 else (0, r2) in
  if nW <? 0 then bad PBadPacket else
  let m := nth (Z.to_nat (md_mapping md)) (s_maps (ds_setup ds))
               {| m_submaps := 1; m_coupling := []; m_mux := []; m_floor := []; m_residue := [] |} in
  let n := if W =? 1 then i_bs1 (ds_ident ds) else i_bs0 (ds_ident ds) in
  let halfn := n / 2 in
  let '(memos, r4) := floors_in ds m (m_mux m) r3 in
  let nz := couple_nonzero (m_coupling m) (map is_used memos) in
  let pcm0 := map (fun _ => repeat fzero (Z.to_nat halfn)) memos in
  let '(pcm1, r5) := residues_in ds m halfn nz 0 (Z.to_nat (m_submaps m)) pcm0 r4 in
  let pcm2 := uncouple (m_coupling m) pcm1 in
  {| po_verdict := POk; po_mode := mode; po_W := W; po_lW := lW; po_nW := nW; po_left := (if snd r5 then -2 else Z.of_nat (length (fst r5)));
     po_chans := map (fun x => let '(j, mm, v) := x in apply_floor ds m halfn j mm v)
                     (combine (combine (seq 0 (length memos)) memos) pcm2) |}.
