(* M9 (first part): who owns the data source.  The life cycle of an
   OggVorbis_File handle and the close callback (lib/vorbisfile.c: _ov_open1,
   _ov_open2, ov_clear).  Definitions only. *)
From Coq Require Export List ZArith Bool Lia.
Export ListNotations.

Inductive hstate := Zeroed | PartOpen | Opened.

(* what the application does with one handle *)
Inductive hop :=
| OpenOk            (* ov_open_callbacks returns 0 *)
| OpenFail          (* ov_open_callbacks fails (in _ov_open1 or in _ov_open2) *)
| TestOk            (* ov_test_callbacks returns 0 *)
| TestFail
| TestOpenOk        (* ov_test_open on a partially open handle returns 0 *)
| TestOpenFail
| Use               (* any read / seek / info call, failing or not *)
| Clear.            (* ov_clear *)

Record handle := { h_state : hstate; h_closes : nat; h_has_source : bool }.

Definition h_init : handle := {| h_state := Zeroed; h_closes := 0; h_has_source := false |}.

(* ov_clear calls close_func only when vf->datasource is set; every failing
   open path sets vf->datasource = NULL before its ov_clear *)
Definition hstep (h : handle) (o : hop) : handle :=
  match o, h_state h with
  | OpenOk, Zeroed => {| h_state := Opened; h_closes := h_closes h; h_has_source := true |}
  | OpenFail, Zeroed => {| h_state := Zeroed; h_closes := h_closes h; h_has_source := false |}
  | TestOk, Zeroed => {| h_state := PartOpen; h_closes := h_closes h; h_has_source := true |}
  | TestFail, Zeroed => {| h_state := Zeroed; h_closes := h_closes h; h_has_source := false |}
  | TestOpenOk, PartOpen => {| h_state := Opened; h_closes := h_closes h; h_has_source := true |}
  | TestOpenFail, PartOpen => {| h_state := Zeroed; h_closes := h_closes h; h_has_source := false |}
  | Clear, _ =>
      {| h_state := Zeroed; h_closes := (if h_has_source h then S (h_closes h) else h_closes h);
         h_has_source := false |}
  | _, _ => h          (* Use, or an op the API refuses in this state (OV_EINVAL): no effect *)
  end.

Definition hrun (ops : list hop) : handle := fold_left hstep ops h_init.

(* number of times the application handed the library a source it came to own *)
Fixpoint owned (st : hstate) (ops : list hop) : nat :=
  match ops with
  | [] => 0
  | o :: r =>
      match o, st with
      | OpenOk, Zeroed => owned Opened r
      | TestOk, Zeroed => owned PartOpen r
      | TestOpenOk, PartOpen => owned Opened r
      | TestOpenFail, PartOpen => owned Zeroed r
      | Clear, Zeroed => owned Zeroed r
      | Clear, _ => S (owned Zeroed r)
      | _, _ => owned st r
      end
  end.
