(* C02  Packet-level decoder is memory-safe and terminates on arbitrary input.
   What a theorem about the models can carry: (1) the header parser is a total
   function on arbitrary bytes and whatever it accepts has every index in range
   (mapping, mode, coupling, multiplex, submap tables proved here); (2) the
   reader never grows and every tree look-up consumes a bit: the decode loops
   are bounded by the packet length; (3) the residue and floor index
   arithmetic stays inside the vectors for EVERY value of the header fields;
   (4) granule trimming cannot move the returned range outside the decoded one
   (C11_trim_any_granule).  Real memory safety, stack depth, heap and time are
   runtime facts: explored under ASan/UBSan with budgets (harness/pd.c). *)
From VV Require Import SrcFacts Bits Pcm Fl Setup Codebook PacketDec Blocking Decoder_lemmas.
From Coq Require Import ZArith List Bool.
Import ListNotations.
Local Open Scope Z_scope.

(* reads return values of the announced width and consume exactly that many bits *)
Theorem C02_reader_exact :
  forall w bs v r, rd w bs = Some (v, r) -> 0 <= v < 2 ^ Z.of_nat w /\ (length r + w = length bs)%nat.
Proof. exact rd_range. Qed.
Print Assumptions C02_reader_exact.

(* an accepted mapping only names channels, submaps, floors and residues that exist *)
Theorem C02_mapping_indices_valid :
  forall channels floors residues bs m r,
    unpack_mapping channels floors residues bs = Some (m, r) -> 0 < channels /\ mapping_wf channels floors residues m.
Proof. exact unpack_mapping_wf. Qed.
Print Assumptions C02_mapping_indices_valid.

(* accepted modes name existing mappings *)
Theorem C02_mode_indices_valid :
  forall n maps bs l r, rd_modes n maps bs = Some (l, r) ->
    length l = n /\ Forall (fun m => 0 <= md_mapping m < maps /\ (md_blockflag m = 0 \/ md_blockflag m = 1)) l.
Proof. exact rd_modes_wf. Qed.
Print Assumptions C02_mode_indices_valid.

(* whatever bytes are presented as a set-up header: if the parser accepts them,
   there are 1..256 books and 1..64 floors, residues, mappings and modes, and
   every cross reference is valid - floor classes name existing books, floor 0
   and residue value books exist, carry values and have at least one dimension,
   phrasebooks have partitions^dim <= entries, posts are distinct and at most
   VIF_POSIT, coupling pairs are distinct channels, multiplex/submap/mode
   entries name existing submaps, floors, residues and mappings *)
Theorem C02_accepted_setup_is_well_formed :
  forall channels bs s, unpack_setup channels bs = Some s -> setup_wf channels s.
Proof. exact unpack_setup_wf. Qed.
Print Assumptions C02_accepted_setup_is_well_formed.

(* ... and that is the only way a set-up enters the decoder state: the
   invariant is preserved by EVERY packet handed to vorbis_synthesis_headerin,
   in any order, with any flags *)
Definition HInv (s : hstate) : Prop :=
  forall x, h_setup s = Some x -> exists i, h_ident s = Some i /\ setup_wf (i_channels i) x.

Theorem C02_header_state_well_formed :
  HInv h_init /\ forall s bos pkt, HInv s -> HInv (snd (headerin s bos pkt)).
Proof.
  split; [intros x H; discriminate|].
  intros s bos pkt Hinv. unfold headerin.
  repeat match goal with
         | |- context [match ?x with _ => _ end] =>
             match x with
             | context [match _ with _ => _ end] => fail 1
             | _ => destruct x eqn:?
             end
         end;
    cbn [snd]; try exact Hinv; intros x Hx; cbn [h_setup h_ident] in *; try discriminate.
  all: try (match goal with H : h_ident ?s0 = None |- _ =>
              apply Hinv in Hx; destruct Hx as [i' [Hi' _]]; rewrite Hi' in H; discriminate end).
  all: try (apply Hinv in Hx; exact Hx).
  all: try (apply Hinv in Hx; destruct Hx as [i' [Hi' Hw]];
            match goal with H : h_ident ?s0 = Some ?i0 |- _ => rewrite H in Hi'; inversion Hi'; subst; eexists; split; [reflexivity|exact Hw] end).
  all: try (inversion Hx; subst; eexists; split; [reflexivity|eapply unpack_setup_wf; eassumption]).
Qed.
Print Assumptions C02_header_state_well_formed.

(* floor 1: at most VIF_POSIT posts, so fit_value[j+k] stays inside its array *)
Theorem C02_floor1_post_count :
  forall pc classes rb bs posts r, rd_posts pc classes rb 0 bs = Some (posts, r) ->
    (forall c, 0 <= c_dim (cls classes c)) -> Z.of_nat (length posts) <= VIF_POSIT.
Proof. intros pc classes rb bs posts r H Hd. apply rd_posts_count in H; [lia|exact Hd|unfold VIF_POSIT; lia]. Qed.
Print Assumptions C02_floor1_post_count.

(* every decode step leaves no more bits than it found: the work per packet is bounded by its length *)
Theorem C02_decode_bounded_by_packet :
  forall d bs e r, book_decode d bs = (Some e, r) -> (length r <= length bs)%nat.
Proof. exact book_decode_no_growth. Qed.
Print Assumptions C02_decode_bounded_by_packet.

(* every successful codeword look-up strictly consumes bits (books as vorbis_book_init_decode
   builds them): the measure that makes every decode loop terminate within the packet *)
Theorem C02_every_lookup_consumes :
  forall b d bs e r, init_book b = Some d -> book_decode d bs = (Some e, r) -> (length r < length bs)%nat.
Proof. exact book_decode_progress. Qed.
Print Assumptions C02_every_lookup_consumes.

(* for ANY packet bytes under ANY accepted set-up: a packet that is not rejected yields one
   vector per channel with exactly blocksize/2 lines - residue decode (formats 0, 1, 2),
   coupling and the floor product never change the length of a working vector *)
Theorem C02_decoded_packet_shape :
  forall ds pkt, setup_wf (i_channels (ds_ident ds)) (ds_setup ds) -> 0 <= i_channels (ds_ident ds) ->
    0 <= i_bs0 (ds_ident ds) -> 0 <= i_bs1 (ds_ident ds) ->
    let o := synthesis ds pkt in
    po_verdict o = POk ->
    let n := if po_W o =? 1 then i_bs1 (ds_ident ds) else i_bs0 (ds_ident ds) in
    length (po_chans o) = Z.to_nat (i_channels (ds_ident ds)) /\
    Forall (fun c => chan_len c = Z.to_nat (n / 2)) (po_chans o).
Proof. exact synthesis_shapes. Qed.
Print Assumptions C02_decoded_packet_shape.

(* the write ranges of the residue decoders, for all header values *)
Theorem C02_residue_writes_in_range :
  (forall begin end_ grouping halfn i, 0 <= begin -> 0 < grouping -> 0 <= halfn ->
     let lim := if end_ <? halfn then end_ else halfn in
     0 < lim - begin -> 0 <= i < Z.quot (lim - begin) grouping ->
     0 <= begin + i * grouping /\ begin + i * grouping + grouping <= halfn) /\
  (forall n dim i j, 0 < dim -> 0 <= n -> 0 <= i < dim -> 0 <= j < Z.quot n dim -> 0 <= i * Z.quot n dim + j < n) /\
  (forall off vals vec, length (add_at off vals vec) = length vec).
Proof. split; [exact res01_partition_in_bounds|split; [exact res0_interleave_in_bounds|exact add_at_length]]. Qed.
Print Assumptions C02_residue_writes_in_range.

(* non-vacuity: the 30-byte identification header of a 2-channel 44.1 kHz stream is accepted *)
Example C02_nonvacuous :
  fst (headerin h_init true [1; 118; 111; 114; 98; 105; 115; 0; 0; 0; 0; 2; 68; 172; 0; 0; 0; 0; 0; 0; 0; 0; 0; 0; 0; 0; 0; 0; 184; 1]%N) = HOk.
Proof. vm_compute. reflexivity. Qed.
