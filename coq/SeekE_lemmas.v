(* ov_pcm_seek up to the very end of a link: the intact run may now close with the link's
   end-of-stream packet, whose granule position cuts the last block short.  Same development
   as Seek_lemmas.v (which stays as it is), for handles whose decoder knows a granule position
   (every landing of ov_pcm_seek_page except the beginning-of-link one).  C07/C08. *)
From VV Require Import Blocking Blocking_lemmas VFile VFile_lemmas Decoder_lemmas Sync_lemmas Seek_lemmas.
From Coq Require Import ZArith List Bool Lia ZifyBool.
Import ListNotations.
Local Open Scope Z_scope.
Ltac Zify.zify_post_hook ::= Z.div_mod_to_equations.

(* ------------------------------------------------------------------ *)
(* what blockin does to the tracked granule position, whatever else happens *)
Lemma dec_granule_gran h gran0 count1 stp b r c :
  fst (fst (dec_granule h gran0 count1 stp b r c)) =
  if gran0 =? -1 then (if negb (k_gran b =? -1) then k_gran b else gran0)
  else if negb (k_gran b =? -1) && negb (gran0 + stp =? k_gran b) then k_gran b else gran0 + stp.
Proof.
  unfold dec_granule. destruct (gran0 =? -1).
  - destruct (negb (k_gran b =? -1)); [|reflexivity].
    destruct (if k_pcm b then trim_first h count1 b r c else (r, c)); reflexivity.
  - destruct (negb (k_gran b =? -1) && negb (gran0 + stp =? k_gran b)); [|reflexivity].
    destruct (trim_tracked h (gran0 + stp) b r c); reflexivity.
Qed.

Lemma blockin_fields c s b s' :
  dec_blockin c s b = (0, s') ->
  d_W s' = k_W b /\ d_seq s' = k_seq b /\
  d_gran s' = (let lost := (d_seq s =? -1) || negb (d_seq s + 1 =? k_seq b) in
               let gran0 := if lost then -1 else d_gran s in
               let stp := bsz c (d_W s) / 4 + bsz c (k_W b) / 4 in
               if gran0 =? -1 then (if negb (k_gran b =? -1) then k_gran b else gran0)
               else if negb (k_gran b =? -1) && negb (gran0 + stp =? k_gran b) then k_gran b else gran0 + stp).
Proof.
  unfold dec_blockin. destruct ((d_cur s >? d_ret s) && negb (d_ret s =? -1)); [discriminate|].
  set (lost := (d_seq s =? -1) || negb (d_seq s + 1 =? k_seq b)).
  set (gran0 := if lost then -1 else d_gran s).
  set (stp := bsz c (d_W s) / 4 + bsz c (k_W b) / 4).
  destruct (dec_pcmpart c s b stp) as [[cw r1] c1].
  set (count1 := if (if lost then -1 else d_count s) =? -1 then 0 else (if lost then -1 else d_count s) + stp).
  pose proof (dec_granule_gran (hs c) gran0 count1 stp b r1 c1) as Hg.
  destruct (dec_granule (hs c) gran0 count1 stp b r1 c1) as [[g2 r2] c2]. cbn [fst] in Hg.
  intros H. injection H as <-. cbn [d_W d_seq d_gran]. split; [reflexivity|]. split; [reflexivity|]. cbv zeta. exact Hg.
Qed.

(* a known (non-negative) granule position stays known *)
Lemma blockin_gran_known c s b s' :
  dec_blockin c s b = (0, s') -> 0 <= bsz c (d_W s) / 4 + bsz c (k_W b) / 4 ->
  (k_gran b = -1 \/ 0 <= k_gran b) ->
  (0 <= k_gran b \/ (d_seq s <> -1 /\ d_seq s + 1 = k_seq b /\ 0 <= d_gran s)) ->
  0 <= d_gran s'.
Proof.
  intros H Hstp Hk Hkn. destruct (blockin_fields c s b s' H) as (_ & _ & Hg). cbv zeta in Hg. rewrite Hg. clear Hg.
  set (stp := bsz c (d_W s) / 4 + bsz c (k_W b) / 4) in *.
  destruct ((d_seq s =? -1) || negb (d_seq s + 1 =? k_seq b)) eqn:El.
  - change (-1 =? -1) with true. cbv iota. destruct Hkn as [Hkn|Hkn]; [|lia]. destruct (negb (k_gran b =? -1)) eqn:E; lia.
  - destruct (d_gran s =? -1) eqn:Eg.
    + destruct (negb (k_gran b =? -1)) eqn:E; lia.
    + destruct (negb (k_gran b =? -1) && negb (d_gran s + stp =? k_gran b)) eqn:E; lia.
Qed.

Lemma tracking_known l d e : tracking l d e -> 0 <= d_gran d -> d_gran d = li_init l + e.
Proof. intros [[H _]|H] Hk; [lia|exact H]. Qed.

(* the end-of-stream packet of a link into a synchronised decoder that knows where it is: what
   becomes pending is exactly what is left of the link *)
Lemma feed_eos_pending s here p w L :
  SyncInv s here -> d_gran (v_dec s) = li_init (cur_link s) + here ->
  pk_eos p = true -> pk_gran p = li_init (cur_link s) + L ->
  let stp := bsz (cur_cfg s) (d_W (v_dec s)) / 4 + bsz (cur_cfg s) w / 4 in
  here <= L <= here + stp ->
  let f := feed s p w in let d := v_dec f in
  0 <= d_ret d /\ d_cur d - d_ret d = L - here /\ d_seq d = v_pno s /\ v_pcm f = v_pcm s /\
  d_gran d = li_init (cur_link s) + L /\ d_W d = w.
Proof.
  intros (Hhs & Hb0 & Hb1 & Hi & Hr & Hr0 & Hs1 & Hs2 & Hpcm & Hh & Ht) Hgr He Hg stp HL.
  set (c := cur_cfg s) in *. set (d := v_dec s) in *. set (l := cur_link s) in *.
  assert (hs c = 0) as Hhc by (unfold c, cur_cfg, cfg_of; cbn; exact Hhs).
  set (b := {| k_W := w; k_gran := pk_gran p; k_seq := v_pno s; k_eof := pk_eos p; k_pcm := true |}).
  destruct (blockin_eos c d b) as (d' & Eb & Hout & Hret & Hret0 & Hgrn).
  - unfold c, cur_cfg, cfg_of; cbn; exact Hb0.
  - unfold c, cur_cfg, cfg_of; cbn; exact Hb1.
  - exact Hhc.
  - reflexivity.
  - exact Hr.
  - exact Hr0.
  - exact He.
  - lia.
  - cbn. lia.
  - lia.
  - unfold b. cbn [k_gran k_W]. fold stp. lia.
  - unfold b. cbn [k_gran]. lia.
  - destruct (blockin_fields c d b d' Eb) as (HW & Hsq & _). unfold b in HW, Hsq, Hout, Hgrn. cbn [k_W k_seq k_gran] in HW, Hsq, Hout, Hgrn.
    intros f d0.
    assert (v_dec f = d' /\ v_pcm f = v_pcm s) as (P2 & P1).
    { unfold f, feed, process_audio. fold c d b. rewrite Eb. rewrite He, andb_false_r. cbn. split; reflexivity. }
    unfold d0. rewrite P2, P1.
    split; [exact Hret0|]. split; [lia|]. split; [exact Hsq|]. split; [reflexivity|]. split; [lia|exact HW].
Qed.

Lemma feed_dec_eq s p w y d' :
  dec_blockin (cur_cfg s) (v_dec s) {| k_W := w; k_gran := pk_gran p; k_seq := v_pno s; k_eof := pk_eos p; k_pcm := true |} = (y, d') ->
  v_dec (feed s p w) = d'.
Proof.
  intros H. unfold feed, process_audio. rewrite H. destruct (negb (pk_gran p =? -1) && negb (pk_eos p)); reflexivity.
Qed.

(* an intact packet into a synchronised decoder that knows where it is: it still knows *)
Lemma feed_known s here p w :
  SyncInv s here -> intact s here p w -> d_gran (v_dec s) = li_init (cur_link s) + here ->
  d_gran (v_dec (feed s p w)) = li_init (cur_link s) + here + (bsz (cur_cfg s) (d_W (v_dec s)) / 4 + bsz (cur_cfg s) w / 4).
Proof.
  intros (Hhs & Hb0 & Hb1 & Hi & Hr & Hr0 & Hs1 & Hs2 & Hpcm & Hh & Ht) (He & Hg) Hk.
  set (c := cur_cfg s) in *. set (d := v_dec s) in *. set (l := cur_link s) in *.
  set (stp := bsz c (d_W d) / 4 + bsz c w / 4) in *.
  set (b := {| k_W := w; k_gran := pk_gran p; k_seq := v_pno s; k_eof := pk_eos p; k_pcm := true |}).
  destruct (blockin_no_trim c d b) as (d' & Eb & Hout & Hret & HW & Hsq & Hcnt & Hgrn & Hret0).
  - unfold c, cur_cfg, cfg_of; cbn; exact Hb0.
  - unfold c, cur_cfg, cfg_of; cbn; exact Hb1.
  - unfold c, cur_cfg, cfg_of; cbn; lia.
  - reflexivity.
  - exact Hr.
  - exact Hr0.
  - exact He.
  - unfold b. cbn [k_gran k_seq k_W]. fold c d stp.
    destruct ((d_seq d =? -1) || negb (d_seq d + 1 =? v_pno s)) eqn:El; [lia|].
    destruct Hg as [Hg|Hg]; [left; exact Hg|right]. right. split; lia.
  - rewrite (feed_dec_eq s p w 0 d' Eb). unfold b in Hgrn. cbn [k_W k_gran k_seq] in Hgrn. fold c d stp in Hgrn.
    destruct ((d_seq d =? -1) || negb (d_seq d + 1 =? v_pno s)) eqn:El; [lia|].
    rewrite Hgrn. destruct (d_gran d =? -1) eqn:E; lia.
Qed.

Section TailE.
(* the pages that follow the run (further links, or nothing): never looked at *)
Variable tail : list page.
Notation rem1 := (Seek_lemmas.rem1 tail) (only parsing).
Notation stream := (Seek_lemmas.stream tail) (only parsing).
Notation PlainRem := (Seek_lemmas.PlainRem tail) (only parsing).

(* an intact run of audio packets of link l that may close with the link's end-of-stream packet:
   that one says where the link ends, inside its own block *)
Fixpoint IntactE (l : linfo) (first : bool) (e : Z) (lW : bool) (ps : list pkt) : Prop :=
  match ps with
  | [] => True
  | p :: r => exists w, pk_W p = Some w /\
       let eh := if first then e else e + (blocksize l lW / 4 + blocksize l w / 4) in
       ((pk_eos p = false /\ (pk_gran p = -1 \/ pk_gran p = li_init l + eh)) \/
        (pk_eos p = true /\ r = [] /\ first = false /\ e <= pk_gran p - li_init l <= eh)) /\
       IntactE l false eh w r
  end.

Lemma intact_e_audio l : forall ps first e lW, IntactE l first e lW ps -> Forall audio ps.
Proof.
  induction ps as [|p r IH]; intros first e lW H; [constructor|].
  cbn in H. destruct H as (w & Hw & _ & Hr). constructor; [exists w; exact Hw|]. eapply IH. exact Hr.
Qed.

(* the run reaches the target: some block of it ends at or after it (the last one ends where the link ends) *)
Fixpoint ReachesE (l : linfo) (first : bool) (e : Z) (lW : bool) (ps : list pkt) (target : Z) : Prop :=
  match ps with
  | [] => False
  | p :: r => match pk_W p with
              | None => False
              | Some w => let eh := if first then e else e + (blocksize l lW / 4 + blocksize l w / 4) in
                          target <= (if pk_eos p then pk_gran p - li_init l else eh) \/ ReachesE l false eh w r target
              end
  end.

(* the state of ov_pcm_seek's packet-discarding loop *)
Definition DPhaseE (s : vfs) (lb : Z) (pos : Z) : Prop :=
  let l := cur_link s in let d := v_dec s in
  let e := v_pcm s - base_of s (v_link s) in
  let target := pos - base_of s (v_link s) in
  0 <= e /\ d_ret d = -1 /\
  ((lb = 0 /\ d_seq d = -1 /\ IntactE l true e false (stream s) /\ ReachesE l true e false (stream s) target /\ v_pcm s <= pos /\
    match stream s with p :: _ => pk_gran p = li_init l + e | [] => False end) \/
   (lb = blocksize l (d_W d) /\ 0 <= d_seq d /\ d_seq d + 1 = v_pno s /\ d_gran d = li_init l + e /\
    IntactE l false e (d_W d) (stream s) /\ ReachesE l false e (d_W d) (stream s) target /\
    v_pcm s + Z.shiftr (lb + li_bs1 l) 2 < pos)).

(* what the loop hands over: the decoder is quiet, the next packet ends at the reported position,
   and either that packet or the decoder carries a granule position *)
Definition ReadyE (s : vfs) (pos : Z) : Prop :=
  exists p q' w e, v_q s = p :: q' /\ pk_W p = Some w /\ PreSync s e p w /\
     (pk_gran p = li_init (cur_link s) + e \/ (0 <= d_seq (v_dec s) /\ 0 <= d_gran (v_dec s))) /\
     IntactE (cur_link s) false e w (q' ++ flat_map pg_pkts (rem1 s)) /\ Core s /\ PlainRem s /\
     (pos - base_of s (v_link s) <= e \/
      ReachesE (cur_link s) false e w (q' ++ flat_map pg_pkts (rem1 s)) (pos - base_of s (v_link s))) /\
     v_pcm s <= pos.

(* the granule position at which the run ends, when it closes with an end-of-stream packet: either that
   packet is still to come, or the decoder has taken it and holds its granule position *)
Variable gend : Z.
Fixpoint ends_at (ps : list pkt) : Prop :=
  match ps with
  | [] => False
  | p :: r => match r with [] => pk_eos p = true /\ pk_gran p = gend | _ => ends_at r end
  end.
Definition EndE (s : vfs) : Prop :=
  match stream s with [] => d_gran (v_dec s) = gend | ps => ends_at ps end.
Lemma ends_at_tl p r : ends_at (p :: r) -> pk_eos p = false -> r <> [] /\ ends_at r.
Proof. cbn [ends_at]. destruct r as [|p2 r2]; [intros [H _] H2; congruence|]. intros H _. split; [discriminate|exact H]. Qed.
Lemma EndE_same s t : stream t = stream s -> d_gran (v_dec t) = d_gran (v_dec s) -> EndE s -> EndE t.
Proof. unfold EndE. intros H1 H2. rewrite H1, H2. tauto. Qed.
Lemma EndE_same_ne s t : stream t = stream s -> stream s <> [] -> EndE s -> EndE t.
Proof. unfold EndE. intros H1 H2. rewrite H1. destruct (Seek_lemmas.stream tail s); [congruence|tauto]. Qed.
Lemma EndE_tl s t p r : stream s = p :: r -> pk_eos p = false -> stream t = r -> EndE s -> EndE t.
Proof.
  unfold EndE. intros H1 H2 H3. rewrite H1, H3. intros H. destruct (ends_at_tl p r H H2) as [A B].
  destruct r; [congruence|exact B].
Qed.

Lemma seek_discard_ready_e : forall fuel s pos lb,
  (length (rem1 s) + length (stream s) < fuel)%nat ->
  Core s -> PlainRem s -> DPhaseE s lb pos ->
  ReadyE (seek_discard fuel s pos lb) pos /\ (EndE s -> EndE (seek_discard fuel s pos lb)).
Proof.
  induction fuel as [|f IH]; intros s pos lb Hfuel Hcore Hpl Hd; [lia|].
  cbn [seek_discard].
  destruct (v_q s) as [|p q'] eqn:Eq.
  - destruct Hpl as (Hfr & Hsplit & Hall).
    destruct (rem1 s) as [|pg r1] eqn:E1.
    + exfalso. destruct Hd as (_ & _ & Hph). unfold Seek_lemmas.stream in Hph. rewrite Eq, E1 in Hph. cbn in Hph.
      destruct Hph as [(_ & _ & _ & F & _)|(_ & _ & _ & _ & _ & F & _)]; exact F.
    + cbn [app] in Hsplit. rewrite Hsplit.
      inversion Hall as [|x y [Hser Hbos] Hrest]; subst x y.
      rewrite Hbos.
      assert (v_rs s = INITSET) as Hrs by (destruct Hcore as (_ & H & _); exact H).
      cbn [v_rs set_rem]. rewrite Hrs. change (INITSET <? STREAMSET) with false. cbn iota.
      assert (os_pagein (set_rem s (r1 ++ tail)) pg = set_q (set_rem s (r1 ++ tail)) (pg_pkts pg) false (v_pno s)) as Hpi.
      { unfold os_pagein. cbn [v_serial set_rem v_fresh v_q v_pno]. rewrite Hser, Z.eqb_refl, Hfr, Eq. reflexivity. }
      rewrite Hpi.
      set (s1 := set_q (set_rem s (r1 ++ tail)) (pg_pkts pg) false (v_pno s)).
      assert (rem1 s1 = r1) as Hr1 by (apply rem1_app; reflexivity).
      assert (stream s1 = stream s) as Hst by (unfold Seek_lemmas.stream; rewrite Hr1, E1, Eq; unfold s1; cbn; reflexivity).
      assert (EndE s -> EndE s1) as HE1 by (intros HE; eapply EndE_same; [exact Hst|reflexivity|exact HE]).
      refine (let H := IH s1 pos lb _ _ _ _ in conj (proj1 H) (fun HE => proj2 H (HE1 HE))).
      * rewrite Hst, Hr1. cbn [length] in Hfuel. lia.
      * eapply view_core; [|exact Hcore]. reflexivity.
      * split; [reflexivity|]. split; [rewrite Hr1; reflexivity|rewrite Hr1; exact Hrest].
      * unfold DPhaseE in *. rewrite Hst. exact Hd.
  - (* a packet at the head of the queue *)
    destruct Hcore as (Hhs & Hrs & Hb0 & Hb1 & Hb01 & Hm0 & Hm1 & Hi & Hpno).
    destruct Hd as (He0 & Hret & Hph).
    set (l := cur_link s) in *. set (d := v_dec s) in *.
    set (e := v_pcm s - base_of s (v_link s)) in *.
    set (target := pos - base_of s (v_link s)) in *.
    assert (stream s = p :: q' ++ flat_map pg_pkts (rem1 s)) as Hst by (unfold Seek_lemmas.stream; rewrite Eq; reflexivity).
    rewrite Hst in Hph.
    (* the head packet: it is not the end-of-stream packet, which lies beyond the point where the loop stops *)
    assert (exists w eh, pk_W p = Some w /\ pk_eos p = false /\ (pk_gran p = -1 \/ pk_gran p = li_init l + eh) /\
                         IntactE l false eh w (q' ++ flat_map pg_pkts (rem1 s)) /\
                         eh = (if lb =? 0 then e else e + Z.shiftr (lb + blocksize l w) 2) /\
                         (d_seq d = -1 \/ (0 <= d_seq d /\ d_seq d + 1 = v_pno s /\
                            0 <= eh - (blocksize l (d_W d) / 4 + blocksize l w / 4) /\
                            tracking l d (eh - (blocksize l (d_W d) / 4 + blocksize l w / 4)))) /\
                         (target <= eh \/ ReachesE l false eh w (q' ++ flat_map pg_pkts (rem1 s)) target) /\
                         (if lb =? 0 then v_pcm s <= pos else v_pcm s + Z.shiftr (lb + li_bs1 l) 2 < pos) /\
                         (pk_gran p = li_init l + eh \/ (0 <= d_seq d /\ d_seq d + 1 = v_pno s /\ 0 <= d_gran d)))
      as (w & eh & Hw & Heos & Hg & Hrest & Heh & Hphase & Hreach & Hle & Hkn).
    { destruct Hph as [(Hlb & Hsq & Hin & Hre & Hle & Hhead)|(Hlb & Hs0 & Hs1 & Ht & Hin & Hre & Hle)]; cbn [IntactE] in Hin; destruct Hin as (w & Hw & Hok & Hr);
        cbn [ReachesE] in Hre; rewrite Hw in Hre.
      - destruct Hok as [(Heos & Hg)|(_ & _ & F & _)]; [|discriminate F]. rewrite Heos in Hre.
        exists w, e. rewrite Hlb. cbn [Z.eqb]. repeat split; try assumption. left. exact Hsq. left. exact Hhead.
      - assert (0 < blocksize l (d_W d)) as Hbpos by (unfold blocksize; destruct (d_W d); lia).
        assert (blocksize l (d_W d) mod 4 = 0) as Hbm by (unfold blocksize; destruct (d_W d); assumption).
        assert (0 < blocksize l w <= li_bs1 l /\ blocksize l w mod 4 = 0) as (Hwpos & Hwm) by (unfold blocksize; destruct w; lia).
        destruct Hok as [(Heos & Hg)|(Heos & Hnil & _ & HL)].
        + rewrite Heos in Hre.
          exists w, (e + (blocksize l (d_W d) / 4 + blocksize l w / 4)). repeat split; try assumption.
          3: { destruct (lb =? 0) eqn:E0; [lia|exact Hle]. }
          * destruct (lb =? 0) eqn:E0; [lia|]. rewrite Hlb, Z.shiftr_div_pow2 by lia. change (2 ^ 2) with 4. lia.
          * right. replace (e + (blocksize l (d_W d) / 4 + blocksize l w / 4) - (blocksize l (d_W d) / 4 + blocksize l w / 4)) with e by lia.
            repeat split; try assumption. right. exact Ht.
          * right. repeat split; try assumption. lia.
        + (* the end-of-stream packet would end before the point the loop has already passed *)
          exfalso. rewrite Heos, Hnil in Hre. cbn [ReachesE] in Hre.
          rewrite Hlb, Z.shiftr_div_pow2 in Hle by lia. change (2 ^ 2) with 4 in Hle.
          unfold target, e in *. destruct Hre as [Hre|[]]. lia. }
    rewrite Hw. fold l.
    set (this := blocksize l w) in *.
    set (s1 := if negb (lb =? 0) then set_pcm s (v_pcm s + Z.shiftr (lb + this) 2) else s).
    assert (view s1 = (v_hs s, v_links s, v_link s, v_serial s, v_rs s, v_dec s, v_pno s, base_of s (v_link s) + eh)) as Hv1.
    { assert (v_pcm s1 = base_of s (v_link s) + eh) as Hp1 by (unfold s1; unfold e in Heh; destruct (lb =? 0) eqn:E0; cbn [negb v_pcm set_pcm]; lia).
      unfold view. rewrite Hp1. unfold s1. destruct (negb (lb =? 0)); reflexivity. }
    assert (v_q s1 = v_q s /\ v_rem s1 = v_rem s /\ v_fresh s1 = v_fresh s /\ v_pages s1 = v_pages s) as (Q1 & Q2 & Q3 & Q4)
      by (unfold s1; destruct (negb (lb =? 0)); cbn; repeat split; reflexivity).
    assert (rem1 s1 = rem1 s) as Q5 by (unfold Seek_lemmas.rem1; rewrite Q2; reflexivity).
    injection Hv1 as V1 V2 V3 V4 V5 V6 V7 V8.
    assert (cur_link s1 = l) as Hl1 by (unfold cur_link, nth_link; rewrite V2, V3; reflexivity).
    assert (base_of s1 (v_link s1) = base_of s (v_link s)) as Hbase1 by (unfold base_of; rewrite V2, V3; reflexivity).
    assert (0 <= eh) as Heh0.
    { assert (0 <= Z.shiftr (lb + this) 2).
      { apply Z.shiftr_nonneg. unfold this. destruct Hph as [(Hlb & _)|(Hlb & _)]; unfold blocksize in *; destruct w, (d_W d); lia. }
      rewrite Heh. destruct (lb =? 0); [exact He0|]. unfold e in *. lia. }
    assert (Core s1) as Hcore1.
    { unfold Core. rewrite Hl1, V1, V5, V7. repeat split; assumption. }
    assert (PreSync s1 eh p w) as Hps.
    { unfold PreSync. rewrite Hl1, V6, V7, V8, Hbase1. fold d.
      unfold cur_cfg. rewrite Hl1, V1. unfold bsz, cfg_of. cbn [bs0 bs1].
      repeat split; try assumption; try lia. }
    assert (PlainRem s1) as Hpl1 by (unfold Seek_lemmas.PlainRem; rewrite Q2, Q3, Q5, V4; exact Hpl).
    assert (v_pcm s1 <= pos) as Hle1.
    { rewrite V8. rewrite Heh. unfold e. destruct (lb =? 0) eqn:E0; [lia|].
      assert (this <= li_bs1 l) by (unfold this, blocksize; destruct w; lia).
      assert (0 <= lb + this) by (destruct Hph as [(Hlb & _)|(Hlb & _)]; unfold this, blocksize in *; destruct w, (d_W d); lia).
      rewrite Z.shiftr_div_pow2 in Hle |- * by lia. change (2 ^ 2) with 4 in *. lia. }
    cbv zeta. destruct (v_pcm s1 + Z.shiftr (this + li_bs1 l) 2 >=? pos) eqn:Estop.
    + (* stop here: hand over *)
      split; [|intros HE; eapply EndE_same; [unfold Seek_lemmas.stream; rewrite Q1, Q5; reflexivity|rewrite V6; reflexivity|exact HE]].
      exists p, q', w, eh. rewrite Q1, Q5, Hl1, Hbase1, V6. fold target. fold d. split; [exact Eq|]. split; [exact Hw|]. split; [exact Hps|].
      split; [destruct Hkn as [Hkn|(K1 & _ & K3)]; [left; exact Hkn|right; split; assumption]|].
      split; [exact Hrest|].
      split; [exact Hcore1|]. split; [exact Hpl1|]. split; [exact Hreach|exact Hle1].
    + (* track this packet only and go on *)
      assert (0 <= Z.shiftr (this + li_bs1 l) 2) as Hx by (apply Z.shiftr_nonneg; unfold this, blocksize; destruct w; lia).
      assert (ReachesE l false eh w (q' ++ flat_map pg_pkts (rem1 s)) target) as Hre2 by (destruct Hreach as [Hle'|Hre]; [unfold target in *; lia|exact Hre]).
      destruct (presync_blockin s1 eh p w false Hcore1 Hps) as (d' & Eb & Hout & Hret' & HW & Hsq & Htr).
      assert (0 <= d_gran d') as Hkn'.
      { apply (blockin_gran_known _ _ _ _ Eb); cbn [k_W k_gran k_seq].
        - rewrite V6. rewrite !bsz_blocksize, Hl1. fold d. assert (0 <= blocksize l (d_W d) / 4 /\ 0 <= blocksize l w / 4) by (unfold blocksize; destruct (d_W d), w; split; apply Z.div_pos; lia). lia.
        - destruct Hg as [Hg|Hg]; [left; exact Hg|right; lia].
        - rewrite V6, V7. fold d. destruct Hkn as [Hkn|(K1 & K2 & K3)]; [left; lia|right; repeat split; lia]. }
      rewrite Eb. rewrite Hl1 in Htr. pose proof (tracking_known l d' eh Htr Hkn') as Hgd'.
      set (s2 := set_dec (set_q s1 q' (v_fresh s1) (v_pno s1 + 1)) d').
      set (s3 := if pk_gran p >? -1 then set_pcm s2 ((if pk_gran p - li_init l <? 0 then 0 else pk_gran p - li_init l) + base_of s2 (v_link s2)) else s2).
      assert (view s3 = (v_hs s, v_links s, v_link s, v_serial s, v_rs s, d', v_pno s + 1, base_of s (v_link s) + eh)) as Hv3.
      { assert (base_of s2 (v_link s2) = base_of s (v_link s)) as Hb2 by (unfold base_of, s2; cbn [v_links v_link set_dec set_q]; rewrite V2, V3; reflexivity).
        assert (v_pcm s3 = base_of s (v_link s) + eh) as Hp3.
        { unfold s3. destruct (pk_gran p >? -1) eqn:Egr.
          - cbn [v_pcm set_pcm]. rewrite Hb2. destruct Hg as [Hg|Hg]; [lia|]. rewrite Hg. destruct (li_init l + eh - li_init l <? 0) eqn:E; lia.
          - unfold s2. cbn [v_pcm set_dec set_q]. exact V8. }
        unfold view. rewrite Hp3. unfold s3, s2. destruct (pk_gran p >? -1); cbn [v_hs v_links v_link v_serial v_rs v_dec v_pno set_pcm set_dec set_q];
          rewrite V1, V2, V3, V4, V5, V7; reflexivity. }
      assert (v_q s3 = q' /\ v_rem s3 = v_rem s /\ v_fresh s3 = v_fresh s) as (R1 & R2 & R3).
      { unfold s3, s2. destruct (pk_gran p >? -1); cbn; rewrite ?Q2, ?Q3; repeat split; reflexivity. }
      assert (rem1 s3 = rem1 s) as R5 by (unfold Seek_lemmas.rem1; rewrite R2; reflexivity).
      injection Hv3 as W1 W2 W3 W4 W5 W6 W7 W8.
      assert (cur_link s3 = l) as Hl3 by (unfold cur_link, nth_link; rewrite W2, W3; reflexivity).
      assert (base_of s3 (v_link s3) = base_of s (v_link s)) as Hbase3 by (unfold base_of; rewrite W2, W3; reflexivity).
      assert (EndE s -> EndE s3) as HE3.
      { intros HE. eapply EndE_tl; [exact Hst|exact Heos| |exact HE]. unfold Seek_lemmas.stream. rewrite R1, R5. reflexivity. }
      refine (let H := IH s3 pos this _ _ _ _ in conj (proj1 H) (fun HE => proj2 H (HE3 HE))).
      * unfold Seek_lemmas.stream. rewrite R1, R5. rewrite Hst in Hfuel. cbn [length] in Hfuel. lia.
      * unfold Core. rewrite Hl3, W1, W5, W7. repeat split; try assumption. lia.
      * unfold Seek_lemmas.PlainRem. rewrite R2, R3, R5, W4. exact Hpl.
      * unfold DPhaseE. rewrite Hl3, W6, W7, W8, Hbase3. unfold Seek_lemmas.stream. rewrite R1, R5. fold target.
        replace (base_of s (v_link s) + eh - base_of s (v_link s)) with eh by lia.
        split; [exact Heh0|]. split; [exact Hret'|]. right. rewrite HW, Hsq.
        repeat split; try assumption; try lia.
Qed.

(* synchronised, possibly with samples still pending: they are the samples at e, e+1, ...; the decoder
   knows the granule position of the end of what is pending *)
Definition NReadyE (s : vfs) (pos : Z) : Prop :=
  exists e, let l := cur_link s in let d := v_dec s in
  Core s /\ PlainRem s /\ 0 <= d_ret d /\ d_ret d <= d_cur d /\ 0 <= d_seq d /\ d_seq d + 1 = v_pno s /\
  v_pcm s = base_of s (v_link s) + e /\ 0 <= e /\ d_gran d = li_init l + (e + (d_cur d - d_ret d)) /\
  IntactE l false (e + (d_cur d - d_ret d)) (d_W d) (stream s) /\
  (pos - base_of s (v_link s) <= e + (d_cur d - d_ret d) \/
   ReachesE l false (e + (d_cur d - d_ret d)) (d_W d) (stream s) (pos - base_of s (v_link s))) /\
  v_pcm s <= pos.
Definition TruthfulE (s : vfs) (pos : Z) : Prop := ReadyE s pos \/ NReadyE s pos.

(* the sample-discarding loop of ov_pcm_seek keeps the position truthful, through the link's last packet too *)
Lemma seek_skip_truthful_e : forall fuel s pos,
  (length (stream s) + (if (v_pcm s <? pos)%Z then 2 else 1) <= fuel)%nat ->
  TruthfulE s pos -> TruthfulE (seek_skip fuel s pos) pos /\ pos <= v_pcm (seek_skip fuel s pos) /\
                     (EndE s -> EndE (seek_skip fuel s pos)).
Proof.
  induction fuel as [|f IH]; intros s pos Hfuel HT; [destruct (v_pcm s <? pos); lia|].
  assert (Core s) as Hcore by (destruct HT as [(p & q' & w & e & _ & _ & _ & _ & _ & H & _)|(e & H & _)]; exact H).
  assert (PlainRem s) as Hpl by (destruct HT as [(p & q' & w & e & _ & _ & _ & _ & _ & _ & H & _)|(e & _ & H & _)]; exact H).
  pose proof Hcore as (Hhs & Hrs & Hb0 & Hb1 & Hb01 & Hm0 & Hm1 & Hi & Hpno).
  cbn [seek_skip]. cbv zeta. rewrite Hhs, !Z.shiftr_0_r, !Z.shiftl_0_r, Hrs. change (INITSET =? INITSET) with true. cbv iota.
  destruct (v_pcm s <? pos) eqn:Elt; [|split; [exact HT|split; [lia|tauto]]].
  destruct (pos - v_pcm s <=? 0) eqn:Et; [lia|].
  destruct HT as [(p & q' & w & e & Eq & Hw & Hps & Hkn & Hin & _ & _ & Hreach & Hle)|(e & _ & _ & Hr0 & Hrc & Hs0 & Hs1 & Hpcm & He0 & Htr & Hin & Hreach & Hle)].
  - (* quiet decoder: nothing to discard yet, take the next packet *)
    set (d := v_dec s) in *. set (l := cur_link s) in *.
    pose proof Hps as (Hret & Hpcm & _).
    assert (dec_pcmout d = 0) as Hout by (unfold dec_pcmout; fold d in Hret; rewrite Hret; reflexivity).
    rewrite Hout. destruct (0 >? pos - v_pcm s) eqn:E1; [lia|].
    rewrite dec_read_zero.
    set (s1 := set_pcm (set_dec s d) (v_pcm s + 0)).
    assert (view s1 = view s) as Hv1 by (unfold view, s1; cbn; rewrite Z.add_0_r; reflexivity).
    destruct (0 <? pos - v_pcm s) eqn:E2; [|lia].
    assert (rem1 s1 = rem1 s) as Hr1 by reflexivity.
    assert (stream s1 = p :: q' ++ flat_map pg_pkts (rem1 s)) as Hst1 by (unfold Seek_lemmas.stream; rewrite Hr1; unfold s1; cbn; rewrite Eq; reflexivity).
    assert (PlainRem s1) as Hpl1 by exact Hpl.
    assert (Forall audio (stream s1)) as Hau.
    { rewrite Hst1. constructor; [exists w; exact Hw|]. eapply intact_e_audio. exact Hin. }
    destruct (fetch_plain tail (fetch_fuel s1) s1 p (q' ++ flat_map pg_pkts (rem1 s)) Hrs Hpl1 Hau) as (w' & s0 & Hw' & Hfe & Hv0 & Hst0 & Hpl0);
      [unfold fetch_fuel; destruct (stream_bound tail s1 Hpl1) as [B1 B2]; lia|exact Hst1|].
    rewrite Hw in Hw'. injection Hw' as <-. rewrite Hfe. change (1 <=? 0) with false. cbv iota.
    rewrite Hv1 in Hv0.
    assert (Core s0) as Hc0 by (eapply view_core; [symmetry; exact Hv0|exact Hcore]).
    assert (PreSync s0 e p w) as Hps0 by (eapply view_presync; [symmetry; exact Hv0|exact Hps]).
    destruct (feed_presync s0 e p w Hc0 Hps0) as (Hsync & Hout' & HW').
    destruct (view_link _ _ Hv0) as (L1 & L2 & L5 & L6 & L7 & _).
    destruct (link_feed s0 p w) as (L3 & L4).
    (* the decoder now knows a granule position *)
    assert (d_gran (v_dec (feed s0 p w)) = li_init l + e) as Hknown.
    { destruct (presync_blockin s0 e p w true Hc0 Hps0) as (d' & Eb & _ & _ & _ & _ & Htr').
      rewrite (feed_dec_eq s0 p w 0 d' Eb). rewrite L1 in Htr'. apply tracking_known; [exact Htr'|].
      destruct Hps0 as (_ & _ & He0 & _ & Hg & Hph).
      apply (blockin_gran_known _ _ _ _ Eb); cbn [k_W k_gran k_seq].
      - rewrite !bsz_blocksize, L1. fold l. assert (0 <= blocksize l (d_W (v_dec s0)) / 4 /\ 0 <= blocksize l w / 4) by (unfold blocksize; destruct (d_W (v_dec s0)), w; split; apply Z.div_pos; lia). lia.
      - rewrite L1 in Hg. fold l in Hg. destruct Hg as [Hg|Hg]; [left; exact Hg|right; lia].
      - rewrite L6, L7. fold d. fold l in Hkn. destruct Hkn as [Hkn|(K1 & K3)]; [left; lia|right].
        rewrite L6, L7 in Hph. fold d in Hph. destruct Hph as [Hf|(Hs0' & Hs1' & _)]; [lia|]. repeat split; lia. }
    assert (EndE s -> EndE (feed s0 p w)) as HEn.
    { intros HE. eapply EndE_tl; [unfold Seek_lemmas.stream; rewrite Eq; reflexivity| |rewrite stream_feed; exact Hst0|exact HE].
      destruct Hps as (_ & _ & _ & H & _); exact H. }
    refine (let H := IH (feed s0 p w) pos _ _ in conj (proj1 H) (conj (proj1 (proj2 H)) (fun HE => proj2 (proj2 H) (HEn HE)))).
    + rewrite stream_feed, Hst0. assert (stream s = p :: q' ++ flat_map pg_pkts (rem1 s)) as Hst by (unfold Seek_lemmas.stream; rewrite Eq; reflexivity).
      rewrite Hst in Hfuel. cbn [length] in Hfuel. destruct (v_pcm (feed s0 p w) <? pos); lia.
    + right. exists e. cbv zeta. rewrite L3, L4, L1, L2, stream_feed, Hst0.
      destruct Hsync as (_ & _ & _ & _ & S5 & S6 & S7 & S8 & S9 & S10 & S11).
      rewrite L4, L2 in S9.
      split; [apply core_feed; exact Hc0|]. split; [apply plain_feed; exact Hpl0|].
      rewrite S5. replace (e + (d_cur (v_dec (feed s0 p w)) - d_cur (v_dec (feed s0 p w)))) with e by lia.
      rewrite HW'. rewrite <- S5. fold l.
      split; [exact S6|]. split; [lia|]. split; [exact S7|]. split; [exact S8|]. split; [exact S9|]. split; [exact S10|]. split; [exact Hknown|].
      split; [exact Hin|]. split; [right; destruct Hreach as [Hle'|Hre]; [lia|exact Hre]|].
      rewrite S9, <- L2. lia.
  - (* samples pending: discard up to the target *)
    cbv zeta in Hin, Htr, Hreach. set (d := v_dec s) in *. set (l := cur_link s) in *.
    set (n := d_cur d - d_ret d) in *.
    assert (dec_pcmout d = n) as Hout.
    { unfold dec_pcmout, n. destruct ((d_ret d >? -1) && (d_ret d <? d_cur d)) eqn:E; lia. }
    rewrite Hout.
    set (target := pos - v_pcm s) in *.
    set (samples := if n >? target then target else n).
    assert (0 <= samples /\ samples <= n /\ samples <= target) as (Hs_0 & Hs_n & Hs_t) by (unfold samples; destruct (n >? target) eqn:E; unfold n, target in *; lia).
    assert (dec_read d samples = (0, {| d_lW := d_lW d; d_W := d_W d; d_centerW := d_centerW d; d_cur := d_cur d; d_ret := d_ret d + samples;
              d_gran := d_gran d; d_seq := d_seq d; d_count := d_count d; d_eof := d_eof d; d_fresh := d_fresh d |})) as Hrd.
    { unfold dec_read. destruct (negb (samples =? 0) && (d_ret d + samples >? d_cur d)) eqn:E; [lia|reflexivity]. }
    rewrite Hrd. set (d1 := {| d_lW := d_lW d; d_ret := d_ret d + samples |}) in *.
    set (s1 := set_pcm (set_dec s d1) (v_pcm s + samples)).
    assert (Core s1) as Hc1 by exact Hcore.
    assert (PlainRem s1) as Hpl1 by exact Hpl.
    assert (stream s1 = stream s) as Hst1 by reflexivity.
    destruct (samples <? target) eqn:Ecmp.
    + (* everything pending is discarded; next packet *)
      assert (samples = n) as Hsn by (unfold samples in *; destruct (n >? target) eqn:E; lia).
      assert (ReachesE l false (e + n) (d_W d) (stream s) (pos - base_of s (v_link s))) as Hre by (destruct Hreach as [Hle'|Hre]; [unfold target in *; lia|exact Hre]).
      destruct (stream s) as [|p r] eqn:Est; [exfalso; exact Hre|].
      cbn [IntactE] in Hin. destruct Hin as (w & Hw & Hok & Hrest).
      cbn [ReachesE] in Hre. rewrite Hw in Hre.
      assert (Forall audio (stream s1)) as Hau.
      { rewrite Hst1. constructor; [exists w; exact Hw|]. eapply intact_e_audio. exact Hrest. }
      destruct (fetch_plain tail (fetch_fuel s1) s1 p r Hrs Hpl1 Hau) as (w' & s0 & Hw' & Hfe & Hv0 & Hst0 & Hpl0);
        [unfold fetch_fuel; destruct (stream_bound tail s1 Hpl1) as [B1 B2]; lia|exact Hst1|].
      rewrite Hw in Hw'. injection Hw' as <-. rewrite Hfe. change (1 <=? 0) with false. cbv iota.
      assert (Core s0) as Hc0 by (eapply view_core; [symmetry; exact Hv0|exact Hc1]).
      destruct (view_link _ _ Hv0) as (L1 & L2 & L5 & L6 & L7 & L8 & _).
      change (cur_link s1) with l in L1. change (base_of s1 (v_link s1)) with (base_of s (v_link s)) in L2.
      change (cur_cfg s1) with (cur_cfg s) in L5. change (v_dec s1) with d1 in L6. change (v_pno s1) with (v_pno s) in L7.
      change (v_pcm s1) with (v_pcm s + samples) in L8.
      assert (SyncInv s0 (e + n)) as Hsy.
      { unfold SyncInv. rewrite L1, L2, L6, L7, L8. destruct Hc0 as (A & _). rewrite A. unfold d1. cbn [d_ret d_cur d_seq d_gran d_count].
        repeat split; try lia. unfold tracking. cbn [d_gran d_count]. right. exact Htr. }
      assert (d_gran (v_dec s0) = li_init (cur_link s0) + (e + n)) as Hk0 by (rewrite L6, L1; unfold d1; cbn [d_gran]; exact Htr).
      destruct (link_feed s0 p w) as (L3 & L4).
      set (stp := blocksize l (d_W d) / 4 + blocksize l w / 4) in *.
      destruct Hok as [(Heos & Hg)|(Heos & Hnil & _ & HL)].
      * (* an ordinary packet *)
        assert (intact s0 (e + n) p w) as Hint.
        { unfold intact. rewrite L5, L6, L1. unfold d1. cbn [d_W]. rewrite !bsz_blocksize. fold l. split; [exact Heos|].
          destruct Hg as [Hg|Hg]; [left; exact Hg|right]. fold stp in Hg. lia. }
        pose proof (feed_sync_pending s0 (e + n) p w Hsy Hint) as Hfs. cbv zeta in Hfs.
        pose proof (feed_known s0 (e + n) p w Hsy Hint Hk0) as Hfk.
        rewrite L5, L6, L1, ?L8 in Hfs, Hfk. change (d_W d1) with (d_W d) in Hfs, Hfk. rewrite !bsz_blocksize in Hfs, Hfk. fold l in Hfs, Hfk. fold stp in Hfs, Hfk.
        destruct Hfs as (G1 & G2 & G3 & G4 & G5 & G6 & G7).
        rewrite Heos in Hre.
        assert (EndE s -> EndE (feed s0 p w)) as HEn.
        { intros HE. eapply EndE_tl; [exact Est|exact Heos|rewrite stream_feed; exact Hst0|exact HE]. }
        refine (let H := IH (feed s0 p w) pos _ _ in conj (proj1 H) (conj (proj1 (proj2 H)) (fun HE => proj2 (proj2 H) (HEn HE)))).
        -- rewrite stream_feed, Hst0. cbn [length] in Hfuel. destruct (v_pcm (feed s0 p w) <? pos); lia.
        -- right. exists (e + n). cbv zeta. rewrite L3, L4, L1, L2, stream_feed, Hst0, G2, G7.
           split; [apply core_feed; exact Hc0|]. split; [apply plain_feed; exact Hpl0|].
           destruct (feed_fields s0 p w) as (_ & _ & _ & _ & _ & _ & _ & _ & F9 & _).
           rewrite F9, G4, G5, L7. repeat split; try assumption; try lia.
      * (* the link's last packet: what is left of the link becomes pending *)
        subst r. rewrite Heos in Hre. cbn [ReachesE] in Hre.
        set (L := pk_gran p - li_init l) in *.
        assert (pos - base_of s (v_link s) <= L) as HposL by (destruct Hre as [Hre|[]]; exact Hre).
        pose proof (feed_eos_pending s0 (e + n) p w L Hsy Hk0 Heos) as Hfe'. cbv zeta in Hfe'.
        rewrite L5, L6, L1, ?L8 in Hfe'. change (d_W d1) with (d_W d) in Hfe'. rewrite !bsz_blocksize in Hfe'. fold l in Hfe'. fold stp in Hfe'.
        destruct Hfe' as (G1 & G2 & G4 & G5 & G6 & G7); [unfold L; lia|lia|].
        assert (EndE s -> EndE (feed s0 p w)) as HEn.
        { unfold EndE. rewrite Est, stream_feed, Hst0. cbn [ends_at]. intros [_ HE]. rewrite G6. unfold L. lia. }
        refine (let H := IH (feed s0 p w) pos _ _ in conj (proj1 H) (conj (proj1 (proj2 H)) (fun HE => proj2 (proj2 H) (HEn HE)))).
        -- rewrite stream_feed, Hst0. cbn [length] in Hfuel |- *. destruct (v_pcm (feed s0 p w) <? pos); lia.
        -- right. exists (e + n). cbv zeta. rewrite L3, L4, L1, L2, stream_feed, Hst0, G2, G7.
           split; [apply core_feed; exact Hc0|]. split; [apply plain_feed; exact Hpl0|].
           destruct (feed_fields s0 p w) as (_ & _ & _ & _ & _ & _ & _ & _ & F9 & _).
           rewrite F9, G4, G5, L7. cbn [IntactE]. repeat split; try assumption; try lia.
    + (* the target lies inside what is pending *)
      assert (EndE s -> EndE s1) as HEn by (intros HE; eapply EndE_same; [exact Hst1|reflexivity|exact HE]).
      refine (let H := IH s1 pos _ _ in conj (proj1 H) (conj (proj1 (proj2 H)) (fun HE => proj2 (proj2 H) (HEn HE)))).
      * rewrite Hst1. change (v_pcm s1) with (v_pcm s + samples). destruct (v_pcm s + samples <? pos) eqn:E; [lia|]. lia.
      * right. exists (e + samples). cbv zeta.
        change (cur_link s1) with l. change (v_dec s1) with d1. change (base_of s1 (v_link s1)) with (base_of s (v_link s)).
        change (v_pno s1) with (v_pno s). change (v_pcm s1) with (v_pcm s + samples). rewrite Hst1.
        unfold d1. cbn [d_ret d_cur d_seq d_W d_gran].
        replace (e + samples + (d_cur d - (d_ret d + samples))) with (e + n) by lia.
        split; [exact Hc1|]. split; [exact Hpl1|]. repeat split; try assumption; try lia.
Qed.

(* where ov_pcm_seek_page leaves the handle: as in Seek_lemmas.Landed, with the run allowed to close with
   the end-of-stream packet, and the first queued packet carrying its granule position (it is the
   packet that completed the page the bisection chose) *)
Definition LandedE (s1 : vfs) (pos : Z) : Prop :=
  let l := cur_link s1 in let e := v_pcm s1 - base_of s1 (v_link s1) in
  v_hs s1 = 0 /\
  (v_rs s1 = STREAMSET \/ (v_rs s1 = INITSET /\ d_ret (v_dec s1) = -1 /\ d_seq (v_dec s1) = -1)) /\
  0 < li_bs0 l /\ 0 < li_bs1 l /\ li_bs0 l <= li_bs1 l /\ li_bs0 l mod 4 = 0 /\ li_bs1 l mod 4 = 0 /\
  0 <= li_init l /\ 0 <= v_pno s1 /\ PlainRem s1 /\ 0 <= e /\ IntactE l true e false (stream s1) /\
  ReachesE l true e false (stream s1) (pos - base_of s1 (v_link s1)) /\ v_pcm s1 <= pos /\
  match stream s1 with p :: _ => pk_gran p = li_init l + e | [] => False end.

Lemma landed_ready_e s1 pos : LandedE s1 pos ->
  let s2 := make_ready s1 in Core s2 /\ PlainRem s2 /\ DPhaseE s2 0 pos /\ stream s2 = stream s1 /\ v_rem s2 = v_rem s1 /\ v_q s2 = v_q s1.
Proof.
  intros (Hhs & Hrs & Hb0 & Hb1 & Hb01 & Hm0 & Hm1 & Hi & Hpno & Hpl & He & Hin & Hre & Hle & Hhead).
  unfold make_ready. destruct Hrs as [Hrs|(Hrs & Hret & Hseq)]; rewrite Hrs.
  - change (STREAMSET =? STREAMSET) with true. cbv iota.
    set (s2 := set_rs (set_dec s1 (dec_init (cur_cfg s1))) INITSET).
    assert (cur_link s2 = cur_link s1) as HL by reflexivity.
    split; [unfold Core; rewrite HL; repeat split; assumption|].
    split; [exact Hpl|]. split; [|repeat split; reflexivity].
    unfold DPhaseE. rewrite HL. change (base_of s2 (v_link s2)) with (base_of s1 (v_link s1)). change (v_pcm s2) with (v_pcm s1).
    change (Seek_lemmas.stream tail s2) with (stream s1). change (v_dec s2) with (dec_init (cur_cfg s1)).
    split; [exact He|]. split; [reflexivity|]. left. split; [reflexivity|]. split; [reflexivity|]. split; [exact Hin|]. split; [exact Hre|]. split; [exact Hle|exact Hhead].
  - change (INITSET =? STREAMSET) with false. cbv iota.
    split; [unfold Core; repeat split; assumption|]. split; [exact Hpl|]. split; [|repeat split; reflexivity].
    unfold DPhaseE. split; [exact He|]. split; [exact Hret|]. left. split; [reflexivity|]. split; [exact Hseq|]. split; [exact Hin|]. split; [exact Hre|]. split; [exact Hle|exact Hhead].
Qed.

(* ov_pcm_seek on a link that is intact up to its end: the position it reports is truthful *)
Theorem pcm_seek_truthful_e s pos s1 :
  pcm_seek_page s pos = (0, s1) -> LandedE s1 pos ->
  fst (pcm_seek s pos) = 0 /\ TruthfulE (snd (pcm_seek s pos)) pos /\ v_pcm (snd (pcm_seek s pos)) = pos /\
  (EndE s1 -> EndE (snd (pcm_seek s pos))).
Proof.
  intros Hpage Hland. unfold pcm_seek. rewrite Hpage. change (0 <? 0) with false. cbv iota. cbn [fst snd].
  split; [reflexivity|].
  destruct (landed_ready_e s1 pos Hland) as (Hc2 & Hpl2 & Hd2 & Hst2 & Hr2 & Hq2).
  set (s2 := make_ready s1) in *.
  pose proof (seek_discard_ready_e (length (v_rem s2) + pkt_count (v_rem s2) + length (v_q s2) + 2) s2 pos 0) as Hdis.
  set (s3 := seek_discard (length (v_rem s2) + pkt_count (v_rem s2) + length (v_q s2) + 2) s2 pos 0) in *.
  assert (ReadyE s3 pos /\ (EndE s2 -> EndE s3)) as [Hready HE23].
  { apply Hdis; try assumption. destruct (stream_bound tail s2 Hpl2) as [B1 B2]. lia. }
  assert (EndE s1 -> EndE s2) as HE12.
  { intros HE. eapply EndE_same_ne; [exact Hst2| |exact HE].
    destruct Hland as (_ & _ & _ & _ & _ & _ & _ & _ & _ & _ & _ & _ & _ & _ & Hh). destruct (Seek_lemmas.stream tail s1); [contradiction|discriminate]. }
  assert (PlainRem s3) as Hpl3 by (destruct Hready as (p & q' & w & e & _ & _ & _ & _ & _ & _ & H & _); exact H).
  destruct (seek_skip_truthful_e (pkt_count (v_rem s3) + length (v_q s3) + 3) s3 pos) as (HT & Hge & HE34); [|left; exact Hready|].
  { destruct (stream_bound tail s3 Hpl3) as [B1 B2]. destruct (v_pcm s3 <? pos); lia. }
  split; [exact HT|].
  assert (v_pcm (seek_skip (pkt_count (v_rem s3) + length (v_q s3) + 3) s3 pos) <= pos) as Hle.
  { destruct HT as [(p & q' & w & e & _ & _ & _ & _ & _ & _ & _ & _ & H)|(e & _ & _ & _ & _ & _ & _ & _ & _ & _ & _ & _ & H)]; exact H. }
  split; [lia|]. intros HE. apply HE34, HE23, HE12, HE.
Qed.

(* what "truthful" buys: the samples delivered next are those at the reported position, and the decoder
   stays in sync, knowing its granule position *)
Lemma nready_e_drain s pos : NReadyE s pos ->
  exists e, v_pcm s = base_of s (v_link s) + e /\
    let '(n, s2) := drain s in
    0 <= n /\ SyncInv s2 (e + n) /\ v_pcm s2 = v_pcm s + n /\ d_gran (v_dec s2) = li_init (cur_link s) + (e + n) /\
    IntactE (cur_link s) false (e + n) (d_W (v_dec s2)) (stream s2) /\ stream s2 = stream s.
Proof.
  intros (e & Hcore & Hpl & Hr0 & Hrc & Hs0 & Hs1 & Hpcm & He0 & Htr & Hin & _). cbv zeta in *.
  exists e. split; [exact Hpcm|]. unfold drain.
  set (d := v_dec s) in *. set (n := d_cur d - d_ret d) in *.
  assert (dec_pcmout d = n) as Hout.
  { unfold dec_pcmout, n. destruct ((d_ret d >? -1) && (d_ret d <? d_cur d)) eqn:E; lia. }
  rewrite Hout. unfold dec_read. destruct (negb (n =? 0) && (d_ret d + n >? d_cur d)) eqn:E; [lia|].
  destruct Hcore as (Hhs & Hrs & Hb0 & Hb1 & Hb01 & Hm0 & Hm1 & Hi & Hpno).
  split; [lia|]. split; [|split; [reflexivity|split; [exact Htr|split; [exact Hin|reflexivity]]]].
  unfold SyncInv. cbn [v_hs v_dec v_pno v_pcm set_pcm set_dec d_ret d_cur d_seq].
  change (cur_link (set_pcm (set_dec s _) _)) with (cur_link s).
  change (base_of (set_pcm (set_dec s _) _) _) with (base_of s (v_link s)).
  repeat split; try assumption; try lia. right. exact Htr.
Qed.

(* executable versions of the file conditions *)
Fixpoint intactEb (l : linfo) (first : bool) (e : Z) (lW : bool) (ps : list pkt) : bool :=
  match ps with
  | [] => true
  | p :: r => match pk_W p with
              | None => false
              | Some w => let eh := if first then e else e + (blocksize l lW / 4 + blocksize l w / 4) in
                          ((negb (pk_eos p) && ((pk_gran p =? -1) || (pk_gran p =? li_init l + eh))) ||
                           (pk_eos p && (match r with [] => true | _ => false end) && negb first &&
                            (e <=? pk_gran p - li_init l) && (pk_gran p - li_init l <=? eh))) && intactEb l false eh w r
              end
  end.
Fixpoint reachesEb (l : linfo) (first : bool) (e : Z) (lW : bool) (ps : list pkt) (target : Z) : bool :=
  match ps with
  | [] => false
  | p :: r => match pk_W p with
              | None => false
              | Some w => let eh := if first then e else e + (blocksize l lW / 4 + blocksize l w / 4) in
                          (target <=? (if pk_eos p then pk_gran p - li_init l else eh)) || reachesEb l false eh w r target
              end
  end.
Lemma intactEb_ok l : forall ps first e lW, intactEb l first e lW ps = true -> IntactE l first e lW ps.
Proof.
  induction ps as [|p r IH]; intros first e lW H; cbn [intactEb IntactE] in *; [exact I|].
  destruct (pk_W p) as [w|]; [|discriminate]. exists w. split; [reflexivity|].
  apply andb_prop in H. destruct H as [H H3]. split; [|apply IH; exact H3].
  apply orb_prop in H. destruct H as [H|H].
  - left. apply andb_prop in H. destruct H as [H1 H2]. split; [destruct (pk_eos p); [discriminate|reflexivity]|].
    apply orb_prop in H2. destruct H2 as [H2|H2]; [left|right]; lia.
  - right. repeat (apply andb_prop in H; let H' := fresh "C" in destruct H as [H H']).
    split; [exact H|]. split; [destruct r; [reflexivity|discriminate]|]. split; [destruct first; [discriminate|reflexivity]|]. lia.
Qed.
Lemma reachesEb_ok l : forall ps first e lW target, reachesEb l first e lW ps target = true -> ReachesE l first e lW ps target.
Proof.
  induction ps as [|p r IH]; intros first e lW target H; cbn [reachesEb ReachesE] in *; [discriminate|].
  destruct (pk_W p) as [w|]; [|discriminate].
  apply orb_prop in H. destruct H as [H|H]; [left; lia|right; apply IH; exact H].
Qed.
Definition file_intact_eb (s1 : vfs) (pos : Z) : bool :=
  let l := cur_link s1 in let e := v_pcm s1 - base_of s1 (v_link s1) in
  (0 <? li_bs0 l) && (0 <? li_bs1 l) && (li_bs0 l <=? li_bs1 l) && (li_bs0 l mod 4 =? 0) && (li_bs1 l mod 4 =? 0) && (0 <=? li_init l) &&
  negb (v_fresh s1) &&
  forallb (fun pg => (pg_serial pg =? v_serial s1) && negb (pg_bos pg)) (rem1 s1) &&
  (match stream s1 with p :: _ => pk_gran p =? li_init l + e | [] => false end) &&
  intactEb l true e false (stream s1) && reachesEb l true e false (stream s1) (pos - base_of s1 (v_link s1)).

Definition FileIntactE (s1 : vfs) (pos : Z) : Prop :=
  let l := cur_link s1 in let e := v_pcm s1 - base_of s1 (v_link s1) in
  0 < li_bs0 l /\ 0 < li_bs1 l /\ li_bs0 l <= li_bs1 l /\ li_bs0 l mod 4 = 0 /\ li_bs1 l mod 4 = 0 /\ 0 <= li_init l /\
  PlainRem s1 /\ IntactE l true e false (stream s1) /\ ReachesE l true e false (stream s1) (pos - base_of s1 (v_link s1)) /\
  match stream s1 with p :: _ => pk_gran p = li_init l + e | [] => False end.

Lemma file_intact_eb_ok s1 pos : file_intact_eb s1 pos = true -> v_rem s1 = rem1 s1 ++ tail -> FileIntactE s1 pos.
Proof.
  unfold file_intact_eb, FileIntactE, Seek_lemmas.PlainRem. intros H Hsplit.
  repeat (apply andb_prop in H; let H' := fresh "C" in destruct H as [H H']).
  apply intactEb_ok in C0. apply reachesEb_ok in C.
  assert (Forall (plain (v_serial s1)) (rem1 s1)) as Hpl.
  { apply Forall_forall. intros pg Hin. rewrite forallb_forall in C2. specialize (C2 pg Hin).
    apply andb_prop in C2. destruct C2 as [A B]. split; [lia|destruct (pg_bos pg); [discriminate|reflexivity]]. }
  assert (match stream s1 with p :: _ => pk_gran p = li_init (cur_link s1) + (v_pcm s1 - base_of s1 (v_link s1)) | [] => False end) as Hhead
    by (destruct (stream s1); [discriminate|lia]).
  repeat split; try assumption; try lia. destruct (v_fresh s1); [discriminate|reflexivity].
Qed.

Theorem pcm_seek_intact_e s pos s1 :
  v_hs s = 0 -> OPENED <= v_rs s <= INITSET ->
  pcm_seek_page s pos = (0, s1) -> fallback s pos = false -> FileIntactE s1 pos ->
  fst (pcm_seek s pos) = 0 /\ TruthfulE (snd (pcm_seek s pos)) pos /\ v_pcm (snd (pcm_seek s pos)) = pos /\
  (EndE s1 -> EndE (snd (pcm_seek s pos))).
Proof.
  intros Hhs Hrs Hpage Hfb (Hb0 & Hb1 & Hb01 & Hm0 & Hm1 & Hi & Hpl & Hin & Hre & Hhead).
  destruct (page_seek_facts s pos s1 Hpage Hfb Hrs) as (F1 & F2 & F3 & F4 & F5).
  apply (pcm_seek_truthful_e s pos s1 Hpage).
  unfold LandedE. rewrite F1. split; [exact Hhs|]. split; [exact F2|]. repeat (split; [assumption|]). split; [lia|]. split; [exact Hin|]. split; [exact Hre|]. split; [lia|exact Hhead].
Qed.

(* the first fetch from a handed-over state: the queued packet goes in quietly and the handle is in sync *)
Lemma ready_e_fetch s pos : ReadyE s pos ->
  exists p rest w s0, stream s = p :: rest /\ pk_eos p = false /\
    fetch (fetch_fuel s) s = (1, feed s0 p w) /\ NReadyE (feed s0 p w) pos /\ stream (feed s0 p w) = rest /\
    v_pcm (feed s0 p w) = v_pcm s /\ d_ret (v_dec (feed s0 p w)) = d_cur (v_dec (feed s0 p w)) /\
    cur_link (feed s0 p w) = cur_link s /\ base_of (feed s0 p w) (v_link (feed s0 p w)) = base_of s (v_link s).
Proof.
  intros (p & q' & w & e & Eq & Hw & Hps & Hkn & Hin & Hcore & Hpl & Hreach & Hle).
  pose proof Hcore as (Hhs & Hrs & Hb0 & Hb1 & Hb01 & Hm0 & Hm1 & Hi & Hpno).
  set (d := v_dec s) in *. set (l := cur_link s) in *.
  assert (stream s = p :: q' ++ flat_map pg_pkts (rem1 s)) as Hst1 by (unfold Seek_lemmas.stream; rewrite Eq; reflexivity).
  assert (Forall audio (stream s)) as Hau.
  { rewrite Hst1. constructor; [exists w; exact Hw|]. eapply intact_e_audio. exact Hin. }
  destruct (fetch_plain tail (fetch_fuel s) s p (q' ++ flat_map pg_pkts (rem1 s)) Hrs Hpl Hau) as (w' & s0 & Hw' & Hfe & Hv0 & Hst0 & Hpl0);
    [unfold fetch_fuel; destruct (stream_bound tail s Hpl) as [B1 B2]; lia|exact Hst1|].
  rewrite Hw in Hw'. injection Hw' as <-.
  assert (Core s0) as Hc0 by (eapply view_core; [symmetry; exact Hv0|exact Hcore]).
  assert (PreSync s0 e p w) as Hps0 by (eapply view_presync; [symmetry; exact Hv0|exact Hps]).
  destruct (feed_presync s0 e p w Hc0 Hps0) as (Hsync & Hout' & HW').
  destruct (view_link _ _ Hv0) as (L1 & L2 & L5 & L6 & L7 & L8 & _).
  destruct (link_feed s0 p w) as (L3 & L4).
  assert (d_gran (v_dec (feed s0 p w)) = li_init l + e) as Hknown.
  { destruct (presync_blockin s0 e p w true Hc0 Hps0) as (d' & Eb & _ & _ & _ & _ & Htr').
    rewrite (feed_dec_eq s0 p w 0 d' Eb). rewrite L1 in Htr'. apply tracking_known; [exact Htr'|].
    destruct Hps0 as (_ & _ & He0 & _ & Hg & Hph).
    apply (blockin_gran_known _ _ _ _ Eb); cbn [k_W k_gran k_seq].
    - rewrite !bsz_blocksize, L1. fold l. assert (0 <= blocksize l (d_W (v_dec s0)) / 4 /\ 0 <= blocksize l w / 4) by (unfold blocksize; destruct (d_W (v_dec s0)), w; split; apply Z.div_pos; lia). lia.
    - rewrite L1 in Hg. fold l in Hg. destruct Hg as [Hg|Hg]; [left; exact Hg|right; lia].
    - rewrite L6, L7. fold d. fold l in Hkn. destruct Hkn as [Hkn|(K1 & K3)]; [left; lia|right].
      rewrite L6, L7 in Hph. fold d in Hph. destruct Hph as [Hf|(Hs0' & Hs1' & _)]; [lia|]. repeat split; lia. }
  destruct Hsync as (_ & _ & _ & _ & S5 & S6 & S7 & S8 & S9 & S10 & S11).
  rewrite L4, L2 in S9.
  exists p, (q' ++ flat_map pg_pkts (rem1 s)), w, s0.
  split; [exact Hst1|]. split; [destruct Hps as (_ & _ & _ & H & _); exact H|]. split; [exact Hfe|].
  split; [|split; [rewrite stream_feed; exact Hst0|split; [|split; [exact S5|split; [rewrite L3; exact L1|rewrite L4; exact L2]]]]].
  - exists e. cbv zeta. rewrite L3, L4, L1, L2, stream_feed, Hst0.
    split; [apply core_feed; exact Hc0|]. split; [apply plain_feed; exact Hpl0|].
    rewrite S5. replace (e + (d_cur (v_dec (feed s0 p w)) - d_cur (v_dec (feed s0 p w)))) with e by lia.
    rewrite HW'. rewrite <- S5. fold l.
    split; [exact S6|]. split; [lia|]. split; [exact S7|]. split; [exact S8|]. split; [exact S9|]. split; [exact S10|]. split; [exact Hknown|].
    split; [exact Hin|]. split; [destruct Hreach as [Hle'|Hre]; [left; lia|right; exact Hre]|].
    rewrite S9. destruct Hps as (_ & Hpcm & _). lia.
  - rewrite S9. destruct Hps as (_ & Hpcm & _). lia.
Qed.

(* a run that closes with the end-of-stream packet cannot extend beyond the position that packet gives *)
Lemma intact_e_end l : 0 < li_bs0 l -> 0 < li_bs1 l ->
  forall ps e lW, IntactE l false e lW ps -> ends_at ps -> e <= gend - li_init l.
Proof.
  intros Hb0 Hb1. induction ps as [|p r IH]; intros e lW Hin Hend; [contradiction|].
  cbn [IntactE] in Hin. destruct Hin as (w & Hw & Hok & Hrest).
  assert (0 <= blocksize l lW / 4 + blocksize l w / 4) as Hstp.
  { assert (0 <= blocksize l lW / 4 /\ 0 <= blocksize l w / 4) by (unfold blocksize; destruct lW, w; split; apply Z.div_pos; lia). lia. }
  destruct r as [|p2 r2].
  - cbn [ends_at] in Hend. destruct Hend as [He Hg]. destruct Hok as [(F & _)|(_ & _ & _ & HL)]; [congruence|]. lia.
  - destruct Hok as [_|(_ & F & _)]; [|discriminate F].
    assert (ends_at (p2 :: r2)) as Hend2 by exact Hend.
    specialize (IH _ _ Hrest Hend2). lia.
Qed.

End TailE.

(* the run chosen on concrete page tables: the pages of the current link after the cursor, up to and
   including the first one that carries an end-of-stream packet *)
Fixpoint run_split_e (serial : Z) (pgs : list page) : list page * list page :=
  match pgs with
  | [] => ([], [])
  | pg :: r =>
      if (pg_serial pg =? serial) && negb (pg_bos pg) then
        if existsb pk_eos (pg_pkts pg) then ([pg], r)
        else let '(a, b) := run_split_e serial r in (pg :: a, b)
      else ([], pgs)
  end.
Definition auto_tail_e (s1 : vfs) : list page := snd (run_split_e (v_serial s1) (v_rem s1)).
Lemma run_split_e_app serial pgs : pgs = fst (run_split_e serial pgs) ++ snd (run_split_e serial pgs).
Proof.
  induction pgs as [|pg r IH]; [reflexivity|]. cbn [run_split_e].
  destruct ((pg_serial pg =? serial) && negb (pg_bos pg)); [|reflexivity].
  destruct (existsb pk_eos (pg_pkts pg)); [reflexivity|].
  destruct (run_split_e serial r) as [a b]. cbn [fst snd] in *. rewrite IH at 1. reflexivity.
Qed.
Lemma auto_tail_e_split s1 : v_rem s1 = rem1 (auto_tail_e s1) s1 ++ auto_tail_e s1.
Proof.
  unfold auto_tail_e. pose proof (run_split_e_app (v_serial s1) (v_rem s1)) as H.
  rewrite (rem1_app (snd (run_split_e (v_serial s1) (v_rem s1))) s1 (fst (run_split_e (v_serial s1) (v_rem s1))) H). exact H.
Qed.

(* the hypotheses of pcm_seek_intact_e as one executable test *)
Definition seek_hyps_e (s : vfs) (pos : Z) : bool :=
  let r := pcm_seek_page s pos in
  (v_hs s =? 0) && (OPENED <=? v_rs s) && (v_rs s <=? INITSET) && (fst r =? 0) && negb (fallback s pos) &&
  file_intact_eb (auto_tail_e (snd r)) (snd r) pos.

Theorem pcm_seek_checked_e s pos :
  seek_hyps_e s pos = true ->
  fst (pcm_seek s pos) = 0 /\ v_pcm (snd (pcm_seek s pos)) = pos /\
  TruthfulE (auto_tail_e (snd (pcm_seek_page s pos))) (snd (pcm_seek s pos)) pos /\
  forall gend, EndE (auto_tail_e (snd (pcm_seek_page s pos))) gend (snd (pcm_seek_page s pos)) ->
               EndE (auto_tail_e (snd (pcm_seek_page s pos))) gend (snd (pcm_seek s pos)).
Proof.
  unfold seek_hyps_e. intros H.
  repeat (apply andb_prop in H; let H' := fresh "C" in destruct H as [H H']).
  destruct (pcm_seek_page s pos) as [rc s1] eqn:Ep. cbn [fst snd] in *.
  assert (rc = 0) by lia. subst rc.
  assert (fallback s pos = false) as Hfb by (destruct (fallback s pos); [discriminate|reflexivity]).
  assert (FileIntactE (auto_tail_e s1) s1 pos) as Hfi by (apply file_intact_eb_ok; [exact C|apply auto_tail_e_split]).
  destruct (pcm_seek_intact_e (auto_tail_e s1) 0 s pos s1) as (A & B & D & _); try assumption; try lia.
  split; [exact A|]. split; [exact D|]. split; [exact B|].
  intros gend. destruct (pcm_seek_intact_e (auto_tail_e s1) gend s pos s1) as (_ & _ & _ & E); try assumption; try lia.
Qed.


(* ---- the end of the physical stream: nothing follows the run ---------------------------------------- *)

(* pages without packets, then nothing: end of file *)
Lemma fetch_at_end : forall fuel s,
  v_rs s = INITSET -> PlainRem [] s -> stream [] s = [] -> (length (v_rem s) < fuel)%nat ->
  exists s', fetch fuel s = (OV_EOF_, s').
Proof.
  induction fuel as [|f IH]; intros s Hrs Hpl Hst Hf; [lia|].
  cbn [fetch]. rewrite (make_ready_initset s Hrs). rewrite Hrs. cbn [Z.eqb Pos.eqb andb].
  assert (v_q s = []) as Eq by (unfold stream in Hst; destruct (v_q s); [reflexivity|discriminate]).
  rewrite Eq.
  destruct Hpl as (Hfr & Hsplit & Hall).
  destruct (rem1 [] s) as [|pg r1] eqn:E1.
  - cbn [app] in Hsplit. rewrite Hsplit. eexists. reflexivity.
  - cbn [app] in Hsplit. rewrite Hsplit.
    inversion Hall as [|x y [Hser Hbos] Hrest]; subst x y.
    cbn [v_rs set_rem v_serial]. rewrite Hrs, Hser. rewrite !Z.eqb_refl. change (INITSET <? STREAMSET) with false. cbn [negb andb].
    assert (os_pagein (set_rem s (r1 ++ [])) pg = set_q (set_rem s (r1 ++ [])) (pg_pkts pg) false (v_pno s)) as Hpi.
    { unfold os_pagein. cbn [v_serial set_rem v_fresh v_q v_pno]. rewrite Hser, Z.eqb_refl, Hfr, Eq. reflexivity. }
    rewrite Hpi.
    set (s1 := set_q (set_rem s (r1 ++ [])) (pg_pkts pg) false (v_pno s)).
    assert (rem1 [] s1 = r1) as Hr1 by (apply rem1_app; reflexivity).
    assert (stream [] s1 = stream [] s) as Hst1 by (unfold stream; rewrite Hr1, E1, Eq; unfold s1; cbn; reflexivity).
    apply IH.
    + exact Hrs.
    + split; [reflexivity|]. split; [rewrite Hr1; reflexivity|rewrite Hr1; exact Hrest].
    + rewrite Hst1. exact Hst.
    + unfold s1. cbn [v_rem set_q set_rem]. rewrite Hsplit in Hf. cbn [length] in Hf. lia.
Qed.

(* in sync exactly at the position the end-of-stream packet gives, nothing after the run: the next read
   reports end of file *)
Lemma nready_end_eof gend s pos len : forall fuel, (2 <= fuel)%nat ->
  NReadyE [] s pos -> EndE [] gend s -> v_pcm s = pos ->
  pos - base_of s (v_link s) = gend - li_init (cur_link s) ->
  fst (fst (read_float fuel s len)) = 0.
Proof.
  intros fuel Hfuel (e & Hcore & Hpl & Hr0 & Hrc & Hs0 & Hs1 & Hpcm & He0 & Htr & Hin & Hreach & Hle) HE Hpos Hend.
  cbv zeta in *. set (d := v_dec s) in *. set (l := cur_link s) in *. set (n := d_cur d - d_ret d) in *.
  pose proof Hcore as (Hhs & Hrs & Hb0 & Hb1 & Hb01 & Hm0 & Hm1 & Hi & Hpno).
  fold l in Hb0, Hb1, Hb01, Hm0, Hm1, Hi.
  assert (e = gend - li_init l) as Hee by lia.
  destruct fuel as [|f]; [lia|]. cbn [read_float]. rewrite Hrs. change (INITSET =? INITSET) with true. cbv iota.
  unfold EndE in HE.
  destruct (stream [] s) as [|p r] eqn:Est.
  - (* the end-of-stream packet has been taken *)
    fold d in HE. assert (n = 0) as Hn by lia.
    assert (dec_pcmout d = 0) as Hout by (unfold dec_pcmout; destruct ((d_ret d >? -1) && (d_ret d <? d_cur d)) eqn:E; unfold n in *; lia).
    fold d. rewrite Hout. change (negb (0 =? 0)) with false. cbv iota.
    destruct (fetch_at_end (fetch_fuel s) s Hrs Hpl Est) as (s' & Hf'); [unfold fetch_fuel; lia|].
    rewrite Hf'. change (OV_EOF_ =? OV_EOF_) with true. reflexivity.
  - cbn [IntactE] in Hin. destruct Hin as (w & Hw & Hok & Hrest).
    set (stp := blocksize l (d_W d) / 4 + blocksize l w / 4) in *.
    destruct r as [|p2 r2].
    + (* the end-of-stream packet is next, and adds nothing *)
      cbn [ends_at] in HE. destruct HE as [Heos Hg].
      destruct Hok as [(F & _)|(_ & _ & _ & HL)]; [congruence|].
      assert (n = 0) as Hn by lia.
      assert (dec_pcmout d = 0) as Hout by (unfold dec_pcmout; destruct ((d_ret d >? -1) && (d_ret d <? d_cur d)) eqn:E; unfold n in *; lia).
      fold d. rewrite Hout. change (negb (0 =? 0)) with false. cbv iota.
      assert (Forall audio (stream [] s)) as Hau by (rewrite Est; constructor; [exists w; exact Hw|constructor]).
      destruct (fetch_plain [] (fetch_fuel s) s p [] Hrs Hpl Hau) as (w' & s0 & Hw' & Hfe & Hv0 & Hst0 & Hpl0);
        [unfold fetch_fuel; destruct (stream_bound [] s Hpl) as [B1 B2]; lia|exact Est|].
      rewrite Hw in Hw'. injection Hw' as <-. rewrite Hfe.
      change (1 =? OV_EOF_) with false. change (1 <=? 0) with false. cbv iota.
      assert (Core s0) as Hc0 by (eapply view_core; [symmetry; exact Hv0|exact Hcore]).
      destruct (view_link _ _ Hv0) as (L1 & L2 & L5 & L6 & L7 & L8 & _).
      fold l in L1. fold d in L6.
      assert (d_ret d = d_cur d) as Hrc0 by (unfold n in *; lia).
      assert (d_gran d = li_init l + e) as Htr0 by (unfold n in *; lia).
      assert (SyncInv s0 e) as Hsy.
      { unfold SyncInv. rewrite L1, L2, L6, L7, L8. destruct Hc0 as (A & _). rewrite A.
        repeat split; try lia; try (apply Z.lt_le_incl; assumption); try assumption. right. exact Htr0. }
      assert (d_gran (v_dec s0) = li_init (cur_link s0) + e) as Hk0 by (rewrite L6, L1; exact Htr0).
      pose proof (feed_eos_pending s0 e p w (pk_gran p - li_init l) Hsy Hk0 Heos) as Hfe'. cbv zeta in Hfe'.
      rewrite L5, L6, L1 in Hfe'. rewrite !bsz_blocksize in Hfe'. fold l in Hfe'. fold stp in Hfe'.
      destruct Hfe' as (G1 & G2 & G4 & G5 & G6 & G7); [lia|lia|].
      destruct f as [|f']; [lia|]. cbn [read_float].
      assert (Core (feed s0 p w)) as Hcf by (apply core_feed; exact Hc0).
      destruct Hcf as (_ & Hrsf & _). rewrite Hrsf. change (INITSET =? INITSET) with true. cbv iota.
      assert (dec_pcmout (v_dec (feed s0 p w)) = 0) as Hout2.
      { unfold dec_pcmout. destruct ((d_ret (v_dec (feed s0 p w)) >? -1) && (d_ret (v_dec (feed s0 p w)) <? d_cur (v_dec (feed s0 p w)))) eqn:E; lia. }
      rewrite Hout2. change (negb (0 =? 0)) with false. cbv iota.
      destruct (fetch_at_end (fetch_fuel (feed s0 p w)) (feed s0 p w) Hrsf (plain_feed [] s0 p w Hpl0)) as (s' & Hf');
        [rewrite stream_feed; exact Hst0|unfold fetch_fuel; lia|].
      rewrite Hf'. change (OV_EOF_ =? OV_EOF_) with true. reflexivity.
    + (* more than one packet left: the run would extend beyond its own end *)
      exfalso. destruct Hok as [_|(_ & F & _)]; [|discriminate F].
      assert (ends_at gend (p2 :: r2)) as HE2 by exact HE.
      pose proof (intact_e_end gend l Hb0 Hb1 _ _ _ Hrest HE2) as Hb.
      assert (1 <= blocksize l (d_W d) / 4 /\ 1 <= blocksize l w / 4) by (unfold blocksize; destruct (d_W d), w; lia).
      unfold stp, n in *. lia.
Qed.

(* after a sample-accurate seek to the end of the last link, the next read reports end of file *)
Theorem seek_end_then_eof gend s pos len :
  TruthfulE [] s pos -> EndE [] gend s -> v_pcm s = pos ->
  pos - base_of s (v_link s) = gend - li_init (cur_link s) ->
  fst (fst (read_float (read_fuel s) s len)) = 0.
Proof.
  intros [HR|HN] HE Hpos Hend.
  - pose proof HR as (p0 & q0 & w0 & e0 & Eq & _ & Hps & _ & _ & Hcore & _).
    destruct (ready_e_fetch [] s pos HR) as (p & rest & w & s0 & Hst & Heos & Hfe & HNf & Hstf & Hpcmf & Hrc & Hlf & Hbf).
    destruct Hcore as (_ & Hrs & _). destruct Hps as (Hret & _).
    destruct (read_fuel s) as [|f] eqn:Ef; [unfold read_fuel in Ef; rewrite Eq in Ef; cbn [length] in Ef; lia|].
    assert (2 <= f)%nat as Hf2 by (unfold read_fuel in Ef; rewrite Eq in Ef; cbn [length] in Ef; lia).
    cbn [read_float].
    rewrite Hrs. change (INITSET =? INITSET) with true. cbv iota.
    assert (dec_pcmout (v_dec s) = 0) as Hout by (unfold dec_pcmout; rewrite Hret; reflexivity).
    rewrite Hout. change (negb (0 =? 0)) with false. cbv iota. rewrite Hfe.
    change (1 =? OV_EOF_) with false. change (1 <=? 0) with false. cbv iota.
    apply (nready_end_eof gend _ pos); [exact Hf2|exact HNf| |lia|rewrite Hlf, Hbf; exact Hend].
    eapply EndE_tl; [exact Hst|exact Heos|exact Hstf|exact HE].
  - apply (nready_end_eof gend _ pos); [unfold read_fuel; lia|exact HN|exact HE|exact Hpos|exact Hend].
Qed.

Fixpoint ends_atb (gend : Z) (ps : list pkt) : bool :=
  match ps with
  | [] => false
  | p :: r => match r with [] => pk_eos p && (pk_gran p =? gend) | _ => ends_atb gend r end
  end.
Lemma ends_atb_ok gend : forall ps, ends_atb gend ps = true -> ends_at gend ps.
Proof.
  induction ps as [|p r IH]; [discriminate|]. cbn [ends_atb ends_at]. destruct r as [|p2 r2]; [|exact IH].
  intros H. apply andb_prop in H. destruct H as [A B]. split; [exact A|lia].
Qed.

(* the hypotheses of "seek to the end, then end of file" as one executable test: the sample seek is covered
   by pcm_seek_checked_e, nothing follows the run in the file, and the run closes with an end-of-stream
   packet whose granule position is the target *)
Definition seek_end_hyps (s : vfs) (pos : Z) : bool :=
  let s1 := snd (pcm_seek_page s pos) in
  let s' := snd (pcm_seek s pos) in
  seek_hyps_e s pos && (match auto_tail_e s1 with [] => true | _ => false end) &&
  ends_atb (pos - base_of s' (v_link s') + li_init (cur_link s')) (stream [] s1).

Theorem seek_to_end_checked s pos len :
  seek_end_hyps s pos = true ->
  let s' := snd (pcm_seek s pos) in
  fst (pcm_seek s pos) = 0 /\ v_pcm s' = pos /\ fst (fst (read_float (read_fuel s') s' len)) = 0.
Proof.
  unfold seek_end_hyps. intros H. apply andb_prop in H. destruct H as [H H3]. apply andb_prop in H. destruct H as [H1 H2].
  destruct (pcm_seek_checked_e s pos H1) as (A & B & T & E).
  destruct (auto_tail_e (snd (pcm_seek_page s pos))) as [|x y] eqn:Et; [|discriminate].
  cbv zeta. split; [exact A|]. split; [exact B|].
  set (s' := snd (pcm_seek s pos)) in *. set (s1 := snd (pcm_seek_page s pos)) in *.
  set (gend := pos - base_of s' (v_link s') + li_init (cur_link s')) in *.
  apply (seek_end_then_eof gend s' pos len T); [|exact B|unfold gend; lia].
  apply E. unfold EndE. apply ends_atb_ok in H3. destruct (stream [] s1); [contradiction|exact H3].
Qed.
