(* Priming (_ov_initprime: fetch until something is pending) after a truthful seek keeps the reported
   position: the bookkeeping behind "a lapped seek lands where the plain seek lands" (lemmas for C19).
   A lapped seek is the plain seek, then priming, then vorbis_synthesis_lapout and the splice, which
   do not touch the position. *)
From VV Require Import Blocking Blocking_lemmas VFile VFile_lemmas Decoder_lemmas Sync_lemmas Seek_lemmas Term_lemmas Read_lemmas.
From Coq Require Import ZArith List Bool Lia ZifyBool.
Import ListNotations.
Local Open Scope Z_scope.
Ltac Zify.zify_post_hook ::= Z.div_mod_to_equations.

Lemma pending_core s : Core s -> pending s = dec_pcmout (v_dec s).
Proof. intros (_ & Hrs & _). unfold pending. rewrite Hrs. reflexivity. Qed.

(* a synchronised handle with nothing pending: one fetch makes the next block step pending, position unchanged *)
Lemma prime_from_sync (tail : list page) : forall f s e p r,
  Core s -> PlainRem tail s -> SyncInv s e -> dec_pcmout (v_dec s) = 0 ->
  stream tail s = p :: r -> IntactS (cur_link s) false e (d_W (v_dec s)) (p :: r) ->
  exists sp, prime (S (S f)) s = PReady sp /\ v_pcm sp = v_pcm s /\ 0 < pending sp.
Proof.
  intros f s e p r Hc Hpl Hsy Hout Hst Hin.
  cbn [IntactS] in Hin. destruct Hin as (w & Hw & Heos & Hg & Hrest).
  pose proof Hc as (Hhs & Hrs & Hb0 & Hb1 & Hb01 & Hm0 & Hm1 & Hi & Hpno).
  assert (Forall audio (stream tail s)) as Hau.
  { rewrite Hst. constructor; [exists w; exact Hw|]. eapply intact_audio. exact Hrest. }
  destruct (fetch_plain tail (fetch_fuel s) s p r Hrs Hpl Hau) as (w' & s0 & Hw' & Hfe & Hv0 & Hst0 & Hpl0);
    [unfold fetch_fuel; destruct (stream_bound tail s Hpl) as [B1 B2]; lia|exact Hst|].
  rewrite Hw in Hw'. injection Hw' as <-.
  destruct (view_link _ _ Hv0) as (L1 & L2 & L5 & L6 & L7 & L8 & L9).
  assert (SyncInv s0 e) as Hsy0 by (eapply view_sync; [symmetry; exact Hv0|exact Hsy]).
  assert (intact s0 e p w) as Hint.
  { unfold intact. rewrite L5, L6, L1. rewrite !bsz_blocksize. split; [exact Heos|]. destruct Hg as [Hg|Hg]; [left; exact Hg|right; lia]. }
  pose proof (feed_sync_pending s0 e p w Hsy0 Hint) as Hfs. cbv zeta in Hfs.
  destruct Hfs as (G1 & G2 & G3 & G4 & G5 & G6 & G7).
  assert (Core s0) as Hc0 by (eapply view_core; [symmetry; exact Hv0|exact Hc]).
  assert (0 < bsz (cur_cfg s0) (d_W (v_dec s0)) / 4 + bsz (cur_cfg s0) w / 4) as Hpos.
  { rewrite !bsz_blocksize. destruct Hc0 as (_ & _ & C0 & C1 & _ & M0 & M1 & _). unfold blocksize. destruct (d_W (v_dec s0)), w; lia. }
  exists (feed s0 p w). split; [|split].
  - cbn [prime]. rewrite (pending_core s Hc), Hout. cbn [Z.eqb negb]. rewrite Hfe. change (1 =? OV_EOF_) with false. change (1 <=? 0) with false. cbv iota.
    rewrite (pending_core _ (core_feed s0 p w Hc0)).
    assert (dec_pcmout (v_dec (feed s0 p w)) = bsz (cur_cfg s0) (d_W (v_dec s0)) / 4 + bsz (cur_cfg s0) w / 4) as Hp.
    { unfold dec_pcmout. destruct ((d_ret (v_dec (feed s0 p w)) >? -1) && (d_ret (v_dec (feed s0 p w)) <? d_cur (v_dec (feed s0 p w)))) eqn:E; lia. }
    rewrite Hp. assert (negb (bsz (cur_cfg s0) (d_W (v_dec s0)) / 4 + bsz (cur_cfg s0) w / 4 =? 0) = true) as -> by lia. reflexivity.
  - rewrite G5. exact L8.
  - rewrite (pending_core _ (core_feed s0 p w Hc0)).
    unfold dec_pcmout. destruct ((d_ret (v_dec (feed s0 p w)) >? -1) && (d_ret (v_dec (feed s0 p w)) <? d_cur (v_dec (feed s0 p w)))) eqn:E; lia.
Qed.


(* priming (fetch until something is pending) after a truthful seek leaves the reported position where it is:
   the bookkeeping behind "a lapped seek lands where the plain seek lands" *)
Theorem priming_keeps_position (tail : list page) s pos :
  Truthful tail s pos -> (2 <= length (stream tail s))%nat ->
  exists sp, prime (read_fuel s) s = PReady sp /\ v_pcm sp = v_pcm s /\ 0 < pending sp.
Proof.
  intros HT Hlen.
  assert (exists f, read_fuel s = S (S (S f))) as [f Hf] by (unfold read_fuel; exists (pkt_count (v_rem s) + length (v_q s))%nat; lia).
  rewrite Hf.
  destruct HT as [(p & q' & w & e & Eq & Hw & Hps & Hin & Hcore & Hpl & _)|(e & Hcore & Hpl & Hr0 & Hrc & Hs0 & Hs1 & Hpcm & He0 & Htr & Hin & _)].
  - (* quiet decoder: the first fetch brings it in sync, the second makes a block step pending *)
    pose proof Hcore as (Hhs & Hrs & Hb0 & Hb1 & Hb01 & Hm0 & Hm1 & Hi & Hpno).
    pose proof Hps as (Hret & Hpc & _).
    assert (pending s = 0) as Hp0.
    { rewrite (pending_core s Hcore). unfold dec_pcmout. rewrite Hret. reflexivity. }
    assert (stream tail s = p :: q' ++ flat_map pg_pkts (rem1 tail s)) as Hst by (unfold stream; rewrite Eq; reflexivity).
    assert (Forall audio (stream tail s)) as Hau.
    { rewrite Hst. constructor; [exists w; exact Hw|]. eapply intact_audio. exact Hin. }
    destruct (fetch_plain tail (fetch_fuel s) s p (q' ++ flat_map pg_pkts (rem1 tail s)) Hrs Hpl Hau) as (w' & s0 & Hw' & Hfe & Hv0 & Hst0 & Hpl0);
      [unfold fetch_fuel; destruct (stream_bound tail s Hpl) as [B1 B2]; lia|exact Hst|].
    rewrite Hw in Hw'. injection Hw' as <-.
    assert (Core s0) as Hc0 by (eapply view_core; [symmetry; exact Hv0|exact Hcore]).
    assert (PreSync s0 e p w) as Hps0 by (eapply view_presync; [symmetry; exact Hv0|exact Hps]).
    destruct (feed_presync s0 e p w Hc0 Hps0) as (Hsync & Hout' & HW').
    destruct (view_link _ _ Hv0) as (L1 & L2 & _). destruct (link_feed s0 p w) as (L3 & L4).
    destruct (q' ++ flat_map pg_pkts (rem1 tail s)) as [|p2 r2] eqn:Erest; [rewrite Hst in Hlen; cbn in Hlen; lia|].
    destruct (prime_from_sync tail f (feed s0 p w) e p2 r2) as (sp & Hpr & Hpc2 & Hpend).
    + apply core_feed. exact Hc0.
    + apply plain_feed. exact Hpl0.
    + exact Hsync.
    + exact Hout'.
    + rewrite (stream_feed tail), Hst0. reflexivity.
    + rewrite L3, L1, HW'. exact Hin.
    + exists sp. split; [|split; [|exact Hpend]].
      * cbn [prime]. rewrite Hp0. cbn [Z.eqb negb]. rewrite Hfe. change (1 =? OV_EOF_) with false. change (1 <=? 0) with false. cbv iota. exact Hpr.
      * rewrite Hpc2. destruct Hsync as (_ & _ & _ & _ & _ & _ & _ & _ & S9 & _). rewrite S9, L4, L2. lia.
  - cbv zeta in *. set (d := v_dec s) in *. set (l := cur_link s) in *.
    destruct (Z.eq_dec (d_cur d - d_ret d) 0) as [Hz|Hnz].
    + (* nothing pending: one fetch *)
      pose proof Hcore as (Hhs & Hrs & Hb0 & Hb1 & Hb01 & Hm0 & Hm1 & Hi & Hpno).
      destruct (stream tail s) as [|p r] eqn:Est; [cbn in Hlen; lia|].
      rewrite Hz, Z.add_0_r in Htr, Hin.
      assert (SyncInv s e) as Hsy.
      { unfold SyncInv. unfold l, d in *. repeat split; try assumption; try lia. }
      assert (dec_pcmout d = 0) as Hout by (unfold dec_pcmout; destruct ((d_ret d >? -1) && (d_ret d <? d_cur d)) eqn:E; lia).
      destruct (prime_from_sync tail (S f) s e p r Hcore Hpl Hsy Hout Est Hin) as (sp & A & B & C).
      exists sp. repeat split; assumption.
    + exists s. split; [apply prime_ready_self|split; [reflexivity|]]; rewrite (pending_core s Hcore); fold d;
        unfold dec_pcmout; destruct ((d_ret d >? -1) && (d_ret d <? d_cur d)) eqn:E; lia.
Qed.
